package routing

import (
	"fmt"
	"hash/crc32"
	"testing"

	"pgregory.net/rapid"
	"verif.local/kit"
)

func verifC21Key() *rapid.Generator[string] {
	return rapid.Custom(func(t *rapid.T) string {
		switch rapid.IntRange(0, 4).Draw(t, "keyKind") {
		case 0:
			return rapid.String().Draw(t, "utf8")
		case 1:
			return rapid.StringMatching(`[a-zA-Z0-9_@#&:\-]{0,24}`).Draw(t, "ident")
		default:
			return string(kit.Bytes(4096).Draw(t, "raw"))
		}
	})
}

func verifC21Count() *rapid.Generator[uint16] {
	return rapid.Custom(func(t *rapid.T) uint16 {
		switch rapid.IntRange(0, 3).Draw(t, "cntKind") {
		case 0:
			return rapid.SampledFrom([]uint16{1, 2, 3, 7, 16, 64, 255, 256, 257, 1024, 4096, 32767, 32768, 65535}).Draw(t, "cntEdge")
		default:
			return uint16(rapid.IntRange(1, 65535).Draw(t, "cnt"))
		}
	})
}

// TestVerifC21Routing: routing.HashSlotForKey and every Router/Table lookup
// place a key in crc32(key) mod count, below count, deterministically.
func TestVerifC21Routing(t *testing.T) {
	kit.Check(t, "C21", func(rt *rapid.T, k *kit.Case) {
		key := verifC21Key().Draw(rt, "key")
		n := verifC21Count().Draw(rt, "count")
		want := uint16(crc32.ChecksumIEEE([]byte(key)) % uint32(n))
		got := HashSlotForKey(key, n)
		if got != want {
			rt.Fatalf("routing.HashSlotForKey(%q,%d)=%d want %d", key, n, got, want)
		}
		if got >= n {
			rt.Fatalf("hash slot %d not below count %d", got, n)
		}
		// unrelated calls in between must not influence the result
		other := verifC21Key().Draw(rt, "other")
		_ = HashSlotForKey(other, verifC21Count().Draw(rt, "otherCount"))
		if again := HashSlotForKey(key, n); again != got {
			rt.Fatalf("not deterministic: %d then %d", got, again)
		}
		if checksumIEEEString(key) != crc32.ChecksumIEEE([]byte(key)) {
			rt.Fatalf("checksumIEEEString(%q) differs from crc32.ChecksumIEEE", key)
		}
		// through a real route table
		table := &Table{HashSlotCount: n, HashToSlot: make([]uint32, int(n)), SlotLeaders: map[uint32]uint64{}, SlotLeaderTerms: map[uint32]uint64{}, SlotConfigEpochs: map[uint32]uint64{}}
		for i := range table.HashToSlot {
			table.HashToSlot[i] = uint32(i%5) + 1
		}
		for s := uint32(1); s <= 5; s++ {
			table.SlotLeaders[s] = uint64(s)
		}
		r := NewRouter()
		r.current.Store(table)
		route, err := r.RouteKey(key)
		if err != nil {
			rt.Fatalf("RouteKey: %v", err)
		}
		if route.HashSlot != want || route.SlotID != uint32(int(want)%5)+1 {
			rt.Fatalf("RouteKey(%q) hashSlot=%d slot=%d want hashSlot %d", key, route.HashSlot, route.SlotID, want)
		}
		keys := []string{other, key, key}
		routes, err := r.RouteKeys(keys)
		if err != nil || routes[1].HashSlot != want || routes[2].HashSlot != want {
			rt.Fatalf("RouteKeys mismatch: %v %+v want %d", err, routes, want)
		}
		auth, err := r.RouteAuthorities(keys)
		if err != nil || auth[1].HashSlot != want || auth[2].HashSlot != want {
			rt.Fatalf("RouteAuthorities mismatch: %v want %d", err, want)
		}
		pa, err := r.RouteAuthoritiesPartial(keys)
		if err != nil || pa[1].Err != nil || pa[1].Authority.HashSlot != want {
			rt.Fatalf("RouteAuthoritiesPartial mismatch: %v want %d", err, want)
		}
		pk, err := r.RouteKeysPartial(keys)
		if err != nil || pk[1].Err != nil || pk[1].Route.HashSlot != want {
			rt.Fatalf("RouteKeysPartial mismatch: %v want %d", err, want)
		}
		k.Key(key, n)
		k.SetNonTrivial(len(key) > 0 && n > 1)
		k.LabelIf(len(key) == 0, "empty key")
		k.LabelIf(len(key) > 64, "key > 64 bytes")
		k.LabelIf(n > 4096, "count > 4096")
		k.Sample(func() any { return fmt.Sprintf("key=%q count=%d slot=%d", trunc(key), n, got) })
	})
}

func trunc(s string) string {
	if len(s) > 40 {
		return s[:40] + "…"
	}
	return s
}

// TestVerifC21Exhaustive: a fixed key set against every count 1..65535.
func TestVerifC21Exhaustive(t *testing.T) {
	col := kit.For(t, "C21")
	keys := []string{"", "a", "u1", "user-42", "g:abc@def", "\x00", "\xff\xfe", "频道", "0123456789abcdef0123456789abcdef"}
	for _, key := range keys {
		sum := crc32.ChecksumIEEE([]byte(key))
		for n := 1; n <= 65535; n++ {
			if got, want := HashSlotForKey(key, uint16(n)), uint16(sum%uint32(n)); got != want {
				t.Fatalf("HashSlotForKey(%q,%d)=%d want %d", key, n, got, want)
			}
		}
		k := col.NewCase()
		k.Key("exhaustive", key)
		k.NonTrivial()
		k.Label("exhaustive over counts 1..65535")
		key := key
		k.Sample(func() any { return fmt.Sprintf("key=%q × all counts 1..65535", key) })
		col.Commit(k)
	}
}
