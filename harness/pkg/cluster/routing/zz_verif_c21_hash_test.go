package routing

import (
	"errors"
	"fmt"
	"hash/crc32"
	"testing"

	"pgregory.net/rapid"
	"verif.local/kit"
)

func verifC21Key() *rapid.Generator[string] {
	return rapid.Custom(func(t *rapid.T) string {
		switch rapid.IntRange(0, 4).Draw(t, "keyKind") {
		case 0:
			return rapid.String().Draw(t, "utf8")
		case 1:
			return rapid.StringMatching(`[a-zA-Z0-9_@#&:\-]{0,24}`).Draw(t, "ident")
		default:
			return string(kit.Bytes(4096).Draw(t, "raw"))
		}
	})
}

func verifC21Count() *rapid.Generator[uint16] {
	return rapid.Custom(func(t *rapid.T) uint16 {
		switch rapid.IntRange(0, 3).Draw(t, "cntKind") {
		case 0:
			return rapid.SampledFrom([]uint16{1, 2, 3, 7, 16, 64, 255, 256, 257, 1024, 4096, 32767, 32768, 65535}).Draw(t, "cntEdge")
		default:
			return uint16(rapid.IntRange(1, 65535).Draw(t, "cnt"))
		}
	})
}

// TestVerifC21Routing: routing.HashSlotForKey and every Router/Table lookup
// place a key in crc32(key) mod count, below count, deterministically.
func TestVerifC21Routing(t *testing.T) {
	kit.Check(t, "C21", func(rt *rapid.T, k *kit.Case) {
		key := verifC21Key().Draw(rt, "key")
		n := verifC21Count().Draw(rt, "count")
		want := uint16(crc32.ChecksumIEEE([]byte(key)) % uint32(n))
		got := HashSlotForKey(key, n)
		if got != want {
			rt.Fatalf("routing.HashSlotForKey(%q,%d)=%d want %d", key, n, got, want)
		}
		if got >= n {
			rt.Fatalf("hash slot %d not below count %d", got, n)
		}
		// unrelated calls in between must not influence the result
		other := verifC21Key().Draw(rt, "other")
		_ = HashSlotForKey(other, verifC21Count().Draw(rt, "otherCount"))
		if again := HashSlotForKey(key, n); again != got {
			rt.Fatalf("not deterministic: %d then %d", got, again)
		}
		if checksumIEEEString(key) != crc32.ChecksumIEEE([]byte(key)) {
			rt.Fatalf("checksumIEEEString(%q) differs from crc32.ChecksumIEEE", key)
		}
		// through a real route table
		table := &Table{HashSlotCount: n, HashToSlot: make([]uint32, int(n)), SlotLeaders: map[uint32]uint64{}, SlotLeaderTerms: map[uint32]uint64{}, SlotConfigEpochs: map[uint32]uint64{}}
		for i := range table.HashToSlot {
			table.HashToSlot[i] = uint32(i%5) + 1
		}
		for s := uint32(1); s <= 5; s++ {
			table.SlotLeaders[s] = uint64(s)
		}
		r := NewRouter()
		r.current.Store(table)
		route, err := r.RouteKey(key)
		if err != nil {
			rt.Fatalf("RouteKey: %v", err)
		}
		if route.HashSlot != want || route.SlotID != uint32(int(want)%5)+1 {
			rt.Fatalf("RouteKey(%q) hashSlot=%d slot=%d want hashSlot %d", key, route.HashSlot, route.SlotID, want)
		}
		keys := []string{other, key, key}
		routes, err := r.RouteKeys(keys)
		if err != nil || routes[1].HashSlot != want || routes[2].HashSlot != want {
			rt.Fatalf("RouteKeys mismatch: %v %+v want %d", err, routes, want)
		}
		auth, err := r.RouteAuthorities(keys)
		if err != nil || auth[1].HashSlot != want || auth[2].HashSlot != want {
			rt.Fatalf("RouteAuthorities mismatch: %v want %d", err, want)
		}
		pa, err := r.RouteAuthoritiesPartial(keys)
		if err != nil || pa[1].Err != nil || pa[1].Authority.HashSlot != want {
			rt.Fatalf("RouteAuthoritiesPartial mismatch: %v want %d", err, want)
		}
		pk, err := r.RouteKeysPartial(keys)
		if err != nil || pk[1].Err != nil || pk[1].Route.HashSlot != want {
			rt.Fatalf("RouteKeysPartial mismatch: %v want %d", err, want)
		}
		k.Key(key, n)
		k.SetNonTrivial(len(key) > 0 && n > 1)
		k.LabelIf(len(key) == 0, "empty key")
		k.LabelIf(len(key) > 64, "key > 64 bytes")
		k.LabelIf(n > 4096, "count > 4096")
		k.Sample(func() any { return fmt.Sprintf("key=%q count=%d slot=%d", trunc(key), n, got) })
	})
}

func trunc(s string) string {
	if len(s) > 40 {
		return s[:40] + "…"
	}
	return s
}

// TestVerifC21Exhaustive: a fixed key set against every count 1..65535.
func TestVerifC21Exhaustive(t *testing.T) {
	col := kit.For(t, "C21")
	keys := []string{"", "a", "u1", "user-42", "g:abc@def", "\x00", "\xff\xfe", "频道", "0123456789abcdef0123456789abcdef"}
	for _, key := range keys {
		sum := crc32.ChecksumIEEE([]byte(key))
		for n := 1; n <= 65535; n++ {
			if got, want := HashSlotForKey(key, uint16(n)), uint16(sum%uint32(n)); got != want {
				t.Fatalf("HashSlotForKey(%q,%d)=%d want %d", key, n, got, want)
			}
		}
		k := col.NewCase()
		k.Key("exhaustive", key)
		k.NonTrivial()
		k.Label("exhaustive over counts 1..65535")
		key := key
		k.Sample(func() any { return fmt.Sprintf("key=%q × all counts 1..65535", key) })
		col.Commit(k)
	}
}

// TestVerifC21RoutingBatches: in a batch lookup the hash slot, Slot and outcome
// of every key depend on that key alone — not on its neighbours in the batch,
// not on whether an earlier key failed. Small counts and a small key pool make
// adjacent repeats, repeats of failing keys and mixed outcomes frequent; some
// hash slots are unassigned and some Slots have no leader.
func TestVerifC21RoutingBatches(t *testing.T) {
	kit.Check(t, "C21", func(rt *rapid.T, k *kit.Case) {
		n := uint16(rapid.IntRange(1, 16).Draw(rt, "count"))
		table := &Table{Revision: 7, HashSlotCount: n, HashToSlot: make([]uint32, int(n)), SlotLeaders: map[uint32]uint64{}, SlotLeaderTerms: map[uint32]uint64{}, SlotConfigEpochs: map[uint32]uint64{}}
		for i := range table.HashToSlot {
			table.HashToSlot[i] = uint32(rapid.IntRange(0, 4).Draw(rt, "slotOfHashSlot")) // 0 = unassigned
		}
		for s := uint32(1); s <= 4; s++ {
			if rapid.IntRange(0, 2).Draw(rt, "hasLeader") > 0 {
				table.SlotLeaders[s] = uint64(s) + 10
				table.SlotLeaderTerms[s] = uint64(s) + 100
			}
			table.SlotConfigEpochs[s] = uint64(s) + 1000
		}
		pool := make([]string, rapid.IntRange(1, 5).Draw(rt, "poolSize"))
		for i := range pool {
			pool[i] = verifC21Key().Draw(rt, "poolKey")
		}
		keys := make([]string, rapid.IntRange(1, 12).Draw(rt, "batch"))
		for i := range keys {
			keys[i] = pool[rapid.IntRange(0, len(pool)-1).Draw(rt, "pick")]
		}
		type expect struct {
			hashSlot uint16
			slot     uint32
			leader   uint64
			err      error
		}
		want := make([]expect, len(keys))
		anyFail, anyOK, repeatAfterFail := false, false, false
		for i, key := range keys {
			e := expect{hashSlot: uint16(crc32.ChecksumIEEE([]byte(key)) % uint32(n))}
			e.slot = table.HashToSlot[int(e.hashSlot)]
			switch {
			case e.slot == 0:
				e.err = ErrRouteNotReady
			case table.SlotLeaders[e.slot] == 0:
				e.err = ErrNoSlotLeader
			default:
				e.leader = table.SlotLeaders[e.slot]
			}
			want[i] = e
			if e.err != nil {
				anyFail = true
				if i > 0 && keys[i-1] == key {
					repeatAfterFail = true
				}
			} else {
				anyOK = true
			}
		}
		r := NewRouter()
		r.current.Store(table)
		pa, err := r.RouteAuthoritiesPartial(keys)
		if err != nil || len(pa) != len(keys) {
			rt.Fatalf("RouteAuthoritiesPartial: err=%v results=%d keys=%d", err, len(pa), len(keys))
		}
		for i, got := range pa {
			e := want[i]
			if e.err != nil {
				if got.Err == nil || !errors.Is(got.Err, e.err) {
					rt.Fatalf("RouteAuthoritiesPartial key %d %q (hash slot %d of %d, Slot %d): got authority %+v err %v, want %v — the outcome of a key depends on its batch neighbours (keys %q)", i, trunc(keys[i]), e.hashSlot, n, e.slot, got.Authority, got.Err, e.err, keys)
				}
				continue
			}
			if got.Err != nil || got.Authority.HashSlot != e.hashSlot || got.Authority.SlotID != e.slot || got.Authority.LeaderNodeID != e.leader ||
				got.Authority.LeaderTerm != uint64(e.slot)+100 || got.Authority.ConfigEpoch != uint64(e.slot)+1000 || got.Authority.RouteRevision != 7 {
				rt.Fatalf("RouteAuthoritiesPartial key %d %q: got %+v err %v, want hash slot %d Slot %d leader %d", i, trunc(keys[i]), got.Authority, got.Err, e.hashSlot, e.slot, e.leader)
			}
		}
		auth, err := r.RouteAuthorities(keys)
		if anyFail {
			if err == nil {
				rt.Fatalf("RouteAuthorities succeeded although a key of the batch cannot be routed: %+v", auth)
			}
		} else {
			if err != nil || len(auth) != len(keys) {
				rt.Fatalf("RouteAuthorities: %v", err)
			}
			for i, got := range auth {
				if got.HashSlot != want[i].hashSlot || got.SlotID != want[i].slot || got.LeaderNodeID != want[i].leader {
					rt.Fatalf("RouteAuthorities key %d %q: got %+v want hash slot %d Slot %d leader %d", i, trunc(keys[i]), got, want[i].hashSlot, want[i].slot, want[i].leader)
				}
			}
		}
		pk, err := r.RouteKeysPartial(keys)
		if err != nil || len(pk) != len(keys) {
			rt.Fatalf("RouteKeysPartial: err=%v results=%d", err, len(pk))
		}
		for i, got := range pk {
			if got.Err == nil && (got.Route.HashSlot != want[i].hashSlot || got.Route.SlotID != want[i].slot) {
				rt.Fatalf("RouteKeysPartial key %d %q: got hash slot %d Slot %d, want %d / %d", i, trunc(keys[i]), got.Route.HashSlot, got.Route.SlotID, want[i].hashSlot, want[i].slot)
			}
			if got.Err == nil && want[i].slot == 0 {
				rt.Fatalf("RouteKeysPartial key %d %q routed although hash slot %d is unassigned", i, trunc(keys[i]), want[i].hashSlot)
			}
		}
		k.Key(n, fmt.Sprint(table.HashToSlot), fmt.Sprint(table.SlotLeaders), keys)
		k.SetNonTrivial(anyFail && anyOK)
		k.LabelIf(repeatAfterFail, "a failing key repeated right after itself")
		k.LabelIf(anyFail && anyOK, "batch with routable and unroutable keys")
		k.Sample(func() any { return fmt.Sprintf("count=%d batch=%d fail=%v ok=%v", n, len(keys), anyFail, anyOK) })
	})
}
