package clusternet

import (
	"bytes"
	"errors"
	"fmt"
	"testing"

	"pgregory.net/rapid"
	"verif.local/kit"
)

// TestVerifC27Header: the cluster RPC version/kind header round-trips for every
// (version, kind, payload, pre-existing buffer) and CheckHeader rejects every
// frame whose header differs or is cut short, without panicking.
func TestVerifC27Header(t *testing.T) {
	kit.Check(t, "C27", func(rt *rapid.T, k *kit.Case) {
		version := rapid.Byte().Draw(rt, "version")
		kind := rapid.Byte().Draw(rt, "kind")
		payload := kit.Bytes(1024).Draw(rt, "payload")
		prefix := kit.Bytes(16).Draw(rt, "prefix") // PutHeader appends to an existing buffer
		buf := PutHeader(append([]byte(nil), prefix...), version, kind)
		if !bytes.Equal(buf[:len(prefix)], prefix) || len(buf) != len(prefix)+2 {
			rt.Fatalf("PutHeader changed the existing buffer: %x -> %x", prefix, buf)
		}
		frame := append(buf[len(prefix):len(buf):len(buf)], payload...)
		check := func(data []byte, v, kd uint8) (out []byte, err error) {
			defer func() {
				if r := recover(); r != nil {
					rt.Fatalf("VERIF-VIOLATION clusternet.CheckHeader panicked on %x: %v", data, r)
				}
			}()
			return CheckHeader(data, v, kd)
		}
		got, err := check(frame, version, kind)
		if err != nil || !bytes.Equal(got, payload) {
			rt.Fatalf("CheckHeader(PutHeader(v=%d,k=%d)+payload) = %x, %v; want payload %x", version, kind, got, err, payload)
		}
		// wrong expectation on either field is rejected
		otherV := version ^ byte(rapid.IntRange(1, 255).Draw(rt, "dv"))
		otherK := kind ^ byte(rapid.IntRange(1, 255).Draw(rt, "dk"))
		if _, err := check(frame, otherV, kind); !errors.Is(err, ErrInvalidFrame) {
			rt.Fatalf("CheckHeader accepted version %d for frame version %d (err=%v)", otherV, version, err)
		}
		if _, err := check(frame, version, otherK); !errors.Is(err, ErrInvalidFrame) {
			rt.Fatalf("CheckHeader accepted kind %d for frame kind %d (err=%v)", otherK, kind, err)
		}
		// truncated headers
		for cut := 0; cut < 2; cut++ {
			if _, err := check(frame[:cut], version, kind); !errors.Is(err, ErrInvalidFrame) {
				rt.Fatalf("CheckHeader accepted a %d-byte frame (err=%v)", cut, err)
			}
		}
		// arbitrary bytes: accepted iff the two header bytes match
		raw := kit.Bytes(64).Draw(rt, "raw")
		gotRaw, errRaw := check(raw, version, kind)
		wantOK := len(raw) >= 2 && raw[0] == version && raw[1] == kind
		if (errRaw == nil) != wantOK || (wantOK && !bytes.Equal(gotRaw, raw[2:])) {
			rt.Fatalf("CheckHeader(%x, v=%d, k=%d) = %x, %v", raw, version, kind, gotRaw, errRaw)
		}
		k.Key(version, kind, payload, prefix, raw)
		k.SetNonTrivial(len(payload) > 0)
		k.Label("codec=clusternet.Header")
		k.LabelIf(len(prefix) > 0, "clusternet.Header: appended to non-empty buffer")
		k.LabelIf(wantOK, "clusternet.Header: arbitrary bytes accepted")
		k.Sample(func() any { return fmt.Sprintf("header v=%d kind=%d payload=%dB prefix=%dB", version, kind, len(payload), len(prefix)) })
	})
}
