package client

import (
	"bytes"
	"errors"
	"fmt"
	"strconv"
	"testing"
	"time"

	"github.com/WuKongIM/WuKongIM/pkg/gateway"
	gwwkproto "github.com/WuKongIM/WuKongIM/pkg/gateway/protocol/wkproto"
	"github.com/WuKongIM/WuKongIM/pkg/gateway/session"
	"github.com/WuKongIM/WuKongIM/pkg/protocol/codec"
	"github.com/WuKongIM/WuKongIM/pkg/protocol/frame"
	"github.com/WuKongIM/WuKongIM/pkg/protocol/wkprotoenc"
	"golang.org/x/crypto/curve25519"
	"pgregory.net/rapid"
	"verif.local/kit"
)

func verifC25Payload() *rapid.Generator[[]byte] {
	return rapid.Custom(func(t *rapid.T) []byte {
		var n int
		switch rapid.IntRange(0, 9).Draw(t, "plKind") {
		case 0:
			n = rapid.SampledFrom([]int{0, 1, 15, 16, 17, 31, 32, 33, 47, 48, 49, 63, 64, 65}).Draw(t, "plEdge")
		case 1:
			n = rapid.IntRange(4079, 4113).Draw(t, "plBig")
		default:
			n = rapid.IntRange(0, 70).Draw(t, "plLen")
		}
		if n > 70 {
			seed := rapid.SliceOfN(rapid.Byte(), 1, 8).Draw(t, "plFill")
			b := make([]byte, n)
			for i := range b {
				b[i] = seed[i%len(seed)] + byte(i/len(seed))
			}
			return b
		}
		return rapid.SliceOfN(rapid.Byte(), n, n).Draw(t, "pl")
	})
}

func verifC25ID(label string, max int) *rapid.Generator[string] {
	return rapid.Custom(func(t *rapid.T) string {
		switch rapid.IntRange(0, 3).Draw(t, label+"Kind") {
		case 0:
			return rapid.StringMatching(`[0-9]{1,6}`).Draw(t, label+"Digits")
		case 1:
			return rapid.StringN(1, max, max*4).Draw(t, label+"Utf8")
		default:
			return rapid.StringMatching(`[a-zA-Z0-9_\-]{1,`+strconv.Itoa(max)+`}`).Draw(t, label+"Ident")
		}
	})
}

type verifC25Link struct {
	state   *cryptoState
	sess    session.Session
	version uint8
	adapter *gwwkproto.Adapter
	cached  bool
	keys    wkprotoenc.SessionKeys
}

// verifC25Negotiate runs the real handshake pieces: the client's cryptoState
// builds the CONNECT, the gateway's WKProto authenticator answers, the
// session receives the authenticator's values exactly like core.Server does,
// and the client applies the CONNACK.
func verifC25Negotiate(rt *rapid.T) *verifC25Link {
	var priv [32]byte
	copy(priv[:], rapid.SliceOfN(rapid.Byte(), 32, 32).Draw(rt, "clientPriv"))
	pubBytes, err := curve25519.X25519(priv[:], curve25519.Basepoint)
	if err != nil {
		rt.Fatalf("X25519: %v", err)
	}
	st := &cryptoState{private: priv}
	copy(st.public[:], pubBytes)

	connect := st.connectPacket(ConnectOptions{UID: "u1", DeviceID: "d1", DeviceFlag: frame.APP})
	// other SDK generations negotiate older versions; 0 and >latest mean "latest"
	connect.Version = uint8(rapid.SampledFrom([]int{1, 2, 3, 4, 5, 6, 6, 6, 0, 9}).Draw(rt, "connectVersion"))
	auth := gateway.NewWKProtoAuthenticator(gateway.WKProtoAuthOptions{Now: func() time.Time { return time.UnixMilli(1700000000000) }})
	res, err := auth.Authenticate(nil, connect)
	if err != nil || res == nil || res.Connack == nil {
		rt.Fatalf("Authenticate: %v %+v", err, res)
	}
	if res.Connack.ReasonCode != frame.ReasonSuccess {
		rt.Fatalf("connack reason %v", res.Connack.ReasonCode)
	}
	if res.Connack.ServerKey == "" || res.Connack.Salt == "" {
		rt.Fatalf("encryption is on by default but the connack carries no server key/salt: %+v", res.Connack)
	}
	sess := session.New(session.Config{ID: 1, Listener: "verif", RemoteAddr: "r", LocalAddr: "l"})
	cached := rapid.IntRange(0, 3).Draw(rt, "cachedCrypto") != 0
	for _, key := range []string{gateway.SessionValueUID, gateway.SessionValueDeviceID, gateway.SessionValueDeviceFlag, gateway.SessionValueDeviceLevel,
		gateway.SessionValueProtocolVersion, gateway.SessionValueEncryptionEnabled, gateway.SessionValueAESKey, gateway.SessionValueAESIV, gateway.SessionValueCrypto} {
		v, ok := res.SessionValues[key]
		if !ok {
			continue
		}
		if key == gateway.SessionValueCrypto && !cached {
			continue // the adapter's documented fallback: keys stored, no cached cipher
		}
		sess.SetValue(key, v)
	}
	// the connack travels over the wire at the negotiated version
	version := res.Connack.ServerVersion
	proto := codec.New()
	wire, err := proto.EncodeFrame(res.Connack, version)
	if err != nil {
		rt.Fatalf("encode connack: %v", err)
	}
	f, n, err := proto.DecodeFrame(wire, version)
	if err != nil || n != len(wire) {
		rt.Fatalf("decode connack: %v n=%d len=%d", err, n, len(wire))
	}
	ack := f.(*frame.ConnackPacket)
	if err := st.applyConnack(ack); err != nil {
		rt.Fatalf("applyConnack: %v", err)
	}
	if st.currentSession() == nil {
		rt.Fatalf("client did not enable encryption after a connack with server key and salt")
	}
	srvKey, _ := res.SessionValues[gateway.SessionValueAESKey].([]byte)
	srvIV, _ := res.SessionValues[gateway.SessionValueAESIV].([]byte)
	if !bytes.Equal(st.keys.AESKey, srvKey) || !bytes.Equal(st.keys.AESIV, srvIV) {
		rt.Fatalf("client keys %q/%q differ from server session keys %q/%q", st.keys.AESKey, st.keys.AESIV, srvKey, srvIV)
	}
	if len(srvKey) != 16 || len(srvIV) != 16 {
		rt.Fatalf("server key sizes %d/%d", len(srvKey), len(srvIV))
	}
	return &verifC25Link{state: st, sess: sess, version: version, adapter: gwwkproto.New(), cached: cached,
		keys: wkprotoenc.SessionKeys{AESKey: srvKey, AESIV: srvIV}}
}

func verifC25Message(rt *rapid.T) (Message, uint64) {
	msg := Message{
		ClientMsgNo: verifC25ID("msgNo", 36).Draw(rt, "clientMsgNo"),
		ChannelID:   verifC25ID("chan", 24).Draw(rt, "channelID"),
		ChannelType: uint8(rapid.SampledFrom([]int{1, 2, 3, 4, 5, 10, 11, 12, 100, 255}).Draw(rt, "chType")),
		Expire:      rapid.Uint32().Draw(rt, "expire"),
		Payload:     verifC25Payload().Draw(rt, "payload"),
	}
	if rapid.Bool().Draw(rt, "hasTopic") {
		msg.Setting.Set(frame.SettingTopic)
		msg.Topic = rapid.StringMatching(`[a-z]{0,8}`).Draw(rt, "topic")
	}
	var seq uint64
	switch rapid.IntRange(0, 2).Draw(rt, "seqKind") {
	case 0:
		seq = rapid.SampledFrom([]uint64{1, 9, 10, 99, 100, 1<<31 - 1, 1 << 31, 1<<32 - 2, 1<<32 - 1}).Draw(rt, "seqEdge")
	case 1:
		seq = uint64(rapid.IntRange(1, 2000).Draw(rt, "seqSmall"))
	default:
		seq = uint64(rapid.Uint32Min(1).Draw(rt, "seq"))
	}
	return msg, seq
}

func verifC25Describe(p *frame.SendPacket) string {
	return fmt.Sprintf("setting=%d seq=%d msgNo=%q chan=%q type=%d expire=%d topic=%q msgKey=%q payload=%q", p.Setting, p.ClientSeq, p.ClientMsgNo, p.ChannelID, p.ChannelType, p.Expire, p.Topic, p.MsgKey, verifC25Trunc(p.Payload))
}

func verifC25Trunc(b []byte) []byte {
	if len(b) > 96 {
		return append(append([]byte(nil), b[:96]...), "…"...)
	}
	return b
}

func verifC25Signed(p *frame.SendPacket) string {
	return strconv.FormatUint(p.ClientSeq, 10) + p.ClientMsgNo + p.ChannelID + strconv.Itoa(int(p.ChannelType))
}

// verifC25Decode calls the gateway adapter and converts a panic into a failure.
func verifC25Decode(rt *rapid.T, l *verifC25Link, wire []byte) (frames []frame.Frame, consumed int, err error) {
	defer func() {
		if r := recover(); r != nil {
			rt.Fatalf("Adapter.Decode panicked on %x: %v", wire, r)
		}
	}()
	return l.adapter.Decode(l.sess, wire)
}

// TestVerifC25EndToEnd: client cryptoState ⇄ gateway authenticator agree on
// keys; a SEND sealed by the client is opened by the gateway adapter to the
// original payload; a SEND with one covered field, its payload or its message
// key altered is refused by the adapter; RECV sealed by the adapter is opened
// by the client to the original payload.
func TestVerifC25EndToEnd(t *testing.T) {
	kit.Check(t, "C25", func(rt *rapid.T, k *kit.Case) {
		l := verifC25Negotiate(rt)
		msg, seq := verifC25Message(rt)
		pkt, err := buildSendPacket(msg, seq)
		if err != nil {
			rt.Fatalf("buildSendPacket: %v", err)
		}
		viaState := rapid.Bool().Draw(rt, "sealViaState")
		var sealed *frame.SendPacket
		if viaState {
			sealed, err = l.state.sealSend(pkt)
		} else {
			sealed, err = sealSendWithSession(pkt, l.state.currentSession())
		}
		if err != nil {
			rt.Fatalf("seal: %v", err)
		}
		if !bytes.Equal(pkt.Payload, msg.Payload) {
			rt.Fatalf("sealing modified the caller's packet")
		}
		if sealed.MsgKey == "" || (len(msg.Payload) > 0 && bytes.Equal(sealed.Payload, msg.Payload)) {
			rt.Fatalf("sealed SEND is not encrypted: %s", verifC25Describe(sealed))
		}
		proto := codec.New()
		wire, err := proto.EncodeFrame(sealed, l.version)
		if err != nil {
			rt.Fatalf("encode: %v", err)
		}

		// honest delivery
		frames, consumed, err := verifC25Decode(rt, l, append([]byte(nil), wire...))
		if err != nil || consumed != len(wire) || len(frames) != 1 {
			rt.Fatalf("gateway refused an untouched sealed SEND: err=%v consumed=%d/%d frames=%d (%s)", err, consumed, len(wire), len(frames), verifC25Describe(sealed))
		}
		got, ok := frames[0].(*frame.SendPacket)
		if !ok {
			rt.Fatalf("decoded %T", frames[0])
		}
		if !bytes.Equal(got.Payload, msg.Payload) {
			rt.Fatalf("gateway decrypted %x, client sent %x", got.Payload, msg.Payload)
		}
		if got.ClientSeq != seq || got.ClientMsgNo != msg.ClientMsgNo || got.ChannelID != msg.ChannelID || got.ChannelType != msg.ChannelType {
			rt.Fatalf("header fields changed in transit: %s", verifC25Describe(got))
		}

		// field-level tampering by a man in the middle who re-encodes the frame
		type tamper struct {
			name string
			fn   func(p *frame.SendPacket)
		}
		tampers := []tamper{
			{"payload", func(p *frame.SendPacket) { p.Payload, _ = kit.Mutate(rt, p.Payload) }},
			{"payload replaced by another valid ciphertext", func(p *frame.SendPacket) {
				other := append(append([]byte(nil), msg.Payload...), 'x')
				p.Payload, _ = wkprotoenc.EncryptPayload(other, l.keys)
			}},
			{"MsgKey", func(p *frame.SendPacket) {
				b, _ := kit.Mutate(rt, []byte(p.MsgKey))
				p.MsgKey = string(b)
			}},
			{"MsgKey emptied", func(p *frame.SendPacket) { p.MsgKey = "" }},
			{"ClientSeq", func(p *frame.SendPacket) { p.ClientSeq ^= 1 << rapid.IntRange(0, 31).Draw(rt, "seqBit") }},
			{"ClientMsgNo", func(p *frame.SendPacket) {
				b, _ := kit.Mutate(rt, []byte(p.ClientMsgNo))
				p.ClientMsgNo = string(b)
			}},
			{"ChannelID", func(p *frame.SendPacket) {
				b, _ := kit.Mutate(rt, []byte(p.ChannelID))
				p.ChannelID = string(b)
			}},
			{"ChannelType", func(p *frame.SendPacket) { p.ChannelType ^= 1 << rapid.IntRange(0, 7).Draw(rt, "typeBit") }},
		}
		for _, tm := range tampers {
			tp := *sealed
			tp.Payload = append([]byte(nil), sealed.Payload...)
			tm.fn(&tp)
			twire, err := proto.EncodeFrame(&tp, l.version)
			if err != nil {
				rt.Fatalf("encode tampered: %v", err)
			}
			// a frame in front of and behind the tampered one must not be delivered either
			ping, _ := proto.EncodeFrame(&frame.PingPacket{}, l.version)
			stream := append(append(append([]byte(nil), ping...), twire...), ping...)
			frames, consumed, err := verifC25Decode(rt, l, stream)
			if err == nil {
				rt.Fatalf("gateway accepted a SEND with altered %s: frames=%d consumed=%d tampered=%s original=%s", tm.name, len(frames), consumed, verifC25Describe(&tp), verifC25Describe(sealed))
			}
			if !errors.Is(err, wkprotoenc.ErrMsgKeyMismatch) {
				rt.Fatalf("altered %s refused with %v, want ErrMsgKeyMismatch", tm.name, err)
			}
			if len(frames) != 0 || consumed != 0 {
				rt.Fatalf("altered %s: error together with frames=%d consumed=%d", tm.name, len(frames), consumed)
			}
		}

		// wire-level single mutation: whatever SEND the adapter still accepts as
		// encrypted carries the original covered content
		mwire, mut := kit.Mutate(rt, wire)
		frames, consumed, err = verifC25Decode(rt, l, mwire)
		wireOutcome := "error"
		if err == nil {
			wireOutcome = "wait"
			if consumed < 0 || consumed > len(mwire) {
				rt.Fatalf("consumed %d outside input of %d bytes", consumed, len(mwire))
			}
			for _, f := range frames {
				sp, ok := f.(*frame.SendPacket)
				if !ok {
					wireOutcome = "other frame type"
					continue
				}
				if sp.Setting.IsSet(frame.SettingNoEncrypt) {
					wireOutcome = "observation: NoEncrypt bit set in transit, ciphertext delivered as payload (Setting is not covered)"
					continue
				}
				wireOutcome = "accepted unchanged content"
				same := sp.ClientSeq == seq && sp.ClientMsgNo == msg.ClientMsgNo && sp.ChannelID == msg.ChannelID && sp.ChannelType == msg.ChannelType
				if !same && verifC25Signed(sp) == verifC25Signed(sealed) {
					wireOutcome = "observation: cross-field byte move accepted (out of domain)"
					same = true
				}
				if !same || !bytes.Equal(sp.Payload, msg.Payload) {
					rt.Fatalf("wire mutation %+v produced an accepted encrypted SEND with altered covered content: got %s, sent %s plaintext %x", mut, verifC25Describe(sp), verifC25Describe(sealed), msg.Payload)
				}
			}
		}

		// server → client direction
		recv := &frame.RecvPacket{MessageID: int64(rapid.Uint32().Draw(rt, "mid")), MessageSeq: uint64(rapid.Uint32().Draw(rt, "mseq")),
			Timestamp: 1700000000, ChannelID: msg.ChannelID, ChannelType: msg.ChannelType, FromUID: "u2", ClientMsgNo: msg.ClientMsgNo,
			Payload: append([]byte(nil), msg.Payload...)}
		rwire, err := l.adapter.Encode(l.sess, recv, session.OutboundMeta{})
		if err != nil {
			rt.Fatalf("Adapter.Encode(recv): %v", err)
		}
		if !bytes.Equal(recv.Payload, msg.Payload) {
			rt.Fatalf("Adapter.Encode modified the caller's RECV packet")
		}
		rf, rn, err := proto.DecodeFrame(rwire, l.version)
		if err != nil || rn != len(rwire) {
			rt.Fatalf("client cannot decode RECV: %v %d/%d", err, rn, len(rwire))
		}
		rp := rf.(*frame.RecvPacket)
		if len(msg.Payload) > 0 && bytes.Equal(rp.Payload, msg.Payload) {
			rt.Fatalf("RECV payload went out in clear text on an encrypted session")
		}
		if err := (&Client{}).decryptRecv(rp, l.state.currentSession()); err != nil {
			rt.Fatalf("client decryptRecv: %v", err)
		}
		if !bytes.Equal(rp.Payload, msg.Payload) {
			rt.Fatalf("client decrypted %x, server sent %x", rp.Payload, msg.Payload)
		}

		k.Key(l.state.private[:], l.version, l.cached, seq, msg.ClientMsgNo, msg.ChannelID, msg.ChannelType, msg.Payload, mut.Kind, mut.Pos)
		k.SetNonTrivial(true)
		k.Label("negotiated version " + strconv.Itoa(int(l.version)))
		k.LabelIf(l.cached, "session with cached cipher")
		k.LabelIf(!l.cached, "session with keys only (fallback path)")
		k.Label("wire mutation → " + wireOutcome)
		k.LabelIf(len(msg.Payload) == 0, "empty payload")
		k.LabelIf(len(msg.Payload) > 70, "payload ≈ 4 KiB")
		k.Sample(func() any { return fmt.Sprintf("v=%d cached=%v %s", l.version, l.cached, verifC25Describe(sealed)) })
	})
}
