package wkproto

import (
	"bytes"
	"fmt"
	"reflect"
	"sort"
	"strings"
	"testing"

	"github.com/WuKongIM/WuKongIM/pkg/gateway/session"
	gatewaytypes "github.com/WuKongIM/WuKongIM/pkg/gateway/types"
	"github.com/WuKongIM/WuKongIM/pkg/gateway/wkprotoenc"
	codec "github.com/WuKongIM/WuKongIM/pkg/protocol/codec"
	"github.com/WuKongIM/WuKongIM/pkg/protocol/frame"
	"pgregory.net/rapid"
	"verif.local/kit"
)

// ------------------------------------------------------------ frame generator
//
// Frames are generated so that encode→decode at the given version is exact:
// fields a version/flag does not carry stay zero, integers stay inside their
// wire width, strings are short of the 32767-byte signed length limit.

func verifC23Str(label string) *rapid.Generator[string] {
	return rapid.Custom(func(t *rapid.T) string {
		switch rapid.IntRange(0, 9).Draw(t, label+"Kind") {
		case 0:
			return ""
		case 1:
			return rapid.StringN(0, 8, 32).Draw(t, label+"Utf8")
		case 2:
			n := rapid.SampledFrom([]int{100, 126, 127, 128, 129, 300}).Draw(t, label+"Long")
			return strings.Repeat(rapid.StringMatching(`[a-z]`).Draw(t, label+"Fill"), n)
		default:
			return rapid.StringMatching(`[a-zA-Z0-9_@:\-]{1,16}`).Draw(t, label+"Ident")
		}
	})
}

func verifC23Blob(label string, max int) *rapid.Generator[[]byte] {
	return rapid.Custom(func(t *rapid.T) []byte {
		var n int
		switch rapid.IntRange(0, 19).Draw(t, label+"Kind") {
		case 0:
			n = 0
		case 1:
			n = rapid.SampledFrom([]int{90, 110, 127, 128, 129, 255, 256}).Draw(t, label+"Mid")
		case 2:
			n = rapid.SampledFrom([]int{16300, 16383, 16384, 16385, 20000, 32767}).Draw(t, label+"Big")
		default:
			n = rapid.IntRange(0, 40).Draw(t, label+"Small")
		}
		if n > max {
			n = max
		}
		if n > 64 {
			seed := rapid.SliceOfN(rapid.Byte(), 1, 4).Draw(t, label+"Fill")
			b := make([]byte, n)
			for i := range b {
				b[i] = seed[i%len(seed)] ^ byte(i>>3)
			}
			return b
		}
		if n == 0 {
			return nil
		}
		return rapid.SliceOfN(rapid.Byte(), n, n).Draw(t, label)
	})
}

func verifC23Framer(t *rapid.T, ft frame.FrameType) frame.Framer {
	f := frame.Framer{FrameType: ft}
	bits := rapid.IntRange(0, 15).Draw(t, "flags")
	f.NoPersist = bits&1 != 0
	f.RedDot = bits&2 != 0
	f.SyncOnce = bits&4 != 0
	f.DUP = bits&8 != 0
	return f
}

func verifC23Seq(t *rapid.T, version uint8, label string) uint64 {
	if version <= frame.LegacyMessageSeqVersion {
		return uint64(rapid.Uint32().Draw(t, label))
	}
	return kit.Uint64Edge().Draw(t, label)
}

var verifC23Types = []frame.FrameType{
	// weighted towards what clients send to the gateway
	frame.SEND, frame.SEND, frame.SEND, frame.SEND, frame.PING, frame.PING, frame.RECVACK, frame.RECVACK, frame.CONNECT, frame.SUB, frame.DISCONNECT,
	frame.CONNACK, frame.SENDACK, frame.RECV, frame.PONG, frame.SUBACK, frame.EVENT,
}

func verifC23Frame(t *rapid.T, version uint8) frame.Frame {
	ft := rapid.SampledFrom(verifC23Types).Draw(t, "frameType")
	switch ft {
	case frame.PING:
		return &frame.PingPacket{Framer: frame.Framer{FrameType: frame.PING}}
	case frame.PONG:
		return &frame.PongPacket{Framer: frame.Framer{FrameType: frame.PONG}}
	case frame.CONNECT:
		return &frame.ConnectPacket{Framer: verifC23Framer(t, ft),
			Version: rapid.Byte().Draw(t, "version"), DeviceFlag: frame.DeviceFlag(rapid.Byte().Draw(t, "deviceFlag")),
			DeviceID: verifC23Str("deviceID").Draw(t, "deviceID"), UID: verifC23Str("uid").Draw(t, "uid"), Token: verifC23Str("token").Draw(t, "token"),
			ClientTimestamp: rapid.Int64().Draw(t, "clientTs"), ClientKey: verifC23Str("clientKey").Draw(t, "clientKey")}
	case frame.CONNACK:
		p := &frame.ConnackPacket{Framer: frame.Framer{FrameType: ft}, TimeDiff: rapid.Int64().Draw(t, "timeDiff"),
			ReasonCode: frame.ReasonCode(rapid.Byte().Draw(t, "reason")), ServerKey: verifC23Str("serverKey").Draw(t, "serverKey"), Salt: verifC23Str("salt").Draw(t, "salt")}
		if rapid.Bool().Draw(t, "hasServerVersion") {
			p.HasServerVersion = true
			p.NoPersist = true // CONNACK header bit 0 is HasServerVersion; the generic flag reader maps the same bit to NoPersist
			p.ServerVersion = rapid.Byte().Draw(t, "serverVersion")
		}
		if version >= 4 {
			p.NodeId = kit.Uint64Edge().Draw(t, "nodeID")
		}
		return p
	case frame.SEND:
		p := &frame.SendPacket{Framer: verifC23Framer(t, ft), Setting: frame.Setting(rapid.Byte().Draw(t, "setting")),
			ClientSeq: uint64(rapid.Uint32().Draw(t, "clientSeq")), ClientMsgNo: verifC23Str("clientMsgNo").Draw(t, "clientMsgNo"),
			ChannelID: verifC23Str("channelID").Draw(t, "channelID"), ChannelType: rapid.Byte().Draw(t, "channelType"),
			MsgKey: verifC23Str("msgKey").Draw(t, "msgKey"), Payload: verifC23Blob("payload", codec.PayloadMaxSize).Draw(t, "payload")}
		if version >= 3 {
			p.Expire = rapid.Uint32().Draw(t, "expire")
		}
		if version >= 2 && version < 5 && p.Setting.IsSet(frame.SettingStream) {
			p.StreamNo = verifC23Str("streamNo").Draw(t, "streamNo")
		}
		if p.Setting.IsSet(frame.SettingTopic) {
			p.Topic = verifC23Str("topic").Draw(t, "topic")
		}
		return p
	case frame.SENDACK:
		return &frame.SendackPacket{Framer: verifC23Framer(t, ft), MessageID: rapid.Int64().Draw(t, "messageID"),
			ClientSeq: uint64(rapid.Uint32().Draw(t, "clientSeq")), MessageSeq: verifC23Seq(t, version, "messageSeq"),
			ReasonCode: frame.ReasonCode(rapid.Byte().Draw(t, "reason")), ClientMsgNo: verifC23Str("clientMsgNo").Draw(t, "clientMsgNo")}
	case frame.RECV:
		p := &frame.RecvPacket{Framer: verifC23Framer(t, ft), Setting: frame.Setting(rapid.Byte().Draw(t, "setting")),
			MsgKey: verifC23Str("msgKey").Draw(t, "msgKey"), FromUID: verifC23Str("fromUID").Draw(t, "fromUID"),
			ChannelID: verifC23Str("channelID").Draw(t, "channelID"), ChannelType: rapid.Byte().Draw(t, "channelType"),
			ClientMsgNo: verifC23Str("clientMsgNo").Draw(t, "clientMsgNo"), MessageID: rapid.Int64().Draw(t, "messageID"),
			MessageSeq: verifC23Seq(t, version, "messageSeq"), Timestamp: rapid.Int32().Draw(t, "timestamp"),
			Payload: verifC23Blob("payload", 40000).Draw(t, "payload")}
		if version >= 3 {
			p.Expire = rapid.Uint32().Draw(t, "expire")
		}
		if version >= 2 && version < 5 && p.Setting.IsSet(frame.SettingStream) {
			p.StreamFlag = frame.StreamFlag(rapid.Byte().Draw(t, "streamFlag"))
			p.StreamNo = verifC23Str("streamNo").Draw(t, "streamNo")
			p.StreamId = kit.Uint64Edge().Draw(t, "streamID")
		}
		if p.Setting.IsSet(frame.SettingTopic) {
			p.Topic = verifC23Str("topic").Draw(t, "topic")
		}
		return p
	case frame.RECVACK:
		return &frame.RecvackPacket{Framer: verifC23Framer(t, ft), MessageID: rapid.Int64().Draw(t, "messageID"), MessageSeq: verifC23Seq(t, version, "messageSeq")}
	case frame.DISCONNECT:
		return &frame.DisconnectPacket{Framer: verifC23Framer(t, ft), ReasonCode: frame.ReasonCode(rapid.Byte().Draw(t, "reason")), Reason: verifC23Str("reasonText").Draw(t, "reasonText")}
	case frame.SUB:
		return &frame.SubPacket{Framer: verifC23Framer(t, ft), Setting: frame.Setting(rapid.Byte().Draw(t, "setting")), SubNo: verifC23Str("subNo").Draw(t, "subNo"),
			ChannelID: verifC23Str("channelID").Draw(t, "channelID"), ChannelType: rapid.Byte().Draw(t, "channelType"),
			Action: frame.Action(rapid.Byte().Draw(t, "action")), Param: verifC23Str("param").Draw(t, "param")}
	case frame.SUBACK:
		return &frame.SubackPacket{Framer: verifC23Framer(t, ft), SubNo: verifC23Str("subNo").Draw(t, "subNo"),
			ChannelID: verifC23Str("channelID").Draw(t, "channelID"), ChannelType: rapid.Byte().Draw(t, "channelType"),
			Action: frame.Action(rapid.Byte().Draw(t, "action")), ReasonCode: frame.ReasonCode(rapid.Byte().Draw(t, "reason"))}
	default: // EVENT
		return &frame.EventPacket{Framer: verifC23Framer(t, frame.EVENT), Id: verifC23Str("eventID").Draw(t, "eventID"), Type: verifC23Str("eventType").Draw(t, "eventType"),
			Timestamp: rapid.Int64().Draw(t, "eventTs"), Data: verifC23Blob("eventData", 40000).Draw(t, "eventData")}
	}
}

// verifC23Norm returns a copy of f with the decoder-side bookkeeping
// (RemainingLength, FrameSize: "not part of encoding") cleared and empty byte
// slices folded to nil, plus the RemainingLength the decoder reported.
func verifC23Norm(f frame.Frame) (frame.Frame, uint32) {
	clean := func(fr *frame.Framer) uint32 {
		r := fr.RemainingLength
		fr.RemainingLength, fr.FrameSize = 0, 0
		return r
	}
	blob := func(b []byte) []byte {
		if len(b) == 0 {
			return nil
		}
		return append([]byte(nil), b...)
	}
	switch p := f.(type) {
	case *frame.PingPacket:
		c := *p
		return &c, clean(&c.Framer)
	case *frame.PongPacket:
		c := *p
		return &c, clean(&c.Framer)
	case *frame.ConnectPacket:
		c := *p
		return &c, clean(&c.Framer)
	case *frame.ConnackPacket:
		c := *p
		return &c, clean(&c.Framer)
	case *frame.SendPacket:
		c := *p
		c.Payload = blob(c.Payload)
		return &c, clean(&c.Framer)
	case *frame.SendackPacket:
		c := *p
		return &c, clean(&c.Framer)
	case *frame.RecvPacket:
		c := *p
		c.Payload = blob(c.Payload)
		return &c, clean(&c.Framer)
	case *frame.RecvackPacket:
		c := *p
		return &c, clean(&c.Framer)
	case *frame.DisconnectPacket:
		c := *p
		return &c, clean(&c.Framer)
	case *frame.SubPacket:
		c := *p
		return &c, clean(&c.Framer)
	case *frame.SubackPacket:
		c := *p
		return &c, clean(&c.Framer)
	case *frame.EventPacket:
		c := *p
		c.Data = blob(c.Data)
		return &c, clean(&c.Framer)
	}
	return f, 0
}

func verifC23Show(f frame.Frame) string {
	s := fmt.Sprintf("%#v", reflect.Indirect(reflect.ValueOf(f)).Interface())
	if len(s) > 400 {
		s = s[:400] + "…"
	}
	return s
}

// verifC23LenLen: number of length-prefix bytes at b[1:] per the wire format
// (7 bits per byte, high bit = continuation), 0 for PING/PONG; ok=false if the
// prefix is incomplete; quirk=true for four continuation bytes in a row.
func verifC23LenLen(b []byte) (n int, value uint32, ok bool, quirk bool) {
	ft := frame.FrameType(b[0] >> 4)
	if ft == frame.PING || ft == frame.PONG {
		return 0, 0, true, false
	}
	for i := 1; i < len(b) && i <= 4; i++ {
		value |= uint32(b[i]&0x7f) << (7 * uint(i-1))
		if b[i]&0x80 == 0 {
			return i, value, true, false
		}
	}
	if len(b) >= 5 {
		return 4, value, true, true
	}
	return 0, 0, false, false
}

// ------------------------------------------------------------------ sessions

func verifC23Session(t *rapid.T) (session.Session, uint8, string) {
	version := uint8(rapid.IntRange(1, int(frame.LatestVersion)).Draw(t, "negotiatedVersion"))
	switch rapid.IntRange(0, 9).Draw(t, "sessKind") {
	case 0:
		return nil, frame.LatestVersion, "nil session (latest)"
	case 1:
		return session.New(session.Config{ID: 1, Listener: "verif"}), frame.LatestVersion, "session before CONNECT (latest)"
	default:
		s := session.New(session.Config{ID: 1, Listener: "verif"})
		s.SetValue(gatewaytypes.SessionValueProtocolVersion, version)
		return s, version, fmt.Sprintf("version %d", version)
	}
}

// -------------------------------------------------------------------- feeding

type verifC23Feed struct {
	frames   []frame.Frame
	offsets  []int // stream offset after each delivered frame batch
	err      error
	pending  int
	aliasObs bool
}

// verifC23FeedGateway delivers chunks with the gateway's carry-over discipline
// (core.Server.onData: append to the pending bytes, Decode, drop the consumed
// prefix, repeat until no progress). The buffer handed to Decode is
// overwritten afterwards, as the transport reuses it.
func verifC23FeedGateway(a *Adapter, sess session.Session, chunks [][]byte, boundaries map[int]int) verifC23Feed {
	var out verifC23Feed
	var pending []byte
	base := 0 // stream offset of pending[0]
	for _, chunk := range chunks {
		if len(chunk) == 0 {
			continue
		}
		buf := make([]byte, 0, len(pending)+len(chunk)+8)
		buf = append(append(buf, pending...), chunk...)
		buf = append(buf, 0xde, 0xad, 0xbe, 0xef)[:len(buf)] // bytes past len must never matter
		work := buf
		var aliased, snaps [][]byte
		for len(work) > 0 {
			frames, consumed, err := a.Decode(sess, work)
			if err != nil {
				out.err = fmt.Errorf("Decode at stream offset %d with %d bytes: %v", base, len(work), err)
				return out
			}
			if consumed < 0 || consumed > len(work) {
				out.err = fmt.Errorf("consumed %d outside the %d input bytes", consumed, len(work))
				return out
			}
			if consumed == 0 && len(frames) == 0 {
				break
			}
			if consumed == 0 {
				out.err = fmt.Errorf("%d frames returned with consumed=0", len(frames))
				return out
			}
			// progress must end exactly on a frame boundary and cover exactly the frames returned
			startIdx, okS := boundaries[base]
			endIdx, okE := boundaries[base+consumed]
			if !okS || !okE {
				out.err = fmt.Errorf("consumed %d from stream offset %d: %d is not a frame boundary (progress reported inside a frame)", consumed, base, base+consumed)
				return out
			}
			if endIdx-startIdx != len(frames) {
				out.err = fmt.Errorf("consumed %d bytes = %d frames, but %d frames returned", consumed, endIdx-startIdx, len(frames))
				return out
			}
			// RECV/EVENT are server→client frames; the adapter only detaches SEND payloads.
			// Snapshot theirs and remember the original slice to observe aliasing.
			for _, f := range frames {
				switch p := f.(type) {
				case *frame.RecvPacket:
					aliased = append(aliased, p.Payload)
					p.Payload = append([]byte(nil), p.Payload...)
					snaps = append(snaps, p.Payload)
				case *frame.EventPacket:
					aliased = append(aliased, p.Data)
					p.Data = append([]byte(nil), p.Data...)
					snaps = append(snaps, p.Data)
				}
			}
			out.frames = append(out.frames, frames...)
			base += consumed
			work = work[consumed:]
		}
		pending = append([]byte(nil), work...)
		for i := range buf { // transport buffer reuse
			buf[i] = 0xAA
		}
		for i := range aliased {
			if !bytes.Equal(aliased[i], snaps[i]) {
				out.aliasObs = true
			}
		}
	}
	out.pending = len(pending)
	return out
}

// verifC23FeedClient is pkg/client's readerLoop discipline over the same
// codec entry point (DecodeFrame in a loop, buf = buf[consumed:]).
func verifC23FeedClient(proto *codec.WKProto, version uint8, chunks [][]byte) ([]frame.Frame, int, error) {
	var got []frame.Frame
	var buf []byte
	for _, chunk := range chunks {
		buf = append(buf, chunk...)
		for len(buf) > 0 {
			f, consumed, err := proto.DecodeFrame(buf, version)
			if err != nil {
				return got, len(buf), err
			}
			if f == nil || consumed == 0 {
				break
			}
			if consumed > len(buf) {
				return got, len(buf), fmt.Errorf("consumed %d > %d", consumed, len(buf))
			}
			switch p := f.(type) { // client.detachPayload
			case *frame.SendPacket:
				p.Payload = append([]byte(nil), p.Payload...)
			case *frame.RecvPacket:
				p.Payload = append([]byte(nil), p.Payload...)
			case *frame.EventPacket:
				p.Data = append([]byte(nil), p.Data...)
			}
			got = append(got, f)
			buf = buf[consumed:]
		}
		buf = append([]byte(nil), buf...)
	}
	return got, len(buf), nil
}

func verifC23Chunks(stream []byte, cuts []int) [][]byte {
	sort.Ints(cuts)
	var chunks [][]byte
	prev := 0
	for _, c := range cuts {
		if c <= prev || c >= len(stream) {
			continue
		}
		chunks = append(chunks, stream[prev:c])
		prev = c
	}
	return append(chunks, stream[prev:])
}

// ---------------------------------------------------------------- stream test

type verifC23Stream struct {
	version uint8
	frames  []frame.Frame
	encs    [][]byte
	stream  []byte
	starts  []int
	lenlens []int
	bounds  map[int]int
}

func verifC23BuildStream(t *rapid.T, version uint8, maxFrames int) verifC23Stream {
	return verifC23BuildStreamFor(t, version, maxFrames, false)
}

// verifC23BuildStreamFor: with plainSends every SEND carries the documented
// per-message opt-out SettingNoEncrypt, which is what a client on an
// encryption-enabled session sends when it does not encrypt a payload.
func verifC23BuildStreamFor(t *rapid.T, version uint8, maxFrames int, plainSends bool) verifC23Stream {
	s := verifC23Stream{version: version, bounds: map[int]int{0: 0}}
	proto := codec.New()
	n := rapid.IntRange(1, maxFrames).Draw(t, "frameCount")
	for i := 0; i < n; i++ {
		f := verifC23Frame(t, version)
		if sp, ok := f.(*frame.SendPacket); ok && plainSends {
			sp.Setting |= frame.SettingNoEncrypt
		}
		enc, err := proto.EncodeFrame(f, version)
		if err != nil {
			t.Fatalf("EncodeFrame(%s, v%d): %v", verifC23Show(f), version, err)
		}
		ll, _, ok, _ := verifC23LenLen(enc)
		if !ok {
			t.Fatalf("encoder produced an incomplete length prefix: %x", enc)
		}
		s.frames = append(s.frames, f)
		s.encs = append(s.encs, enc)
		s.starts = append(s.starts, len(s.stream))
		s.lenlens = append(s.lenlens, ll)
		s.stream = append(s.stream, enc...)
		s.bounds[len(s.stream)] = i + 1
	}
	return s
}

func verifC23CheckDelivered(s verifC23Stream, got []frame.Frame, who string) error {
	if len(got) != len(s.frames) {
		return fmt.Errorf("%s delivered %d frames, %d were sent", who, len(got), len(s.frames))
	}
	for i, g := range got {
		ng, rl := verifC23Norm(g)
		want, _ := verifC23Norm(s.frames[i])
		if !reflect.DeepEqual(ng, want) {
			return fmt.Errorf("%s frame %d differs:\n got  %s\n want %s", who, i, verifC23Show(ng), verifC23Show(want))
		}
		ft := s.frames[i].GetFrameType()
		if ft != frame.PING && ft != frame.PONG {
			if wantRL := len(s.encs[i]) - 1 - s.lenlens[i]; int(rl) != wantRL {
				return fmt.Errorf("%s frame %d reports RemainingLength %d, body has %d bytes", who, i, rl, wantRL)
			}
		}
	}
	return nil
}

// TestVerifC23Stream: any concatenation of valid frames, in any chunking, fed
// with the gateway's carry-over discipline, comes out as exactly the original
// frames in order; progress is only ever reported on frame boundaries.
func TestVerifC23Stream(t *testing.T) {
	kit.Check(t, "C23", func(rt *rapid.T, k *kit.Case) {
		sess, version, sessLabel := verifC23Session(rt)
		// a share of the sessions has negotiated encryption; their SENDs opt out
		// per message, so the stream is still the plain concatenation of frames
		encryptedSession := false
		if sess != nil && sess.Value(gatewaytypes.SessionValueProtocolVersion) != nil && rapid.IntRange(0, 2).Draw(rt, "encryptionNegotiated") == 0 {
			keys := wkprotoenc.SessionKeys{AESKey: []byte("1234567890abcdef"), AESIV: []byte("abcdef1234567890")}
			sess.SetValue(gatewaytypes.SessionValueEncryptionEnabled, true)
			sess.SetValue(gatewaytypes.SessionValueAESKey, keys.AESKey)
			sess.SetValue(gatewaytypes.SessionValueAESIV, keys.AESIV)
			if rapid.Bool().Draw(rt, "cachedCipher") {
				sc, err := wkprotoenc.NewSessionCrypto(keys)
				if err != nil {
					rt.Fatalf("NewSessionCrypto: %v", err)
				}
				sess.SetValue(gatewaytypes.SessionValueCrypto, sc)
			}
			encryptedSession = true
			sessLabel += ", encryption negotiated (SENDs opt out)"
		}
		s := verifC23BuildStreamFor(rt, version, 12, encryptedSession)
		total := len(s.stream)
		kind := rapid.SampledFrom([]string{"one", "bytewise", "random", "header-cuts", "header-cuts", "two-way sweep"}).Draw(rt, "chunking")
		if total > 6000 && (kind == "bytewise" || kind == "two-way sweep") {
			kind = "header-cuts"
		}
		if kind == "two-way sweep" && total > 700 {
			kind = "random"
		}
		var plans [][]int
		switch kind {
		case "one":
			plans = [][]int{nil}
		case "bytewise":
			all := make([]int, 0, total)
			for i := 1; i < total; i++ {
				all = append(all, i)
			}
			plans = [][]int{all}
		case "random":
			n := rapid.IntRange(1, 8).Draw(rt, "cutCount")
			cuts := make([]int, n)
			for i := range cuts {
				cuts[i] = rapid.IntRange(0, total).Draw(rt, "cut")
			}
			plans = [][]int{cuts}
		case "header-cuts":
			var cuts []int
			for i, st := range s.starts {
				if s.lenlens[i] == 0 {
					continue
				}
				if rapid.Bool().Draw(rt, "cutThisHeader") {
					cuts = append(cuts, st+rapid.IntRange(1, s.lenlens[i]).Draw(rt, "cutInHeader"))
				}
			}
			if len(cuts) == 0 {
				cuts = []int{rapid.IntRange(0, total).Draw(rt, "cut")}
			}
			plans = [][]int{cuts}
		case "two-way sweep":
			for c := 1; c < total; c++ {
				plans = append(plans, []int{c})
			}
			if len(plans) == 0 {
				plans = [][]int{nil}
			}
		}
		adapter := New()
		proto := codec.New()
		headerCut, varintCut, bodyCut, aliasObs := false, false, false, false
		for _, cuts := range plans {
			chunks := verifC23Chunks(s.stream, append([]int(nil), cuts...))
			for _, c := range cuts {
				if c <= 0 || c >= total {
					continue
				}
				if _, onBoundary := s.bounds[c]; onBoundary {
					continue
				}
				// which frame does c fall into
				i := sort.SearchInts(s.starts, c+1) - 1
				off := c - s.starts[i]
				switch {
				case s.lenlens[i] > 0 && off <= s.lenlens[i]:
					headerCut = true
					if off >= 2 {
						varintCut = true
					}
				default:
					bodyCut = true
				}
			}
			res := verifC23FeedGateway(adapter, sess, chunks, s.bounds)
			if res.err != nil {
				rt.Fatalf("valid stream (v%d, %d frames, %d bytes, cuts %v): %v", version, len(s.frames), total, cuts, res.err)
			}
			aliasObs = aliasObs || res.aliasObs
			if res.pending != 0 {
				rt.Fatalf("valid stream fully delivered but %d bytes stay undecoded (cuts %v)", res.pending, cuts)
			}
			if err := verifC23CheckDelivered(s, res.frames, "gateway adapter"); err != nil {
				rt.Fatalf("v%d cuts %v: %v", version, cuts, err)
			}
			got, left, err := verifC23FeedClient(proto, version, chunks)
			if err != nil || left != 0 {
				rt.Fatalf("client reader discipline: err=%v undecoded=%d (cuts %v)", err, left, cuts)
			}
			if err := verifC23CheckDelivered(s, got, "client reader"); err != nil {
				rt.Fatalf("v%d cuts %v: %v", version, cuts, err)
			}
		}
		// every proper prefix of the stream: only complete frames, never an error
		cut := rapid.IntRange(0, total).Draw(rt, "prefixCut")
		frames, consumed, err := adapter.Decode(sess, append([]byte(nil), s.stream[:cut]...))
		if err != nil {
			rt.Fatalf("prefix of %d/%d bytes of a valid stream gives error %v", cut, total, err)
		}
		lastBoundary, complete := 0, 0
		for b, idx := range s.bounds {
			if b <= cut && b > lastBoundary {
				lastBoundary, complete = b, idx
			}
		}
		if consumed != lastBoundary || len(frames) != complete {
			rt.Fatalf("prefix %d/%d: consumed=%d frames=%d, want consumed=%d frames=%d", cut, total, consumed, len(frames), lastBoundary, complete)
		}

		maxLenLen := 0
		for _, l := range s.lenlens {
			if l > maxLenLen {
				maxLenLen = l
			}
		}
		k.Key(version, sessLabel, s.stream, kind, fmt.Sprint(plans[0]))
		k.SetNonTrivial(headerCut)
		k.Label("chunking " + kind)
		k.Label(sessLabel)
		k.LabelIf(headerCut, "cut inside a length prefix (after type byte, before length end)")
		k.LabelIf(varintCut, "cut between bytes of a multi-byte length")
		k.LabelIf(bodyCut, "cut inside a frame body")
		k.Label(fmt.Sprintf("longest length prefix %d bytes", maxLenLen))
		k.LabelIf(len(s.frames) >= 6, "≥6 frames")
		k.LabelIf(aliasObs, "observation: inbound RECV/EVENT bytes alias the transport buffer (only SEND payloads are detached)")
		k.Sample(func() any {
			types := make([]string, len(s.frames))
			for i, f := range s.frames {
				types[i] = f.GetFrameType().String()
			}
			cuts := fmt.Sprint(plans[0])
			if len(cuts) > 80 {
				cuts = cuts[:80] + "…"
			}
			return fmt.Sprintf("v%d %s bytes=%d frames=%v chunking=%s firstCuts=%s", version, sessLabel, total, types, kind, cuts)
		})
	})
}

// ---------------------------------------------------------------- hostile test

type verifC23Result struct {
	frames   []frame.Frame
	consumed int
	err      error
	panicked any
}

func verifC23SafeDecode(a *Adapter, sess session.Session, in []byte) (r verifC23Result) {
	defer func() {
		if p := recover(); p != nil {
			r.panicked = p
		}
	}()
	r.frames, r.consumed, r.err = a.Decode(sess, in)
	return r
}

func verifC23SameFrames(a, b []frame.Frame) bool {
	if len(a) != len(b) {
		return false
	}
	for i := range a {
		na, ra := verifC23Norm(a[i])
		nb, rb := verifC23Norm(b[i])
		if ra != rb || !reflect.DeepEqual(na, nb) {
			return false
		}
	}
	return true
}

// verifC23Judge applies the robustness oracle to one input and returns the
// outcome class; any violated clause is returned as an error.
func verifC23Judge(a *Adapter, sess session.Session, in []byte) (string, error) {
	// the input sits inside a larger array: bytes beyond len must not matter
	arena := make([]byte, len(in)+16)
	copy(arena, in)
	for i := len(in); i < len(arena); i++ {
		arena[i] = 0x00
	}
	r1 := verifC23SafeDecode(a, sess, arena[:len(in)])
	if r1.panicked != nil {
		return "", fmt.Errorf("Decode panicked: %v", r1.panicked)
	}
	if !bytes.Equal(arena[:len(in)], in) {
		return "", fmt.Errorf("Decode modified its input")
	}
	if r1.consumed < 0 || r1.consumed > len(in) {
		return "", fmt.Errorf("consumed %d outside the %d input bytes", r1.consumed, len(in))
	}
	if r1.err != nil && (len(r1.frames) != 0 || r1.consumed != 0) {
		return "", fmt.Errorf("error %v together with %d frames / consumed %d", r1.err, len(r1.frames), r1.consumed)
	}
	if r1.err == nil && (len(r1.frames) == 0) != (r1.consumed == 0) {
		return "", fmt.Errorf("%d frames with consumed %d", len(r1.frames), r1.consumed)
	}
	for _, f := range r1.frames {
		if f == nil || reflect.ValueOf(f).IsNil() {
			return "", fmt.Errorf("nil frame in result")
		}
	}
	// same bytes, different memory after the slice end
	arena2 := make([]byte, len(in)+16)
	copy(arena2, in)
	for i := len(in); i < len(arena2); i++ {
		arena2[i] = 0xff
	}
	r2 := verifC23SafeDecode(a, sess, arena2[:len(in)])
	if r2.panicked != nil {
		return "", fmt.Errorf("Decode panicked on second run: %v", r2.panicked)
	}
	if (r1.err == nil) != (r2.err == nil) || r1.consumed != r2.consumed || !verifC23SameFrames(r1.frames, r2.frames) {
		return "", fmt.Errorf("result depends on memory past the input: consumed %d/%d err %v/%v frames %d/%d", r1.consumed, r2.consumed, r1.err, r2.err, len(r1.frames), len(r2.frames))
	}
	if r1.err != nil {
		return "error", nil
	}
	if len(r1.frames) == 0 {
		return "wait", nil
	}
	// the frames returned are fully inside the consumed prefix
	r3 := verifC23SafeDecode(a, sess, append([]byte(nil), in[:r1.consumed]...))
	if r3.panicked != nil || r3.err != nil || r3.consumed != r1.consumed || !verifC23SameFrames(r1.frames, r3.frames) {
		return "", fmt.Errorf("decoding only the consumed prefix (%d bytes) gives consumed=%d err=%v panic=%v frames=%d, the full input gave %d frames: progress covered bytes that were not there", r1.consumed, r3.consumed, r3.err, r3.panicked, len(r3.frames), len(r1.frames))
	}
	// span accounting against the wire format
	off := 0
	for i, f := range r1.frames {
		if off >= r1.consumed {
			return "", fmt.Errorf("frame %d starts at %d beyond consumed %d", i, off, r1.consumed)
		}
		ll, val, ok, quirk := verifC23LenLen(in[off:])
		if !ok {
			return "", fmt.Errorf("frame %d returned although its length prefix is incomplete", i)
		}
		if quirk {
			return "frames (non-canonical 5-byte length accepted)", nil
		}
		ft := frame.FrameType(in[off] >> 4)
		if ft != f.GetFrameType() {
			return "", fmt.Errorf("frame %d has type %v, header says %v", i, f.GetFrameType(), ft)
		}
		if ft != frame.PING && ft != frame.PONG {
			if val != f.GetRemainingLength() {
				return "", fmt.Errorf("frame %d RemainingLength %d, header says %d", i, f.GetRemainingLength(), val)
			}
			if val > codec.MaxRemaingLength {
				return "", fmt.Errorf("frame %d accepted with oversize length %d", i, val)
			}
		}
		off += 1 + ll + int(val)
	}
	if off != r1.consumed {
		return "", fmt.Errorf("frames span %d bytes, consumed %d", off, r1.consumed)
	}
	if r1.consumed < len(in) {
		return "frames then wait", nil
	}
	return "frames", nil
}

func verifC23Varint(v uint32) []byte {
	var out []byte
	for {
		d := byte(v & 0x7f)
		v >>= 7
		if v > 0 {
			out = append(out, d|0x80)
		} else {
			return append(out, d)
		}
	}
}

// verifC23Hostile draws a hostile input for the given version.
func verifC23Hostile(t *rapid.T, version uint8) ([]byte, string, bool) {
	kind := rapid.SampledFrom([]string{"random", "mutated stream", "mutated stream", "crafted header", "crafted header", "relength", "garbage after valid"}).Draw(t, "hostileKind")
	switch kind {
	case "random":
		return kit.Bytes(300).Draw(t, "raw"), kind, false
	case "mutated stream":
		s := verifC23BuildStream(t, version, 4)
		b := s.stream
		n := rapid.IntRange(1, 3).Draw(t, "mutations")
		for i := 0; i < n; i++ {
			b, _ = kit.Mutate(t, b)
		}
		return b, kind, false
	case "crafted header":
		ft := byte(rapid.IntRange(0, 15).Draw(t, "typeNibble"))
		flags := byte(rapid.IntRange(0, 15).Draw(t, "flagNibble"))
		out := []byte{ft<<4 | flags}
		bodyLen := rapid.IntRange(0, 80).Draw(t, "bodyLen")
		lk := rapid.SampledFrom([]string{"exact", "truncated varint", "continued x4", "continued x5", "oversize", "max", "max+1", "zero", "declares more", "declares less", "padded varint"}).Draw(t, "lengthKind")
		switch lk {
		case "exact":
			out = append(out, verifC23Varint(uint32(bodyLen))...)
		case "truncated varint":
			n := rapid.IntRange(1, 3).Draw(t, "contBytes")
			for i := 0; i < n; i++ {
				out = append(out, 0x80|byte(rapid.IntRange(0, 127).Draw(t, "contVal")))
			}
			return out, kind + "/" + lk, false
		case "continued x4", "continued x5":
			n := 4
			if lk == "continued x5" {
				n = 5
			}
			for i := 0; i < n; i++ {
				v := byte(0)
				if rapid.IntRange(0, 3).Draw(t, "contNonZero") == 0 {
					v = byte(rapid.IntRange(0, 127).Draw(t, "contVal"))
				}
				if i == 0 && rapid.Bool().Draw(t, "smallFirst") {
					v = byte(rapid.IntRange(0, 40).Draw(t, "firstVal"))
				}
				out = append(out, 0x80|v)
			}
		case "oversize":
			out = append(out, verifC23Varint(uint32(rapid.IntRange(int(codec.MaxRemaingLength)+1, 1<<28-1).Draw(t, "oversize")))...)
		case "max":
			out = append(out, verifC23Varint(codec.MaxRemaingLength)...)
		case "max+1":
			out = append(out, verifC23Varint(codec.MaxRemaingLength+1)...)
		case "zero":
			out = append(out, 0)
		case "declares more":
			out = append(out, verifC23Varint(uint32(bodyLen+rapid.IntRange(1, 300).Draw(t, "extra")))...)
		case "declares less":
			out = append(out, verifC23Varint(uint32(rapid.IntRange(0, bodyLen).Draw(t, "less")))...)
		case "padded varint":
			out = append(out, 0x80|byte(bodyLen&0x7f), 0x80, 0x00)
		}
		body := rapid.SliceOfN(rapid.Byte(), bodyLen, bodyLen).Draw(t, "body")
		if rapid.Bool().Draw(t, "zeroBody") {
			body = make([]byte, bodyLen)
		}
		return append(out, body...), kind + "/" + lk, false
	case "relength":
		// a valid frame whose body is kept but whose declared length is rewritten
		s := verifC23BuildStream(t, version, 1)
		enc := s.encs[0]
		if s.lenlens[0] == 0 {
			return append(enc, 0x80), kind, false
		}
		body := enc[1+s.lenlens[0]:]
		delta := rapid.IntRange(-3, 3).Draw(t, "lenDelta")
		nl := len(body) + delta
		if nl < 0 {
			nl = 0
		}
		out := append([]byte{enc[0]}, verifC23Varint(uint32(nl))...)
		if nl == 0 {
			out = append(out[:1], 0)
		}
		out = append(out, body...)
		if delta > 0 {
			out = append(out, rapid.SliceOfN(rapid.Byte(), delta, delta).Draw(t, "tail")...)
		}
		return out, kind, delta == 0
	default: // garbage after valid
		s := verifC23BuildStream(t, version, 3)
		return append(append([]byte(nil), s.stream...), kit.Bytes(40).Draw(t, "garbage")...), kind, false
	}
}

func verifC23HostileSession(t *rapid.T) (session.Session, uint8, string) {
	sess, version, label := verifC23Session(t)
	if sess != nil && rapid.IntRange(0, 4).Draw(t, "encrypted") == 0 {
		keys := wkprotoenc.SessionKeys{AESKey: []byte("1234567890abcdef"), AESIV: []byte("abcdef1234567890")}
		sess.SetValue(gatewaytypes.SessionValueEncryptionEnabled, true)
		sess.SetValue(gatewaytypes.SessionValueAESKey, keys.AESKey)
		sess.SetValue(gatewaytypes.SessionValueAESIV, keys.AESIV)
		if rapid.Bool().Draw(t, "cachedCipher") {
			sc, err := wkprotoenc.NewSessionCrypto(keys)
			if err != nil {
				t.Fatalf("NewSessionCrypto: %v", err)
			}
			sess.SetValue(gatewaytypes.SessionValueCrypto, sc)
		}
		label += ", encrypted"
	}
	return sess, version, label
}

// TestVerifC23Hostile: arbitrary and mutated bytes for every negotiated
// version: no panic, consumed within the input, outcome is exactly one of
// frames / wait / error, nothing past the input is read, and frames returned
// account byte for byte for the consumed prefix.
func TestVerifC23Hostile(t *testing.T) {
	kit.Check(t, "C23", func(rt *rapid.T, k *kit.Case) {
		sess, version, sessLabel := verifC23HostileSession(rt)
		in, kind, untouched := verifC23Hostile(rt, version)
		adapter := New()
		outcome, err := verifC23Judge(adapter, sess, in)
		if err != nil {
			rt.Fatalf("v%d %s input %x: %v", version, kind, verifC23Trunc(in), err)
		}
		// the client-side reader uses DecodeFrame directly
		func() {
			defer func() {
				if p := recover(); p != nil {
					rt.Fatalf("DecodeFrame panicked on %x: %v", verifC23Trunc(in), p)
				}
			}()
			if len(in) > 0 {
				f, n, err := codec.New().DecodeFrame(in, version)
				if n < 0 || n > len(in) || (err != nil && (f != nil || n != 0)) {
					rt.Fatalf("DecodeFrame(%x) = frame %v consumed %d err %v", verifC23Trunc(in), f != nil, n, err)
				}
			}
		}()
		validNibble := len(in) > 0 && in[0]>>4 >= 1 && in[0]>>4 <= 12
		k.Key(version, sessLabel, in)
		k.SetNonTrivial(validNibble && !untouched)
		k.Label("input " + kind)
		k.Label("outcome " + outcome)
		k.LabelIf(validNibble, "first type nibble valid")
		k.LabelIf(strings.Contains(sessLabel, "encrypted"), "encrypted session")
		k.Sample(func() any { return fmt.Sprintf("v%d %s %s → %s: %x", version, sessLabel, kind, outcome, verifC23Trunc(in)) })
	})
}

func verifC23Trunc(b []byte) []byte {
	if len(b) > 160 {
		return b[:160]
	}
	return b
}

// TestVerifC23MaxFrame: the largest legal frame (RemainingLength ==
// MaxRemaingLength) is delivered across splits; one byte more is an error as
// soon as the header is complete, never a wait for 1 MiB of data.
func TestVerifC23MaxFrame(t *testing.T) {
	col := kit.For(t, "C23")
	proto := codec.New()
	adapter := New()
	for _, version := range []uint8{1, 4, 5, frame.LatestVersion} {
		sess := session.New(session.Config{ID: 1})
		sess.SetValue(gatewaytypes.SessionValueProtocolVersion, version)
		for _, over := range []int{0, 1} {
			ev := &frame.EventPacket{Framer: frame.Framer{FrameType: frame.EVENT}, Id: "e", Type: "t", Timestamp: 7}
			fixed := 2 + 1 + 2 + 1 + 8
			ev.Data = bytes.Repeat([]byte{byte(version)}, int(codec.MaxRemaingLength)-fixed+over)
			enc, err := proto.EncodeFrame(ev, version)
			if err != nil {
				t.Fatalf("encode: %v", err)
			}
			ping, _ := proto.EncodeFrame(&frame.PingPacket{}, version)
			stream := append(append([]byte(nil), enc...), ping...)
			k := col.NewCase()
			k.Key("maxframe", version, over)
			k.NonTrivial()
			if over == 0 {
				bounds := map[int]int{0: 0, len(enc): 1, len(stream): 2}
				for _, cuts := range [][]int{nil, {1}, {2}, {3}, {4}, {len(enc) - 1}, {len(enc)}, {2, 3, 70000, len(enc) - 1}} {
					res := verifC23FeedGateway(adapter, sess, verifC23Chunks(stream, append([]int(nil), cuts...)), bounds)
					if res.err != nil || res.pending != 0 || len(res.frames) != 2 {
						t.Fatalf("v%d max-size frame cuts %v: err=%v pending=%d frames=%d", version, cuts, res.err, res.pending, len(res.frames))
					}
					got := res.frames[0].(*frame.EventPacket)
					if !bytes.Equal(got.Data, ev.Data) || got.Id != "e" || got.Type != "t" || got.Timestamp != 7 {
						t.Fatalf("v%d max-size frame content differs", version)
					}
				}
				k.Label("max-size frame delivered")
			} else {
				for _, n := range []int{4, 5, 100, len(stream)} {
					frames, consumed, err := adapter.Decode(sess, stream[:n])
					if err == nil || len(frames) != 0 || consumed != 0 {
						t.Fatalf("v%d frame of MaxRemaingLength+1 with %d bytes present: frames=%d consumed=%d err=%v, want error", version, n, len(frames), consumed, err)
					}
				}
				k.Label("max+1 frame refused at header")
			}
			col.Commit(k)
		}
	}
}
