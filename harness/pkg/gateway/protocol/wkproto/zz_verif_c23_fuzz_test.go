package wkproto

import (
	"fmt"
	"sync/atomic"
	"testing"

	"github.com/WuKongIM/WuKongIM/pkg/gateway/session"
	gatewaytypes "github.com/WuKongIM/WuKongIM/pkg/gateway/types"
	"github.com/WuKongIM/WuKongIM/pkg/gateway/wkprotoenc"
	codec "github.com/WuKongIM/WuKongIM/pkg/protocol/codec"
	"github.com/WuKongIM/WuKongIM/pkg/protocol/frame"
	"verif.local/kit"
)

var verifC23FuzzExecs atomic.Int64

func verifC23FuzzSession(mode uint8) (session.Session, uint8) {
	version := mode % (frame.LatestVersion + 1) // 0 = not negotiated yet → latest
	sess := session.New(session.Config{ID: 1, Listener: "verif"})
	if version != 0 {
		sess.SetValue(gatewaytypes.SessionValueProtocolVersion, version)
	} else {
		version = frame.LatestVersion
	}
	if mode&0x80 != 0 {
		keys := wkprotoenc.SessionKeys{AESKey: []byte("1234567890abcdef"), AESIV: []byte("abcdef1234567890")}
		sess.SetValue(gatewaytypes.SessionValueEncryptionEnabled, true)
		sess.SetValue(gatewaytypes.SessionValueAESKey, keys.AESKey)
		sess.SetValue(gatewaytypes.SessionValueAESIV, keys.AESIV)
		if sc, err := wkprotoenc.NewSessionCrypto(keys); err == nil && mode&0x40 != 0 {
			sess.SetValue(gatewaytypes.SessionValueCrypto, sc)
		}
	}
	return sess, version
}

// verifC23FuzzFeed: gateway carry-over discipline without boundary knowledge.
func verifC23FuzzFeed(a *Adapter, sess session.Session, chunks [][]byte) (frames []frame.Frame, consumedTotal int, err error) {
	var pending []byte
	for _, chunk := range chunks {
		if len(chunk) == 0 {
			continue
		}
		work := append(append([]byte(nil), pending...), chunk...)
		for len(work) > 0 {
			fs, consumed, derr := a.Decode(sess, work)
			if derr != nil {
				return frames, consumedTotal, derr
			}
			if consumed < 0 || consumed > len(work) {
				return frames, consumedTotal, fmt.Errorf("verif: consumed %d of %d", consumed, len(work))
			}
			if consumed == 0 {
				if len(fs) != 0 {
					return frames, consumedTotal, fmt.Errorf("verif: frames without progress")
				}
				break
			}
			frames = append(frames, fs...)
			consumedTotal += consumed
			work = work[consumed:]
		}
		pending = append([]byte(nil), work...)
	}
	return frames, consumedTotal, nil
}

// FuzzVerifC23Decode: native fuzzing of Adapter.Decode with the robustness
// oracle of TestVerifC23Hostile plus split-feed equivalence inside the target.
func FuzzVerifC23Decode(f *testing.F) {
	proto := codec.New()
	seedFrames := []frame.Frame{
		&frame.PingPacket{}, &frame.PongPacket{},
		&frame.ConnectPacket{Version: 6, DeviceID: "d", UID: "u", Token: "t", ClientTimestamp: 1, ClientKey: "k"},
		&frame.ConnackPacket{Framer: frame.Framer{HasServerVersion: true}, ServerVersion: 6, ServerKey: "s", Salt: "x", NodeId: 1},
		&frame.SendPacket{Setting: frame.SettingTopic, ClientSeq: 1, ClientMsgNo: "m", ChannelID: "c", ChannelType: 2, Expire: 3, MsgKey: "k", Topic: "t", Payload: []byte("hello")},
		&frame.SendPacket{Setting: frame.SettingStream, ClientSeq: 2, ClientMsgNo: "m", StreamNo: "s", ChannelID: "c", ChannelType: 1, Payload: make([]byte, 200)},
		&frame.SendackPacket{MessageID: 1, ClientSeq: 2, MessageSeq: 3, ReasonCode: 1, ClientMsgNo: "m"},
		&frame.RecvPacket{Setting: frame.SettingTopic | frame.SettingStream, MsgKey: "k", FromUID: "u", ChannelID: "c", ChannelType: 2, ClientMsgNo: "m", StreamNo: "s", StreamId: 1, MessageID: 1, MessageSeq: 2, Timestamp: 3, Topic: "t", Payload: []byte("p")},
		&frame.RecvackPacket{MessageID: 1, MessageSeq: 2},
		&frame.DisconnectPacket{ReasonCode: 1, Reason: "bye"},
		&frame.SubPacket{SubNo: "n", ChannelID: "c", ChannelType: 2, Action: 1, Param: "p"},
		&frame.SubackPacket{SubNo: "n", ChannelID: "c", ChannelType: 2, Action: 1, ReasonCode: 1},
		&frame.EventPacket{Id: "i", Type: "t", Timestamp: 1, Data: []byte("{}")},
	}
	for v := uint8(1); v <= frame.LatestVersion; v++ {
		var all []byte
		for _, fr := range seedFrames {
			enc, err := proto.EncodeFrame(fr, v)
			if err != nil {
				f.Fatalf("seed encode: %v", err)
			}
			f.Add(enc, v, uint16(len(enc)/2))
			all = append(all, enc...)
		}
		f.Add(all, v, uint16(7))
		f.Add(all, v|0x80, uint16(40))
	}
	for _, hostile := range [][]byte{
		{0x30}, {0x30, 0x80}, {0x30, 0x80, 0x80, 0x80}, {0x30, 0x80, 0x80, 0x80, 0x80}, {0x30, 0xff, 0xff, 0xff, 0xff, 0xff},
		{0x90, 0x83, 0x80, 0x80, 0x80, 0x00, 0x01, 0x00, 0x00}, {0x30, 0xff, 0xff, 0x7f}, {0x30, 0x80, 0x80, 0x40}, {0x30, 0x81, 0x80, 0x40, 0},
		{0x30, 0x00}, {0x00, 0x00}, {0xd0, 0x00}, {0xf0, 0x01, 0x00}, {0x70, 0x70, 0x80}, {0x90, 0x03, 0x01, 0xff, 0xff}, {0x30, 0x05, 0, 0, 0, 0, 0},
	} {
		f.Add(hostile, uint8(frame.LatestVersion), uint16(2))
		f.Add(hostile, uint8(3)|0xc0, uint16(1))
	}
	col := kit.For(f, "C23")
	adapter := New()
	f.Fuzz(func(t *testing.T, data []byte, mode uint8, split uint16) {
		if len(data) > 1<<16 {
			return
		}
		sess, _ := verifC23FuzzSession(mode)
		outcome, err := verifC23Judge(adapter, sess, data)
		if err != nil {
			t.Fatalf("mode %#x input %x: %v", mode, verifC23Trunc(data), err)
		}
		// split-feed equivalence
		one := verifC23SafeDecode(adapter, sess, append([]byte(nil), data...))
		if len(data) > 0 {
			s := int(split) % (len(data) + 1)
			frames, consumed, ferr := verifC23FuzzFeed(adapter, sess, [][]byte{data[:s], data[s:]})
			if one.err == nil {
				if ferr != nil || consumed != one.consumed || !verifC23SameFrames(frames, one.frames) {
					t.Fatalf("mode %#x input %x split %d: one-shot gives %d frames consumed %d, split feed gives %d frames consumed %d err %v", mode, verifC23Trunc(data), s, len(one.frames), one.consumed, len(frames), consumed, ferr)
				}
			} else if ferr == nil {
				t.Fatalf("mode %#x input %x split %d: one-shot decode fails (%v) but the split feed accepts %d frames and waits", mode, verifC23Trunc(data), s, one.err, len(frames))
			}
		}
		if n := verifC23FuzzExecs.Add(1); n%128 == 0 {
			k := col.NewCase()
			k.Key(mode, split, data)
			k.SetNonTrivial(len(data) > 0 && data[0]>>4 >= 1 && data[0]>>4 <= 12)
			k.Label("fuzz outcome " + outcome)
			col.Commit(k)
			col.AddExtra("fuzz_execs_sampled_x128", 1)
		}
	})
}
