package wsmux

import (
	"encoding/json"
	"fmt"
	"strconv"
	"strings"
	"testing"

	"github.com/WuKongIM/WuKongIM/pkg/gateway/session"
	gatewaytypes "github.com/WuKongIM/WuKongIM/pkg/gateway/types"
	codec "github.com/WuKongIM/WuKongIM/pkg/protocol/codec"
	"github.com/WuKongIM/WuKongIM/pkg/protocol/frame"
	pkgjsonrpc "github.com/WuKongIM/WuKongIM/pkg/protocol/jsonrpc"
	"pgregory.net/rapid"
	"verif.local/kit"
)

// TestVerifC24Mux: on the websocket multiplexer a first JSON message selects
// the JSON-RPC bridge for the session; the frame, the reply token and the
// reply id survive the extra layer; a binary first message selects WKProto
// and later '{' bytes do not switch the session.
func TestVerifC24Mux(t *testing.T) {
	kit.Check(t, "C24", func(rt *rapid.T, k *kit.Case) {
		mux := New()
		sess := session.New(session.Config{ID: 1, Listener: "verif"})
		id := strings.ToValidUTF8(rapid.StringN(1, 12, 40).Draw(rt, "id"), "?")
		payload := kit.Bytes(80).Draw(rt, "payload")
		channel := rapid.StringMatching(`[a-zA-Z0-9_\-]{1,16}`).Draw(rt, "channel")
		ctype := rapid.IntRange(1, 12).Draw(rt, "channelType")
		if rapid.Bool().Draw(rt, "jsonFirst") {
			lead := rapid.SampledFrom([]string{"", " ", "\n", "\r\n\t "}).Draw(rt, "leadingWS")
			useSend := rapid.Bool().Draw(rt, "send")
			var msg any = pkgjsonrpc.PingRequest{BaseRequest: pkgjsonrpc.BaseRequest{Method: "ping", ID: id}}
			if useSend {
				msg = pkgjsonrpc.SendRequest{BaseRequest: pkgjsonrpc.BaseRequest{Jsonrpc: "2.0", Method: "send", ID: id},
					Params: pkgjsonrpc.SendParams{ChannelID: channel, ChannelType: ctype, Payload: payload}}
			}
			doc, _ := json.Marshal(msg)
			in := append([]byte(lead), doc...)
			frames, consumed, err := mux.Decode(sess, in)
			if err != nil || len(frames) != 1 || consumed != len(in) {
				rt.Fatalf("mux.Decode(%q) frames=%d consumed=%d/%d err=%v", in, len(frames), consumed, len(in), err)
			}
			if got, _ := sess.Value(gatewaytypes.SessionValueProtocolName).(string); got != "jsonrpc" {
				rt.Fatalf("session protocol %q after a JSON message", got)
			}
			if useSend {
				sp, ok := frames[0].(*frame.SendPacket)
				if !ok || sp.ChannelID != channel || int(sp.ChannelType) != ctype || string(sp.Payload) != string(payload) {
					rt.Fatalf("send frame through mux: %#v", frames[0])
				}
			} else if _, ok := frames[0].(*frame.PingPacket); !ok {
				rt.Fatalf("ping through mux: %T", frames[0])
			}
			tokens := mux.TakeReplyTokens(sess, 1)
			if len(tokens) != 1 || tokens[0] != id {
				rt.Fatalf("reply tokens %q, request id %q", tokens, id)
			}
			var reply frame.Frame = &frame.PongPacket{}
			if useSend {
				reply = &frame.SendackPacket{MessageID: 5, MessageSeq: 6, ReasonCode: frame.ReasonSuccess}
			}
			out, err := mux.Encode(sess, reply, session.OutboundMeta{ReplyToken: tokens[0]})
			if err != nil {
				rt.Fatalf("mux.Encode: %v", err)
			}
			var env struct {
				ID string `json:"id"`
			}
			if err := json.Unmarshal(out, &env); err != nil || env.ID != id {
				rt.Fatalf("reply %s does not carry id %q (%v)", out, id, err)
			}
			k.Label("mux: json first")
		} else {
			proto := codec.New()
			ver := uint8(rapid.IntRange(1, 6).Draw(rt, "version"))
			sess.SetValue(gatewaytypes.SessionValueProtocolVersion, ver)
			wire, err := proto.EncodeFrame(&frame.SendPacket{ClientSeq: 1, ClientMsgNo: "n", ChannelID: channel, ChannelType: uint8(ctype), Payload: payload}, ver)
			if err != nil {
				rt.Fatalf("encode: %v", err)
			}
			frames, consumed, err := mux.Decode(sess, wire)
			if err != nil || len(frames) != 1 || consumed != len(wire) {
				rt.Fatalf("binary first message: frames=%d consumed=%d err=%v", len(frames), consumed, err)
			}
			if got, _ := sess.Value(gatewaytypes.SessionValueProtocolName).(string); got != "wkproto" {
				rt.Fatalf("session protocol %q after a binary message", got)
			}
			doc, _ := json.Marshal(pkgjsonrpc.PingRequest{BaseRequest: pkgjsonrpc.BaseRequest{Method: "ping", ID: id}})
			func() {
				defer func() {
					if p := recover(); p != nil {
						rt.Fatalf("mux.Decode panicked on JSON bytes in a WKProto session: %v", p)
					}
				}()
				_, consumed, _ := mux.Decode(sess, doc)
				if consumed < 0 || consumed > len(doc) {
					rt.Fatalf("consumed %d of %d", consumed, len(doc))
				}
			}()
			if got, _ := sess.Value(gatewaytypes.SessionValueProtocolName).(string); got != "wkproto" {
				rt.Fatalf("session switched to %q on later '{' bytes", got)
			}
			if tokens := mux.TakeReplyTokens(sess, 1); len(tokens) != 0 {
				rt.Fatalf("reply tokens %q in a WKProto session", tokens)
			}
			k.Label("mux: wkproto first")
		}
		k.Key(id, payload, channel, ctype)
		k.SetNonTrivial(true)
		k.Sample(func() any { return fmt.Sprintf("id=%s channel=%s type=%s", strconv.Quote(id), channel, strconv.Itoa(ctype)) })
	})
}
