package jsonrpc

import (
	"bytes"
	"encoding/json"
	"fmt"
	"reflect"
	"sort"
	"strconv"
	"strings"
	"testing"

	"github.com/WuKongIM/WuKongIM/pkg/gateway/session"
	"github.com/WuKongIM/WuKongIM/pkg/protocol/frame"
	pkgjsonrpc "github.com/WuKongIM/WuKongIM/pkg/protocol/jsonrpc"
	"pgregory.net/rapid"
	"verif.local/kit"
)

type verifC24Msg struct {
	kind string
	id   string
	doc  []byte
	want frame.Frame
}

func verifC24AStr(label string) *rapid.Generator[string] {
	return rapid.Custom(func(t *rapid.T) string {
		switch rapid.IntRange(0, 5).Draw(t, label+"Kind") {
		case 0:
			return ""
		case 1:
			return strings.ToValidUTF8(rapid.StringN(0, 10, 40).Draw(t, label+"Utf8"), "?")
		case 2:
			return strings.Join(rapid.SliceOfN(rapid.SampledFrom([]string{`"`, `\`, "\n", "}", "{", " ", "频", "😀", "a"}), 1, 5).Draw(t, label+"Esc"), "")
		default:
			return rapid.StringMatching(`[a-zA-Z0-9_\-]{1,16}`).Draw(t, label+"Ident")
		}
	})
}

// verifC24AMessage draws one client→gateway message as JSON plus the frame it stands for.
func verifC24AMessage(t *rapid.T, n int) verifC24Msg {
	kind := rapid.SampledFrom([]string{"connect", "send", "send", "ping", "disconnect", "recvack"}).Draw(t, "kind")
	m := verifC24Msg{kind: kind}
	if kind != "recvack" {
		m.id = "req-" + strconv.Itoa(n) + "-" + verifC24AStr("id").Draw(t, "id")
	}
	hb := rapid.IntRange(0, 31).Draw(t, "hdrBits")
	hdr := pkgjsonrpc.Header{NoPersist: hb&1 != 0, RedDot: hb&2 != 0, SyncOnce: hb&4 != 0, Dup: hb&8 != 0, End: hb&16 != 0}
	fr := frame.Framer{NoPersist: hdr.NoPersist, RedDot: hdr.RedDot, SyncOnce: hdr.SyncOnce, DUP: hdr.Dup, End: hdr.End}
	base := pkgjsonrpc.BaseRequest{Jsonrpc: "2.0", Method: kind, ID: m.id}
	var msg any
	switch kind {
	case "connect":
		p := pkgjsonrpc.ConnectParams{Header: hdr, Version: rapid.IntRange(1, 6).Draw(t, "version"), ClientKey: verifC24AStr("ck").Draw(t, "ck"), DeviceID: verifC24AStr("dev").Draw(t, "dev"),
			DeviceFlag: pkgjsonrpc.DeviceFlagEnum(rapid.IntRange(0, 2).Draw(t, "flag")), ClientTimestamp: rapid.Int64().Draw(t, "ts"), UID: verifC24AStr("uid").Draw(t, "uid"), Token: verifC24AStr("tok").Draw(t, "tok")}
		msg = pkgjsonrpc.ConnectRequest{BaseRequest: base, Params: p}
		m.want = &frame.ConnectPacket{Framer: fr, Version: uint8(p.Version), ClientKey: p.ClientKey, DeviceID: p.DeviceID, DeviceFlag: frame.DeviceFlag(p.DeviceFlag), ClientTimestamp: p.ClientTimestamp, UID: p.UID, Token: p.Token}
	case "send":
		topic := rapid.Bool().Draw(t, "topicFlag")
		p := pkgjsonrpc.SendParams{Header: hdr, Setting: pkgjsonrpc.SettingFlags{Topic: topic}, ClientMsgNo: verifC24AStr("no").Draw(t, "no"), ChannelID: verifC24AStr("ch").Draw(t, "ch"),
			ChannelType: rapid.IntRange(1, 12).Draw(t, "ct"), Expire: uint32(rapid.IntRange(0, 3).Draw(t, "expire")), Topic: verifC24AStr("topic").Draw(t, "topic"), Payload: kit.Bytes(120).Draw(t, "payload")}
		var setting frame.Setting
		if topic {
			setting = frame.SettingTopic
		}
		msg = pkgjsonrpc.SendRequest{BaseRequest: base, Params: p}
		m.want = &frame.SendPacket{Framer: fr, Setting: setting, ClientMsgNo: p.ClientMsgNo, ChannelID: p.ChannelID, ChannelType: uint8(p.ChannelType), Expire: p.Expire, Topic: p.Topic, Payload: p.Payload}
	case "ping":
		msg = pkgjsonrpc.PingRequest{BaseRequest: base}
		m.want = &frame.PingPacket{}
	case "disconnect":
		p := pkgjsonrpc.DisconnectParams{ReasonCode: pkgjsonrpc.ReasonCodeEnum(rapid.IntRange(0, 40).Draw(t, "rc")), Reason: verifC24AStr("reason").Draw(t, "reason")}
		msg = pkgjsonrpc.DisconnectRequest{BaseRequest: base, Params: p}
		m.want = &frame.DisconnectPacket{ReasonCode: frame.ReasonCode(p.ReasonCode), Reason: p.Reason}
	case "recvack":
		mid := rapid.Int64().Draw(t, "mid")
		seq := kit.Uint64Edge().Draw(t, "seq")
		msg = pkgjsonrpc.RecvAckNotification{BaseNotification: pkgjsonrpc.BaseNotification{Jsonrpc: "2.0", Method: "recvack"}, Params: pkgjsonrpc.RecvAckParams{Header: hdr, MessageID: strconv.FormatInt(mid, 10), MessageSeq: seq}}
		m.want = &frame.RecvackPacket{Framer: fr, MessageID: mid, MessageSeq: seq}
	}
	doc, err := json.Marshal(msg)
	if err != nil {
		t.Fatalf("harness marshal: %v", err)
	}
	m.doc = doc
	return m
}

func verifC24AFrameEq(a, b frame.Frame) bool {
	if sa, ok := a.(*frame.SendPacket); ok {
		sb, ok := b.(*frame.SendPacket)
		if !ok {
			return false
		}
		ca, cb := *sa, *sb
		if len(ca.Payload) == 0 {
			ca.Payload = nil
		}
		if len(cb.Payload) == 0 {
			cb.Payload = nil
		}
		return reflect.DeepEqual(ca, cb)
	}
	return reflect.DeepEqual(a, b)
}

func verifC24ASafeDecode(a *Adapter, sess session.Session, in []byte) (frames []frame.Frame, consumed int, err error, panicked any) {
	defer func() {
		if p := recover(); p != nil {
			panicked = p
		}
	}()
	frames, consumed, err = a.Decode(sess, in)
	return
}

// TestVerifC24AdapterStream: JSON-RPC client messages delivered in arbitrary
// chunks through the gateway adapter with carry-over come out as the frames
// they stand for, each request's id is kept as the reply token for exactly
// that frame, and the reply encoded with that token carries the same id.
func TestVerifC24AdapterStream(t *testing.T) {
	kit.Check(t, "C24", func(rt *rapid.T, k *kit.Case) {
		adapter := New()
		sess := session.New(session.Config{ID: 1, Listener: "verif"})
		if rapid.Bool().Draw(rt, "onOpen") {
			_ = adapter.OnOpen(sess)
		}
		n := rapid.IntRange(1, 6).Draw(rt, "messages")
		var msgs []verifC24Msg
		var stream []byte
		ends := map[int]int{}
		for i := 0; i < n; i++ {
			m := verifC24AMessage(rt, i)
			msgs = append(msgs, m)
			stream = append(stream, rapid.SampledFrom([]string{"", "", "\n", " ", "\r\n\t"}).Draw(rt, "sep")...)
			stream = append(stream, m.doc...)
			ends[len(stream)] = i + 1
		}
		total := len(stream)
		kind := rapid.SampledFrom([]string{"one", "bytewise", "random", "per message"}).Draw(rt, "chunking")
		var cuts []int
		switch kind {
		case "bytewise":
			if total <= 1500 {
				for i := 1; i < total; i++ {
					cuts = append(cuts, i)
				}
			}
		case "random":
			for i, c := 0, rapid.IntRange(1, 6).Draw(rt, "cutCount"); i < c; i++ {
				cuts = append(cuts, rapid.IntRange(0, total).Draw(rt, "cut"))
			}
		case "per message":
			for e := range ends {
				cuts = append(cuts, e)
			}
		}
		sort.Ints(cuts)
		var chunks [][]byte
		prev := 0
		for _, c := range cuts {
			if c > prev && c < total {
				chunks = append(chunks, stream[prev:c])
				prev = c
			}
		}
		chunks = append(chunks, stream[prev:])

		var pending []byte
		base, delivered, insideCut := 0, 0, false
		for _, c := range cuts {
			if _, onEnd := ends[c]; !onEnd && c > 0 && c < total {
				insideCut = true
			}
		}
		for _, chunk := range chunks {
			buf := append(append([]byte(nil), pending...), chunk...)
			work := buf
			for len(work) > 0 {
				frames, consumed, err, p := verifC24ASafeDecode(adapter, sess, work)
				if p != nil {
					rt.Fatalf("Decode panicked: %v", p)
				}
				if err != nil {
					rt.Fatalf("valid stream refused at offset %d: %v\n%s", base, err, work)
				}
				if consumed < 0 || consumed > len(work) {
					rt.Fatalf("consumed %d of %d", consumed, len(work))
				}
				if consumed == 0 {
					if len(frames) != 0 {
						rt.Fatalf("frames without progress")
					}
					break
				}
				idx, ok := ends[base+consumed]
				if !ok || idx != delivered+len(frames) || len(frames) == 0 {
					rt.Fatalf("consumed %d from offset %d with %d frames: not the end of message %d", consumed, base, len(frames), delivered+len(frames))
				}
				tokens := adapter.TakeReplyTokens(sess, len(frames))
				ti := 0
				for _, f := range frames {
					m := msgs[delivered]
					if !verifC24AFrameEq(f, m.want) {
						rt.Fatalf("message %d (%s) became\n got  %#v\n want %#v\n json %s", delivered, m.kind, f, m.want, m.doc)
					}
					if m.id != "" {
						if ti >= len(tokens) || tokens[ti] != m.id {
							rt.Fatalf("message %d (%s id %q): reply tokens %q", delivered, m.kind, m.id, tokens)
						}
						// the reply goes out under the same id
						var reply frame.Frame = &frame.PongPacket{}
						switch m.kind {
						case "send":
							reply = &frame.SendackPacket{MessageID: 7, MessageSeq: 8, ReasonCode: frame.ReasonSuccess}
						case "connect":
							reply = &frame.ConnackPacket{ReasonCode: frame.ReasonSuccess, ServerKey: "k"}
						}
						out, err := adapter.Encode(sess, reply, session.OutboundMeta{ReplyToken: tokens[ti]})
						if err != nil {
							rt.Fatalf("Encode reply: %v", err)
						}
						var env struct {
							ID     *string `json:"id"`
							Method *string `json:"method"`
						}
						if err := json.Unmarshal(out, &env); err != nil || env.ID == nil || *env.ID != m.id || env.Method != nil {
							rt.Fatalf("reply to %q is %s (err %v)", m.id, out, err)
						}
						ti++
					}
					delivered++
				}
				if ti != len(tokens) {
					rt.Fatalf("%d reply tokens for %d frames of which %d had ids: %q", len(tokens), len(frames), ti, tokens)
				}
				base += consumed
				work = work[consumed:]
			}
			pending = append([]byte(nil), work...)
			for i := range buf {
				buf[i] = '#'
			}
		}
		if delivered != len(msgs) || len(bytes.TrimSpace(pending)) != 0 {
			rt.Fatalf("delivered %d of %d messages, %d bytes pending", delivered, len(msgs), len(pending))
		}
		if left := adapter.TakeReplyTokens(sess, 10); len(left) != 0 {
			rt.Fatalf("stale reply tokens %q", left)
		}
		withID := 0
		for _, m := range msgs {
			if m.id != "" {
				withID++
			}
		}
		k.Key(stream, kind, fmt.Sprint(cuts))
		k.SetNonTrivial(withID > 0 && (insideCut || len(msgs) > 1))
		k.Label("chunking " + kind)
		k.LabelIf(insideCut, "cut inside a JSON message")
		k.LabelIf(withID > 0 && withID < len(msgs), "requests mixed with id-less notifications")
		k.Sample(func() any {
			s := string(stream)
			if len(s) > 300 {
				s = s[:300] + "…"
			}
			return fmt.Sprintf("%s cuts=%d: %s", kind, len(cuts), s)
		})
	})
}

// TestVerifC24AdapterHostile: mutated JSON streams into the adapter: no
// panic, consumed inside the input, an error comes without frames.
func TestVerifC24AdapterHostile(t *testing.T) {
	kit.Check(t, "C24", func(rt *rapid.T, k *kit.Case) {
		adapter := New()
		sess := session.New(session.Config{ID: 1, Listener: "verif"})
		var data []byte
		for i, n := 0, rapid.IntRange(1, 3).Draw(rt, "messages"); i < n; i++ {
			data = append(data, verifC24AMessage(rt, i).doc...)
		}
		mutated := rapid.IntRange(0, 4).Draw(rt, "mutate") != 0
		if mutated {
			for i, n := 0, rapid.IntRange(1, 3).Draw(rt, "mutations"); i < n; i++ {
				data, _ = kit.Mutate(rt, data)
			}
		}
		frames, consumed, err, p := verifC24ASafeDecode(adapter, sess, data)
		if p != nil {
			rt.Fatalf("Decode panicked on %q: %v", data, p)
		}
		if consumed < 0 || consumed > len(data) {
			rt.Fatalf("consumed %d of %d", consumed, len(data))
		}
		if err != nil && (len(frames) != 0 || consumed != 0) {
			rt.Fatalf("error %v with %d frames consumed %d", err, len(frames), consumed)
		}
		if err == nil && (len(frames) == 0) != (consumed == 0) {
			rt.Fatalf("%d frames consumed %d", len(frames), consumed)
		}
		outcome := "error"
		if err == nil {
			outcome = "wait"
			if len(frames) > 0 {
				outcome = "frame"
				for _, f := range frames {
					if f == nil || reflect.ValueOf(f).IsNil() {
						rt.Fatalf("nil frame")
					}
				}
				if !json.Valid(bytes.TrimSpace(data[:consumed])) {
					rt.Fatalf("consumed prefix %q is not one JSON value", data[:consumed])
				}
			}
		}
		k.Key(data)
		k.SetNonTrivial(mutated)
		k.Label("adapter hostile outcome " + outcome)
		k.Sample(func() any {
			s := string(data)
			if len(s) > 200 {
				s = s[:200] + "…"
			}
			return outcome + ": " + s
		})
	})
}
