package machine

import (
	"errors"
	"fmt"
	"reflect"
	"sort"
	"strings"
	"testing"

	ch "github.com/WuKongIM/WuKongIM/pkg/channel"
	"pgregory.net/rapid"
	"verif.local/kit"
)

// ---------------------------------------------------------------------------
// Reference model of the channel runtime state machine (the part the property
// speaks about): metadata fence, watermarks, replica matches, outstanding
// append waiters and the single in-flight durable batch.
// ---------------------------------------------------------------------------

type verifC06Waiter struct {
	op     ch.OpID
	mode   ch.CommitMode
	ids    []uint64 // message ids of its records, in order
	target uint64   // last assigned sequence; 0 until the batch is durable
}

type verifC06Inflight struct {
	batch  ch.OpID
	ops    []ch.OpID
	counts []int
}

type verifC06Model struct {
	key         ch.ChannelKey
	id          ch.ChannelID
	local       ch.NodeID
	gen         uint64
	epoch       uint64
	leaderEpoch uint64
	leader      ch.NodeID
	role        ch.Role
	status      ch.Status
	commitReady bool
	replicas    []ch.NodeID
	isr         []ch.NodeID
	minISR      int
	leo, hw, cp uint64
	match       map[ch.NodeID]uint64
	pending     map[ch.OpID]*verifC06Waiter
	order       []ch.OpID
	inflight    *verifC06Inflight
}

func (m *verifC06Model) isReplica(n ch.NodeID) bool {
	for _, r := range m.replicas {
		if r == n {
			return true
		}
	}
	return false
}

// advanceHW: the committed watermark is the MinISR-th highest match among the
// in-sync replicas, and it never moves backward.
func (m *verifC06Model) advanceHW() {
	if m.minISR <= 0 || len(m.isr) < m.minISR {
		return
	}
	ms := make([]uint64, 0, len(m.isr))
	for _, r := range m.isr {
		ms = append(ms, m.match[r])
	}
	sort.Slice(ms, func(i, j int) bool { return ms[i] > ms[j] })
	if k := ms[m.minISR-1]; k > m.hw {
		m.hw = k
	}
}

func (m *verifC06Model) validateMeta(meta ch.Meta) error {
	if meta.Key != "" && meta.Key != m.key {
		return ch.ErrStaleMeta
	}
	if m.id != (ch.ChannelID{}) && meta.ID != m.id {
		return ch.ErrStaleMeta
	}
	if meta.Epoch < m.epoch || (meta.Epoch == m.epoch && meta.LeaderEpoch < m.leaderEpoch) {
		return ch.ErrStaleMeta
	}
	if meta.Epoch == m.epoch && meta.LeaderEpoch == m.leaderEpoch && meta.Leader != m.leader {
		return ch.ErrStaleMeta
	}
	if meta.MinISR <= 0 || meta.MinISR > len(meta.ISR) {
		return ch.ErrInvalidConfig
	}
	return nil
}

func (m *verifC06Model) dropAppendState() {
	m.inflight = nil
	m.pending = map[ch.OpID]*verifC06Waiter{}
	m.order = nil
}

func (m *verifC06Model) applyMeta(meta ch.Meta) {
	nextRole := ch.RoleFollower
	if meta.Leader == m.local {
		nextRole = ch.RoleLeader
	}
	if m.epoch != meta.Epoch || m.leaderEpoch != meta.LeaderEpoch || m.leader != meta.Leader || m.role != nextRole || m.status != meta.Status {
		m.dropAppendState()
	}
	m.id, m.epoch, m.leaderEpoch, m.leader = meta.ID, meta.Epoch, meta.LeaderEpoch, meta.Leader
	m.replicas = append([]ch.NodeID(nil), meta.Replicas...)
	m.isr = append([]ch.NodeID(nil), meta.ISR...)
	m.minISR = meta.MinISR
	m.status = meta.Status
	if meta.Status == ch.StatusDeleted {
		m.commitReady = false
		return
	}
	m.role = nextRole
	if nextRole == ch.RoleLeader {
		m.match[m.local] = m.leo
	}
	m.commitReady = meta.Status == ch.StatusActive || meta.Status == ch.StatusCreating
}

func (m *verifC06Model) proposeErr(cmd AppendBatchCommand) error {
	switch {
	case m.status == ch.StatusDeleted || m.status == ch.StatusDeleting:
		return ch.ErrChannelNotFound
	case m.role != ch.RoleLeader:
		return ch.ErrNotLeader
	case !m.commitReady, m.inflight != nil:
		return ch.ErrNotReady
	}
	seen := map[ch.OpID]bool{}
	for _, w := range cmd.Waiters {
		if len(w.Records) == 0 || seen[w.OpID] {
			return ch.ErrInvalidConfig
		}
		seen[w.OpID] = true
		if m.pending[w.OpID] != nil {
			return ch.ErrNotReady
		}
	}
	return nil
}

func (m *verifC06Model) removeFromOrder(ops map[ch.OpID]bool) {
	var kept []ch.OpID
	for _, op := range m.order {
		if !ops[op] {
			kept = append(kept, op)
		}
	}
	m.order = kept
}

func (w *verifC06Waiter) eligible(hw uint64) bool {
	return w.target != 0 && (w.mode == ch.CommitModeLocal || hw >= w.target)
}

// assignTargets gives every still-outstanding waiter of the in-flight batch
// its sequences, starting at base, skipping the segments of cancelled waiters.
func (m *verifC06Model) assignTargets(base uint64) {
	next := base
	for i, op := range m.inflight.ops {
		n := uint64(m.inflight.counts[i])
		if w := m.pending[op]; w != nil {
			w.target = next + n - 1
		}
		next += n
	}
}

// ---------------------------------------------------------------------------
// Harness
// ---------------------------------------------------------------------------

const (
	verifC06Key   = ch.ChannelKey("verif/c06")
	verifC06Local = ch.NodeID(1)
	verifC06Gen   = uint64(7)
)

var verifC06ID = ch.ChannelID{ID: "c06", Type: 2}

func verifC06CloneNodes(in []ch.NodeID) []ch.NodeID {
	if in == nil {
		return nil
	}
	return append([]ch.NodeID{}, in...)
}

func verifC06CloneRecords(in []ch.Record) []ch.Record {
	if in == nil {
		return nil
	}
	out := make([]ch.Record, len(in))
	copy(out, in)
	for i := range out {
		if out[i].Payload != nil {
			out[i].Payload = append([]byte{}, out[i].Payload...)
		}
	}
	return out
}

// verifC06Clone makes a deep copy for "this transition changed nothing" checks.
func verifC06Clone(s *ChannelState) *ChannelState {
	c := *s
	c.Replicas = verifC06CloneNodes(s.Replicas)
	c.ISR = verifC06CloneNodes(s.ISR)
	if s.Progress != nil {
		c.Progress = make(map[ch.NodeID]ReplicaProgress, len(s.Progress))
		for k, v := range s.Progress {
			c.Progress[k] = v
		}
	}
	if s.PendingAppends != nil {
		c.PendingAppends = make(map[ch.OpID]*AppendWaiter, len(s.PendingAppends))
		for k, v := range s.PendingAppends {
			w := *v
			w.Records = verifC06CloneRecords(v.Records)
			c.PendingAppends[k] = &w
		}
	}
	if s.PendingAppendOrder != nil {
		c.PendingAppendOrder = append([]ch.OpID{}, s.PendingAppendOrder...)
	}
	if s.InflightAppend != nil {
		in := *s.InflightAppend
		in.Records = verifC06CloneRecords(s.InflightAppend.Records)
		if in.WaiterOpIDs != nil {
			in.WaiterOpIDs = append([]ch.OpID{}, s.InflightAppend.WaiterOpIDs...)
		}
		if in.WaiterRecordCounts != nil {
			in.WaiterRecordCounts = append([]int{}, s.InflightAppend.WaiterRecordCounts...)
		}
		c.InflightAppend = &in
	}
	return &c
}

type verifC06Harness struct {
	rt  *rapid.T
	s   *ChannelState
	m   *verifC06Model
	log []string

	nextOp    uint64
	nextMsgID uint64
	answered  map[ch.OpID]bool
	cancelled map[ch.OpID]bool
	retryable []AppendBatchWaiter // waiters of aborted proposals: the reactor re-proposes them under a new batch id
	fences    []ch.Fence          // every store fence ever handed out
	lastFence [2]uint64
	lastHW    uint64

	sawQuorumByAck, sawStale, sawRejectedMeta, sawLeaderSwitchRejected, sawOlderEpochRejected   bool
	sawCancelInflight, sawBatch, sawLocalMode, sawStoredErr, sawQuorumReceipt, sawBadReceipt    bool
	sawAbort, sawFenceChangeDropsWaiters, sawAckNonMember, sawHWAdvanceByAck, sawAlreadyDurable bool
	sawDupRejected                                                                              bool
}

func (h *verifC06Harness) note(f string, a ...any) { h.log = append(h.log, fmt.Sprintf(f, a...)) }

func (h *verifC06Harness) fail(f string, a ...any) {
	h.rt.Helper()
	h.rt.Fatalf("%s\nstate: epoch=%d leaderEpoch=%d leader=%d role=%d status=%d ready=%v ISR=%v minISR=%d LEO=%d HW=%d CP=%d progress=%v pending=%v order=%v\nhistory:\n  %s",
		fmt.Sprintf(f, a...), h.s.Epoch, h.s.LeaderEpoch, h.s.Leader, h.s.Role, h.s.Status, h.s.CommitReady, h.s.ISR, h.s.MinISR, h.s.LEO, h.s.HW, h.s.CheckpointHW,
		h.s.Progress, h.pendingOps(), h.s.PendingAppendOrder, strings.Join(h.log, "\n  "))
}

func (h *verifC06Harness) pendingOps() []ch.OpID {
	ops := make([]ch.OpID, 0, len(h.s.PendingAppends))
	for op := range h.s.PendingAppends {
		ops = append(ops, op)
	}
	sort.Slice(ops, func(i, j int) bool { return ops[i] < ops[j] })
	return ops
}

func (h *verifC06Harness) unchanged(what string, before *ChannelState) {
	h.rt.Helper()
	if !reflect.DeepEqual(before, h.s) {
		h.fail("%s must not change the state, but it did:\nbefore: %+v\nafter:  %+v", what, *before, *h.s)
	}
}

func (h *verifC06Harness) emptyDecision(what string, d Decision) {
	h.rt.Helper()
	if d.Err != nil || len(d.Tasks) != 0 || len(d.Replies) != 0 || len(d.Signals) != 0 {
		h.fail("%s must be ignored, but produced %+v", what, d)
	}
}

// checkReplies judges the replies of one transition.
//
//	required: waiters that must be answered now (in this order)
//	eligible: waiters that may be answered now
//	wantErr:  nil for successful completions, else the error every reply carries
func (h *verifC06Harness) checkReplies(what string, d Decision, required []ch.OpID, eligible map[ch.OpID]bool, wantErr error, byAck bool) {
	h.rt.Helper()
	got := map[ch.OpID]bool{}
	var gotOrder []ch.OpID
	for _, r := range d.Replies {
		if r.Kind != ReplyKindAppend {
			h.fail("%s: reply %+v has unexpected kind", what, r)
		}
		if h.answered[r.OpID] {
			h.fail("%s: append %d is answered a second time", what, r.OpID)
		}
		if h.cancelled[r.OpID] {
			h.fail("%s: append %d is answered after its waiter was cancelled", what, r.OpID)
		}
		w := h.m.pending[r.OpID]
		if w == nil || got[r.OpID] {
			h.fail("%s: reply for append %d which is not outstanding (or repeated in one decision)", what, r.OpID)
		}
		if !eligible[r.OpID] {
			h.fail("%s: append %d (mode %d, last sequence %d) answered although HW=%d does not allow it", what, r.OpID, w.mode, w.target, h.s.HW)
		}
		got[r.OpID] = true
		gotOrder = append(gotOrder, r.OpID)
		if wantErr != nil {
			if !errors.Is(r.Err, wantErr) {
				h.fail("%s: reply for %d carries %v, want %v", what, r.OpID, r.Err, wantErr)
			}
			continue
		}
		if r.Err != nil {
			h.fail("%s: reply for %d carries error %v", what, r.OpID, r.Err)
		}
		if w.mode == ch.CommitModeQuorum && h.s.HW < w.target {
			h.fail("%s: quorum append %d answered successfully with HW=%d below its last sequence %d", what, r.OpID, h.s.HW, w.target)
		}
		if len(r.AppendItems) != len(w.ids) {
			h.fail("%s: reply for %d has %d items, the request had %d records", what, r.OpID, len(r.AppendItems), len(w.ids))
		}
		first := w.target - uint64(len(w.ids)) + 1
		for i, it := range r.AppendItems {
			if it.MessageSeq != first+uint64(i) || it.MessageID != w.ids[i] || it.Message.MessageSeq != it.MessageSeq || it.Message.MessageID != it.MessageID {
				h.fail("%s: reply for %d item %d = seq %d id %d, want seq %d id %d (contiguous, in record order)", what, r.OpID, i, it.MessageSeq, it.MessageID, first+uint64(i), w.ids[i])
			}
			if it.Message.ChannelID != h.m.id.ID || it.Message.ChannelType != h.m.id.Type {
				h.fail("%s: reply for %d names channel %s/%d", what, r.OpID, it.Message.ChannelID, it.Message.ChannelType)
			}
		}
		if len(r.AppendItems) > 0 && !reflect.DeepEqual(r.Append, r.AppendItems[0]) {
			h.fail("%s: reply for %d: Append differs from the first item", what, r.OpID)
		}
		if byAck && w.mode == ch.CommitModeQuorum {
			h.sawQuorumByAck = true
		}
	}
	// every required waiter answered, in the required relative order
	pos := map[ch.OpID]int{}
	for i, op := range gotOrder {
		pos[op] = i
	}
	last := -1
	for _, op := range required {
		p, ok := pos[op]
		if !ok {
			h.fail("%s: append %d is complete (HW=%d) but got no reply; replies %v", what, op, h.s.HW, gotOrder)
		}
		if p < last {
			h.fail("%s: replies %v are not in proposal order %v", what, gotOrder, required)
		}
		last = p
	}
	for op := range got {
		h.answered[op] = true
		delete(h.m.pending, op)
	}
	h.m.removeFromOrder(got)
}

func (h *verifC06Harness) records(t *rapid.T, n int) []ch.Record {
	recs := make([]ch.Record, n)
	for i := range recs {
		h.nextMsgID++
		recs[i] = ch.Record{ID: h.nextMsgID, FromUID: "u", Payload: []byte{byte(h.nextMsgID)}, SizeBytes: 1}
	}
	return recs
}

func (h *verifC06Harness) waiter(t *rapid.T) AppendBatchWaiter {
	h.nextOp++
	w := AppendBatchWaiter{OpID: ch.OpID(h.nextOp), CommitMode: rapid.SampledFrom([]ch.CommitMode{0, ch.CommitModeQuorum, ch.CommitModeQuorum, ch.CommitModeLocal}).Draw(t, "mode"),
		OmitResultPayload: rapid.Bool().Draw(t, "omit"), ServerAllocatedMessageIDs: rapid.Bool().Draw(t, "srvIDs")}
	w.Records = h.records(t, rapid.IntRange(1, 3).Draw(t, "nrec"))
	return w
}

func (h *verifC06Harness) meta(t *rapid.T) ch.Meta {
	m := h.m
	meta := ch.Meta{Key: verifC06Key, ID: verifC06ID, Epoch: m.epoch, LeaderEpoch: m.leaderEpoch, Leader: m.leader, Status: ch.StatusActive}
	if m.epoch == 0 {
		meta.Epoch, meta.LeaderEpoch = 1, 1
		meta.Leader = verifC06Local
	}
	pickLeader := func() ch.NodeID {
		return ch.NodeID(rapid.SampledFrom([]int{1, 1, 1, 1, 1, 2, 3}).Draw(t, "leader"))
	}
	switch rapid.IntRange(0, 11).Draw(t, "metaKind") {
	case 0, 1, 2: // same fence, same leader: refresh (ISR / MinISR / status may change)
	case 3, 4: // leader change under the next leader epoch
		meta.LeaderEpoch++
		meta.Leader = pickLeader()
	case 5: // membership change: next epoch
		meta.Epoch++
		meta.LeaderEpoch = uint64(rapid.IntRange(1, int(m.leaderEpoch)+1).Draw(t, "le"))
		meta.Leader = pickLeader()
	case 6: // older epoch
		if meta.Epoch > 0 {
			meta.Epoch--
		}
		meta.LeaderEpoch += uint64(rapid.IntRange(0, 2).Draw(t, "dle"))
		meta.Leader = pickLeader()
	case 7: // older leader epoch in the same epoch
		if meta.LeaderEpoch > 0 {
			meta.LeaderEpoch--
		}
		meta.Leader = pickLeader()
	case 8: // same fence, different leader
		meta.Leader = ch.NodeID(rapid.SampledFrom([]int{1, 2, 3}).Draw(t, "switchTo"))
	case 9: // identity mismatch
		if rapid.Bool().Draw(t, "wrongKey") {
			meta.Key = "verif/other"
		} else {
			meta.ID = ch.ChannelID{ID: "other", Type: 2}
		}
	case 10: // key omitted (service derives it)
		meta.Key = ""
		meta.LeaderEpoch += uint64(rapid.IntRange(0, 1).Draw(t, "dle"))
	case 11:
		meta.LeaderEpoch++
	}
	// replica sets: mostly unchanged, sometimes a new membership / ISR / quorum size
	reuse := len(m.isr) > 0 && rapid.IntRange(0, 2).Draw(t, "sameSets") > 0
	if reuse {
		meta.Replicas = append([]ch.NodeID(nil), m.replicas...)
		meta.ISR = append([]ch.NodeID(nil), m.isr...)
		meta.MinISR = m.minISR
	} else {
		var replicas []ch.NodeID
		for _, n := range []ch.NodeID{1, 2, 3, 4} {
			if n == meta.Leader || rapid.IntRange(0, 3).Draw(t, "member") > 0 {
				replicas = append(replicas, n)
			}
		}
		meta.Replicas = replicas
		var isr []ch.NodeID
		for _, n := range replicas {
			if n == meta.Leader || rapid.IntRange(0, 2).Draw(t, "insync") > 0 {
				isr = append(isr, n)
			}
		}
		meta.ISR = isr
		meta.MinISR = rapid.IntRange(1, len(isr)).Draw(t, "minISR")
		if len(isr) >= 2 && rapid.Bool().Draw(t, "majority") {
			meta.MinISR = len(isr)/2 + 1
		}
	}
	switch rapid.IntRange(0, 14).Draw(t, "minISRKind") {
	case 0:
		meta.MinISR = 0
	case 1:
		meta.MinISR = len(meta.ISR) + 1
	}
	meta.Status = rapid.SampledFrom([]ch.Status{ch.StatusActive, ch.StatusActive, ch.StatusActive, ch.StatusActive, ch.StatusActive, ch.StatusActive, ch.StatusActive,
		ch.StatusActive, ch.StatusActive, ch.StatusActive, ch.StatusActive, ch.StatusActive, ch.StatusCreating, ch.StatusCreating, ch.StatusDeleting, ch.StatusDeleted}).Draw(t, "status")
	return meta
}

// fence draws the fence of a worker result: the current in-flight one, or one
// that no longer (or never) matches.
func (h *verifC06Harness) fence(t *rapid.T) (ch.Fence, bool) {
	cur := ch.Fence{ChannelKey: verifC06Key, Generation: verifC06Gen, Epoch: h.m.epoch, LeaderEpoch: h.m.leaderEpoch}
	if h.m.inflight != nil {
		cur.OpID = h.m.inflight.batch
	}
	mode := rapid.IntRange(0, 9).Draw(t, "fenceKind")
	if mode <= 5 && h.m.inflight != nil {
		return cur, true
	}
	f := cur
	switch {
	case mode == 6 && len(h.fences) > 0:
		f = h.fences[rapid.IntRange(0, len(h.fences)-1).Draw(t, "oldFence")]
	case mode == 7:
		f.Generation += uint64(rapid.IntRange(1, 2).Draw(t, "dGen"))
	case mode == 8:
		if rapid.Bool().Draw(t, "epochOrLE") && f.Epoch > 0 {
			f.Epoch--
		} else if f.LeaderEpoch > 0 {
			f.LeaderEpoch--
		} else {
			f.LeaderEpoch++
		}
	default:
		f.OpID = ch.OpID(rapid.IntRange(0, int(h.nextOp)+1).Draw(t, "otherOp"))
		if rapid.IntRange(0, 5).Draw(t, "wrongKey") == 0 {
			f.ChannelKey = "verif/other"
		}
	}
	matches := h.m.inflight != nil && f == cur
	return f, matches
}

func (h *verifC06Harness) batchRequired() (required []ch.OpID, eligible map[ch.OpID]bool) {
	eligible = map[ch.OpID]bool{}
	for _, op := range h.m.inflight.ops {
		if w := h.m.pending[op]; w != nil && w.eligible(h.m.hw) {
			required = append(required, op)
		}
	}
	for op, w := range h.m.pending {
		if w.eligible(h.m.hw) {
			eligible[op] = true
		}
	}
	return required, eligible
}

func (h *verifC06Harness) failBatch(what string, d Decision, err error) {
	h.rt.Helper()
	var required []ch.OpID
	eligible := map[ch.OpID]bool{}
	for _, op := range h.m.inflight.ops {
		if h.m.pending[op] != nil {
			required = append(required, op)
			eligible[op] = true
		}
	}
	h.m.inflight = nil
	if len(d.Replies) != len(required) {
		h.fail("%s: %d error replies, %d waiters of the failed batch are outstanding", what, len(d.Replies), len(required))
	}
	h.checkReplies(what, d, required, eligible, err, false)
}

func (h *verifC06Harness) actions() map[string]func(*rapid.T) {
	acts := map[string]func(*rapid.T){
		"applyMeta": func(t *rapid.T) {
			meta := h.meta(t)
			before := verifC06Clone(h.s)
			hadWaiters := len(h.m.pending) > 0
			oldFence := [2]uint64{h.m.epoch, h.m.leaderEpoch}
			d := h.s.ApplyMeta(meta)
			h.note("ApplyMeta(key=%q id=%s epoch=%d le=%d leader=%d replicas=%v isr=%v minISR=%d status=%d) = %v", meta.Key, meta.ID.ID, meta.Epoch, meta.LeaderEpoch, meta.Leader, meta.Replicas, meta.ISR, meta.MinISR, meta.Status, d.Err)
			werr := h.m.validateMeta(meta)
			olderEpoch := meta.Epoch < h.m.epoch || (meta.Epoch == h.m.epoch && meta.LeaderEpoch < h.m.leaderEpoch)
			leaderSwitch := meta.Epoch == h.m.epoch && meta.LeaderEpoch == h.m.leaderEpoch && meta.Leader != h.m.leader
			if (olderEpoch || leaderSwitch) && d.Err == nil {
				h.fail("metadata with an older fence / same-fence leader switch was accepted")
			}
			if werr != nil {
				if !errors.Is(d.Err, werr) {
					h.fail("ApplyMeta returned %v, model says %v", d.Err, werr)
				}
				h.unchanged("rejected metadata", before)
				if len(d.Replies) != 0 || len(d.Tasks) != 0 {
					h.fail("rejected metadata produced work %+v", d)
				}
				h.sawRejectedMeta = true
				h.sawOlderEpochRejected = h.sawOlderEpochRejected || olderEpoch
				h.sawLeaderSwitchRejected = h.sawLeaderSwitchRejected || leaderSwitch
				return
			}
			if d.Err != nil {
				h.fail("ApplyMeta returned %v, model accepts it", d.Err)
			}
			if len(d.Replies) != 0 {
				h.fail("ApplyMeta produced replies %+v", d.Replies)
			}
			h.m.applyMeta(meta)
			if hadWaiters && len(h.m.pending) == 0 {
				h.sawFenceChangeDropsWaiters = true
				// dropped waiters are failed by the reactor, never by the machine: they may
				// be retried by the client under new operation ids only
			}
			if oldFence != [2]uint64{h.m.epoch, h.m.leaderEpoch} {
				h.retryable = nil
			}
		},
		"propose": func(t *rapid.T) {
			var cmd AppendBatchCommand
			single := rapid.IntRange(0, 2).Draw(t, "single") == 0
			n := 1
			if !single {
				n = rapid.IntRange(0, 4).Draw(t, "waiters")
			}
			for i := 0; i < n; i++ {
				switch k := rapid.IntRange(0, 19).Draw(t, "waiterKind"); {
				case k == 0 && len(h.m.order) > 0: // operation id that is still outstanding
					w := h.waiter(t)
					w.OpID = h.m.order[rapid.IntRange(0, len(h.m.order)-1).Draw(t, "pendingOp")]
					cmd.Waiters = append(cmd.Waiters, w)
				case k == 1 && len(cmd.Waiters) > 0: // duplicate inside the batch
					w := h.waiter(t)
					w.OpID = cmd.Waiters[0].OpID
					cmd.Waiters = append(cmd.Waiters, w)
				case k == 2: // no records
					w := h.waiter(t)
					w.Records = nil
					cmd.Waiters = append(cmd.Waiters, w)
				case k <= 6 && len(h.retryable) > 0: // re-proposal of an aborted request
					cmd.Waiters = append(cmd.Waiters, h.retryable[0])
					h.retryable = h.retryable[1:]
				default:
					cmd.Waiters = append(cmd.Waiters, h.waiter(t))
				}
			}
			h.nextOp++
			cmd.BatchOpID = ch.OpID(h.nextOp)
			before := verifC06Clone(h.s)
			var d Decision
			if single {
				cmd.BatchOpID = cmd.Waiters[0].OpID
				d = h.s.ProposeAppend(AppendCommand{OpID: cmd.Waiters[0].OpID, CommitMode: cmd.Waiters[0].CommitMode, Records: cmd.Waiters[0].Records})
				cmd.Waiters[0].OmitResultPayload, cmd.Waiters[0].ServerAllocatedMessageIDs = false, false
			} else {
				d = h.s.ProposeAppendBatch(cmd)
			}
			ops := make([]string, len(cmd.Waiters))
			for i, w := range cmd.Waiters {
				ops[i] = fmt.Sprintf("%d(mode%d,%drec)", w.OpID, w.CommitMode, len(w.Records))
			}
			h.note("Propose(batch=%d waiters=%v single=%v) = err %v, %d tasks", cmd.BatchOpID, ops, single, d.Err, len(d.Tasks))
			werr := h.m.proposeErr(cmd)
			if werr != nil {
				if !errors.Is(d.Err, werr) {
					h.fail("Propose returned %v, model says %v", d.Err, werr)
				}
				h.unchanged("rejected proposal", before)
				if len(d.Tasks) != 0 || len(d.Replies) != 0 {
					h.fail("rejected proposal produced work %+v", d)
				}
				h.sawDupRejected = h.sawDupRejected || errors.Is(werr, ch.ErrInvalidConfig) || (errors.Is(werr, ch.ErrNotReady) && h.m.inflight == nil && h.m.commitReady)
				return
			}
			if d.Err != nil {
				h.fail("Propose returned %v, model accepts it", d.Err)
			}
			if len(cmd.Waiters) == 0 {
				if len(d.Tasks) != 0 {
					h.fail("empty proposal produced a task")
				}
				h.unchanged("empty proposal", before)
				return
			}
			if len(d.Replies) != 0 {
				h.fail("Propose produced replies %+v", d.Replies)
			}
			wantFence := ch.Fence{ChannelKey: verifC06Key, Generation: verifC06Gen, Epoch: h.m.epoch, LeaderEpoch: h.m.leaderEpoch, OpID: cmd.BatchOpID}
			if len(d.Tasks) != 1 || d.Tasks[0].Kind != TaskKindStoreAppend || d.Tasks[0].StoreAppend == nil || d.Tasks[0].Fence != wantFence {
				h.fail("Propose tasks %+v, want one store append fenced %+v", d.Tasks, wantFence)
			}
			var flat []uint64
			in := &verifC06Inflight{batch: cmd.BatchOpID}
			for _, w := range cmd.Waiters {
				mode := w.CommitMode
				if mode == 0 {
					mode = ch.CommitModeQuorum
				}
				mw := &verifC06Waiter{op: w.OpID, mode: mode}
				for _, r := range w.Records {
					mw.ids = append(mw.ids, r.ID)
					flat = append(flat, r.ID)
				}
				h.m.pending[w.OpID] = mw
				h.m.order = append(h.m.order, w.OpID)
				in.ops = append(in.ops, w.OpID)
				in.counts = append(in.counts, len(w.Records))
				h.sawLocalMode = h.sawLocalMode || mode == ch.CommitModeLocal
			}
			h.m.inflight = in
			got := d.Tasks[0].StoreAppend.Records
			if len(got) != len(flat) {
				h.fail("store append task has %d records, proposal had %d", len(got), len(flat))
			}
			for i := range got {
				if got[i].ID != flat[i] {
					h.fail("store append task record %d has id %d, want %d (waiter order)", i, got[i].ID, flat[i])
				}
			}
			h.fences = append(h.fences, d.Tasks[0].Fence)
			h.sawBatch = h.sawBatch || len(cmd.Waiters) > 1
		},
		"stored": func(t *rapid.T) {
			f, matches := h.fence(t)
			res := AppendStoredResult{Fence: f}
			n := uint64(1)
			if h.m.inflight != nil {
				n = 0
				for _, c := range h.m.inflight.counts {
					n += uint64(c)
				}
			}
			kind := rapid.IntRange(0, 9).Draw(t, "storedKind")
			switch {
			case kind == 0:
				res.Err = errors.New("verif: disk error")
				res.Outcome = ch.AppendOutcomeUnknown
			case kind == 1 && h.m.leo >= n:
				// idempotent replay: the records were already durable at an earlier position
				res.BaseOffset = uint64(rapid.IntRange(1, int(h.m.leo-n+1)).Draw(t, "dupBase"))
				res.LastOffset = res.BaseOffset + n - 1
				res.Outcome = ch.AppendOutcomeAlreadyDurable
			default:
				res.BaseOffset = h.m.leo + 1
				res.LastOffset = h.m.leo + n
				res.Outcome = ch.AppendOutcomeDurable
			}
			before := verifC06Clone(h.s)
			d := h.s.ApplyAppendStored(res)
			h.note("ApplyAppendStored(fence=%+v base=%d last=%d err=%v) matches=%v -> %d replies", f, res.BaseOffset, res.LastOffset, res.Err, matches, len(d.Replies))
			if !matches {
				h.emptyDecision("store result with a stale fence", d)
				h.unchanged("store result with a stale fence", before)
				h.sawStale = true
				return
			}
			if res.Err != nil {
				h.failBatch("failed store append", d, res.Err)
				h.sawStoredErr = true
				return
			}
			h.sawAlreadyDurable = h.sawAlreadyDurable || res.Outcome == ch.AppendOutcomeAlreadyDurable
			for _, op := range h.m.inflight.ops {
				if h.m.pending[op] == nil {
					h.sawCancelInflight = true
				}
			}
			h.m.assignTargets(res.BaseOffset)
			if res.LastOffset > h.m.leo {
				h.m.leo = res.LastOffset
			}
			if h.m.role == ch.RoleLeader {
				h.m.match[h.m.local] = h.m.leo
				h.m.advanceHW()
			}
			if h.s.HW != h.m.hw || h.s.LEO != h.m.leo {
				h.fail("after durable append LEO=%d HW=%d, reference says LEO=%d HW=%d (MinISR-th highest ISR match)", h.s.LEO, h.s.HW, h.m.leo, h.m.hw)
			}
			required, eligible := h.batchRequired()
			h.m.inflight = nil
			h.checkReplies("durable append", d, required, eligible, nil, false)
			hasSignal := false
			for _, sg := range d.Signals {
				hasSignal = hasSignal || sg.Kind == SignalKindReplicate
			}
			if !hasSignal {
				h.fail("durable append did not request replication")
			}
		},
		"quorumCommitted": func(t *rapid.T) {
			f, matches := h.fence(t)
			res := QuorumCommittedResult{Fence: f}
			n := uint64(1)
			if h.m.inflight != nil {
				n = 0
				for _, c := range h.m.inflight.counts {
					n += uint64(c)
				}
			}
			res.First = h.m.leo + 1
			if h.m.leo >= n && rapid.IntRange(0, 7).Draw(t, "replayed") == 0 {
				res.First = uint64(rapid.IntRange(1, int(h.m.leo-n+1)).Draw(t, "dupFirst"))
			}
			res.Last = res.First + n - 1
			res.HW = res.Last
			malformed := false
			switch rapid.IntRange(0, 11).Draw(t, "receiptKind") {
			case 0:
				res.Err = errors.New("verif: quorum lost")
			case 1:
				res.Last++
				res.HW = res.Last
				malformed = true
			case 2:
				if res.HW > 0 {
					res.HW--
					malformed = true
				}
			case 3:
				res.First = 0
				malformed = true
			case 4:
				res.HW++
				malformed = true
			case 5:
				if n > 1 {
					res.Last--
					res.HW = res.Last
					malformed = true
				}
			}
			before := verifC06Clone(h.s)
			d := h.s.ApplyQuorumCommitted(res)
			h.note("ApplyQuorumCommitted(fence=%+v first=%d last=%d hw=%d err=%v) matches=%v -> %d replies", f, res.First, res.Last, res.HW, res.Err, matches, len(d.Replies))
			if !matches {
				h.emptyDecision("quorum receipt with a stale fence", d)
				h.unchanged("quorum receipt with a stale fence", before)
				h.sawStale = true
				return
			}
			if res.Err != nil {
				h.failBatch("failed quorum commit", d, res.Err)
				return
			}
			if malformed {
				if h.s.LEO != before.LEO || h.s.HW != before.HW {
					h.fail("malformed quorum receipt moved watermarks LEO %d->%d HW %d->%d", before.LEO, h.s.LEO, before.HW, h.s.HW)
				}
				h.failBatch("malformed quorum receipt", d, ch.ErrLogConflict)
				h.sawBadReceipt = true
				return
			}
			h.m.assignTargets(res.First)
			if res.Last > h.m.leo {
				h.m.leo = res.Last
			}
			if res.HW > h.m.hw {
				h.m.hw = res.HW
			}
			if res.Last > h.m.match[h.m.local] {
				h.m.match[h.m.local] = res.Last
			}
			if h.s.HW != h.m.hw || h.s.LEO != h.m.leo {
				h.fail("after quorum receipt LEO=%d HW=%d, reference says LEO=%d HW=%d", h.s.LEO, h.s.HW, h.m.leo, h.m.hw)
			}
			required, eligible := h.batchRequired()
			h.m.inflight = nil
			h.checkReplies("quorum receipt", d, required, eligible, nil, false)
			h.sawQuorumReceipt = true
		},
		"followerAck": func(t *rapid.T) {
			follower := ch.NodeID(rapid.IntRange(1, 5).Draw(t, "follower"))
			if len(h.m.isr) > 1 && rapid.IntRange(0, 2).Draw(t, "isrFollower") > 0 {
				follower = h.m.isr[rapid.IntRange(1, len(h.m.isr)-1).Draw(t, "isrIdx")]
			}
			// the reactor refuses acknowledgements beyond the log end before the machine sees them
			off := uint64(rapid.IntRange(0, int(h.m.leo)).Draw(t, "match"))
			if h.m.leo > 0 && rapid.Bool().Draw(t, "caughtUp") {
				off = h.m.leo
			}
			before := verifC06Clone(h.s)
			d := h.s.ApplyFollowerAck(FollowerAck{Follower: follower, MatchOffset: off})
			h.note("ApplyFollowerAck(node %d, match %d) -> %d replies, HW=%d", follower, off, len(d.Replies), h.s.HW)
			if h.m.role != ch.RoleLeader || !h.m.isReplica(follower) {
				h.emptyDecision("ack from a non-member / on a non-leader", d)
				h.unchanged("ack from a non-member / on a non-leader", before)
				h.sawAckNonMember = true
				return
			}
			if off > h.m.match[follower] {
				h.m.match[follower] = off
			}
			oldHW := h.m.hw
			h.m.advanceHW()
			if h.s.HW != h.m.hw {
				h.fail("after follower ack HW=%d, reference (MinISR=%d-th highest match of ISR %v over %v) says %d", h.s.HW, h.m.minISR, h.m.isr, h.m.match, h.m.hw)
			}
			h.sawHWAdvanceByAck = h.sawHWAdvanceByAck || h.m.hw > oldHW
			var required []ch.OpID
			eligible := map[ch.OpID]bool{}
			for _, op := range h.m.order {
				if w := h.m.pending[op]; w != nil && w.eligible(h.m.hw) {
					required = append(required, op)
					eligible[op] = true
				}
			}
			h.checkReplies("follower ack", d, required, eligible, nil, true)
		},
		"cancel": func(t *rapid.T) {
			var op ch.OpID
			if len(h.m.order) > 0 && rapid.IntRange(0, 3).Draw(t, "pending") > 0 {
				op = h.m.order[rapid.IntRange(0, len(h.m.order)-1).Draw(t, "which")]
			} else {
				op = ch.OpID(rapid.IntRange(0, int(h.nextOp)+1).Draw(t, "anyOp"))
			}
			before := verifC06Clone(h.s)
			got := h.s.CancelAppendWaiter(op)
			h.note("CancelAppendWaiter(%d) = %v", op, got)
			want := h.m.pending[op] != nil
			if got != want {
				h.fail("CancelAppendWaiter(%d)=%v, model says outstanding=%v", op, got, want)
			}
			if !want {
				h.unchanged("cancel of an unknown waiter", before)
				return
			}
			delete(h.m.pending, op)
			h.m.removeFromOrder(map[ch.OpID]bool{op: true})
			h.cancelled[op] = true
		},
		"abort": func(t *rapid.T) {
			if rapid.IntRange(0, 2).Draw(t, "really") != 0 {
				t.Skip("abort kept rare")
			}
			var op ch.OpID
			if h.m.inflight != nil && rapid.IntRange(0, 2).Draw(t, "current") > 0 {
				op = h.m.inflight.batch
			} else {
				op = ch.OpID(rapid.IntRange(0, int(h.nextOp)+1).Draw(t, "anyOp"))
			}
			before := verifC06Clone(h.s)
			h.s.AbortAppendBatchProposal(op)
			h.note("AbortAppendBatchProposal(%d)", op)
			if h.m.inflight == nil || h.m.inflight.batch != op {
				h.unchanged("abort of a batch that is not in flight", before)
				return
			}
			gone := map[ch.OpID]bool{}
			for _, o := range h.m.inflight.ops {
				if h.m.pending[o] != nil {
					// the reactor puts the requests back and proposes them again later
					w := before.PendingAppends[o]
					h.retryable = append(h.retryable, AppendBatchWaiter{OpID: o, CommitMode: w.CommitMode, OmitResultPayload: w.OmitResultPayload, Records: verifC06CloneRecords(w.Records)})
				}
				gone[o] = true
				delete(h.m.pending, o)
			}
			h.m.removeFromOrder(gone)
			h.m.inflight = nil
			h.sawAbort = true
		},
		"": func(t *rapid.T) { h.invariant() },
	}
	acts["propose2"] = acts["propose"]
	acts["stored2"] = acts["stored"]
	acts["followerAck2"] = acts["followerAck"]
	acts["followerAck3"] = acts["followerAck"]
	acts["stored3"] = acts["stored"]
	acts["propose3"] = acts["propose"]
	return acts
}

func (h *verifC06Harness) invariant() {
	h.rt.Helper()
	s, m := h.s, h.m
	if s.CheckpointHW > s.HW || s.HW > s.LEO {
		h.fail("watermark order broken: CheckpointHW=%d HW=%d LEO=%d", s.CheckpointHW, s.HW, s.LEO)
	}
	if err := s.CheckInvariants(); err != nil {
		h.fail("CheckInvariants: %v", err)
	}
	fence := [2]uint64{s.Epoch, s.LeaderEpoch}
	if fence == h.lastFence && s.HW < h.lastHW {
		h.fail("HW moved backward %d -> %d within metadata fence (epoch %d, leader epoch %d)", h.lastHW, s.HW, s.Epoch, s.LeaderEpoch)
	}
	h.lastFence, h.lastHW = fence, s.HW
	if s.Epoch != m.epoch || s.LeaderEpoch != m.leaderEpoch || s.Leader != m.leader || s.Role != m.role || s.Status != m.status || s.CommitReady != m.commitReady {
		h.fail("metadata view differs: model epoch=%d le=%d leader=%d role=%d status=%d ready=%v", m.epoch, m.leaderEpoch, m.leader, m.role, m.status, m.commitReady)
	}
	if s.LEO != m.leo || s.HW != m.hw || s.CheckpointHW != m.cp {
		h.fail("watermarks differ: model LEO=%d HW=%d CP=%d", m.leo, m.hw, m.cp)
	}
	if fmt.Sprint(s.ISR) != fmt.Sprint(m.isr) || fmt.Sprint(s.Replicas) != fmt.Sprint(m.replicas) || s.MinISR != m.minISR {
		h.fail("replica sets differ: model replicas=%v isr=%v minISR=%d", m.replicas, m.isr, m.minISR)
	}
	if len(s.PendingAppends) != len(m.pending) {
		h.fail("outstanding waiters %v, model %v", h.pendingOps(), m.order)
	}
	for op, w := range m.pending {
		rw := s.PendingAppends[op]
		if rw == nil {
			h.fail("waiter %d is outstanding in the model but gone", op)
		}
		if rw.Target != w.target || rw.CommitMode != w.mode {
			h.fail("waiter %d target=%d mode=%d, model target=%d mode=%d", op, rw.Target, rw.CommitMode, w.target, w.mode)
		}
	}
	if fmt.Sprint(s.PendingAppendOrder) != fmt.Sprint(m.order) && !(len(s.PendingAppendOrder) == 0 && len(m.order) == 0) {
		h.fail("proposal order %v, model %v", s.PendingAppendOrder, m.order)
	}
	if (s.InflightAppend != nil) != (m.inflight != nil) {
		h.fail("in-flight batch present=%v, model %v", s.InflightAppend != nil, m.inflight != nil)
	}
	if m.inflight != nil && (s.InflightAppend.OpID != m.inflight.batch || fmt.Sprint(s.InflightAppend.WaiterOpIDs) != fmt.Sprint(m.inflight.ops)) {
		h.fail("in-flight batch %d %v, model %d %v", s.InflightAppend.OpID, s.InflightAppend.WaiterOpIDs, m.inflight.batch, m.inflight.ops)
	}
}

func TestVerifC06Machine(t *testing.T) {
	kit.Check(t, "C06", func(rt *rapid.T, k *kit.Case) {
		leo := uint64(rapid.IntRange(0, 6).Draw(rt, "leo0"))
		hw := uint64(rapid.IntRange(0, int(leo)).Draw(rt, "hw0"))
		cp := uint64(rapid.IntRange(0, int(hw)).Draw(rt, "cp0"))
		s := NewChannelState(verifC06Key, verifC06Local, verifC06Gen)
		// the reactor seeds the watermarks from the store's durable view when it loads a channel
		s.LEO, s.HW, s.CheckpointHW = leo, hw, cp
		h := &verifC06Harness{rt: rt, s: s,
			m: &verifC06Model{key: verifC06Key, local: verifC06Local, gen: verifC06Gen, leo: leo, hw: hw, cp: cp,
				match: map[ch.NodeID]uint64{}, pending: map[ch.OpID]*verifC06Waiter{}},
			answered: map[ch.OpID]bool{}, cancelled: map[ch.OpID]bool{}, nextMsgID: 1000, lastHW: hw}
		// most histories start as the leader of a healthy replica set
		if rapid.IntRange(0, 5).Draw(rt, "bootstrap") > 0 {
			isr := []ch.NodeID{1, 2, 3}[:rapid.SampledFrom([]int{1, 2, 2, 3, 3, 3}).Draw(rt, "isr0")]
			meta := ch.Meta{Key: verifC06Key, ID: verifC06ID, Epoch: 1, LeaderEpoch: 1, Leader: verifC06Local, Replicas: []ch.NodeID{1, 2, 3}, ISR: isr,
				MinISR: rapid.IntRange(1, len(isr)).Draw(rt, "minISR0"), Status: ch.StatusActive}
			if len(isr) >= 2 && rapid.Bool().Draw(rt, "majority0") {
				meta.MinISR = len(isr)/2 + 1
			}
			if d := s.ApplyMeta(meta); d.Err != nil {
				rt.Fatalf("bootstrap ApplyMeta: %v", d.Err)
			}
			h.m.applyMeta(meta)
			h.note("bootstrap ApplyMeta(epoch=1 le=1 leader=1 isr=%v minISR=%d) LEO=%d HW=%d CP=%d", isr, meta.MinISR, leo, hw, cp)
		}
		rt.Repeat(h.actions())

		k.Key(leo, hw, cp, strings.Join(h.log, "|"))
		k.SetNonTrivial(h.sawQuorumByAck && h.sawStale)
		k.LabelIf(h.sawQuorumByAck, "quorum waiter completed by a later follower ack")
		k.LabelIf(h.sawStale, "result with stale fence ignored")
		k.LabelIf(h.sawHWAdvanceByAck, "HW advanced by follower ack")
		k.LabelIf(h.sawRejectedMeta, "metadata rejected")
		k.LabelIf(h.sawOlderEpochRejected, "older epoch / leader epoch rejected")
		k.LabelIf(h.sawLeaderSwitchRejected, "same-fence leader switch rejected")
		k.LabelIf(h.sawFenceChangeDropsWaiters, "accepted fence change dropped outstanding waiters")
		k.LabelIf(h.sawBatch, "batched proposal (>=2 waiters)")
		k.LabelIf(h.sawLocalMode, "local-mode waiter")
		k.LabelIf(h.sawDupRejected, "proposal rejected (duplicate / pending op id / empty records)")
		k.LabelIf(h.sawCancelInflight, "waiter cancelled while its batch was in flight")
		k.LabelIf(h.sawStoredErr, "store append failed")
		k.LabelIf(h.sawAlreadyDurable, "idempotent store replay (already durable)")
		k.LabelIf(h.sawQuorumReceipt, "exact quorum receipt")
		k.LabelIf(h.sawBadReceipt, "malformed quorum receipt")
		k.LabelIf(h.sawAbort, "in-flight proposal aborted")
		k.LabelIf(h.sawAckNonMember, "ack from non-member / on non-leader ignored")
		k.Sample(func() any {
			if len(h.log) > 25 {
				return h.log[len(h.log)-25:]
			}
			return h.log
		})
	})
}
