package store

// C10, layer 1 — ReadCommitted of both store implementations over generated
// logs with a trimmed prefix: every returned sequence lies inside
// [MinSeq, MaxSeq], the page is the exact capped prefix of the visible rows in
// scan direction, following NextSeq visits every visible row exactly once, and
// the in-memory store and the MessageDB adapter agree.

import (
	"bytes"
	"context"
	"fmt"
	"strings"
	"testing"

	ch "github.com/WuKongIM/WuKongIM/pkg/channel"
	"pgregory.net/rapid"
	"verif.local/kit"
)

type verifC10Env struct {
	path    string
	cleanup func()
	f       *MessageDBFactory
	caseNo  int
	nextID  uint64
}

func verifC10NewEnv(t *testing.T) *verifC10Env {
	e := &verifC10Env{nextID: 5_000_000}
	e.path, e.cleanup = kit.TempDir()
	e.f = NewMessageDBFactory(e.path)
	if err := e.f.availabilityError(); err != nil {
		t.Fatalf("VERIF-MACHINERY open factory: %v", err)
	}
	t.Cleanup(func() {
		_ = e.f.Close()
		e.cleanup()
	})
	return e
}

type verifC10Log struct {
	id    ch.ChannelID
	rows  []ch.Record // present rows, ascending
	leo   uint64
	local uint64 // adopted logical boundary
	// regressed: a lower boundary was offered after the adopted one
	regressed bool
}

// verifC10Build appends n generated rows to every store, adopts a boundary and
// trims (possibly partially) below it.
func verifC10Build(rt *rapid.T, nextID *uint64, id ch.ChannelID, maxRows int, stores []ChannelStore) *verifC10Log {
	ctx := context.Background()
	l := &verifC10Log{id: id}
	n := rapid.IntRange(0, maxRows).Draw(rt, "rows")
	soRun := 0
	for len(l.rows) < n {
		k := min(rapid.IntRange(1, 6).Draw(rt, "batch"), n-len(l.rows))
		recs := make([]ch.Record, k)
		for i := range recs {
			*nextID++
			so := rapid.IntRange(0, 5).Draw(rt, "syncOnce") == 0
			if soRun > 0 {
				so = true
				soRun--
			} else if rapid.IntRange(0, 60).Draw(rt, "syncOnceRun") == 0 {
				soRun = rapid.IntRange(3, 70).Draw(rt, "runLen")
			}
			p := kit.Bytes(96).Draw(rt, "payload")
			recs[i] = ch.Record{ID: *nextID, FromUID: rapid.SampledFrom([]string{"", "u1", "u2"}).Draw(rt, "uid"),
				ClientMsgNo: fmt.Sprintf("n%d", *nextID), ServerTimestampMS: 1 + int64(*nextID%1000), SyncOnce: so, Payload: p, SizeBytes: len(p)}
		}
		for _, cs := range stores {
			res, err := cs.AppendLeader(ctx, AppendLeaderRequest{Records: recs})
			if err != nil || res.BaseOffset != l.leo+1 {
				rt.Fatalf("VERIF-MACHINERY seed append: %+v %v", res, err)
			}
		}
		for _, r := range recs {
			l.leo++
			r.Index = l.leo
			l.rows = append(l.rows, r)
		}
	}
	if l.leo > 0 && rapid.IntRange(0, 2).Draw(rt, "retention") != 0 {
		l.local = uint64(rapid.IntRange(1, int(l.leo)).Draw(rt, "boundary"))
		trim := uint64(rapid.IntRange(0, int(l.local)).Draw(rt, "trimThrough"))
		for _, cs := range stores {
			if _, err := cs.AdoptRetentionBoundary(ctx, l.local, "committed"); err != nil {
				rt.Fatalf("VERIF-MACHINERY adopt: %v", err)
			}
			if trim > 0 {
				if _, err := cs.TrimMessagesThrough(ctx, trim, RetentionTrimOptions{}); err != nil {
					rt.Fatalf("VERIF-MACHINERY trim: %v", err)
				}
			}
		}
		for len(l.rows) > 0 && l.rows[0].Index <= trim {
			l.rows = l.rows[1:]
		}
		// a regressing boundary update must not move the boundary backwards
		if rapid.Bool().Draw(rt, "regress") {
			lower := uint64(rapid.IntRange(1, int(l.local)).Draw(rt, "lowerBoundary"))
			for i, cs := range stores {
				if _, err := cs.AdoptRetentionBoundary(ctx, lower, "committed"); err != nil {
					rt.Fatalf("regressing AdoptRetentionBoundary(%d) on store %d: %v", lower, i, err)
				}
				st, err := cs.LoadRetentionState(ctx)
				if err != nil || st.LocalRetentionThroughSeq != l.local || st.PhysicalRetentionThroughSeq > st.LocalRetentionThroughSeq {
					rt.Fatalf("store %d: after adopting %d then %d the retention state is %+v (err=%v); the boundary must stay at %d", i, l.local, lower, st, err, l.local)
				}
			}
			l.regressed = true
		}
	}
	return l
}

// visible: the rows a request may return, in scan order.
func (l *verifC10Log) visible(req ReadCommittedRequest) []ch.Record {
	var out []ch.Record
	in := func(s uint64) bool {
		return (req.MinSeq == 0 || s >= req.MinSeq) && (req.MaxSeq == 0 || s <= req.MaxSeq)
	}
	if req.Reverse {
		for i := len(l.rows) - 1; i >= 0; i-- {
			if s := l.rows[i].Index; s <= req.FromSeq && in(s) {
				out = append(out, l.rows[i])
			}
		}
		return out
	}
	for _, r := range l.rows {
		if r.Index >= req.FromSeq && in(r.Index) {
			out = append(out, r)
		}
	}
	return out
}

func verifC10Cap(rows []ch.Record, limit, maxBytes int) []ch.Record {
	var out []ch.Record
	used := 0
	for _, r := range rows {
		if limit > 0 && len(out) >= limit {
			break
		}
		if maxBytes > 0 && len(out) > 0 && used+len(r.Payload) > maxBytes {
			break
		}
		out = append(out, r)
		used += len(r.Payload)
	}
	return out
}

func verifC10Seqs(ms []ch.Message) []uint64 {
	out := make([]uint64, len(ms))
	for i := range ms {
		out[i] = ms[i].MessageSeq
	}
	return out
}

func verifC10RecSeqs(rs []ch.Record) []uint64 {
	out := make([]uint64, len(rs))
	for i := range rs {
		out[i] = rs[i].Index
	}
	return out
}

// verifC10Request draws a request from the domain real callers produce
// (message reader, conversation head, replication testkit): reverse reads
// start at a concrete sequence (or MaxUint64) that does not exceed MaxSeq.
func verifC10Request(rt *rapid.T, l *verifC10Log) ReadCommittedRequest {
	hi := int(l.leo) + 2
	seq := func(label string) uint64 {
		if rapid.IntRange(0, 3).Draw(rt, label+"Zero") == 0 {
			return 0
		}
		return uint64(rapid.IntRange(1, hi).Draw(rt, label))
	}
	req := ReadCommittedRequest{Reverse: rapid.Bool().Draw(rt, "reverse"), MinSeq: seq("min")}
	if rapid.Bool().Draw(rt, "hasLimit") {
		req.Limit = rapid.IntRange(1, 8).Draw(rt, "limit")
	}
	switch rapid.IntRange(0, 3).Draw(rt, "bytesKind") {
	case 0:
		req.MaxBytes = int(^uint(0) >> 1)
	case 1:
		req.MaxBytes = rapid.IntRange(1, 400).Draw(rt, "maxBytes")
	}
	if req.Reverse {
		if rapid.IntRange(0, 4).Draw(rt, "fromEnd") == 0 {
			req.FromSeq, req.MaxSeq = ^uint64(0), ^uint64(0)
			return req
		}
		req.FromSeq = uint64(rapid.IntRange(1, hi).Draw(rt, "from"))
		switch rapid.IntRange(0, 3).Draw(rt, "maxKind") {
		case 0:
			req.MaxSeq = 0
		case 1:
			req.MaxSeq = req.FromSeq
		case 2:
			req.MaxSeq = req.FromSeq + uint64(rapid.IntRange(0, 3).Draw(rt, "maxOver"))
		default:
			req.MaxSeq = ^uint64(0)
		}
		return req
	}
	req.FromSeq = seq("from")
	req.MaxSeq = seq("max")
	if rapid.IntRange(0, 5).Draw(rt, "maxAll") == 0 {
		req.MaxSeq = ^uint64(0)
	}
	return req
}

func verifC10SameMsg(got ch.Message, want ch.Record, id ch.ChannelID) bool {
	return got.MessageID == want.ID && got.MessageSeq == want.Index && got.ChannelID == id.ID && got.ChannelType == id.Type &&
		got.FromUID == want.FromUID && got.ClientMsgNo == want.ClientMsgNo && got.SyncOnce == want.SyncOnce &&
		got.ServerTimestampMS == want.ServerTimestampMS && bytes.Equal(got.Payload, want.Payload)
}

// verifC10CheckPage: bounds, exact page, content.
func verifC10CheckPage(rt *rapid.T, who string, l *verifC10Log, req ReadCommittedRequest, got ReadCommittedResult) {
	for _, m := range got.Messages {
		if (req.MinSeq > 0 && m.MessageSeq < req.MinSeq) || (req.MaxSeq > 0 && m.MessageSeq > req.MaxSeq) {
			rt.Fatalf("%s ReadCommitted(%+v) returned seq %d outside [MinSeq, MaxSeq]; page %v", who, req, m.MessageSeq, verifC10Seqs(got.Messages))
		}
	}
	want := verifC10Cap(l.visible(verifC10Norm(req)), req.Limit, req.MaxBytes)
	if fmt.Sprint(verifC10Seqs(got.Messages)) != fmt.Sprint(verifC10RecSeqs(want)) {
		rt.Fatalf("%s ReadCommitted(%+v) returned seqs %v, reference %v (present rows %v, boundary %d, leo %d)", who, req,
			verifC10Seqs(got.Messages), verifC10RecSeqs(want), verifC10RecSeqs(l.rows), l.local, l.leo)
	}
	for i, m := range got.Messages {
		if !verifC10SameMsg(m, want[i], l.id) {
			rt.Fatalf("%s ReadCommitted(%+v)[%d] = %+v, reference row %+v", who, req, i, m, want[i])
		}
	}
}

// verifC10Norm: FromSeq 0 of a forward read means "from the start".
func verifC10Norm(req ReadCommittedRequest) ReadCommittedRequest {
	if !req.Reverse && req.FromSeq == 0 {
		req.FromSeq = 1
	}
	return req
}

// verifC10Paginate follows NextSeq until the store reports the end and checks
// that exactly the visible rows were visited, in order, without repetition.
func verifC10Paginate(rt *rapid.T, who string, cs ChannelStore, l *verifC10Log, first ReadCommittedRequest) int {
	ctx := context.Background()
	all := l.visible(verifC10Norm(first))
	req := first
	var seen []uint64
	pages := 0
	for {
		pages++
		if pages > len(all)+4 {
			rt.Fatalf("%s pagination of %+v does not terminate: visited %v", who, first, seen)
		}
		got, err := cs.ReadCommitted(ctx, req)
		if err != nil {
			rt.Fatalf("%s ReadCommitted(%+v): %v", who, req, err)
		}
		verifC10CheckPage(rt, who, l, req, got)
		if len(got.Messages) == 0 {
			break
		}
		seen = append(seen, verifC10Seqs(got.Messages)...)
		last := got.Messages[len(got.Messages)-1].MessageSeq
		if req.Reverse {
			if got.NextSeq >= last {
				rt.Fatalf("%s ReadCommitted(%+v): NextSeq %d does not move below the last returned seq %d", who, req, got.NextSeq, last)
			}
			if got.NextSeq == 0 {
				break
			}
		} else if got.NextSeq <= last {
			rt.Fatalf("%s ReadCommitted(%+v): NextSeq %d does not move past the last returned seq %d", who, req, got.NextSeq, last)
		}
		req.FromSeq = got.NextSeq
	}
	if fmt.Sprint(seen) != fmt.Sprint(verifC10RecSeqs(all)) {
		rt.Fatalf("%s: following NextSeq from %+v visited %v, visible rows are %v", who, first, seen, verifC10RecSeqs(all))
	}
	return pages
}

func TestVerifC10StoreReadBounds(t *testing.T) {
	env := verifC10NewEnv(t)
	kit.Check(t, "C10", func(rt *rapid.T, k *kit.Case) {
		env.caseNo++
		id := ch.ChannelID{ID: fmt.Sprintf("vc10-%d-%d", kit.Seed()%1000, env.caseNo), Type: 1}
		key := ch.ChannelKeyForID(id)
		mem, _ := NewMemoryFactory().ChannelStore(key, id)
		real, err := env.f.ChannelStore(key, id)
		if err != nil {
			rt.Fatalf("VERIF-MACHINERY ChannelStore: %v", err)
		}
		defer real.Close()
		l := verifC10Build(rt, &env.nextID, id, 30, []ChannelStore{mem, real})
		ctx := context.Background()
		nreq := rapid.IntRange(1, 6).Draw(rt, "requests")
		var insideReverse, multiPage bool
		var descr []string
		for i := 0; i < nreq; i++ {
			req := verifC10Request(rt, l)
			descr = append(descr, fmt.Sprintf("%+v", req))
			a, err := real.ReadCommitted(ctx, req)
			if err != nil {
				rt.Fatalf("adapter ReadCommitted(%+v): %v", req, err)
			}
			b, err := mem.ReadCommitted(ctx, req)
			if err != nil {
				rt.Fatalf("memory ReadCommitted(%+v): %v", req, err)
			}
			verifC10CheckPage(rt, "adapter", l, req, a)
			verifC10CheckPage(rt, "memory", l, req, b)
			if verifC10Paginate(rt, "adapter", real, l, req) > 2 {
				multiPage = true
			}
			verifC10Paginate(rt, "memory", mem, l, req)
			if req.Reverse && len(l.rows) > 1 && req.MinSeq > l.rows[0].Index && req.MinSeq <= l.rows[len(l.rows)-1].Index {
				insideReverse = true
			}
		}
		k.Key("store", verifC10RecSeqs(l.rows), l.local, strings.Join(descr, ";"))
		k.SetNonTrivial(insideReverse || l.regressed)
		k.LabelIf(l.regressed, "store: regressing boundary update offered (non-trivial)")
		k.LabelIf(insideReverse, "store: reverse / latest read with MinSeq strictly inside the stored range (non-trivial)")
		k.LabelIf(multiPage, "store: NextSeq followed over > 2 pages")
		k.LabelIf(l.local > 0, "store: log has an adopted retention boundary")
		k.LabelIf(len(l.rows) > 0 && l.rows[0].Index > 1, "store: prefix physically trimmed")
		k.LabelIf(len(l.rows) == 0, "store: no rows present")
		k.Sample(func() any {
			return fmt.Sprintf("store rows=%v boundary=%d requests=%s", verifC10RecSeqs(l.rows), l.local, strings.Join(descr, " ; "))
		})
	})
}
