package store

// C07 (second layer) — the channel runtime's store surface. The MessageDB
// adapter (production path: adapter → compat ChannelStore → Pebble) is driven
// by a rapid state machine and compared (a) with an independent reference log
// and (b) with MemoryChannelStore fed the same accepted operations
// (differential on the common ChannelStore surface).
//
// One MessageDBFactory is shared by the cases of a test (opening it costs a
// 64 MiB memtable); every case uses fresh channel ids, and the factory is
// closed and reopened inside cases.

import (
	"bytes"
	"context"
	"errors"
	"fmt"
	"sort"
	"strings"
	"testing"

	ch "github.com/WuKongIM/WuKongIM/pkg/channel"
	"pgregory.net/rapid"
	"verif.local/kit"
)

type verifC07SEnv struct {
	path    string
	cleanup func()
	f       *MessageDBFactory
	caseNo  int
	nextID  uint64
	nextCmd uint64
}

func verifC07SNewEnv(t *testing.T) *verifC07SEnv {
	e := &verifC07SEnv{nextID: 1000}
	e.path, e.cleanup = kit.TempDir()
	e.f = NewMessageDBFactory(e.path)
	t.Cleanup(func() {
		_ = e.f.Close()
		e.cleanup()
	})
	return e
}

type verifC07SChan struct {
	id     ch.ChannelID
	key    ch.ChannelKey
	exact  bool
	rows   []ch.Record // ascending Index
	leo    uint64
	local  uint64
	hw     uint64
	keys   map[[2]string]uint64
	chain  []ProposalManifest // accepted proposals, in order
	chainR [][]ch.Record
	real   ChannelStore
	mem    ChannelStore
}

type verifC07SLoc struct {
	ch  int
	seq uint64
}

type verifC07SH struct {
	rt    *rapid.T
	env   *verifC07SEnv
	ctx   context.Context
	mem   *MemoryFactory
	chans []*verifC07SChan
	ids   map[uint64]verifC07SLoc
	ever  []uint64
	trace []string

	removed, reloadAfterRemove, lookupAfterReload      bool
	nReopen, nReclaim, nTrim, nExact, nReplay, nFollow int
	nRej, nAppendOK                                     int
}

func (h *verifC07SH) note(f string, a ...any) { h.trace = append(h.trace, fmt.Sprintf(f, a...)) }

func (h *verifC07SH) fail(f string, a ...any) {
	h.rt.Fatalf("%s\n  history: %s", fmt.Sprintf(f, a...), strings.Join(h.trace, " ; "))
}

func (h *verifC07SH) store(ci int) ChannelStore {
	c := h.chans[ci]
	if c.real == nil {
		cs, err := h.env.f.ChannelStore(c.key, c.id)
		if err != nil {
			h.fail("ChannelStore(%q): %v", c.key, err)
		}
		c.real = cs
	}
	return c.real
}

func (h *verifC07SH) closeStore(ci int) {
	c := h.chans[ci]
	if c.real == nil {
		return
	}
	if err := c.real.Close(); err != nil {
		h.fail("store Close: %v", err)
	}
	if _, err := c.real.Load(h.ctx); !errors.Is(err, ch.ErrClosed) {
		h.fail("closed store answered Load with err=%v, want closed", err)
	}
	c.real = nil
	h.nReclaim++
	if h.removed {
		h.reloadAfterRemove = true
	}
	h.note("close(%d)", ci)
}

func (h *verifC07SH) closeAll() {
	for ci := range h.chans {
		if h.chans[ci].real != nil {
			_ = h.chans[ci].real.Close()
			h.chans[ci].real = nil
		}
	}
}

func (h *verifC07SH) reopenFactory() {
	h.closeAll()
	if err := h.env.f.Close(); err != nil {
		h.fail("factory Close: %v", err)
	}
	h.env.f = NewMessageDBFactory(h.env.path)
	if err := h.env.f.availabilityError(); err != nil {
		h.rt.Fatalf("VERIF-MACHINERY reopen factory: %v", err)
	}
	h.nReopen++
	if h.removed {
		h.reloadAfterRemove = true
	}
	h.note("reopenFactory")
}

func (c *verifC07SChan) find(seq uint64) (int, bool) {
	i := sort.Search(len(c.rows), func(i int) bool { return c.rows[i].Index >= seq })
	return i, i < len(c.rows) && c.rows[i].Index == seq
}

// verdict: would a sequential log with unique ids / keys accept the batch?
func (h *verifC07SH) acceptable(ci int, recs []ch.Record, strictIDs bool) (bool, string) {
	c := h.chans[ci]
	seenID := map[uint64]bool{}
	seenKey := map[[2]string]bool{}
	for i, r := range recs {
		if seenID[r.ID] {
			return false, fmt.Sprintf("rec %d id dup in batch", i)
		}
		seenID[r.ID] = true
		if strictIDs {
			if _, live := h.ids[r.ID]; live {
				return false, fmt.Sprintf("rec %d id stored", i)
			}
		}
		if r.FromUID == "" || r.ClientMsgNo == "" {
			continue
		}
		k := [2]string{r.FromUID, r.ClientMsgNo}
		if seenKey[k] {
			return false, fmt.Sprintf("rec %d key dup in batch", i)
		}
		seenKey[k] = true
		if _, live := c.keys[k]; live {
			return false, fmt.Sprintf("rec %d key stored", i)
		}
	}
	return true, ""
}

func (h *verifC07SH) applyRows(ci int, recs []ch.Record) {
	c := h.chans[ci]
	for _, r := range recs {
		c.leo++
		r.Index = c.leo
		r.Payload = append([]byte(nil), r.Payload...)
		c.rows = append(c.rows, r)
		h.ids[r.ID] = verifC07SLoc{ch: ci, seq: r.Index}
		h.ever = append(h.ever, r.ID)
		if r.FromUID != "" && r.ClientMsgNo != "" {
			c.keys[[2]string{r.FromUID, r.ClientMsgNo}] = r.Index
		}
	}
}

func verifC07SRecs(recs []ch.Record) string {
	var b strings.Builder
	for i, r := range recs {
		if i > 0 {
			b.WriteByte(',')
		}
		fmt.Fprintf(&b, "{id=%d idx=%d from=%q no=%q len=%d so=%v}", r.ID, r.Index, r.FromUID, r.ClientMsgNo, len(r.Payload), r.SyncOnce)
	}
	return b.String()
}

func (h *verifC07SH) doAppendPlain(ci int, recs []ch.Record, serverIDs bool) bool {
	c := h.chans[ci]
	ok, why := h.acceptable(ci, recs, !serverIDs)
	h.note("append(%d,server=%v,[%s])→%v", ci, serverIDs, verifC07SRecs(recs), ok)
	req := AppendLeaderRequest{Records: recs, ServerAllocatedMessageIDs: serverIDs}
	res, err := h.store(ci).AppendLeader(h.ctx, req)
	if !ok {
		if !errors.Is(err, ch.ErrLogConflict) || res.Outcome != AppendOutcomeConflict {
			h.fail("append to %q must be rejected (%s): got %+v err=%v", c.key, why, res, err)
		}
		h.nRej++
		return false
	}
	want := AppendLeaderResult{BaseOffset: c.leo + 1, LastOffset: c.leo + uint64(len(recs)), Outcome: AppendOutcomeDurable}
	if err != nil || res != want {
		h.fail("append to %q = %+v err=%v, want %+v", c.key, res, err, want)
	}
	mres, merr := c.mem.AppendLeader(h.ctx, req)
	if merr != nil || mres != res {
		h.fail("memory store AppendLeader = %+v err=%v, MessageDB adapter %+v", mres, merr, res)
	}
	h.applyRows(ci, recs)
	if len(recs) > 0 {
		h.nAppendOK++
	}
	return true
}

func (h *verifC07SH) manifestFor(ci int, recs []ch.Record, term uint64) ProposalManifest {
	c := h.chans[ci]
	h.env.nextCmd++
	var cmd [32]byte
	copy(cmd[:], fmt.Sprintf("verifC07-cmd-%d", h.env.nextCmd))
	m := ProposalManifest{Version: ProposalManifestVersion, ChannelEpoch: 3, LeaderTerm: term, FenceVersion: 1,
		CommandID: cmd, BaseOffset: c.leo, LastOffset: c.leo + uint64(len(recs)), PreviousIndex: c.leo}
	if n := len(c.chain); n > 0 {
		m.PreviousTerm, m.PreviousDigest = c.chain[n-1].LeaderTerm, c.chain[n-1].Digest
	}
	sealed, _, ok := ch.SealProposalManifest(m, recs)
	if !ok {
		h.rt.Fatalf("VERIF-MACHINERY cannot seal manifest %+v", m)
	}
	return sealed
}

// doAppendExact: a fresh exact-base proposal at the log end.
func (h *verifC07SH) doAppendExact(ci int, recs []ch.Record, committed uint64, serverIDs bool) bool {
	c := h.chans[ci]
	term := uint64(5)
	if n := len(c.chain); n > 0 {
		term = c.chain[n-1].LeaderTerm + uint64(len(recs)%2)
	}
	for i := range recs {
		recs[i].Epoch = 3
	}
	ok, why := h.acceptable(ci, recs, !serverIDs)
	m := h.manifestFor(ci, recs, term)
	req := AppendLeaderRequest{Records: recs, ExactBaseOffset: true, ExpectedBaseOffset: c.leo, Proposal: m, Committed: committed, ServerAllocatedMessageIDs: serverIDs}
	h.note("exact(%d,base=%d,committed=%d,server=%v,[%s])→%v", ci, c.leo, committed, serverIDs, verifC07SRecs(recs), ok)
	res, err := h.store(ci).AppendLeader(h.ctx, req)
	if !ok {
		if !errors.Is(err, ch.ErrLogConflict) || res.Outcome != AppendOutcomeConflict {
			h.fail("exact append to %q must be rejected (%s): got %+v err=%v", c.key, why, res, err)
		}
		h.nRej++
		return false
	}
	want := AppendLeaderResult{BaseOffset: c.leo + 1, LastOffset: m.LastOffset, Outcome: AppendOutcomeDurable}
	if err != nil || res != want {
		h.fail("exact append to %q = %+v err=%v, want %+v", c.key, res, err, want)
	}
	mres, merr := c.mem.AppendLeader(h.ctx, req)
	if merr != nil || mres != res {
		h.fail("memory store exact AppendLeader = %+v err=%v, MessageDB adapter %+v", mres, merr, res)
	}
	h.applyRows(ci, recs)
	c.chain = append(c.chain, m)
	c.chainR = append(c.chainR, recs)
	if committed > c.hw {
		c.hw = committed
	}
	h.nExact++
	h.nAppendOK++
	return true
}

// doReplayExact re-sends an already durable proposal (retry) or a proposal
// that skips ahead of the log end.
func (h *verifC07SH) doReplayExact(ci int, which int, gap bool) {
	c := h.chans[ci]
	if gap {
		recs := []ch.Record{{ID: h.env.nextID + 1_000_000, Epoch: 3, ServerTimestampMS: 1, Payload: []byte("g")}}
		m := ProposalManifest{Version: ProposalManifestVersion, ChannelEpoch: 3, LeaderTerm: 9, FenceVersion: 1, CommandID: [32]byte{0xee},
			BaseOffset: c.leo + 2, LastOffset: c.leo + 3, PreviousIndex: c.leo + 2, PreviousTerm: 9, PreviousDigest: [32]byte{1}}
		sealed, _, ok := ch.SealProposalManifest(m, recs)
		if !ok {
			h.rt.Fatalf("VERIF-MACHINERY cannot seal gap manifest")
		}
		req := AppendLeaderRequest{Records: recs, ExactBaseOffset: true, ExpectedBaseOffset: c.leo + 2, Proposal: sealed}
		h.note("exactGap(%d)", ci)
		res, err := h.store(ci).AppendLeader(h.ctx, req)
		if err == nil || res.Outcome.Durable() || res.NeedFrom != c.leo+1 {
			h.fail("exact append beyond the log end of %q: %+v err=%v, want refusal with NeedFrom=%d", c.key, res, err, c.leo+1)
		}
		mres, merr := c.mem.AppendLeader(h.ctx, req)
		if merr == nil || mres.NeedFrom != res.NeedFrom {
			h.fail("memory store gap append %+v err=%v vs adapter %+v", mres, merr, res)
		}
		return
	}
	if len(c.chain) == 0 {
		return
	}
	i := which % len(c.chain)
	m, recs := c.chain[i], c.chainR[i]
	req := AppendLeaderRequest{Records: recs, ExactBaseOffset: true, ExpectedBaseOffset: m.BaseOffset, Proposal: m}
	// the proposal is still complete only if retention has not removed any of its rows
	h.note("exactReplay(%d,proposal=%d base=%d)", ci, i, m.BaseOffset)
	res, err := h.store(ci).AppendLeader(h.ctx, req)
	want := AppendLeaderResult{BaseOffset: m.BaseOffset + 1, LastOffset: m.LastOffset, Outcome: AppendOutcomeAlreadyDurable}
	if err != nil || res != want {
		h.fail("replay of durable proposal %d on %q = %+v err=%v, want %+v", i, c.key, res, err, want)
	}
	mres, merr := c.mem.AppendLeader(h.ctx, req)
	if merr != nil || mres != res {
		h.fail("memory store replay = %+v err=%v, adapter %+v", mres, merr, res)
	}
	h.nReplay++
}

func (h *verifC07SH) doApplyFollower(ci int, recs []ch.Record, leaderHW uint64) {
	c := h.chans[ci]
	for i := range recs {
		recs[i].Index = c.leo + 1 + uint64(i)
	}
	req := ApplyFollowerRequest{Records: recs, LeaderHW: leaderHW}
	h.note("follow(%d,hw=%d,[%s])", ci, leaderHW, verifC07SRecs(recs))
	res, err := h.store(ci).ApplyFollower(h.ctx, req)
	wantLEO := c.leo + uint64(len(recs))
	wantCP := uint64(0)
	if leaderHW > 0 && len(recs) > 0 {
		wantCP = min(leaderHW, wantLEO)
	}
	if err != nil || res.LEO != wantLEO || res.CheckpointHW != wantCP {
		h.fail("ApplyFollower on %q = %+v err=%v, want LEO=%d checkpointHW=%d", c.key, res, err, wantLEO, wantCP)
	}
	mres, merr := c.mem.ApplyFollower(h.ctx, req)
	if merr != nil || mres != res {
		h.fail("memory store ApplyFollower = %+v err=%v, adapter %+v", mres, merr, res)
	}
	h.applyRows(ci, recs)
	if wantCP > c.hw {
		c.hw = wantCP
	}
	h.nFollow++
}

func (h *verifC07SH) doAdopt(ci int, through uint64) {
	c := h.chans[ci]
	h.note("adopt(%d,%d)", ci, through)
	got, err := h.store(ci).AdoptRetentionBoundary(h.ctx, through, "committed")
	if through > c.local {
		c.local = through
	}
	if through > c.leo {
		c.leo = through
	}
	if err != nil || got != c.leo {
		h.fail("AdoptRetentionBoundary(%q,%d) = %d err=%v, want retained max %d", c.key, through, got, err, c.leo)
	}
	mgot, merr := c.mem.AdoptRetentionBoundary(h.ctx, through, "committed")
	if merr != nil || mgot != got {
		h.fail("memory store AdoptRetentionBoundary = %d err=%v, adapter %d", mgot, merr, got)
	}
}

func (h *verifC07SH) doTrim(ci int, through uint64, opts RetentionTrimOptions) {
	c := h.chans[ci]
	h.note("trim(%d,%d,%+v)", ci, through, opts)
	res, err := h.store(ci).TrimMessagesThrough(h.ctx, through, opts)
	mres, merr := c.mem.TrimMessagesThrough(h.ctx, through, opts)
	if through == 0 || through > c.local {
		if err == nil || merr == nil {
			h.fail("trim through %d above the adopted boundary %d of %q: adapter err=%v memory err=%v, want refusal", through, c.local, c.key, err, merr)
		}
		return
	}
	if err != nil || merr != nil {
		h.fail("trim through %d on %q: adapter err=%v memory err=%v", through, c.key, err, merr)
	}
	var del []ch.Record
	used, below := 0, 0
	stopped := false
	for _, r := range c.rows {
		if r.Index > through {
			break
		}
		below++
		if stopped {
			continue
		}
		if (opts.MaxMessages > 0 && len(del) >= opts.MaxMessages) || (opts.MaxBytes > 0 && len(del) > 0 && used+len(r.Payload) > opts.MaxBytes) {
			stopped = true
			continue
		}
		del = append(del, r)
		used += len(r.Payload)
	}
	var wantThrough uint64
	if len(del) > 0 {
		wantThrough = del[len(del)-1].Index
	}
	if res.Deleted != len(del) || res.DeletedThroughSeq != wantThrough {
		h.fail("trim through %d %+v on %q deleted %d through %d, model %d through %d", through, opts, c.key, res.Deleted, res.DeletedThroughSeq, len(del), wantThrough)
	}
	if mres.Deleted != res.Deleted || mres.DeletedThroughSeq != res.DeletedThroughSeq {
		h.fail("memory store trim %+v, adapter %+v", mres, res)
	}
	if !res.More && len(del) < below {
		h.fail("trim through %d on %q reported complete but %d rows at or below remain", through, c.key, below-len(del))
	}
	for _, r := range del {
		if loc, ok := h.ids[r.ID]; ok && loc.ch == ci && loc.seq == r.Index {
			delete(h.ids, r.ID)
		}
		if r.FromUID != "" && r.ClientMsgNo != "" {
			delete(c.keys, [2]string{r.FromUID, r.ClientMsgNo})
		}
	}
	c.rows = c.rows[len(del):]
	if len(del) > 0 {
		h.removed = true
		h.nTrim++
	}
}

func (h *verifC07SH) doCheckpoint(ci int, hw uint64) {
	c := h.chans[ci]
	h.note("checkpoint(%d,%d)", ci, hw)
	if err := h.store(ci).StoreCheckpoint(h.ctx, ch.Checkpoint{HW: hw}); err != nil {
		h.fail("StoreCheckpoint(%q,%d): %v", c.key, hw, err)
	}
	if err := c.mem.StoreCheckpoint(h.ctx, ch.Checkpoint{HW: hw}); err != nil {
		h.fail("memory StoreCheckpoint: %v", err)
	}
	if hw > c.hw {
		c.hw = hw
	}
}

// ---- observations

func (h *verifC07SH) sameMsg(c *verifC07SChan, what string, got ch.Message, want ch.Record) {
	if got.MessageID != want.ID || got.MessageSeq != want.Index || got.ChannelID != c.id.ID || got.ChannelType != c.id.Type ||
		got.Setting != want.Setting || got.FromUID != want.FromUID || got.ClientMsgNo != want.ClientMsgNo ||
		got.ServerTimestampMS != want.ServerTimestampMS || got.SyncOnce != want.SyncOnce || !bytes.Equal(got.Payload, want.Payload) {
		h.fail("%s on %q returned %+v, model row %+v", what, c.key, got, want)
	}
}

func (h *verifC07SH) sameMsgs(c *verifC07SChan, what string, got []ch.Message, want []ch.Record) {
	if len(got) != len(want) {
		gs := make([]uint64, len(got))
		for i := range got {
			gs[i] = got[i].MessageSeq
		}
		ws := make([]uint64, len(want))
		for i := range want {
			ws[i] = want[i].Index
		}
		h.fail("%s on %q returned seqs %v, model %v", what, c.key, gs, ws)
	}
	for i := range got {
		h.sameMsg(c, what, got[i], want[i])
	}
}

func verifC07SCap(rows []ch.Record, limit, maxBytes int) []ch.Record {
	var out []ch.Record
	used := 0
	for _, r := range rows {
		if maxBytes > 0 && len(out) > 0 && used+len(r.Payload) > maxBytes {
			break
		}
		out = append(out, r)
		used += len(r.Payload)
		if limit > 0 && len(out) >= limit {
			break
		}
	}
	return out
}

func (h *verifC07SH) checkLoad(ci int) {
	c := h.chans[ci]
	st, err := h.store(ci).Load(h.ctx)
	want := InitialState{LEO: c.leo, HW: min(c.hw, c.leo), CheckpointHW: min(c.hw, c.leo)}
	if err != nil || st != want {
		h.fail("Load(%q) = %+v err=%v, model %+v", c.key, st, err, want)
	}
	mst, merr := c.mem.Load(h.ctx)
	if merr != nil || mst != st {
		h.fail("memory store Load = %+v err=%v, adapter %+v", mst, merr, st)
	}
	rs, err := h.store(ci).LoadRetentionState(h.ctx)
	if err != nil || rs.LocalRetentionThroughSeq != c.local {
		h.fail("LoadRetentionState(%q) = %+v err=%v, model local boundary %d", c.key, rs, err, c.local)
	}
}

func (h *verifC07SH) checkReadCommitted(ci int, from uint64, limit, maxBytes int, reverse bool) {
	c := h.chans[ci]
	req := ReadCommittedRequest{FromSeq: from, Limit: limit, MaxBytes: maxBytes, Reverse: reverse}
	var vis []ch.Record
	if reverse {
		hi := from
		if hi == 0 {
			hi = c.leo
		}
		for i := len(c.rows) - 1; i >= 0; i-- {
			if hi == 0 || c.rows[i].Index <= hi {
				vis = append(vis, c.rows[i])
			}
		}
	} else {
		for _, r := range c.rows {
			if r.Index >= max(from, 1) {
				vis = append(vis, r)
			}
		}
	}
	want := verifC07SCap(vis, limit, maxBytes)
	got, err := h.store(ci).ReadCommitted(h.ctx, req)
	if err != nil {
		h.fail("ReadCommitted(%q,%+v): %v", c.key, req, err)
	}
	h.sameMsgs(c, fmt.Sprintf("ReadCommitted(%+v)", req), got.Messages, want)
	mgot, merr := c.mem.ReadCommitted(h.ctx, req)
	if merr != nil {
		h.fail("memory ReadCommitted(%+v): %v", req, merr)
	}
	h.sameMsgs(c, fmt.Sprintf("memory ReadCommitted(%+v)", req), mgot.Messages, want)
}

func (h *verifC07SH) checkReadLog(ci int, from, maxOff uint64, maxBytes int) {
	c := h.chans[ci]
	req := ReadLogRequest{FromOffset: from, MaxOffset: maxOff, MaxBytes: maxBytes}
	var vis []ch.Record
	for _, r := range c.rows {
		if r.Index >= max(from, 1) && (maxOff == 0 || r.Index <= maxOff) {
			vis = append(vis, r)
		}
	}
	// byte budget applies before the MaxOffset cut on the adapter (it reads a
	// budgeted page and then cuts), so only compare when the budget is not
	// what ends the page, or when no MaxOffset is set
	var all []ch.Record
	for _, r := range c.rows {
		if r.Index >= max(from, 1) {
			all = append(all, r)
		}
	}
	page := verifC07SCap(all, 0, maxBytes)
	want := page
	if maxOff > 0 {
		want = nil
		for _, r := range page {
			if r.Index <= maxOff {
				want = append(want, r)
			}
		}
	}
	got, err := h.store(ci).ReadLog(h.ctx, req)
	if err != nil {
		h.fail("ReadLog(%q,%+v): %v", c.key, req, err)
	}
	if len(got.Records) != len(want) {
		h.fail("ReadLog(%q,%+v) returned %d records, model %d (of %d in range)", c.key, req, len(got.Records), len(want), len(vis))
	}
	for i, r := range got.Records {
		w := want[i]
		if r.ID != w.ID || r.Index != w.Index || r.FromUID != w.FromUID || r.ClientMsgNo != w.ClientMsgNo || r.Setting != w.Setting ||
			r.SyncOnce != w.SyncOnce || r.ServerTimestampMS != w.ServerTimestampMS || !bytes.Equal(r.Payload, w.Payload) || r.SizeBytes != len(w.Payload) {
			h.fail("ReadLog(%q,%+v)[%d] = %+v, model %+v", c.key, req, i, r, w)
		}
	}
	{
		// both results are prefixes of the same range, so the order in which
		// the byte budget and MaxOffset are applied does not matter
		_ = vis
		mgot, merr := c.mem.ReadLog(h.ctx, req)
		if merr != nil || len(mgot.Records) != len(got.Records) {
			h.fail("memory ReadLog(%+v) returned %d records err=%v, adapter %d", req, len(mgot.Records), merr, len(got.Records))
		}
		for i := range mgot.Records {
			if mgot.Records[i].ID != got.Records[i].ID || mgot.Records[i].Index != got.Records[i].Index || !bytes.Equal(mgot.Records[i].Payload, got.Records[i].Payload) {
				h.fail("memory ReadLog(%+v)[%d] = %+v, adapter %+v", req, i, mgot.Records[i], got.Records[i])
			}
		}
	}
}

func (h *verifC07SH) lookedUp() {
	if h.reloadAfterRemove {
		h.lookupAfterReload = true
	}
}

func (h *verifC07SH) checkByID(ci int, id uint64) {
	c := h.chans[ci]
	got, ok, err := h.store(ci).(MessageLookup).LookupMessageByID(h.ctx, id)
	loc, live := h.ids[id]
	present := live && loc.ch == ci
	if err != nil || ok != present {
		h.fail("LookupMessageByID(%q,%d) ok=%v err=%v, model live=%v at channel %d seq %d", c.key, id, ok, err, live, loc.ch, loc.seq)
	}
	h.lookedUp()
	mgot, mok, merr := c.mem.(MessageLookup).LookupMessageByID(h.ctx, id)
	if merr != nil || mok != ok {
		h.fail("memory LookupMessageByID(%d) ok=%v err=%v, adapter ok=%v", id, mok, merr, ok)
	}
	if present {
		i, _ := c.find(loc.seq)
		h.sameMsg(c, "LookupMessageByID", got, c.rows[i])
		h.sameMsg(c, "memory LookupMessageByID", mgot, c.rows[i])
	}
}

func (h *verifC07SH) checkKey(ci int, uid, no string) {
	c := h.chans[ci]
	hit, ok, err := h.store(ci).(IdempotencyLookup).LookupIdempotency(h.ctx, uid, no)
	seq, present := c.keys[[2]string{uid, no}]
	if uid == "" || no == "" {
		present = false
	}
	if err != nil || ok != present {
		h.fail("LookupIdempotency(%q,%q/%q) ok=%v err=%v, model present=%v seq=%d", c.key, uid, no, ok, err, present, seq)
	}
	h.lookedUp()
	if present {
		i, _ := c.find(seq)
		h.sameMsg(c, "LookupIdempotency", hit.Message, c.rows[i])
	}
}

func (h *verifC07SH) checkSender(ci int, uid string, through uint64) {
	c := h.chans[ci]
	if uid == "" || through == 0 {
		return
	}
	seq, ok, err := h.store(ci).(SenderSequenceLookup).GetLastSenderMessageSeq(h.ctx, uid, through)
	var want uint64
	for i := len(c.rows) - 1; i >= 0; i-- {
		if r := c.rows[i]; r.FromUID == uid && !r.SyncOnce && r.Index <= through {
			want = r.Index
			break
		}
	}
	if err != nil || seq != want || ok != (want != 0) {
		h.fail("GetLastSenderMessageSeq(%q,%q,%d) = %d ok=%v err=%v, model %d", c.key, uid, through, seq, ok, err, want)
	}
	h.lookedUp()
	mseq, mok, merr := c.mem.(SenderSequenceLookup).GetLastSenderMessageSeq(h.ctx, uid, through)
	if merr != nil || mseq != seq || mok != ok {
		h.fail("memory GetLastSenderMessageSeq = %d ok=%v err=%v, adapter %d ok=%v", mseq, mok, merr, seq, ok)
	}
}

func (h *verifC07SH) fullScan() {
	for ci, c := range h.chans {
		h.checkLoad(ci)
		h.checkReadCommitted(ci, 0, 0, 0, false)
		h.checkReadCommitted(ci, 0, 0, 0, true)
		h.checkReadLog(ci, 0, 0, 1<<30)
		for _, id := range h.ever {
			h.checkByID(ci, id)
		}
		senders := map[string]bool{}
		for _, r := range c.rows {
			senders[r.FromUID] = true
		}
		for k := range c.keys {
			h.checkKey(ci, k[0], k[1])
		}
		for _, u := range verifC07SUIDs {
			h.checkSender(ci, u, ^uint64(0))
			for _, n := range verifC07SNos {
				h.checkKey(ci, u, n)
			}
		}
		// contiguity above the logical boundary, straight from the store
		got, err := h.store(ci).ReadCommitted(h.ctx, ReadCommittedRequest{FromSeq: c.local + 1})
		if err != nil {
			h.fail("ReadCommitted: %v", err)
		}
		next := c.local + 1
		for _, m := range got.Messages {
			if m.MessageSeq != next {
				h.fail("log %q not contiguous above boundary %d: seq %d, want %d", c.key, c.local, m.MessageSeq, next)
			}
			next++
		}
		if next-1 != c.leo {
			h.fail("log %q rows end at %d but log end is %d", c.key, next-1, c.leo)
		}
	}
}

var (
	verifC07SUIDs = []string{"u1", "u2", "u10", "u1\x00", "用户"}
	verifC07SNos  = []string{"c1", "c2", "c10", "编号"}
)

func TestVerifC07StoreAdapters(t *testing.T) {
	env := verifC07SNewEnv(t)
	maxPay := kit.Scale("C07_PAYLOAD", 1024, 8192)
	kit.Check(t, "C07", func(rt *rapid.T, k *kit.Case) {
		env.caseNo++
		h := &verifC07SH{rt: rt, env: env, ctx: context.Background(), mem: NewMemoryFactory(), ids: map[uint64]verifC07SLoc{}}
		defer h.closeAll()
		nch := rapid.IntRange(2, 3).Draw(rt, "channels")
		for i := 0; i < nch; i++ {
			id := ch.ChannelID{ID: fmt.Sprintf("vc07-%d-%d-%d", kit.Seed()%1000, env.caseNo, i), Type: uint8(1 + i%2)}
			c := &verifC07SChan{id: id, key: ch.ChannelKeyForID(id), exact: i == 1, keys: map[[2]string]uint64{}}
			var err error
			if c.mem, err = h.mem.ChannelStore(c.key, id); err != nil {
				rt.Fatalf("VERIF-MACHINERY memory store: %v", err)
			}
			h.chans = append(h.chans, c)
		}
		uniq := 0
		genRecs := func(rt *rapid.T, ci int, collide bool) []ch.Record {
			n := rapid.IntRange(1, 6).Draw(rt, "n")
			recs := make([]ch.Record, 0, n)
			for i := 0; i < n; i++ {
				env.nextID++
				r := ch.Record{ID: env.nextID, ServerTimestampMS: rapid.Int64Range(1, 1<<41).Draw(rt, "ts"),
					Setting: uint8(rapid.IntRange(0, 255).Draw(rt, "setting")), SyncOnce: rapid.IntRange(0, 5).Draw(rt, "syncOnce") == 0}
				r.Payload = kit.Bytes(maxPay).Draw(rt, "payload")
				r.SizeBytes = len(r.Payload)
				switch rapid.IntRange(0, 5).Draw(rt, "uidKind") {
				case 0:
				case 1:
					r.FromUID = string(kit.Bytes(24).Draw(rt, "uidRaw"))
				default:
					r.FromUID = rapid.SampledFrom(verifC07SUIDs).Draw(rt, "uid")
				}
				switch rapid.IntRange(0, 7).Draw(rt, "noKind") {
				case 0:
				case 1, 2:
					r.ClientMsgNo = rapid.SampledFrom(verifC07SNos).Draw(rt, "no")
				default:
					uniq++
					r.ClientMsgNo = fmt.Sprintf("n%d", uniq)
				}
				if collide && len(h.ever) > 0 && rapid.IntRange(0, 11).Draw(rt, "oldID") == 0 {
					r.ID = rapid.SampledFrom(h.ever).Draw(rt, "id")
				}
				recs = append(recs, r)
			}
			if !collide {
				for i := range recs {
					for {
						ok, _ := h.acceptable(ci, recs[:i+1], true)
						if ok {
							break
						}
						uniq++
						recs[i].ClientMsgNo = fmt.Sprintf("n%d", uniq)
					}
				}
			}
			return recs
		}
		pick := func(rt *rapid.T, exact bool) int {
			var cands []int
			for i, c := range h.chans {
				if c.exact == exact {
					cands = append(cands, i)
				}
			}
			return rapid.SampledFrom(cands).Draw(rt, "ch")
		}
		anyCh := func(rt *rapid.T) int { return rapid.IntRange(0, nch-1).Draw(rt, "ch") }
		near := func(rt *rapid.T, ci int, label string) uint64 {
			leo := h.chans[ci].leo
			if rapid.IntRange(0, 7).Draw(rt, label+"Kind") == 0 {
				return leo + uint64(rapid.IntRange(1, 2).Draw(rt, label+"Over"))
			}
			return uint64(rapid.IntRange(0, int(leo)).Draw(rt, label))
		}
		// boundary: a byte budget exactly on (or one off) the sum of the first
		// k payloads the scan will visit
		boundary := func(rt *rapid.T, ci int, from uint64, reverse bool, label string) int {
			c := h.chans[ci]
			var lens []int
			if reverse {
				hi := from
				if hi == 0 {
					hi = c.leo
				}
				for i := len(c.rows) - 1; i >= 0; i-- {
					if hi == 0 || c.rows[i].Index <= hi {
						lens = append(lens, len(c.rows[i].Payload))
					}
				}
			} else {
				for _, r := range c.rows {
					if r.Index >= from {
						lens = append(lens, len(r.Payload))
					}
				}
			}
			if len(lens) == 0 {
				return rapid.IntRange(1, 64).Draw(rt, label+"Any")
			}
			k := rapid.IntRange(1, min(len(lens), 6)).Draw(rt, label+"K")
			sum := rapid.IntRange(-1, 1).Draw(rt, label+"Delta")
			for _, n := range lens[:k] {
				sum += n
			}
			return max(sum, 1)
		}
		actions := map[string]func(*rapid.T){
			"appendPlain": func(rt *rapid.T) {
				ci := pick(rt, false)
				server := rapid.Bool().Draw(rt, "serverIDs")
				h.doAppendPlain(ci, genRecs(rt, ci, !server), server)
			},
			"appendPlain2": func(rt *rapid.T) {
				ci := pick(rt, false)
				h.doAppendPlain(ci, genRecs(rt, ci, true), false)
			},
			"appendExact": func(rt *rapid.T) {
				ci := pick(rt, true)
				server := rapid.Bool().Draw(rt, "serverIDs")
				recs := genRecs(rt, ci, !server && rapid.IntRange(0, 3).Draw(rt, "collide") == 0)
				if c := h.chans[ci]; len(c.rows) > 0 && rapid.IntRange(0, 4).Draw(rt, "collideKey") == 0 {
					old := c.rows[rapid.IntRange(0, len(c.rows)-1).Draw(rt, "oldRow")]
					i := rapid.IntRange(0, len(recs)-1).Draw(rt, "victim")
					recs[i].FromUID, recs[i].ClientMsgNo = old.FromUID, old.ClientMsgNo
				}
				committed := uint64(0)
				if rapid.Bool().Draw(rt, "withCommitted") {
					committed = uint64(rapid.IntRange(0, int(h.chans[ci].leo)+len(recs)).Draw(rt, "committed"))
				}
				h.doAppendExact(ci, recs, committed, server)
			},
			"replayExact": func(rt *rapid.T) {
				ci := pick(rt, true)
				c := h.chans[ci]
				gap := rapid.IntRange(0, 3).Draw(rt, "gap") == 0
				if !gap {
					// a durable proposal can only be re-verified while all its rows are retained
					var ok []int
					for i, m := range c.chain {
						if len(c.rows) > 0 && m.BaseOffset+1 >= c.rows[0].Index {
							ok = append(ok, i)
						}
					}
					if len(ok) == 0 {
						rt.Skip("no complete proposal")
					}
					h.doReplayExact(ci, rapid.SampledFrom(ok).Draw(rt, "proposal"), false)
					return
				}
				h.doReplayExact(ci, 0, true)
			},
			"applyFollower": func(rt *rapid.T) {
				ci := pick(rt, false)
				recs := genRecs(rt, ci, false)
				hw := uint64(0)
				if rapid.Bool().Draw(rt, "withHW") {
					hw = uint64(rapid.IntRange(1, int(h.chans[ci].leo)+len(recs)+2).Draw(rt, "leaderHW"))
				}
				h.doApplyFollower(ci, recs, hw)
			},
			"adopt": func(rt *rapid.T) {
				ci := anyCh(rt)
				c := h.chans[ci]
				through := uint64(rapid.IntRange(1, int(c.leo)+1).Draw(rt, "through"))
				if through > c.leo && (c.exact || len(c.rows) > 0 || rapid.IntRange(0, 1).Draw(rt, "overshoot") != 0) {
					// a boundary beyond the log end moves the log end; on an
					// exact channel the next proposal would have no predecessor,
					// and with rows still retained below it the log gets a hole
					// that the memory test double cannot represent (it indexes
					// rows by position); the typed-API unit covers that case
					through = c.leo
				}
				if through == 0 {
					rt.Skip("empty log")
				}
				h.doAdopt(ci, through)
			},
			"trim": func(rt *rapid.T) {
				ci := anyCh(rt)
				c := h.chans[ci]
				through := uint64(rapid.IntRange(0, int(c.local)+1).Draw(rt, "through"))
				opts := RetentionTrimOptions{}
				if rapid.Bool().Draw(rt, "hasMaxMessages") {
					opts.MaxMessages = rapid.IntRange(1, 4).Draw(rt, "maxMessages")
				}
				if rapid.IntRange(0, 2).Draw(rt, "hasMaxBytes") == 0 {
					opts.MaxBytes = rapid.IntRange(1, 2*maxPay).Draw(rt, "maxBytes")
					if rapid.Bool().Draw(rt, "boundaryBudget") {
						opts.MaxBytes = boundary(rt, ci, 0, false, "trimBudget")
					}
				}
				h.doTrim(ci, through, opts)
			},
			"checkpoint": func(rt *rapid.T) {
				ci := anyCh(rt)
				h.doCheckpoint(ci, uint64(rapid.IntRange(0, int(h.chans[ci].leo)).Draw(rt, "hw")))
			},
			"closeStore": func(rt *rapid.T) {
				ci := anyCh(rt)
				h.store(ci)
				h.closeStore(ci)
			},
			"reopenFactory": func(rt *rapid.T) {
				if rapid.IntRange(0, 4).Draw(rt, "really") != 0 {
					for ci := range h.chans {
						h.closeStore(ci)
					}
					return
				}
				h.reopenFactory()
			},
			"reads": func(rt *rapid.T) {
				ci := anyCh(rt)
				limit, maxBytes := 0, 0
				if rapid.Bool().Draw(rt, "hasLimit") {
					limit = rapid.IntRange(1, 8).Draw(rt, "limit")
				}
				from, reverse := near(rt, ci, "from"), rapid.Bool().Draw(rt, "reverse")
				if rapid.Bool().Draw(rt, "hasMaxBytes") {
					maxBytes = rapid.IntRange(1, 2*maxPay).Draw(rt, "maxBytes")
					if rapid.Bool().Draw(rt, "boundaryBudget") {
						maxBytes = boundary(rt, ci, from, reverse, "budget")
					}
				}
				h.checkReadCommitted(ci, from, limit, maxBytes, reverse)
				lfrom := near(rt, ci, "lfrom")
				logBytes := rapid.IntRange(1, 4*maxPay).Draw(rt, "logBytes")
				if rapid.Bool().Draw(rt, "boundaryLogBudget") {
					logBytes = boundary(rt, ci, lfrom, false, "logBudget")
				}
				h.checkReadLog(ci, lfrom, near(rt, ci, "lmax"), logBytes)
			},
			"lookups": func(rt *rapid.T) {
				ci := anyCh(rt)
				c := h.chans[ci]
				if len(h.ever) > 0 {
					h.checkByID(ci, rapid.SampledFrom(h.ever).Draw(rt, "id"))
				}
				uid, no := rapid.SampledFrom(verifC07SUIDs).Draw(rt, "uid"), rapid.SampledFrom(verifC07SNos).Draw(rt, "no")
				if len(c.rows) > 0 && rapid.Bool().Draw(rt, "fromRow") {
					r := c.rows[rapid.IntRange(0, len(c.rows)-1).Draw(rt, "row")]
					uid, no = r.FromUID, r.ClientMsgNo
				}
				h.checkKey(ci, uid, no)
				h.checkSender(ci, uid, near(rt, ci, "through"))
				h.note("lookups(%d)", ci)
			},
			"": func(rt *rapid.T) {
				ci := anyCh(rt)
				h.checkLoad(ci)
				h.checkReadCommitted(ci, 0, 0, 0, false)
			},
		}
		rt.Repeat(actions)
		h.fullScan()

		k.Key("store", strings.Join(h.trace, ";"))
		k.SetNonTrivial(h.lookupAfterReload)
		k.LabelIf(h.lookupAfterReload, "adapter: removal → reload → index lookup (non-trivial)")
		k.LabelIf(h.nReopen > 0, "adapter: factory close+reopen")
		k.LabelIf(h.nReclaim > 0, "adapter: store lease closed and re-acquired")
		k.LabelIf(h.nTrim > 0, "adapter: trim removed rows")
		k.LabelIf(h.nExact > 0, "adapter: exact-base proposal appended")
		k.LabelIf(h.nReplay > 0, "adapter: durable proposal replayed (AlreadyDurable)")
		k.LabelIf(h.nFollow > 0, "adapter: follower apply")
		k.LabelIf(h.nRej > 0, "adapter: append rejected (conflict)")
		k.LabelIf(h.nAppendOK == 0, "adapter: no append accepted")
		k.Sample(func() any {
			t := h.trace
			if len(t) > 40 {
				t = t[:40]
			}
			return "store adapters: " + strings.Join(t, " ; ")
		})
	})
}
