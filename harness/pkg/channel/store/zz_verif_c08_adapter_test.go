package store

// C08 on the production path (adapter → compat ChannelStore): plain and
// exact-base leader appends, each in strict and allocator-issued-id mode, with
// keys drawn from a 5x5 pool so that retries of stored (sender, client number)
// pairs are frequent; the exact + allocator-issued combination is the
// "sequenced fresh" fast path that omits the proposal-index reads.
// Reuses the C07 adapter harness (file_tags: c07).

import (
	"context"
	"fmt"
	"strings"
	"testing"

	ch "github.com/WuKongIM/WuKongIM/pkg/channel"
	"pgregory.net/rapid"
	"verif.local/kit"
)

var (
	verifC08SSenders = []string{"a", "b", "c", "d", "ab"}
	verifC08SNumbers = []string{"1", "2", "3", "4", "12"}
)

func TestVerifC08AdapterUniqueKeys(t *testing.T) {
	env := verifC07SNewEnv(t)
	kit.Check(t, "C08", func(rt *rapid.T, k *kit.Case) {
		env.caseNo++
		h := &verifC07SH{rt: rt, env: env, ctx: context.Background(), mem: NewMemoryFactory(), ids: map[uint64]verifC07SLoc{}}
		defer h.closeAll()
		for i := 0; i < 2; i++ {
			id := ch.ChannelID{ID: fmt.Sprintf("vc08-%d-%d-%d", kit.Seed()%1000, env.caseNo, i), Type: 1}
			c := &verifC07SChan{id: id, key: ch.ChannelKeyForID(id), exact: i == 1, keys: map[[2]string]uint64{}}
			var err error
			if c.mem, err = h.mem.ChannelStore(c.key, id); err != nil {
				rt.Fatalf("VERIF-MACHINERY memory store: %v", err)
			}
			h.chans = append(h.chans, c)
		}
		var rejAfterReload, rejStored, rejInBatch, rejFastPath, acceptedAgain bool
		freed := map[int]map[[2]string]bool{0: {}, 1: {}}
		rec := func(rt *rapid.T, poolID bool) ch.Record {
			env.nextID++
			r := ch.Record{ID: env.nextID, ServerTimestampMS: 1 + int64(rapid.IntRange(0, 999).Draw(rt, "ts")),
				Payload: []byte{byte(rapid.IntRange(0, 255).Draw(rt, "payload"))}, SizeBytes: 1}
			switch rapid.IntRange(0, 9).Draw(rt, "keyKind") {
			case 0:
				r.ClientMsgNo = rapid.SampledFrom(verifC08SNumbers).Draw(rt, "no")
			case 1:
				r.FromUID = rapid.SampledFrom(verifC08SSenders).Draw(rt, "uid")
			default:
				r.FromUID = rapid.SampledFrom(verifC08SSenders).Draw(rt, "uid")
				r.ClientMsgNo = rapid.SampledFrom(verifC08SNumbers).Draw(rt, "no")
			}
			if poolID && len(h.ever) > 0 && rapid.IntRange(0, 5).Draw(rt, "oldID") == 0 {
				r.ID = rapid.SampledFrom(h.ever).Draw(rt, "id")
			}
			return r
		}
		batch := func(rt *rapid.T, poolID bool) []ch.Record {
			n := rapid.IntRange(1, 4).Draw(rt, "n")
			recs := make([]ch.Record, 0, n)
			for i := 0; i < n; i++ {
				r := rec(rt, poolID)
				if i > 0 && rapid.IntRange(0, 7).Draw(rt, "dupInBatch") == 0 {
					j := rapid.IntRange(0, i-1).Draw(rt, "dupOf")
					r.FromUID, r.ClientMsgNo = recs[j].FromUID, recs[j].ClientMsgNo
				}
				recs = append(recs, r)
			}
			return recs
		}
		validBatch := func(rt *rapid.T, ci int) []ch.Record {
			recs := batch(rt, false)
			for i := range recs {
				for {
					if ok, _ := h.acceptable(ci, recs[:i+1], true); ok {
						break
					}
					recs[i].ClientMsgNo = fmt.Sprintf("u%d", recs[i].ID)
				}
			}
			return recs
		}
		do := func(ci int, recs []ch.Record, server bool) {
			c := h.chans[ci]
			storedDup, batchDup, freedHit := false, false, false
			seen := map[[2]string]bool{}
			for _, r := range recs {
				kk := [2]string{r.FromUID, r.ClientMsgNo}
				if r.FromUID != "" && r.ClientMsgNo != "" {
					if _, live := c.keys[kk]; live {
						storedDup = true
					}
					if seen[kk] {
						batchDup = true
					}
					seen[kk] = true
					if freed[ci][kk] {
						freedHit = true
					}
				}
				if _, live := h.ids[r.ID]; live && !server {
					storedDup = true
				}
			}
			var accepted bool
			if c.exact {
				accepted = h.doAppendExact(ci, recs, 0, server)
			} else {
				accepted = h.doAppendPlain(ci, recs, server)
			}
			h.checkLoad(ci)
			for _, r := range recs {
				h.checkKey(ci, r.FromUID, r.ClientMsgNo)
				h.checkByID(0, r.ID)
				h.checkByID(1, r.ID)
			}
			if accepted {
				if freedHit {
					acceptedAgain = true
				}
				for _, r := range recs {
					delete(freed[ci], [2]string{r.FromUID, r.ClientMsgNo})
				}
				return
			}
			rejStored = rejStored || storedDup
			rejInBatch = rejInBatch || batchDup
			if storedDup && h.nReopen+h.nReclaim > 0 {
				rejAfterReload = true
			}
			if storedDup && c.exact && server {
				rejFastPath = true
			}
		}
		actions := map[string]func(*rapid.T){
			"appendPlain": func(rt *rapid.T) {
				server := rapid.Bool().Draw(rt, "serverIDs")
				do(0, batch(rt, !server), server)
			},
			"appendExact": func(rt *rapid.T) {
				server := rapid.Bool().Draw(rt, "serverIDs")
				do(1, batch(rt, !server), server)
			},
			"appendExactFast": func(rt *rapid.T) {
				do(1, batch(rt, false), true)
			},
			"applyFollower": func(rt *rapid.T) {
				h.doApplyFollower(0, validBatch(rt, 0), 0)
			},
			"trimHead": func(rt *rapid.T) {
				ci := rapid.IntRange(0, 1).Draw(rt, "ch")
				c := h.chans[ci]
				if len(c.rows) == 0 {
					rt.Skip("nothing to trim")
				}
				through := min(c.rows[0].Index+uint64(rapid.IntRange(0, 2).Draw(rt, "more")), c.leo)
				before := map[[2]string]bool{}
				for kk := range c.keys {
					before[kk] = true
				}
				h.doAdopt(ci, through)
				h.doTrim(ci, through, RetentionTrimOptions{})
				for kk := range before {
					if _, live := c.keys[kk]; !live {
						freed[ci][kk] = true
					}
				}
			},
			"closeStore": func(rt *rapid.T) {
				ci := rapid.IntRange(0, 1).Draw(rt, "ch")
				h.store(ci)
				h.closeStore(ci)
			},
			"reopenFactory": func(rt *rapid.T) {
				if rapid.IntRange(0, 3).Draw(rt, "really") != 0 {
					rt.Skip("not this time")
				}
				h.reopenFactory()
			},
			"": func(rt *rapid.T) {
				h.checkLoad(rapid.IntRange(0, 1).Draw(rt, "ch"))
			},
		}
		rt.Repeat(actions)
		// independent of the model's maps: every stored id / key occurs once
		ids := map[uint64]string{}
		for ci, c := range h.chans {
			got, err := h.store(ci).ReadCommitted(h.ctx, ReadCommittedRequest{FromSeq: 1})
			if err != nil {
				h.fail("final ReadCommitted(%q): %v", c.key, err)
			}
			keys := map[[2]string]uint64{}
			for _, m := range got.Messages {
				where := fmt.Sprintf("%q seq %d", c.key, m.MessageSeq)
				if prev, dup := ids[m.MessageID]; dup {
					h.fail("message id %d stored twice: %s and %s", m.MessageID, prev, where)
				}
				ids[m.MessageID] = where
				if m.FromUID == "" || m.ClientMsgNo == "" {
					continue
				}
				kk := [2]string{m.FromUID, m.ClientMsgNo}
				if prev, dup := keys[kk]; dup {
					h.fail("channel %q stores (sender %q, client number %q) twice: seq %d and %d", c.key, kk[0], kk[1], prev, m.MessageSeq)
				}
				keys[kk] = m.MessageSeq
			}
		}
		h.fullScan()

		k.Key("adapter", strings.Join(h.trace, ";"))
		k.SetNonTrivial(rejAfterReload)
		k.LabelIf(rejAfterReload, "adapter: stored duplicate rejected after store close / factory reopen (non-trivial)")
		k.LabelIf(rejStored, "adapter: duplicate of a stored key / id rejected")
		k.LabelIf(rejInBatch, "adapter: duplicate key inside one batch rejected")
		k.LabelIf(rejFastPath, "adapter: stored duplicate key rejected on the exact + allocator-id fast path")
		k.LabelIf(acceptedAgain, "adapter: key accepted again after its holder was trimmed")
		k.LabelIf(h.nReopen > 0, "adapter: factory close+reopen")
		k.Sample(func() any {
			t := h.trace
			if len(t) > 30 {
				t = t[:30]
			}
			return "adapter: " + strings.Join(t, " ; ")
		})
	})
}
