package service

import (
	"fmt"
	"os"
	"strings"
	"sync"
	"testing"
	"time"

	ch "github.com/WuKongIM/WuKongIM/pkg/channel"
	"github.com/WuKongIM/WuKongIM/pkg/channel/replication"
	"pgregory.net/rapid"
	"verif.local/kit"
)

type verifC01SvcWeights struct {
	appendOne, appendBatch, retry, deposed, failover, cleanFailover, bump, fence, staleMeta, staleRoute, staleExpected,
	crash, restart, isolate, cut, heal, drop, wait, tell, burst, loneTail, lostQuorum int
}

type verifC01SvcOpts struct {
	enabled map[string]bool
	weights verifC01SvcWeights
	steps   int
}

type verifC01SvcStats struct {
	acks, changesOK, changesFailed, staleRefused, staleExpectedRefused, fencedRefused, deposedRefused int
	nontrivialC01                                                                                    bool
}

var verifC01SvcFenceUntil = time.Unix(4102444800, 0).UTC()

// verifC01SvcRunCase builds the cluster, runs body, classifies the outcome
// and always closes every service, runtime and store of the case.
func verifC01SvcRunCase(rt *rapid.T, k *kit.Case, col *kit.Collector, prop string, cfg verifC01SvcConfig, body func(s *verifC01SvcSim)) {
	var cleanup func()
	if cfg.Pebble {
		cfg.Dir, cleanup = kit.TempDir()
	}
	t0 := time.Now()
	s := newVerifC01SvcSim(rt, cfg)
	t1 := time.Now()
	defer func() {
		t2 := time.Now()
		s.close()
		if cleanup != nil {
			cleanup()
		}
		col.AddExtra("service_sim_ms_setup", t1.Sub(t0).Milliseconds())
		col.AddExtra("service_sim_ms_script", t2.Sub(t1).Milliseconds())
		col.AddExtra("service_sim_ms_close", time.Since(t2).Milliseconds())
	}()
	func() {
		defer func() {
			r := recover()
			if r == nil {
				return
			}
			switch v := r.(type) {
			case verifC01SvcStuck:
				col.Inconclusive("service sim: " + v.why)
				k.SetNonTrivial(false)
				k.Label("inconclusive case (a call did not return; never a verdict)")
			case verifC01SvcViolation:
				if kit.KnownFinding(v.prop, v.signature) {
					k.Label("known finding reproduced: " + v.signature)
					return
				}
				path := kit.SaveReplay(prop, "service-sim-history", "txt", []byte(s.history()))
				rt.Fatalf("VERIF-VIOLATION %s [%s]: %s\nhistory saved to %s\n--- history ---\n%s", v.prop, v.signature, v.msg, path, s.history())
			default:
				panic(r)
			}
		}()
		body(s)
	}()
	for f := range s.flags {
		k.Label(f)
	}
	if dbg := os.Getenv("VERIF_C01SVC_DEBUG"); dbg != "" {
		for f := range s.flags {
			if strings.Contains(f, dbg) {
				fmt.Printf("==== VERIF_C01SVC_DEBUG flag %q ====\n%s\n", f, s.history())
				break
			}
		}
	}
}

func verifC01SvcDrawNode(rt *rapid.T, s *verifC01SvcSim, label string, pred func(*verifC01SvcNode) bool) *verifC01SvcNode {
	var cands []*verifC01SvcNode
	for _, n := range s.nodes {
		if pred(n) {
			cands = append(cands, n)
		}
	}
	if len(cands) == 0 {
		return nil
	}
	return cands[rapid.IntRange(0, len(cands)-1).Draw(rt, label)]
}

// verifC01SvcRunScript drives one generated script against the cluster.
func verifC01SvcRunScript(rt *rapid.T, k *kit.Case, s *verifC01SvcSim, o verifC01SvcOpts) verifC01SvcStats {
	var st verifC01SvcStats
	N, Q := s.cfg.N, s.cfg.Q
	s.serverIDs = rapid.IntRange(0, 2).Draw(rt, "serverAllocatedIDs") > 0
	if s.serverIDs {
		s.flags["appends carry the server-allocated message id proof"] = true
	}
	isolated := map[ch.NodeID]bool{}
	incarnation := map[ch.NodeID]int{}
	type attempt struct {
		node        ch.NodeID
		incarnation int
		under       string
	}
	firstAttempt := map[uint64]attempt{} // first message id of a group → where/under what it was first submitted

	outCount := func() int {
		out := 0
		for _, n := range s.nodes {
			if !s.isUp(n.id) || isolated[n.id] {
				out++
			}
		}
		return out
	}
	isolate := func(id ch.NodeID, dead bool) {
		for _, m := range s.nodes {
			if m.id != id {
				s.setCut(id, m.id, dead)
			}
		}
		if dead {
			isolated[id] = true
		} else {
			delete(isolated, id)
		}
	}
	// informedLeader: the node the control plane names as leader, if it is up
	// and was handed exactly that leadership.
	informedLeader := func(c int) *verifC01SvcNode {
		n := s.node(s.control[c].Leader)
		if !s.isUp(n.id) {
			return nil
		}
		kn, ok := n.known[c]
		if !ok || kn.Leader != n.id || verifC01SvcFenceOrder(kn, s.control[c]) != 0 {
			return nil
		}
		return n
	}
	// deliverJudged hands metadata to a node; when that makes the node a ready
	// leader through a real quorum install, the C01 ledger oracle runs on it.
	deliverJudged := func(id ch.NodeID, c int, m ch.Meta, when string) verifC01SvcDelivery {
		n := s.node(id)
		prev, had := n.known[c]
		cached := had && n.ready[c] && prev.Epoch == m.Epoch && prev.LeaderEpoch == m.LeaderEpoch && prev.RouteGeneration == m.RouteGeneration &&
			prev.Leader == m.Leader && prev.WriteFence == m.WriteFence
		// an older route generation of the leader epoch the node already holds:
		// the reactor answers from its last installed authority without a quorum
		// install, nothing becomes writable (the quorum log keeps the newer fence)
		olderRoute := had && verifC01SvcFenceOrder(m, prev) == 0 && m.RouteGeneration < prev.RouteGeneration
		reach := s.reachable(id)
		d := s.deliver(id, c, m)
		if d.stale {
			st.staleRefused++
		}
		if d.accepted && d.err == nil && m.Leader == id && !olderRoute {
			if cached {
				s.flags["re-delivery of the metadata a ready leader already holds (cached, not judged)"] = true
				return d
			}
			if len(reach) < Q {
				s.fail("C01", "leader-ready-without-quorum", "node %d became a ready leader of ch %d under %s while it could reach only %v (write quorum %d)", id, c, verifC01SvcMetaTag(m), reach, Q)
			}
			s.checkLedgerOnLeader(id, c, when)
		}
		return d
	}
	submit := func(n *verifC01SvcNode, c int, msgs []ch.Message, expEpoch, expLeader uint64) (int, error) {
		firstAttempt[msgs[0].MessageID] = attempt{node: n.id, incarnation: incarnation[n.id], under: verifC01SvcMetaTag(n.known[c])}
		acked, err := s.appendOn(n.id, c, msgs, expEpoch, expLeader)
		st.acks += acked
		if acked > 0 && len(s.reachable(n.id)) == Q {
			s.flags["acknowledged on a bare quorum"] = true
		}
		return acked, err
	}
	expectedOf := func(n *verifC01SvcNode, c int) (uint64, uint64) {
		switch rapid.IntRange(0, 2).Draw(rt, "expectedKind") {
		case 0:
			return 0, 0
		case 1:
			return n.known[c].Epoch, n.known[c].LeaderEpoch
		default:
			return 0, n.known[c].LeaderEpoch
		}
	}
	waitTrailing := func(max time.Duration) {
		if !s.cfg.Eager {
			return
		}
		deadline := time.Now().Add(max)
		for time.Now().Before(deadline) {
			same := true
			for c := 0; c < s.cfg.Channels && same; c++ {
				var leo uint64
				first := true
				for _, n := range s.nodes {
					if !s.isUp(n.id) || isolated[n.id] {
						continue
					}
					v := s.storeView(n.id, c)
					if v.err != nil {
						continue
					}
					if first {
						leo, first = v.leo, false
					} else if v.leo != leo {
						same = false
					}
				}
			}
			if same {
				return
			}
			time.Sleep(time.Millisecond)
		}
		s.flags["trailing replication did not converge within the wait (not judged)"] = true
	}
	doFailover := func(c int, target *verifC01SvcNode, best bool, epochBump bool) {
		if best {
			// as FailoverPlanner would: the reachable candidate with the highest committed/LEO
			cand, candKey := target, [2]uint64{}
			for _, n := range s.nodes {
				if !s.isUp(n.id) || isolated[n.id] {
					continue
				}
				v := s.storeView(n.id, c)
				if v.err != nil {
					continue
				}
				key := [2]uint64{v.hw, v.leo}
				if key[0] > candKey[0] || (key[0] == candKey[0] && key[1] > candKey[1]) {
					cand, candKey = n, key
				}
			}
			target = cand
		}
		old := s.control[c].Leader
		next := verifC01SvcCloneMeta(s.control[c])
		next.LeaderEpoch++
		next.RouteGeneration++
		if epochBump {
			next.Epoch++
		}
		next.Leader = target.id
		next.WriteFence = ch.WriteFence{}
		s.issue(c, next)
		reach := s.reachable(target.id)
		holderUnreachable := false
		if len(s.ledger[c]) > 0 && target.id != old {
			in := map[ch.NodeID]bool{}
			for _, id := range reach {
				in[id] = true
			}
			for _, n := range s.nodes {
				if in[n.id] {
					continue
				}
				if v := s.storeView(n.id, c); v.err == nil && v.leo > 0 {
					holderUnreachable = true
				}
			}
		}
		// who else learns it, and when
		var before, after []ch.NodeID
		for _, n := range s.nodes {
			if n.id == target.id || !s.isUp(n.id) {
				continue
			}
			switch rapid.IntRange(0, 4).Draw(rt, fmt.Sprintf("tell%d", n.id)) {
			case 0:
				before = append(before, n.id)
			case 1, 2:
				after = append(after, n.id)
			}
		}
		for _, id := range before {
			deliverJudged(id, c, next, "leader change (told before the new leader)")
		}
		d := deliverJudged(target.id, c, next, "after leader change")
		if d.err == nil && d.accepted {
			st.changesOK++
			if len(s.ledger[c]) > 0 && target.id != old && holderUnreachable {
				st.nontrivialC01 = true
				s.flags["leader changed to another node while a replica holding entries was unreachable"] = true
			}
			if !s.isUp(old) || isolated[old] {
				s.flags["old leader unreachable at the leader change"] = true
			}
		} else {
			st.changesFailed++
			if len(reach) >= Q {
				s.flags["leader change did not become ready although a quorum was reachable (availability, not judged): "+verifC01SvcErrClass(d.err)] = true
			}
		}
		for _, id := range after {
			deliverJudged(id, c, next, "leader change (told after the new leader)")
		}
	}

	// bring every channel up on node 1 with every node informed
	for c := 0; c < s.cfg.Channels; c++ {
		for _, id := range []ch.NodeID{1, 2, 3} {
			if int(id) > N {
				continue
			}
			d := deliverJudged(id, c, s.control[c], "initial")
			for again := 0; again < 3 && d.err != nil; again++ {
				d = deliverJudged(id, c, s.control[c], "initial (again)")
			}
			if d.err != nil {
				s.stuck("initial ApplyMeta failed", fmt.Sprintf("%v on node %d", d.err, id))
			}
		}
	}

	w := o.weights
	type action struct {
		name string
		w    int
	}
	actions := []action{{"append", w.appendOne}, {"batch", w.appendBatch}, {"retry", w.retry}, {"deposed", w.deposed}, {"failover", w.failover},
		{"cleanFailover", w.cleanFailover}, {"bump", w.bump}, {"fence", w.fence}, {"staleMeta", w.staleMeta}, {"staleRoute", w.staleRoute},
		{"staleExpected", w.staleExpected}, {"crash", w.crash}, {"restart", w.restart}, {"isolate", w.isolate}, {"cut", w.cut}, {"heal", w.heal},
		{"drop", w.drop}, {"wait", w.wait}, {"tell", w.tell}, {"burst", w.burst}, {"loneTail", w.loneTail}, {"lostQuorum", w.lostQuorum}}
	var bag []string
	for _, a := range actions {
		for i := 0; i < a.w; i++ {
			bag = append(bag, a.name)
		}
	}
	steps := rapid.IntRange(o.steps/3, o.steps).Draw(rt, "steps")
	// half of the scripts open with acknowledged appends followed by the loss
	// of the leader, so that short scripts reach the interesting region too
	var opening []string
	switch rapid.IntRange(0, 5).Draw(rt, "opening") {
	case 0, 1:
		opening = []string{"append", "batch", "cleanFailover"}
	case 2:
		opening = []string{"batch", "loneTail"}
	}
	for step := 0; step < steps; step++ {
		act := ""
		if step < len(opening) {
			act = opening[step]
		} else {
			act = rapid.SampledFrom(bag).Draw(rt, "action")
		}
		c := rapid.IntRange(0, s.cfg.Channels-1).Draw(rt, "channel")
		switch act {
		case "append", "batch":
			n := informedLeader(c)
			if n == nil {
				continue
			}
			count := 1
			if act == "batch" {
				count = rapid.IntRange(2, 4).Draw(rt, "batchSize")
			}
			e, le := expectedOf(n, c)
			msgs := s.newMessages(c, count, rapid.SliceOfN(rapid.Byte(), 0, 10).Draw(rt, "payload"))
			if acked, _ := submit(n, c, msgs, e, le); acked > 0 && n.holdsFence(c) {
				// unreachable: judgeAppend fails first
				continue
			} else if acked == 0 && n.holdsFence(c) {
				st.fencedRefused++
			}
		case "retry":
			// exact retry: the same messages, on the same incarnation of the same
			// node, while it still holds the metadata of the first attempt
			var cands []uint64
			for _, id := range s.order {
				m := s.msgs[id]
				if m.channel != c || m.group[0] != id {
					continue
				}
				fa, ok := firstAttempt[id]
				if !ok || !s.isUp(fa.node) || incarnation[fa.node] != fa.incarnation {
					continue
				}
				n := s.node(fa.node)
				if kn, ok := n.known[c]; !ok || verifC01SvcMetaTag(kn) != fa.under || kn.Leader != n.id {
					continue
				}
				if m.ambiguous || m.acked {
					cands = append(cands, id)
				}
			}
			if len(cands) == 0 {
				continue
			}
			// prefer appends whose outcome is still open
			var open []uint64
			for _, id := range cands {
				if !s.msgs[id].acked {
					open = append(open, id)
				}
			}
			if len(open) > 0 && rapid.IntRange(0, 3).Draw(rt, "retryOpen") > 0 {
				cands = open
			}
			id := cands[rapid.IntRange(0, len(cands)-1).Draw(rt, "retryOf")]
			m := s.msgs[id]
			msgs := make([]ch.Message, len(m.group))
			for i, gid := range m.group {
				msgs[i] = s.msgs[gid].msg
			}
			wasAcked := m.acked
			acked, _ := s.appendOn(firstAttempt[id].node, c, msgs, m.expEpoch, m.expLeader)
			if !wasAcked {
				st.acks += acked
				if acked > 0 {
					s.flags["ambiguous append acknowledged by an exact retry"] = true
				}
			} else if acked > 0 {
				s.flags["exact retry of an acknowledged append acknowledged again"] = true
			}
		case "lostQuorum":
			// every follower exchange of one append is lost (request, or response
			// after the follower made it durable): the caller sees a failure, the
			// exact retry must resolve it
			n := informedLeader(c)
			if n == nil {
				continue
			}
			for _, f := range s.nodes {
				if f.id != n.id {
					s.armDrop(f.id, replication.ExchangeReplicate, rapid.Bool().Draw(rt, "dropResponse"), 1)
				}
			}
			e, le := expectedOf(n, c)
			msgs := s.newMessages(c, rapid.IntRange(1, 2).Draw(rt, "nmsg"), []byte("lostq"))
			acked, _ := submit(n, c, msgs, e, le)
			s.clearDrops()
			if acked == 0 && s.msgs[msgs[0].MessageID].ambiguous {
				s.flags["append failed because every follower exchange was lost"] = true
				if rapid.Bool().Draw(rt, "retryNow") {
					if again, _ := s.appendOn(n.id, c, msgs, e, le); again > 0 {
						st.acks += again
						s.flags["ambiguous append acknowledged by an exact retry"] = true
					}
				}
			}
		case "deposed":
			n := verifC01SvcDrawNode(rt, s, "deposedNode", func(n *verifC01SvcNode) bool {
				kn, ok := n.known[c]
				return s.isUp(n.id) && ok && kn.Leader == n.id && verifC01SvcFenceOrder(kn, s.control[c]) < 0
			})
			if n == nil {
				continue
			}
			e, le := expectedOf(n, c)
			msgs := s.newMessages(c, rapid.IntRange(1, 2).Draw(rt, "nmsg"), []byte("deposed"))
			if acked, _ := submit(n, c, msgs, e, le); acked > 0 {
				s.flags["acknowledged by a leader the control plane already deposed (not yet informed)"] = true
			} else {
				st.deposedRefused++
			}
		case "failover":
			target := verifC01SvcDrawNode(rt, s, "failoverTarget", func(n *verifC01SvcNode) bool { return s.isUp(n.id) })
			if target == nil {
				continue
			}
			doFailover(c, target, rapid.IntRange(0, 2).Draw(rt, "bestTarget") > 0, rapid.IntRange(0, 5).Draw(rt, "epochBump") == 0)
		case "cleanFailover":
			waitTrailing(300 * time.Millisecond)
			victim := s.control[c].Leader
			if s.isUp(victim) && !isolated[victim] && outCount() < N-Q {
				if rapid.Bool().Draw(rt, "victimCrash") {
					s.crash(victim)
					incarnation[victim]++
					s.flags["crash"] = true
				} else {
					isolate(victim, true)
					s.flags["node isolated"] = true
				}
			}
			target := verifC01SvcDrawNode(rt, s, "failoverTarget", func(n *verifC01SvcNode) bool { return s.isUp(n.id) && !isolated[n.id] && n.id != victim })
			if target == nil {
				continue
			}
			doFailover(c, target, rapid.IntRange(0, 3).Draw(rt, "bestTarget") > 0, false)
		case "loneTail":
			// the leader is cut off and keeps appending (nothing can be
			// acknowledged), leadership moves, the new leader appends, the old
			// leader comes back: its lone tail must never be visible as committed
			L := informedLeader(c)
			if L == nil || isolated[L.id] || outCount() >= N-Q || N < 3 {
				continue
			}
			isolate(L.id, true)
			s.flags["node isolated"] = true
			for i := rapid.IntRange(1, 2).Draw(rt, "tailAppends"); i > 0; i-- {
				submit(L, c, s.newMessages(c, rapid.IntRange(1, 2).Draw(rt, "nmsg"), []byte("lone")), 0, 0)
			}
			s.probeCommittedReads(4)
			target := verifC01SvcDrawNode(rt, s, "failoverTarget", func(n *verifC01SvcNode) bool { return s.isUp(n.id) && !isolated[n.id] && n.id != L.id })
			if target == nil {
				continue
			}
			doFailover(c, target, rapid.IntRange(0, 2).Draw(rt, "bestTarget") > 0, false)
			if nl := informedLeader(c); nl != nil && nl.ready[c] {
				for i := rapid.IntRange(1, 2).Draw(rt, "newLeaderAppends"); i > 0; i-- {
					submit(nl, c, s.newMessages(c, rapid.IntRange(1, 2).Draw(rt, "nmsg"), []byte("new")), 0, 0)
				}
			}
			isolate(L.id, false)
			s.flags["old leader rejoined with an unacknowledged tail"] = true
		case "bump":
			// re-election of the same leader under the next leader epoch
			n := s.node(s.control[c].Leader)
			if !s.isUp(n.id) {
				continue
			}
			next := verifC01SvcCloneMeta(s.control[c])
			next.LeaderEpoch++
			next.RouteGeneration++
			next.WriteFence = ch.WriteFence{}
			s.issue(c, next)
			if d := deliverJudged(n.id, c, next, "after same-leader epoch bump"); d.err == nil && d.accepted {
				st.changesOK++
			} else {
				st.changesFailed++
			}
		case "fence":
			n := informedLeader(c)
			if n == nil {
				continue
			}
			preFence := verifC01SvcCloneMeta(s.control[c])
			a := verifC01SvcCloneMeta(s.control[c])
			a.RouteGeneration++
			s.fenceVer[c]++
			a.WriteFence = ch.WriteFence{Token: fmt.Sprintf("tok%d", s.fenceVer[c]), Version: s.fenceVer[c], Reason: ch.WriteFenceReasonLeaderTransfer, Until: verifC01SvcFenceUntil}
			s.issue(c, a)
			d := deliverJudged(n.id, c, a, "write fence")
			if !d.accepted {
				continue
			}
			s.flags["write fence handed to the leader"] = true
			for i := rapid.IntRange(1, 2).Draw(rt, "fencedAppends"); i > 0; i-- {
				e, le := expectedOf(n, c)
				if acked, _ := submit(n, c, s.newMessages(c, 1, []byte("fenced")), e, le); acked == 0 {
					st.fencedRefused++
				}
			}
			if rapid.IntRange(0, 2).Draw(rt, "preFenceRouteArrivesLate") == 0 {
				// the route generation from before the fence arrives late: whatever
				// the node does with it, the fence it already holds keeps binding
				deliverJudged(n.id, c, preFence, "pre-fence route generation arriving late")
				e, le := expectedOf(n, c)
				if acked, _ := submit(n, c, s.newMessages(c, 1, []byte("fencedLate")), e, le); acked == 0 {
					st.fencedRefused++
				}
				s.flags["pre-fence route generation re-delivered to a fenced leader"] = true
			}
			switch rapid.IntRange(0, 3).Draw(rt, "clearFence") {
			case 0:
				// stays fenced
			case 1:
				b := verifC01SvcCloneMeta(a)
				b.RouteGeneration++
				b.WriteFence = ch.WriteFence{}
				s.issue(c, b)
				if d := deliverJudged(n.id, c, b, "write fence cleared (route generation only)"); d.err == nil {
					s.flags["write fence cleared under the same leader epoch and the leader became ready"] = true
				}
			case 2:
				b := verifC01SvcCloneMeta(a)
				b.RouteGeneration++
				b.LeaderEpoch++
				b.WriteFence = ch.WriteFence{}
				s.issue(c, b)
				if d := deliverJudged(n.id, c, b, "write fence cleared with a leader epoch bump"); d.err == nil {
					st.changesOK++
					s.flags["write fence cleared with a leader epoch bump"] = true
				}
			case 3:
				target := verifC01SvcDrawNode(rt, s, "transferTarget", func(m *verifC01SvcNode) bool { return s.isUp(m.id) && !isolated[m.id] && m.id != n.id })
				if target != nil {
					doFailover(c, target, false, false)
					s.flags["leader transfer after a write fence"] = true
				}
			}
		case "staleMeta":
			n := verifC01SvcDrawNode(rt, s, "staleNode", func(n *verifC01SvcNode) bool {
				_, ok := n.known[c]
				return s.isUp(n.id) && ok
			})
			if n == nil {
				continue
			}
			kn := n.known[c]
			if rapid.Bool().Draw(rt, "sameEpochSwitch") && N > 1 {
				// fabricated: same (epoch, leader epoch), another leader, newer-looking route generation
				bad := verifC01SvcCloneMeta(kn)
				bad.Leader = ch.NodeID(int(kn.Leader)%N + 1)
				bad.RouteGeneration = s.control[c].RouteGeneration + uint64(rapid.IntRange(0, 2).Draw(rt, "rgSkew"))
				bad.WriteFence = ch.WriteFence{}
				deliverJudged(n.id, c, bad, "same-epoch leader switch")
			} else {
				var older []ch.Meta
				for _, m := range s.issued[c] {
					if verifC01SvcFenceOrder(m, kn) < 0 {
						older = append(older, m)
					}
				}
				if len(older) == 0 {
					continue
				}
				deliverJudged(n.id, c, older[rapid.IntRange(0, len(older)-1).Draw(rt, "olderMeta")], "stale metadata")
			}
		case "staleRoute":
			// an older route generation of the same leader epoch arrives late
			n := verifC01SvcDrawNode(rt, s, "staleRouteNode", func(n *verifC01SvcNode) bool {
				_, ok := n.known[c]
				return s.isUp(n.id) && ok
			})
			if n == nil {
				continue
			}
			kn := n.known[c]
			var older []ch.Meta
			for _, m := range s.issued[c] {
				if verifC01SvcFenceOrder(m, kn) == 0 && m.Leader == kn.Leader && m.RouteGeneration < kn.RouteGeneration {
					older = append(older, m)
				}
			}
			if len(older) == 0 {
				continue
			}
			deliverJudged(n.id, c, older[rapid.IntRange(0, len(older)-1).Draw(rt, "olderRoute")], "older route generation")
			if kn.Leader == n.id {
				e, le := expectedOf(n, c)
				if acked, _ := submit(n, c, s.newMessages(c, 1, []byte("afterStaleRoute")), e, le); acked == 0 && n.holdsFence(c) {
					st.fencedRefused++
				}
			}
		case "staleExpected":
			n := informedLeader(c)
			if n == nil {
				continue
			}
			kn := n.known[c]
			type pair struct{ e, le uint64 }
			var older []pair
			for _, m := range s.issued[c] {
				if verifC01SvcFenceOrder(m, kn) < 0 {
					older = append(older, pair{m.Epoch, m.LeaderEpoch})
				}
			}
			if len(older) == 0 {
				continue
			}
			p := older[rapid.IntRange(0, len(older)-1).Draw(rt, "olderExpected")]
			e, le := p.e, p.le
			switch rapid.IntRange(0, 2).Draw(rt, "expectedShape") {
			case 1:
				if p.le != kn.LeaderEpoch {
					e = 0
				}
			case 2:
				if p.e != kn.Epoch {
					le = 0
				}
			}
			if acked, _ := submit(n, c, s.newMessages(c, 1, []byte("staleExpected")), e, le); acked == 0 {
				st.staleExpectedRefused++
				s.flags["append with an older expected epoch refused"] = true
			}
		case "crash":
			n := verifC01SvcDrawNode(rt, s, "crashNode", func(n *verifC01SvcNode) bool { return s.isUp(n.id) })
			if n == nil || outCount() >= N-Q {
				continue
			}
			s.crash(n.id)
			incarnation[n.id]++
			s.flags["crash"] = true
		case "restart":
			n := verifC01SvcDrawNode(rt, s, "restartNode", func(n *verifC01SvcNode) bool { return !s.isUp(n.id) })
			if n == nil {
				continue
			}
			s.restart(n.id)
			s.flags["restart"] = true
			for cc := 0; cc < s.cfg.Channels; cc++ {
				if d := deliverJudged(n.id, cc, s.control[cc], "after restart"); d.err == nil && s.control[cc].Leader == n.id {
					s.flags["restarted leader became ready again"] = true
				}
			}
		case "isolate":
			n := verifC01SvcDrawNode(rt, s, "isoNode", func(n *verifC01SvcNode) bool { return s.isUp(n.id) && !isolated[n.id] })
			if n == nil || outCount() >= N-Q {
				continue
			}
			isolate(n.id, true)
			s.flags["node isolated"] = true
		case "cut":
			if N < 3 {
				continue
			}
			a := rapid.IntRange(1, N).Draw(rt, "cutA")
			b := rapid.IntRange(1, N).Draw(rt, "cutB")
			if a == b {
				continue
			}
			s.setCut(ch.NodeID(a), ch.NodeID(b), true)
			s.flags["single link cut"] = true
		case "heal":
			s.healAll()
			isolated = map[ch.NodeID]bool{}
			if rapid.Bool().Draw(rt, "healRestarts") {
				for _, n := range s.nodes {
					if s.isUp(n.id) {
						continue
					}
					s.restart(n.id)
					s.flags["restart"] = true
					for cc := 0; cc < s.cfg.Channels; cc++ {
						if d := deliverJudged(n.id, cc, s.control[cc], "after restart"); d.err == nil && s.control[cc].Leader == n.id {
							s.flags["restarted leader became ready again"] = true
						}
					}
				}
			}
		case "drop":
			target := rapid.IntRange(1, N).Draw(rt, "dropTarget")
			kind := rapid.SampledFrom([]replication.ExchangeKind{replication.ExchangeReplicate, replication.ExchangeReplicate, replication.ExchangeProbe, replication.ExchangeFetch}).Draw(rt, "dropKind")
			resp := rapid.Bool().Draw(rt, "dropResponse")
			s.armDrop(ch.NodeID(target), kind, resp, rapid.IntRange(1, 2).Draw(rt, "dropCount"))
			if resp && kind == replication.ExchangeReplicate {
				s.flags["follower durable but response lost"] = true
			}
		case "wait":
			waitTrailing(400 * time.Millisecond)
		case "tell":
			n := verifC01SvcDrawNode(rt, s, "tellNode", func(n *verifC01SvcNode) bool {
				kn, ok := n.known[c]
				return s.isUp(n.id) && (!ok || kn.RouteGeneration < s.control[c].RouteGeneration)
			})
			if n == nil {
				continue
			}
			deliverJudged(n.id, c, s.control[c], "late delivery of the current metadata")
		case "burst":
			// k appends in flight on the leader while it is handed the next
			// metadata (deposal, fence or re-election); afterwards one more append
			n := informedLeader(c)
			if n == nil || n.svc == nil {
				continue
			}
			workers := rapid.IntRange(2, 4).Draw(rt, "burstWorkers")
			calls := make([]verifC01SvcAppendCall, workers)
			outs := make([]verifC01SvcAppendOutcome, workers)
			for i := range calls {
				e, le := expectedOf(n, c)
				msgs := s.newMessages(c, rapid.IntRange(1, 2).Draw(rt, "nmsg"), []byte("burst"))
				firstAttempt[msgs[0].MessageID] = attempt{node: n.id, incarnation: incarnation[n.id], under: verifC01SvcMetaTag(n.known[c])}
				calls[i] = s.prepareAppend(n.id, c, msgs, e, le)
			}
			kind := rapid.IntRange(0, 4).Draw(rt, "burstMeta")
			if kind == 4 && outCount() >= N-Q {
				kind = 0
			}
			delay := time.Duration(rapid.IntRange(0, 3).Draw(rt, "burstDelay")) * 300 * time.Microsecond
			svc := n.svc
			var wg sync.WaitGroup
			for i := range calls {
				wg.Add(1)
				go func(i int) {
					defer wg.Done()
					outs[i] = s.runAppend(svc, calls[i])
				}(i)
			}
			var target *verifC01SvcNode
			var next ch.Meta
			switch kind {
			case 1: // deposal: the leader learns that another node leads
				target = verifC01SvcDrawNode(rt, s, "burstTarget", func(m *verifC01SvcNode) bool { return s.isUp(m.id) && m.id != n.id })
				if target != nil {
					next = verifC01SvcCloneMeta(s.control[c])
					next.LeaderEpoch++
					next.RouteGeneration++
					next.Leader = target.id
					next.WriteFence = ch.WriteFence{}
				}
			case 2: // fence
				next = verifC01SvcCloneMeta(s.control[c])
				next.RouteGeneration++
				s.fenceVer[c]++
				next.WriteFence = ch.WriteFence{Token: fmt.Sprintf("tok%d", s.fenceVer[c]), Version: s.fenceVer[c], Reason: ch.WriteFenceReasonLeaderTransfer, Until: verifC01SvcFenceUntil}
			case 3: // re-election
				next = verifC01SvcCloneMeta(s.control[c])
				next.LeaderEpoch++
				next.RouteGeneration++
				next.WriteFence = ch.WriteFence{}
			}
			if kind == 4 {
				// the leader process dies while appends are in flight: whatever was
				// acknowledged before the process went away must survive
				time.Sleep(delay)
				s.crash(n.id)
				incarnation[n.id]++
				s.flags["crash"] = true
				s.flags["leader crashed with appends in flight"] = true
			}
			raced := next.RouteGeneration != 0
			if raced {
				time.Sleep(delay)
				s.issue(c, next)
				deliverJudgedRacing := s.deliver(n.id, c, next) // judged below, after the appends joined
				_ = deliverJudgedRacing
			}
			wg.Wait()
			for i := range calls {
				st.acks += s.judgeAppend(calls[i], outs[i])
			}
			s.flags["concurrent appends on one leader"] = true
			if raced {
				s.flags["metadata change raced in-flight appends"] = true
				// the append that starts after ApplyMeta returned is judged against the new view
				e, le := expectedOf(n, c)
				acked, _ := submit(n, c, s.newMessages(c, 1, []byte("afterRace")), e, le)
				if acked == 0 && (n.holdsFence(c) || n.known[c].Leader != n.id) {
					st.fencedRefused++
				}
				if kind == 3 && n.ready[c] {
					s.checkLedgerOnLeader(n.id, c, "after re-election raced by appends")
				}
				if target != nil {
					if d := deliverJudged(target.id, c, next, "after leader change raced by appends"); d.err == nil && d.accepted {
						st.changesOK++
					} else {
						st.changesFailed++
					}
				}
			}
		}
		if o.enabled["C02"] || o.enabled["C01"] {
			s.checkReplicas()
		}
		if o.enabled["C02"] {
			s.probeCommittedReads(3)
		}
	}

	// epilogue: heal, bring everything back, hand every node the current
	// metadata, elect a final leader under the next leader epoch.
	s.healAll()
	isolated = map[ch.NodeID]bool{}
	for _, n := range s.nodes {
		if !s.isUp(n.id) {
			s.restart(n.id)
			incarnation[n.id]++
		}
	}
	for c := 0; c < s.cfg.Channels; c++ {
		ready := false
		for try := 0; try < 2 && !ready; try++ {
			final := verifC01SvcCloneMeta(s.control[c])
			final.LeaderEpoch++
			final.RouteGeneration++
			final.WriteFence = ch.WriteFence{}
			final.Leader = ch.NodeID(rapid.IntRange(1, N).Draw(rt, "finalLeader"))
			s.issue(c, final)
			d := deliverJudged(final.Leader, c, final, "final leader on the healed cluster")
			for _, n := range s.nodes {
				if n.id != final.Leader {
					deliverJudged(n.id, c, final, "final metadata")
				}
			}
			ready = d.err == nil && d.accepted
			// followers that diverged or lag are repaired in the background by
			// the leader's runtime: hand the same metadata again a bounded number
			// of times (a wait, never a verdict)
			for again := 0; again < 10 && !ready; again++ {
				time.Sleep(10 * time.Millisecond)
				d = deliverJudged(final.Leader, c, final, "final leader on the healed cluster (re-delivered)")
				ready = d.err == nil && d.accepted
				if ready {
					s.flags["final leader became ready only after background follower repair"] = true
				}
			}
		}
		if !ready {
			s.flags["final leader on the healed cluster did NOT become ready (availability, not judged)"] = true
			continue
		}
		st.changesOK++
		s.flags["final leader on the healed cluster became ready"] = true
		if n := informedLeader(c); n != nil {
			if acked, err := submit(n, c, s.newMessages(c, 1, []byte("fin")), 0, 0); acked == 0 {
				s.flags["final append on the healed cluster failed (availability, not judged): "+fmt.Sprint(err)] = true
			}
		}
	}
	waitTrailing(500 * time.Millisecond)
	s.checkReplicas()
	if o.enabled["C02"] {
		s.probeCommittedReads(16)
	}
	s.finalLedgerCheck()
	k.Key(strings.Join(s.hist, "|"))
	k.Sample(func() any {
		h := s.hist
		if len(h) > 40 {
			h = append(append([]string{}, h[:32]...), fmt.Sprintf("… %d more lines …", len(s.hist)-32))
		}
		return map[string]any{"N": N, "Q": Q, "channels": s.cfg.Channels, "eager": s.cfg.Eager, "pebble": s.cfg.Pebble, "acks": st.acks, "leader_changes_ready": st.changesOK,
			"leader_changes_failed": st.changesFailed, "history": h}
	})
	return st
}

func verifC01SvcErrClass(err error) string {
	if err == nil {
		return "nil"
	}
	msg := err.Error()
	if i := strings.Index(msg, ": expected"); i > 0 {
		msg = msg[:i]
	}
	if len(msg) > 60 {
		msg = msg[:60]
	}
	return msg
}

func verifC01SvcDrawConfig(rt *rapid.T) verifC01SvcConfig {
	return verifC01SvcConfig{N: 3, Q: 2, Channels: rapid.IntRange(1, 2).Draw(rt, "channels"),
		Pebble:   kit.Thorough() && rapid.IntRange(0, 4).Draw(rt, "pebble") == 0,
		Eager:    rapid.Bool().Draw(rt, "eagerTimers"),
		Reactors: rapid.IntRange(1, 2).Draw(rt, "reactors")}
}

func verifC01SvcLabels(k *kit.Case, cfg verifC01SvcConfig, st verifC01SvcStats) {
	k.LabelIf(st.acks > 0, "≥1 acknowledged append")
	k.LabelIf(st.changesOK > 0, "≥1 leader change became ready")
	k.LabelIf(st.changesFailed > 0, "≥1 leader change did not become ready")
	k.LabelIf(cfg.Pebble, "pebble stores")
	k.LabelIf(cfg.Eager, "eager trailing replication (real small timers)")
	k.LabelIf(!cfg.Eager, "lazy trailing replication (entries stay on the acknowledging quorum)")
}

// TestVerifC01ServiceFailover: acknowledged appends (AppendResult) survive
// leader changes, crashes and outages, end to end through the channel service.
func TestVerifC01ServiceFailover(t *testing.T) {
	col := kit.For(t, "C01")
	kit.Check(t, "C01", func(rt *rapid.T, k *kit.Case) {
		cfg := verifC01SvcDrawConfig(rt)
		verifC01SvcRunCase(rt, k, col, "C01", cfg, func(s *verifC01SvcSim) {
			s.enabledOnly(map[string]bool{"C01": true})
			w := verifC01SvcWeights{appendOne: 10, appendBatch: 4, retry: 2, deposed: 3, failover: 6, cleanFailover: 7, bump: 1, fence: 1, staleMeta: 1, staleRoute: 1,
				staleExpected: 1, crash: 3, restart: 5, isolate: 3, cut: 2, heal: 2, drop: 3, wait: 2, tell: 2, burst: 2, loneTail: 3, lostQuorum: 3}
			st := verifC01SvcRunScript(rt, k, s, verifC01SvcOpts{enabled: map[string]bool{"C01": true}, weights: w, steps: kit.Scale("C01SVCSTEPS", 24, 40)})
			k.SetNonTrivial(st.nontrivialC01 && s.flags["ledger checked on a ready leader"])
			verifC01SvcLabels(k, cfg, st)
		})
	})
}

// TestVerifC02ServiceReplicas: replicas agree on committed offsets and the
// committed-read API never shows something that is later replaced.
func TestVerifC02ServiceReplicas(t *testing.T) {
	col := kit.For(t, "C02")
	kit.Check(t, "C02", func(rt *rapid.T, k *kit.Case) {
		cfg := verifC01SvcDrawConfig(rt)
		verifC01SvcRunCase(rt, k, col, "C02", cfg, func(s *verifC01SvcSim) {
			s.enabledOnly(map[string]bool{"C02": true})
			w := verifC01SvcWeights{appendOne: 10, appendBatch: 4, retry: 2, deposed: 3, failover: 4, cleanFailover: 3, bump: 1, fence: 1, staleMeta: 0, staleRoute: 1,
				staleExpected: 0, crash: 2, restart: 4, isolate: 3, cut: 3, heal: 3, drop: 5, wait: 2, tell: 2, burst: 2, loneTail: 6, lostQuorum: 3}
			st := verifC01SvcRunScript(rt, k, s, verifC01SvcOpts{enabled: map[string]bool{"C02": true}, weights: w, steps: kit.Scale("C02SVCSTEPS", 24, 40)})
			k.SetNonTrivial(s.flags["replicas with different log ends at a check"] && s.flags["committed-read observation recorded"])
			verifC01SvcLabels(k, cfg, st)
		})
	})
}

// TestVerifC04ServiceAuthority: stale metadata is refused, deposed (informed)
// and fenced leaders acknowledge nothing, appends with older expected epochs
// are refused.
func TestVerifC04ServiceAuthority(t *testing.T) {
	col := kit.For(t, "C04")
	kit.Check(t, "C04", func(rt *rapid.T, k *kit.Case) {
		cfg := verifC01SvcDrawConfig(rt)
		verifC01SvcRunCase(rt, k, col, "C04", cfg, func(s *verifC01SvcSim) {
			s.enabledOnly(map[string]bool{"C04": true})
			w := verifC01SvcWeights{appendOne: 8, appendBatch: 2, retry: 1, deposed: 4, failover: 6, cleanFailover: 1, bump: 2, fence: 5, staleMeta: 6, staleRoute: 4,
				staleExpected: 5, crash: 1, restart: 2, isolate: 1, cut: 1, heal: 2, drop: 1, wait: 1, tell: 3, burst: 4, loneTail: 1, lostQuorum: 1}
			st := verifC01SvcRunScript(rt, k, s, verifC01SvcOpts{enabled: map[string]bool{"C04": true}, weights: w, steps: kit.Scale("C04SVCSTEPS", 24, 40)})
			k.SetNonTrivial(st.staleRefused > 0 || st.staleExpectedRefused > 0 || st.fencedRefused > 0)
			k.LabelIf(st.staleRefused > 0, "stale metadata refused")
			k.LabelIf(st.staleExpectedRefused > 0, "append with older expected epoch refused")
			k.LabelIf(st.fencedRefused > 0, "append refused on a fenced or informed-deposed leader")
			k.LabelIf(st.deposedRefused > 0, "append refused on a not yet informed deposed leader")
			verifC01SvcLabels(k, cfg, st)
		})
	})
}
