package service

// Service-level tier of the Group A checks (C01, C02, C04), see
// /verif/DESIGN.md §4 Group A: every node is composed the way
// pkg/cluster/node_defaults.go composes it in production — a channel service
// (reactor group + machine) whose QuorumLog is the Log() of a real replication
// Runtime over a StoreAdapter on the same store factory — and the nodes are
// wired by a harness PeerLink that the generated script controls (cuts,
// isolation, one-shot request/response drops, crash, restart). Appends go
// through the public AppendBatch API, authority changes through ApplyMeta.
//
// The harness never judges by the wall clock: a call that does not return in
// time is "ambiguous" (appends) or makes the whole case inconclusive.

import (
	"context"
	"errors"
	"fmt"
	"sort"
	"strings"
	"sync"
	"time"

	ch "github.com/WuKongIM/WuKongIM/pkg/channel"
	"github.com/WuKongIM/WuKongIM/pkg/channel/replication"
	channelstore "github.com/WuKongIM/WuKongIM/pkg/channel/store"
	goruntimeregistry "github.com/WuKongIM/WuKongIM/pkg/goroutine"
)

var errVerifC01SvcLink = errors.New("verif service sim: link failure")

type verifC01SvcFataler interface {
	Fatalf(format string, args ...any)
}

type verifC01SvcConfig struct {
	N, Q     int
	Channels int
	Pebble   bool
	Dir      string
	// Eager: small real hedge/trailing-flush timers, so replicas outside the
	// acknowledging quorum converge in the background. Otherwise those timers
	// are an hour: an entry stays on exactly the acknowledging quorum until a
	// recovery or a follower repair moves it.
	Eager    bool
	Reactors int
}

// verifC01SvcViolation carries a classified oracle violation out of the sim.
type verifC01SvcViolation struct {
	prop      string
	signature string
	msg       string
}

// verifC01SvcStuck aborts a case that cannot be judged (a call did not
// return within the harness watchdog). Never a verdict.
type verifC01SvcStuck struct{ why string }

type verifC01SvcNode struct {
	id      ch.NodeID
	factory channelstore.Factory
	rt      *replication.Runtime
	svc     ch.Cluster
	up      bool
	// known: the newest metadata (by epoch, leader epoch, then route
	// generation) this incarnation of the node was handed and did not refuse
	// as stale. Reset by a crash.
	known map[int]ch.Meta
	// ready: the last ApplyMeta of known returned nil.
	ready map[int]bool
}

type verifC01SvcAck struct {
	seq     uint64
	msgID   uint64
	payload string
	node    ch.NodeID
	under   string
}

type verifC01SvcObservation struct {
	msgID   uint64
	payload string
	node    ch.NodeID
	how     string
}

type verifC01SvcMessage struct {
	channel   int
	msg       ch.Message
	acked     bool
	ambiguous bool // some attempt ended without a definite refusal before admission
	node      ch.NodeID
	expEpoch  uint64
	expLeader uint64
	serverIDs bool
	group     []uint64 // message ids submitted together (one AppendBatch)
}

type verifC01SvcLinkKey struct {
	target ch.NodeID
	kind   replication.ExchangeKind
}

type verifC01SvcSim struct {
	t   verifC01SvcFataler
	cfg verifC01SvcConfig

	nodes []*verifC01SvcNode

	mu        sync.Mutex
	cut       map[[2]ch.NodeID]bool
	dropReq   map[verifC01SvcLinkKey]int
	dropResp  map[verifC01SvcLinkKey]int
	delivered map[replication.ExchangeKind]int

	hist []string

	control  []ch.Meta   // per channel: the control plane's current metadata
	issued   [][]ch.Meta // per channel: every metadata version ever issued
	fenceVer []uint64

	ledger   []map[uint64]*verifC01SvcAck          // per channel: acknowledged seq → ack
	byMsg    []map[uint64]*verifC01SvcAck          // per channel: message id → ack
	observed []map[uint64]verifC01SvcObservation   // per channel: seq → first committed-read observation
	hwSeen   []map[ch.NodeID]uint64                // per channel per node: highest committed watermark read from the store
	msgs     map[uint64]*verifC01SvcMessage
	order    []uint64 // message ids in submission order

	nextMsgID uint64
	serverIDs bool

	flags   map[string]bool
	enabled map[string]bool
}

func verifC01SvcChannelID(c int) ch.ChannelID { return ch.ChannelID{ID: fmt.Sprintf("vs%d", c), Type: 2} }
func verifC01SvcChannelKey(c int) ch.ChannelKey {
	return ch.ChannelKeyForID(verifC01SvcChannelID(c))
}

func newVerifC01SvcSim(t verifC01SvcFataler, cfg verifC01SvcConfig) *verifC01SvcSim {
	s := &verifC01SvcSim{t: t, cfg: cfg, cut: map[[2]ch.NodeID]bool{}, dropReq: map[verifC01SvcLinkKey]int{}, dropResp: map[verifC01SvcLinkKey]int{},
		delivered: map[replication.ExchangeKind]int{}, msgs: map[uint64]*verifC01SvcMessage{}, nextMsgID: 1000, flags: map[string]bool{}}
	for i := 1; i <= cfg.N; i++ {
		n := &verifC01SvcNode{id: ch.NodeID(i), known: map[int]ch.Meta{}, ready: map[int]bool{}}
		s.nodes = append(s.nodes, n)
		s.openFactory(n)
		s.startNode(n)
	}
	voters := make([]ch.NodeID, cfg.N)
	for i := range voters {
		voters[i] = ch.NodeID(i + 1)
	}
	for c := 0; c < cfg.Channels; c++ {
		m := ch.Meta{Key: verifC01SvcChannelKey(c), ID: verifC01SvcChannelID(c), Epoch: 1, LeaderEpoch: 1, RouteGeneration: 1, Leader: 1,
			Replicas: voters, ISR: voters, MinISR: cfg.Q, Status: ch.StatusActive}
		s.control = append(s.control, m)
		s.issued = append(s.issued, []ch.Meta{verifC01SvcCloneMeta(m)})
		s.fenceVer = append(s.fenceVer, 0)
		s.ledger = append(s.ledger, map[uint64]*verifC01SvcAck{})
		s.byMsg = append(s.byMsg, map[uint64]*verifC01SvcAck{})
		s.observed = append(s.observed, map[uint64]verifC01SvcObservation{})
		s.hwSeen = append(s.hwSeen, map[ch.NodeID]uint64{})
	}
	return s
}

func verifC01SvcCloneMeta(m ch.Meta) ch.Meta {
	m.Replicas = append([]ch.NodeID(nil), m.Replicas...)
	m.ISR = append([]ch.NodeID(nil), m.ISR...)
	return m
}

func verifC01SvcMetaTag(m ch.Meta) string {
	return fmt.Sprintf("e%d/le%d/rg%d/L%d/fence=%v", m.Epoch, m.LeaderEpoch, m.RouteGeneration, m.Leader, m.WriteFence.Set())
}

func (s *verifC01SvcSim) enabledOnly(m map[string]bool) { s.enabled = m }

func (s *verifC01SvcSim) logf(format string, args ...any) {
	s.hist = append(s.hist, fmt.Sprintf(format, args...))
}

func (s *verifC01SvcSim) history() string { return strings.Join(s.hist, "\n") }

func (s *verifC01SvcSim) node(id ch.NodeID) *verifC01SvcNode { return s.nodes[int(id)-1] }

func (s *verifC01SvcSim) fail(prop, signature, format string, args ...any) {
	msg := fmt.Sprintf(format, args...)
	if s.enabled != nil && !s.enabled[prop] {
		s.logf("(oracle of %s tripped, not judged by this check) [%s]: %s", prop, signature, msg)
		s.flags["oracle of another property tripped: "+prop+" "+signature] = true
		return
	}
	s.logf("VIOLATION %s [%s]: %s", prop, signature, msg)
	panic(verifC01SvcViolation{prop: prop, signature: signature, msg: msg})
}

func (s *verifC01SvcSim) stuck(category, detail string) {
	s.logf("STUCK (inconclusive) %s: %s", category, detail)
	panic(verifC01SvcStuck{why: category})
}

// ---- node life cycle ----

func (s *verifC01SvcSim) openFactory(n *verifC01SvcNode) {
	if s.cfg.Pebble {
		n.factory = channelstore.NewMessageDBFactory(fmt.Sprintf("%s/n%d", s.cfg.Dir, n.id))
	} else if n.factory == nil {
		n.factory = channelstore.NewMemoryFactory()
	}
}

// startNode composes one node the way pkg/cluster/node_defaults.go does.
func (s *verifC01SvcSim) startNode(n *verifC01SvcNode) {
	adapter, err := replication.NewStoreAdapter(replication.StoreAdapterConfig{Factory: n.factory, MaxBatchItems: 64, MaxBatchBytes: 4 << 20})
	if err != nil {
		s.t.Fatalf("VERIF-MACHINERY NewStoreAdapter: %v", err)
	}
	cfg := replication.RuntimeConfig{
		LocalNode: n.id, Store: adapter, Link: verifC01SvcLink{from: n.id, sim: s}, Goroutines: goruntimeregistry.New(),
		MaxVoters: s.cfg.N, MaxChannels: 64, MaxRetainedCommands: 8, RecoveryPageBytes: 4096,
		ExchangeTimeout: 5 * time.Second, LocalTimeout: 5 * time.Second, RecoveryTimeout: 8 * time.Second, CloseTimeout: 10 * time.Second,
		LocalWorkers: 2, PeerWorkers: 8, PeerTargetFlight: 4, RepairWorkers: 2,
	}
	if s.cfg.Eager {
		cfg.ReplicaHedgeDelay = 2 * time.Millisecond
		cfg.TrailingFlushInterval = 3 * time.Millisecond
	} else {
		cfg.ReplicaHedgeDelay = time.Hour
		cfg.TrailingFlushInterval = time.Hour
	}
	rt, err := replication.NewRuntime(cfg)
	if err != nil {
		s.t.Fatalf("VERIF-MACHINERY NewRuntime(node=%d): %v", n.id, err)
	}
	reactors := s.cfg.Reactors
	if reactors <= 0 {
		reactors = 1
	}
	svc, err := New(Config{
		LocalNode: n.id, ReactorCount: reactors, MailboxSize: 256, Store: n.factory, QuorumLog: rt.Log(),
		StoreAppendWorkers: 2, StoreApplyWorkers: 2, RPCWorkers: 2,
	})
	if err != nil {
		_ = rt.Close(context.Background())
		s.t.Fatalf("VERIF-MACHINERY service.New(node=%d): %v", n.id, err)
	}
	s.mu.Lock()
	n.rt, n.svc, n.up = rt, svc, true
	s.mu.Unlock()
}

func (s *verifC01SvcSim) stopNode(n *verifC01SvcNode) {
	s.mu.Lock()
	n.up = false
	rt, svc := n.rt, n.svc
	n.rt, n.svc = nil, nil
	s.mu.Unlock()
	if svc != nil {
		_ = svc.Close()
	}
	if rt != nil {
		ctx, cancel := context.WithTimeout(context.Background(), 10*time.Second)
		_ = rt.Close(ctx)
		cancel()
	}
	n.known = map[int]ch.Meta{}
	n.ready = map[int]bool{}
	if s.cfg.Pebble && n.factory != nil {
		if f, ok := n.factory.(interface{ Close() error }); ok {
			_ = f.Close()
		}
		n.factory = nil
	}
}

func (s *verifC01SvcSim) crash(id ch.NodeID) {
	s.stopNode(s.node(id))
	s.logf("crash node=%d", id)
}

func (s *verifC01SvcSim) restart(id ch.NodeID) {
	n := s.node(id)
	s.openFactory(n)
	s.startNode(n)
	s.logf("restart node=%d", id)
}

func (s *verifC01SvcSim) close() {
	for _, n := range s.nodes {
		s.stopNode(n)
		if f, ok := n.factory.(interface{ Close() error }); ok && f != nil {
			_ = f.Close()
		}
		n.factory = nil
	}
}

func (s *verifC01SvcSim) isUp(id ch.NodeID) bool {
	s.mu.Lock()
	defer s.mu.Unlock()
	return s.node(id).up
}

// ---- link ----

type verifC01SvcLink struct {
	from ch.NodeID
	sim  *verifC01SvcSim
}

func (l verifC01SvcLink) Exchange(ctx context.Context, target ch.NodeID, batch replication.ExchangeBatch) (replication.ExchangeBatchResult, error) {
	s := l.sim
	if int(target) < 1 || int(target) > len(s.nodes) {
		return replication.ExchangeBatchResult{}, errVerifC01SvcLink
	}
	var kind replication.ExchangeKind
	if len(batch.Items) > 0 {
		kind = batch.Items[0].Kind
	}
	s.mu.Lock()
	from, tgt := s.node(l.from), s.node(target)
	if !from.up || !tgt.up || tgt.rt == nil || s.cut[[2]ch.NodeID{l.from, target}] {
		s.mu.Unlock()
		return replication.ExchangeBatchResult{}, errVerifC01SvcLink
	}
	key := verifC01SvcLinkKey{target: target, kind: kind}
	if s.dropReq[key] > 0 {
		s.dropReq[key]--
		s.mu.Unlock()
		return replication.ExchangeBatchResult{}, errVerifC01SvcLink
	}
	dropResp := false
	if s.dropResp[key] > 0 {
		s.dropResp[key]--
		dropResp = true
	}
	server := tgt.rt.ExchangeServer()
	s.delivered[kind]++
	s.mu.Unlock()
	result, err := server.Handle(ctx, l.from, batch)
	if dropResp {
		return replication.ExchangeBatchResult{}, errVerifC01SvcLink
	}
	// a response cannot cross a link that died while the request was served
	s.mu.Lock()
	dead := !from.up || !tgt.up || s.cut[[2]ch.NodeID{target, l.from}]
	s.mu.Unlock()
	if dead {
		return replication.ExchangeBatchResult{}, errVerifC01SvcLink
	}
	return result, err
}

func (s *verifC01SvcSim) reachable(from ch.NodeID) []ch.NodeID {
	s.mu.Lock()
	defer s.mu.Unlock()
	if !s.node(from).up {
		return nil
	}
	var out []ch.NodeID
	for _, n := range s.nodes {
		if n.id == from || (n.up && !s.cut[[2]ch.NodeID{from, n.id}] && !s.cut[[2]ch.NodeID{n.id, from}]) {
			out = append(out, n.id)
		}
	}
	return out
}

func (s *verifC01SvcSim) setCut(a, b ch.NodeID, dead bool) {
	s.mu.Lock()
	if dead {
		s.cut[[2]ch.NodeID{a, b}] = true
		s.cut[[2]ch.NodeID{b, a}] = true
	} else {
		delete(s.cut, [2]ch.NodeID{a, b})
		delete(s.cut, [2]ch.NodeID{b, a})
	}
	s.mu.Unlock()
	s.logf("cut %d<->%d dead=%v", a, b, dead)
}

func (s *verifC01SvcSim) healAll() {
	s.mu.Lock()
	s.cut = map[[2]ch.NodeID]bool{}
	s.dropReq = map[verifC01SvcLinkKey]int{}
	s.dropResp = map[verifC01SvcLinkKey]int{}
	s.mu.Unlock()
	s.logf("heal all links")
}

func (s *verifC01SvcSim) armDrop(target ch.NodeID, kind replication.ExchangeKind, response bool, count int) {
	s.mu.Lock()
	if response {
		s.dropResp[verifC01SvcLinkKey{target, kind}] += count
	} else {
		s.dropReq[verifC01SvcLinkKey{target, kind}] += count
	}
	s.mu.Unlock()
	s.logf("arm drop target=%d kind=%d response=%v count=%d", target, kind, response, count)
}

func (s *verifC01SvcSim) clearDrops() {
	s.mu.Lock()
	s.dropReq = map[verifC01SvcLinkKey]int{}
	s.dropResp = map[verifC01SvcLinkKey]int{}
	s.mu.Unlock()
}

// ---- observation ----

type verifC01SvcStoreView struct {
	hw, leo uint64
	recs    map[uint64]ch.Record
	err     error
}

// storeView reads the durable committed watermark and the whole log of one
// replica through the channel store surface the reactor itself uses.
func (s *verifC01SvcSim) storeView(id ch.NodeID, c int) verifC01SvcStoreView {
	n := s.node(id)
	if n.factory == nil {
		return verifC01SvcStoreView{err: errors.New("store closed")}
	}
	st, err := n.factory.ChannelStore(verifC01SvcChannelKey(c), verifC01SvcChannelID(c))
	if err != nil {
		return verifC01SvcStoreView{err: err}
	}
	defer st.Close()
	ctx, cancel := context.WithTimeout(context.Background(), 10*time.Second)
	defer cancel()
	init, err := st.Load(ctx)
	if err != nil {
		return verifC01SvcStoreView{err: err}
	}
	res, err := st.ReadLog(ctx, channelstore.ReadLogRequest{FromOffset: 1, MaxBytes: 64 << 20})
	if err != nil {
		return verifC01SvcStoreView{err: err}
	}
	v := verifC01SvcStoreView{hw: init.HW, leo: init.LEO, recs: map[uint64]ch.Record{}}
	for i, r := range res.Records {
		seq := r.Index
		if seq == 0 {
			seq = uint64(i + 1)
		}
		v.recs[seq] = r
		if seq > v.leo {
			v.leo = seq
		}
	}
	return v
}

func (s *verifC01SvcSim) probe(id ch.NodeID, c int) (ch.RuntimeProbeChannel, bool) {
	n := s.node(id)
	if n.svc == nil {
		return ch.RuntimeProbeChannel{}, false
	}
	bench, ok := n.svc.(ch.RuntimeBench)
	if !ok {
		return ch.RuntimeProbeChannel{}, false
	}
	ctx, cancel := context.WithTimeout(context.Background(), 10*time.Second)
	defer cancel()
	res, err := bench.RuntimeProbe(ctx, ch.RuntimeSelector{ChannelIDs: []ch.ChannelID{verifC01SvcChannelID(c)}})
	if err != nil || len(res.Channels) != 1 {
		return ch.RuntimeProbeChannel{}, false
	}
	return res.Channels[0], true
}

// lookupCommitted asks the node's service for a message through the
// committed-read API (HW-capped inside the reactor).
func (s *verifC01SvcSim) lookupCommitted(id ch.NodeID, c int, msgID uint64) (ch.Message, bool, error) {
	n := s.node(id)
	if n.svc == nil {
		return ch.Message{}, false, errors.New("node down")
	}
	lk, ok := n.svc.(ch.CommittedMessageLookup)
	if !ok {
		s.t.Fatalf("VERIF-MACHINERY service does not implement CommittedMessageLookup")
	}
	ctx, cancel := context.WithTimeout(context.Background(), 10*time.Second)
	defer cancel()
	return lk.LookupCommittedMessage(ctx, verifC01SvcChannelID(c), msgID)
}

// observeCommitted records what the committed-read API of a node returns for
// a message id. Whatever was once visible as committed at a sequence must
// stay the content of that sequence (C02) and must agree with the
// acknowledgement ledger.
func (s *verifC01SvcSim) observeCommitted(id ch.NodeID, c int, msgID uint64, how string) (uint64, bool) {
	msg, found, err := s.lookupCommitted(id, c, msgID)
	if err != nil || !found {
		return 0, false
	}
	seq := msg.MessageSeq
	if msg.MessageID != 0 && msg.MessageID != msgID {
		s.fail("C02", "committed-read-wrong-message", "node %d ch %d: committed lookup of message %d returned message %d (seq %d)", id, c, msgID, msg.MessageID, seq)
	}
	obs := verifC01SvcObservation{msgID: msgID, payload: string(msg.Payload), node: id, how: how}
	if prev, ok := s.observed[c][seq]; ok {
		if prev.msgID != obs.msgID || prev.payload != obs.payload {
			s.fail("C02", "committed-read-divergence", "ch %d seq %d: committed read on node %d (%s) returned message %d, but node %d (%s) earlier returned message %d at the same sequence",
				c, seq, id, how, msgID, prev.node, prev.how, prev.msgID)
		}
	} else {
		s.observed[c][seq] = obs
	}
	if ack, ok := s.ledger[c][seq]; ok && (ack.msgID != msgID || ack.payload != obs.payload) {
		s.fail("C02", "committed-read-contradicts-ack", "ch %d seq %d: committed read on node %d (%s) returned message %d, the acknowledged message at that sequence is %d (acked by node %d under %s)",
			c, seq, id, how, msgID, ack.msgID, ack.node, ack.under)
	}
	if m := s.msgs[msgID]; m != nil && !m.acked {
		s.flags["committed read returned a message whose append was never acknowledged to the caller (ambiguous append, allowed)"] = true
	}
	return seq, true
}

// ---- control plane / metadata ----

func verifC01SvcFenceOrder(a, b ch.Meta) int {
	switch {
	case a.Epoch != b.Epoch:
		if a.Epoch < b.Epoch {
			return -1
		}
		return 1
	case a.LeaderEpoch != b.LeaderEpoch:
		if a.LeaderEpoch < b.LeaderEpoch {
			return -1
		}
		return 1
	}
	return 0
}

// issue makes m the control plane's current metadata of channel c.
func (s *verifC01SvcSim) issue(c int, m ch.Meta) {
	s.control[c] = verifC01SvcCloneMeta(m)
	s.issued[c] = append(s.issued[c], verifC01SvcCloneMeta(m))
	s.logf("control ch=%d issues %s", c, verifC01SvcMetaTag(m))
}

type verifC01SvcDelivery struct {
	err      error
	stale    bool // the metadata was older than what the node knew: it had to be refused
	refused  bool
	accepted bool
}

// deliver hands one metadata version to one node through ApplyMeta and judges
// the C04 metadata oracles.
func (s *verifC01SvcSim) deliver(id ch.NodeID, c int, m ch.Meta) verifC01SvcDelivery {
	n := s.node(id)
	if n.svc == nil {
		return verifC01SvcDelivery{err: errors.New("node down")}
	}
	m = verifC01SvcCloneMeta(m)
	known, hasKnown := n.known[c]
	before, loadedBefore := s.probe(id, c)
	svc := n.svc
	done := make(chan error, 1)
	go func() { done <- svc.ApplyMeta(m) }()
	var err error
	select {
	case err = <-done:
	case <-time.After(60 * time.Second):
		s.stuck("ApplyMeta did not return within 60s", fmt.Sprintf("%s on node %d", verifC01SvcMetaTag(m), id))
	}
	s.logf("applyMeta ch=%d node=%d %s reach=%v -> err=%v", c, id, verifC01SvcMetaTag(m), s.reachable(id), err)
	d := verifC01SvcDelivery{err: err}
	if hasKnown {
		order := verifC01SvcFenceOrder(m, known)
		switch {
		case order < 0:
			d.stale = true
			if err == nil {
				s.fail("C04", "stale-meta-accepted", "node %d ch %d accepted metadata %s although it already held %s", id, c, verifC01SvcMetaTag(m), verifC01SvcMetaTag(known))
			}
		case order == 0 && m.Leader != known.Leader:
			d.stale = true
			if err == nil {
				s.fail("C04", "same-epoch-leader-switch-accepted", "node %d ch %d accepted metadata %s naming another leader under the same (epoch, leader epoch) as %s", id, c, verifC01SvcMetaTag(m), verifC01SvcMetaTag(known))
			}
		}
	}
	if d.stale {
		d.refused = true
		if after, ok := s.probe(id, c); ok && loadedBefore {
			if after.ChannelEpoch != before.ChannelEpoch || after.LeaderEpoch != before.LeaderEpoch || after.Role != before.Role || after.WriteFence != before.WriteFence {
				s.fail("C04", "refused-meta-changed-state", "node %d ch %d: refused metadata %s changed the runtime from %+v to %+v", id, c, verifC01SvcMetaTag(m), before, after)
			}
		}
		s.flags["stale or same-epoch-leader-switch metadata refused"] = true
		return d
	}
	if err != nil && (errors.Is(err, ch.ErrInvalidConfig) || errors.Is(err, ch.ErrClosed) || errors.Is(err, ch.ErrTooManyChannels)) {
		// refused before it touched the channel state
		d.refused = true
		return d
	}
	// The metadata passed the machine's fence validation and is now the
	// node's view (also when the quorum install behind it failed: the node is
	// then simply not ready). Confirm it on the runtime itself, so that the
	// judgement context below never rests on the harness's model alone.
	if err != nil {
		after, loaded := s.probe(id, c)
		if !loaded || after.ChannelEpoch != m.Epoch || after.LeaderEpoch != m.LeaderEpoch {
			s.flags["metadata delivery failed before it reached the channel state (not counted as known)"] = true
			d.refused = true
			return d
		}
	}
	d.accepted = true
	if !hasKnown || verifC01SvcFenceOrder(m, known) > 0 || m.RouteGeneration >= known.RouteGeneration {
		n.known[c] = m
		n.ready[c] = err == nil
	} else {
		s.flags["older route generation re-delivered under the same leader epoch (not required to be refused)"] = true
	}
	return d
}

// holdsFence reports whether the node was handed (and did not refuse) a
// write-fenced metadata version that is still its newest.
func (n *verifC01SvcNode) holdsFence(c int) bool {
	k, ok := n.known[c]
	return ok && k.WriteFence.Set()
}

// ---- appends ----

func (s *verifC01SvcSim) newMessages(c int, count int, seed []byte) []ch.Message {
	out := make([]ch.Message, count)
	for i := range out {
		s.nextMsgID++
		id := s.nextMsgID
		payload := append([]byte(fmt.Sprintf("p%d-", id)), seed...)
		out[i] = ch.Message{MessageID: id, ChannelID: verifC01SvcChannelID(c).ID, ChannelType: verifC01SvcChannelID(c).Type,
			FromUID: fmt.Sprintf("u%d", id%5), ClientMsgNo: fmt.Sprintf("c%d-%d", c, id), ServerTimestampMS: int64(id), Payload: payload,
			Setting: uint8(id % 3)}
	}
	return out
}

type verifC01SvcAppendOutcome struct {
	err      error
	items    []ch.AppendBatchItemResult
	acked    int
	deadline bool
}

type verifC01SvcAppendCall struct {
	node      ch.NodeID
	channel   int
	msgs      []ch.Message
	expEpoch  uint64
	expLeader uint64
	// snapshot of what the node held when the call started (judgement context)
	known    ch.Meta
	hasKnown bool
	fenced   bool
}

// startAppend captures the judgement context and registers the messages.
func (s *verifC01SvcSim) prepareAppend(id ch.NodeID, c int, msgs []ch.Message, expEpoch, expLeader uint64) verifC01SvcAppendCall {
	n := s.node(id)
	call := verifC01SvcAppendCall{node: id, channel: c, msgs: msgs, expEpoch: expEpoch, expLeader: expLeader}
	call.known, call.hasKnown = n.known[c]
	call.fenced = n.holdsFence(c)
	var group []uint64
	for _, m := range msgs {
		group = append(group, m.MessageID)
	}
	for _, m := range msgs {
		if _, ok := s.msgs[m.MessageID]; !ok {
			s.msgs[m.MessageID] = &verifC01SvcMessage{channel: c, msg: m, node: id, expEpoch: expEpoch, expLeader: expLeader, serverIDs: s.serverIDs, group: group}
			s.order = append(s.order, m.MessageID)
		}
	}
	return call
}

// runAppend performs the AppendBatch call (may be used from a goroutine: it
// touches no simulator state).
func (s *verifC01SvcSim) runAppend(svc ch.Cluster, call verifC01SvcAppendCall) verifC01SvcAppendOutcome {
	ctx, cancel := context.WithTimeout(context.Background(), 15*time.Second)
	defer cancel()
	req := ch.AppendBatchRequest{ChannelID: verifC01SvcChannelID(call.channel), Messages: call.msgs, CommitMode: ch.CommitModeQuorum,
		ExpectedChannelEpoch: call.expEpoch, ExpectedLeaderEpoch: call.expLeader, ServerAllocatedMessageIDs: s.serverIDs}
	type ret struct {
		res ch.AppendBatchResult
		err error
	}
	done := make(chan ret, 1)
	go func() {
		r, err := svc.AppendBatch(ctx, req)
		done <- ret{r, err}
	}()
	select {
	case r := <-done:
		out := verifC01SvcAppendOutcome{err: r.err, items: r.res.Items}
		out.deadline = errors.Is(r.err, context.DeadlineExceeded)
		return out
	case <-time.After(60 * time.Second):
		return verifC01SvcAppendOutcome{err: errors.New("verif: AppendBatch did not return within 60s"), deadline: true}
	}
}

func verifC01SvcDefiniteRefusal(err error) bool {
	return errors.Is(err, ch.ErrStaleMeta) || errors.Is(err, ch.ErrWriteFenced) || errors.Is(err, ch.ErrNotReady) || errors.Is(err, ch.ErrNotLeader) ||
		errors.Is(err, ch.ErrChannelNotFound) || errors.Is(err, ch.ErrBackpressured) || errors.Is(err, ch.ErrInvalidConfig) || errors.Is(err, ch.ErrClosed)
}

// judgeAppend files the outcome of one AppendBatch call: ledger (C01),
// authority oracles (C04).
func (s *verifC01SvcSim) judgeAppend(call verifC01SvcAppendCall, out verifC01SvcAppendOutcome) int {
	c := call.channel
	ids := make([]uint64, len(call.msgs))
	for i, m := range call.msgs {
		ids[i] = m.MessageID
	}
	s.logf("append ch=%d node=%d ids=%v expected=(%d,%d) known=%s -> err=%v %s", c, call.node, ids, call.expEpoch, call.expLeader,
		verifC01SvcMetaTag(call.known), out.err, verifC01SvcItemsTag(out.items))
	if strings.Contains(fmt.Sprint(out.err), "did not return within") {
		s.stuck("AppendBatch did not return within 60s", fmt.Sprintf("node %d", call.node))
	}
	if out.err != nil {
		for _, id := range ids {
			if m := s.msgs[id]; m != nil && !verifC01SvcDefiniteRefusal(out.err) {
				m.ambiguous = true
			}
		}
		if out.deadline {
			s.flags["append deadline (ambiguous, never a verdict)"] = true
		}
		return 0
	}
	if len(out.items) != len(call.msgs) {
		s.fail("C01", "result-shape", "AppendBatch of %d messages returned %d items", len(call.msgs), len(out.items))
	}
	acked := 0
	var prevSeq uint64
	for i, item := range out.items {
		if item.Err != nil {
			if m := s.msgs[ids[i]]; m != nil && !verifC01SvcDefiniteRefusal(item.Err) {
				m.ambiguous = true
			}
			continue
		}
		acked++
		if item.MessageID != ids[i] {
			s.fail("C01", "result-wrong-message", "ch %d: result item %d carries message id %d, the request was %d", c, i, item.MessageID, ids[i])
		}
		if item.MessageSeq == 0 {
			s.fail("C01", "result-without-sequence", "ch %d: acknowledged message %d has sequence 0", c, ids[i])
		}
		if item.Message.MessageSeq != 0 && (item.Message.MessageSeq != item.MessageSeq || string(item.Message.Payload) != string(call.msgs[i].Payload)) {
			s.fail("C01", "result-wrong-content", "ch %d: the acknowledgement of message %d (seq %d) echoes seq %d and a payload equal=%v to the request", c, ids[i], item.MessageSeq, item.Message.MessageSeq,
				string(item.Message.Payload) == string(call.msgs[i].Payload))
		}
		if prevSeq != 0 && item.MessageSeq != prevSeq+1 {
			s.fail("C01", "batch-not-contiguous", "ch %d: one accepted batch was acknowledged at sequences %d then %d", c, prevSeq, item.MessageSeq)
		}
		prevSeq = item.MessageSeq
		s.recordAck(call, ids[i], string(call.msgs[i].Payload), item.MessageSeq)
	}
	if acked == 0 {
		return 0
	}
	// C04: who was allowed to acknowledge?
	if call.hasKnown && call.known.Leader != call.node {
		s.fail("C04", "ack-by-informed-non-leader", "node %d acknowledged an append on ch %d although it had been handed %s", call.node, c, verifC01SvcMetaTag(call.known))
	}
	if call.fenced {
		s.fail("C04", "ack-while-fenced", "node %d acknowledged an append on ch %d that started after it had been handed the write-fenced %s", call.node, c, verifC01SvcMetaTag(call.known))
	}
	if call.hasKnown && ((call.expEpoch != 0 && call.expEpoch != call.known.Epoch) || (call.expLeader != 0 && call.expLeader != call.known.LeaderEpoch)) {
		s.fail("C04", "stale-expected-epoch-acked", "node %d acknowledged an append on ch %d submitted with expected (epoch %d, leader epoch %d) while it held %s",
			call.node, c, call.expEpoch, call.expLeader, verifC01SvcMetaTag(call.known))
	}
	return acked
}

func verifC01SvcItemsTag(items []ch.AppendBatchItemResult) string {
	var b strings.Builder
	for _, it := range items {
		if it.Err != nil {
			fmt.Fprintf(&b, "[%d err=%v]", it.MessageID, it.Err)
		} else {
			fmt.Fprintf(&b, "[%d@%d]", it.MessageID, it.MessageSeq)
		}
	}
	return b.String()
}

func (s *verifC01SvcSim) recordAck(call verifC01SvcAppendCall, msgID uint64, payload string, seq uint64) {
	c := call.channel
	ack := &verifC01SvcAck{seq: seq, msgID: msgID, payload: payload, node: call.node, under: verifC01SvcMetaTag(call.known)}
	if prev, dup := s.ledger[c][seq]; dup && prev.msgID != msgID {
		s.fail("C01", "split-brain-ack", "ch %d seq %d acknowledged twice: message %d by node %d under %s, and message %d by node %d under %s",
			c, seq, prev.msgID, prev.node, prev.under, msgID, call.node, ack.under)
	}
	if prev, dup := s.byMsg[c][msgID]; dup && prev.seq != seq {
		// a retry of an acknowledged message came back with another sequence
		// (exactly-once sequencing of retries is C03's subject, only labelled here)
		s.fail("C03", "ack-sequence-changed", "ch %d message %d acknowledged at seq %d (node %d) and again at seq %d (node %d)", c, msgID, prev.seq, prev.node, seq, call.node)
	}
	if obs, ok := s.observed[c][seq]; ok && (obs.msgID != msgID || obs.payload != payload) {
		s.fail("C02", "ack-contradicts-committed-read", "ch %d seq %d acknowledged for message %d by node %d, but a committed read on node %d (%s) had returned message %d there",
			c, seq, msgID, call.node, obs.node, obs.how, obs.msgID)
	}
	s.ledger[c][seq] = ack
	s.byMsg[c][msgID] = ack
	if m := s.msgs[msgID]; m != nil {
		m.acked = true
	}
}

// appendOn is the synchronous form used by the script.
func (s *verifC01SvcSim) appendOn(id ch.NodeID, c int, msgs []ch.Message, expEpoch, expLeader uint64) (int, error) {
	n := s.node(id)
	if n.svc == nil {
		return 0, errors.New("node down")
	}
	call := s.prepareAppend(id, c, msgs, expEpoch, expLeader)
	out := s.runAppend(n.svc, call)
	acked := s.judgeAppend(call, out)
	if out.err != nil {
		return acked, out.err
	}
	if acked == 0 && len(out.items) > 0 {
		return 0, out.items[0].Err
	}
	return acked, nil
}

// ---- oracles over logs ----

func (s *verifC01SvcSim) sortedLedger(c int) []*verifC01SvcAck {
	out := make([]*verifC01SvcAck, 0, len(s.ledger[c]))
	for _, a := range s.ledger[c] {
		out = append(out, a)
	}
	sort.Slice(out, func(i, j int) bool { return out[i].seq < out[j].seq })
	return out
}

// checkLedgerOnLeader is the C01 oracle after a leader change that became
// ready (and at the healed end state): every acknowledged entry is readable
// from the leader's committed log at its sequence with the same id/payload.
func (s *verifC01SvcSim) checkLedgerOnLeader(id ch.NodeID, c int, when string) {
	acks := s.sortedLedger(c)
	if len(acks) == 0 {
		return
	}
	v := s.storeView(id, c)
	if v.err != nil {
		s.stuck("store of a live leader unreadable", fmt.Sprintf("node %d (%s): %v", id, when, v.err))
	}
	for _, a := range acks {
		rec, ok := v.recs[a.seq]
		if !ok || rec.ID != a.msgID || string(rec.Payload) != a.payload {
			s.fail("C01", "acked-entry-lost-on-leader-change", "%s: leader %d (LEO=%d HW=%d) of ch %d: acknowledged seq %d (message %d, acked by node %d under %s) present=%v same-message=%v",
				when, id, v.leo, v.hw, c, a.seq, a.msgID, a.node, a.under, ok, ok && rec.ID == a.msgID && string(rec.Payload) == a.payload)
		}
		msg, found, err := s.lookupCommitted(id, c, a.msgID)
		if err != nil {
			if errors.Is(err, context.DeadlineExceeded) {
				s.flags["committed lookup deadline (not judged)"] = true
				continue
			}
			s.flags["committed lookup on the new leader returned an error: "+err.Error()] = true
			continue
		}
		if !found {
			s.fail("C01", "acked-entry-not-committed-readable", "%s: the committed-read API of leader %d (ch %d, LEO=%d HW=%d) does not return acknowledged message %d (seq %d, acked by node %d under %s)",
				when, id, c, v.leo, v.hw, a.msgID, a.seq, a.node, a.under)
		}
		if string(msg.Payload) != a.payload {
			s.fail("C01", "acked-entry-content-changed", "%s: leader %d ch %d returns acknowledged message %d (seq %d) with another payload", when, id, c, a.msgID, a.seq)
		}
		if msg.MessageSeq != a.seq {
			// the log holds the message at its acknowledged sequence (checked
			// above) and the id index names another copy: duplicate storage of
			// one message id is C03's subject
			s.fail("C03", "message-stored-twice", "%s: leader %d ch %d returns acknowledged message %d at seq %d, it was acknowledged (and is stored) at %d", when, id, c, a.msgID, msg.MessageSeq, a.seq)
		}
	}
	s.flags["ledger checked on a ready leader"] = true
}

func verifC01SvcSameRecord(a, b ch.Record) bool {
	return a.ID == b.ID && string(a.Payload) == string(b.Payload) && a.FromUID == b.FromUID && a.ClientMsgNo == b.ClientMsgNo &&
		a.ServerTimestampMS == b.ServerTimestampMS && a.Setting == b.Setting && a.SyncOnce == b.SyncOnce
}

// checkReplicas is the C02 oracle at the store surface: every pair of
// replicas agrees below both committed watermarks, a watermark never exceeds
// the log end and never moves backwards, the log has no holes; plus the C01
// clause that no replica holds another committed entry at an acknowledged
// sequence.
func (s *verifC01SvcSim) checkReplicas() {
	for c := 0; c < s.cfg.Channels; c++ {
		views := map[ch.NodeID]verifC01SvcStoreView{}
		for _, n := range s.nodes {
			v := s.storeView(n.id, c)
			if v.err != nil {
				continue
			}
			views[n.id] = v
			if v.hw > v.leo {
				s.fail("C02", "committed-above-leo", "node %d ch %d committed=%d > LEO=%d", n.id, c, v.hw, v.leo)
			}
			if prev := s.hwSeen[c][n.id]; v.hw < prev {
				s.fail("C02", "committed-regressed", "node %d ch %d committed watermark went %d -> %d", n.id, c, prev, v.hw)
			}
			s.hwSeen[c][n.id] = v.hw
			for i := uint64(1); i <= v.leo; i++ {
				if _, ok := v.recs[i]; !ok {
					s.fail("C02", "hole-in-log", "node %d ch %d has no entry at %d (LEO %d)", n.id, c, i, v.leo)
				}
			}
			for seq, a := range s.ledger[c] {
				if seq > v.hw {
					continue
				}
				if rec, ok := v.recs[seq]; ok && (rec.ID != a.msgID || string(rec.Payload) != a.payload) {
					s.fail("C01", "acked-entry-replaced", "node %d ch %d holds message %d as committed (HW=%d) at acknowledged seq %d of message %d", n.id, c, rec.ID, v.hw, seq, a.msgID)
				}
			}
		}
		ids := make([]ch.NodeID, 0, len(views))
		for id := range views {
			ids = append(ids, id)
		}
		sort.Slice(ids, func(i, j int) bool { return ids[i] < ids[j] })
		for i := 0; i < len(ids); i++ {
			for j := i + 1; j < len(ids); j++ {
				a, b := views[ids[i]], views[ids[j]]
				lim := a.hw
				if b.hw < lim {
					lim = b.hw
				}
				for k := uint64(1); k <= lim; k++ {
					if !verifC01SvcSameRecord(a.recs[k], b.recs[k]) {
						s.fail("C02", "committed-divergence", "ch %d offset %d (<= committed %d/%d) differs between node %d (message %d) and node %d (message %d)",
							c, k, a.hw, b.hw, ids[i], a.recs[k].ID, ids[j], b.recs[k].ID)
					}
				}
				if a.leo != b.leo {
					s.flags["replicas with different log ends at a check"] = true
				}
			}
		}
	}
}

// probeCommittedReads samples the committed-read API on every live node for
// the most recent messages (acknowledged or not).
func (s *verifC01SvcSim) probeCommittedReads(limit int) {
	if len(s.order) == 0 {
		return
	}
	start := len(s.order) - limit
	if start < 0 {
		start = 0
	}
	for _, id := range s.order[start:] {
		m := s.msgs[id]
		for _, n := range s.nodes {
			if n.svc == nil {
				continue
			}
			if _, ok := n.known[m.channel]; !ok {
				continue
			}
			if _, found := s.observeCommitted(n.id, m.channel, id, "probe"); found {
				s.flags["committed-read observation recorded"] = true
			}
		}
	}
}

// finalLedgerCheck: every acknowledged entry is still held by some replica.
func (s *verifC01SvcSim) finalLedgerCheck() {
	for c := 0; c < s.cfg.Channels; c++ {
		views := map[ch.NodeID]verifC01SvcStoreView{}
		for _, n := range s.nodes {
			if v := s.storeView(n.id, c); v.err == nil {
				views[n.id] = v
			}
		}
		for _, a := range s.sortedLedger(c) {
			holders := 0
			for _, v := range views {
				if rec, ok := v.recs[a.seq]; ok && rec.ID == a.msgID && string(rec.Payload) == a.payload {
					holders++
				}
			}
			if holders == 0 {
				s.fail("C01", "acked-entry-lost-everywhere", "ch %d acknowledged seq %d (message %d, acked by node %d under %s) is held by no replica at the end", c, a.seq, a.msgID, a.node, a.under)
			}
		}
	}
}
