package replication

import (
	"context"
	"encoding/json"
	"errors"
	"fmt"
	"sort"
	"strings"
	"testing"
	"time"

	ch "github.com/WuKongIM/WuKongIM/pkg/channel"
	"pgregory.net/rapid"
	"verif.local/kit"
)

const verifC01KnownFirstProposal = "acked-first-proposal-truncated:base=0"

type verifScriptWeights struct {
	commit, retry, failover, reinstall, crash, restart, isolate, cut, heal, drop, flush, staleCommit, badInstall, fence, cleanFailover, pageCut, divergentTail, doubleFork, rollingOutage int
}

type verifScriptOpts struct {
	prop     string
	enabled  map[string]bool
	weights  verifScriptWeights
	steps    int
	preSeed  bool
	nChoices []int
	// outageBudget: how many replicas may be crashed/isolated at a time
	// (0 = the property's N-Q; safety invariants such as C02 must hold under any number)
	outageBudget int
}

type verifScriptStats struct {
	acks, installsOK, installsFailed, commitsFailed, retriesOK, staleRejected int
	nontrivialC01                                                            bool
	nontrivialC02                                                            bool
	nontrivialC03                                                            bool
	nontrivialC04                                                            bool
	excludedByKnownFinding                                                   int
}

// verifRunCase builds a simulator, runs body, classifies violations.
func verifRunCase(rt *rapid.T, k *kit.Case, prop string, cfg verifSimConfig, body func(s *verifSim)) {
	var cleanup func()
	if cfg.Pebble {
		cfg.PebbleDir, cleanup = kit.TempDir()
	}
	s := newVerifSim(rt, cfg)
	defer func() {
		s.close()
		if cleanup != nil {
			cleanup()
		}
	}()
	func() {
		defer func() {
			r := recover()
			if r == nil {
				return
			}
			v, ok := r.(verifSimViolation)
			if !ok {
				panic(r)
			}
			if kit.KnownFinding(v.prop, v.signature) {
				k.Label("known finding reproduced: " + v.signature)
				return
			}
			path := kit.SaveReplay(prop, "sim-history", "txt", []byte(s.history()))
			rt.Fatalf("VERIF-VIOLATION %s [%s]: %s\nhistory saved to %s\n--- history ---\n%s", v.prop, v.signature, v.msg, path, s.history())
		}()
		body(s)
	}()
	for f := range s.flags {
		k.Label(f)
	}
}

func verifDrawNode(rt *rapid.T, s *verifSim, label string, pred func(*verifSimNode) bool) *verifSimNode {
	var cands []*verifSimNode
	for _, n := range s.nodes {
		if pred(n) {
			cands = append(cands, n)
		}
	}
	if len(cands) == 0 {
		return nil
	}
	return cands[rapid.IntRange(0, len(cands)-1).Draw(rt, label)]
}

func (s *verifSim) outSet(isolated map[ch.NodeID]bool) int {
	out := 0
	for _, n := range s.nodes {
		if !s.isUp(n.id) || isolated[n.id] {
			out++
		}
	}
	return out
}

func verifBumpAuthority(rt *rapid.T, cur AuthorityID) AuthorityID {
	switch rapid.IntRange(0, 9).Draw(rt, "bumpKind") {
	case 0:
		return AuthorityID{ChannelEpoch: cur.ChannelEpoch + 1, LeaderTerm: 1, FenceVersion: cur.FenceVersion + 1}
	case 1:
		return AuthorityID{ChannelEpoch: cur.ChannelEpoch, LeaderTerm: cur.LeaderTerm, FenceVersion: cur.FenceVersion + 1}
	case 2:
		return AuthorityID{ChannelEpoch: cur.ChannelEpoch + 1, LeaderTerm: cur.LeaderTerm + 1, FenceVersion: cur.FenceVersion + 2}
	default:
		return AuthorityID{ChannelEpoch: cur.ChannelEpoch, LeaderTerm: cur.LeaderTerm + 1, FenceVersion: cur.FenceVersion + 1}
	}
}

// verifRunScript drives one generated fault/authority script.
func verifRunScript(rt *rapid.T, k *kit.Case, s *verifSim, o verifScriptOpts) verifScriptStats {
	var st verifScriptStats
	N, Q := s.cfg.N, s.cfg.Q
	// whether proposals carry the leader's all-record allocator proof (the
	// MessageDB store takes a sequenced fast path for them)
	budget := N - Q
	if o.outageBudget > 0 {
		budget = o.outageBudget
		if budget > N-1 {
			budget = N - 1
		}
	}
	serverIDs := rapid.IntRange(0, 3).Draw(rt, "serverAllocatedIDs") > 0 == s.cfg.Pebble || rapid.IntRange(0, 3).Draw(rt, "serverAllocatedIDs2") == 0
	if serverIDs {
		s.flags["proposals carry server-allocated message ids"] = true
	}
	s.serverIDs = serverIDs
	isolated := map[ch.NodeID]bool{}
	var script []string
	note := func(f string, a ...any) { script = append(script, fmt.Sprintf(f, a...)) }

	// bring every channel up on node 1 (healthy), optionally pre-seed so that
	// the first proposal (base offset 0) reaches every voter before any fault:
	// the known finding F-C01-1 is excluded by construction.
	for c := 0; c < s.cfg.Channels; c++ {
		if _, err := s.install(c, s.control[c]); err != nil {
			if 2*Q <= N && errors.Is(err, ch.ErrInvalidConfig) {
				// a write quorum that is not a strict majority is refused outright
				s.flags["non-majority write quorum refused at install"] = true
				k.Key("invalid-topology", N, Q)
				return st
			}
			rt.Fatalf("VERIF-MACHINERY initial install failed: %v", err)
		}
		if 2*Q <= N {
			s.flags["non-majority write quorum ACCEPTED at install"] = true
		}
		if o.preSeed {
			cmd := &verifSimCommand{channel: c, node: 1, proposal: Proposal{Key: verifSimChannelKey(c), Expected: s.control[c].ID, CommandID: s.newCommandID(),
				Records: s.newRecords(c, 1, s.control[c].ID.ChannelEpoch, []byte("seed"))}}
			s.commands = append(s.commands, cmd)
			if _, err := s.commit(cmd); err != nil {
				rt.Fatalf("VERIF-MACHINERY seed commit failed: %v", err)
			}
			st.excludedByKnownFinding++
		}
	}
	if o.preSeed {
		if !s.quiesce(5 * time.Second) {
			s.flags["quiesce timed out"] = true
		}
	}

	w := o.weights
	type action struct {
		name string
		w    int
	}
	actions := []action{{"commit", w.commit}, {"retry", w.retry}, {"failover", w.failover}, {"reinstall", w.reinstall}, {"crash", w.crash},
		{"restart", w.restart}, {"isolate", w.isolate}, {"cut", w.cut}, {"heal", w.heal}, {"drop", w.drop}, {"flush", w.flush},
		{"staleCommit", w.staleCommit}, {"badInstall", w.badInstall}, {"fence", w.fence}, {"cleanFailover", w.cleanFailover}, {"pageCut", w.pageCut}, {"divergentTail", w.divergentTail}, {"doubleFork", w.doubleFork}, {"rollingOutage", w.rollingOutage}}
	var bag []string
	for _, a := range actions {
		for i := 0; i < a.w; i++ {
			bag = append(bag, a.name)
		}
	}
	doFailover := func(c int, target *verifSimNode, best bool) {
			if best {
				// as FailoverPlanner would: the reachable candidate with the highest committed/LEO
				best, bestKey := target, [2]uint64{}
				for _, n := range s.nodes {
					if !s.isUp(n.id) || isolated[n.id] {
						continue
					}
					v := s.view(n.id, c)
					if v.err != nil {
						continue
					}
					key := [2]uint64{v.state.Committed, v.state.LEO}
					if key[0] > bestKey[0] || (key[0] == bestKey[0] && key[1] > bestKey[1]) {
						best, bestKey = n, key
					}
				}
				target = best
			}
			next := cloneAuthority(s.control[c])
			next.ID = verifBumpAuthority(rt, next.ID)
			next.Leader = target.id
			next.WriteFence = ch.WriteFence{}
			oldLeader := s.control[c].Leader
			s.control[c] = next
			reach := s.reachable(target.id)
			note("failover ch=%d %d->%d id=%+v reach=%v", c, oldLeader, target.id, next.ID, reach)
			// which acknowledged entries have a holder that is unreachable now?
			holderUnreachable := false
			if len(s.ledger[c]) > 0 && target.id != oldLeader {
				inReach := map[ch.NodeID]bool{}
				for _, id := range reach {
					inReach[id] = true
				}
				for _, n := range s.nodes {
					if inReach[n.id] {
						continue
					}
					if v := s.view(n.id, c); v.err == nil && v.state.LEO > 0 {
						holderUnreachable = true
					}
				}
			}
			_, err := s.install(c, next)
			if err == nil {
				st.installsOK++
				if len(s.ledger[c]) > 0 && target.id != oldLeader && holderUnreachable {
					st.nontrivialC01 = true
					s.flags["install on another node while a holder was unreachable"] = true
				}
				if !s.isUp(oldLeader) || isolated[oldLeader] {
					s.flags["old leader unreachable at install"] = true
				}
			} else {
				st.installsFailed++
				if len(reach) >= Q {
					s.flags["install failed although a quorum was reachable (availability, not judged)"] = true
				}
			}
	}
	steps := rapid.IntRange(o.steps/3, o.steps).Draw(rt, "steps")
	// openings aimed at the first proposal of a channel (base offset 0), which
	// recovery treats specially (an empty frontier gets no current-term barrier)
	opening := []string{}
	if N >= 3 && !o.preSeed {
		switch rapid.IntRange(0, 9).Draw(rt, "opening") {
		case 0, 1:
			opening = []string{"divergentTail", "cleanFailover"}
		case 2:
			opening = []string{"isolateFollower", "commit", "heal", "cleanFailover"}
		case 3:
			opening = []string{"divergentTail", "crash", "failover"}
		}
	}
	if 2*Q <= N {
		// an exact-half (or smaller) write quorum was accepted: aim straight at
		// the non-intersecting-quorums schedule — acknowledge on a bare quorum,
		// lose exactly those holders, install on the other half
		opening = nil
		for i := 0; i < N-Q; i++ {
			opening = append(opening, "isolateFollower")
		}
		opening = append(opening, "commit", "heal", "crashHolders", "failover")
	}
	for step := 0; step < steps; step++ {
		act := ""
		if step < len(opening) {
			act = opening[step]
		} else {
			act = rapid.SampledFrom(bag).Draw(rt, "action")
		}
		c := rapid.IntRange(0, s.cfg.Channels-1).Draw(rt, "channel")
		if step < len(opening) {
			c = 0
		}
		switch act {
		case "commit", "staleCommit":
			var n *verifSimNode
			if act == "commit" {
				n = s.node(s.control[c].Leader)
				if !s.isUp(n.id) {
					n = nil
				} else if _, ok := n.installed[c]; !ok {
					n = nil
				}
			} else {
				n = verifDrawNode(rt, s, "staleNode", func(n *verifSimNode) bool {
					_, ok := n.installed[c]
					return s.isUp(n.id) && ok
				})
			}
			if n == nil {
				continue
			}
			expected := n.installed[c].ID
			if act == "staleCommit" && rapid.Bool().Draw(rt, "olderExpected") {
				// a proposal tagged with an authority other than the installed one
				expected = AuthorityID{ChannelEpoch: expected.ChannelEpoch, LeaderTerm: expected.LeaderTerm, FenceVersion: expected.FenceVersion}
				switch rapid.IntRange(0, 2).Draw(rt, "staleField") {
				case 0:
					if expected.LeaderTerm > 1 {
						expected.LeaderTerm--
					} else {
						expected.LeaderTerm++
					}
				case 1:
					if expected.FenceVersion > 1 {
						expected.FenceVersion--
					} else {
						expected.FenceVersion++
					}
				case 2:
					expected.ChannelEpoch++
				}
			}
			cmd := &verifSimCommand{channel: c, node: n.id, proposal: Proposal{Key: verifSimChannelKey(c), Expected: expected, CommandID: s.newCommandID(),
				Records: s.newRecords(c, rapid.IntRange(1, 3).Draw(rt, "nrec"), expected.ChannelEpoch, rapid.SliceOfN(rapid.Byte(), 0, 12).Draw(rt, "payload"))}}
			s.commands = append(s.commands, cmd)
			note("%s ch=%d node=%d n=%d", act, c, n.id, len(cmd.proposal.Records))
			stale := n.installed[c].ID != s.control[c].ID || n.id != s.control[c].Leader
			_, err := s.commit(cmd)
			switch {
			case err == nil:
				st.acks++
				if stale {
					s.flags["ack by a leader the control plane already deposed"] = true
				}
				if len(s.reachable(n.id)) == Q {
					s.flags["ack on bare quorum"] = true
				}
			case expected != n.installed[c].ID:
				// rejected, as C04 demands (an acknowledgement would have been
				// caught by validateReceipt); record which error class was used
				s.flags["foreign-authority proposal rejected: "+err.Error()] = true
				st.staleRejected++
				st.nontrivialC04 = true
			default:
				st.commitsFailed++
			}
		case "retry":
			var cands []*verifSimCommand
			for _, cmd := range s.commands {
				n := s.node(cmd.node)
				if cmd.channel == c && s.isUp(cmd.node) && (cmd.acked || cmd.ambiguous) {
					if inst, ok := n.installed[c]; ok && inst.ID == cmd.proposal.Expected {
						cands = append(cands, cmd)
					}
				}
			}
			if len(cands) == 0 {
				continue
			}
			cmd := cands[rapid.IntRange(0, len(cands)-1).Draw(rt, "retryOf")]
			note("retry ch=%d node=%d cmd=%x wasAcked=%v", c, cmd.node, cmd.proposal.CommandID[28:], cmd.acked)
			wasAcked := cmd.acked
			if _, err := s.commit(cmd); err == nil {
				st.retriesOK++
				if wasAcked {
					st.nontrivialC03 = true
				} else {
					st.acks++
				}
			}
		case "failover":
			target := verifDrawNode(rt, s, "failoverTarget", func(n *verifSimNode) bool { return s.isUp(n.id) })
			if target == nil {
				continue
			}
			doFailover(c, target, rapid.IntRange(0, 2).Draw(rt, "bestTarget") > 0)
		case "cleanFailover":
			// let every reachable replica catch up, take the current leader out
			// (crash or isolation, within the outage budget) and fail over
			if !s.quiesce(2 * time.Second) {
				s.flags["quiesce timed out"] = true
			}
			victim := s.control[c].Leader
			if s.isUp(victim) && !isolated[victim] && s.outSet(isolated) < N-Q {
				if rapid.Bool().Draw(rt, "victimCrash") {
					note("crash %d (leader)", victim)
					s.crash(victim)
					s.flags["crash"] = true
				} else {
					note("isolate %d (leader)", victim)
					for _, m := range s.nodes {
						if m.id != victim {
							s.setCut(victim, m.id, true)
						}
					}
					isolated[victim] = true
					s.flags["node isolated"] = true
				}
			}
			target := verifDrawNode(rt, s, "failoverTarget", func(n *verifSimNode) bool { return s.isUp(n.id) && !isolated[n.id] && n.id != victim })
			if target == nil {
				continue
			}
			doFailover(c, target, rapid.IntRange(0, 3).Draw(rt, "bestTarget") > 0)
		case "reinstall":
			a := s.control[c]
			if !s.isUp(a.Leader) {
				continue
			}
			note("reinstall ch=%d node=%d", c, a.Leader)
			if _, err := s.install(c, a); err == nil {
				st.installsOK++
			} else {
				st.installsFailed++
			}
		case "badInstall":
			// an authority that must be refused: older than what the node holds, or
			// the same id with a different voter configuration
			n := verifDrawNode(rt, s, "badNode", func(n *verifSimNode) bool {
				_, ok := n.attempted[c]
				return s.isUp(n.id) && ok
			})
			if n == nil {
				continue
			}
			cur := n.attempted[c]
			bad := cloneAuthority(cur)
			bad.Leader = n.id
			kind := rapid.IntRange(0, 3).Draw(rt, "badKind")
			want := ch.ErrStaleMeta
			switch kind {
			case 0:
				if cur.ID.LeaderTerm <= 1 {
					continue
				}
				bad.ID.LeaderTerm--
			case 1:
				if cur.ID.FenceVersion <= 1 {
					continue
				}
				bad.ID.FenceVersion--
			case 2:
				if cur.ID.ChannelEpoch <= 1 {
					continue
				}
				bad.ID.ChannelEpoch--
				bad.ID.LeaderTerm += 5
			case 3:
				if cur.Leader != n.id || N < 3 {
					continue
				}
				// same id, different voters order/config
				bad.Voters = append([]ch.NodeID(nil), cur.Voters...)
				bad.Voters[0], bad.Voters[len(bad.Voters)-1] = bad.Voters[len(bad.Voters)-1], bad.Voters[0]
				want = ch.ErrLogConflict
			}
			before := n.installed[c]
			ctx, cancel := context.WithTimeout(context.Background(), 20*time.Second)
			inst, err := n.rt.Log().Install(ctx, bad)
			cancel()
			s.logf("badInstall ch=%d node=%d kind=%d id=%+v -> %+v err=%v", c, n.id, kind, bad.ID, inst, err)
			note("badInstall ch=%d node=%d kind=%d", c, n.id, kind)
			if err == nil || !errors.Is(err, want) {
				s.fail("C04", "regressing-install-accepted", "Install of %+v (kind %d) on node %d holding %+v returned %v, want %v", bad.ID, kind, n.id, cur.ID, err, want)
			}
			n.installed[c] = before
			st.nontrivialC04 = true
			s.flags["regressing or conflicting install refused"] = true
		case "fence":
			// control plane sets a write fence under a bumped fence version on the current leader
			a := cloneAuthority(s.control[c])
			if !s.isUp(a.Leader) {
				continue
			}
			a.ID.FenceVersion++
			a.WriteFence = ch.WriteFence{Token: fmt.Sprintf("tok%d", a.ID.FenceVersion), Version: a.ID.FenceVersion, Reason: ch.WriteFenceReasonLeaderTransfer}
			// production fences carry a lease deadline; the data plane must stay
			// fenced until the control plane clears the fence, whatever the clock says
			switch rapid.IntRange(0, 2).Draw(rt, "fenceUntil") {
			case 1:
				a.WriteFence.Until = time.Unix(1_000_000, 0) // long elapsed
				s.flags["write fence with an elapsed lease deadline"] = true
			case 2:
				a.WriteFence.Until = time.Now().Add(time.Hour)
			}
			s.control[c] = a
			n := s.node(a.Leader)
			n.attempted[c] = cloneAuthority(a)
			ctx, cancel := context.WithTimeout(context.Background(), 20*time.Second)
			inst, err := n.rt.Log().Install(ctx, a)
			cancel()
			s.logf("fence install ch=%d node=%d id=%+v -> %+v err=%v", c, a.Leader, a.ID, inst, err)
			note("fence ch=%d node=%d", c, a.Leader)
			if !errors.Is(err, ch.ErrWriteFenced) {
				s.fail("C04", "fenced-install-not-refused", "Install with write fence set returned %v, want ErrWriteFenced", err)
			}
			// the node now holds the fenced authority: commits under the old and the new id must be refused
			old := n.installed[c]
			delete(n.installed, c)
			for _, exp := range []AuthorityID{old.ID, a.ID} {
				if exp == (AuthorityID{}) {
					continue
				}
				p := Proposal{Key: verifSimChannelKey(c), Expected: exp, CommandID: s.newCommandID(), Records: s.newRecords(c, 1, exp.ChannelEpoch, nil)}
				ctx, cancel := context.WithTimeout(context.Background(), 20*time.Second)
				r, err := n.rt.Log().Commit(ctx, p)
				cancel()
				s.logf("commit while fenced ch=%d node=%d expected=%+v -> %+v err=%v", c, n.id, exp, r, err)
				if err == nil {
					s.fail("C04", "ack-while-fenced", "commit under %+v acknowledged while node %d holds fenced authority %+v", exp, n.id, a.ID)
				}
			}
			st.nontrivialC04 = true
			s.flags["write fence installed"] = true
			// clear the fence with the next fence version
			if rapid.Bool().Draw(rt, "clearFence") {
				b := cloneAuthority(a)
				b.ID.FenceVersion++
				b.WriteFence = ch.WriteFence{}
				s.control[c] = b
				if _, err := s.install(c, b); err == nil {
					st.installsOK++
					s.flags["write fence cleared"] = true
				}
			}
		case "crashHolders":
			// crash (within the outage budget) the replicas that hold acknowledged
			// entries of this channel, the leader first
			order := []ch.NodeID{s.control[c].Leader}
			for _, n := range s.nodes {
				if n.id != s.control[c].Leader {
					order = append(order, n.id)
				}
			}
			for _, id := range order {
				if !s.isUp(id) || s.outSet(isolated) >= budget {
					continue
				}
				if v := s.view(id, c); v.err != nil || v.state.LEO == 0 {
					continue
				}
				note("crash holder %d", id)
				s.crash(id)
				s.flags["crash"] = true
			}
		case "crash":
			n := verifDrawNode(rt, s, "crashNode", func(n *verifSimNode) bool { return s.isUp(n.id) })
			if n == nil || s.outSet(isolated) >= budget {
				continue
			}
			note("crash %d", n.id)
			s.crash(n.id)
			s.flags["crash"] = true
		case "restart":
			n := verifDrawNode(rt, s, "restartNode", func(n *verifSimNode) bool { return !s.isUp(n.id) })
			if n == nil {
				continue
			}
			note("restart %d", n.id)
			s.restart(n.id)
			s.flags["restart"] = true
			// a restarted owner has lost its in-memory fence: an authority older
			// than the one that sealed its durable log tail must still be refused
			for cc := 0; cc < s.cfg.Channels; cc++ {
				if !rapid.Bool().Draw(rt, "staleInstallAfterRestart") {
					continue
				}
				v := s.view(n.id, cc)
				if v.err != nil || v.state.LEO == 0 {
					continue
				}
				tail := v.state.TailIdentity
				stale := cloneAuthority(s.control[cc])
				stale.Leader = n.id
				stale.WriteFence = ch.WriteFence{}
				stale.ID = AuthorityID{ChannelEpoch: tail.ChannelEpoch, LeaderTerm: tail.LeaderTerm, FenceVersion: tail.FenceVersion}
				switch rapid.IntRange(0, 2).Draw(rt, "staleAfterRestartField") {
				case 0:
					if stale.ID.FenceVersion <= 1 {
						continue
					}
					stale.ID.FenceVersion--
				case 1:
					if stale.ID.LeaderTerm <= 1 {
						continue
					}
					stale.ID.LeaderTerm--
					stale.ID.FenceVersion += 3
				case 2:
					if stale.ID.ChannelEpoch <= 1 {
						continue
					}
					stale.ID.ChannelEpoch--
					stale.ID.LeaderTerm += 3
				}
				ctx, cancel := context.WithTimeout(context.Background(), 20*time.Second)
				inst, err := n.rt.Log().Install(ctx, stale)
				cancel()
				s.logf("stale install after restart ch=%d node=%d id=%+v (durable tail sealed by %d/%d/%d) -> %+v err=%v", cc, n.id, stale.ID, tail.ChannelEpoch, tail.LeaderTerm, tail.FenceVersion, inst, err)
				if err == nil {
					s.fail("C04", "stale-install-after-restart", "restarted node %d installed %+v although its durable log tail was sealed by the newer authority %d/%d/%d", n.id, stale.ID, tail.ChannelEpoch, tail.LeaderTerm, tail.FenceVersion)
				}
				n.attempted[cc] = cloneAuthority(stale)
				st.nontrivialC04 = true
				s.flags["authority older than the durable tail refused after restart"] = true
			}
			for cc := 0; cc < s.cfg.Channels; cc++ {
				if s.control[cc].Leader == n.id && !s.control[cc].WriteFence.Set() {
					if _, err := s.install(cc, s.control[cc]); err == nil {
						st.installsOK++
						s.flags["restarted owner re-installed its authority"] = true
					} else {
						st.installsFailed++
					}
				}
			}
		case "isolate", "isolateFollower":
			n := verifDrawNode(rt, s, "isoNode", func(n *verifSimNode) bool {
				return s.isUp(n.id) && !isolated[n.id] && (act == "isolate" || n.id != s.control[c].Leader)
			})
			if n == nil || s.outSet(isolated) >= budget {
				continue
			}
			note("isolate %d", n.id)
			for _, m := range s.nodes {
				if m.id != n.id {
					s.setCut(n.id, m.id, true)
				}
			}
			isolated[n.id] = true
			s.flags["node isolated"] = true
		case "cut":
			if N < 3 {
				continue
			}
			a := rapid.IntRange(1, N).Draw(rt, "cutA")
			b := rapid.IntRange(1, N).Draw(rt, "cutB")
			if a == b {
				continue
			}
			note("cut %d-%d", a, b)
			s.setCut(ch.NodeID(a), ch.NodeID(b), true)
			s.flags["single link cut"] = true
		case "heal":
			note("heal")
			s.healAll()
			isolated = map[ch.NodeID]bool{}
		case "drop":
			target := rapid.IntRange(1, N).Draw(rt, "dropTarget")
			kind := rapid.SampledFrom([]ExchangeKind{ExchangeReplicate, ExchangeReplicate, ExchangeProbe, ExchangeFetch}).Draw(rt, "dropKind")
			resp := rapid.Bool().Draw(rt, "dropResponse")
			cnt := rapid.IntRange(1, 3).Draw(rt, "dropCount")
			note("drop target=%d kind=%d resp=%v n=%d", target, kind, resp, cnt)
			s.armDrop(ch.NodeID(target), kind, resp, cnt)
			if resp && kind == ExchangeReplicate {
				s.flags["follower durable but response lost"] = true
			}
		case "divergentTail":
			// leave an unacknowledged minority tail on the isolated old leader, move
			// leadership, append under the new authority, then let the old leader
			// back in as a follower whose log end equals the next proposal's base
			L := s.control[c].Leader
			ln := s.node(L)
			if !s.isUp(L) || isolated[L] || s.outSet(isolated) >= budget || N < 3 {
				continue
			}
			if _, ok := ln.installed[c]; !ok {
				continue
			}
			note("divergentTail ch=%d oldLeader=%d", c, L)
			for _, m := range s.nodes {
				if m.id != L {
					s.setCut(L, m.id, true)
				}
			}
			isolated[L] = true
			lone := &verifSimCommand{channel: c, node: L, proposal: Proposal{Key: verifSimChannelKey(c), Expected: ln.installed[c].ID, CommandID: s.newCommandID(),
				Records: s.newRecords(c, rapid.IntRange(1, 2).Draw(rt, "tailRecs"), ln.installed[c].ID.ChannelEpoch, []byte("lone"))}}
			tailLen := len(lone.proposal.Records)
			s.commands = append(s.commands, lone)
			if _, err := s.commit(lone); err == nil {
				st.acks++
			}
			// variant: the old leader is let back in before the new authority is
			// installed, so the install sees its forked tail among the responders
			healFirst := rapid.IntRange(0, 3).Draw(rt, "healBeforeFailover") == 0
			if healFirst {
				for _, m := range s.nodes {
					if m.id != L {
						s.setCut(L, m.id, false)
					}
				}
				delete(isolated, L)
				s.flags["forked old leader reachable during the next install"] = true
			}
			target := verifDrawNode(rt, s, "failoverTarget", func(n *verifSimNode) bool { return s.isUp(n.id) && !isolated[n.id] && n.id != L })
			if target == nil {
				continue
			}
			doFailover(c, target, rapid.IntRange(0, 2).Draw(rt, "bestTarget") > 0)
			if inst, ok := target.installed[c]; ok && s.control[c].Leader == target.id {
				for i := rapid.IntRange(1, 2).Draw(rt, "newLeaderCommits"); i > 0; i-- {
					// often make the new leader's first proposal exactly as long as
					// the old leader's lone tail, so that the next proposal's base
					// equals the rejoining follower's divergent log end
					nrec := rapid.IntRange(1, 2).Draw(rt, "nrec")
					if rapid.IntRange(0, 2).Draw(rt, "matchTail") > 0 {
						nrec = tailLen
					}
					cmd := &verifSimCommand{channel: c, node: target.id, proposal: Proposal{Key: verifSimChannelKey(c), Expected: inst.ID, CommandID: s.newCommandID(),
						Records: s.newRecords(c, nrec, inst.ID.ChannelEpoch, []byte("new"))}}
					s.commands = append(s.commands, cmd)
					if _, err := s.commit(cmd); err == nil {
						st.acks++
					}
				}
			}
			for _, m := range s.nodes {
				if m.id != L {
					s.setCut(L, m.id, false)
				}
			}
			delete(isolated, L)
			if rapid.IntRange(0, 3).Draw(rt, "commitAfterRejoin") > 0 {
				if inst, ok := target.installed[c]; ok && s.control[c].Leader == target.id {
					cmd := &verifSimCommand{channel: c, node: target.id, proposal: Proposal{Key: verifSimChannelKey(c), Expected: inst.ID, CommandID: s.newCommandID(),
						Records: s.newRecords(c, 1, inst.ID.ChannelEpoch, []byte("rejoin"))}}
					s.commands = append(s.commands, cmd)
					if _, err := s.commit(cmd); err == nil {
						st.acks++
					}
				}
			}
			if !s.quiesce(time.Second) {
				s.flags["quiesce timed out"] = true
			}
			s.flags["old leader rejoined with an unacknowledged minority tail"] = true
		case "doubleFork":
			// two successive leaders are deposed, each leaving an unacknowledged tail
			// forked at a different point; then a lagging third replica takes over
			// with every voter reachable, so recovery sees both forks at once
			if N < 3 || s.outSet(isolated) > 0 {
				continue
			}
			L1 := s.control[c].Leader
			l1 := s.node(L1)
			if _, ok := l1.installed[c]; !ok || !s.isUp(L1) {
				continue
			}
			if !s.quiesce(time.Second) {
				s.flags["quiesce timed out"] = true
			}
			note("doubleFork ch=%d first=%d", c, L1)
			loneCommit := func(id ch.NodeID) {
				n := s.node(id)
				inst, ok := n.installed[c]
				if !ok {
					return
				}
				cmd := &verifSimCommand{channel: c, node: id, proposal: Proposal{Key: verifSimChannelKey(c), Expected: inst.ID, CommandID: s.newCommandID(),
					Records: s.newRecords(c, rapid.IntRange(1, 2).Draw(rt, "forkRecs"), inst.ID.ChannelEpoch, []byte("fork"))}}
				s.commands = append(s.commands, cmd)
				if _, err := s.commit(cmd); err == nil {
					st.acks++
				}
			}
			cutOff := func(id ch.NodeID, dead bool) {
				for _, m := range s.nodes {
					if m.id != id {
						s.setCut(id, m.id, dead)
					}
				}
			}
			cutOff(L1, true)
			for i := rapid.IntRange(1, 2).Draw(rt, "fork1Proposals"); i > 0; i-- {
				loneCommit(L1)
			}
			isolated[L1] = true
			t2 := verifDrawNode(rt, s, "secondLeader", func(n *verifSimNode) bool { return s.isUp(n.id) && n.id != L1 })
			if t2 == nil {
				continue
			}
			doFailover(c, t2, false)
			if inst, ok := t2.installed[c]; ok && s.control[c].Leader == t2.id {
				for i := rapid.IntRange(1, 2).Draw(rt, "sharedProposals"); i > 0; i-- {
					cmd := &verifSimCommand{channel: c, node: t2.id, proposal: Proposal{Key: verifSimChannelKey(c), Expected: inst.ID, CommandID: s.newCommandID(),
						Records: s.newRecords(c, rapid.IntRange(1, 2).Draw(rt, "nrec"), inst.ID.ChannelEpoch, []byte("shared"))}}
					s.commands = append(s.commands, cmd)
					if _, err := s.commit(cmd); err == nil {
						st.acks++
					}
				}
			}
			cutOff(L1, false)
			delete(isolated, L1)
			cutOff(t2.id, true)
			isolated[t2.id] = true
			for i := rapid.IntRange(1, 2).Draw(rt, "fork2Proposals"); i > 0; i-- {
				loneCommit(t2.id)
			}
			cutOff(t2.id, false)
			delete(isolated, t2.id)
			t3 := verifDrawNode(rt, s, "thirdLeader", func(n *verifSimNode) bool { return s.isUp(n.id) && n.id != L1 && n.id != t2.id })
			if t3 == nil {
				continue
			}
			doFailover(c, t3, false)
			s.flags["install with two forked ex-leaders among the responders"] = true
		case "rollingOutage":
			// followers drop out one after the other while the leader keeps
			// proposing (the last proposals reach fewer and fewer replicas, the
			// final one only the leader); then everybody but the leader comes back
			// and one of the early holders takes over
			rollBudget := budget
			if o.enabled["C02"] && !o.enabled["C01"] {
				rollBudget = N - 1 // a safety invariant holds whatever is down
			}
			if N < 3 || rollBudget < 2 || s.outSet(isolated) > 0 {
				continue
			}
			L := s.control[c].Leader
			ln := s.node(L)
			inst, ok := ln.installed[c]
			if !ok || !s.isUp(L) {
				continue
			}
			note("rollingOutage ch=%d leader=%d", c, L)
			var dropped []ch.NodeID
			for _, m := range s.nodes {
				if m.id == L || len(dropped) >= rollBudget {
					continue
				}
				for _, o := range s.nodes {
					if o.id != m.id {
						s.setCut(m.id, o.id, true)
					}
				}
				isolated[m.id] = true
				dropped = append(dropped, m.id)
				cmd := &verifSimCommand{channel: c, node: L, proposal: Proposal{Key: verifSimChannelKey(c), Expected: inst.ID, CommandID: s.newCommandID(),
					Records: s.newRecords(c, rapid.IntRange(1, 2).Draw(rt, "nrec"), inst.ID.ChannelEpoch, []byte("roll"))}}
				s.commands = append(s.commands, cmd)
				if _, err := s.commit(cmd); err == nil {
					st.acks++
				}
			}
			for _, id := range dropped {
				for _, o := range s.nodes {
					if o.id != id && o.id != L {
						s.setCut(id, o.id, false)
					}
				}
				delete(isolated, id)
			}
			for _, o := range s.nodes {
				if o.id != L {
					s.setCut(L, o.id, true)
				}
			}
			isolated[L] = true
			target := verifDrawNode(rt, s, "failoverTarget", func(n *verifSimNode) bool { return s.isUp(n.id) && n.id != L })
			if target == nil {
				continue
			}
			doFailover(c, target, rapid.Bool().Draw(rt, "bestTarget"))
			if ti, ok := target.installed[c]; ok && s.control[c].Leader == target.id {
				cmd := &verifSimCommand{channel: c, node: target.id, proposal: Proposal{Key: verifSimChannelKey(c), Expected: ti.ID, CommandID: s.newCommandID(),
					Records: s.newRecords(c, 1, ti.ID.ChannelEpoch, []byte("after"))}}
				s.commands = append(s.commands, cmd)
				if _, err := s.commit(cmd); err == nil {
					st.acks++
				}
			}
			s.flags["rolling outage: followers dropped one by one, then an early holder took over"] = true
		case "pageCut":
			// let j recovery pages (Fetch exchanges) through, then lose the next ones:
			// an Install is interrupted between two atomic page replacements
			target := rapid.IntRange(1, N).Draw(rt, "pageCutTarget")
			skip := rapid.IntRange(0, 3).Draw(rt, "pageCutAfter")
			note("pageCut target=%d after=%d", target, skip)
			s.armDropAfter(ch.NodeID(target), ExchangeFetch, rapid.Bool().Draw(rt, "pageCutResponse"), skip, 2)
			s.flags["recovery page fetch interruption armed"] = true
		case "flush":
			note("flush")
			if !s.quiesce(3 * time.Second) {
				s.flags["quiesce timed out"] = true
			}
		}
		if o.enabled["C02"] || o.enabled["C01"] {
			s.checkReplicas()
		}
	}

	// epilogue: heal, bring everything back, re-install the current authority
	// of every channel, let trailing replication and repair settle.
	s.healAll()
	isolated = map[ch.NodeID]bool{}
	for _, n := range s.nodes {
		if !s.isUp(n.id) {
			s.restart(n.id)
		}
	}
	for c := 0; c < s.cfg.Channels; c++ {
		a := s.control[c]
		if a.WriteFence.Set() {
			a = cloneAuthority(a)
			a.ID.FenceVersion++
			a.WriteFence = ch.WriteFence{}
			s.control[c] = a
		}
		if _, err := s.install(c, a); err == nil {
			st.installsOK++
			s.flags["final install on healed cluster succeeded"] = true
			// one more commit proves the channel is writable and pushes repair
			cmd := &verifSimCommand{channel: c, node: a.Leader, proposal: Proposal{Key: verifSimChannelKey(c), Expected: a.ID, CommandID: s.newCommandID(),
				Records: s.newRecords(c, 1, a.ID.ChannelEpoch, []byte("fin"))}}
			s.commands = append(s.commands, cmd)
			if _, err := s.commit(cmd); err == nil {
				st.acks++
			}
		} else {
			st.installsFailed++
			s.flags["final install on healed cluster FAILED (availability, not judged)"] = true
		}
	}
	if !s.quiesce(5 * time.Second) {
		s.flags["quiesce timed out"] = true
	}
	s.checkReplicas()
	s.finalLedgerCheck()
	if s.flags["replicas with different LEO at check"] {
		st.nontrivialC02 = true
	}
	sort.Strings(script)
	k.Key(strings.Join(s.hist, "|"))
	k.Sample(func() any {
		h := s.hist
		if len(h) > 40 {
			h = append(append([]string{}, h[:30]...), fmt.Sprintf("… %d more lines …", len(s.hist)-30))
		}
		return map[string]any{"N": N, "Q": Q, "channels": s.cfg.Channels, "acks": st.acks, "installs_ok": st.installsOK, "installs_failed": st.installsFailed, "history": h}
	})
	return st
}

func verifC01Weights() verifScriptWeights {
	return verifScriptWeights{commit: 10, retry: 2, failover: 6, reinstall: 2, crash: 3, restart: 3, isolate: 2, cut: 2, heal: 2, drop: 3, flush: 3, staleCommit: 2, cleanFailover: 4, divergentTail: 2, doubleFork: 1}
}

func verifDrawTopology(rt *rapid.T) (int, int) {
	switch rapid.IntRange(0, 13).Draw(rt, "topology") {
	case 10, 12, 13:
		// even voter counts: majority quorums, and the exact-half quorums the
		// code refuses (two halves need not intersect)
		pair := rapid.SampledFrom([][2]int{{2, 2}, {4, 3}, {2, 1}, {4, 2}}).Draw(rt, "evenTopology")
		return pair[0], pair[1]
	case 11:
		return 4, 3
	case 0:
		return 1, 1
	case 1:
		return 5, 3
	case 2:
		if kit.Thorough() {
			return 5, 3
		}
		return 3, 2
	case 3:
		return 3, 3
	default:
		return 3, 2
	}
}

func verifPreSeed() bool { return kit.HasKnownFinding("C01", verifC01KnownFirstProposal) }

// TestVerifC01Failover: acknowledged appends survive failover and crashes.
func TestVerifC01Failover(t *testing.T) {
	kit.Check(t, "C01", func(rt *rapid.T, k *kit.Case) {
		n, q := verifDrawTopology(rt)
		cfg := verifSimConfig{N: n, Q: q, Channels: rapid.IntRange(1, 2).Draw(rt, "channels"), RetainedCommands: 8, PageBytes: 4096,
			Pebble: kit.Thorough() && rapid.IntRange(0, 4).Draw(rt, "pebble") == 0, Timing: kit.Thorough() && rapid.IntRange(0, 3).Draw(rt, "timing") == 0}
		verifRunCase(rt, k, "C01", cfg, func(s *verifSim) {
			s.enabledOnly(map[string]bool{"C01": true})
			st := verifRunScript(rt, k, s, verifScriptOpts{prop: "C01", enabled: map[string]bool{"C01": true}, weights: verifC01Weights(), steps: kit.Scale("C01STEPS", 30, 45), preSeed: verifPreSeed()})
			k.SetNonTrivial(st.nontrivialC01)
			k.LabelIf(st.acks > 0, "≥1 acknowledged commit")
			k.LabelIf(st.installsOK > s.cfg.Channels, "≥1 successful failover/re-install")
			k.LabelIf(st.installsFailed > 0, "≥1 failed install")
			k.LabelIf(cfg.Pebble, "pebble stores")
			k.LabelIf(cfg.Timing, "real timers")
			k.Label(fmt.Sprintf("N=%d Q=%d", n, q))
			if st.excludedByKnownFinding > 0 {
				k.Label("first proposal pre-seeded on all voters (known finding excluded by construction)")
			}
		})
	})
}

// TestVerifC01KnownFirstProposal deterministically re-establishes F-C01-1 on
// every run: the first proposal of a channel acknowledged on {1,2} while node
// 3 was unreachable, then node 1 unreachable and the next leader term
// installed on node 2 (reaching {2,3}).
func TestVerifC01KnownFirstProposal(t *testing.T) {
	col := kit.For(t, "C01")
	for _, target := range []ch.NodeID{2} {
		k := col.NewCase()
		fatal := &verifFatalCollector{t: t}
		s := newVerifSim(fatal, verifSimConfig{N: 3, Q: 2, Channels: 1, RetainedCommands: 8, PageBytes: 4096})
		var violation *verifSimViolation
		func() {
			defer func() {
				if r := recover(); r != nil {
					if v, ok := r.(verifSimViolation); ok {
						violation = &v
						return
					}
					panic(r)
				}
			}()
			s.enabledOnly(map[string]bool{"C01": true})
			if _, err := s.install(0, s.control[0]); err != nil {
				t.Fatalf("VERIF-MACHINERY install: %v", err)
			}
			s.setCut(1, 3, true)
			s.setCut(2, 3, true)
			cmd := &verifSimCommand{channel: 0, node: 1, proposal: Proposal{Key: verifSimChannelKey(0), Expected: s.control[0].ID, CommandID: s.newCommandID(),
				Records: s.newRecords(0, 1, 1, []byte("first"))}}
			s.commands = append(s.commands, cmd)
			if _, err := s.commit(cmd); err != nil {
				t.Fatalf("VERIF-MACHINERY first commit on {1,2} failed: %v", err)
			}
			s.healAll()
			s.setCut(1, 2, true)
			s.setCut(1, 3, true)
			next := cloneAuthority(s.control[0])
			next.ID.LeaderTerm++
			next.ID.FenceVersion++
			next.Leader = target
			s.control[0] = next
			_, _ = s.install(0, next)
		}()
		hist := s.history()
		s.close()
		k.Key("known-first-proposal", target)
		k.NonTrivial()
		k.Sample(func() any { return strings.Split(hist, "\n") })
		if violation != nil {
			if violation.signature == verifC01KnownFirstProposal && kit.KnownFinding("C01", violation.signature) {
				k.Label("known finding reproduced: " + violation.signature)
			} else {
				path := kit.SaveReplay("C01", "known-first-proposal", "txt", []byte(hist))
				t.Fatalf("VERIF-VIOLATION C01 [%s]: %s\nhistory saved to %s\n%s", violation.signature, violation.msg, path, hist)
			}
		} else {
			k.Label("first-proposal schedule: no loss (finding not present)")
		}
		col.Commit(k)
	}
}

type verifFatalCollector struct{ t *testing.T }

func (f *verifFatalCollector) Fatalf(format string, args ...any) { f.t.Fatalf(format, args...) }

var _ = json.Marshal
