package replication

import (
	"strings"
	"os"
	"encoding/binary"
	"fmt"
	"reflect"
	"runtime"
	"sync"
	"sync/atomic"
	"testing"
	"unsafe"

	ch "github.com/WuKongIM/WuKongIM/pkg/channel"
	"pgregory.net/rapid"
	"verif.local/kit"
)

var verifC27Once sync.Once

// verifC27Tripped is set at the first panic / allocation violation seen in this
// process. A broken decoder can burn minutes of CPU on a single hostile frame
// (counts read from shifted bytes), and rapid cannot interrupt a running shrink
// attempt; so the first violation is reported once with its exact input (also
// saved as a .bin replay artefact) and every later execution fails at once.
var verifC27Tripped atomic.Bool

func verifC27Flag(codec, what string, in []byte) {
	verifC27Once.Do(func() {
		path := kit.SaveReplay("C27", "TestVerifC27Exchange", "bin", in)
		fmt.Printf("VERIF-VIOLATION C27 %s: %s on %d-byte input %x (saved %s)\n", codec, what, len(in), verifC27Trunc(in), path)
		verifC27Tripped.Store(true)
	})
}

func verifC27Trunc(b []byte) []byte {
	if len(b) > 96 {
		return b[:96]
	}
	return b
}

// verifC27Bound is the allocation bound for decoding an n-byte exchange frame:
// the codec's declared fixed bounds (MaxExchangeBatchItems item slots, and per
// started item one probe-index / record / proposal table of at most
// maxRecoveryProbeIndexes elements) plus a linear term for copied bytes.
func verifC27Bound(n int) uint64 {
	declared := uint64(MaxExchangeBatchItems)*uint64(unsafe.Sizeof(ExchangeItemResult{})+unsafe.Sizeof(ExchangeItem{})) +
		4*uint64(maxRecoveryProbeIndexes)*uint64(unsafe.Sizeof(ch.Record{})+unsafe.Sizeof(EntryProbe{})+unsafe.Sizeof(RecoveryProposal{})) +
		64<<10
	return declared + 96*uint64(n)
}

// verifC27Guard runs dec under a panic guard and the allocation bound.
func verifC27Guard(rt *rapid.T, codec string, in []byte, dec func([]byte) error) (err error) {
	if verifC27Tripped.Load() {
		rt.Fatalf("VERIF-VIOLATION %s: a decoder panic / allocation violation was established earlier in this process (see the first VERIF-VIOLATION line and its .bin artefact)", codec)
	}
	bound := verifC27Bound(len(in))
	var before, after runtime.MemStats
	runtime.ReadMemStats(&before)
	func() {
		defer func() {
			if r := recover(); r != nil {
				verifC27Flag(codec, fmt.Sprintf("decoder panicked (%v)", r), in)
				rt.Fatalf("VERIF-VIOLATION %s: decoder panicked on %d-byte input %x: %v", codec, len(in), verifC27Trunc(in), r)
			}
		}()
		err = dec(in)
	}()
	runtime.ReadMemStats(&after)
	if d := after.TotalAlloc - before.TotalAlloc; d > bound {
		verifC27Flag(codec, fmt.Sprintf("allocated %d bytes, bound %d,", d, bound), in)
		rt.Fatalf("VERIF-VIOLATION %s: decoding %d-byte input %x allocated %d bytes (bound %d)", codec, len(in), verifC27Trunc(in), d, bound)
	}
	return err
}

func verifC27Cuts(n int) []int {
	var cuts []int
	if n <= 200 {
		for c := 0; c < n; c++ {
			cuts = append(cuts, c)
		}
		return cuts
	}
	for c := 0; c < 40; c++ {
		cuts = append(cuts, c)
	}
	step := (n - 80) / 100
	if step < 1 {
		step = 1
	}
	for c := 40; c < n-40; c += step {
		cuts = append(cuts, c)
	}
	for c := n - 40; c < n; c++ {
		cuts = append(cuts, c)
	}
	return cuts
}

// ---- generators of valid values -------------------------------------------------

func verifC27Fixed32(t *rapid.T, label string) (out [32]byte) {
	seed := rapid.SliceOfN(rapid.Byte(), 1, 4).Draw(t, label)
	for i := range out {
		out[i] = seed[i%len(seed)] + byte(i)
	}
	if out == ([32]byte{}) {
		out[0] = 1
	}
	return out
}

func verifC27Str(max int) *rapid.Generator[string] {
	return rapid.Custom(func(t *rapid.T) string {
		switch rapid.IntRange(0, 3).Draw(t, "strKind") {
		case 0:
			return rapid.StringMatching(`[a-z0-9:_\-]{1,16}`).Draw(t, "ident")
		case 1:
			return string(kit.Bytes(max).Draw(t, "rawStr"))
		default:
			return rapid.StringN(0, 8, 32).Draw(t, "uni")
		}
	})
}

func verifC27NonEmpty(max int) *rapid.Generator[string] {
	return rapid.Custom(func(t *rapid.T) string {
		s := verifC27Str(max).Draw(t, "s")
		if s == "" {
			return "c"
		}
		return s
	})
}

// verifC27Chain is a consistent channel log prefix: sealed proposals with their
// records and derived entry identities, as a leader produces them.
type verifC27Chain struct {
	epoch, fence uint64
	proposals    []RecoveryProposal
	entries      []ch.EntryIdentity // entries[i] has Index i+1
}

func verifC27Records(t *rapid.T, epoch uint64, base uint64, n int, big bool) []ch.Record {
	records := make([]ch.Record, n)
	withIndex := rapid.Bool().Draw(t, "withIndex")
	for i := range records {
		maxPayload := 48
		if big {
			maxPayload = 16384
		}
		payload := kit.Bytes(maxPayload).Draw(t, "payload")
		if len(payload) == 0 {
			payload = nil // the codec carries a length only: nil and empty are one value
		}
		r := ch.Record{
			ID: 1 + kit.Uint64Edge().Draw(t, "id")%(1<<63), Epoch: epoch, Setting: rapid.Byte().Draw(t, "setting"),
			FromUID: verifC27Str(24).Draw(t, "from"), ClientMsgNo: verifC27Str(24).Draw(t, "clientMsgNo"),
			ServerTimestampMS: rapid.Int64Range(1, 1<<62).Draw(t, "ts"), SyncOnce: rapid.Bool().Draw(t, "syncOnce"),
			Payload: payload, SizeBytes: rapid.IntRange(0, 1<<40).Draw(t, "size"),
		}
		if withIndex {
			r.Index = base + uint64(i) + 1
		}
		records[i] = r
	}
	return records
}

func verifC27ChainGen(maxProposals int) *rapid.Generator[verifC27Chain] {
	return rapid.Custom(func(t *rapid.T) verifC27Chain {
		c := verifC27Chain{epoch: 1 + kit.Uint64Edge().Draw(t, "epoch")%(1<<62), fence: 1 + kit.Uint64Edge().Draw(t, "fence")%(1<<62)}
		term := 1 + rapid.Uint64Range(0, 1<<40).Draw(t, "term")
		base := uint64(0)
		var prev ch.EntryIdentity
		n := rapid.IntRange(1, maxProposals).Draw(t, "proposals")
		for p := 0; p < n; p++ {
			count := rapid.SampledFrom([]int{1, 1, 1, 2, 3, 7}).Draw(t, "records")
			records := verifC27Records(t, c.epoch, base, count, p == 0 && rapid.IntRange(0, 9).Draw(t, "big") == 0)
			manifest := ch.ProposalManifest{
				Version: ch.ProposalManifestVersion, ChannelEpoch: c.epoch, LeaderTerm: term, FenceVersion: c.fence,
				CommandID: ch.CommandID(verifC27Fixed32(t, "command")), BaseOffset: base, LastOffset: base + uint64(count),
				PreviousIndex: base,
			}
			if base > 0 {
				manifest.PreviousTerm, manifest.PreviousDigest = prev.LeaderTerm, prev.Digest
			}
			sealed, entries, ok := ch.SealProposalManifest(manifest, records)
			if !ok {
				t.Fatalf("harness: SealProposalManifest refused %+v", manifest)
			}
			c.proposals = append(c.proposals, RecoveryProposal{Manifest: sealed, Records: records})
			c.entries = append(c.entries, entries...)
			prev = entries[len(entries)-1]
			base += uint64(count)
			term += rapid.Uint64Range(0, 2).Draw(t, "termStep")
		}
		return c
	})
}

func (c verifC27Chain) state(committed uint64) ReplicaState {
	last := c.proposals[len(c.proposals)-1]
	return ReplicaState{LEO: last.Manifest.LastOffset, Committed: committed, Manifest: last.Manifest, TailIdentity: c.entries[len(c.entries)-1]}
}

type verifC27Peer struct {
	key              ch.ChannelKey
	id               ch.ChannelID
	leader, follower ch.NodeID
}

func verifC27PeerGen() *rapid.Generator[verifC27Peer] {
	return rapid.Custom(func(t *rapid.T) verifC27Peer {
		leader := 1 + kit.Uint64Edge().Draw(t, "leader")%(1<<63)
		follower := 1 + kit.Uint64Edge().Draw(t, "follower")%(1<<63)
		if follower == leader {
			follower = leader + 1
		}
		return verifC27Peer{
			key: ch.ChannelKey(verifC27NonEmpty(64).Draw(t, "key")), id: ch.ChannelID{ID: verifC27NonEmpty(64).Draw(t, "id"), Type: rapid.Byte().Draw(t, "type")},
			leader: ch.NodeID(leader), follower: ch.NodeID(follower),
		}
	})
}

func verifC27Indexes(t *rapid.T, max int) []uint64 {
	if rapid.IntRange(0, 5).Draw(t, "nilIndexes") == 0 {
		return nil
	}
	n := rapid.SampledFrom([]int{0, 1, 2, 5, 17, max}).Draw(t, "indexCount")
	start := 1 + kit.Uint64Edge().Draw(t, "indexStart")%(1<<62)
	out := make([]uint64, n) // n == 0 gives the empty, non-nil slice: the codec distinguishes it from nil
	stride := uint64(1 + rapid.IntRange(0, 3).Draw(t, "stride"))
	for i := range out {
		out[i] = start + uint64(i)*stride
	}
	if len(out) > 1 && rapid.Bool().Draw(t, "descending") {
		for i, j := 0, len(out)-1; i < j; i, j = i+1, j-1 {
			out[i], out[j] = out[j], out[i]
		}
	}
	return out
}

func verifC27Replicate(t *rapid.T, p verifC27Peer, c verifC27Chain) ReplicateRequest {
	prop := c.proposals[rapid.IntRange(0, len(c.proposals)-1).Draw(t, "whichProposal")]
	return ReplicateRequest{
		ChannelKey: p.key, ChannelID: p.id, Leader: p.leader, Follower: p.follower, Manifest: prop.Manifest, Records: prop.Records,
		Committed: rapid.Uint64Range(0, prop.Manifest.LastOffset).Draw(t, "committed"), ServerAllocatedMessageIDs: rapid.Bool().Draw(t, "serverIDs"),
	}
}

func verifC27Fetch(t *rapid.T, p verifC27Peer, c verifC27Chain) FetchRequest {
	leo := uint64(len(c.entries))
	from := rapid.Uint64Range(1, leo).Draw(t, "from")
	through := rapid.Uint64Range(from, leo).Draw(t, "through")
	req := FetchRequest{
		ChannelKey: p.key, ChannelID: p.id, Leader: p.leader, Follower: p.follower,
		Expected: c.state(rapid.Uint64Range(0, leo).Draw(t, "expectedCommitted")), From: from, Through: through,
		MaxBytes: rapid.IntRange(1, 1<<40).Draw(t, "maxBytes"),
	}
	if from > 1 {
		req.Previous = c.entries[from-2]
	}
	return req
}

func verifC27BatchGen() *rapid.Generator[ExchangeBatch] {
	return rapid.Custom(func(t *rapid.T) ExchangeBatch {
		batch := ExchangeBatch{Version: ExchangeVersion, Priority: ExchangePriority(rapid.IntRange(0, 1).Draw(t, "priority"))}
		n := rapid.SampledFrom([]int{1, 1, 2, 3, 5, 9}).Draw(t, "items")
		chain := verifC27ChainGen(4).Draw(t, "chain")
		for i := 0; i < n; i++ {
			peer := verifC27PeerGen().Draw(t, "peer")
			item := ExchangeItem{RequestID: 1 + kit.Uint64Edge().Draw(t, "requestID")%(1<<63)}
			kind := ExchangeReplicate
			if batch.Priority == ExchangePriorityForeground {
				kind = ExchangeKind(rapid.IntRange(1, 3).Draw(t, "kind"))
			}
			item.Kind = kind
			switch kind {
			case ExchangeReplicate:
				r := verifC27Replicate(t, peer, chain)
				item.Replicate = &r
			case ExchangeProbe:
				item.Probe = &ProbeRequest{ChannelKey: peer.key, ChannelID: peer.id, Leader: peer.leader, Follower: peer.follower, Indexes: verifC27Indexes(t, maxRecoveryProbeIndexes)}
			case ExchangeFetch:
				f := verifC27Fetch(t, peer, chain)
				item.Fetch = &f
			}
			batch.Items = append(batch.Items, item)
		}
		return batch
	})
}

func verifC27ResultGen() *rapid.Generator[ExchangeBatchResult] {
	return rapid.Custom(func(t *rapid.T) ExchangeBatchResult {
		result := ExchangeBatchResult{Version: ExchangeVersion}
		n := rapid.SampledFrom([]int{1, 1, 2, 3, 6}).Draw(t, "items")
		chain := verifC27ChainGen(4).Draw(t, "chain")
		for i := 0; i < n; i++ {
			peer := verifC27PeerGen().Draw(t, "peer")
			item := ExchangeItemResult{RequestID: 1 + kit.Uint64Edge().Draw(t, "requestID")%(1<<63)}
			switch rapid.IntRange(0, 3).Draw(t, "resultKind") {
			case 0: // replicate outcome (durable with proof, or a refusal without)
				req := verifC27Replicate(t, peer, chain)
				status := ReplicateStatus(rapid.IntRange(1, 7).Draw(t, "status"))
				item.Replicate.Status = status
				if status.Durable() {
					item.Replicate.LastOffset, item.Replicate.Proof = req.Manifest.LastOffset, replicateProofFor(req)
				} else if status == ReplicateNeedFrom {
					item.Replicate.NeedFrom = kit.Uint64Edge().Draw(t, "needFrom")
				}
			case 1: // probe view
				req := ProbeRequest{ChannelKey: peer.key, ChannelID: peer.id, Leader: peer.leader, Follower: peer.follower, Indexes: verifC27Indexes(t, 40)}
				item.Probe.Proof = probeProofFor(req)
				item.Probe.State = chain.state(rapid.Uint64Range(0, uint64(len(chain.entries))).Draw(t, "committed"))
				if req.Indexes != nil {
					item.Probe.Entries = make([]EntryProbe, len(req.Indexes))
					for j, index := range req.Indexes {
						item.Probe.Entries[j] = EntryProbe{Index: index}
						if index <= uint64(len(chain.entries)) {
							item.Probe.Entries[j].Present, item.Probe.Entries[j].Identity = true, chain.entries[index-1]
						}
					}
				}
			case 2: // fetch page
				req := verifC27Fetch(t, peer, chain)
				item.Fetch.Proof = fetchProofFor(req)
				item.Fetch.State = req.Expected
				switch rapid.IntRange(0, 2).Draw(t, "page") {
				case 0:
					item.Fetch.Proposals = nil
				case 1:
					item.Fetch.Proposals = []RecoveryProposal{}
				default:
					item.Fetch.Proposals = append([]RecoveryProposal(nil), chain.proposals...)
				}
			default: // all-zero result body (an item that only carries its correlation id)
			}
			result.Items = append(result.Items, item)
		}
		return result
	})
}

// verifC27Hostile returns frames derived from a valid one by overwriting one
// position with the uvarint of a large count / length (the class "hostile count
// field with a tiny input").
func verifC27Hostile(t *rapid.T, enc []byte) [][]byte {
	big := binary.AppendUvarint(nil, rapid.SampledFrom([]uint64{257, 258, 4096, 1 << 14, 1<<15 + 3}).Draw(t, "hostileCount"))
	var positions []int
	if len(enc) <= 300 {
		for p := 0; p < len(enc); p++ {
			positions = append(positions, p)
		}
	} else {
		for p := 0; p < 24; p++ {
			positions = append(positions, p)
		}
		for i := 0; i < 96; i++ {
			positions = append(positions, rapid.IntRange(24, len(enc)-1).Draw(t, "hostilePos"))
		}
	}
	tiny := rapid.Bool().Draw(t, "tinyTail")
	out := make([][]byte, 0, len(positions))
	for _, p := range positions {
		f := append(append([]byte(nil), enc[:p]...), big...)
		if !tiny {
			f = append(f, enc[p+1:]...)
		} else if p+1 < len(enc) {
			f = append(f, enc[p+1:min(len(enc), p+9)]...)
		}
		out = append(out, f)
	}
	return out
}

// TestVerifC27ExchangeBatch: request batches round-trip exactly, every strict
// prefix and every extension is rejected, hostile counts / mutations never
// panic or allocate beyond the declared bounds.
func TestVerifC27ExchangeBatch(t *testing.T) {
	kit.Check(t, "C27", func(rt *rapid.T, k *kit.Case) {
		batch := verifC27BatchGen().Draw(rt, "batch")
		enc, err := EncodeExchangeBatch(batch)
		if err != nil {
			rt.Fatalf("EncodeExchangeBatch refused a valid batch: %v\n%+v", err, batch)
		}
		var got ExchangeBatch
		if err := verifC27Guard(rt, "replication.DecodeExchangeBatch", enc, func(b []byte) error {
			var e error
			got, e = DecodeExchangeBatch(b)
			return e
		}); err != nil {
			rt.Fatalf("DecodeExchangeBatch(EncodeExchangeBatch(batch)) error: %v", err)
		}
		if !reflect.DeepEqual(got, batch) {
			rt.Fatalf("exchange batch round trip differs:\n got  %s\n want %s", verifC27Dump(got), verifC27Dump(batch))
		}
		cuts := verifC27Cuts(len(enc))
		for _, cut := range cuts {
			if _, err := DecodeExchangeBatch(enc[:cut]); err == nil {
				rt.Fatalf("DecodeExchangeBatch accepted strict prefix %d/%d", cut, len(enc))
			}
		}
		ext := append(append([]byte(nil), enc...), rapid.SliceOfN(rapid.Byte(), 1, 8).Draw(rt, "ext")...)
		if _, err := DecodeExchangeBatch(ext); err == nil {
			rt.Fatalf("DecodeExchangeBatch accepted %d trailing bytes", len(ext)-len(enc))
		}
		hostile := verifC27Hostile(rt, enc)
		hostileAccepted := 0
		for _, f := range hostile {
			if verifC27Guard(rt, "replication.DecodeExchangeBatch(hostile count)", f, func(b []byte) error { _, e := DecodeExchangeBatch(b); return e }) == nil {
				hostileAccepted++
			}
		}
		mut, m := kit.Mutate(rt, enc)
		var mutBatch ExchangeBatch
		errMut := verifC27Guard(rt, "replication.DecodeExchangeBatch(mutated)", mut, func(b []byte) error {
			var e error
			mutBatch, e = DecodeExchangeBatch(b)
			return e
		})
		if errMut == nil {
			// an accepted frame is a valid batch: it must be encodable again to the same value
			re, err := EncodeExchangeBatch(mutBatch)
			if err != nil {
				rt.Fatalf("decoder accepted a frame whose value the encoder refuses (%v): %x", err, verifC27Trunc(mut))
			}
			back, err := DecodeExchangeBatch(re)
			if err != nil || !reflect.DeepEqual(back, mutBatch) {
				rt.Fatalf("accepted mutated frame is not a fixed point of the codec (%v)", err)
			}
		}
		kinds := map[ExchangeKind]bool{}
		for _, item := range batch.Items {
			kinds[item.Kind] = true
		}
		k.Key(enc, m.Kind, m.Pos, m.Val)
		k.SetNonTrivial(len(cuts) > 0 && len(hostile) > 0)
		k.Label("codec=replication.ExchangeBatch")
		k.LabelIf(kinds[ExchangeReplicate], "ExchangeBatch: has replicate item")
		k.LabelIf(kinds[ExchangeProbe], "ExchangeBatch: has probe item")
		k.LabelIf(kinds[ExchangeFetch], "ExchangeBatch: has fetch item")
		k.LabelIf(len(batch.Items) > 1, "ExchangeBatch: >1 item")
		k.LabelIf(errMut == nil, "ExchangeBatch: mutated frame accepted")
		k.LabelIf(errMut != nil, "ExchangeBatch: mutated frame rejected")
		k.LabelIf(hostileAccepted > 0, "ExchangeBatch: some hostile-count frame accepted (count landed in data)")
		k.Sample(func() any {
			return fmt.Sprintf("batch items=%d priority=%d frame=%dB prefixes=%d hostile=%d mutation=%s@%d", len(batch.Items), batch.Priority, len(enc), len(cuts), len(hostile), m.Kind, m.Pos)
		})
	})
}

// TestVerifC27ExchangeBatchResult: the same for position-correlated results.
func TestVerifC27ExchangeBatchResult(t *testing.T) {
	kit.Check(t, "C27", func(rt *rapid.T, k *kit.Case) {
		result := verifC27ResultGen().Draw(rt, "result")
		enc, err := EncodeExchangeBatchResult(result)
		if err != nil {
			rt.Fatalf("EncodeExchangeBatchResult refused a valid result: %v", err)
		}
		var got ExchangeBatchResult
		if err := verifC27Guard(rt, "replication.DecodeExchangeBatchResult", enc, func(b []byte) error {
			var e error
			got, e = DecodeExchangeBatchResult(b)
			return e
		}); err != nil {
			rt.Fatalf("DecodeExchangeBatchResult(Encode(result)) error: %v", err)
		}
		if !reflect.DeepEqual(got, result) {
			rt.Fatalf("exchange result round trip differs:\n got  %+v\n want %+v", got, result)
		}
		cuts := verifC27Cuts(len(enc))
		for _, cut := range cuts {
			if _, err := DecodeExchangeBatchResult(enc[:cut]); err == nil {
				rt.Fatalf("DecodeExchangeBatchResult accepted strict prefix %d/%d", cut, len(enc))
			}
		}
		ext := append(append([]byte(nil), enc...), rapid.SliceOfN(rapid.Byte(), 1, 8).Draw(rt, "ext")...)
		if _, err := DecodeExchangeBatchResult(ext); err == nil {
			rt.Fatalf("DecodeExchangeBatchResult accepted %d trailing bytes", len(ext)-len(enc))
		}
		hostile := verifC27Hostile(rt, enc)
		for _, f := range hostile {
			_ = verifC27Guard(rt, "replication.DecodeExchangeBatchResult(hostile count)", f, func(b []byte) error { _, e := DecodeExchangeBatchResult(b); return e })
		}
		mut, m := kit.Mutate(rt, enc)
		var mutResult ExchangeBatchResult
		errMut := verifC27Guard(rt, "replication.DecodeExchangeBatchResult(mutated)", mut, func(b []byte) error {
			var e error
			mutResult, e = DecodeExchangeBatchResult(b)
			return e
		})
		if errMut == nil {
			re, err := EncodeExchangeBatchResult(mutResult)
			if err != nil {
				rt.Fatalf("decoder accepted a result frame whose value the encoder refuses (%v)", err)
			}
			back, err := DecodeExchangeBatchResult(re)
			if err != nil || !reflect.DeepEqual(back, mutResult) {
				rt.Fatalf("accepted mutated result frame is not a fixed point of the codec (%v)", err)
			}
		}
		var durable, probe, fetch bool
		for _, item := range result.Items {
			durable = durable || item.Replicate.Status.Durable()
			probe = probe || len(item.Probe.Entries) > 0
			fetch = fetch || len(item.Fetch.Proposals) > 0
		}
		k.Key(enc, m.Kind, m.Pos, m.Val)
		k.SetNonTrivial(len(cuts) > 0 && len(hostile) > 0)
		k.Label("codec=replication.ExchangeBatchResult")
		k.LabelIf(durable, "ExchangeBatchResult: durable replicate proof")
		k.LabelIf(probe, "ExchangeBatchResult: probe entries")
		k.LabelIf(fetch, "ExchangeBatchResult: fetch proposals")
		k.LabelIf(errMut == nil, "ExchangeBatchResult: mutated frame accepted")
		k.LabelIf(errMut != nil, "ExchangeBatchResult: mutated frame rejected")
		k.Sample(func() any {
			return fmt.Sprintf("result items=%d frame=%dB prefixes=%d hostile=%d mutation=%s@%d", len(result.Items), len(enc), len(cuts), len(hostile), m.Kind, m.Pos)
		})
	})
}

// TestVerifC27ExchangeGarbage: arbitrary bytes, with a plausible header half of the time.
func TestVerifC27ExchangeGarbage(t *testing.T) {
	kit.Check(t, "C27", func(rt *rapid.T, k *kit.Case) {
		raw := kit.Bytes(4096).Draw(rt, "raw")
		shaped := rapid.IntRange(0, 2).Draw(rt, "shaped")
		if shaped > 0 {
			hdr := binary.AppendUvarint(nil, uint64(ExchangeVersion))
			if shaped == 1 {
				hdr = append(hdr, byte(rapid.IntRange(0, 1).Draw(rt, "priority")))
			}
			hdr = binary.AppendUvarint(hdr, uint64(rapid.SampledFrom([]int{1, 2, 255, 256, 257, 1 << 15}).Draw(rt, "count")))
			raw = append(hdr, raw...)
		}
		errB := verifC27Guard(rt, "replication.DecodeExchangeBatch(garbage)", raw, func(b []byte) error { _, e := DecodeExchangeBatch(b); return e })
		errR := verifC27Guard(rt, "replication.DecodeExchangeBatchResult(garbage)", raw, func(b []byte) error { _, e := DecodeExchangeBatchResult(b); return e })
		if len(raw) == 0 && (errB == nil || errR == nil) {
			rt.Fatalf("empty frame accepted")
		}
		k.Key("garbage", raw)
		k.SetNonTrivial(len(raw) > 0)
		k.Label("codec=replication garbage")
		k.LabelIf(errB == nil || errR == nil, "replication garbage: accepted")
		k.LabelIf(shaped > 0, "replication garbage: plausible header")
		k.Sample(func() any { return fmt.Sprintf("garbage %dB %x batchErr=%v resultErr=%v", len(raw), verifC27Trunc(raw), errB, errR) })
	})
}

func verifC27Dump(b ExchangeBatch) string {
	s := fmt.Sprintf("{v=%d prio=%d", b.Version, b.Priority)
	for _, item := range b.Items {
		s += fmt.Sprintf(" [%d kind=%d", item.RequestID, item.Kind)
		if item.Replicate != nil {
			s += fmt.Sprintf(" R%+v", *item.Replicate)
		}
		if item.Probe != nil {
			s += fmt.Sprintf(" P%+v", *item.Probe)
		}
		if item.Fetch != nil {
			s += fmt.Sprintf(" F%+v", *item.Fetch)
		}
		s += "]"
	}
	return s + "}"
}

// FuzzVerifC27ExchangeBatch / ...Result: native fuzzing of both decoders
// (thorough tier). Oracle: no panic, and accepted frames are codec fixed points.
func FuzzVerifC27ExchangeBatch(f *testing.F) {
	for _, seed := range verifC27FuzzSeeds() {
		f.Add(seed)
	}
	f.Fuzz(func(t *testing.T, data []byte) {
		batch, err := DecodeExchangeBatch(data)
		if err != nil {
			return
		}
		re, err := EncodeExchangeBatch(batch)
		if err != nil {
			t.Fatalf("VERIF-VIOLATION accepted frame not encodable: %v", err)
		}
		back, err := DecodeExchangeBatch(re)
		if err != nil || !reflect.DeepEqual(back, batch) {
			t.Fatalf("VERIF-VIOLATION accepted frame is not a fixed point: %v", err)
		}
	})
}

func FuzzVerifC27ExchangeBatchResult(f *testing.F) {
	for _, seed := range verifC27FuzzSeeds() {
		f.Add(seed)
	}
	f.Fuzz(func(t *testing.T, data []byte) {
		result, err := DecodeExchangeBatchResult(data)
		if err != nil {
			return
		}
		re, err := EncodeExchangeBatchResult(result)
		if err != nil {
			t.Fatalf("VERIF-VIOLATION accepted result frame not encodable: %v", err)
		}
		back, err := DecodeExchangeBatchResult(re)
		if err != nil || !reflect.DeepEqual(back, result) {
			t.Fatalf("VERIF-VIOLATION accepted result frame is not a fixed point: %v", err)
		}
	})
}

func verifC27FuzzSeeds() [][]byte {
	var seeds [][]byte
	for i := 0; i < 6; i++ {
		b := verifC27BatchGen().Example(i)
		if enc, err := EncodeExchangeBatch(b); err == nil {
			seeds = append(seeds, enc)
		}
		r := verifC27ResultGen().Example(i)
		if enc, err := EncodeExchangeBatchResult(r); err == nil {
			seeds = append(seeds, enc)
		}
	}
	return append(seeds, []byte{3, 0, 1}, []byte{3, 1})
}

// TestVerifC27ExchangeReplayArtefact re-decodes a saved .bin frame
// (./check C27 --replay <file.bin>).
func TestVerifC27ExchangeReplayArtefact(t *testing.T) {
	path := kit.ReplayFile()
	if !strings.HasSuffix(path, ".bin") {
		t.Skip("no .bin artefact to replay")
	}
	in, err := os.ReadFile(path)
	if err != nil {
		t.Fatalf("VERIF-MACHINERY read artefact: %v", err)
	}
	var before, after runtime.MemStats
	runtime.ReadMemStats(&before)
	func() {
		defer func() {
			if r := recover(); r != nil {
				t.Fatalf("VERIF-VIOLATION exchange decoder panicked on the artefact: %v", r)
			}
		}()
		_, _ = DecodeExchangeBatch(in)
		_, _ = DecodeExchangeBatchResult(in)
	}()
	runtime.ReadMemStats(&after)
	if d := after.TotalAlloc - before.TotalAlloc; d > 2*verifC27Bound(len(in)) {
		t.Fatalf("VERIF-VIOLATION decoding the %d-byte artefact allocated %d bytes (bound %d)", len(in), d, 2*verifC27Bound(len(in)))
	}
}
