package replication

// Cluster simulator shared by the C01–C04 checks: N real Runtimes (real
// quorumLog, peer batcher, repair owner, ExchangeServer) over real
// ReplicaStores, wired by a harness PeerLink whose behaviour the generated
// script controls. See /verif/DESIGN.md §4 Group A.

import (
	"context"
	"errors"
	"fmt"
	"sort"
	"strings"
	"sync"
	"time"

	ch "github.com/WuKongIM/WuKongIM/pkg/channel"
	channelstore "github.com/WuKongIM/WuKongIM/pkg/channel/store"
	goruntimeregistry "github.com/WuKongIM/WuKongIM/pkg/goroutine"
)

var errVerifSimLink = errors.New("verif sim: link failure")

type verifSimFataler interface {
	Fatalf(format string, args ...any)
}

type verifSimConfig struct {
	N, Q             int
	Channels         int
	RetainedCommands int
	PageBytes        int
	// BatchItems, when > 0, is RuntimeConfig.BatchItems (also the largest
	// proposal the owner accepts); 0 keeps the production default.
	BatchItems       int
	Pebble           bool
	PebbleDir        string
	// Timing: when false the harness owns trailing replication (huge flush
	// interval and hedge delay; explicit flush). When true small real timers
	// run and the Go scheduler adds its own interleavings.
	Timing bool
}

type verifSimNode struct {
	id        ch.NodeID
	factory   channelstore.Factory
	store     ReplicaStore
	rt        *Runtime
	up        bool
	installed map[int]Authority // last authority this node installed successfully (ready) per channel
	attempted map[int]Authority // last authority this node attempted to install per channel
}

type verifSimLedgerEntry struct {
	identity  ch.EntryIdentity
	command   ch.CommandID
	authority AuthorityID
	node      ch.NodeID
	base      uint64 // proposal base offset
	record    ch.Record
}

type verifSimCommand struct {
	channel   int
	node      ch.NodeID
	proposal  Proposal
	acked     bool
	receipt   Receipt
	ambiguous bool
}

type verifSimLinkKey struct {
	target ch.NodeID
	kind   ExchangeKind
}

type verifSim struct {
	t   verifSimFataler
	cfg verifSimConfig

	nodes []*verifSimNode // index id-1

	mu       sync.Mutex
	cut      map[[2]ch.NodeID]bool // directed link dead
	dropReq  map[verifSimLinkKey]int
	dropResp map[verifSimLinkKey]int
	dropSkip map[verifSimLinkKey]int // deliveries to let through before an armed drop starts
	delivered map[ExchangeKind]int

	hist []string

	control   []Authority                          // per channel: authority the control plane currently holds
	ledger    []map[uint64]verifSimLedgerEntry     // per channel: acknowledged seq → entry
	commands  []*verifSimCommand                   // every proposal ever issued
	committed []map[ch.NodeID]uint64               // per channel per node: highest Committed observed
	nextMsgID uint64
	nextCmd   uint64

	// serverIDs marks every proposal of the script as server-allocated
	serverIDs bool
	// labels measured during the run
	flags map[string]bool
	// enabled restricts which properties' oracles are fatal in this check
	// (nil = all); oracles of other properties that trip are only labelled.
	enabled map[string]bool
}

func (s *verifSim) enabledOnly(m map[string]bool) { s.enabled = m }

func verifSimChannelID(c int) ch.ChannelID { return ch.ChannelID{ID: fmt.Sprintf("vc%d", c), Type: 2} }
func verifSimChannelKey(c int) ch.ChannelKey { return ch.ChannelKeyForID(verifSimChannelID(c)) }

func newVerifSim(t verifSimFataler, cfg verifSimConfig) *verifSim {
	s := &verifSim{t: t, cfg: cfg, cut: map[[2]ch.NodeID]bool{}, dropReq: map[verifSimLinkKey]int{}, dropResp: map[verifSimLinkKey]int{}, dropSkip: map[verifSimLinkKey]int{},
		delivered: map[ExchangeKind]int{}, flags: map[string]bool{}, nextMsgID: 1000, nextCmd: 1}
	for i := 1; i <= cfg.N; i++ {
		n := &verifSimNode{id: ch.NodeID(i), installed: map[int]Authority{}, attempted: map[int]Authority{}}
		if cfg.Pebble {
			n.factory = channelstore.NewMessageDBFactory(fmt.Sprintf("%s/n%d", cfg.PebbleDir, i))
		} else {
			n.factory = channelstore.NewMemoryFactory()
		}
		s.nodes = append(s.nodes, n)
		s.startNode(n)
	}
	voters := make([]ch.NodeID, cfg.N)
	for i := range voters {
		voters[i] = ch.NodeID(i + 1)
	}
	for c := 0; c < cfg.Channels; c++ {
		s.control = append(s.control, Authority{
			Key: verifSimChannelKey(c), ChannelID: verifSimChannelID(c),
			ID:     AuthorityID{ChannelEpoch: 1, LeaderTerm: 1, FenceVersion: 1},
			Leader: 1, Voters: voters, WriteQuorum: cfg.Q,
		})
		s.ledger = append(s.ledger, map[uint64]verifSimLedgerEntry{})
		s.committed = append(s.committed, map[ch.NodeID]uint64{})
	}
	return s
}

func (s *verifSim) logf(format string, args ...any) {
	s.hist = append(s.hist, fmt.Sprintf(format, args...))
}

func (s *verifSim) history() string { return strings.Join(s.hist, "\n") }

func (s *verifSim) node(id ch.NodeID) *verifSimNode { return s.nodes[int(id)-1] }

func (s *verifSim) startNode(n *verifSimNode) {
	store, err := NewStoreAdapter(StoreAdapterConfig{Factory: n.factory, MaxBatchItems: 64, MaxBatchBytes: 4 << 20})
	if err != nil {
		s.t.Fatalf("VERIF-MACHINERY NewStoreAdapter: %v", err)
	}
	cfg := RuntimeConfig{
		LocalNode: n.id, Store: store, Link: verifSimLink{from: n.id, sim: s}, Goroutines: goruntimeregistry.New(),
		MaxVoters: s.cfg.N, MaxRetainedCommands: s.cfg.RetainedCommands, RecoveryPageBytes: s.cfg.PageBytes,
		ExchangeTimeout: 5 * time.Second, LocalTimeout: 5 * time.Second, RecoveryTimeout: 8 * time.Second, CloseTimeout: 10 * time.Second,
		LocalWorkers: 2, PeerWorkers: 8, PeerTargetFlight: 4, RepairWorkers: 2,
	}
	if s.cfg.BatchItems > 0 {
		cfg.BatchItems = s.cfg.BatchItems
	}
	if s.cfg.Timing {
		cfg.ReplicaHedgeDelay = 2 * time.Millisecond
		cfg.TrailingFlushInterval = 3 * time.Millisecond
	} else {
		cfg.ReplicaHedgeDelay = time.Hour
		cfg.TrailingFlushInterval = time.Hour
	}
	rt, err := NewRuntime(cfg)
	if err != nil {
		s.t.Fatalf("VERIF-MACHINERY NewRuntime(node=%d): %v", n.id, err)
	}
	n.store, n.rt = store, rt
	s.mu.Lock()
	n.up = true
	s.mu.Unlock()
}

func (s *verifSim) close() {
	for _, n := range s.nodes {
		if n.rt != nil {
			s.mu.Lock()
			n.up = false
			s.mu.Unlock()
			ctx, cancel := context.WithTimeout(context.Background(), 10*time.Second)
			_ = n.rt.Close(ctx)
			cancel()
			n.rt = nil
		}
		if f, ok := n.factory.(interface{ Close() error }); ok {
			_ = f.Close()
		}
	}
}

// ---- link ----

type verifSimLink struct {
	from ch.NodeID
	sim  *verifSim
}

func verifSimBatchKind(batch ExchangeBatch) ExchangeKind {
	if len(batch.Items) == 0 {
		return 0
	}
	return batch.Items[0].Kind
}

func (l verifSimLink) Exchange(ctx context.Context, target ch.NodeID, batch ExchangeBatch) (ExchangeBatchResult, error) {
	s := l.sim
	if int(target) < 1 || int(target) > len(s.nodes) {
		return ExchangeBatchResult{}, errVerifSimLink
	}
	kind := verifSimBatchKind(batch)
	s.mu.Lock()
	from, tgt := s.node(l.from), s.node(target)
	if !from.up || !tgt.up || s.cut[[2]ch.NodeID{l.from, target}] {
		s.mu.Unlock()
		return ExchangeBatchResult{}, errVerifSimLink
	}
	key := verifSimLinkKey{target: target, kind: kind}
	if s.dropSkip[key] > 0 && (s.dropReq[key] > 0 || s.dropResp[key] > 0) {
		s.dropSkip[key]--
		server := tgt.rt.ExchangeServer()
		s.delivered[kind]++
		s.mu.Unlock()
		return server.Handle(ctx, l.from, batch)
	}
	if s.dropReq[key] > 0 {
		s.dropReq[key]--
		s.mu.Unlock()
		return ExchangeBatchResult{}, errVerifSimLink
	}
	dropResp := false
	if s.dropResp[key] > 0 {
		s.dropResp[key]--
		dropResp = true
	}
	server := tgt.rt.ExchangeServer()
	s.delivered[kind]++
	s.mu.Unlock()
	result, err := server.Handle(ctx, l.from, batch)
	if dropResp {
		return ExchangeBatchResult{}, errVerifSimLink
	}
	// a response cannot cross a link that died while the request was served
	s.mu.Lock()
	dead := !from.up || !tgt.up || s.cut[[2]ch.NodeID{target, l.from}]
	s.mu.Unlock()
	if dead {
		return ExchangeBatchResult{}, errVerifSimLink
	}
	return result, err
}

// reachable returns the voters node `from` can exchange with in both
// directions right now (including itself when it is up).
func (s *verifSim) reachable(from ch.NodeID) []ch.NodeID {
	s.mu.Lock()
	defer s.mu.Unlock()
	var out []ch.NodeID
	if !s.node(from).up {
		return nil
	}
	for _, n := range s.nodes {
		if n.id == from {
			out = append(out, n.id)
			continue
		}
		if n.up && !s.cut[[2]ch.NodeID{from, n.id}] && !s.cut[[2]ch.NodeID{n.id, from}] {
			out = append(out, n.id)
		}
	}
	return out
}

func (s *verifSim) upCount() int {
	s.mu.Lock()
	defer s.mu.Unlock()
	c := 0
	for _, n := range s.nodes {
		if n.up {
			c++
		}
	}
	return c
}

func (s *verifSim) isUp(id ch.NodeID) bool {
	s.mu.Lock()
	defer s.mu.Unlock()
	return s.node(id).up
}

// ---- fault actions ----

func (s *verifSim) crash(id ch.NodeID) {
	n := s.node(id)
	s.mu.Lock()
	n.up = false
	s.mu.Unlock()
	ctx, cancel := context.WithTimeout(context.Background(), 10*time.Second)
	_ = n.rt.Close(ctx)
	cancel()
	n.rt = nil
	n.installed = map[int]Authority{}
	n.attempted = map[int]Authority{}
	if s.cfg.Pebble {
		if f, ok := n.factory.(interface{ Close() error }); ok {
			_ = f.Close()
		}
		n.factory = nil
	}
	s.logf("crash node=%d", id)
}

func (s *verifSim) restart(id ch.NodeID) {
	n := s.node(id)
	if s.cfg.Pebble {
		n.factory = channelstore.NewMessageDBFactory(fmt.Sprintf("%s/n%d", s.cfg.PebbleDir, id))
	}
	s.startNode(n)
	s.logf("restart node=%d", id)
}

func (s *verifSim) setCut(a, b ch.NodeID, dead bool) {
	s.mu.Lock()
	if dead {
		s.cut[[2]ch.NodeID{a, b}] = true
		s.cut[[2]ch.NodeID{b, a}] = true
	} else {
		delete(s.cut, [2]ch.NodeID{a, b})
		delete(s.cut, [2]ch.NodeID{b, a})
	}
	s.mu.Unlock()
	s.logf("cut %d<->%d dead=%v", a, b, dead)
}

func (s *verifSim) healAll() {
	s.mu.Lock()
	s.cut = map[[2]ch.NodeID]bool{}
	s.dropReq = map[verifSimLinkKey]int{}
	s.dropResp = map[verifSimLinkKey]int{}
	s.dropSkip = map[verifSimLinkKey]int{}
	s.mu.Unlock()
	s.logf("heal all links")
}

func (s *verifSim) armDropAfter(target ch.NodeID, kind ExchangeKind, response bool, skip, count int) {
	s.mu.Lock()
	s.dropSkip[verifSimLinkKey{target, kind}] = skip
	s.mu.Unlock()
	s.armDrop(target, kind, response, count)
}

func (s *verifSim) armDrop(target ch.NodeID, kind ExchangeKind, response bool, count int) {
	s.mu.Lock()
	if response {
		s.dropResp[verifSimLinkKey{target, kind}] += count
	} else {
		s.dropReq[verifSimLinkKey{target, kind}] += count
	}
	s.mu.Unlock()
	s.logf("arm drop target=%d kind=%d response=%v count=%d", target, kind, response, count)
}

func (s *verifSim) clearDrops() {
	s.mu.Lock()
	s.dropReq = map[verifSimLinkKey]int{}
	s.dropResp = map[verifSimLinkKey]int{}
	s.mu.Unlock()
}

// flush pushes trailing (post-quorum) follower writes of every live node onto
// the wire and waits until peer queues and repair owners are idle, or until a
// bounded time passed (never a verdict).
func (s *verifSim) quiesce(max time.Duration) bool {
	deadline := time.Now().Add(max)
	var last string
	stableSince := time.Now()
	for {
		idle := true
		for _, n := range s.nodes {
			if !s.isUp(n.id) || n.rt == nil {
				continue
			}
			_ = n.rt.peers.flushDeferred()
			if !verifSimRuntimeIdle(n.rt) {
				idle = false
			}
		}
		if idle {
			return true
		}
		// repairs towards unreachable or diverged replicas retry forever: the
		// cluster also counts as settled once no replica frontier has moved for
		// a while
		sig := s.frontierSignature()
		if sig != last {
			last, stableSince = sig, time.Now()
		} else if time.Since(stableSince) > 40*time.Millisecond {
			return false
		}
		if time.Now().After(deadline) {
			return false
		}
		time.Sleep(500 * time.Microsecond)
	}
}

func (s *verifSim) frontierSignature() string {
	var b strings.Builder
	ctx, cancel := context.WithTimeout(context.Background(), 5*time.Second)
	defer cancel()
	for _, n := range s.nodes {
		if n.store == nil || (s.cfg.Pebble && n.factory == nil) {
			continue
		}
		for c := 0; c < s.cfg.Channels; c++ {
			res, err := n.store.Load(ctx, LoadBatch{Items: []LoadRequest{{ChannelKey: verifSimChannelKey(c), ChannelID: verifSimChannelID(c)}}})
			if err != nil || len(res.Items) != 1 {
				continue
			}
			fmt.Fprintf(&b, "%d/%d:%d,%d;", n.id, c, res.Items[0].State.LEO, res.Items[0].State.Committed)
		}
	}
	return b.String()
}

func verifSimRuntimeIdle(rt *Runtime) bool {
	b := rt.peers
	b.mu.Lock()
	for _, target := range b.targets {
		if len(target.urgent)+len(target.deferred)+len(target.background) > 0 || target.workerCount() > 0 || len(target.inflight) > 0 {
			b.mu.Unlock()
			return false
		}
	}
	b.mu.Unlock()
	r := rt.repairs
	r.mu.Lock()
	defer r.mu.Unlock()
	return len(r.pending) == 0 && len(r.ready) == 0
}

// ---- observation ----

type verifSimReplicaView struct {
	state   ReplicaState
	entries map[uint64]ch.EntryIdentity
	err     error
}

// view reads the exact durable frontier and every entry identity 1..LEO of
// one replica through the production ReplicaStore surface.
func (s *verifSim) view(id ch.NodeID, c int) verifSimReplicaView {
	n := s.node(id)
	if n.store == nil || (s.cfg.Pebble && n.factory == nil) {
		return verifSimReplicaView{err: errors.New("store closed")}
	}
	ctx, cancel := context.WithTimeout(context.Background(), 10*time.Second)
	defer cancel()
	first, err := n.store.Load(ctx, LoadBatch{Items: []LoadRequest{{ChannelKey: verifSimChannelKey(c), ChannelID: verifSimChannelID(c)}}})
	if err != nil {
		return verifSimReplicaView{err: err}
	}
	if len(first.Items) != 1 || first.Items[0].Err != nil {
		return verifSimReplicaView{err: fmt.Errorf("load: %v", first.Items)}
	}
	v := verifSimReplicaView{state: first.Items[0].State, entries: map[uint64]ch.EntryIdentity{}}
	for from := uint64(1); from <= v.state.LEO; from += 200 {
		var idx []uint64
		for i := from; i <= v.state.LEO && i < from+200; i++ {
			idx = append(idx, i)
		}
		res, err := n.store.Load(ctx, LoadBatch{Items: []LoadRequest{{ChannelKey: verifSimChannelKey(c), ChannelID: verifSimChannelID(c), ProbeIndexes: idx}}})
		if err == nil && len(res.Items) == 1 && res.Items[0].Err != nil &&
			errors.Is(res.Items[0].Err, ch.ErrLogConflict) {
			// the store itself reports that the identities 1..LEO of this replica
			// do not form one exact chain: the C02 hash-chain clause is broken
			s.fail("C02", "replica-chain-unreadable", "node %d ch %d: reading entry identities %d..%d of its own log (LEO %d) fails with %v", id, c, idx[0], idx[len(idx)-1], v.state.LEO, res.Items[0].Err)
			return verifSimReplicaView{err: fmt.Errorf("probe load: %v", res.Items[0].Err)}
		}
		if err != nil || len(res.Items) != 1 || res.Items[0].Err != nil {
			return verifSimReplicaView{err: fmt.Errorf("probe load: %v %v", err, res.Items)}
		}
		if res.Items[0].State != v.state {
			// the replica moved between the two reads (background repair): retry once from scratch
			return s.view(id, c)
		}
		for _, e := range res.Items[0].Entries {
			if e.Present {
				v.entries[e.Index] = e.Identity
			}
		}
	}
	return v
}

func (s *verifSim) records(id ch.NodeID, c int) ([]ch.Record, error) {
	n := s.node(id)
	if n.factory == nil {
		return nil, errors.New("store closed")
	}
	st, err := n.factory.ChannelStore(verifSimChannelKey(c), verifSimChannelID(c))
	if err != nil {
		return nil, err
	}
	defer st.Close()
	ctx, cancel := context.WithTimeout(context.Background(), 10*time.Second)
	defer cancel()
	res, err := st.ReadLog(ctx, channelstore.ReadLogRequest{FromOffset: 1, MaxBytes: 64 << 20})
	if err != nil {
		return nil, err
	}
	return res.Records, nil
}

// ---- protocol actions ----

func (s *verifSim) newRecords(c int, n int, epoch uint64, payloadSeed []byte) []ch.Record {
	out := make([]ch.Record, n)
	for i := range out {
		s.nextMsgID++
		id := s.nextMsgID
		payload := append([]byte(fmt.Sprintf("p%d-", id)), payloadSeed...)
		out[i] = ch.Record{
			ID: id, Epoch: epoch, FromUID: fmt.Sprintf("u%d", id%5), ClientMsgNo: fmt.Sprintf("c%d-%d", c, id),
			ServerTimestampMS: int64(id), Payload: payload, SizeBytes: len(payload), Setting: uint8(id % 3), SyncOnce: id%7 == 0,
		}
	}
	return out
}

func (s *verifSim) newCommandID() ch.CommandID {
	s.nextCmd++
	var id ch.CommandID
	v := s.nextCmd
	for i := 0; i < 8; i++ {
		id[31-i] = byte(v >> (8 * i))
	}
	id[0] = 0xC1
	return id
}

// install runs Install(authority) on authority.Leader and, when it becomes
// ready, checks the C01 oracle against the acknowledgement ledger.
func (s *verifSim) install(c int, authority Authority) (Installed, error) {
	n := s.node(authority.Leader)
	if n.rt == nil {
		return Installed{}, errors.New("node down")
	}
	n.attempted[c] = cloneAuthority(authority)
	ctx, cancel := context.WithTimeout(context.Background(), 20*time.Second)
	defer cancel()
	reach := s.reachable(authority.Leader)
	prev, hadPrev := n.installed[c]
	alreadyReady := hadPrev && sameAuthority(prev, authority)
	installed, err := n.rt.Log().Install(ctx, authority)
	s.logf("install ch=%d node=%d id=%+v fence=%v reach=%v -> %+v err=%v", c, authority.Leader, authority.ID, authority.WriteFence.Set(), reach, installed, err)
	if errors.Is(err, context.DeadlineExceeded) {
		s.flags["install deadline (inconclusive)"] = true
		return installed, err
	}
	if err != nil {
		// a higher authority fences the channel on this node even when its
		// recovery fails: the node no longer serves what it had installed
		if hadPrev && compareAuthorityID(authority.ID, prev.ID) > 0 {
			delete(n.installed, c)
		}
		return installed, err
	}
	n.installed[c] = cloneAuthority(authority)
	if len(reach) < authority.WriteQuorum && !alreadyReady {
		s.fail("C01", "install-without-quorum", "Install became ready on node %d while only %v of voters were reachable (write quorum %d)", authority.Leader, reach, authority.WriteQuorum)
	}
	if alreadyReady {
		// the owner was already ready under this exact authority: Install only
		// returns its cached frontier, nothing becomes writable here. Entries a
		// not-yet-informed older leader got acknowledged meanwhile are judged by
		// the next real recovery and by the end-state ledger check.
		s.flags["re-install of an already ready authority (cached frontier, not judged)"] = true
		return installed, nil
	}
	s.checkInstalledAgainstLedger(c, authority, installed)
	return installed, nil
}

// verifSimViolation carries a classified violation out of the simulator.
type verifSimViolation struct {
	prop      string
	signature string
	msg       string
}

func (s *verifSim) fail(prop, signature, format string, args ...any) {
	msg := fmt.Sprintf(format, args...)
	if s.enabled != nil && !s.enabled[prop] {
		s.logf("(oracle of %s tripped, not judged by this check) [%s]: %s", prop, signature, msg)
		s.flags["oracle of another property tripped: "+prop+" "+signature] = true
		return
	}
	s.logf("VIOLATION %s [%s]: %s", prop, signature, msg)
	panic(verifSimViolation{prop: prop, signature: signature, msg: msg})
}

func (s *verifSim) checkInstalledAgainstLedger(c int, authority Authority, installed Installed) {
	ledger := s.ledger[c]
	if len(ledger) == 0 {
		return
	}
	v := s.view(authority.Leader, c)
	if v.err != nil {
		s.t.Fatalf("VERIF-MACHINERY view after install: %v", v.err)
	}
	var maxSeq uint64
	seqs := make([]uint64, 0, len(ledger))
	for seq := range ledger {
		seqs = append(seqs, seq)
		if seq > maxSeq {
			maxSeq = seq
		}
	}
	sort.Slice(seqs, func(i, j int) bool { return seqs[i] < seqs[j] })
	for _, seq := range seqs {
		want := ledger[seq]
		got, ok := v.entries[seq]
		if !ok || got != want.identity {
			sig := "acked-entry-lost-on-install"
			if want.base == 0 && installed.LEO == 0 {
				sig = "acked-first-proposal-truncated:base=0"
			}
			s.fail("C01", sig, "after Install(%+v) on node %d (ready, LEO=%d HW=%d): acknowledged seq %d (cmd %x, acked by node %d under %+v) present=%v identity-equal=%v",
				authority.ID, authority.Leader, installed.LEO, installed.HW, seq, want.command[24:], want.node, want.authority, ok, ok && got == want.identity)
		}
	}
	if installed.LEO < maxSeq {
		s.fail("C01", "installed-frontier-below-ack", "Installed.LEO=%d below acknowledged seq %d", installed.LEO, maxSeq)
	}
	s.flags["install checked against non-empty ledger"] = true
}

// commit issues one proposal on node `id` under the authority that node has
// installed and validates the receipt (C03/C04 oracles) and records it.
func (s *verifSim) commit(cmd *verifSimCommand) (Receipt, error) {
	n := s.node(cmd.node)
	if n.rt == nil {
		return Receipt{}, errors.New("node down")
	}
	c := cmd.channel
	ctx, cancel := context.WithTimeout(context.Background(), 20*time.Second)
	defer cancel()
	before := s.view(cmd.node, c)
	if s.serverIDs {
		cmd.proposal.ServerAllocatedMessageIDs = true
	}
	receipt, err := n.rt.Log().Commit(ctx, cmd.proposal)
	s.logf("commit ch=%d node=%d expected=%+v cmd=%x n=%d -> %+v err=%v", c, cmd.node, cmd.proposal.Expected, cmd.proposal.CommandID[24:], len(cmd.proposal.Records), receipt, err)
	if err != nil {
		if !errors.Is(err, ch.ErrStaleMeta) && !errors.Is(err, ch.ErrWriteFenced) && !errors.Is(err, ch.ErrNotReady) &&
			!errors.Is(err, ch.ErrBackpressured) && !errors.Is(err, ch.ErrLogConflict) && !errors.Is(err, ch.ErrInvalidConfig) {
			cmd.ambiguous = true
		}
		return receipt, err
	}
	s.validateReceipt(cmd, receipt, before)
	return receipt, nil
}

func (s *verifSim) validateReceipt(cmd *verifSimCommand, receipt Receipt, before verifSimReplicaView) {
	c := cmd.channel
	n := s.node(cmd.node)
	inst, ok := n.installed[c]
	if !ok || receipt.Authority != inst.ID || receipt.Authority != cmd.proposal.Expected {
		s.fail("C04", "receipt-under-foreign-authority", "receipt authority %+v, node %d installed %+v, proposal expected %+v", receipt.Authority, cmd.node, inst.ID, cmd.proposal.Expected)
	}
	if inst.WriteFence.Set() {
		s.fail("C04", "ack-while-fenced", "receipt returned while write fence set on node %d", cmd.node)
	}
	if receipt.CommandID != cmd.proposal.CommandID {
		s.fail("C03", "receipt-command-mismatch", "receipt command %x for proposal %x", receipt.CommandID, cmd.proposal.CommandID)
	}
	if receipt.Last < receipt.First || receipt.Last-receipt.First+1 != uint64(len(cmd.proposal.Records)) || receipt.HW < receipt.Last {
		s.fail("C03", "receipt-range-shape", "receipt %+v for %d records", receipt, len(cmd.proposal.Records))
	}
	if cmd.acked {
		if cmd.receipt.First != receipt.First || cmd.receipt.Last != receipt.Last {
			s.fail("C03", "retry-changed-range", "retry of %x returned [%d,%d], first ack [%d,%d]", receipt.CommandID[24:], receipt.First, receipt.Last, cmd.receipt.First, cmd.receipt.Last)
		}
		if before.err == nil {
			after := s.view(cmd.node, c)
			if after.err == nil && after.state.LEO != before.state.LEO {
				s.fail("C03", "retry-stored-again", "exact retry moved LEO %d -> %d", before.state.LEO, after.state.LEO)
			}
		}
		return
	}
	// read what the acknowledging leader holds at the acknowledged range
	v := s.view(cmd.node, c)
	if v.err != nil {
		s.t.Fatalf("VERIF-MACHINERY view after commit: %v", v.err)
	}
	recs, err := s.records(cmd.node, c)
	if err != nil {
		s.t.Fatalf("VERIF-MACHINERY records after commit: %v", err)
	}
	for i := range cmd.proposal.Records {
		seq := receipt.First + uint64(i)
		identity, ok := v.entries[seq]
		if !ok {
			s.fail("C01", "acked-entry-absent-on-leader", "leader %d does not hold acknowledged seq %d right after the receipt", cmd.node, seq)
		}
		if identity.CommandID != cmd.proposal.CommandID || identity.ChannelEpoch != receipt.Authority.ChannelEpoch ||
			identity.LeaderTerm != receipt.Authority.LeaderTerm || identity.FenceVersion != receipt.Authority.FenceVersion {
			s.fail("C03", "acked-identity-mismatch", "seq %d identity %+v does not carry command/authority of receipt %+v", seq, identity, receipt)
		}
		if int(seq) > len(recs) || !verifSimSameRecord(recs[seq-1], cmd.proposal.Records[i], seq) {
			var got ch.Record
			if int(seq) <= len(recs) {
				got = recs[seq-1]
			}
			s.fail("C03", "acked-content-mismatch", "seq %d stored record %+v differs from proposed record %+v", seq, got, cmd.proposal.Records[i])
		}
		entry := verifSimLedgerEntry{identity: identity, command: cmd.proposal.CommandID, authority: receipt.Authority, node: cmd.node, base: receipt.First - 1, record: cmd.proposal.Records[i]}
		if prev, dup := s.ledger[c][seq]; dup && prev.identity != identity {
			s.fail("C01", "split-brain-ack", "seq %d acknowledged twice with different content: first by node %d under %+v cmd %x, now by node %d under %+v cmd %x",
				seq, prev.node, prev.authority, prev.command[24:], cmd.node, receipt.Authority, cmd.proposal.CommandID[24:])
		}
		s.ledger[c][seq] = entry
	}
	// contiguity with the log end seen right before the call (single caller per channel)
	if before.err == nil && !cmd.ambiguous && receipt.First != before.state.LEO+1 {
		s.fail("C03", "range-not-contiguous", "new command got [%d,%d] but log end before the call was %d", receipt.First, receipt.Last, before.state.LEO)
	}
	// overlap with other commands
	for _, other := range s.commands {
		if other == cmd || !other.acked || other.channel != c {
			continue
		}
		if other.proposal.CommandID != cmd.proposal.CommandID && receipt.First <= other.receipt.Last && other.receipt.First <= receipt.Last {
			s.fail("C03", "overlapping-ranges", "commands %x [%d,%d] and %x [%d,%d] overlap", cmd.proposal.CommandID[24:], receipt.First, receipt.Last, other.proposal.CommandID[24:], other.receipt.First, other.receipt.Last)
		}
	}
	cmd.acked = true
	cmd.receipt = receipt
}

func verifSimSameRecord(stored, proposed ch.Record, seq uint64) bool {
	return stored.ID == proposed.ID && stored.Setting == proposed.Setting && stored.FromUID == proposed.FromUID &&
		stored.ClientMsgNo == proposed.ClientMsgNo && stored.ServerTimestampMS == proposed.ServerTimestampMS && stored.SyncOnce == proposed.SyncOnce &&
		string(stored.Payload) == string(proposed.Payload) && (stored.Index == 0 || stored.Index == seq)
}

// checkReplicas is the C02 oracle: run after every step over all replicas
// whose store can be read (crashed nodes keep their durable store).
func (s *verifSim) checkReplicas() {
	for c := 0; c < s.cfg.Channels; c++ {
		views := map[ch.NodeID]verifSimReplicaView{}
		for _, n := range s.nodes {
			v := s.view(n.id, c)
			if v.err != nil {
				continue
			}
			views[n.id] = v
			if v.state.Committed > v.state.LEO {
				s.fail("C02", "committed-above-leo", "node %d ch %d Committed=%d > LEO=%d", n.id, c, v.state.Committed, v.state.LEO)
			}
			if prev := s.committed[c][n.id]; v.state.Committed < prev {
				s.fail("C02", "committed-regressed", "node %d ch %d Committed went %d -> %d", n.id, c, prev, v.state.Committed)
			}
			s.committed[c][n.id] = v.state.Committed
			// unbroken predecessor chain 1..LEO
			for i := uint64(1); i <= v.state.LEO; i++ {
				e, ok := v.entries[i]
				if !ok {
					s.fail("C02", "hole-in-log", "node %d ch %d has no entry at %d (LEO %d)", n.id, c, i, v.state.LEO)
				}
				if i == 1 {
					if e.PreviousIndex != 0 || e.PreviousTerm != 0 || e.PreviousDigest != (ch.EntryDigest{}) {
						s.fail("C02", "chain-broken", "node %d ch %d entry 1 has a predecessor", n.id, c)
					}
					continue
				}
				p := v.entries[i-1]
				if e.PreviousIndex != p.Index || e.PreviousTerm != p.LeaderTerm || e.PreviousDigest != p.Digest {
					s.fail("C02", "chain-broken", "node %d ch %d entry %d does not chain to entry %d", n.id, c, i, i-1)
				}
			}
			if v.state.LEO > 0 && v.state.TailIdentity != v.entries[v.state.LEO] {
				s.fail("C02", "tail-identity-mismatch", "node %d ch %d tail identity differs from entry at LEO", n.id, c)
			}
		}
		ids := make([]ch.NodeID, 0, len(views))
		for id := range views {
			ids = append(ids, id)
		}
		sort.Slice(ids, func(i, j int) bool { return ids[i] < ids[j] })
		for i := 0; i < len(ids); i++ {
			for j := i + 1; j < len(ids); j++ {
				a, b := views[ids[i]], views[ids[j]]
				lim := a.state.Committed
				if b.state.Committed < lim {
					lim = b.state.Committed
				}
				for k := uint64(1); k <= lim; k++ {
					if a.entries[k] != b.entries[k] {
						s.fail("C02", "committed-divergence", "ch %d offset %d (<= committed %d/%d) differs between node %d and node %d", c, k, a.state.Committed, b.state.Committed, ids[i], ids[j])
					}
				}
				if a.state.LEO != b.state.LEO {
					s.flags["replicas with different LEO at check"] = true
				}
			}
		}
	}
}

// finalCheck: heal, restart everything, let repair settle, then every
// acknowledged entry must be held identically by every replica that reaches
// its sequence; at least Q replicas must hold it.
func (s *verifSim) finalLedgerCheck() {
	for c := 0; c < s.cfg.Channels; c++ {
		for seq, want := range s.ledger[c] {
			holders := 0
			for _, n := range s.nodes {
				v := s.view(n.id, c)
				if v.err != nil {
					continue
				}
				got, ok := v.entries[seq]
				if ok && got == want.identity {
					holders++
					continue
				}
				if ok && v.state.Committed >= seq {
					s.fail("C01", "acked-entry-replaced", "node %d ch %d holds a different committed entry at acknowledged seq %d", n.id, c, seq)
				}
			}
			if holders == 0 {
				s.fail("C01", "acked-entry-lost-everywhere", "ch %d acknowledged seq %d (cmd %x) is held by no replica at the end", c, seq, want.command[24:])
			}
		}
	}
}
