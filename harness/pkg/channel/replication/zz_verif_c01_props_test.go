package replication

import (
	"context"
	"errors"
	"fmt"
	"sort"
	"strings"
	"sync"
	"sync/atomic"
	"testing"
	"time"

	ch "github.com/WuKongIM/WuKongIM/pkg/channel"
	"pgregory.net/rapid"
	"verif.local/kit"
)

// ---------------------------------------------------------------- C02

// TestVerifC02Replicas: same fault scripts as C01, biased to follower gaps,
// lost responses (exact replays), lagging-leader installs with small recovery
// pages and interrupted page fetches. Oracle = checkReplicas after every step.
func TestVerifC02Replicas(t *testing.T) {
	kit.Check(t, "C02", func(rt *rapid.T, k *kit.Case) {
		n, q := 3, 2
		if rapid.IntRange(0, 3).Draw(rt, "five") == 0 {
			n, q = 5, 3
		}
		cfg := verifSimConfig{N: n, Q: q, Channels: rapid.IntRange(1, 2).Draw(rt, "channels"), RetainedCommands: 8,
			PageBytes: rapid.SampledFrom([]int{400, 700, 4096}).Draw(rt, "pageBytes"),
			Pebble:    rapid.IntRange(0, 2).Draw(rt, "pebble") == 0, Timing: kit.Thorough() && rapid.IntRange(0, 3).Draw(rt, "timing") == 0}
		verifRunCase(rt, k, "C02", cfg, func(s *verifSim) {
			s.enabledOnly(map[string]bool{"C02": true})
			w := verifScriptWeights{commit: 12, retry: 3, failover: 5, reinstall: 3, crash: 2, restart: 3, isolate: 3, cut: 4, heal: 3, drop: 5, flush: 3, staleCommit: 1, cleanFailover: 2, pageCut: 3, divergentTail: 4, doubleFork: 3, rollingOutage: 7}
			st := verifRunScript(rt, k, s, verifScriptOpts{prop: "C02", enabled: map[string]bool{"C02": true}, weights: w, steps: kit.Scale("C02STEPS", 30, 45), preSeed: verifPreSeed(),
				outageBudget: rapid.SampledFrom([]int{0, n - 1}).Draw(rt, "outageBudget")})
			k.SetNonTrivial(st.nontrivialC02)
			k.LabelIf(st.acks > 0, "≥1 acknowledged commit")
			k.LabelIf(cfg.Pebble, "pebble stores")
			k.LabelIf(cfg.Timing, "real timers")
			k.Label(fmt.Sprintf("N=%d Q=%d pageBytes=%d", n, q, cfg.PageBytes))
		})
	})
}

// ---------------------------------------------------------------- C03

type verifC03Cmd struct {
	cmd      *verifSimCommand
	evictedN int // how many newer commands were acknowledged after it (cache position)
	restarts int // owner restarts since its acknowledgement
}

// TestVerifC03Receipts: one leader, healthy-ish followers, tiny retained-command
// cache. Model: command → (range, content). New commands get the next
// contiguous range; exact retries return the same range and store nothing;
// conflicting retries are refused and change nothing.
func TestVerifC03Receipts(t *testing.T) {
	kit.Check(t, "C03", func(rt *rapid.T, k *kit.Case) {
		retained := rapid.IntRange(1, 4).Draw(rt, "retained")
		channels := rapid.IntRange(1, 3).Draw(rt, "channels")
		cfg := verifSimConfig{N: 3, Q: 2, Channels: channels, RetainedCommands: retained, PageBytes: 4096,
			Pebble: rapid.IntRange(0, 4).Draw(rt, "pebble") == 0}
		if rapid.IntRange(0, 5).Draw(rt, "single") == 0 {
			cfg.N, cfg.Q = 1, 1
		}
		// half of the cases run with a small proposal limit, so that proposals of
		// exactly the largest accepted size occur
		maxRecs := 5
		if rapid.Bool().Draw(rt, "smallBatchItems") {
			cfg.BatchItems = rapid.IntRange(2, 6).Draw(rt, "batchItems")
			if cfg.BatchItems < maxRecs {
				maxRecs = cfg.BatchItems
			}
		}
		verifRunCase(rt, k, "C03", cfg, func(s *verifSim) {
			s.enabledOnly(map[string]bool{"C03": true})
			var hist []string
			sawEvictedRetry, sawRestartRetry, sawConflict, sawAmbiguous := false, false, false, false
			sawFullRetry, sawSettledRetry, sawResolved := false, false, false
			drawRecs := func() int {
				if cfg.BatchItems > 0 && rapid.IntRange(0, 2).Draw(rt, "fullProposal") == 0 {
					return cfg.BatchItems
				}
				return rapid.IntRange(1, maxRecs).Draw(rt, "nrec")
			}
			for c := 0; c < channels; c++ {
				if _, err := s.install(c, s.control[c]); err != nil {
					rt.Fatalf("VERIF-MACHINERY install: %v", err)
				}
			}
			var cmds []*verifC03Cmd
			steps := rapid.IntRange(8, kit.Scale("C03STEPS", 40, 60)).Draw(rt, "steps")
			for i := 0; i < steps; i++ {
				c := rapid.IntRange(0, channels-1).Draw(rt, "channel")
				leader := s.node(1)
				act := rapid.SampledFrom([]string{"new", "new", "new", "retry", "retry", "settledRetry", "conflict", "lostResp", "restart", "lookup"}).Draw(rt, "action")
				hist = append(hist, act)
				switch act {
				case "new", "lostResp":
					if _, ok := leader.installed[c]; !ok {
						continue
					}
					if act == "lostResp" && cfg.N > 1 {
						if rapid.Bool().Draw(rt, "lostEverywhere") {
							// every follower receives and stores the proposal, every
							// acknowledgement is lost: the outcome is ambiguous for the leader
							for f := 2; f <= cfg.N; f++ {
								s.armDrop(ch.NodeID(f), ExchangeReplicate, true, rapid.IntRange(1, 3).Draw(rt, "lostCount"))
							}
						} else {
							target := ch.NodeID(rapid.IntRange(2, cfg.N).Draw(rt, "lostTarget"))
							s.armDrop(target, ExchangeReplicate, rapid.Bool().Draw(rt, "lostIsResponse"), rapid.IntRange(1, 2).Draw(rt, "lostCount"))
						}
					}
					cmd := &verifSimCommand{channel: c, node: 1, proposal: Proposal{Key: verifSimChannelKey(c), Expected: leader.installed[c].ID, CommandID: s.newCommandID(),
						Records: s.newRecords(c, drawRecs(), 1, rapid.SliceOfN(rapid.Byte(), 0, 40).Draw(rt, "payload")),
						ServerAllocatedMessageIDs: rapid.Bool().Draw(rt, "serverIDs")}}
					s.commands = append(s.commands, cmd)
					_, err := s.commit(cmd)
					if err == nil {
						for _, o := range cmds {
							if o.cmd.channel == c {
								o.evictedN++
							}
						}
						cmds = append(cmds, &verifC03Cmd{cmd: cmd})
					} else if cmd.ambiguous {
						sawAmbiguous = true
						cmds = append(cmds, &verifC03Cmd{cmd: cmd})
					} else if errors.Is(err, ch.ErrBackpressured) {
						s.flags["new command backpressured behind a pending ambiguous proposal"] = true
					}
					s.clearDrops()
				case "retry":
					if len(cmds) == 0 {
						continue
					}
					o := cmds[rapid.IntRange(0, len(cmds)-1).Draw(rt, "retryOf")]
					wasAcked := o.cmd.acked
					_, err := s.commit(o.cmd)
					if wasAcked && err != nil && !errors.Is(err, ch.ErrBackpressured) && !errors.Is(err, ch.ErrNotReady) {
						s.fail("C03", "exact-retry-refused", "exact retry of acknowledged command %x returned %v", o.cmd.proposal.CommandID[28:], err)
					}
					if err == nil && wasAcked {
						if o.evictedN >= retained {
							sawEvictedRetry = true
						}
						if o.restarts > 0 {
							sawRestartRetry = true
						}
						if cfg.BatchItems > 0 && len(o.cmd.proposal.Records) == cfg.BatchItems && (o.evictedN >= retained || o.restarts > 0) {
							sawFullRetry = true
						}
					}
					if err == nil && !wasAcked {
						for _, p := range cmds {
							if p != o && p.cmd.channel == o.cmd.channel {
								p.evictedN++
							}
						}
					}
				case "settledRetry":
					// A fresh command is acknowledged on the channel first: that proves
					// the owner is installed and has no pending proposal. The script is
					// sequential, so an exact retry of an acknowledged command issued
					// right afterwards has no transient reason to be refused and must
					// return the original range.
					if _, ok := leader.installed[c]; !ok {
						continue
					}
					var ackedHere []*verifC03Cmd
					for _, o := range cmds {
						if o.cmd.acked && o.cmd.channel == c {
							ackedHere = append(ackedHere, o)
						}
					}
					if len(ackedHere) == 0 {
						continue
					}
					o := ackedHere[rapid.IntRange(0, len(ackedHere)-1).Draw(rt, "settledRetryOf")]
					s.clearDrops()
					fresh := &verifSimCommand{channel: c, node: 1, proposal: Proposal{Key: verifSimChannelKey(c), Expected: leader.installed[c].ID, CommandID: s.newCommandID(),
						Records: s.newRecords(c, 1, 1, []byte("settle"))}}
					s.commands = append(s.commands, fresh)
					if _, err := s.commit(fresh); err != nil {
						if fresh.ambiguous {
							cmds = append(cmds, &verifC03Cmd{cmd: fresh})
						}
						continue
					}
					for _, p := range cmds {
						if p.cmd.channel == c {
							p.evictedN++
						}
					}
					cmds = append(cmds, &verifC03Cmd{cmd: fresh})
					if _, err := s.commit(o.cmd); err != nil {
						s.fail("C03", "exact-retry-refused-while-idle", "exact retry of acknowledged command %x (%d records, evicted by %d newer commands, %d owner restarts) returned %v right after a fresh command was acknowledged on the same channel", o.cmd.proposal.CommandID[28:], len(o.cmd.proposal.Records), o.evictedN, o.restarts, err)
					} else {
						sawSettledRetry = true
						if o.evictedN >= retained {
							sawEvictedRetry = true
						}
						if o.restarts > 0 {
							sawRestartRetry = true
						}
						if cfg.BatchItems > 0 && len(o.cmd.proposal.Records) == cfg.BatchItems && (o.evictedN >= retained || o.restarts > 0) {
							sawFullRetry = true
						}
					}
				case "conflict":
					var acked []*verifC03Cmd
					for _, o := range cmds {
						// acknowledged commands and commands whose outcome is still
						// ambiguous (lost responses, not yet resolved by an exact retry)
						if o.cmd.acked || o.cmd.ambiguous {
							acked = append(acked, o)
						}
					}
					if len(acked) == 0 {
						continue
					}
					o := acked[rapid.IntRange(0, len(acked)-1).Draw(rt, "conflictOf")]
					if !o.cmd.acked {
						s.flags["conflicting reuse of a command whose outcome was still ambiguous"] = true
					}
					p := o.cmd.proposal
					p.Records = cloneRecords(p.Records)
					// the all-record allocator proof asserts that the message ids are
					// fresh; a caller that re-uses ids with other content cannot carry it
					// (production derives the command id from allocator-issued ids)
					p.ServerAllocatedMessageIDs = false
					idx := rapid.IntRange(0, len(p.Records)-1).Draw(rt, "conflictRecord")
					field := rapid.SampledFrom([]string{"payload", "from", "clientno", "id", "ts", "setting", "synconce", "count+", "count-"}).Draw(rt, "conflictField")
					switch field {
					case "payload":
						p.Records[idx].Payload = append(p.Records[idx].Payload, 'x')
						p.Records[idx].SizeBytes = len(p.Records[idx].Payload)
					case "from":
						p.Records[idx].FromUID += "x"
					case "clientno":
						p.Records[idx].ClientMsgNo += "x"
					case "id":
						p.Records[idx].ID += 1 << 40
					case "ts":
						p.Records[idx].ServerTimestampMS++
					case "setting":
						p.Records[idx].Setting ^= 0x80
					case "synconce":
						p.Records[idx].SyncOnce = !p.Records[idx].SyncOnce
					case "count+":
						p.Records = append(p.Records, s.newRecords(o.cmd.channel, 1, 1, []byte("extra"))...)
					case "count-":
						if len(p.Records) < 2 {
							continue
						}
						p.Records = p.Records[:len(p.Records)-1]
					}
					before := s.view(1, o.cmd.channel)
					ctx, cancel := context.WithTimeout(context.Background(), 20*time.Second)
					r, err := leader.rt.Log().Commit(ctx, p)
					cancel()
					s.logf("conflicting retry ch=%d cmd=%x field=%s -> %+v err=%v", o.cmd.channel, p.CommandID[28:], field, r, err)
					if err == nil {
						s.fail("C03", "conflicting-retry-acknowledged", "command %x reused with different %s was acknowledged: %+v", p.CommandID[28:], field, r)
					}
					if errors.Is(err, ch.ErrBackpressured) || errors.Is(err, ch.ErrNotReady) {
						// refused for a reason that precedes the content comparison (another
						// proposal pending, or the channel could not be re-installed)
						continue
					}
					oversized := cfg.BatchItems > 0 && len(p.Records) > cfg.BatchItems
					if oversized && errors.Is(err, ch.ErrInvalidConfig) {
						// one record more than the owner accepts in a proposal: refused as
						// invalid input before any comparison; it must still store nothing
						s.flags["conflicting retry larger than the proposal limit refused as invalid"] = true
					} else if !errors.Is(err, ch.ErrLogConflict) {
						s.fail("C03", "conflicting-retry-wrong-error", "command %x reused with different %s returned %v, want ErrLogConflict", p.CommandID[28:], field, err)
					}
					after := s.view(1, o.cmd.channel)
					if before.err == nil && after.err == nil && after.state.LEO != before.state.LEO {
						s.fail("C03", "conflicting-retry-stored", "refused conflicting retry moved LEO %d -> %d", before.state.LEO, after.state.LEO)
					}
					sawConflict = true
				case "restart":
					s.crash(1)
					s.restart(1)
					for cc := 0; cc < channels; cc++ {
						if _, err := s.install(cc, s.control[cc]); err != nil {
							s.flags["re-install after restart failed: "+err.Error()] = true
						}
					}
					for _, o := range cmds {
						o.restarts++
					}
				case "lookup":
					verifC03CheckLookups(s, cmds)
				}
				if _, ok := leader.installed[c]; !ok {
					// leader could not re-install (e.g. followers unreachable): heal and retry
					s.healAll()
					if _, err := s.install(c, s.control[c]); err != nil {
						return
					}
				}
			}
			// Resolution: with every link healed, no armed loss and the owner
			// installed, nothing transient is left. A command whose outcome was
			// ambiguous (its proposal may already be durable on a quorum) must now be
			// resolved by an exact retry: the call returns its range. A command that
			// stays refused here can never obtain its range.
			s.healAll()
			s.clearDrops()
			for c := 0; c < channels; c++ {
				if _, ok := s.node(1).installed[c]; !ok {
					if _, err := s.install(c, s.control[c]); err != nil {
						s.flags["final re-install failed (resolution not judged): "+err.Error()] = true
					}
				}
			}
			// Only the proposal that is pending on a channel can make progress;
			// retries of the others are refused until it is resolved. So go round
			// by round: every round must resolve at least one command.
			for {
				var open []*verifC03Cmd
				for _, o := range cmds {
					if o.cmd.acked || !o.cmd.ambiguous {
						continue
					}
					if _, ok := s.node(1).installed[o.cmd.channel]; !ok {
						continue
					}
					open = append(open, o)
				}
				if len(open) == 0 {
					break
				}
				progress := false
				var lastErr error
				var lastCmd *verifC03Cmd
				for _, o := range open {
					o.cmd.proposal.Expected = s.node(1).installed[o.cmd.channel].ID
					if _, err := s.commit(o.cmd); err == nil {
						progress = true
						sawResolved = true
					} else {
						lastErr, lastCmd = err, o
					}
				}
				if !progress {
					s.fail("C03", "ambiguous-command-never-resolves", "exact retries of the %d commands whose first outcome was ambiguous make no progress with every link healed and the owner installed; e.g. command %x (%d records) still returns %v", len(open), lastCmd.cmd.proposal.CommandID[28:], len(lastCmd.cmd.proposal.Records), lastErr)
					break
				}
			}
			verifC03CheckLookups(s, cmds)
			// ranges pairwise disjoint and covering exactly 1..LEO per channel
			for c := 0; c < channels; c++ {
				var ranges [][2]uint64
				for _, o := range cmds {
					if o.cmd.acked && o.cmd.channel == c {
						ranges = append(ranges, [2]uint64{o.cmd.receipt.First, o.cmd.receipt.Last})
					}
				}
				sort.Slice(ranges, func(i, j int) bool { return ranges[i][0] < ranges[j][0] })
				next := uint64(1)
				for _, r := range ranges {
					if r[0] < next {
						s.fail("C03", "overlapping-ranges", "channel %d ranges overlap at %v", c, r)
					}
					next = r[1] + 1
				}
			}
			k.Key(strings.Join(s.hist, "|"))
			k.SetNonTrivial(sawEvictedRetry || sawRestartRetry)
			k.LabelIf(sawEvictedRetry, "exact retry of a command evicted from the retained cache")
			k.LabelIf(sawRestartRetry, "exact retry of a command acknowledged before an owner restart")
			k.LabelIf(sawFullRetry, "exact retry of a largest-size proposal after eviction or owner restart")
			k.LabelIf(sawSettledRetry, "exact retry right after a fresh acknowledgement (no transient refusal possible)")
			k.LabelIf(cfg.BatchItems > 0, fmt.Sprintf("proposal limit lowered to %d records", cfg.BatchItems))
			k.LabelIf(sawResolved, "ambiguous command resolved by an exact retry after healing")
			k.LabelIf(sawConflict, "conflicting retry refused")
			k.LabelIf(sawAmbiguous, "ambiguous outcome (lost response) then retry possible")
			k.LabelIf(cfg.Pebble, "pebble stores")
			k.Label(fmt.Sprintf("retained=%d", retained))
			k.Sample(func() any { return map[string]any{"retained": retained, "actions": hist, "history_tail": verifTail(s.hist, 12)} })
		})
	})
}

func verifTail(h []string, n int) []string {
	if len(h) > n {
		return h[len(h)-n:]
	}
	return h
}

func verifC03CheckLookups(s *verifSim, cmds []*verifC03Cmd) {
	store, ok := s.node(1).store.(commandStore)
	if !ok || s.node(1).rt == nil {
		return
	}
	for _, o := range cmds {
		if !o.cmd.acked {
			continue
		}
		ctx, cancel := context.WithTimeout(context.Background(), 10*time.Second)
		res := store.LookupCommands(ctx, []CommandLookup{{ChannelKey: verifSimChannelKey(o.cmd.channel), ChannelID: verifSimChannelID(o.cmd.channel),
			CommandID: o.cmd.proposal.CommandID, MaxRecords: 64, MaxBytes: 1 << 20}})
		cancel()
		if len(res) != 1 || res[0].Err != nil || !res[0].Found {
			s.fail("C03", "acked-command-not-in-index", "LookupCommands(%x) = %+v", o.cmd.proposal.CommandID[28:], res)
			continue
		}
		m := res[0].Manifest
		if m.BaseOffset+1 != o.cmd.receipt.First || m.LastOffset != o.cmd.receipt.Last || len(res[0].Records) != len(o.cmd.proposal.Records) {
			s.fail("C03", "command-index-range-mismatch", "LookupCommands(%x) manifest (%d,%d] records=%d, receipt [%d,%d]", o.cmd.proposal.CommandID[28:], m.BaseOffset, m.LastOffset, len(res[0].Records), o.cmd.receipt.First, o.cmd.receipt.Last)
			continue
		}
		for i := range res[0].Records {
			if !verifSimSameRecord(res[0].Records[i], o.cmd.proposal.Records[i], o.cmd.receipt.First+uint64(i)) {
				s.fail("C03", "command-index-content-mismatch", "LookupCommands(%x) record %d differs from the proposed one", o.cmd.proposal.CommandID[28:], i)
			}
		}
	}
}

// ---------------------------------------------------------------- C04

// TestVerifC04Authority: authority orderings, fences, stale proposals.
func TestVerifC04Authority(t *testing.T) {
	kit.Check(t, "C04", func(rt *rapid.T, k *kit.Case) {
		n, q := verifDrawTopology(rt)
		cfg := verifSimConfig{N: n, Q: q, Channels: rapid.IntRange(1, 2).Draw(rt, "channels"), RetainedCommands: 8, PageBytes: 4096}
		verifRunCase(rt, k, "C04", cfg, func(s *verifSim) {
			s.enabledOnly(map[string]bool{"C04": true})
			w := verifScriptWeights{commit: 8, retry: 2, failover: 6, reinstall: 2, crash: 3, restart: 5, isolate: 1, cut: 1, heal: 2, drop: 1, flush: 2, staleCommit: 6, badInstall: 6, fence: 4, cleanFailover: 1}
			st := verifRunScript(rt, k, s, verifScriptOpts{prop: "C04", enabled: map[string]bool{"C04": true}, weights: w, steps: kit.Scale("C04STEPS", 30, 45), preSeed: verifPreSeed()})
			k.SetNonTrivial(st.nontrivialC04)
			k.LabelIf(st.staleRejected > 0, "proposal under a non-installed authority rejected")
			k.Label(fmt.Sprintf("N=%d Q=%d", n, q))
		})
	})
}

// TestVerifC04Race: k commits under authority A race an Install of a higher
// authority A' on the same owner. Every receipt must carry A; a commit that
// starts after Install(A') returned must be refused; every call returns.
func TestVerifC04Race(t *testing.T) {
	kit.Check(t, "C04", func(rt *rapid.T, k *kit.Case) {
		cfg := verifSimConfig{N: 3, Q: 2, Channels: 1, RetainedCommands: 8, PageBytes: 4096, Timing: rapid.Bool().Draw(rt, "timing")}
		workers := rapid.IntRange(2, 6).Draw(rt, "workers")
		perWorker := rapid.IntRange(1, 4).Draw(rt, "perWorker")
		installAfter := rapid.IntRange(0, workers*perWorker).Draw(rt, "installAfterStarts")
		sameLeader := rapid.IntRange(0, 3).Draw(rt, "sameLeader") > 0
		fenced := rapid.IntRange(0, 4).Draw(rt, "fencedInstall") == 0
		verifRunCase(rt, k, "C04", cfg, func(s *verifSim) {
			s.enabledOnly(map[string]bool{"C04": true})
			a := s.control[0]
			if _, err := s.install(0, a); err != nil {
				rt.Fatalf("VERIF-MACHINERY install: %v", err)
			}
			leader := s.node(1)
			next := cloneAuthority(a)
			next.ID.LeaderTerm++
			next.ID.FenceVersion++
			if !sameLeader {
				next.ID.ChannelEpoch++
			}
			if fenced {
				next.WriteFence = ch.WriteFence{Token: "race", Version: next.ID.FenceVersion, Reason: ch.WriteFenceReasonLeaderTransfer}
			}
			type result struct {
				start   int64
				end     int64
				receipt Receipt
				err     error
				recs    int
			}
			var clock atomic.Int64
			var started atomic.Int64
			var installDone atomic.Int64 // clock value when Install(A') returned (0 = not yet)
			results := make([]result, 0, workers*perWorker)
			var mu sync.Mutex
			var wg sync.WaitGroup
			trigger := make(chan struct{})
			var once sync.Once
			proposals := make([][]Proposal, workers)
			for w := 0; w < workers; w++ {
				for j := 0; j < perWorker; j++ {
					proposals[w] = append(proposals[w], Proposal{Key: verifSimChannelKey(0), Expected: a.ID, CommandID: s.newCommandID(), Records: s.newRecords(0, 1+(w+j)%2, 1, []byte("r"))})
				}
			}
			for w := 0; w < workers; w++ {
				wg.Add(1)
				go func(w int) {
					defer wg.Done()
					for _, p := range proposals[w] {
						if started.Add(1) > int64(installAfter) {
							once.Do(func() { close(trigger) })
						}
						st := clock.Add(1)
						ctx, cancel := context.WithTimeout(context.Background(), 30*time.Second)
						r, err := leader.rt.Log().Commit(ctx, p)
						cancel()
						en := clock.Add(1)
						mu.Lock()
						results = append(results, result{start: st, end: en, receipt: r, err: err, recs: len(p.Records)})
						mu.Unlock()
					}
				}(w)
			}
			var installErr error
			wg.Add(1)
			go func() {
				defer wg.Done()
				if installAfter > 0 {
					<-trigger
				}
				ctx, cancel := context.WithTimeout(context.Background(), 30*time.Second)
				_, installErr = leader.rt.Log().Install(ctx, next)
				cancel()
				installDone.Store(clock.Add(1))
			}()
			if installAfter >= workers*perWorker {
				// nobody will ever exceed the threshold: release the installer after the workers
				go func() { time.Sleep(2 * time.Millisecond); once.Do(func() { close(trigger) }) }()
			}
			done := make(chan struct{})
			go func() { wg.Wait(); close(done) }()
			select {
			case <-done:
			case <-time.After(60 * time.Second):
				rt.Fatalf("VERIF-MACHINERY race case did not finish in 60s")
			}
			doneAt := installDone.Load()
			acked, refusedAfter, ackedDuring := 0, 0, 0
			var ranges [][2]uint64
			for _, r := range results {
				if r.err == nil {
					acked++
					if r.receipt.Authority != a.ID {
						s.fail("C04", "receipt-under-foreign-authority", "receipt carries %+v, proposal expected %+v", r.receipt.Authority, a.ID)
					}
					{
						if r.start > doneAt {
							s.fail("C04", "ack-after-newer-install", "a commit under %+v that started (t=%d) after Install(%+v) returned (t=%d, err=%v) was acknowledged: %+v", a.ID, r.start, next.ID, doneAt, installErr, r.receipt)
						}
					}
					if r.end > doneAt {
						ackedDuring++
					}
					ranges = append(ranges, [2]uint64{r.receipt.First, r.receipt.Last})
				} else if r.start > doneAt {
					refusedAfter++
				}
			}
			sort.Slice(ranges, func(i, j int) bool { return ranges[i][0] < ranges[j][0] })
			for i := 1; i < len(ranges); i++ {
				if ranges[i][0] <= ranges[i-1][1] {
					s.fail("C03", "overlapping-ranges", "racing commits got overlapping ranges %v %v", ranges[i-1], ranges[i])
				}
			}
			if fenced && !errors.Is(installErr, ch.ErrWriteFenced) {
				s.fail("C04", "fenced-install-not-refused", "Install with write fence returned %v", installErr)
			}
			// after the newer authority is in place nothing under the old one is acknowledged
			p := Proposal{Key: verifSimChannelKey(0), Expected: a.ID, CommandID: s.newCommandID(), Records: s.newRecords(0, 1, 1, []byte("late"))}
			ctx, cancel := context.WithTimeout(context.Background(), 30*time.Second)
			r, err := leader.rt.Log().Commit(ctx, p)
			cancel()
			if err == nil {
				s.fail("C04", "ack-after-newer-install", "commit under deposed %+v acknowledged after Install(%+v) (err=%v): %+v", a.ID, next.ID, installErr, r)
			}
			// and the old authority cannot come back
			ctx, cancel = context.WithTimeout(context.Background(), 30*time.Second)
			_, err = leader.rt.Log().Install(ctx, a)
			cancel()
			if !errors.Is(err, ch.ErrStaleMeta) {
				s.fail("C04", "regressing-install-accepted", "re-Install of older %+v after %+v returned %v, want ErrStaleMeta", a.ID, next.ID, err)
			}
			k.Key("race", workers, perWorker, installAfter, sameLeader, fenced, acked, refusedAfter)
			k.SetNonTrivial(acked > 0 && refusedAfter > 0)
			k.LabelIf(acked > 0 && refusedAfter > 0, "some commits acknowledged before and some refused after the racing install")
			k.LabelIf(ackedDuring > 0, "a commit in flight across the install completion was acknowledged under the old authority (allowed: it held the channel first)")
			k.LabelIf(fenced, "racing install carried a write fence")
			k.LabelIf(cfg.Timing, "real timers")
			k.Sample(func() any {
				return fmt.Sprintf("workers=%d perWorker=%d installAfterStarts=%d fenced=%v -> acked=%d refusedAfterInstall=%d installErr=%v", workers, perWorker, installAfter, fenced, acked, refusedAfter, installErr)
			})
		})
	})
}
