package reactor

import (
	"errors"
	"fmt"
	"sort"
	"strings"
	"testing"

	ch "github.com/WuKongIM/WuKongIM/pkg/channel"
	"github.com/WuKongIM/WuKongIM/pkg/channel/machine"
	"github.com/WuKongIM/WuKongIM/pkg/channel/transport"
	"pgregory.net/rapid"
	"verif.local/kit"
)

// The pure machine trusts follower acknowledgements; the reactor is the guard
// that keeps "committed watermark <= log end": an acknowledgement (progress ack
// or the AckOffset piggy-backed on a pull) beyond the leader's log end must be
// refused with ErrStaleMeta and must not move HW or any replica progress.
// This harness drives the two reactor entry points with generated follower
// ids and offsets on both sides of the log end.

func verifC06Snapshot(s *machine.ChannelState) string {
	nodes := make([]int, 0, len(s.Progress))
	for n := range s.Progress {
		nodes = append(nodes, int(n))
	}
	sort.Ints(nodes)
	var b strings.Builder
	fmt.Fprintf(&b, "LEO=%d HW=%d CP=%d pending=%d inflight=%v progress=", s.LEO, s.HW, s.CheckpointHW, len(s.PendingAppends), s.InflightAppend != nil)
	for _, n := range nodes {
		fmt.Fprintf(&b, "%d:%d ", n, s.Progress[ch.NodeID(n)].Match)
	}
	return b.String()
}

func TestVerifC06ReactorAckGuard(t *testing.T) {
	kit.Check(t, "C06", func(rt *rapid.T, k *kit.Case) {
		const key = ch.ChannelKey("verif/c06r")
		id := ch.ChannelID{ID: "c06r", Type: 2}
		leo := uint64(rapid.IntRange(0, 8).Draw(rt, "leo"))
		hw := uint64(rapid.IntRange(0, int(leo)).Draw(rt, "hw"))
		st := machine.NewChannelState(key, 1, 7)
		st.LEO, st.HW, st.CheckpointHW = leo, hw, uint64(rapid.IntRange(0, int(hw)).Draw(rt, "cp"))
		isr := []ch.NodeID{1, 2, 3}[:rapid.IntRange(1, 3).Draw(rt, "isr")]
		minISR := rapid.IntRange(1, len(isr)).Draw(rt, "minISR")
		meta := ch.Meta{Key: key, ID: id, Epoch: 1, LeaderEpoch: 1, Leader: 1, Replicas: []ch.NodeID{1, 2, 3}, ISR: isr, MinISR: minISR, Status: ch.StatusActive}
		if d := st.ApplyMeta(meta); d.Err != nil {
			rt.Fatalf("ApplyMeta: %v", d.Err)
		}
		// optionally one durable batch whose quorum waiter is still outstanding
		var target uint64
		if rapid.Bool().Draw(rt, "withWaiter") {
			n := rapid.IntRange(1, 3).Draw(rt, "nrec")
			recs := make([]ch.Record, n)
			for i := range recs {
				recs[i] = ch.Record{ID: uint64(100 + i), Payload: []byte{1}, SizeBytes: 1}
			}
			d := st.ProposeAppend(machine.AppendCommand{OpID: 1, CommitMode: ch.CommitModeQuorum, Records: recs})
			if d.Err != nil || len(d.Tasks) != 1 {
				rt.Fatalf("ProposeAppend: %+v", d)
			}
			st.ApplyAppendStored(machine.AppendStoredResult{Fence: d.Tasks[0].Fence, BaseOffset: st.LEO + 1, LastOffset: st.LEO + uint64(n)})
			target = st.LEO
		}
		r := &Reactor{}
		r.cfg.LocalNode = 1
		rc := &runtimeChannel{state: st}

		match := map[ch.NodeID]uint64{1: st.LEO}
		var log []string
		sawBeyond, sawAccepted, sawHWMove := false, false, false
		steps := rapid.IntRange(1, 12).Draw(rt, "acks")
		for i := 0; i < steps; i++ {
			follower := ch.NodeID(rapid.IntRange(2, 4).Draw(rt, "follower"))
			off := uint64(rapid.IntRange(0, int(st.LEO)+3).Draw(rt, "offset"))
			viaPull := rapid.Bool().Draw(rt, "viaPull")
			before := verifC06Snapshot(st)
			beforeHW, beforeLEO := st.HW, st.LEO
			pendingBefore := len(st.PendingAppends)
			var err error
			if viaPull {
				_, err = r.applyLeaderPullAckOffset(rc, transport.PullRequest{ChannelKey: key, ChannelID: id, Epoch: 1, LeaderEpoch: 1, Follower: follower, NextOffset: off + 1, AckOffset: off, MaxBytes: 1}, false)
			} else {
				err = r.applyLeaderProgressAck(rc, transport.AckRequest{ChannelKey: key, Epoch: 1, LeaderEpoch: 1, Follower: follower, MatchOffset: off})
			}
			log = append(log, fmt.Sprintf("ack(node %d, offset %d, viaPull=%v) = %v; %s", follower, off, viaPull, err, verifC06Snapshot(st)))
			fail := func(f string, a ...any) {
				rt.Helper()
				rt.Fatalf("%s\nhistory:\n  %s", fmt.Sprintf(f, a...), strings.Join(log, "\n  "))
			}
			if off > beforeLEO {
				sawBeyond = true
				if !errors.Is(err, ch.ErrStaleMeta) {
					fail("acknowledgement %d beyond the log end %d returned %v, want ErrStaleMeta", off, beforeLEO, err)
				}
				if after := verifC06Snapshot(st); after != before {
					fail("refused acknowledgement changed the state: %s -> %s", before, after)
				}
				continue
			}
			if err != nil {
				fail("acknowledgement %d within the log (LEO %d) returned %v", off, beforeLEO, err)
			}
			sawAccepted = sawAccepted || off > 0
			if off > 0 && follower != 4 && off > match[follower] { // node 4 is not a replica
				match[follower] = off
			}
			ms := make([]uint64, 0, len(isr))
			for _, n := range isr {
				ms = append(ms, match[n])
			}
			sort.Slice(ms, func(a, b int) bool { return ms[a] > ms[b] })
			want := beforeHW
			if off > 0 && follower != 4 && ms[minISR-1] > want {
				want = ms[minISR-1]
			}
			if st.HW != want {
				fail("HW=%d after the acknowledgement, the MinISR=%d-th highest ISR match says %d", st.HW, minISR, want)
			}
			if st.CheckpointHW > st.HW || st.HW > st.LEO || st.HW < beforeHW || st.LEO != beforeLEO {
				fail("watermarks CP=%d HW=%d LEO=%d (before HW=%d LEO=%d)", st.CheckpointHW, st.HW, st.LEO, beforeHW, beforeLEO)
			}
			if target != 0 && pendingBefore == 1 {
				done := len(st.PendingAppends) == 0
				if done != (st.HW >= target) {
					fail("quorum waiter with last sequence %d: completed=%v with HW=%d", target, done, st.HW)
				}
			}
			sawHWMove = sawHWMove || st.HW > beforeHW
		}
		k.Key("reactor", leo, hw, fmt.Sprint(isr), minISR, strings.Join(log, "|"))
		k.SetNonTrivial(sawBeyond && sawAccepted)
		k.LabelIf(sawBeyond, "reactor: ack beyond log end refused")
		k.LabelIf(sawAccepted, "reactor: ack within log accepted")
		k.LabelIf(sawHWMove, "reactor: HW advanced through reactor ack path")
		k.LabelIf(target != 0, "reactor: quorum waiter outstanding")
		k.Sample(func() any { return log })
	})
}
