package reactor

// C10, layer 2 — retention state of a reactor-owned channel. A rapid state
// machine interleaves log growth, commit (HW) advances, durable checkpoint
// writes (directly, and through the reactor's committed-checkpoint path),
// follower progress, role changes, restarts from the store and
// ApplyRetentionBoundary with arbitrary (also regressing, overshooting and
// retried) boundaries and trim budgets. The store is the in-memory store behind
// a recording wrapper that also injects store faults at generated points:
// StoreCheckpoint / TrimMessagesThrough / AdoptRetentionBoundary returning an
// I/O error or a cancelled context, either before anything was written or
// after the write was applied (lost acknowledgement).
// Invariants: RetentionThroughSeq / LocalRetentionThroughSeq /
// PhysicalRetentionThroughSeq (runtime and store) never move backwards; a
// physical trim is only issued, and rows only disappear, at or below
// min(HW, CheckpointHW, DURABLE checkpoint HW in the store, LEO[, min ISR match
// on a leader]) as they stood when the request was handled; at every step the
// store (what a restarted node would load) holds every row above its durable
// checkpoint HW and its physical boundary is not above that checkpoint; plus
// the pure gate retentionTrimDecision.

import (
	"context"
	"errors"
	"fmt"
	"strings"
	"sync"
	"testing"
	"time"

	ch "github.com/WuKongIM/WuKongIM/pkg/channel"
	"github.com/WuKongIM/WuKongIM/pkg/channel/machine"
	"github.com/WuKongIM/WuKongIM/pkg/channel/store"
	"github.com/WuKongIM/WuKongIM/pkg/channel/worker"
	"pgregory.net/rapid"
	"verif.local/kit"
)

var verifC10ErrInjected = errors.New("verif C10: injected store I/O error")

// store faults a case can arm for the next matching store call
const (
	verifC10FaultNone        = "none"
	verifC10FaultCpErr       = "checkpoint-error"     // StoreCheckpoint fails, nothing written
	verifC10FaultCpCancel    = "checkpoint-cancelled" // StoreCheckpoint returns context.Canceled, nothing written
	verifC10FaultCpLostAck   = "checkpoint-lost-ack"  // StoreCheckpoint written, error returned
	verifC10FaultTrimErr     = "trim-error"           // TrimMessagesThrough fails, nothing deleted
	verifC10FaultTrimLostAck = "trim-lost-ack"        // TrimMessagesThrough applied, error returned
	verifC10FaultAdoptErr    = "adopt-error"          // AdoptRetentionBoundary fails, nothing written
	verifC10FaultAdoptLost   = "adopt-lost-ack"       // AdoptRetentionBoundary applied, error returned
)

type verifC10TrimCall struct {
	through uint64
	opts    store.RetentionTrimOptions
	result  store.RetentionTrimResult
	err     error
}

type verifC10CpCall struct {
	hw        uint64
	err       error
	persisted bool
}

type verifC10RecFactory struct {
	inner store.Factory
	mu    sync.Mutex
	trims []verifC10TrimCall
	cps   []verifC10CpCall
	adopt []uint64
	// armed is consumed by the first store call of the matching kind
	armed    string
	consumed bool
}

func (f *verifC10RecFactory) ChannelStore(key ch.ChannelKey, id ch.ChannelID) (store.ChannelStore, error) {
	cs, err := f.inner.ChannelStore(key, id)
	if err != nil {
		return nil, err
	}
	return &verifC10RecStore{ChannelStore: cs, f: f}, nil
}

// take reports (and consumes) the armed fault if it is one of kinds.
func (f *verifC10RecFactory) take(kinds ...string) string {
	f.mu.Lock()
	defer f.mu.Unlock()
	for _, k := range kinds {
		if f.armed == k && !f.consumed {
			f.consumed = true
			return k
		}
	}
	return verifC10FaultNone
}

func (f *verifC10RecFactory) arm(kind string) {
	f.mu.Lock()
	f.armed, f.consumed = kind, false
	f.mu.Unlock()
}

// disarm clears the plan and reports whether the armed fault was hit.
func (f *verifC10RecFactory) disarm() (string, bool) {
	f.mu.Lock()
	defer f.mu.Unlock()
	k, c := f.armed, f.consumed
	f.armed, f.consumed = "", false
	return k, c
}

type verifC10RecStore struct {
	store.ChannelStore
	f *verifC10RecFactory
}

func (s *verifC10RecStore) StoreCheckpoint(ctx context.Context, checkpoint ch.Checkpoint) error {
	fault := s.f.take(verifC10FaultCpErr, verifC10FaultCpCancel, verifC10FaultCpLostAck)
	call := verifC10CpCall{hw: checkpoint.HW}
	switch fault {
	case verifC10FaultCpErr:
		call.err = verifC10ErrInjected
	case verifC10FaultCpCancel:
		call.err = context.Canceled
	default:
		call.err = s.ChannelStore.StoreCheckpoint(ctx, checkpoint)
		call.persisted = call.err == nil
		if fault == verifC10FaultCpLostAck && call.err == nil {
			call.err = verifC10ErrInjected
		}
	}
	s.f.mu.Lock()
	s.f.cps = append(s.f.cps, call)
	s.f.mu.Unlock()
	return call.err
}

func (s *verifC10RecStore) TrimMessagesThrough(ctx context.Context, through uint64, opts store.RetentionTrimOptions) (store.RetentionTrimResult, error) {
	fault := s.f.take(verifC10FaultTrimErr, verifC10FaultTrimLostAck)
	var res store.RetentionTrimResult
	var err error
	if fault == verifC10FaultTrimErr {
		err = verifC10ErrInjected
	} else {
		res, err = s.ChannelStore.TrimMessagesThrough(ctx, through, opts)
		if fault == verifC10FaultTrimLostAck && err == nil {
			err = verifC10ErrInjected
		}
	}
	s.f.mu.Lock()
	s.f.trims = append(s.f.trims, verifC10TrimCall{through: through, opts: opts, result: res, err: err})
	s.f.mu.Unlock()
	if err != nil {
		return store.RetentionTrimResult{}, err
	}
	return res, nil
}

func (s *verifC10RecStore) AdoptRetentionBoundary(ctx context.Context, through uint64, cursor string) (uint64, error) {
	fault := s.f.take(verifC10FaultAdoptErr, verifC10FaultAdoptLost)
	if fault == verifC10FaultAdoptErr {
		return 0, verifC10ErrInjected
	}
	s.f.mu.Lock()
	s.f.adopt = append(s.f.adopt, through)
	s.f.mu.Unlock()
	n, err := s.ChannelStore.AdoptRetentionBoundary(ctx, through, cursor)
	if fault == verifC10FaultAdoptLost && err == nil {
		return 0, verifC10ErrInjected
	}
	return n, err
}

func (f *verifC10RecFactory) takeTrims() []verifC10TrimCall {
	f.mu.Lock()
	defer f.mu.Unlock()
	out := f.trims
	f.trims = nil
	return out
}

func (f *verifC10RecFactory) takeCheckpoints() []verifC10CpCall {
	f.mu.Lock()
	defer f.mu.Unlock()
	out := f.cps
	f.cps = nil
	return out
}

type verifC10Sink struct{ results chan worker.Result }

func (s verifC10Sink) Complete(r worker.Result) { s.results <- r }

// verifC10Cover: the highest sequence a physical trim may touch, given the
// reactor-owned state and the checkpoint HW that is durable in the store.
func verifC10Cover(st *machine.ChannelState, durableCheckpointHW uint64) uint64 {
	bound := min(st.HW, st.CheckpointHW, durableCheckpointHW, st.LEO)
	if st.Role == ch.RoleLeader {
		for _, node := range st.ISR {
			if node == st.LocalNode {
				continue
			}
			// a member whose progress is unknown to this leader incarnation is
			// not constraining (the code treats it as standing at the
			// authoritative boundary, which it can always skip to)
			if p, ok := st.Progress[node]; ok && p.Match < bound {
				bound = p.Match
			}
		}
	}
	return bound
}

func verifC10PresentSeqs(cs store.ChannelStore) map[uint64]bool {
	out := map[uint64]bool{}
	res, err := cs.ReadLog(context.Background(), store.ReadLogRequest{FromOffset: 1, MaxBytes: 1 << 30})
	if err != nil {
		return out
	}
	for _, r := range res.Records {
		out[r.Index] = true
	}
	return out
}

func TestVerifC10ReactorRetention(t *testing.T) {
	kit.Check(t, "C10", func(rt *rapid.T, k *kit.Case) {
		ctx := context.Background()
		mem := store.NewMemoryFactory()
		rec := &verifC10RecFactory{inner: mem}
		id := ch.ChannelID{ID: "vc10-reactor", Type: 1}
		meta := ch.Meta{Key: ch.ChannelKeyForID(id), ID: id, Epoch: 1, LeaderEpoch: 1, Leader: 1,
			Replicas: []ch.NodeID{1, 2, 3}, ISR: []ch.NodeID{1}, MinISR: 1, Status: ch.StatusActive}
		switch rapid.IntRange(0, 2).Draw(rt, "isr") {
		case 1:
			meta.ISR = []ch.NodeID{1, 2}
		case 2:
			meta.ISR = []ch.NodeID{1, 2, 3}
		}
		meta.MinISR = rapid.IntRange(1, len(meta.ISR)).Draw(rt, "minISR")
		// cs is the unwrapped store handle: the harness' own writes and all
		// oracle reads bypass the fault injection
		cs, _ := mem.ChannelStore(meta.Key, id)
		var nextID uint64
		appendRows := func(n int) {
			recs := make([]ch.Record, n)
			for i := range recs {
				nextID++
				recs[i] = ch.Record{ID: nextID, Payload: []byte{byte(nextID), 1, 2}, SizeBytes: 3}
			}
			if _, err := cs.AppendLeader(ctx, store.AppendLeaderRequest{Records: recs}); err != nil {
				rt.Fatalf("VERIF-MACHINERY append: %v", err)
			}
		}
		n0 := rapid.IntRange(0, 12).Draw(rt, "rows")
		if n0 > 0 {
			appendRows(n0)
			if err := cs.StoreCheckpoint(ctx, ch.Checkpoint{HW: uint64(rapid.IntRange(0, n0).Draw(rt, "checkpoint"))}); err != nil {
				rt.Fatalf("VERIF-MACHINERY checkpoint: %v", err)
			}
		}
		sink := verifC10Sink{results: make(chan worker.Result, 64)}
		pools, err := worker.NewPools(worker.PoolsConfig{
			StoreAppend: worker.PoolConfig{Name: "append", Workers: 1, QueueSize: 8},
			StoreRead:   worker.PoolConfig{Name: "read", Workers: 1, QueueSize: 8},
			StoreApply:  worker.PoolConfig{Name: "apply", Workers: 1, QueueSize: 8},
			RPC:         worker.PoolConfig{Name: "rpc", Workers: 1, QueueSize: 8},
		}, worker.Deps{LocalNode: 1, Stores: rec}, sink)
		if err != nil {
			rt.Fatalf("VERIF-MACHINERY pools: %v", err)
		}
		defer pools.Close()

		// the node under test: rebuilt from the store by boot() (first start and
		// every generated restart)
		var r *Reactor
		var rc *runtimeChannel
		var st *machine.ChannelState
		boot := func() {
			r = NewReactor(ReactorConfig{ID: 0, LocalNode: 1, Store: rec, Pools: pools, MailboxSize: 16})
			mf := NewFuture()
			r.handleApplyMeta(Event{Kind: EventApplyMeta, Key: meta.Key, Meta: meta, Future: mf})
			mctx, cancel := context.WithTimeout(ctx, 20*time.Second)
			_, err := mf.Await(mctx)
			cancel()
			if err != nil {
				rt.Fatalf("VERIF-MACHINERY apply meta: %v", err)
			}
			rc = r.channels[meta.Key]
			if rc == nil || rc.state == nil {
				rt.Fatalf("VERIF-MACHINERY channel not loaded")
			}
			st = rc.state
		}
		boot()

		// durable: what a restarted node would load from the store
		durable := func() store.InitialState {
			init, err := cs.Load(ctx)
			if err != nil {
				rt.Fatalf("VERIF-MACHINERY load: %v", err)
			}
			return init
		}
		// pump delivers worker completions to the reactor until cond holds
		// (deterministic: no time windows; the deadline is machinery only)
		pump := func(what string, cond func() bool) {
			deadline := time.NewTimer(30 * time.Second)
			defer deadline.Stop()
			for !cond() {
				select {
				case wr := <-sink.results:
					r.handleWorkerResult(Event{Kind: EventWorkerResult, Worker: wr})
				case <-deadline.C:
					rt.Fatalf("VERIF-MACHINERY %s not completed in 30s", what)
				}
			}
		}

		type retSnap struct{ ret, local, phys, sLocal, sPhys uint64 }
		snap := func() retSnap {
			rs, _ := cs.LoadRetentionState(ctx)
			return retSnap{st.RetentionThroughSeq, st.LocalRetentionThroughSeq, st.PhysicalRetentionThroughSeq, rs.LocalRetentionThroughSeq, rs.PhysicalRetentionThroughSeq}
		}
		prev := snap()
		var trace []string
		note := func(f string, a ...any) { trace = append(trace, fmt.Sprintf(f, a...)) }
		fail := func(f string, a ...any) {
			rt.Fatalf("%s\n  history: %s", fmt.Sprintf(f, a...), strings.Join(trace, " ; "))
		}
		var sawRegress, sawBlocked, sawTrim, sawOvershoot, sawISRBlock bool
		var sawCpLagBlock, sawRetentionCpOK, sawRetentionCpFailed, sawRetentionCpLostAck, sawFailedCpReapplied, sawFailedCpReappliedStillBlocked bool
		var sawTrimFault, sawAdoptFault, sawReactorCp, sawReactorCpFailed, sawRestart, sawRetry bool
		nApply := 0
		var lastThrough uint64
		// the last retention-owned checkpoint write that failed without reaching
		// the store: attempted HW and the durable checkpoint HW at that moment
		var failedCpHW, failedCpDurable uint64
		everStored := map[uint64]bool{}
		var maxStored uint64
		for seq := range verifC10PresentSeqs(cs) {
			everStored[seq] = true
			maxStored = max(maxStored, seq)
		}

		applyBoundary := func(rt *rapid.T) {
			dur := durable().CheckpointHW
			var through uint64
			throughKind := rapid.IntRange(0, 3).Draw(rt, "throughKind")
			if failedCpHW > 0 && dur == failedCpDurable && throughKind < 2 && rapid.Bool().Draw(rt, "retryAfterFailedCheckpoint") {
				throughKind = 2 // a blocked boundary is what the retention worker comes back with
			}
			switch throughKind {
			case 2: // the retention worker retries the boundary it applied last
				through = lastThrough
			case 3: // a boundary that is committed but not yet durably checkpointed
				if st.HW > dur {
					through = dur + 1 + uint64(rapid.IntRange(0, int(st.HW-dur)-1).Draw(rt, "aboveCheckpoint"))
				}
			}
			if through == 0 {
				through = uint64(rapid.IntRange(1, int(st.LEO)+2).Draw(rt, "through"))
			}
			opts := ch.RetentionApplyOptions{}
			if rapid.Bool().Draw(rt, "hasMaxMessages") {
				opts.MaxTrimMessages = rapid.IntRange(1, 3).Draw(rt, "maxMessages")
			}
			if rapid.IntRange(0, 2).Draw(rt, "hasMaxBytes") == 0 {
				opts.MaxTrimBytes = rapid.IntRange(1, 12).Draw(rt, "maxBytes")
			}
			// fault plan for this request (guided by what the request is about to
			// do, so that armed faults are mostly reached; the oracle does not
			// depend on this guess)
			faults := []string{verifC10FaultNone, verifC10FaultNone, verifC10FaultNone, verifC10FaultNone, verifC10FaultAdoptErr, verifC10FaultAdoptLost}
			if through > st.PhysicalRetentionThroughSeq && through <= st.HW && through > dur {
				faults = append(faults, verifC10FaultCpErr, verifC10FaultCpErr, verifC10FaultCpErr, verifC10FaultCpCancel, verifC10FaultCpCancel, verifC10FaultCpLostAck)
			} else {
				faults = append(faults, verifC10FaultTrimErr, verifC10FaultTrimLostAck)
			}
			fault := rapid.SampledFrom(faults).Draw(rt, "fault")

			cover := verifC10Cover(st, dur)
			before := verifC10PresentSeqs(cs)
			if through < st.RetentionThroughSeq {
				sawRegress = true
			}
			if through > st.LEO {
				sawOvershoot = true
			}
			if nApply > 0 && through == lastThrough {
				sawRetry = true
			}
			reappliedAfterFailedCp := failedCpHW > 0 && dur == failedCpDurable && through > dur && through <= failedCpHW && through > st.PhysicalRetentionThroughSeq
			if reappliedAfterFailedCp {
				sawFailedCpReapplied = true
			}
			note("apply(through=%d,%+v,fault=%s) [hw=%d cp=%d durable=%d leo=%d role=%v cover=%d]", through, opts, fault, st.HW, st.CheckpointHW, dur, st.LEO, st.Role, cover)
			rec.takeTrims()
			rec.takeCheckpoints()
			rec.arm(fault)
			fut := NewFuture()
			r.handleApplyRetentionBoundary(Event{Kind: EventApplyRetentionBoundary, Key: meta.Key, Future: fut, Context: ctx,
				RetentionApply: ch.RetentionApplyRequest{ChannelID: id, ThroughSeq: through, Options: opts}})
			// drive worker completions until the request is answered and the
			// retention-owned checkpoint (if one was submitted) has completed
			pump("retention request", func() bool {
				select {
				case <-fut.Done():
					return rc.retentionCheckpointOp == 0
				default:
					return false
				}
			})
			_, faultHit := rec.disarm()
			result := fut.Result()
			ferr := result.Err
			nApply++
			lastThrough = through
			if ferr != nil {
				injected := faultHit && errors.Is(ferr, verifC10ErrInjected) &&
					(fault == verifC10FaultTrimErr || fault == verifC10FaultTrimLostAck || fault == verifC10FaultAdoptErr || fault == verifC10FaultAdoptLost)
				if !injected {
					fail("ApplyRetentionBoundary(through=%d): %v", through, ferr)
				}
				note("→err(injected)")
				if fault == verifC10FaultTrimErr || fault == verifC10FaultTrimLostAck {
					sawTrimFault = true
				} else {
					sawAdoptFault = true
				}
			}
			for _, cp := range rec.takeCheckpoints() {
				switch {
				case cp.err == nil:
					sawRetentionCpOK = true
				case cp.persisted:
					sawRetentionCpLostAck = true
				default:
					sawRetentionCpFailed = true
					failedCpHW, failedCpDurable = cp.hw, dur
				}
				note("→retentionCheckpoint(hw=%d,err=%v,persisted=%v)", cp.hw, cp.err != nil, cp.persisted)
			}
			res := result.RetentionApply
			for _, call := range rec.takeTrims() {
				if call.through > cover {
					fail("physical trim issued through %d although only %d is covered (hw=%d checkpoint=%d durable checkpoint=%d leo=%d role=%v progress=%v)", call.through, cover, st.HW, st.CheckpointHW, dur, st.LEO, st.Role, st.Progress)
				}
				if call.result.Deleted > 0 {
					sawTrim = true
				}
			}
			after := verifC10PresentSeqs(cs)
			for seq := range before {
				if !after[seq] && seq > cover {
					fail("row %d was physically deleted although only %d is covered (durable checkpoint=%d)", seq, cover, dur)
				}
			}
			if ferr != nil {
				return
			}
			if res.BlockedReason != "" {
				sawBlocked = true
				if res.BlockedReason == ch.RetentionBlockedMinISRLag {
					sawISRBlock = true
				}
				if res.BlockedReason == ch.RetentionBlockedCheckpointLag {
					sawCpLagBlock = true
					if reappliedAfterFailedCp {
						sawFailedCpReappliedStillBlocked = true
					}
				}
				if res.Deleted != 0 {
					fail("blocked (%s) retention apply deleted %d rows", res.BlockedReason, res.Deleted)
				}
			}
			note("→%s deleted=%d", res.BlockedReason, res.Deleted)
			if res.DeletedThroughSeq > cover {
				fail("apply reports rows deleted through %d, covered only through %d", res.DeletedThroughSeq, cover)
			}
		}

		actions := map[string]func(*rapid.T){
			"grow": func(rt *rapid.T) {
				n := rapid.IntRange(1, 4).Draw(rt, "n")
				appendRows(n)
				st.LEO += uint64(n)
				st.Progress[1] = machine.ReplicaProgress{Match: st.LEO}
				note("grow(%d)→leo=%d", n, st.LEO)
			},
			"commit": func(rt *rapid.T) {
				st.HW += uint64(rapid.IntRange(0, int(st.LEO-st.HW)).Draw(rt, "adv"))
				note("commit→hw=%d", st.HW)
			},
			// a checkpoint that succeeded (leader lifecycle / follower stop): the
			// harness writes it and publishes it, as the package's own tests do
			"checkpoint": func(rt *rapid.T) {
				if st.CheckpointHW > st.HW {
					rt.Skip("nothing to checkpoint")
				}
				cp := st.CheckpointHW + uint64(rapid.IntRange(0, int(st.HW-st.CheckpointHW)).Draw(rt, "adv"))
				if err := cs.StoreCheckpoint(ctx, ch.Checkpoint{HW: cp}); err != nil {
					rt.Fatalf("VERIF-MACHINERY checkpoint: %v", err)
				}
				st.CheckpointHW = cp
				note("checkpoint→%d", cp)
			},
			// the follower's committed-HW checkpoint, submitted and completed by
			// the reactor itself through the worker pool, with a generated fault
			"reactorCheckpoint": func(rt *rapid.T) {
				if st.Role != ch.RoleFollower || st.HW <= st.CheckpointHW || rc.committedCheckpointOp != 0 {
					rt.Skip("no committed checkpoint due")
				}
				fault := rapid.SampledFrom([]string{verifC10FaultNone, verifC10FaultNone, verifC10FaultCpErr, verifC10FaultCpCancel, verifC10FaultCpLostAck}).Draw(rt, "fault")
				rec.takeCheckpoints()
				rec.arm(fault)
				now := time.Now() // only compared with the due time set right here
				rc.committedCheckpointDue = now.Add(-time.Second)
				r.trySubmitCommittedCheckpoint(rc, now)
				if rc.committedCheckpointOp == 0 {
					rec.disarm()
					rt.Fatalf("VERIF-MACHINERY committed checkpoint was not submitted")
				}
				pump("committed checkpoint", func() bool { return rc.committedCheckpointOp == 0 })
				_, hit := rec.disarm()
				sawReactorCp = true
				if hit && fault != verifC10FaultNone {
					sawReactorCpFailed = true
				}
				note("reactorCheckpoint(hw=%d,fault=%s)→cp=%d durable=%d", st.HW, fault, st.CheckpointHW, durable().CheckpointHW)
			},
			"progress": func(rt *rapid.T) {
				node := ch.NodeID(rapid.IntRange(2, 3).Draw(rt, "node"))
				cur := st.Progress[node].Match
				if cur > st.LEO {
					cur = st.LEO
				}
				m := cur + uint64(rapid.IntRange(0, int(st.LEO-cur)).Draw(rt, "match"))
				st.Progress[node] = machine.ReplicaProgress{Match: m}
				note("progress(%d)=%d", node, m)
			},
			"role": func(rt *rapid.T) {
				if rapid.IntRange(0, 3).Draw(rt, "flip") != 0 {
					rt.Skip("keep role")
				}
				if st.Role == ch.RoleLeader {
					st.Role = ch.RoleFollower
				} else {
					st.Role = ch.RoleLeader
				}
				note("role=%v", st.Role)
			},
			// process restart: the runtime state is dropped and rebuilt from what
			// the store holds; the authoritative boundary comes back with the meta
			"restart": func(rt *rapid.T) {
				if rapid.IntRange(0, 3).Draw(rt, "do") != 0 {
					rt.Skip("no restart")
				}
				if st.RetentionThroughSeq > meta.RetentionThroughSeq {
					meta.RetentionThroughSeq = st.RetentionThroughSeq
				}
				boot()
				sawRestart = true
				note("restart→[hw=%d cp=%d leo=%d phys=%d]", st.HW, st.CheckpointHW, st.LEO, st.PhysicalRetentionThroughSeq)
				if st.PhysicalRetentionThroughSeq > st.CheckpointHW {
					fail("restarted node loads a physical trim boundary %d above its checkpointed watermark %d", st.PhysicalRetentionThroughSeq, st.CheckpointHW)
				}
			},
			"apply": func(rt *rapid.T) { applyBoundary(rt) },
			// registered twice: retention passes are the subject of this layer
			"applyAgain": func(rt *rapid.T) { applyBoundary(rt) },
			"": func(rt *rapid.T) {
				cur := snap()
				if cur.ret < prev.ret || cur.local < prev.local || cur.phys < prev.phys || cur.sLocal < prev.sLocal || cur.sPhys < prev.sPhys {
					fail("retention boundary moved backwards: %+v -> %+v", prev, cur)
				}
				if cur.phys > cur.local || cur.sPhys > cur.sLocal {
					fail("physical boundary ahead of the logical one: %+v", cur)
				}
				prev = cur
				// what a restarted node would see: nothing above the durable
				// checkpointed watermark may be gone
				d := durable()
				if cur.sPhys > d.CheckpointHW {
					fail("store is physically trimmed through %d but its durable checkpoint HW is %d", cur.sPhys, d.CheckpointHW)
				}
				// (sequences skipped by a boundary adopted beyond the log end never
				// existed, so only rows that were once stored are judged)
				present := verifC10PresentSeqs(cs)
				for seq := range present {
					everStored[seq] = true
					maxStored = max(maxStored, seq)
				}
				for seq := d.CheckpointHW + 1; seq <= maxStored; seq++ {
					if everStored[seq] && !present[seq] {
						fail("stored row %d is gone from the store although the durable checkpoint HW is %d (leo=%d)", seq, d.CheckpointHW, d.LEO)
					}
				}
			},
		}
		rt.Repeat(actions)

		k.Key("reactor", strings.Join(trace, ";"))
		k.SetNonTrivial((sawRegress && nApply > 1) || sawFailedCpReapplied)
		k.LabelIf(sawRegress, "reactor: regressing boundary update (non-trivial)")
		k.LabelIf(sawBlocked, "reactor: physical trim blocked (HW / checkpoint / LEO / ISR lag)")
		k.LabelIf(sawCpLagBlock, "reactor: trim blocked by checkpoint lag")
		k.LabelIf(sawISRBlock, "reactor: trim blocked by an ISR member's progress")
		k.LabelIf(sawTrim, "reactor: physical trim deleted rows")
		k.LabelIf(sawOvershoot, "reactor: boundary beyond the log end")
		k.LabelIf(sawRetry, "reactor: same boundary applied again (retry)")
		k.LabelIf(sawRetentionCpOK, "reactor: retention-owned checkpoint written")
		k.LabelIf(sawRetentionCpFailed, "reactor: fault: retention-owned checkpoint write failed (error / cancelled, nothing durable)")
		k.LabelIf(sawRetentionCpLostAck, "reactor: fault: retention-owned checkpoint durable but reported failed")
		k.LabelIf(sawFailedCpReapplied, "reactor: retention-owned checkpoint write failed, boundary re-applied (non-trivial)")
		k.LabelIf(sawFailedCpReappliedStillBlocked, "reactor: retention-owned checkpoint write failed, boundary re-applied, still blocked by checkpoint lag")
		k.LabelIf(sawTrimFault, "reactor: fault: TrimMessagesThrough error reached the request")
		k.LabelIf(sawAdoptFault, "reactor: fault: AdoptRetentionBoundary error reached the request")
		k.LabelIf(sawReactorCp, "reactor: committed checkpoint through the reactor (follower)")
		k.LabelIf(sawReactorCpFailed, "reactor: fault: committed checkpoint write failed")
		k.LabelIf(sawRestart, "reactor: restart from the store")
		k.Sample(func() any { return "reactor: " + strings.Join(trace, " ; ") })
	})
}

// TestVerifC10TrimDecision: the pure gate over generated states.
func TestVerifC10TrimDecision(t *testing.T) {
	kit.Check(t, "C10", func(rt *rapid.T, k *kit.Case) {
		u := func(label string) uint64 { return uint64(rapid.IntRange(0, 12).Draw(rt, label)) }
		st := machine.NewChannelState("k", 1, 1)
		st.LEO = u("leo")
		st.HW = u("hw")
		st.CheckpointHW = u("cp")
		st.PhysicalRetentionThroughSeq = u("phys")
		st.RetentionThroughSeq = u("ret")
		st.Role = rapid.SampledFrom([]ch.Role{ch.RoleLeader, ch.RoleFollower}).Draw(rt, "role")
		st.ISR = []ch.NodeID{1, 2, 3}[:rapid.IntRange(1, 3).Draw(rt, "isr")]
		for _, n := range []ch.NodeID{2, 3} {
			if rapid.Bool().Draw(rt, "known") {
				st.Progress[n] = machine.ReplicaProgress{Match: u("match")}
			}
		}
		through := u("through")
		allowed, reason := retentionTrimDecision(st, through)
		if allowed {
			if through == 0 || through > st.HW || through > st.CheckpointHW || through > st.LEO || through <= st.PhysicalRetentionThroughSeq {
				rt.Fatalf("trim through %d allowed with hw=%d checkpoint=%d leo=%d physical=%d", through, st.HW, st.CheckpointHW, st.LEO, st.PhysicalRetentionThroughSeq)
			}
			if st.Role == ch.RoleLeader {
				for _, n := range st.ISR {
					if p, ok := st.Progress[n]; ok && n != 1 && p.Match < through {
						rt.Fatalf("leader trim through %d allowed although ISR member %d matches only %d", through, n, p.Match)
					}
				}
			}
			if reason != "" {
				rt.Fatalf("allowed trim carries blocked reason %q", reason)
			}
		} else if through > st.PhysicalRetentionThroughSeq && through > 0 && reason == "" {
			rt.Fatalf("trim through %d refused without a reason (physical=%d)", through, st.PhysicalRetentionThroughSeq)
		}
		k.Key("decision", st.LEO, st.HW, st.CheckpointHW, st.PhysicalRetentionThroughSeq, st.RetentionThroughSeq, st.Role, len(st.ISR), fmt.Sprint(st.Progress), through)
		k.SetNonTrivial(through > st.PhysicalRetentionThroughSeq)
		k.LabelIf(allowed, "decision: trim allowed")
		k.LabelIf(!allowed && reason != "", "decision: trim blocked: "+reason)
	})
}
