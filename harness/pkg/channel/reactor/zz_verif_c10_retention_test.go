package reactor

// C10, layer 2 — retention state of a reactor-owned channel. A rapid state
// machine interleaves log growth, commit (HW) advances, durable checkpoint
// results, follower progress, role changes and ApplyRetentionBoundary with
// arbitrary (also regressing and overshooting) boundaries and trim budgets.
// The store is the in-memory store behind a recording wrapper.
// Invariants: RetentionThroughSeq / LocalRetentionThroughSeq /
// PhysicalRetentionThroughSeq (runtime and store) never move backwards; a
// physical trim is only issued, and rows only disappear, at or below
// min(HW, CheckpointHW, LEO[, min ISR match on a leader]) as they stood when
// the request was handled; plus the pure gate retentionTrimDecision.

import (
	"context"
	"fmt"
	"strings"
	"sync"
	"testing"
	"time"

	ch "github.com/WuKongIM/WuKongIM/pkg/channel"
	"github.com/WuKongIM/WuKongIM/pkg/channel/machine"
	"github.com/WuKongIM/WuKongIM/pkg/channel/store"
	"github.com/WuKongIM/WuKongIM/pkg/channel/worker"
	"pgregory.net/rapid"
	"verif.local/kit"
)

type verifC10TrimCall struct {
	through uint64
	opts    store.RetentionTrimOptions
	result  store.RetentionTrimResult
	err     error
}

type verifC10RecFactory struct {
	inner store.Factory
	mu    sync.Mutex
	trims []verifC10TrimCall
	adopt []uint64
}

func (f *verifC10RecFactory) ChannelStore(key ch.ChannelKey, id ch.ChannelID) (store.ChannelStore, error) {
	cs, err := f.inner.ChannelStore(key, id)
	if err != nil {
		return nil, err
	}
	return &verifC10RecStore{ChannelStore: cs, f: f}, nil
}

type verifC10RecStore struct {
	store.ChannelStore
	f *verifC10RecFactory
}

func (s *verifC10RecStore) TrimMessagesThrough(ctx context.Context, through uint64, opts store.RetentionTrimOptions) (store.RetentionTrimResult, error) {
	res, err := s.ChannelStore.TrimMessagesThrough(ctx, through, opts)
	s.f.mu.Lock()
	s.f.trims = append(s.f.trims, verifC10TrimCall{through: through, opts: opts, result: res, err: err})
	s.f.mu.Unlock()
	return res, err
}

func (s *verifC10RecStore) AdoptRetentionBoundary(ctx context.Context, through uint64, cursor string) (uint64, error) {
	s.f.mu.Lock()
	s.f.adopt = append(s.f.adopt, through)
	s.f.mu.Unlock()
	return s.ChannelStore.AdoptRetentionBoundary(ctx, through, cursor)
}

func (f *verifC10RecFactory) takeTrims() []verifC10TrimCall {
	f.mu.Lock()
	defer f.mu.Unlock()
	out := f.trims
	f.trims = nil
	return out
}

type verifC10Sink struct{ results chan worker.Result }

func (s verifC10Sink) Complete(r worker.Result) { s.results <- r }

// verifC10Cover: the highest sequence a physical trim may touch.
func verifC10Cover(st *machine.ChannelState) uint64 {
	bound := min(st.HW, st.CheckpointHW, st.LEO)
	if st.Role == ch.RoleLeader {
		for _, node := range st.ISR {
			if node == st.LocalNode {
				continue
			}
			// a member whose progress is unknown to this leader incarnation is
			// not constraining (the code treats it as standing at the
			// authoritative boundary, which it can always skip to)
			if p, ok := st.Progress[node]; ok && p.Match < bound {
				bound = p.Match
			}
		}
	}
	return bound
}

func verifC10PresentSeqs(cs store.ChannelStore) map[uint64]bool {
	out := map[uint64]bool{}
	res, err := cs.ReadLog(context.Background(), store.ReadLogRequest{FromOffset: 1, MaxBytes: 1 << 30})
	if err != nil {
		return out
	}
	for _, r := range res.Records {
		out[r.Index] = true
	}
	return out
}

func TestVerifC10ReactorRetention(t *testing.T) {
	kit.Check(t, "C10", func(rt *rapid.T, k *kit.Case) {
		ctx := context.Background()
		mem := store.NewMemoryFactory()
		rec := &verifC10RecFactory{inner: mem}
		id := ch.ChannelID{ID: "vc10-reactor", Type: 1}
		meta := ch.Meta{Key: ch.ChannelKeyForID(id), ID: id, Epoch: 1, LeaderEpoch: 1, Leader: 1,
			Replicas: []ch.NodeID{1, 2, 3}, ISR: []ch.NodeID{1}, MinISR: 1, Status: ch.StatusActive}
		switch rapid.IntRange(0, 2).Draw(rt, "isr") {
		case 1:
			meta.ISR = []ch.NodeID{1, 2}
		case 2:
			meta.ISR = []ch.NodeID{1, 2, 3}
		}
		meta.MinISR = rapid.IntRange(1, len(meta.ISR)).Draw(rt, "minISR")
		cs, _ := mem.ChannelStore(meta.Key, id)
		var nextID uint64
		appendRows := func(n int) {
			recs := make([]ch.Record, n)
			for i := range recs {
				nextID++
				recs[i] = ch.Record{ID: nextID, Payload: []byte{byte(nextID), 1, 2}, SizeBytes: 3}
			}
			if _, err := cs.AppendLeader(ctx, store.AppendLeaderRequest{Records: recs}); err != nil {
				rt.Fatalf("VERIF-MACHINERY append: %v", err)
			}
		}
		n0 := rapid.IntRange(0, 12).Draw(rt, "rows")
		if n0 > 0 {
			appendRows(n0)
			if err := cs.StoreCheckpoint(ctx, ch.Checkpoint{HW: uint64(rapid.IntRange(0, n0).Draw(rt, "checkpoint"))}); err != nil {
				rt.Fatalf("VERIF-MACHINERY checkpoint: %v", err)
			}
		}
		sink := verifC10Sink{results: make(chan worker.Result, 64)}
		pools, err := worker.NewPools(worker.PoolsConfig{
			StoreAppend: worker.PoolConfig{Name: "append", Workers: 1, QueueSize: 8},
			StoreRead:   worker.PoolConfig{Name: "read", Workers: 1, QueueSize: 8},
			StoreApply:  worker.PoolConfig{Name: "apply", Workers: 1, QueueSize: 8},
			RPC:         worker.PoolConfig{Name: "rpc", Workers: 1, QueueSize: 8},
		}, worker.Deps{LocalNode: 1, Stores: rec}, sink)
		if err != nil {
			rt.Fatalf("VERIF-MACHINERY pools: %v", err)
		}
		defer pools.Close()
		r := NewReactor(ReactorConfig{ID: 0, LocalNode: 1, Store: rec, Pools: pools, MailboxSize: 16})
		mf := NewFuture()
		r.handleApplyMeta(Event{Kind: EventApplyMeta, Key: meta.Key, Meta: meta, Future: mf})
		mctx, cancel := context.WithTimeout(ctx, 20*time.Second)
		_, err = mf.Await(mctx)
		cancel()
		if err != nil {
			rt.Fatalf("VERIF-MACHINERY apply meta: %v", err)
		}
		rc := r.channels[meta.Key]
		if rc == nil || rc.state == nil {
			rt.Fatalf("VERIF-MACHINERY channel not loaded")
		}
		st := rc.state

		type retSnap struct{ ret, local, phys, sLocal, sPhys uint64 }
		snap := func() retSnap {
			rs, _ := cs.LoadRetentionState(ctx)
			return retSnap{st.RetentionThroughSeq, st.LocalRetentionThroughSeq, st.PhysicalRetentionThroughSeq, rs.LocalRetentionThroughSeq, rs.PhysicalRetentionThroughSeq}
		}
		prev := snap()
		var trace []string
		note := func(f string, a ...any) { trace = append(trace, fmt.Sprintf(f, a...)) }
		fail := func(f string, a ...any) {
			rt.Fatalf("%s\n  history: %s", fmt.Sprintf(f, a...), strings.Join(trace, " ; "))
		}
		var sawRegress, sawBlocked, sawTrim, sawOvershoot, sawISRBlock bool
		nApply := 0

		actions := map[string]func(*rapid.T){
			"grow": func(rt *rapid.T) {
				n := rapid.IntRange(1, 4).Draw(rt, "n")
				appendRows(n)
				st.LEO += uint64(n)
				st.Progress[1] = machine.ReplicaProgress{Match: st.LEO}
				note("grow(%d)→leo=%d", n, st.LEO)
			},
			"commit": func(rt *rapid.T) {
				st.HW += uint64(rapid.IntRange(0, int(st.LEO-st.HW)).Draw(rt, "adv"))
				note("commit→hw=%d", st.HW)
			},
			"checkpoint": func(rt *rapid.T) {
				if st.CheckpointHW > st.HW {
					rt.Skip("nothing to checkpoint")
				}
				cp := st.CheckpointHW + uint64(rapid.IntRange(0, int(st.HW-st.CheckpointHW)).Draw(rt, "adv"))
				if err := cs.StoreCheckpoint(ctx, ch.Checkpoint{HW: cp}); err != nil {
					rt.Fatalf("VERIF-MACHINERY checkpoint: %v", err)
				}
				st.CheckpointHW = cp
				note("checkpoint→%d", cp)
			},
			"progress": func(rt *rapid.T) {
				node := ch.NodeID(rapid.IntRange(2, 3).Draw(rt, "node"))
				cur := st.Progress[node].Match
				if cur > st.LEO {
					cur = st.LEO
				}
				m := cur + uint64(rapid.IntRange(0, int(st.LEO-cur)).Draw(rt, "match"))
				st.Progress[node] = machine.ReplicaProgress{Match: m}
				note("progress(%d)=%d", node, m)
			},
			"role": func(rt *rapid.T) {
				if rapid.IntRange(0, 3).Draw(rt, "flip") != 0 {
					rt.Skip("keep role")
				}
				if st.Role == ch.RoleLeader {
					st.Role = ch.RoleFollower
				} else {
					st.Role = ch.RoleLeader
				}
				note("role=%v", st.Role)
			},
			"apply": func(rt *rapid.T) {
				through := uint64(rapid.IntRange(1, int(st.LEO)+2).Draw(rt, "through"))
				opts := ch.RetentionApplyOptions{}
				if rapid.Bool().Draw(rt, "hasMaxMessages") {
					opts.MaxTrimMessages = rapid.IntRange(1, 3).Draw(rt, "maxMessages")
				}
				if rapid.IntRange(0, 2).Draw(rt, "hasMaxBytes") == 0 {
					opts.MaxTrimBytes = rapid.IntRange(1, 12).Draw(rt, "maxBytes")
				}
				cover := verifC10Cover(st)
				before := verifC10PresentSeqs(cs)
				if through < st.RetentionThroughSeq {
					sawRegress = true
				}
				if through > st.LEO {
					sawOvershoot = true
				}
				note("apply(through=%d,%+v) [hw=%d cp=%d leo=%d role=%v cover=%d]", through, opts, st.HW, st.CheckpointHW, st.LEO, st.Role, cover)
				rec.takeTrims()
				fut := NewFuture()
				r.handleApplyRetentionBoundary(Event{Kind: EventApplyRetentionBoundary, Key: meta.Key, Future: fut, Context: ctx,
					RetentionApply: ch.RetentionApplyRequest{ChannelID: id, ThroughSeq: through, Options: opts}})
				// drive worker completions until the request is answered
				deadline := time.After(30 * time.Second)
				var result Result
				var ferr error
				done := false
				for !done {
					actx, acancel := context.WithTimeout(ctx, time.Millisecond)
					result, ferr = fut.Await(actx)
					acancel()
					if ferr == nil || (ferr != context.DeadlineExceeded && actx.Err() == nil) {
						done = true
						break
					}
					select {
					case wr := <-sink.results:
						r.handleWorkerResult(Event{Kind: EventWorkerResult, Worker: wr})
					case <-deadline:
						rt.Fatalf("VERIF-MACHINERY retention request not answered in 30s")
					case <-time.After(2 * time.Millisecond):
					}
				}
				// let stragglers (checkpoint completions) be applied too
				for more := true; more; {
					select {
					case wr := <-sink.results:
						r.handleWorkerResult(Event{Kind: EventWorkerResult, Worker: wr})
					case <-time.After(3 * time.Millisecond):
						more = false
					}
				}
				nApply++
				if ferr != nil {
					fail("ApplyRetentionBoundary(through=%d): %v", through, ferr)
				}
				res := result.RetentionApply
				for _, call := range rec.takeTrims() {
					if call.through > cover {
						fail("physical trim issued through %d although only %d is covered (hw=%d checkpoint=%d leo=%d role=%v progress=%v)", call.through, cover, st.HW, st.CheckpointHW, st.LEO, st.Role, st.Progress)
					}
					if call.result.Deleted > 0 {
						sawTrim = true
					}
				}
				after := verifC10PresentSeqs(cs)
				for seq := range before {
					if !after[seq] && seq > cover {
						fail("row %d was physically deleted although only %d is covered", seq, cover)
					}
				}
				if res.BlockedReason != "" {
					sawBlocked = true
					if res.BlockedReason == ch.RetentionBlockedMinISRLag {
						sawISRBlock = true
					}
					if res.Deleted != 0 {
						fail("blocked (%s) retention apply deleted %d rows", res.BlockedReason, res.Deleted)
					}
				}
				if res.DeletedThroughSeq > cover {
					fail("apply reports rows deleted through %d, covered only through %d", res.DeletedThroughSeq, cover)
				}
			},
			"": func(rt *rapid.T) {
				cur := snap()
				if cur.ret < prev.ret || cur.local < prev.local || cur.phys < prev.phys || cur.sLocal < prev.sLocal || cur.sPhys < prev.sPhys {
					fail("retention boundary moved backwards: %+v -> %+v", prev, cur)
				}
				if cur.phys > cur.local || cur.sPhys > cur.sLocal {
					fail("physical boundary ahead of the logical one: %+v", cur)
				}
				prev = cur
			},
		}
		rt.Repeat(actions)

		k.Key("reactor", strings.Join(trace, ";"))
		k.SetNonTrivial(sawRegress && nApply > 1)
		k.LabelIf(sawRegress, "reactor: regressing boundary update (non-trivial)")
		k.LabelIf(sawBlocked, "reactor: physical trim blocked (HW / checkpoint / LEO / ISR lag)")
		k.LabelIf(sawISRBlock, "reactor: trim blocked by an ISR member's progress")
		k.LabelIf(sawTrim, "reactor: physical trim deleted rows")
		k.LabelIf(sawOvershoot, "reactor: boundary beyond the log end")
		k.Sample(func() any { return "reactor: " + strings.Join(trace, " ; ") })
	})
}

// TestVerifC10TrimDecision: the pure gate over generated states.
func TestVerifC10TrimDecision(t *testing.T) {
	kit.Check(t, "C10", func(rt *rapid.T, k *kit.Case) {
		u := func(label string) uint64 { return uint64(rapid.IntRange(0, 12).Draw(rt, label)) }
		st := machine.NewChannelState("k", 1, 1)
		st.LEO = u("leo")
		st.HW = u("hw")
		st.CheckpointHW = u("cp")
		st.PhysicalRetentionThroughSeq = u("phys")
		st.RetentionThroughSeq = u("ret")
		st.Role = rapid.SampledFrom([]ch.Role{ch.RoleLeader, ch.RoleFollower}).Draw(rt, "role")
		st.ISR = []ch.NodeID{1, 2, 3}[:rapid.IntRange(1, 3).Draw(rt, "isr")]
		for _, n := range []ch.NodeID{2, 3} {
			if rapid.Bool().Draw(rt, "known") {
				st.Progress[n] = machine.ReplicaProgress{Match: u("match")}
			}
		}
		through := u("through")
		allowed, reason := retentionTrimDecision(st, through)
		if allowed {
			if through == 0 || through > st.HW || through > st.CheckpointHW || through > st.LEO || through <= st.PhysicalRetentionThroughSeq {
				rt.Fatalf("trim through %d allowed with hw=%d checkpoint=%d leo=%d physical=%d", through, st.HW, st.CheckpointHW, st.LEO, st.PhysicalRetentionThroughSeq)
			}
			if st.Role == ch.RoleLeader {
				for _, n := range st.ISR {
					if p, ok := st.Progress[n]; ok && n != 1 && p.Match < through {
						rt.Fatalf("leader trim through %d allowed although ISR member %d matches only %d", through, n, p.Match)
					}
				}
			}
			if reason != "" {
				rt.Fatalf("allowed trim carries blocked reason %q", reason)
			}
		} else if through > st.PhysicalRetentionThroughSeq && through > 0 && reason == "" {
			rt.Fatalf("trim through %d refused without a reason (physical=%d)", through, st.PhysicalRetentionThroughSeq)
		}
		k.Key("decision", st.LEO, st.HW, st.CheckpointHW, st.PhysicalRetentionThroughSeq, st.RetentionThroughSeq, st.Role, len(st.ISR), fmt.Sprint(st.Progress), through)
		k.SetNonTrivial(through > st.PhysicalRetentionThroughSeq)
		k.LabelIf(allowed, "decision: trim allowed")
		k.LabelIf(!allowed && reason != "", "decision: trim blocked: "+reason)
	})
}
