package channel

import (
	"bytes"
	"fmt"
	"math"
	"testing"

	"github.com/WuKongIM/WuKongIM/pkg/quorumlog"
	"pgregory.net/rapid"
	"verif.local/kit"
)

func verifC05NZ() *rapid.Generator[uint64] {
	return rapid.Custom(func(t *rapid.T) uint64 {
		v := kit.Uint64Edge().Draw(t, "u")
		if v == 0 {
			v = 1
		}
		return v
	})
}

func verifC05Str() *rapid.Generator[string] {
	return rapid.Custom(func(t *rapid.T) string {
		switch rapid.IntRange(0, 3).Draw(t, "strKind") {
		case 0:
			return rapid.String().Draw(t, "utf8")
		case 1:
			return rapid.StringMatching(`[a-zA-Z0-9_\-:]{0,24}`).Draw(t, "ident")
		default:
			return string(kit.Bytes(200).Draw(t, "raw"))
		}
	})
}

func verifC05Digest32(t *rapid.T, label string) [32]byte {
	var d [32]byte
	copy(d[:], rapid.SliceOfN(rapid.Byte(), 32, 32).Draw(t, label))
	if d == ([32]byte{}) {
		d[31] = 1
	}
	return d
}

func verifC05ToQuorum(r Record) quorumlog.Record {
	return quorumlog.Record{ID: r.ID, Index: r.Index, Epoch: r.Epoch, Setting: r.Setting, FromUID: r.FromUID, ClientMsgNo: r.ClientMsgNo,
		ServerTimestampMS: r.ServerTimestampMS, SyncOnce: r.SyncOnce, Payload: r.Payload}
}

var verifC05ChannelFields = []string{"ID", "Setting", "SyncOnce", "ServerTimestampMS", "FromUID", "ClientMsgNo", "Payload", "swap FromUID<->ClientMsgNo"}

// TestVerifC05ChannelSeal: the Channel-level wrappers seal exactly what the
// storage-neutral package seals for the field-by-field mapped record
// (differential), the sealed identities verify the mapped records, and every
// single-field change of a Channel record changes the identity.
func TestVerifC05ChannelSeal(t *testing.T) {
	kit.Check(t, "C05", func(rt *rapid.T, k *kit.Case) {
		n := rapid.IntRange(1, 5).Draw(rt, "records")
		var base uint64
		switch rapid.IntRange(0, 3).Draw(rt, "baseKind") {
		case 0:
		case 1:
			base = uint64(rapid.IntRange(1, 40).Draw(rt, "baseSmall"))
		case 2:
			base = rapid.SampledFrom([]uint64{1<<32 - 1, 1 << 32, 1 << 63, math.MaxUint64 - uint64(n)}).Draw(rt, "baseEdge")
		default:
			base = rapid.Uint64Range(1, math.MaxUint64-uint64(n)).Draw(rt, "baseAny")
		}
		m := ProposalManifest{Version: ProposalManifestVersion, ChannelEpoch: verifC05NZ().Draw(rt, "epoch"), LeaderTerm: verifC05NZ().Draw(rt, "term"),
			FenceVersion: verifC05NZ().Draw(rt, "fence"), CommandID: CommandID(verifC05Digest32(rt, "cmd")),
			BaseOffset: base, LastOffset: base + uint64(n), PreviousIndex: base}
		if base > 0 {
			m.PreviousTerm = verifC05NZ().Draw(rt, "prevTerm")
			m.PreviousDigest = EntryDigest(verifC05Digest32(rt, "prevDigest"))
		}
		records := make([]Record, n)
		mapped := make([]quorumlog.Record, n)
		for i := range records {
			r := Record{ID: verifC05NZ().Draw(rt, "id"), Epoch: m.ChannelEpoch, Setting: rapid.Byte().Draw(rt, "setting"),
				FromUID: verifC05Str().Draw(rt, "from"), ClientMsgNo: verifC05Str().Draw(rt, "clientMsgNo"),
				ServerTimestampMS: rapid.Int64Range(1, math.MaxInt64).Draw(rt, "ts"), SyncOnce: rapid.Bool().Draw(rt, "syncOnce"),
				Payload: kit.Bytes(4096).Draw(rt, "payload"), SizeBytes: rapid.IntRange(0, 1<<20).Draw(rt, "sizeBytes")}
			if rapid.Bool().Draw(rt, "indexSet") {
				r.Index = base + uint64(i) + 1
			}
			records[i] = r
			mapped[i] = verifC05ToQuorum(r)
		}

		sealed, entries, ok := SealProposalManifest(m, records)
		qSealed, qEntries, qok := quorumlog.SealProposalManifest(m, mapped)
		if !ok || !qok {
			rt.Fatalf("seal rejected a valid proposal: channel ok=%v quorumlog ok=%v", ok, qok)
		}
		if sealed != qSealed || len(entries) != len(qEntries) || len(entries) != n {
			rt.Fatalf("channel.SealProposalManifest differs from quorumlog on the mapped records:\n %+v\n %+v", sealed, qSealed)
		}
		derived, dok := DeriveProposalEntries(sealed, n, func(i int) Record { return records[i] })
		if !dok || len(derived) != n {
			rt.Fatalf("channel.DeriveProposalEntries rejected the sealed manifest")
		}
		for i := range entries {
			if entries[i] != qEntries[i] || derived[i] != qEntries[i] {
				rt.Fatalf("entry %d differs: channel %+v derive %+v quorumlog %+v", i, entries[i], derived[i], qEntries[i])
			}
			if !quorumlog.VerifyEntry(entries[i], mapped[i]) {
				rt.Fatalf("identity %d sealed through the channel wrapper does not verify its mapped record", i)
			}
		}

		// single-field perturbations of a Channel record
		pos := rapid.IntRange(0, n-1).Draw(rt, "pos")
		applied := 0
		for _, field := range verifC05ChannelFields {
			changed := append([]Record(nil), records...)
			r := &changed[pos]
			r.Payload = append([]byte{}, r.Payload...)
			switch field {
			case "ID":
				r.ID ^= 1 << uint(rapid.IntRange(0, 63).Draw(rt, "idBit"))
				if r.ID == 0 {
					r.ID = 2
				}
			case "Setting":
				r.Setting ^= 1 << uint(rapid.IntRange(0, 7).Draw(rt, "settingBit"))
			case "SyncOnce":
				r.SyncOnce = !r.SyncOnce
			case "ServerTimestampMS":
				r.ServerTimestampMS ^= 1 << uint(rapid.IntRange(0, 62).Draw(rt, "tsBit"))
				if r.ServerTimestampMS == 0 {
					r.ServerTimestampMS = 2
				}
			case "FromUID":
				b, _ := kit.Mutate(rt, []byte(r.FromUID))
				r.FromUID = string(b)
			case "ClientMsgNo":
				b, _ := kit.Mutate(rt, []byte(r.ClientMsgNo))
				r.ClientMsgNo = string(b)
			case "Payload":
				r.Payload, _ = kit.Mutate(rt, r.Payload)
			case "swap FromUID<->ClientMsgNo":
				r.FromUID, r.ClientMsgNo = r.ClientMsgNo, r.FromUID
			}
			o := records[pos]
			if r.ID == o.ID && r.Setting == o.Setting && r.SyncOnce == o.SyncOnce && r.ServerTimestampMS == o.ServerTimestampMS &&
				r.FromUID == o.FromUID && r.ClientMsgNo == o.ClientMsgNo && bytes.Equal(r.Payload, o.Payload) {
				continue // perturbation was the identity (e.g. swap of equal strings)
			}
			applied++
			k.Label("channel record: " + field)
			cs, ce, ok := SealProposalManifest(m, changed)
			if !ok {
				rt.Fatalf("re-seal with perturbed %s rejected", field)
			}
			if cs.Digest == sealed.Digest {
				rt.Fatalf("channel tail digest does not bind %s of record %d:\n was %+v\n now %+v", field, pos, o, *r)
			}
			for j := range ce {
				if j < pos && ce[j] != entries[j] {
					rt.Fatalf("perturbing %s of record %d changed the earlier entry %d", field, pos, j)
				}
				if j >= pos && ce[j].Digest == entries[j].Digest {
					rt.Fatalf("perturbing %s of record %d left entry %d unchanged", field, pos, j)
				}
			}
			if quorumlog.VerifyEntry(entries[pos], verifC05ToQuorum(*r)) {
				rt.Fatalf("original identity verifies the record with perturbed %s", field)
			}
		}
		k.Key(sealed.Digest[:], pos, n)
		k.SetNonTrivial(applied >= 7)
		k.LabelIf(base == 0, "genesis proposal (base 0)")
		k.LabelIf(n > 1, "multi-record proposal")
		k.LabelIf(pos > 0, "perturbed a non-first entry")
		k.Sample(func() any {
			r := records[pos]
			return fmt.Sprintf("channel: base=%d n=%d pos=%d rec{id=%d set=%d sync=%v ts=%d from=%dB cmn=%dB payload=%dB}", base, n, pos, r.ID, r.Setting, r.SyncOnce, r.ServerTimestampMS, len(r.FromUID), len(r.ClientMsgNo), len(r.Payload))
		})
	})
}
