package quorumlog

import (
	"bytes"
	"fmt"
	"math"
	"testing"

	"pgregory.net/rapid"
	"verif.local/kit"
)

// ---- generators -----------------------------------------------------------

// verifC05NZ draws a non-zero uint64 biased to boundaries.
func verifC05NZ() *rapid.Generator[uint64] {
	return rapid.Custom(func(t *rapid.T) uint64 {
		v := kit.Uint64Edge().Draw(t, "u")
		if v == 0 {
			v = 1
		}
		return v
	})
}

func verifC05Str() *rapid.Generator[string] {
	return rapid.Custom(func(t *rapid.T) string {
		switch rapid.IntRange(0, 5).Draw(t, "strKind") {
		case 0:
			return rapid.String().Draw(t, "utf8")
		case 1, 2:
			return rapid.StringMatching(`[a-zA-Z0-9_\-:]{0,24}`).Draw(t, "ident")
		case 3:
			n := rapid.IntRange(55, 65).Draw(t, "blockLen")
			return string(rapid.SliceOfN(rapid.Byte(), n, n).Draw(t, "blockBytes"))
		default:
			return string(kit.Bytes(300).Draw(t, "raw"))
		}
	})
}

func verifC05Payload() *rapid.Generator[[]byte] {
	return rapid.Custom(func(t *rapid.T) []byte {
		switch rapid.IntRange(0, 5).Draw(t, "plKind") {
		case 0:
			n := rapid.IntRange(55, 65).Draw(t, "blockLen")
			return rapid.SliceOfN(rapid.Byte(), n, n).Draw(t, "blockBytes")
		case 1:
			if rapid.Bool().Draw(t, "nilPayload") {
				return nil
			}
			return []byte{}
		default:
			return kit.Bytes(4096).Draw(t, "payload")
		}
	})
}

func verifC05Digest32(t *rapid.T, label string) [32]byte {
	var d [32]byte
	switch rapid.IntRange(0, 3).Draw(t, label+"Kind") {
	case 0: // a single non-zero byte somewhere
		d[rapid.IntRange(0, 31).Draw(t, label+"Pos")] = byte(rapid.IntRange(1, 255).Draw(t, label+"Val"))
	default:
		copy(d[:], rapid.SliceOfN(rapid.Byte(), 32, 32).Draw(t, label+"Bytes"))
		if d == ([32]byte{}) {
			d[31] = 1
		}
	}
	return d
}

type verifC05Proposal struct {
	manifest ProposalManifest
	records  []Record
}

func verifC05GenProposal(t *rapid.T) verifC05Proposal {
	n := rapid.IntRange(1, 6).Draw(t, "records")
	var base uint64
	switch rapid.IntRange(0, 5).Draw(t, "baseKind") {
	case 0, 1:
		base = 0
	case 2, 3:
		base = uint64(rapid.IntRange(1, 40).Draw(t, "baseSmall"))
	case 4:
		base = rapid.SampledFrom([]uint64{255, 256, 1<<32 - 1, 1 << 32, 1<<63 - 1, 1 << 63, math.MaxUint64 - uint64(n)}).Draw(t, "baseEdge")
	default:
		base = rapid.Uint64Range(1, math.MaxUint64-uint64(n)).Draw(t, "baseAny")
	}
	m := ProposalManifest{
		Version:      ProposalManifestVersion,
		ChannelEpoch: verifC05NZ().Draw(t, "epoch"),
		LeaderTerm:   verifC05NZ().Draw(t, "term"),
		FenceVersion: verifC05NZ().Draw(t, "fence"),
		CommandID:    CommandID(verifC05Digest32(t, "cmd")),
		BaseOffset:   base, LastOffset: base + uint64(n), PreviousIndex: base,
	}
	if base > 0 {
		m.PreviousTerm = verifC05NZ().Draw(t, "prevTerm")
		m.PreviousDigest = EntryDigest(verifC05Digest32(t, "prevDigest"))
	}
	records := make([]Record, n)
	for i := range records {
		r := Record{
			ID:                verifC05NZ().Draw(t, "id"),
			Epoch:             m.ChannelEpoch,
			Setting:           verifC05Setting().Draw(t, "setting"),
			FromUID:           verifC05Str().Draw(t, "from"),
			ClientMsgNo:       verifC05Str().Draw(t, "clientMsgNo"),
			ServerTimestampMS: verifC05Timestamp().Draw(t, "ts"),
			SyncOnce:          rapid.Bool().Draw(t, "syncOnce"),
			Payload:           verifC05Payload().Draw(t, "payload"),
		}
		if rapid.Bool().Draw(t, "indexSet") {
			r.Index = base + uint64(i) + 1
		}
		records[i] = r
	}
	return verifC05Proposal{manifest: m, records: records}
}

func verifC05Setting() *rapid.Generator[uint8] {
	return rapid.OneOf(rapid.Byte(), rapid.ByteRange(0, 1))
}

func verifC05Timestamp() *rapid.Generator[int64] {
	return rapid.Custom(func(t *rapid.T) int64 {
		switch rapid.IntRange(0, 3).Draw(t, "tsKind") {
		case 0:
			return rapid.SampledFrom([]int64{1, 2, 255, 256, 1<<31 - 1, 1 << 31, 1<<32 - 1, 1 << 32, math.MaxInt64}).Draw(t, "tsEdge")
		case 1:
			return rapid.Int64Range(1_600_000_000_000, 2_000_000_000_000).Draw(t, "tsRealistic")
		default:
			return rapid.Int64Range(1, math.MaxInt64).Draw(t, "tsAny")
		}
	})
}

// ---- perturbations --------------------------------------------------------

// verifC05OtherU64 returns a value different from v (non-zero if nonZero).
func verifC05OtherU64(t *rapid.T, v uint64, nonZero bool, label string) uint64 {
	var out uint64
	switch rapid.IntRange(0, 3).Draw(t, label+"How") {
	case 0:
		out = v + 1
	case 1:
		out = v - 1
	case 2:
		out = kit.Uint64Edge().Draw(t, label+"Val")
	default:
		out = v ^ (1 << uint(rapid.IntRange(0, 63).Draw(t, label+"Bit")))
	}
	if out == v || (nonZero && out == 0) {
		out = v ^ (1 << uint(rapid.IntRange(0, 63).Draw(t, label+"Bit2")))
	}
	if nonZero && out == 0 { // v was a single bit
		out = v ^ 3
		if out == 0 {
			out = v + 4
		}
	}
	return out
}

func verifC05OtherBytes(t *rapid.T, b []byte, label string) []byte {
	switch rapid.IntRange(0, 4).Draw(t, label+"How") {
	case 0: // append one byte (also 0x00: attacks terminator-style framing)
		return append(append([]byte(nil), b...), rapid.Byte().Draw(t, label+"App"))
	case 1: // prepend one byte
		return append([]byte{rapid.Byte().Draw(t, label+"Pre")}, b...)
	default:
		out, _ := kit.Mutate(t, b)
		if bytes.Equal(out, b) {
			out = append(out, 0)
		}
		return out
	}
}

func verifC05Other32(t *rapid.T, d [32]byte, label string) [32]byte {
	out := d
	if rapid.Bool().Draw(t, label+"Replace") {
		out = verifC05Digest32(t, label+"New")
	}
	if out == d {
		out[rapid.IntRange(0, 31).Draw(t, label+"Pos")] ^= 1 << uint(rapid.IntRange(0, 7).Draw(t, label+"Bit"))
	}
	if out == ([32]byte{}) {
		out[0] = 0x80
	}
	if out == d {
		out[1] ^= 1
	}
	return out
}

func verifC05CloneRecords(in []Record) []Record {
	out := make([]Record, len(in))
	for i, r := range in {
		out[i] = r
		if r.Payload != nil {
			out[i].Payload = append([]byte{}, r.Payload...)
		}
	}
	return out
}

func verifC05SameRecord(a, b Record) bool {
	return a.ID == b.ID && a.Index == b.Index && a.Epoch == b.Epoch && a.Setting == b.Setting && a.FromUID == b.FromUID &&
		a.ClientMsgNo == b.ClientMsgNo && a.ServerTimestampMS == b.ServerTimestampMS && a.SyncOnce == b.SyncOnce &&
		bytes.Equal(a.Payload, b.Payload) && (a.Payload == nil) == (b.Payload == nil)
}

var verifC05RecordFields = []string{"ID", "Setting", "SyncOnce", "ServerTimestampMS", "FromUID", "ClientMsgNo", "Payload",
	"shift FromUID->ClientMsgNo", "shift ClientMsgNo->FromUID", "shift ClientMsgNo->Payload", "shift Payload->ClientMsgNo", "swap FromUID<->ClientMsgNo", "swap Setting<->SyncOnce"}

// verifC05PerturbRecord changes the named field(s) of r; ok=false when the
// perturbation is not applicable to this record (content would not change).
func verifC05PerturbRecord(t *rapid.T, r Record, field string) (Record, bool) {
	p := r
	if r.Payload != nil {
		p.Payload = append([]byte{}, r.Payload...)
	}
	switch field {
	case "ID":
		p.ID = verifC05OtherU64(t, r.ID, true, "pID")
	case "Setting":
		if rapid.Bool().Draw(t, "pSettingBit") {
			p.Setting = r.Setting ^ (1 << uint(rapid.IntRange(0, 7).Draw(t, "pSettingBitPos")))
		} else {
			p.Setting = r.Setting + byte(rapid.IntRange(1, 255).Draw(t, "pSettingAdd"))
		}
	case "SyncOnce":
		p.SyncOnce = !r.SyncOnce
	case "ServerTimestampMS":
		v := int64(verifC05OtherU64(t, uint64(r.ServerTimestampMS), true, "pTS") &^ (1 << 63))
		if v <= 0 || v == r.ServerTimestampMS {
			v = r.ServerTimestampMS ^ 1
			if v <= 0 {
				v = 2
			}
		}
		p.ServerTimestampMS = v
	case "FromUID":
		p.FromUID = string(verifC05OtherBytes(t, []byte(r.FromUID), "pFrom"))
	case "ClientMsgNo":
		p.ClientMsgNo = string(verifC05OtherBytes(t, []byte(r.ClientMsgNo), "pCMN"))
	case "Payload":
		p.Payload = verifC05OtherBytes(t, r.Payload, "pPayload")
	case "shift FromUID->ClientMsgNo": // same concatenation, different boundary
		if len(r.FromUID) == 0 {
			return r, false
		}
		n := rapid.IntRange(1, len(r.FromUID)).Draw(t, "shiftN")
		p.FromUID = r.FromUID[:len(r.FromUID)-n]
		p.ClientMsgNo = r.FromUID[len(r.FromUID)-n:] + r.ClientMsgNo
	case "shift ClientMsgNo->FromUID":
		if len(r.ClientMsgNo) == 0 {
			return r, false
		}
		n := rapid.IntRange(1, len(r.ClientMsgNo)).Draw(t, "shiftN")
		p.FromUID = r.FromUID + r.ClientMsgNo[:n]
		p.ClientMsgNo = r.ClientMsgNo[n:]
	case "shift ClientMsgNo->Payload":
		if len(r.ClientMsgNo) == 0 {
			return r, false
		}
		n := rapid.IntRange(1, len(r.ClientMsgNo)).Draw(t, "shiftN")
		p.ClientMsgNo = r.ClientMsgNo[:len(r.ClientMsgNo)-n]
		p.Payload = append([]byte(r.ClientMsgNo[len(r.ClientMsgNo)-n:]), r.Payload...)
	case "shift Payload->ClientMsgNo":
		if len(r.Payload) == 0 {
			return r, false
		}
		n := rapid.IntRange(1, len(r.Payload)).Draw(t, "shiftN")
		p.ClientMsgNo = r.ClientMsgNo + string(r.Payload[:n])
		p.Payload = append([]byte{}, r.Payload[n:]...)
	case "swap FromUID<->ClientMsgNo":
		if r.FromUID == r.ClientMsgNo {
			return r, false
		}
		p.FromUID, p.ClientMsgNo = r.ClientMsgNo, r.FromUID
	case "swap Setting<->SyncOnce": // the two one-byte fields exchange values
		if r.Setting > 1 || (r.Setting == 1) == r.SyncOnce {
			return r, false
		}
		p.SyncOnce = r.Setting == 1
		p.Setting = 0
		if r.SyncOnce {
			p.Setting = 1
		}
	default:
		t.Fatalf("unknown record field %q", field)
	}
	return p, true
}

var verifC05IdentityFields = []string{"Version", "ChannelEpoch", "ChannelEpoch+record.Epoch", "LeaderTerm", "FenceVersion", "Index", "PreviousIndex",
	"Index+PreviousIndex", "PreviousTerm", "CommandID", "PreviousDigest", "Digest"}

// verifC05PerturbIdentity changes the named field(s) of e (and, for the
// coupled variant, the record's epoch so that the structural guard still
// passes and only the digest can reject).
func verifC05PerturbIdentity(t *rapid.T, e EntryIdentity, r Record, field string) (EntryIdentity, Record, bool) {
	p := e
	switch field {
	case "Version":
		p.Version = e.Version + uint16(rapid.IntRange(1, 65535).Draw(t, "pVersion"))
	case "ChannelEpoch":
		p.ChannelEpoch = verifC05OtherU64(t, e.ChannelEpoch, true, "pEpoch")
	case "ChannelEpoch+record.Epoch":
		p.ChannelEpoch = verifC05OtherU64(t, e.ChannelEpoch, true, "pEpoch")
		r.Epoch = p.ChannelEpoch
	case "LeaderTerm":
		p.LeaderTerm = verifC05OtherU64(t, e.LeaderTerm, true, "pTerm")
	case "FenceVersion":
		p.FenceVersion = verifC05OtherU64(t, e.FenceVersion, true, "pFence")
	case "Index":
		p.Index = verifC05OtherU64(t, e.Index, true, "pIndex")
	case "PreviousIndex":
		p.PreviousIndex = verifC05OtherU64(t, e.PreviousIndex, false, "pPrevIndex")
	case "Index+PreviousIndex": // moved as a whole; predecessor shape kept
		if e.PreviousIndex == 0 {
			return e, r, false
		}
		ni := verifC05OtherU64(t, e.Index, true, "pIndexBoth")
		if ni < 2 {
			ni = e.Index + 1
			if ni < 2 {
				return e, r, false
			}
		}
		p.Index, p.PreviousIndex = ni, ni-1
		if r.Index != 0 {
			r.Index = ni
		}
	case "PreviousTerm":
		// at genesis (PreviousIndex 0) the sealed predecessor is all zero; an
		// identity naming any other predecessor term is not the sealed one
		p.PreviousTerm = verifC05OtherU64(t, e.PreviousTerm, true, "pPrevTerm")
	case "CommandID":
		p.CommandID = CommandID(verifC05Other32(t, e.CommandID, "pCmd"))
	case "PreviousDigest":
		p.PreviousDigest = EntryDigest(verifC05Other32(t, e.PreviousDigest, "pPrevDigest"))
	case "Digest":
		p.Digest = EntryDigest(verifC05Other32(t, e.Digest, "pDigest"))
	default:
		t.Fatalf("unknown identity field %q", field)
	}
	return p, r, true
}

var verifC05ManifestFields = []string{"ChannelEpoch", "LeaderTerm", "FenceVersion", "CommandID", "BaseOffset", "PreviousTerm", "PreviousDigest"}

func verifC05PerturbManifest(t *rapid.T, m ProposalManifest, records []Record, field string) (ProposalManifest, []Record, bool) {
	p := m
	recs := verifC05CloneRecords(records)
	n := uint64(len(records))
	switch field {
	case "ChannelEpoch":
		p.ChannelEpoch = verifC05OtherU64(t, m.ChannelEpoch, true, "mEpoch")
		for i := range recs {
			recs[i].Epoch = p.ChannelEpoch
		}
	case "LeaderTerm":
		p.LeaderTerm = verifC05OtherU64(t, m.LeaderTerm, true, "mTerm")
	case "FenceVersion":
		p.FenceVersion = verifC05OtherU64(t, m.FenceVersion, true, "mFence")
	case "CommandID":
		p.CommandID = CommandID(verifC05Other32(t, m.CommandID, "mCmd"))
	case "BaseOffset": // same predecessor shape (genesis stays out of it)
		if m.BaseOffset == 0 {
			return m, nil, false
		}
		nb := verifC05OtherU64(t, m.BaseOffset, true, "mBase")
		if nb > math.MaxUint64-n {
			nb = math.MaxUint64 - n
			if nb == m.BaseOffset {
				nb--
			}
		}
		p.BaseOffset, p.PreviousIndex, p.LastOffset = nb, nb, nb+n
		for i := range recs {
			if recs[i].Index != 0 {
				recs[i].Index = nb + uint64(i) + 1
			}
		}
	case "PreviousTerm":
		if m.BaseOffset == 0 {
			return m, nil, false
		}
		p.PreviousTerm = verifC05OtherU64(t, m.PreviousTerm, true, "mPrevTerm")
	case "PreviousDigest":
		if m.BaseOffset == 0 {
			return m, nil, false
		}
		p.PreviousDigest = EntryDigest(verifC05Other32(t, m.PreviousDigest, "mPrevDigest"))
	default:
		t.Fatalf("unknown manifest field %q", field)
	}
	return p, recs, true
}

// ---- the check ------------------------------------------------------------

func verifC05CheckSealedShape(rt *rapid.T, m, sealed ProposalManifest, entries []EntryIdentity, n int) {
	if len(entries) != n {
		rt.Fatalf("sealed %d entries for %d records", len(entries), n)
	}
	want := m
	want.Digest = entries[n-1].Digest
	if sealed != want {
		rt.Fatalf("sealed manifest %+v is not the input manifest with the tail digest %x", sealed, entries[n-1].Digest)
	}
	if !sealed.StructurallyValid() || !sealed.ValidFor(m.BaseOffset, n) {
		rt.Fatalf("sealed manifest not valid for base %d count %d: %+v", m.BaseOffset, n, sealed)
	}
	for i, e := range entries {
		wantE := EntryIdentity{Version: ProposalManifestVersion, ChannelEpoch: m.ChannelEpoch, LeaderTerm: m.LeaderTerm, FenceVersion: m.FenceVersion,
			Index: m.BaseOffset + uint64(i) + 1, PreviousIndex: m.BaseOffset + uint64(i), CommandID: m.CommandID, Digest: e.Digest}
		if i == 0 {
			wantE.PreviousTerm, wantE.PreviousDigest = m.PreviousTerm, m.PreviousDigest
		} else {
			wantE.PreviousTerm, wantE.PreviousDigest = m.LeaderTerm, entries[i-1].Digest
		}
		if e != wantE {
			rt.Fatalf("entry %d identity %+v, want %+v", i, e, wantE)
		}
		if e.Digest == (EntryDigest{}) {
			rt.Fatalf("entry %d has the zero digest", i)
		}
	}
}

// TestVerifC05Identity: a sealed entry verifies exactly the record it was
// sealed from, and every single-field perturbation of the record, of the
// identity or of the manifest changes the digest and is rejected.
func TestVerifC05Identity(t *testing.T) {
	kit.Check(t, "C05", func(rt *rapid.T, k *kit.Case) {
		p := verifC05GenProposal(rt)
		m, records := p.manifest, p.records
		n := len(records)
		pristine := verifC05CloneRecords(records)

		sealed, entries, ok := SealProposalManifest(m, records)
		if !ok {
			rt.Fatalf("SealProposalManifest rejected a valid proposal: %+v", m)
		}
		verifC05CheckSealedShape(rt, m, sealed, entries, n)
		for i := range records {
			if !verifC05SameRecord(records[i], pristine[i]) {
				rt.Fatalf("sealing modified record %d", i)
			}
		}
		// deterministic; the input Digest field is ignored; derive == seal
		junk := m
		junk.Digest = EntryDigest(verifC05Digest32(rt, "junkDigest"))
		sealed2, entries2, ok2 := SealProposalManifest(junk, verifC05CloneRecords(records))
		if !ok2 || sealed2 != sealed || len(entries2) != n {
			rt.Fatalf("sealing is not deterministic / depends on the input digest: %+v vs %+v", sealed2, sealed)
		}
		derived, ok3 := DeriveProposalEntries(sealed, n, func(i int) Record { return records[i] })
		if !ok3 || len(derived) != n {
			rt.Fatalf("DeriveProposalEntries rejected the sealed manifest")
		}
		for i := range entries {
			if entries2[i] != entries[i] || derived[i] != entries[i] {
				rt.Fatalf("entry %d differs between two derivations", i)
			}
		}

		// (a) accept side: every sealed entry verifies its record, a deep copy
		// of it, the record with Index 0 / Index set, nil vs empty payload.
		for i, e := range entries {
			r := records[i]
			if !VerifyEntry(e, r) {
				rt.Fatalf("VerifyEntry rejects the sealed record %d: %+v", i, e)
			}
			c := verifC05CloneRecords(records[i : i+1])[0]
			c.Index = e.Index
			if !VerifyEntry(e, c) {
				rt.Fatalf("VerifyEntry rejects record %d with its index set", i)
			}
			c.Index = 0
			if !VerifyEntry(e, c) {
				rt.Fatalf("VerifyEntry rejects record %d with index 0", i)
			}
			if len(r.Payload) == 0 {
				c.Payload = nil
				okNil := VerifyEntry(e, c)
				c.Payload = []byte{}
				if !okNil || !VerifyEntry(e, c) {
					rt.Fatalf("VerifyEntry distinguishes nil from empty payload for record %d", i)
				}
			}
			if digestProposalEntry(e, r) != e.Digest {
				rt.Fatalf("entry %d digest is not the digest of its identity and record", i)
			}
			// a record at another position never verifies under this identity
			for j := range records {
				if j != i && VerifyEntry(e, records[j]) {
					rt.Fatalf("entry %d accepts record %d", i, j)
				}
				if j != i && entries[j].Digest == e.Digest {
					rt.Fatalf("entries %d and %d share a digest", i, j)
				}
			}
		}

		pos := rapid.IntRange(0, n-1).Draw(rt, "pos")
		e, r := entries[pos], records[pos]
		applied := 0

		// (b1) record perturbations
		for _, field := range verifC05RecordFields {
			pr, ok := verifC05PerturbRecord(rt, r, field)
			if !ok {
				continue
			}
			applied++
			k.Label("record: " + field)
			if VerifyEntry(e, pr) {
				rt.Fatalf("VerifyEntry accepts record %d with perturbed %s:\n was %+v\n now %+v", pos, field, r, pr)
			}
			if digestProposalEntry(e, pr) == e.Digest {
				rt.Fatalf("digest does not bind %s:\n was %+v\n now %+v", field, r, pr)
			}
			changed := verifC05CloneRecords(records)
			changed[pos] = pr
			cs, ce, ok := SealProposalManifest(m, changed)
			if !ok {
				rt.Fatalf("re-seal with perturbed %s rejected", field)
			}
			for j := 0; j < n; j++ {
				if j < pos && ce[j] != entries[j] {
					rt.Fatalf("perturbing %s of record %d changed the earlier entry %d", field, pos, j)
				}
				if j >= pos && ce[j].Digest == entries[j].Digest {
					rt.Fatalf("perturbing %s of record %d left the digest of entry %d unchanged", field, pos, j)
				}
				if j >= pos && VerifyEntry(entries[j], changed[j]) != (j > pos) {
					// entries after pos still verify their own (unchanged) record under the OLD identity
					rt.Fatalf("old identity %d vs changed proposal: unexpected VerifyEntry result", j)
				}
				if j > pos && VerifyEntry(ce[j], records[j]) != true {
					rt.Fatalf("new identity %d rejects its own record", j)
				}
			}
			if VerifyEntry(ce[pos], r) {
				rt.Fatalf("identity sealed from the perturbed (%s) record accepts the original record", field)
			}
			if cs.Digest == sealed.Digest {
				rt.Fatalf("tail digest does not bind %s of record %d", field, pos)
			}
		}
		// record.Index / record.Epoch are checked structurally
		{
			bad := r
			bad.Index = verifC05OtherU64(rt, e.Index, true, "badIndex")
			if VerifyEntry(e, bad) {
				rt.Fatalf("VerifyEntry accepts record index %d under entry index %d", bad.Index, e.Index)
			}
			bad = r
			bad.Epoch = verifC05OtherU64(rt, r.Epoch, false, "badEpoch")
			if VerifyEntry(e, bad) {
				rt.Fatalf("VerifyEntry accepts record epoch %d under channel epoch %d", bad.Epoch, e.ChannelEpoch)
			}
			bad = r
			bad.ID = 0
			if VerifyEntry(e, bad) {
				rt.Fatalf("VerifyEntry accepts message id 0")
			}
			bad = r
			bad.ServerTimestampMS = -r.ServerTimestampMS
			if VerifyEntry(e, bad) {
				rt.Fatalf("VerifyEntry accepts a negated timestamp")
			}
		}

		// (b2) identity perturbations (the stored digest is kept)
		for _, field := range verifC05IdentityFields {
			pe, pr, ok := verifC05PerturbIdentity(rt, e, r, field)
			if !ok {
				continue
			}
			applied++
			k.Label("identity: " + field)
			if VerifyEntry(pe, pr) {
				rt.Fatalf("VerifyEntry accepts identity with perturbed %s:\n was %+v\n now %+v", field, e, pe)
			}
			if field != "Digest" && field != "Version" && digestProposalEntry(pe, pr) == e.Digest {
				rt.Fatalf("digest does not bind identity field %s:\n was %+v\n now %+v", field, e, pe)
			}
		}

		// (b3) manifest perturbations: every entry of the proposal changes
		for _, field := range verifC05ManifestFields {
			pm, precs, ok := verifC05PerturbManifest(rt, m, records, field)
			if !ok {
				continue
			}
			applied++
			k.Label("manifest: " + field)
			ps, pe, ok := SealProposalManifest(pm, precs)
			if !ok {
				rt.Fatalf("re-seal with perturbed manifest %s rejected: %+v", field, pm)
			}
			if ps.Digest == sealed.Digest {
				rt.Fatalf("tail digest does not bind manifest %s", field)
			}
			for j := range pe {
				if pe[j].Digest == entries[j].Digest {
					rt.Fatalf("entry %d digest does not bind manifest %s", j, field)
				}
				if !VerifyEntry(pe[j], precs[j]) {
					rt.Fatalf("entry %d of the perturbed (%s) proposal rejects its record", j, field)
				}
				// the same content may be sealed under both identities; what must
				// not happen is that one identity carries the other's digest
				mixed := entries[j]
				mixed.Digest = pe[j].Digest
				if VerifyEntry(mixed, records[j]) {
					rt.Fatalf("entry %d: original identity verifies under the digest of the perturbed (%s) proposal", j, field)
				}
			}
		}

		k.Key(sealed.Digest[:], pos, n)
		k.SetNonTrivial(applied >= 14)
		k.LabelIf(m.BaseOffset == 0, "genesis proposal (base 0)")
		k.LabelIf(m.BaseOffset > 0, "base > 0 with predecessor")
		k.LabelIf(n > 1, "multi-record proposal")
		k.LabelIf(pos > 0, "perturbed a non-first entry")
		k.LabelIf(len(r.Payload) == 0, "empty payload")
		k.LabelIf(len(r.Payload) > 1024, "payload > 1 KiB")
		k.LabelIf(len(r.FromUID) == 0 || len(r.ClientMsgNo) == 0, "empty sender or client message number")
		k.Sample(func() any {
			return fmt.Sprintf("base=%d n=%d pos=%d epoch=%d term=%d fence=%d rec{id=%d set=%d sync=%v ts=%d from=%q cmn=%q payload=%dB} perturbations=%d",
				m.BaseOffset, n, pos, m.ChannelEpoch, m.LeaderTerm, m.FenceVersion, r.ID, r.Setting, r.SyncOnce, r.ServerTimestampMS,
				verifC05Trunc(r.FromUID), verifC05Trunc(r.ClientMsgNo), len(r.Payload), applied)
		})
	})
}

func verifC05Trunc(s string) string {
	if len(s) > 24 {
		return s[:24] + "…"
	}
	return s
}

// TestVerifC05Pairs: two independently drawn (identity, record) pairs over a
// small domain — so equal contents do occur — have equal digests exactly when
// every bound field is equal.
func TestVerifC05Pairs(t *testing.T) {
	kit.Check(t, "C05", func(rt *rapid.T, k *kit.Case) {
		small := rapid.Uint64Range(1, 2)
		str := rapid.SampledFrom([]string{"", "a", "b", "ab", "a\x00", "\x00"})
		genE := func(label string) (EntryIdentity, Record) {
			idx := rapid.Uint64Range(1, 3).Draw(rt, label+"Index")
			e := EntryIdentity{Version: ProposalManifestVersion, ChannelEpoch: small.Draw(rt, label+"Epoch"), LeaderTerm: small.Draw(rt, label+"Term"),
				FenceVersion: small.Draw(rt, label+"Fence"), Index: idx, PreviousIndex: idx - 1}
			e.CommandID[0] = byte(small.Draw(rt, label+"Cmd"))
			if idx > 1 {
				e.PreviousTerm = small.Draw(rt, label+"PrevTerm")
				e.PreviousDigest[31] = byte(small.Draw(rt, label+"PrevDigest"))
			}
			r := Record{ID: small.Draw(rt, label+"ID"), Epoch: e.ChannelEpoch, Setting: byte(rapid.IntRange(0, 1).Draw(rt, label+"Setting")),
				SyncOnce: rapid.Bool().Draw(rt, label+"Sync"), ServerTimestampMS: int64(small.Draw(rt, label+"TS")),
				FromUID: str.Draw(rt, label+"From"), ClientMsgNo: str.Draw(rt, label+"CMN"), Payload: []byte(str.Draw(rt, label+"Payload"))}
			return e, r
		}
		e1, r1 := genE("a")
		e2, r2 := genE("b")
		// with probability ~1/2 make the second a near-copy of the first
		if rapid.Bool().Draw(rt, "nearCopy") {
			e2, r2 = e1, r1
			r2.Payload = append([]byte{}, r1.Payload...)
			switch rapid.IntRange(0, 4).Draw(rt, "differ") {
			case 0:
			case 4: // same record under an independently drawn identity
				e2, _ = genE("c")
				r2.Epoch = e2.ChannelEpoch
			case 1:
				r2.FromUID = str.Draw(rt, "ncFrom")
			case 2:
				r2.ClientMsgNo = str.Draw(rt, "ncCMN")
			default:
				r2.Payload = []byte(str.Draw(rt, "ncPayload"))
			}
		}
		same := e1 == e2 && r1.ID == r2.ID && r1.Setting == r2.Setting && r1.SyncOnce == r2.SyncOnce && r1.ServerTimestampMS == r2.ServerTimestampMS &&
			r1.FromUID == r2.FromUID && r1.ClientMsgNo == r2.ClientMsgNo && bytes.Equal(r1.Payload, r2.Payload)
		d1, d2 := digestProposalEntry(e1, r1), digestProposalEntry(e2, r2)
		if (d1 == d2) != same {
			rt.Fatalf("digest equality %v but content equality %v:\n %+v %+v\n %+v %+v", d1 == d2, same, e1, r1, e2, r2)
		}
		e1.Digest, e2.Digest = d1, d2
		if !VerifyEntry(e1, r1) || !VerifyEntry(e2, r2) {
			rt.Fatalf("VerifyEntry rejects a record under the identity sealed from it")
		}
		// record 2 under identity 1: accepted exactly when it is the sealed content
		// (identity 1's own authority/position; record fields equal)
		recSame := r1.ID == r2.ID && r1.Setting == r2.Setting && r1.SyncOnce == r2.SyncOnce && r1.ServerTimestampMS == r2.ServerTimestampMS &&
			r1.FromUID == r2.FromUID && r1.ClientMsgNo == r2.ClientMsgNo && bytes.Equal(r1.Payload, r2.Payload) && r2.Epoch == e1.ChannelEpoch
		if VerifyEntry(e1, r2) != recSame {
			rt.Fatalf("VerifyEntry(e1, r2)=%v but record equality %v:\n %+v\n %+v\n %+v", !recSame, recSame, e1, r1, r2)
		}
		k.Key(fmt.Sprintf("%v|%v|%v|%v", e1, r1, e2, r2))
		k.SetNonTrivial(true)
		k.LabelIf(same, "pair: equal content, equal digest")
		k.LabelIf(!same && recSame, "pair: same record, different identity")
		k.LabelIf(!recSame, "pair: different record")
		k.Sample(func() any { return fmt.Sprintf("same=%v recSame=%v r1=%+v r2=%+v", same, recSame, r1, r2) })
	})
}
