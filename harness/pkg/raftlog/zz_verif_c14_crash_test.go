package raftlog

// C14 crash engines: (a) simulated power loss on Pebble's CrashableMem with a
// generated FS-call-indexed crash point, (b) process kill of a re-executed
// child (strace syscall-indexed SIGKILL, or SIGKILL after a generated number
// of progress lines). Oracle for both: the reopened store equals the
// reference model after a prefix p of the issued mutations with
// lastDurablyAcked <= p <= lastIssued.

import (
	"bufio"
	"bytes"
	"context"
	"encoding/gob"
	"fmt"
	"math/rand/v2"
	"os"
	"os/exec"
	"path/filepath"
	"strings"
	"sync"
	"testing"
	"time"

	"github.com/cockroachdb/pebble/v2"
	"github.com/cockroachdb/pebble/v2/vfs"
	"github.com/cockroachdb/pebble/v2/vfs/errorfs"
	"pgregory.net/rapid"
	"verif.local/kit"
)

// verifC14History is a generated history with the reference state before every
// step (States[i] = state before Ops[i]; States[len(Ops)] = final state).
type verifC14History struct {
	Scopes []Scope
	Open   *verifC14OpenOpts
	Ops    []verifC14Op
	States [][]*verifC14Scope
}

func verifC14GenHistory(rt *rapid.T, minOps, maxOps, reopenPct int) *verifC14History {
	w := verifC14NewWorld(rt)
	h := &verifC14History{Scopes: w.Scopes, Open: verifC14GenOpen(rt)}
	n := maxOps - rapid.IntRange(0, maxOps-minOps).Draw(rt, "nOpsBelowMax") // rapid favours small draws: favour long histories
	h.States = append(h.States, w.snapshot())
	for i := 0; i < n; i++ {
		op := w.genOp(rt, true, reopenPct, false)
		w.applyModel(&op)
		h.Ops = append(h.Ops, op)
		h.States = append(h.States, w.snapshot())
	}
	return h
}

func (h *verifC14History) trace(upto int) string {
	var b strings.Builder
	for i := 0; i < upto && i < len(h.Ops); i++ {
		fmt.Fprintf(&b, "%3d %s\n", i, h.Ops[i].String())
	}
	return b.String()
}

// tagsBefore reports whether the steps before index j contain a mutation with
// the given generator tag.
func (h *verifC14History) tagsBefore(j int, tag string) bool {
	for i := 0; i < j && i < len(h.Ops); i++ {
		if h.Ops[i].Tag == tag {
			return true
		}
		for _, p := range h.Ops[i].Par {
			if p.Tag == tag {
				return true
			}
		}
	}
	return false
}

// verifC14Recovered judges a reopened store against the prefix oracle: every
// scope must equal the reference state after `acked` steps or — when step
// `acked` had been issued but not acknowledged — after acked+1 steps; scopes
// written by one (non-concurrent) step must agree on the choice. It returns
// the matched prefix length (or -1 when concurrent sub-steps landed
// differently) and a violation text.
func verifC14Recovered(db *DB, h *verifC14History, acked, issued int, qs []verifC14Query) (int, string) {
	matchedOld, matchedNew := 0, 0
	for si := range h.Scopes {
		st := db.For(h.Scopes[si])
		dOld := verifC14Diff(st, h.States[acked][si], qs)
		if issued == acked {
			if dOld != "" {
				return 0, fmt.Sprintf("scope %v: recovered state is not the state after the %d acknowledged steps: %s", h.Scopes[si], acked, dOld)
			}
			matchedOld++
			continue
		}
		dNew := verifC14Diff(st, h.States[issued][si], qs)
		switch {
		case dOld == "" && dNew == "":
			// step did not touch this scope
		case dOld == "":
			matchedOld++
		case dNew == "":
			matchedNew++
		default:
			return 0, fmt.Sprintf("scope %v: recovered state is neither the state before step %d (%s) nor the state after it (%s)", h.Scopes[si], acked, dOld, dNew)
		}
	}
	if issued == acked {
		return acked, ""
	}
	if matchedOld > 0 && matchedNew > 0 {
		if h.Ops[acked].Kind != "par" {
			return 0, fmt.Sprintf("step %d is one mutation but was recovered partially across scopes", acked)
		}
		return -1, ""
	}
	if matchedNew > 0 {
		return issued, ""
	}
	return acked, ""
}

// verifC14Continue runs a few more steps of the history on a recovered store
// and compares the end state: a recovered store must keep behaving as a Raft
// storage (no stale cache, no half-recovered metadata).
func verifC14Continue(db *DB, path string, h *verifC14History, from, steps int, gcGrace time.Duration, qs []verifC14Query) (*DB, string) {
	end := from
	for ; end < len(h.Ops) && end < from+steps; end++ {
		op := &h.Ops[end]
		if op.Kind == "reopen" {
			if err := db.Close(); err != nil {
				return nil, fmt.Sprintf("close after recovery: %v", err)
			}
			var err error
			db, err = verifC14Open(path, op.Open, gcGrace)
			if err != nil {
				return nil, fmt.Sprintf("reopen after recovery: %v", err)
			}
			continue
		}
		if s := verifC14Exec(db, h.Scopes, op); s != "" {
			return db, "after recovery: " + s
		}
	}
	for si := range h.Scopes {
		if s := verifC14Diff(db.For(h.Scopes[si]), h.States[end][si], qs); s != "" {
			return db, fmt.Sprintf("scope %v: after recovery at prefix %d and steps %d..%d the store differs from the model: %s", h.Scopes[si], from, from, end-1, s)
		}
	}
	return db, ""
}

// ------------------------------------------------------ (a) power loss ----

type verifC14CrashCtl struct {
	mu        sync.Mutex
	mem       *vfs.MemFS
	cfg       vfs.CrashCloneCfg
	armed     bool
	remaining int
	seen      int
	fired     bool
	inside    bool
	clone     *vfs.MemFS
}

func verifC14Durability(k errorfs.OpKind) bool {
	switch k {
	case errorfs.OpCreate, errorfs.OpLink, errorfs.OpRemove, errorfs.OpRemoveAll, errorfs.OpRename, errorfs.OpReuseForWrite,
		errorfs.OpMkdirAll, errorfs.OpFileWrite, errorfs.OpFileWriteAt, errorfs.OpFileSync, errorfs.OpFileSyncData, errorfs.OpFileSyncTo:
		return true
	}
	return false
}

// onOp only counts: it never injects an error. At the armed count it takes the
// crash clone *before* the FS call is performed.
func (c *verifC14CrashCtl) onOp(op errorfs.Op) error {
	if !verifC14Durability(op.Kind) {
		return nil
	}
	c.mu.Lock()
	defer c.mu.Unlock()
	if !c.armed || c.fired {
		return nil
	}
	if c.remaining == 0 {
		c.fire(true)
		return nil
	}
	c.remaining--
	c.seen++
	return nil
}

func (c *verifC14CrashCtl) fire(inside bool) {
	c.clone = c.mem.CrashClone(c.cfg)
	c.fired = true
	c.inside = inside
}

// TestVerifC14PowerLoss: a generated history runs on CrashableMem; at a
// generated FS call inside (or at the boundary of) a generated step the
// machine "loses power": unsynced data is dropped (0/50/100 % kept). The store
// reopened on the crash image must equal the model at an allowed prefix.
func TestVerifC14PowerLoss(t *testing.T) {
	maxOps := kit.Scale("C14_CRASH_OPS", 30, 50)
	kit.Check(t, "C14", func(rt *rapid.T, k *kit.Case) {
		dir, clean := kit.TempDir()
		defer clean()
		h := verifC14GenHistory(rt, 4, maxOps, 8)
		j := rapid.IntRange(0, len(h.Ops)-1).Draw(rt, "crashStep")
		if pm := rapid.IntRange(0, 7).Draw(rt, "preferMutation"); pm > 1 {
			// most crash points go into a mutation: move to the next accepted
			// one (pm > 5: the next snapshot save, if the history has one)
			found := false
			for d := 0; d < len(h.Ops) && pm > 5 && !found; d++ {
				c := (j + d) % len(h.Ops)
				if h.Ops[c].Snap != nil && !h.Ops[c].WantErr {
					j, found = c, true
				}
			}
			for d := 0; d < len(h.Ops) && !found; d++ {
				c := (j + d) % len(h.Ops)
				if h.Ops[c].Kind != "reopen" && !h.Ops[c].WantErr {
					j, found = c, true
				}
			}
		}
		var r int
		if h.Ops[j].Kind == "reopen" {
			r = rapid.IntRange(0, 40).Draw(rt, "crashCall")
		} else {
			// a small commit is WAL write + WAL sync; large ones have more writes
			r = rapid.SampledFrom([]int{0, 1, 1, 1, 1, 1, 1, 1, 2, 2, 3, 4, 6}).Draw(rt, "crashCall")
		}
		pct := rapid.SampledFrom([]int{0, 0, 50, 50, 100}).Draw(rt, "unsyncedPercent")
		if h.Ops[j].Kind == "reopen" && pct == 50 {
			// Fault-model limit: Pebble's own Open creates the new MANIFEST and
			// its marker file and syncs the directory once afterwards; a crash
			// image that keeps an arbitrary subset of those unsynced directory
			// entries (marker without MANIFEST) makes pebble.Open itself fail.
			// Journaling file systems persist directory entries in order, so
			// inside close+reopen only "none" or "all" unsynced data is kept.
			pct = rapid.SampledFrom([]int{0, 100}).Draw(rt, "unsyncedPercentReopen")
		}
		seed := rapid.Uint64().Draw(rt, "cloneSeed")
		reopenOpts := verifC14GenOpen(rt)
		qs := verifC14GenQueries(rt, 3)
		const grace = time.Hour // see file comment: GC is explored by the kill engine

		mem := vfs.NewCrashableMem()
		ctl := &verifC14CrashCtl{mem: mem, cfg: vfs.CrashCloneCfg{UnsyncedDataPercent: pct, RNG: rand.New(rand.NewPCG(seed, 14))}}
		var fs vfs.FS = errorfs.Wrap(mem, errorfs.InjectorFunc(ctl.onOp))
		VerifPebbleOptions = func(o *pebble.Options) {
			o.Logger = verifC14QuietLogger{}
			o.FS = fs
		}
		defer func() { VerifPebbleOptions = nil }()
		path := filepath.Join(dir, "raft")
		db, err := verifC14Open(path, h.Open, grace)
		if err != nil {
			rt.Fatalf("open: %v", err)
		}
		defer func() {
			if db != nil {
				_ = db.Close()
			}
		}()
		step := func(i int) {
			op := &h.Ops[i]
			if op.Kind == "reopen" {
				if err := db.Close(); err != nil {
					rt.Fatalf("close: %v", err)
				}
				db, err = verifC14Open(path, op.Open, grace)
				if err != nil {
					db = nil
					rt.Fatalf("reopen: %v", err)
				}
				return
			}
			if s := verifC14Exec(db, h.Scopes, op); s != "" {
				rt.Fatalf("%s\nhistory:\n%s", s, h.trace(i+1))
			}
		}
		for i := 0; i < j; i++ {
			step(i)
		}
		ctl.mu.Lock()
		ctl.armed, ctl.remaining = true, r
		ctl.mu.Unlock()
		step(j)
		ctl.mu.Lock()
		if !ctl.fired {
			ctl.fire(false)
		}
		inside, seen, clone := ctl.inside, ctl.seen, ctl.clone
		ctl.mu.Unlock()
		_ = db.Close()
		db = nil

		// power is back: open the crash image
		fs = clone
		rdb, err := verifC14Open(path, reopenOpts, grace)
		if err != nil {
			rt.Fatalf("store does not open after power loss inside step %d (%s), FS call %d, %d%% unsynced kept: %v\nhistory:\n%s", j, h.Ops[j].String(), seen, pct, err, h.trace(j+1))
		}
		db = rdb
		acked, issued := j, j+1
		if !inside {
			acked = j + 1
		}
		p, s := verifC14Recovered(db, h, acked, issued, qs)
		if s != "" {
			rt.Fatalf("power loss at step %d (%s), before durability FS call #%d of the step (inside=%v), %d%% unsynced kept: %s\nhistory:\n%s", j, h.Ops[j].String(), seen, inside, pct, s, h.trace(j+1))
		}
		if p >= 0 {
			var cs string
			db, cs = verifC14Continue(db, path, h, p, 3, grace, qs)
			if cs != "" {
				rt.Fatalf("power loss at step %d (%s), FS call #%d: %s\nhistory:\n%s", j, h.Ops[j].String(), seen, cs, h.trace(len(h.Ops)))
			}
		}

		isMutation := h.Ops[j].Kind != "reopen" && !h.Ops[j].WantErr
		strict := inside && seen >= 1 && isMutation
		k.Key("powerloss", j, r, pct, h.trace(len(h.Ops)))
		k.SetNonTrivial(strict)
		k.LabelIf(strict, "powerloss: crash strictly inside a mutation (after its first FS write, before the ack)")
		k.LabelIf(inside && seen == 0 && isMutation, "powerloss: crash at the first FS call of a mutation")
		k.LabelIf(!inside, "powerloss: crash between steps")
		k.LabelIf(h.Ops[j].Kind == "reopen" && inside, "powerloss: crash inside close+reopen (recovery of recovery)")
		k.LabelIf(strict && p == issued, "powerloss: in-flight mutation survived")
		k.LabelIf(strict && p == acked, "powerloss: in-flight mutation lost")
		k.LabelIf(h.Ops[j].Kind == "par", "powerloss: crash step is a concurrent multi-scope write")
		k.LabelIf(h.Ops[j].Snap != nil && inside, "powerloss: crash inside a snapshot save")
		k.LabelIf(h.tagsBefore(j+1, "overwrite") && h.tagsBefore(j+1, "compact"), "powerloss: overwrite and compaction before the crash")
		k.Label(fmt.Sprintf("powerloss: unsynced kept %d%%", pct))
		k.Sample(func() any {
			return fmt.Sprintf("crash step %d/%d (%s) FS call %d inside=%v pct=%d recovered prefix %d", j, len(h.Ops), h.Ops[j].String(), seen, inside, pct, p)
		})
	})
}

// ----------------------------------------------------- (b) process kill ----

type verifC14ChildInput struct {
	Path   string
	Scopes []Scope
	Open   *verifC14OpenOpts
	Ops    []verifC14Op
}

// TestVerifC14Child is the re-executed child: it runs the history on a real
// directory and reports progress on stdout. It does nothing in a normal run.
func TestVerifC14Child(t *testing.T) {
	in := os.Getenv("VERIF_C14_CHILD")
	if in == "" {
		return
	}
	raw, err := os.ReadFile(in)
	if err != nil {
		fmt.Println("childerror", err)
		os.Exit(3)
	}
	var ci verifC14ChildInput
	if err := gob.NewDecoder(bytes.NewReader(raw)).Decode(&ci); err != nil {
		fmt.Println("childerror", err)
		os.Exit(3)
	}
	VerifPebbleOptions = func(o *pebble.Options) { o.Logger = verifC14QuietLogger{} }
	db, err := verifC14Open(ci.Path, ci.Open, 0)
	if err != nil {
		fmt.Println("childerror open", err)
		os.Exit(3)
	}
	say := func(s string) { _, _ = os.Stdout.WriteString(s) }
	for i := range ci.Ops {
		op := &ci.Ops[i]
		say(fmt.Sprintf("issued %d\n", i))
		if op.Kind == "reopen" {
			if err := db.Close(); err != nil {
				say(fmt.Sprintf("childerror close %v\n", err))
				os.Exit(3)
			}
			db, err = verifC14Open(ci.Path, op.Open, 0)
			if err != nil {
				say(fmt.Sprintf("childerror reopen %v\n", err))
				os.Exit(3)
			}
		} else if s := verifC14Exec(db, ci.Scopes, op); s != "" {
			say("childviolation " + strings.ReplaceAll(s, "\n", " ") + "\n")
			os.Exit(4)
		}
		say(fmt.Sprintf("durable %d\n", i))
	}
	say("done\n")
	// exit without closing: the parent reopens whatever is on disk
	os.Exit(0)
}

const verifC14KillSyscalls = "write,pwrite64,fsync,fdatasync,rename,renameat,renameat2,unlink,unlinkat,mkdir,mkdirat,openat"

// verifC14Calibrate runs one child to completion under strace (no injection)
// and measures, per traced thread, how many of the injectable syscalls happen
// before the first step and per step, so that generated kill indexes land
// inside the history rather than in process start-up.
func verifC14Calibrate(t *testing.T, bin, strace string) (base, perOp int) {
	dir, clean := kit.TempDir()
	defer clean()
	h := rapid.Custom(func(rt *rapid.T) *verifC14History { return verifC14GenHistory(rt, 10, 10, 3) }).Example(7)
	var buf bytes.Buffer
	if err := gob.NewEncoder(&buf).Encode(verifC14ChildInput{Path: filepath.Join(dir, "raft"), Scopes: h.Scopes, Open: h.Open, Ops: h.Ops}); err != nil {
		return 0, 0
	}
	inFile := filepath.Join(dir, "history.gob")
	traceFile := filepath.Join(dir, "trace.txt")
	if os.WriteFile(inFile, buf.Bytes(), 0o644) != nil {
		return 0, 0
	}
	ctx, cancel := context.WithTimeout(context.Background(), 120*time.Second)
	defer cancel()
	cmd := exec.CommandContext(ctx, strace, "-f", "-qq", "-o", traceFile, "-e", "trace="+verifC14KillSyscalls, "--", bin, "-test.run", "^TestVerifC14Child$", "-test.count=1")
	cmd.Env = append(os.Environ(), "VERIF_C14_CHILD="+inFile, "GOMAXPROCS=2", "VERIF_STATS_DIR=")
	cmd.Dir = dir
	if err := cmd.Run(); err != nil {
		t.Logf("strace calibration failed (%v): kill points use progress lines only", err)
		return 0, 0
	}
	raw, err := os.ReadFile(traceFile)
	if err != nil {
		return 0, 0
	}
	per := map[string]int{}
	maxOf := func() int {
		m := 0
		for _, v := range per {
			if v > m {
				m = v
			}
		}
		return m
	}
	for _, line := range strings.Split(string(raw), "\n") {
		f := strings.Fields(line)
		if len(f) < 2 || strings.HasPrefix(f[1], "<...") || strings.HasPrefix(f[1], "+++") || strings.HasPrefix(f[1], "---") {
			continue
		}
		if base == 0 && strings.Contains(line, `"issued 0\n"`) {
			base = maxOf()
		}
		per[f[0]]++
	}
	if base == 0 {
		return 0, 0
	}
	perOp = (maxOf() - base) / len(h.Ops)
	if perOp < 1 {
		perOp = 1
	}
	t.Logf("strace calibration: %d injectable syscalls on the busiest thread before the first step, about %d per step", base, perOp)
	return base, perOp
}

// TestVerifC14Kill: the history runs in a child process on a real directory;
// the child is killed with SIGKILL at a generated syscall (strace injection)
// or after a generated number of progress lines; the parent reopens the
// directory and applies the prefix oracle, then continues the history.
func TestVerifC14Kill(t *testing.T) {
	bin := os.Getenv("VERIF_TEST_BIN")
	if bin == "" {
		bin = os.Args[0]
	}
	strace, _ := exec.LookPath("strace")
	col := kit.For(t, "C14")
	maxOps := kit.Scale("C14_KILL_OPS", 12, 24)
	base, perOp := 0, 0
	if strace != "" {
		base, perOp = verifC14Calibrate(t, bin, strace)
		if perOp == 0 {
			strace = ""
		}
	}
	kit.Check(t, "C14", func(rt *rapid.T, k *kit.Case) {
		dir, clean := kit.TempDir()
		defer clean()
		h := verifC14GenHistory(rt, 3, maxOps, 3)
		path := filepath.Join(dir, "raft")
		useStrace := strace != "" && rapid.Bool().Draw(rt, "killByStrace")
		// strace counts injections per traced thread; the calibrated window
		// covers the end of open up to the end of the history.
		frac := rapid.IntRange(0, 1000).Draw(rt, "killSyscallFrac")
		when := base*9/10 + frac*(base*1/10+perOp*len(h.Ops)*15/10+1)/1000
		if when < 1 {
			when = 1
		}
		afterLines := rapid.IntRange(1, 2*len(h.Ops)).Draw(rt, "killAfterLines")
		if afterLines%2 == 0 && rapid.IntRange(0, 3).Draw(rt, "killAfterIssued") > 0 {
			afterLines-- // right after an "issued i" line: the kill lands inside step i
		}
		delayUS := rapid.IntRange(0, 1500).Draw(rt, "killDelayUS")
		reopenOpts := verifC14GenOpen(rt)
		qs := verifC14GenQueries(rt, 3)

		var buf bytes.Buffer
		if err := gob.NewEncoder(&buf).Encode(verifC14ChildInput{Path: path, Scopes: h.Scopes, Open: h.Open, Ops: h.Ops}); err != nil {
			rt.Fatalf("VERIF-MACHINERY encode: %v", err)
		}
		inFile := filepath.Join(dir, "history.gob")
		if err := os.WriteFile(inFile, buf.Bytes(), 0o644); err != nil {
			rt.Fatalf("VERIF-MACHINERY write: %v", err)
		}
		ctx, cancel := context.WithTimeout(context.Background(), 120*time.Second)
		defer cancel()
		args := []string{bin, "-test.run", "^TestVerifC14Child$", "-test.count=1"}
		if useStrace {
			args = append([]string{strace, "-f", "-qq", "-o", "/dev/null", "-e", "trace=" + verifC14KillSyscalls,
				"-e", fmt.Sprintf("inject=%s:signal=SIGKILL:when=%d", verifC14KillSyscalls, when), "--"}, args...)
		}
		cmd := exec.CommandContext(ctx, args[0], args[1:]...)
		cmd.Env = append(os.Environ(), "VERIF_C14_CHILD="+inFile, "GOMAXPROCS=2", "VERIF_STATS_DIR=")
		cmd.Dir = dir
		out, err := cmd.StdoutPipe()
		if err != nil {
			rt.Fatalf("VERIF-MACHINERY pipe: %v", err)
		}
		cmd.Stderr = nil
		if err := cmd.Start(); err != nil {
			rt.Fatalf("VERIF-MACHINERY start child: %v", err)
		}
		issued, acked, lines := 0, 0, 0
		done, killedByUs := false, false
		var childMsg string
		sc := bufio.NewReader(out)
		for {
			line, err := sc.ReadString('\n')
			if err != nil {
				break // EOF; an unterminated last line is ignored
			}
			line = strings.TrimSpace(line)
			var n int
			switch {
			case strings.HasPrefix(line, "issued "):
				fmt.Sscanf(line, "issued %d", &n)
				issued = n + 1
				lines++
			case strings.HasPrefix(line, "durable "):
				fmt.Sscanf(line, "durable %d", &n)
				acked = n + 1
				lines++
			case line == "done":
				done = true
			case strings.HasPrefix(line, "childerror"), strings.HasPrefix(line, "childviolation"):
				childMsg = line
			}
			if !useStrace && !killedByUs && lines >= afterLines {
				for t0 := time.Now(); time.Since(t0) < time.Duration(delayUS)*time.Microsecond; {
				}
				_ = cmd.Process.Kill()
				killedByUs = true
			}
		}
		_ = cmd.Wait()
		if ctx.Err() != nil {
			col.Inconclusive("child timed out")
			rt.Skip("child timed out")
		}
		if strings.HasPrefix(childMsg, "childviolation") {
			rt.Fatalf("child: %s\nhistory:\n%s", childMsg, h.trace(len(h.Ops)))
		}
		if childMsg != "" {
			rt.Fatalf("VERIF-MACHINERY child failed: %s", childMsg)
		}
		if done {
			issued, acked = len(h.Ops), len(h.Ops)
		}
		if issued < acked || issued > acked+1 {
			rt.Fatalf("VERIF-MACHINERY inconsistent child progress issued=%d acked=%d", issued, acked)
		}

		VerifPebbleOptions = func(o *pebble.Options) { o.Logger = verifC14QuietLogger{} }
		defer func() { VerifPebbleOptions = nil }()
		db, err := verifC14Open(path, reopenOpts, 0)
		if err != nil {
			rt.Fatalf("store does not open after the process was killed (issued %d, acknowledged %d): %v\nhistory:\n%s", issued, acked, err, h.trace(issued))
		}
		defer func() {
			if db != nil {
				_ = db.Close()
			}
		}()
		p, s := verifC14Recovered(db, h, acked, issued, qs)
		if s != "" {
			rt.Fatalf("process killed with %d steps issued, %d acknowledged: %s\nhistory:\n%s", issued, acked, s, h.trace(issued))
		}
		if p >= 0 {
			var cs string
			db, cs = verifC14Continue(db, path, h, p, 3, 0, qs)
			if cs != "" {
				rt.Fatalf("process killed with %d steps issued, %d acknowledged: %s\nhistory:\n%s", issued, acked, cs, h.trace(len(h.Ops)))
			}
		}
		inside := issued == acked+1
		isMutation := inside && h.Ops[acked].Kind != "reopen" && !h.Ops[acked].WantErr
		k.Key("kill", useStrace, when, afterLines, h.trace(len(h.Ops)))
		k.SetNonTrivial(inside && isMutation)
		k.LabelIf(inside && isMutation, "kill: process died inside a mutation (issued, not acknowledged)")
		k.LabelIf(inside && !isMutation, "kill: process died inside reopen/refused step")
		k.LabelIf(!inside && !done && issued > 0, "kill: process died between steps")
		k.LabelIf(!done && issued == 0, "kill: process died before the first step")
		k.LabelIf(done, "kill: child finished before the kill point")
		k.LabelIf(inside && isMutation && p == issued, "kill: in-flight mutation survived")
		k.LabelIf(inside && isMutation && p == acked, "kill: in-flight mutation lost")
		k.LabelIf(useStrace, "kill: strace syscall-indexed SIGKILL")
		k.LabelIf(!useStrace, "kill: SIGKILL after progress lines")
		k.LabelIf(h.tagsBefore(issued, "overwrite") && h.tagsBefore(issued, "compact"), "kill: overwrite and compaction before the kill")
		k.Sample(func() any {
			return fmt.Sprintf("kill strace=%v when=%d lines=%d: issued %d acked %d of %d, recovered prefix %d", useStrace, when, afterLines, issued, acked, len(h.Ops), p)
		})
	})
}
