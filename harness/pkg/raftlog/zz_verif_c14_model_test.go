package raftlog

// C14 — the durable Raft log behaves as a correct Raft storage.
//
// This file holds the reference model, the Raft-valid history generator, the
// read oracle and the open-store (no crash) stateful check. The crash engines
// (simulated power loss, process kill) live in zz_verif_c14_crash_test.go and
// reuse everything here.

import (
	"bytes"
	"context"
	"errors"
	"fmt"
	"math"
	"path/filepath"
	"sort"
	"strings"
	"sync"
	"testing"
	"time"

	"github.com/WuKongIM/WuKongIM/pkg/slot/multiraft"
	"github.com/cockroachdb/pebble/v2"
	"github.com/cockroachdb/pebble/v2/vfs"
	raft "go.etcd.io/raft/v3"
	"go.etcd.io/raft/v3/raftpb"
	"pgregory.net/rapid"
	"verif.local/kit"
)

// ---------------------------------------------------------------- model ----

// verifC14Scope is the reference state of one Raft scope: what a correct Raft
// storage holds after a sequence of accepted mutations.
type verifC14Scope struct {
	HS         raftpb.HardState
	Snap       raftpb.Snapshot
	Ents       []raftpb.Entry // contiguous, all indexes > Snap.Metadata.Index
	Applied    uint64
	CfgApplied uint64
}

func (m *verifC14Scope) clone() *verifC14Scope {
	c := *m
	c.Ents = append([]raftpb.Entry(nil), m.Ents...)
	return &c
}

func (m *verifC14Scope) snapIndex() uint64 { return m.Snap.Metadata.Index }

func (m *verifC14Scope) first() uint64 {
	if len(m.Ents) > 0 {
		return m.Ents[0].Index
	}
	return m.snapIndex() + 1
}

func (m *verifC14Scope) last() uint64 {
	if len(m.Ents) > 0 {
		return m.Ents[len(m.Ents)-1].Index
	}
	return m.snapIndex()
}

// term returns the term of index i and whether the storage holds it (as an
// entry or as the snapshot boundary).
func (m *verifC14Scope) term(i uint64) (uint64, bool) {
	if len(m.Ents) > 0 && i >= m.Ents[0].Index && i <= m.last() {
		return m.Ents[i-m.Ents[0].Index].Term, true
	}
	if i == m.snapIndex() {
		return m.Snap.Metadata.Term, true
	}
	return 0, false
}

func (m *verifC14Scope) lastTerm() uint64 {
	t, _ := m.term(m.last())
	return t
}

// verifC14Conf is a simple (non-joint) membership: the independent re-statement
// of what confchange.Changer.Simple computes for single changes.
type verifC14Conf struct {
	voters   map[uint64]bool
	learners map[uint64]bool
}

func verifC14ConfOf(cs raftpb.ConfState) verifC14Conf {
	c := verifC14Conf{voters: map[uint64]bool{}, learners: map[uint64]bool{}}
	for _, v := range cs.Voters {
		c.voters[v] = true
	}
	for _, l := range cs.Learners {
		c.learners[l] = true
	}
	return c
}

// would reports whether the single change leaves at least one voter (the only
// way a simple change can be rejected by the Raft library in this domain).
func (c verifC14Conf) would(typ raftpb.ConfChangeType, id uint64) bool {
	n := len(c.voters)
	switch typ {
	case raftpb.ConfChangeAddNode:
		if !c.voters[id] {
			n++
		}
	case raftpb.ConfChangeRemoveNode, raftpb.ConfChangeAddLearnerNode:
		if c.voters[id] {
			n--
		}
	}
	return n > 0
}

func (c verifC14Conf) apply(typ raftpb.ConfChangeType, id uint64) {
	switch typ {
	case raftpb.ConfChangeAddNode:
		delete(c.learners, id)
		c.voters[id] = true
	case raftpb.ConfChangeRemoveNode:
		delete(c.learners, id)
		delete(c.voters, id)
	case raftpb.ConfChangeAddLearnerNode:
		delete(c.voters, id)
		c.learners[id] = true
	}
}

func verifC14Sorted(s map[uint64]bool) []uint64 {
	var out []uint64
	for id := range s {
		out = append(out, id)
	}
	sort.Slice(out, func(i, j int) bool { return out[i] < out[j] })
	return out
}

func (c verifC14Conf) state() raftpb.ConfState {
	return raftpb.ConfState{Voters: verifC14Sorted(c.voters), Learners: verifC14Sorted(c.learners)}
}

func verifC14EntryChange(e raftpb.Entry) (raftpb.ConfChangeType, uint64, bool) {
	switch e.Type {
	case raftpb.EntryConfChange:
		var cc raftpb.ConfChange
		if err := cc.Unmarshal(e.Data); err != nil {
			panic(err)
		}
		return cc.Type, cc.NodeID, true
	case raftpb.EntryConfChangeV2:
		var cc raftpb.ConfChangeV2
		if err := cc.Unmarshal(e.Data); err != nil {
			panic(err)
		}
		if len(cc.Changes) != 1 {
			panic("verif: generator only emits single changes")
		}
		return cc.Changes[0].Type, cc.Changes[0].NodeID, true
	}
	return 0, 0, false
}

// confThrough is the membership after the snapshot and every held entry with
// index <= upto.
func (m *verifC14Scope) confThrough(upto uint64) verifC14Conf {
	c := verifC14ConfOf(m.Snap.Metadata.ConfState)
	for _, e := range m.Ents {
		if e.Index > upto {
			break
		}
		if typ, id, ok := verifC14EntryChange(e); ok {
			c.apply(typ, id)
		}
	}
	return c
}

// committedConf is what InitialState reports: the membership as of the
// committed index (raftlog/memory.go, deriveConfState).
func (m *verifC14Scope) committedConf() raftpb.ConfState {
	return m.confThrough(m.HS.Commit).state()
}

// ------------------------------------------------------------------ ops ----

type verifC14OpenOpts struct {
	Chunk  uint64
	Items  int
	WaitUS int
}

// verifC14Op is one storage mutation (or reopen) of a history. It is plain data
// so that a history can be handed to a child process (gob).
type verifC14Op struct {
	Kind       string // save | applied | cfgapplied | replace | reopen | par
	Tag        string // what the generator meant (label only)
	Scope      int
	HS         *raftpb.HardState
	Ents       []raftpb.Entry
	Snap       *raftpb.Snapshot
	Index      uint64
	WantErr    bool
	FailCommit bool
	Par        []verifC14Op
	Open       *verifC14OpenOpts
}

func (op verifC14Op) String() string {
	var b strings.Builder
	fmt.Fprintf(&b, "%s/%s s%d", op.Kind, op.Tag, op.Scope)
	if op.HS != nil {
		fmt.Fprintf(&b, " hs{t%d v%d c%d}", op.HS.Term, op.HS.Vote, op.HS.Commit)
	}
	if len(op.Ents) > 0 {
		b.WriteString(" ents[")
		for i, e := range op.Ents {
			if i > 0 {
				b.WriteByte(' ')
			}
			fmt.Fprintf(&b, "%d@%d", e.Index, e.Term)
			if e.Type != raftpb.EntryNormal {
				b.WriteString("cc")
			}
			if len(e.Data) > 64 {
				fmt.Fprintf(&b, "(%dB)", len(e.Data))
			}
		}
		b.WriteByte(']')
	}
	if op.Snap != nil {
		fmt.Fprintf(&b, " snap{%d@%d %v %dB}", op.Snap.Metadata.Index, op.Snap.Metadata.Term, op.Snap.Metadata.ConfState.Voters, len(op.Snap.Data))
	}
	if op.Index != 0 {
		fmt.Fprintf(&b, " idx=%d", op.Index)
	}
	if op.WantErr {
		b.WriteString(" wantErr")
	}
	if op.FailCommit {
		b.WriteString(" failCommit")
	}
	for _, p := range op.Par {
		b.WriteString(" | " + p.String())
	}
	return b.String()
}

// applyModel applies an accepted mutation to the reference state.
func (m *verifC14Scope) applyModel(op *verifC14Op) {
	if op.WantErr || op.FailCommit {
		return
	}
	switch op.Kind {
	case "save", "replace":
		if op.HS != nil {
			m.HS = *op.HS
		}
		ents := op.Ents
		if op.Snap != nil {
			idx := op.Snap.Metadata.Index
			m.Snap = *op.Snap
			kept := m.Ents[:0:0]
			for _, e := range m.Ents {
				if e.Index > idx {
					kept = append(kept, e)
				}
			}
			m.Ents = kept
			if m.HS.Commit < idx {
				m.HS.Commit = idx
			}
			var after []raftpb.Entry
			for _, e := range ents {
				if e.Index > idx {
					after = append(after, e)
				}
			}
			ents = after
		}
		if len(ents) > 0 {
			first := ents[0].Index
			kept := m.Ents[:0:0]
			for _, e := range m.Ents {
				if e.Index < first {
					kept = append(kept, e)
				}
			}
			m.Ents = append(kept, ents...)
		}
	case "applied":
		m.Applied = op.Index
	case "cfgapplied":
		m.CfgApplied = op.Index
	}
}

// ------------------------------------------------------------ generator ----

func verifC14Payload(rt *rapid.T) []byte {
	var n int
	switch rapid.IntRange(0, 19).Draw(rt, "szClass") {
	case 0, 1:
		n = 0
	case 2, 3, 4:
		n = rapid.IntRange(200, 3000).Draw(rt, "szMid")
	case 5:
		n = rapid.IntRange(5000, 70000).Draw(rt, "szBig")
	default:
		n = rapid.IntRange(1, 48).Draw(rt, "szSmall")
	}
	if n == 0 {
		return nil
	}
	seed := rapid.Byte().Draw(rt, "fill")
	b := make([]byte, n)
	for i := range b {
		b[i] = seed + byte(i*7) + byte(i>>8)
	}
	return b
}

func verifC14GenConfState(rt *rapid.T) raftpb.ConfState {
	c := verifC14Conf{voters: map[uint64]bool{}, learners: map[uint64]bool{}}
	for id := uint64(1); id <= 5; id++ {
		switch rapid.IntRange(0, 3).Draw(rt, "member") {
		case 0, 1:
			c.voters[id] = true
		case 2:
			c.learners[id] = true
		}
	}
	if len(c.voters) == 0 {
		id := uint64(rapid.IntRange(1, 5).Draw(rt, "soleVoter"))
		delete(c.learners, id)
		c.voters[id] = true
	}
	return c.state()
}

// verifC14GenEntries draws n entries starting at index start that continue the
// log of m below start: terms non-decreasing from the predecessor's term up to
// maxTerm, the first term different from avoid (a conflicting overwrite), and
// only membership changes the Raft library accepts.
func verifC14GenEntries(rt *rapid.T, m *verifC14Scope, start uint64, n int, maxTerm uint64, avoid uint64) []raftpb.Entry {
	prev, _ := m.term(start - 1)
	if prev == 0 {
		prev = 1
	}
	if maxTerm < prev {
		maxTerm = prev
	}
	conf := m.confThrough(start - 1)
	t := prev
	out := make([]raftpb.Entry, 0, n)
	for i := 0; i < n; i++ {
		if rapid.IntRange(0, 3).Draw(rt, "termStep") == 0 && t < maxTerm {
			t = uint64(rapid.IntRange(int(t), int(maxTerm)).Draw(rt, "term"))
		}
		if i == 0 && t == avoid {
			if t < maxTerm {
				t++
			} else {
				panic("verif: caller must leave room for a conflicting term")
			}
		}
		e := raftpb.Entry{Index: start + uint64(i), Term: t}
		if rapid.IntRange(0, 4).Draw(rt, "isConf") == 0 {
			typ := rapid.SampledFrom([]raftpb.ConfChangeType{raftpb.ConfChangeAddNode, raftpb.ConfChangeAddNode, raftpb.ConfChangeRemoveNode, raftpb.ConfChangeAddLearnerNode}).Draw(rt, "ccType")
			id := uint64(rapid.IntRange(1, 5).Draw(rt, "ccNode"))
			if conf.would(typ, id) {
				var data []byte
				var err error
				if rapid.Bool().Draw(rt, "ccV2") {
					e.Type = raftpb.EntryConfChangeV2
					data, err = (&raftpb.ConfChangeV2{Changes: []raftpb.ConfChangeSingle{{Type: typ, NodeID: id}}}).Marshal()
				} else {
					e.Type = raftpb.EntryConfChange
					data, err = (&raftpb.ConfChange{Type: typ, NodeID: id}).Marshal()
				}
				if err != nil {
					panic(err)
				}
				e.Data = data
				conf.apply(typ, id)
				out = append(out, e)
				continue
			}
		}
		e.Data = verifC14Payload(rt)
		out = append(out, e)
	}
	return out
}

func verifC14GenHS(rt *rapid.T, m *verifC14Scope, term, minCommit, newLast uint64) *raftpb.HardState {
	hs := m.HS
	if term > hs.Term {
		hs.Term = term
		hs.Vote = uint64(rapid.IntRange(0, 3).Draw(rt, "vote"))
	} else if hs.Vote == 0 && rapid.Bool().Draw(rt, "castVote") {
		hs.Vote = uint64(rapid.IntRange(1, 3).Draw(rt, "vote"))
	}
	lo := hs.Commit
	if minCommit > lo {
		lo = minCommit
	}
	if newLast > lo {
		switch rapid.IntRange(0, 3).Draw(rt, "commitKind") {
		case 0:
		case 1:
			lo = newLast
		default:
			lo = uint64(rapid.IntRange(int(lo), int(newLast)).Draw(rt, "commit"))
		}
	}
	hs.Commit = lo
	return &hs
}

// verifC14GenScopeOp draws one Raft-valid mutation for scope si given its
// reference state (what processReady / compactLogAt / maintenance restore can
// emit — see pkg/slot/multiraft/ready.go, compaction.go).
func verifC14GenScopeOp(rt *rapid.T, m *verifC14Scope, si int, allowBad bool) verifC14Op {
	last, commit, snapIdx := m.last(), m.HS.Commit, m.snapIndex()
	type choice struct {
		name string
		w    int
	}
	var cs []choice
	add := func(name string, w int, ok bool) {
		if ok {
			cs = append(cs, choice{name, w})
		}
	}
	empty := last == 0
	add("bootstrap", 60, empty)
	add("append", 25, true)
	overwriteLo := commit
	if snapIdx > overwriteLo {
		overwriteLo = snapIdx
	}
	overwriteLo++
	add("overwrite", 25, overwriteLo <= last)
	add("hs", 8, true)
	add("install", 5, true)
	compactOK := m.Applied > snapIdx && len(m.confThrough(m.Applied).voters) > 0
	add("compact", 60, compactOK)
	add("resave", 3, snapIdx > 0 && !raft.IsEmptySnap(m.Snap))
	appliedLo := m.Applied + 1
	if snapIdx > appliedLo {
		appliedLo = snapIdx
	}
	add("applied", 50, appliedLo <= commit)
	add("cfgapplied", 4, m.CfgApplied < m.Applied)
	replaceOK := m.Applied > 0 && m.Applied >= snapIdx && len(m.confThrough(m.Applied).voters) > 0
	add("replace", 6, replaceOK)
	add("bad", 4, allowBad)
	total := 0
	for _, c := range cs {
		total += c.w
	}
	pick := rapid.IntRange(0, total-1).Draw(rt, "kind")
	name := ""
	for _, c := range cs {
		if pick < c.w {
			name = c.name
			break
		}
		pick -= c.w
	}

	op := verifC14Op{Kind: "save", Tag: name, Scope: si}
	switch name {
	case "bootstrap":
		// raft bootstrap: one committed AddNode entry per initial peer, term 1
		n := rapid.IntRange(1, 3).Draw(rt, "peers")
		for i := 0; i < n; i++ {
			data, err := (&raftpb.ConfChange{Type: raftpb.ConfChangeAddNode, NodeID: uint64(i + 1)}).Marshal()
			if err != nil {
				panic(err)
			}
			op.Ents = append(op.Ents, raftpb.Entry{Index: uint64(i + 1), Term: 1, Type: raftpb.EntryConfChange, Data: data})
		}
		t := m.HS.Term
		if t < 1 {
			t = 1
		}
		op.HS = &raftpb.HardState{Term: t, Vote: m.HS.Vote, Commit: uint64(n)}
	case "append":
		term := m.HS.Term
		if lt := m.lastTerm(); lt > term {
			term = lt
		}
		if term == 0 || rapid.IntRange(0, 4).Draw(rt, "bumpTerm") == 0 {
			term += uint64(rapid.IntRange(1, 2).Draw(rt, "bump"))
		}
		n := rapid.IntRange(1, 6).Draw(rt, "n")
		op.Ents = verifC14GenEntries(rt, m, last+1, n, term, 0)
		if term != m.HS.Term || rapid.IntRange(0, 2).Draw(rt, "withHS") > 0 {
			op.HS = verifC14GenHS(rt, m, term, 0, last+uint64(n))
		}
	case "overwrite":
		start := uint64(rapid.IntRange(int(overwriteLo), int(last)).Draw(rt, "start"))
		old, _ := m.term(start)
		term := m.HS.Term
		if lt := m.lastTerm(); lt > term {
			term = lt
		}
		term += uint64(rapid.IntRange(1, 2).Draw(rt, "bump"))
		n := rapid.IntRange(1, 5).Draw(rt, "n")
		op.Ents = verifC14GenEntries(rt, m, start, n, term, old)
		op.HS = verifC14GenHS(rt, m, term, 0, start+uint64(n)-1)
	case "hs":
		term := m.HS.Term
		if term == 0 || rapid.IntRange(0, 2).Draw(rt, "bumpTerm") == 0 {
			term++
		}
		op.HS = verifC14GenHS(rt, m, term, 0, last)
	case "install":
		idx := last + uint64(rapid.IntRange(1, 4).Draw(rt, "ahead"))
		lt := m.lastTerm()
		if lt == 0 {
			lt = 1
		}
		hsTerm := m.HS.Term
		if hsTerm < lt {
			hsTerm = lt
		}
		hsTerm += uint64(rapid.IntRange(0, 2).Draw(rt, "bump"))
		sterm := uint64(rapid.IntRange(int(lt), int(hsTerm)).Draw(rt, "snapTerm"))
		op.Snap = &raftpb.Snapshot{Data: verifC14Payload(rt), Metadata: raftpb.SnapshotMetadata{Index: idx, Term: sterm, ConfState: verifC14GenConfState(rt)}}
		newLast := idx
		if rapid.IntRange(0, 5).Draw(rt, "entsAfterSnap") == 0 {
			tmp := &verifC14Scope{Snap: *op.Snap}
			n := rapid.IntRange(1, 3).Draw(rt, "n")
			op.Ents = verifC14GenEntries(rt, tmp, idx+1, n, hsTerm, 0)
			newLast = idx + uint64(n)
		}
		op.HS = verifC14GenHS(rt, m, hsTerm, idx, newLast)
	case "compact":
		idx := m.Applied
		if rapid.IntRange(0, 4).Draw(rt, "belowApplied") == 0 {
			idx = uint64(rapid.IntRange(int(snapIdx)+1, int(m.Applied)).Draw(rt, "idx"))
		}
		if len(m.confThrough(idx).voters) == 0 {
			idx = m.Applied
		}
		t, _ := m.term(idx)
		op.Snap = &raftpb.Snapshot{Data: verifC14Payload(rt), Metadata: raftpb.SnapshotMetadata{Index: idx, Term: t, ConfState: m.confThrough(idx).state()}}
	case "resave":
		// the identical snapshot saved again (compaction retried at the same
		// applied index): accepted, nothing changes
		s := m.Snap
		op.Snap = &s
	case "applied":
		op.Kind = "applied"
		op.Index = commit
		if rapid.Bool().Draw(rt, "partial") {
			op.Index = uint64(rapid.IntRange(int(appliedLo), int(commit)).Draw(rt, "idx"))
		}
	case "cfgapplied":
		op.Kind = "cfgapplied"
		op.Index = uint64(rapid.IntRange(int(m.CfgApplied)+1, int(m.Applied)).Draw(rt, "idx"))
	case "replace":
		op.Kind = "replace"
		idx := m.Applied
		t, _ := m.term(idx)
		op.Snap = &raftpb.Snapshot{Data: append([]byte("restored:"), verifC14Payload(rt)...), Metadata: raftpb.SnapshotMetadata{Index: idx, Term: t, ConfState: m.confThrough(idx).state()}}
	case "bad":
		op.WantErr = true
		switch k := rapid.IntRange(0, 2).Draw(rt, "badKind"); {
		case k == 0 && snapIdx > 1:
			op.Tag = "bad-outofdate"
			op.Snap = &raftpb.Snapshot{Data: []byte("old"), Metadata: raftpb.SnapshotMetadata{Index: snapIdx - 1, Term: m.Snap.Metadata.Term, ConfState: m.Snap.Metadata.ConfState}}
		case k == 1 && snapIdx > 0:
			op.Tag = "bad-sameindex"
			s := m.Snap
			s.Data = append(append([]byte(nil), s.Data...), 'x')
			op.Snap = &s
		default:
			op.Tag = "bad-replaceindex"
			op.Kind = "replace"
			idx := m.Applied + uint64(rapid.IntRange(1, 3).Draw(rt, "off"))
			op.Snap = &raftpb.Snapshot{Data: []byte("nope"), Metadata: raftpb.SnapshotMetadata{Index: idx, Term: 1, ConfState: raftpb.ConfState{Voters: []uint64{1}}}}
		}
	}
	return op
}

func verifC14GenOpen(rt *rapid.T) *verifC14OpenOpts {
	o := &verifC14OpenOpts{}
	o.Chunk = rapid.SampledFrom([]uint64{0, 7, 64, 1000, 4096}).Draw(rt, "chunk")
	switch rapid.IntRange(0, 2).Draw(rt, "batching") {
	case 0:
		o.Items, o.WaitUS = 1, 50
	case 1:
		o.Items, o.WaitUS = 128, 100
	default:
		o.Items, o.WaitUS = 2, 1500
	}
	return o
}

// verifC14World is a set of scopes sharing one database plus their reference
// states.
type verifC14World struct {
	Scopes []Scope
	M      []*verifC14Scope
}

func verifC14NewWorld(rt *rapid.T) *verifC14World {
	pool := []Scope{SlotScope(1), SlotScope(2), ControllerScope(), SlotScope(256), SlotScope(math.MaxUint64)}
	n := rapid.IntRange(2, 3).Draw(rt, "nScopes")
	perm := rapid.Permutation(pool).Draw(rt, "scopes")
	w := &verifC14World{}
	for i := 0; i < n; i++ {
		w.Scopes = append(w.Scopes, perm[i])
		w.M = append(w.M, &verifC14Scope{})
	}
	return w
}

func (w *verifC14World) snapshot() []*verifC14Scope {
	out := make([]*verifC14Scope, len(w.M))
	for i, m := range w.M {
		out[i] = m.clone()
	}
	return out
}

// genOp draws the next history step: a single-scope mutation, a set of
// concurrent mutations on distinct scopes, or a reopen.
func (w *verifC14World) genOp(rt *rapid.T, allowBad bool, reopenPct int, allowFail bool) verifC14Op {
	k := rapid.IntRange(0, 99).Draw(rt, "step")
	switch {
	case k < reopenPct:
		return verifC14Op{Kind: "reopen", Tag: "reopen", Open: verifC14GenOpen(rt)}
	case k < reopenPct+14 && len(w.M) >= 2:
		op := verifC14Op{Kind: "par", Tag: "par"}
		for si, m := range w.M {
			if len(op.Par) >= 2 && rapid.Bool().Draw(rt, "skipScope") {
				continue
			}
			op.Par = append(op.Par, verifC14GenScopeOp(rt, m, si, false))
		}
		return op
	}
	si := rapid.IntRange(0, len(w.M)-1).Draw(rt, "scope")
	op := verifC14GenScopeOp(rt, w.M[si], si, allowBad)
	if allowFail && !op.WantErr && op.Kind != "reopen" && rapid.IntRange(0, 24).Draw(rt, "failCommit") == 0 {
		op.FailCommit = true
	}
	return op
}

func (w *verifC14World) applyModel(op *verifC14Op) {
	switch op.Kind {
	case "reopen":
	case "par":
		for i := range op.Par {
			w.M[op.Par[i].Scope].applyModel(&op.Par[i])
		}
	default:
		w.M[op.Scope].applyModel(op)
	}
}

// ------------------------------------------------------- real execution ----

type verifC14QuietLogger struct{}

func (verifC14QuietLogger) Infof(string, ...interface{})  {}
func (verifC14QuietLogger) Errorf(string, ...interface{}) {}
func (verifC14QuietLogger) Fatalf(f string, a ...interface{}) {
	panic("pebble fatal: " + fmt.Sprintf(f, a...))
}

var verifC14ErrInjected = errors.New("verif: injected commit failure")

func verifC14Open(path string, o *verifC14OpenOpts, gcGrace time.Duration) (*DB, error) {
	opts := Options{SnapshotGCGrace: gcGrace}
	if o != nil {
		opts.SnapshotChunkSize = o.Chunk
		opts.WriteBatchMaxItems = o.Items
		opts.WriteBatchMaxWait = time.Duration(o.WaitUS) * time.Microsecond
	}
	return Open(path, opts)
}

// verifC14ApplyReal issues one single-scope mutation against the store.
func verifC14ApplyReal(db *DB, scopes []Scope, op *verifC14Op) error {
	ctx := context.Background()
	st := db.For(scopes[op.Scope])
	switch op.Kind {
	case "save":
		return st.Save(ctx, multiraft.PersistentState{HardState: op.HS, Entries: op.Ents, Snapshot: op.Snap})
	case "replace":
		return st.(multiraft.ExternalSnapshotStorage).ReplaceSnapshot(ctx, *op.Snap)
	case "applied":
		return st.MarkApplied(ctx, op.Index)
	case "cfgapplied":
		return st.(multiraft.ConfigAppliedIndexStorage).MarkConfigApplied(ctx, op.Index)
	}
	return fmt.Errorf("verif: unknown op kind %q", op.Kind)
}

// verifC14Exec runs one history step (not reopen). It returns an oracle
// violation text ("" = fine): an accepted mutation must succeed, a mutation
// outside the storage contract must be refused.
func verifC14Exec(db *DB, scopes []Scope, op *verifC14Op) string {
	check := func(o *verifC14Op, err error) string {
		switch {
		case o.WantErr && err == nil:
			return fmt.Sprintf("op %v: storage accepted a mutation its contract refuses", *o)
		case !o.WantErr && !o.FailCommit && err != nil:
			return fmt.Sprintf("op %v: unexpected error %v", *o, err)
		case o.FailCommit && !errors.Is(err, verifC14ErrInjected):
			return fmt.Sprintf("op %v: injected commit failure not reported, got %v", *o, err)
		}
		return ""
	}
	if op.Kind == "par" {
		errs := make([]error, len(op.Par))
		var wg sync.WaitGroup
		for i := range op.Par {
			wg.Add(1)
			go func(i int) {
				defer wg.Done()
				errs[i] = verifC14ApplyReal(db, scopes, &op.Par[i])
			}(i)
		}
		wg.Wait()
		for i := range op.Par {
			if s := check(&op.Par[i], errs[i]); s != "" {
				return s
			}
		}
		return ""
	}
	if op.FailCommit {
		db.writeCommitTestHook = func() error { return verifC14ErrInjected }
		err := verifC14ApplyReal(db, scopes, op)
		db.writeCommitTestHook = nil
		return check(op, err)
	}
	return check(op, verifC14ApplyReal(db, scopes, op))
}

// --------------------------------------------------------------- oracle ----

func verifC14ConfEq(a, b raftpb.ConfState) bool {
	eq := func(x, y []uint64) bool {
		if len(x) != len(y) {
			return false
		}
		for i := range x {
			if x[i] != y[i] {
				return false
			}
		}
		return true
	}
	return eq(a.Voters, b.Voters) && eq(a.Learners, b.Learners) && eq(a.VotersOutgoing, b.VotersOutgoing) && eq(a.LearnersNext, b.LearnersNext) && a.AutoLeave == b.AutoLeave
}

func verifC14EntsEq(got, want []raftpb.Entry) string {
	if len(got) != len(want) {
		return fmt.Sprintf("%d entries, want %d (%s vs %s)", len(got), len(want), verifC14EntsStr(got), verifC14EntsStr(want))
	}
	for i := range got {
		g, w := got[i], want[i]
		if g.Index != w.Index || g.Term != w.Term || g.Type != w.Type || !bytes.Equal(g.Data, w.Data) {
			return fmt.Sprintf("entry #%d is %d@%d type %v %dB, want %d@%d type %v %dB", i, g.Index, g.Term, g.Type, len(g.Data), w.Index, w.Term, w.Type, len(w.Data))
		}
	}
	return ""
}

func verifC14EntsStr(es []raftpb.Entry) string {
	var b strings.Builder
	b.WriteByte('[')
	for i, e := range es {
		if i > 0 {
			b.WriteByte(' ')
		}
		fmt.Fprintf(&b, "%d@%d", e.Index, e.Term)
	}
	b.WriteByte(']')
	return b.String()
}

// verifC14Query is a generated Entries(lo,hi,maxSize) read, expressed relative
// to the log so that it stays meaningful for any state.
type verifC14Query struct {
	Lo, Hi uint8
	Size   uint32
}

func verifC14GenQueries(rt *rapid.T, n int) []verifC14Query {
	qs := make([]verifC14Query, n)
	for i := range qs {
		qs[i] = verifC14Query{Lo: rapid.Uint8().Draw(rt, "qLo"), Hi: rapid.Uint8().Draw(rt, "qHi")}
		switch rapid.IntRange(0, 3).Draw(rt, "qSize") {
		case 0:
			qs[i].Size = 0
		case 1:
			qs[i].Size = uint32(rapid.IntRange(1, 64).Draw(rt, "qSmall"))
		default:
			qs[i].Size = uint32(rapid.IntRange(1, 100000).Draw(rt, "qBytes"))
		}
	}
	return qs
}

// verifC14Diff compares every read of the Raft storage surface with the
// reference state. "" means identical.
func verifC14Diff(st multiraft.Storage, m *verifC14Scope, qs []verifC14Query) string {
	ctx := context.Background()
	bs, err := st.InitialState(ctx)
	if err != nil {
		return fmt.Sprintf("InitialState: %v", err)
	}
	if bs.HardState.Term != m.HS.Term || bs.HardState.Vote != m.HS.Vote || bs.HardState.Commit != m.HS.Commit {
		return fmt.Sprintf("HardState %+v, want %+v", bs.HardState, m.HS)
	}
	if want := m.committedConf(); !verifC14ConfEq(bs.ConfState, want) {
		return fmt.Sprintf("ConfState %+v, want %+v", bs.ConfState, want)
	}
	if bs.AppliedIndex != m.Applied {
		return fmt.Sprintf("AppliedIndex %d, want %d", bs.AppliedIndex, m.Applied)
	}
	if bs.ConfigAppliedIndex != m.CfgApplied {
		return fmt.Sprintf("ConfigAppliedIndex %d, want %d", bs.ConfigAppliedIndex, m.CfgApplied)
	}
	first, err := st.FirstIndex(ctx)
	if err != nil {
		return fmt.Sprintf("FirstIndex: %v", err)
	}
	last, err := st.LastIndex(ctx)
	if err != nil {
		return fmt.Sprintf("LastIndex: %v", err)
	}
	if first != m.first() || last != m.last() {
		return fmt.Sprintf("first/last %d/%d, want %d/%d", first, last, m.first(), m.last())
	}
	snap, err := st.Snapshot(ctx)
	if err != nil {
		return fmt.Sprintf("Snapshot: %v", err)
	}
	if snap.Metadata.Index != m.Snap.Metadata.Index || snap.Metadata.Term != m.Snap.Metadata.Term ||
		!verifC14ConfEq(snap.Metadata.ConfState, m.Snap.Metadata.ConfState) || !bytes.Equal(snap.Data, m.Snap.Data) {
		return fmt.Sprintf("Snapshot %d@%d %+v %dB, want %d@%d %+v %dB", snap.Metadata.Index, snap.Metadata.Term, snap.Metadata.ConfState, len(snap.Data),
			m.Snap.Metadata.Index, m.Snap.Metadata.Term, m.Snap.Metadata.ConfState, len(m.Snap.Data))
	}
	// Term of every index around the log: the held term, and never a term for
	// an index the storage does not hold.
	lo := uint64(0)
	if m.first() > 6 {
		lo = m.first() - 6
	}
	for i := lo; i <= m.last()+3; i++ {
		got, err := st.Term(ctx, i)
		want, held := m.term(i)
		switch {
		case held && err != nil:
			return fmt.Sprintf("Term(%d): %v, want %d", i, err, want)
		case held && got != want:
			return fmt.Sprintf("Term(%d)=%d, want %d", i, got, want)
		case !held && err == nil && got != 0:
			return fmt.Sprintf("Term(%d)=%d for an index the storage does not hold (first %d last %d snapshot %d)", i, got, m.first(), m.last(), m.snapIndex())
		}
	}
	// full log
	all, err := st.Entries(ctx, m.first(), m.last()+1, math.MaxUint64)
	if err != nil {
		return fmt.Sprintf("Entries(first,last+1): %v", err)
	}
	if s := verifC14EntsEq(all, m.Ents); s != "" {
		return "Entries(first,last+1): " + s
	}
	// nothing below the compaction point
	if m.first() > 1 {
		below, err := st.Entries(ctx, 1, m.last()+1, math.MaxUint64)
		if err == nil {
			if s := verifC14EntsEq(below, m.Ents); s != "" {
				return fmt.Sprintf("Entries(1,last+1) with first=%d: %s", m.first(), s)
			}
		}
	}
	span := m.last() + 3 - lo
	for _, q := range qs {
		a := lo + uint64(q.Lo)%span
		b := lo + uint64(q.Hi)%span
		if a > b {
			a, b = b, a
		}
		if a == 0 {
			a = 1
		}
		if b <= a {
			b = a + 1
		}
		size := uint64(q.Size)
		got, err := st.Entries(ctx, a, b, size)
		if err != nil {
			if a < m.first() {
				continue // refusing a read below the compaction point is legal
			}
			return fmt.Sprintf("Entries(%d,%d,%d): %v", a, b, size, err)
		}
		var want []raftpb.Entry
		var sum uint64
		for _, e := range m.Ents {
			if e.Index < a || e.Index >= b {
				continue
			}
			if size > 0 && len(want) > 0 && sum+uint64(e.Size()) > size {
				break
			}
			sum += uint64(e.Size())
			want = append(want, e)
		}
		if s := verifC14EntsEq(got, want); s != "" {
			return fmt.Sprintf("Entries(%d,%d,%d): %s", a, b, size, s)
		}
	}
	return ""
}

// ------------------------------------------- etcd MemoryStorage mirror ----

// verifC14Mirror replays accepted mutations into go.etcd.io/raft's
// MemoryStorage the way multiraft's storage adapter does, as a third,
// independent statement of Raft storage semantics for the reference model.
type verifC14Mirror struct{ ms *raft.MemoryStorage }

func (mi *verifC14Mirror) apply(op *verifC14Op) error {
	if op.WantErr || op.FailCommit || (op.Kind != "save" && op.Kind != "replace") {
		return nil
	}
	ents := op.Ents
	if op.Snap != nil {
		idx := op.Snap.Metadata.Index
		last, _ := mi.ms.LastIndex()
		if idx > last {
			if err := mi.ms.ApplySnapshot(*op.Snap); err != nil {
				return err
			}
		} else {
			cs := op.Snap.Metadata.ConfState
			if _, err := mi.ms.CreateSnapshot(idx, &cs, op.Snap.Data); err != nil && !errors.Is(err, raft.ErrSnapOutOfDate) {
				return err
			}
			if err := mi.ms.Compact(idx); err != nil && !errors.Is(err, raft.ErrCompacted) {
				return err
			}
		}
		var after []raftpb.Entry
		for _, e := range ents {
			if e.Index > idx {
				after = append(after, e)
			}
		}
		ents = after
	}
	if len(ents) > 0 {
		return mi.ms.Append(ents)
	}
	return nil
}

func (mi *verifC14Mirror) diff(m *verifC14Scope) string {
	first, _ := mi.ms.FirstIndex()
	last, _ := mi.ms.LastIndex()
	if first != m.first() || last != m.last() {
		return fmt.Sprintf("etcd MemoryStorage first/last %d/%d, model %d/%d", first, last, m.first(), m.last())
	}
	if last >= first {
		ents, err := mi.ms.Entries(first, last+1, math.MaxUint64)
		if err != nil {
			return fmt.Sprintf("etcd MemoryStorage Entries: %v", err)
		}
		if s := verifC14EntsEq(ents, m.Ents); s != "" {
			return "etcd MemoryStorage vs model: " + s
		}
	}
	for i := first - 1; i <= last; i++ {
		t, err := mi.ms.Term(i)
		want, held := m.term(i)
		if i == 0 && !held {
			continue
		}
		if err != nil || !held || t != want {
			return fmt.Sprintf("etcd MemoryStorage Term(%d)=%d,%v model %d,%v", i, t, err, want, held)
		}
	}
	return ""
}

// ---------------------------------------------------- open-store check ----

// TestVerifC14Model: random Raft-valid histories over several scopes sharing
// one database (with clean reopen, concurrent saves from different scopes and
// injected commit failures); after every step each scope's six reads must
// equal the reference model, raftlog's own memory storage and etcd's
// MemoryStorage.
func TestVerifC14Model(t *testing.T) {
	maxOps := kit.Scale("C14_OPS", 45, 90)
	kit.Check(t, "C14", func(rt *rapid.T, k *kit.Case) {
		dir, clean := kit.TempDir()
		defer clean()
		onDisk := rapid.IntRange(0, 9).Draw(rt, "realFS") == 0
		var mem vfs.FS
		if !onDisk {
			mem = vfs.NewMem()
		}
		VerifPebbleOptions = func(o *pebble.Options) {
			o.Logger = verifC14QuietLogger{}
			if mem != nil {
				o.FS = mem
			}
		}
		defer func() { VerifPebbleOptions = nil }()

		w := verifC14NewWorld(rt)
		path := filepath.Join(dir, "raft")
		db, err := verifC14Open(path, verifC14GenOpen(rt), 0)
		if err != nil {
			rt.Fatalf("open: %v", err)
		}
		defer func() {
			if db != nil {
				_ = db.Close()
			}
		}()
		refs := make([]multiraft.Storage, len(w.M))
		mirrors := make([]*verifC14Mirror, len(w.M))
		for i := range refs {
			refs[i] = NewMemory()
			mirrors[i] = &verifC14Mirror{ms: raft.NewMemoryStorage()}
		}
		applyRefs := func(op *verifC14Op) {
			if op.WantErr || op.FailCommit {
				return
			}
			ctx := context.Background()
			var err error
			switch op.Kind {
			case "save":
				err = refs[op.Scope].Save(ctx, multiraft.PersistentState{HardState: op.HS, Entries: op.Ents, Snapshot: op.Snap})
			case "replace":
				err = refs[op.Scope].Save(ctx, multiraft.PersistentState{Snapshot: op.Snap})
			case "applied":
				err = refs[op.Scope].MarkApplied(ctx, op.Index)
			case "cfgapplied":
				err = refs[op.Scope].(multiraft.ConfigAppliedIndexStorage).MarkConfigApplied(ctx, op.Index)
			}
			if err != nil {
				rt.Fatalf("memory reference: %v: %v", *op, err)
			}
			if err := mirrors[op.Scope].apply(op); err != nil {
				rt.Fatalf("etcd MemoryStorage mirror: %v: %v", *op, err)
			}
		}

		n := maxOps - rapid.IntRange(0, maxOps-3).Draw(rt, "nOpsBelowMax") // rapid favours small draws: favour long histories
		var sawOverwrite, sawCompact, sawReopenAfter, sawPar, sawFail, sawBad, sawInstall, sawReplace bool
		var trace []string
		for i := 0; i < n; i++ {
			op := w.genOp(rt, true, 8, true)
			trace = append(trace, op.String())
			k.Key(op.String())
			if op.Kind == "reopen" {
				if err := db.Close(); err != nil {
					rt.Fatalf("close: %v", err)
				}
				db, err = verifC14Open(path, op.Open, 0)
				if err != nil {
					db = nil
					rt.Fatalf("reopen: %v", err)
				}
				if sawOverwrite && sawCompact {
					sawReopenAfter = true
				}
			} else {
				if s := verifC14Exec(db, w.Scopes, &op); s != "" {
					rt.Fatalf("%s\nhistory:\n%s", s, strings.Join(trace, "\n"))
				}
				w.applyModel(&op)
				subs := []verifC14Op{op}
				if op.Kind == "par" {
					subs = op.Par
					sawPar = true
				}
				for j := range subs {
					applyRefs(&subs[j])
					switch subs[j].Tag {
					case "overwrite":
						sawOverwrite = true
					case "compact":
						sawCompact = true
					case "install":
						sawInstall = true
					case "replace":
						sawReplace = true
					}
					sawFail = sawFail || subs[j].FailCommit
					sawBad = sawBad || subs[j].WantErr
				}
			}
			qs := verifC14GenQueries(rt, 3)
			for si, m := range w.M {
				if s := verifC14Diff(db.For(w.Scopes[si]), m, qs); s != "" {
					rt.Fatalf("scope %v after step %d (%s): durable log differs from the reference model: %s\nhistory:\n%s", w.Scopes[si], i, op.String(), s, strings.Join(trace, "\n"))
				}
				if s := verifC14Diff(refs[si], m, qs); s != "" {
					rt.Fatalf("scope %v after step %d: raftlog.NewMemory differs from the reference model: %s\nhistory:\n%s", w.Scopes[si], i, s, strings.Join(trace, "\n"))
				}
				if s := mirrors[si].diff(m); s != "" {
					rt.Fatalf("scope %v after step %d: %s\nhistory:\n%s", w.Scopes[si], i, s, strings.Join(trace, "\n"))
				}
			}
		}
		k.SetNonTrivial(sawReopenAfter)
		k.LabelIf(sawOverwrite, "model: conflicting-suffix overwrite")
		k.LabelIf(sawCompact, "model: compaction")
		k.LabelIf(sawInstall, "model: snapshot install ahead of log")
		k.LabelIf(sawReplace, "model: ReplaceSnapshot")
		k.LabelIf(sawReopenAfter, "model: reopen after overwrite+compaction")
		k.LabelIf(sawPar, "model: concurrent saves from different scopes")
		k.LabelIf(sawFail, "model: injected commit failure")
		k.LabelIf(sawBad, "model: refused mutation")
		k.LabelIf(onDisk, "model: real file system")
		k.Sample(func() any { return strings.Join(trace, " ; ") })
	})
}
