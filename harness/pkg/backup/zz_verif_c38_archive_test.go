package backup

// C38 — backup archives are self-verifying.
//
// TestVerifC38Archive: a generated full-backup archive (256 Hash Slots, a few
// of them "rich": multi-part metadata stream, 0–3 message streams, legacy or
// attempt keys, message indexes) is written to an in-memory ArchiveStore the
// way the exporter/publisher write it. It must verify and reproduce its
// manifests and logical streams. Then generated single mutations of the
// stored objects are applied to a copy of the store and verification must
// fail for every one of them.

import (
	"bytes"
	"context"
	"crypto/sha256"
	"encoding/hex"
	"encoding/json"
	"errors"
	"fmt"
	"io"
	"reflect"
	"sort"
	"strings"
	"testing"
	"time"

	"github.com/klauspost/compress/zstd"
	"pgregory.net/rapid"
	"verif.local/kit"
)

// ---------------------------------------------------------------- store ----

type verifC38Store struct {
	objects map[string][]byte
	lie     map[string]uint64 // reported size override
	endless map[string]*verifC38Endless
}

func verifC38NewStore() *verifC38Store {
	return &verifC38Store{objects: map[string][]byte{}, lie: map[string]uint64{}, endless: map[string]*verifC38Endless{}}
}

func (s *verifC38Store) clone() *verifC38Store {
	c := verifC38NewStore()
	for k, v := range s.objects {
		c.objects[k] = v // values are never modified in place
	}
	for k, v := range s.lie {
		c.lie[k] = v
	}
	return c
}

func (s *verifC38Store) Put(ctx context.Context, o PutObject) error {
	if err := ctx.Err(); err != nil {
		return err
	}
	if o.Body == nil {
		return fmt.Errorf("%w: body required", ErrInvalidObject)
	}
	if err := validateRepositoryKey(o.Key); err != nil {
		return fmt.Errorf("%w: %v", ErrInvalidObject, err)
	}
	body, err := io.ReadAll(io.LimitReader(o.Body, int64(o.ExpectedBytes)+1))
	if err != nil {
		return err
	}
	if uint64(len(body)) != o.ExpectedBytes {
		return fmt.Errorf("%w: object %q bytes %d expected %d", ErrInvalidObject, o.Key, len(body), o.ExpectedBytes)
	}
	if _, ok := s.objects[o.Key]; ok && o.IfAbsent {
		return ErrObjectExists
	}
	s.objects[o.Key] = body
	return nil
}

func (s *verifC38Store) Open(ctx context.Context, key string) (io.ReadCloser, ArchiveObject, error) {
	if err := ctx.Err(); err != nil {
		return nil, ArchiveObject{}, err
	}
	if e, ok := s.endless[key]; ok {
		return io.NopCloser(e), ArchiveObject{Key: key, Bytes: e.reported, Modified: time.Unix(1_800_000_000, 0).UTC()}, nil
	}
	b, ok := s.objects[key]
	if !ok {
		return nil, ArchiveObject{}, ErrObjectNotFound
	}
	size := uint64(len(b))
	if l, ok := s.lie[key]; ok {
		size = l
	}
	return io.NopCloser(bytes.NewReader(b)), ArchiveObject{Key: key, Bytes: size, Modified: time.Unix(1_800_000_000, 0).UTC()}, nil
}

func (s *verifC38Store) List(ctx context.Context, prefix string) ([]ArchiveObject, error) {
	keys := make([]string, 0)
	for k := range s.objects {
		if strings.HasPrefix(k, prefix) {
			keys = append(keys, k)
		}
	}
	sort.Strings(keys)
	out := make([]ArchiveObject, 0, len(keys))
	for _, k := range keys {
		out = append(out, ArchiveObject{Key: k, Bytes: uint64(len(s.objects[k]))})
	}
	return out, nil
}

func (s *verifC38Store) Delete(ctx context.Context, key string) error {
	delete(s.objects, key)
	return nil
}

func (s *verifC38Store) DeletePrefix(ctx context.Context, prefix string) error {
	for k := range s.objects {
		if strings.HasPrefix(k, prefix) {
			delete(s.objects, k)
		}
	}
	return nil
}

// verifC38Endless is an object body that never ends by itself; it records how
// many bytes a consumer pulled and refuses to go past hardStop.
type verifC38Endless struct {
	reported uint64
	prefix   []byte
	read     uint64
	hardStop uint64
	overread bool
}

var verifC38Spaces = bytes.Repeat([]byte(" "), 64<<10)

func (e *verifC38Endless) Read(p []byte) (int, error) {
	if e.read >= e.hardStop {
		e.overread = true
		return 0, errors.New("verif: consumer read past every documented bound")
	}
	n := len(p)
	if rem := e.hardStop - e.read; uint64(n) > rem {
		n = int(rem)
	}
	done := 0
	if e.read < uint64(len(e.prefix)) {
		done = copy(p[:n], e.prefix[e.read:])
	}
	for done < n {
		done += copy(p[done:n], verifC38Spaces)
	}
	e.read += uint64(n)
	return n, nil
}

// -------------------------------------------------------------- builder ----

type verifC38Chunk struct {
	fullKey string
	logical []byte
	stored  []byte
	rich    bool
}

type verifC38Index struct {
	relKey   string
	sha      string
	manifest MessageChunkManifest
}

type verifC38Slot struct {
	hashSlot    uint16
	rich        bool
	manifestKey string // relative to the backup root
	manifest    SlotManifest
	body        []byte
	chunks      []verifC38Chunk // same order as manifest.Chunks
	indexes     []verifC38Index
}

type verifC38Archive struct {
	id           string
	root         string
	store        *verifC38Store
	manifest     ArchiveManifest
	manifestBody []byte
	complete     CompleteMarker
	completeBody []byte
	slots        []verifC38Slot
	richSlots    []int
	enc          map[string]verifC38Encoded
	variants     map[string]*verifC38VariantCache // per stored chunk body, see zz_verif_c38_chunk_test.go
	desc         string
}

type verifC38Encoded struct {
	stored []byte
	desc   ChunkDescriptor
}

func verifC38SHA(b []byte) string {
	sum := sha256.Sum256(b)
	return hex.EncodeToString(sum[:])
}

func (a *verifC38Archive) encode(rt *rapid.T, logical []byte) verifC38Encoded {
	if e, ok := a.enc[string(logical)]; ok {
		return e
	}
	var buf bytes.Buffer
	d, err := EncodeChunk(&buf, bytes.NewReader(logical))
	if err != nil {
		rt.Fatalf("EncodeChunk(%d bytes): %v", len(logical), err)
	}
	if d.LogicalBytes != uint64(len(logical)) || d.StoredBytes != uint64(buf.Len()) ||
		d.LogicalSHA256 != verifC38SHA(logical) || d.StoredSHA256 != verifC38SHA(buf.Bytes()) || d.Compression != CompressionZstd {
		rt.Fatalf("EncodeChunk descriptor %+v does not describe logical=%d stored=%d", d, len(logical), buf.Len())
	}
	e := verifC38Encoded{stored: append([]byte(nil), buf.Bytes()...), desc: d}
	a.enc[string(logical)] = e
	return e
}

func verifC38Identity() *rapid.Generator[string] {
	return rapid.Custom(func(t *rapid.T) string {
		switch rapid.IntRange(0, 3).Draw(t, "idKind") {
		case 0:
			return rapid.SampledFrom([]string{"bk_20260729_010000_01", "a", "backup-1", "B.k_9", "z-.x"}).Draw(t, "idFixed")
		default:
			first := rapid.StringMatching(`[a-zA-Z0-9_\-]`).Draw(t, "idFirst")
			rest := rapid.StringMatching(`[a-zA-Z0-9_\-]{0,12}(\.[a-zA-Z0-9_\-]{1,6}){0,2}`).Draw(t, "idRest")
			return first + rest
		}
	})
}

// verifC38Payload draws a logical stream. Mostly small, sometimes larger than
// one zstd block so that multi-block frames occur.
func verifC38Payload(t *rapid.T, label string) []byte {
	switch rapid.IntRange(0, 11).Draw(t, label+"Kind") {
	case 0:
		return []byte{}
	case 1:
		n := rapid.IntRange(130_000, 300_000).Draw(t, label+"Big")
		seed := rapid.SliceOfN(rapid.Byte(), 1, 6).Draw(t, label+"BigSeed")
		b := make([]byte, n)
		x := uint32(seed[0]) + 1
		for i := range b {
			if i%7 == 0 {
				x = x*1664525 + 1013904223
			}
			b[i] = seed[i%len(seed)] ^ byte(x>>24)
		}
		return b
	case 2, 3:
		return kit.Bytes(4096).Draw(t, label+"Raw")
	default:
		return rapid.SliceOfN(rapid.Byte(), 1, 48).Draw(t, label+"Small")
	}
}

// verifC38Split cuts b into 1..maxParts parts (every part may be empty only
// when b itself is empty; the writer never emits an empty non-final part).
func verifC38Split(t *rapid.T, b []byte, maxParts int, label string) [][]byte {
	parts := 1
	if len(b) >= 2 {
		parts = rapid.IntRange(1, maxParts).Draw(t, label+"Parts")
		if parts > len(b) {
			parts = len(b)
		}
	}
	out := make([][]byte, 0, parts)
	rest := b
	for i := parts; i > 1; i-- {
		cut := rapid.IntRange(1, len(rest)-(i-1)).Draw(t, label+"Cut")
		out = append(out, rest[:cut])
		rest = rest[cut:]
	}
	return append(out, rest)
}

func verifC38Cut(t *rapid.T, label string, lo, hi int64) SlotCut {
	return SlotCut{
		PhysicalSlotID:       uint32(rapid.IntRange(1, 64).Draw(t, label+"Phys")),
		LeaderTerm:           1 + kit.Uint64Edge().Draw(t, label+"LT")%(1<<62),
		AppliedTerm:          1 + kit.Uint64Edge().Draw(t, label+"AT")%(1<<62),
		ConfigurationVersion: uint64(rapid.IntRange(1, 1000).Draw(t, label+"CV")),
		AppliedIndex:         1 + kit.Uint64Edge().Draw(t, label+"AI")%(1<<62),
		CapturedAtUnixMillis: rapid.Int64Range(lo, hi).Draw(t, label+"Cap"),
	}
}

func verifC38ChunkKey(hashSlot uint16, attempt string, kind ChunkKind, seq uint32) string {
	name := "meta"
	if kind == ChunkKindMessages {
		name = "messages"
	}
	if attempt == "" {
		return fmt.Sprintf("slots/%03d/%s-%06d.zst", hashSlot, name, seq)
	}
	return fmt.Sprintf("slots/%03d/attempts/%s/%s-%06d.zst", hashSlot, attempt, name, seq)
}

func verifC38Build(rt *rapid.T) *verifC38Archive {
	a := &verifC38Archive{store: verifC38NewStore(), enc: map[string]verifC38Encoded{}}
	a.id = verifC38Identity().Draw(rt, "backupID")
	a.root = "backups/" + a.id + "/"
	started := rapid.Int64Range(1, 1<<41).Draw(rt, "started")
	span := rapid.Int64Range(0, 100_000).Draw(rt, "span")
	completed := started + span

	// plain slots share a few small metadata payloads
	nPlain := rapid.IntRange(1, 3).Draw(rt, "plainPool")
	plainPool := make([][]byte, nPlain)
	for i := range plainPool {
		plainPool[i] = append([]byte(fmt.Sprintf("meta-%d-", i)), rapid.SliceOfN(rapid.Byte(), 0, 24).Draw(rt, "plainPayload")...)
	}
	plainAttempt := rapid.SampledFrom([]string{"", "00000001", "a7"}).Draw(rt, "plainAttempt")
	plainManifestInAttempt := plainAttempt != "" && rapid.Bool().Draw(rt, "plainManifestInAttempt")
	plainCut := verifC38Cut(rt, "plainCut", started, completed)

	nRich := rapid.IntRange(1, 4).Draw(rt, "nRich")
	rich := map[int]bool{}
	for i := 0; i < nRich; i++ {
		var hs int
		switch rapid.IntRange(0, 3).Draw(rt, "richPick") {
		case 0:
			hs = 0
		case 1:
			hs = 255
		default:
			hs = rapid.IntRange(0, 255).Draw(rt, "richSlot")
		}
		rich[hs] = true
	}

	a.slots = make([]verifC38Slot, DefaultHashSlotCount)
	refs := make([]SlotReference, DefaultHashSlotCount)
	var cutLo, cutHi int64
	for hs := 0; hs < DefaultHashSlotCount; hs++ {
		slot := verifC38Slot{hashSlot: uint16(hs), rich: rich[hs]}
		m := SlotManifest{Format: SlotManifestFormat, Version: SlotManifestVersion, HashSlot: uint16(hs), Chunks: []ChunkReference{}}
		attempt := plainAttempt
		manifestInAttempt := plainManifestInAttempt
		type stream struct {
			kind    ChunkKind
			parts   [][]byte
			records uint64
			maxID   uint64
			metaOn  int // part index that carries records/max id
		}
		var streams []stream
		if slot.rich {
			lbl := fmt.Sprintf("s%d", hs)
			attempt = rapid.SampledFrom([]string{"", "00000001", "0000002a", "x.y_z-1"}).Draw(rt, lbl+"attempt")
			manifestInAttempt = attempt != "" && rapid.Bool().Draw(rt, lbl+"manifestInAttempt")
			m.Cut = verifC38Cut(rt, lbl+"cut", started, completed)
			meta := verifC38Payload(rt, lbl+"meta")
			streams = append(streams, stream{kind: ChunkKindMetadata, parts: verifC38Split(rt, meta, 3, lbl+"meta"),
				records: uint64(rapid.IntRange(0, 1000).Draw(rt, lbl+"metaRecords"))})
			nMsg := rapid.IntRange(0, 3).Draw(rt, lbl+"nMsg")
			for j := 0; j < nMsg; j++ {
				l2 := fmt.Sprintf("%sm%d", lbl, j)
				p := verifC38Payload(rt, l2)
				st := stream{kind: ChunkKindMessages, parts: verifC38Split(rt, p, 3, l2),
					records: uint64(rapid.IntRange(0, 1000).Draw(rt, l2+"Records")),
					maxID:   kit.Uint64Edge().Draw(rt, l2+"MaxID")}
				if len(st.parts) > 1 && rapid.IntRange(0, 4).Draw(rt, l2+"MetaOnLater") == 0 {
					st.metaOn = len(st.parts) - 1
				}
				streams = append(streams, st)
			}
		} else {
			m.Cut = plainCut
			m.Cut.CapturedAtUnixMillis = started + (int64(hs)*7919)%(span+1)
			streams = append(streams, stream{kind: ChunkKindMetadata, parts: [][]byte{plainPool[hs%nPlain]}, records: uint64(hs % 3)})
		}
		if hs == 0 || m.Cut.CapturedAtUnixMillis < cutLo {
			cutLo = m.Cut.CapturedAtUnixMillis
		}
		if m.Cut.CapturedAtUnixMillis > cutHi {
			cutHi = m.Cut.CapturedAtUnixMillis
		}
		nextSeq := map[ChunkKind]uint32{ChunkKindMetadata: 1, ChunkKindMessages: 1}
		nextStream := map[ChunkKind]uint32{ChunkKindMetadata: 0, ChunkKindMessages: 1}
		for _, st := range streams {
			first := len(m.Chunks)
			for pi, part := range st.parts {
				e := a.encode(rt, part)
				ref := ChunkReference{Kind: st.kind, Sequence: nextSeq[st.kind], Stream: nextStream[st.kind],
					Part: uint32(pi + 1), Final: pi == len(st.parts)-1,
					Key: verifC38ChunkKey(uint16(hs), attempt, st.kind, nextSeq[st.kind]), Descriptor: e.desc}
				if pi == st.metaOn {
					ref.Records = st.records
					if st.kind == ChunkKindMessages {
						ref.MaxMessageID = st.maxID
					}
				}
				nextSeq[st.kind]++
				m.Chunks = append(m.Chunks, ref)
				slot.chunks = append(slot.chunks, verifC38Chunk{fullKey: a.root + ref.Key, logical: part, stored: e.stored, rich: slot.rich})
				a.store.objects[a.root+ref.Key] = e.stored
			}
			nextStream[st.kind]++
			if st.kind == ChunkKindMessages && slot.rich {
				// the remote producer's bounded stream index
				idx, err := NewMessageChunkManifest(uint16(hs), m.Chunks[first:])
				if err != nil {
					rt.Fatalf("NewMessageChunkManifest: %v", err)
				}
				body, err := MarshalMessageChunkManifest(idx)
				if err != nil {
					rt.Fatalf("MarshalMessageChunkManifest: %v", err)
				}
				dir := fmt.Sprintf("slots/%03d", hs)
				if attempt != "" {
					dir += "/attempts/" + attempt
				}
				relKey := fmt.Sprintf("%s/message-index-%d.json", dir, m.Chunks[first].Stream)
				a.store.objects[a.root+relKey] = body
				slot.indexes = append(slot.indexes, verifC38Index{relKey: relKey, sha: verifC38SHA(body), manifest: idx})
			}
		}
		for _, c := range m.Chunks {
			m.LogicalBytes += c.Descriptor.LogicalBytes
			m.StoredBytes += c.Descriptor.StoredBytes
			m.Records += c.Records
			if c.MaxMessageID > m.MaxMessageID {
				m.MaxMessageID = c.MaxMessageID
			}
		}
		body, err := MarshalSlotManifest(m)
		if err != nil {
			rt.Fatalf("MarshalSlotManifest(slot %d): %v\n%+v", hs, err, m)
		}
		slot.manifestKey = fmt.Sprintf("slots/%03d/manifest.json", hs)
		if manifestInAttempt {
			slot.manifestKey = fmt.Sprintf("slots/%03d/attempts/%s/manifest.json", hs, attempt)
		}
		slot.manifest, slot.body = m, body
		a.store.objects[a.root+slot.manifestKey] = body
		refs[hs] = SlotReference{HashSlot: uint16(hs), ManifestKey: slot.manifestKey, ManifestSHA256: verifC38SHA(body),
			LogicalBytes: m.LogicalBytes, StoredBytes: m.StoredBytes, Records: m.Records, MaxMessageID: m.MaxMessageID}
		a.slots[hs] = slot
		if slot.rich {
			a.richSlots = append(a.richSlots, hs)
		}
	}
	top := ArchiveManifest{
		Format: ArchiveFormat, Version: ArchiveVersion, ID: a.id,
		Trigger:           rapid.SampledFrom([]Trigger{TriggerInitial, TriggerScheduled, TriggerManual}).Draw(rt, "trigger"),
		SourceClusterID:   verifC38Identity().Draw(rt, "clusterID"),
		SourceApplication: rapid.StringMatching(`[ -~]{1,20}`).Draw(rt, "app"),
		HashSlotCount:     DefaultHashSlotCount, StartedAtUnixMillis: started, CompletedAtUnixMillis: completed,
		CutStartedUnixMillis: cutLo, CutEndedUnixMillis: cutHi,
		Compression: CompressionZstd, Checksum: ChecksumSHA256, Slots: refs,
	}
	verifC38Totals(&top)
	body, err := MarshalArchiveManifest(top)
	if err != nil {
		rt.Fatalf("MarshalArchiveManifest: %v", err)
	}
	a.manifest, a.manifestBody = top, body
	a.store.objects[a.root+"manifest.json"] = body
	marker, err := NewCompleteMarker(body)
	if err != nil {
		rt.Fatalf("NewCompleteMarker: %v", err)
	}
	mb, err := MarshalCompleteMarker(marker)
	if err != nil {
		rt.Fatalf("MarshalCompleteMarker: %v", err)
	}
	a.complete, a.completeBody = marker, mb
	a.store.objects[a.root+"COMPLETE"] = mb
	a.store.objects["catalog/"+a.id] = mb
	var sb strings.Builder
	fmt.Fprintf(&sb, "id=%q objects=%d rich=", a.id, len(a.store.objects))
	for _, hs := range a.richSlots {
		fmt.Fprintf(&sb, "[slot %d key=%s chunks=", hs, a.slots[hs].manifestKey)
		for _, c := range a.slots[hs].manifest.Chunks {
			fmt.Fprintf(&sb, "%s%d.%d/%dB ", map[ChunkKind]string{ChunkKindMetadata: "meta", ChunkKindMessages: "msg"}[c.Kind], c.Stream, c.Part, c.Descriptor.LogicalBytes)
		}
		sb.WriteString("]")
	}
	a.desc = sb.String()
	return a
}

// verifC38Totals recomputes the top-level aggregates the way PublishArchive does.
func verifC38Totals(m *ArchiveManifest) {
	m.LogicalBytes, m.StoredBytes, m.Records, m.MaxMessageID = 0, 0, 0, 0
	for _, r := range m.Slots {
		m.LogicalBytes += r.LogicalBytes
		m.StoredBytes += r.StoredBytes
		m.Records += r.Records
		if r.MaxMessageID > m.MaxMessageID {
			m.MaxMessageID = r.MaxMessageID
		}
	}
}

func verifC38SlotTotals(m *SlotManifest) {
	m.LogicalBytes, m.StoredBytes, m.Records, m.MaxMessageID = 0, 0, 0, 0
	for _, c := range m.Chunks {
		m.LogicalBytes += c.Descriptor.LogicalBytes
		m.StoredBytes += c.Descriptor.StoredBytes
		m.Records += c.Records
		if c.MaxMessageID > m.MaxMessageID {
			m.MaxMessageID = c.MaxMessageID
		}
	}
}

// ------------------------------------------------------- positive oracle ----

func verifC38CheckIntact(rt *rapid.T, a *verifC38Archive) {
	ctx := context.Background()
	got, err := VerifyPublishedArchive(ctx, a.store, a.id)
	if err != nil {
		rt.Fatalf("intact archive does not verify: %v\n%s", err, a.desc)
	}
	if !reflect.DeepEqual(got, a.manifest) {
		rt.Fatalf("VerifyPublishedArchive returned a manifest different from the published one:\n got %+v\nwant %+v", got, a.manifest)
	}
	again, err := MarshalArchiveManifest(got)
	if err != nil || !bytes.Equal(again, a.manifestBody) {
		rt.Fatalf("returned manifest does not reproduce the stored bytes (err=%v)", err)
	}
	meta, err := LoadPublishedArchiveMetadata(ctx, a.store, a.id)
	if err != nil || !reflect.DeepEqual(meta, a.manifest) {
		rt.Fatalf("LoadPublishedArchiveMetadata: err=%v equal=%v", err, reflect.DeepEqual(meta, a.manifest))
	}
	marker, err := LoadCompleteMarker(a.completeBody, a.manifestBody)
	if err != nil || marker != a.complete {
		rt.Fatalf("LoadCompleteMarker: err=%v marker=%+v want %+v", err, marker, a.complete)
	}
	check := append([]int(nil), a.richSlots...)
	check = append(check, (a.richSlots[0]+1)%DefaultHashSlotCount)
	for _, hs := range check {
		s := a.slots[hs]
		ref, m, err := LoadStoredSlotReference(ctx, a.store, a.id, a.manifest.Slots[hs], true)
		if err != nil {
			rt.Fatalf("LoadStoredSlotReference(slot %d): %v", hs, err)
		}
		if ref != a.manifest.Slots[hs] || !reflect.DeepEqual(m, s.manifest) {
			rt.Fatalf("slot %d: loaded reference/manifest differ from the stored ones:\n got %+v\nwant %+v", hs, m, s.manifest)
		}
		again, err := MarshalSlotManifest(m)
		if err != nil || !bytes.Equal(again, s.body) {
			rt.Fatalf("slot %d manifest does not reproduce the stored bytes (err=%v)", hs, err)
		}
		for i, c := range s.chunks {
			var out bytes.Buffer
			if err := DecodeChunk(&out, bytes.NewReader(a.store.objects[c.fullKey]), m.Chunks[i].Descriptor); err != nil {
				rt.Fatalf("slot %d chunk %d: DecodeChunk: %v", hs, i, err)
			}
			if !bytes.Equal(out.Bytes(), c.logical) {
				rt.Fatalf("slot %d chunk %d: decoded %d bytes differ from the logical part (%d bytes)", hs, i, out.Len(), len(c.logical))
			}
		}
		for _, idx := range s.indexes {
			got, err := LoadStoredMessageChunkManifest(ctx, a.store, a.id, idx.relKey, idx.sha)
			if err != nil || !reflect.DeepEqual(got, idx.manifest) {
				rt.Fatalf("slot %d message index %s: err=%v", hs, idx.relKey, err)
			}
		}
		if s.manifestKey == fmt.Sprintf("slots/%03d/manifest.json", hs) {
			ref2, m2, err := LoadStoredSlot(ctx, a.store, a.id, uint16(hs), true)
			if err != nil || ref2 != ref || !reflect.DeepEqual(m2, m) {
				rt.Fatalf("LoadStoredSlot(slot %d): err=%v", hs, err)
			}
		}
	}
}

// ------------------------------------------------------------ mutations ----

type verifC38Mut struct {
	class  string // label
	target string // object class touched: top|complete|slot|chunk|marker
	desc   string
	nt     bool
	// identical: the changed chunk object still expands to the same logical
	// bytes under a plain zstd decoder (only the stored digest can see it)
	identical bool
}

func verifC38JSON(v any) []byte {
	b, err := json.Marshal(v)
	if err != nil {
		panic(err)
	}
	return b
}

func verifC38HexFlip(t *rapid.T, s string, label string) string {
	pos := rapid.IntRange(0, len(s)-1).Draw(t, label+"Pos")
	const hexd = "0123456789abcdef"
	c := hexd[rapid.IntRange(0, 15).Draw(t, label+"Hex")]
	if c == s[pos] {
		c = hexd[(strings.IndexByte(hexd, c)+1)%16]
	}
	return s[:pos] + string(c) + s[pos+1:]
}

func verifC38CopySlotManifest(m SlotManifest) SlotManifest {
	m.Chunks = append([]ChunkReference(nil), m.Chunks...)
	return m
}

func verifC38CopyTop(m ArchiveManifest) ArchiveManifest {
	m.Slots = append([]SlotReference(nil), m.Slots...)
	return m
}

// rebind rewrites the parent objects after a slot manifest body changed:
// level 1 = top-level manifest (reference + totals), level 2 = also COMPLETE.
func (a *verifC38Archive) rebindSlot(st *verifC38Store, level int, hs int, m SlotManifest, body []byte) {
	if level < 1 {
		return
	}
	top := verifC38CopyTop(a.manifest)
	top.Slots[hs] = SlotReference{HashSlot: uint16(hs), ManifestKey: a.slots[hs].manifestKey, ManifestSHA256: verifC38SHA(body),
		LogicalBytes: m.LogicalBytes, StoredBytes: m.StoredBytes, Records: m.Records, MaxMessageID: m.MaxMessageID}
	verifC38Totals(&top)
	a.putTop(st, level, top)
}

func (a *verifC38Archive) putTop(st *verifC38Store, level int, top ArchiveManifest) {
	body := verifC38JSON(top)
	st.objects[a.root+"manifest.json"] = body
	if level >= 2 {
		st.objects[a.root+"COMPLETE"] = verifC38JSON(CompleteMarker{Format: CompleteMarkerFormat, Version: CompleteMarkerVersion,
			ManifestSHA256: verifC38SHA(body), ManifestBytes: uint64(len(body))})
	}
}

func (a *verifC38Archive) pickSlot(t *rapid.T) int {
	if rapid.IntRange(0, 3).Draw(t, "slotRich") > 0 {
		return rapid.SampledFrom(a.richSlots).Draw(t, "slotPickRich")
	}
	return rapid.IntRange(0, DefaultHashSlotCount-1).Draw(t, "slotPick")
}

// referenced returns the full key of one object the archive references.
func (a *verifC38Archive) pickObject(t *rapid.T) (key string, target string) {
	switch rapid.IntRange(0, 9).Draw(t, "objClass") {
	case 0:
		return a.root + "manifest.json", "top"
	case 1:
		return a.root + "COMPLETE", "complete"
	case 2, 3, 4:
		hs := a.pickSlot(t)
		return a.root + a.slots[hs].manifestKey, "slot"
	default:
		hs := a.pickSlot(t)
		cs := a.slots[hs].chunks
		return cs[rapid.IntRange(0, len(cs)-1).Draw(t, "chunkPick")].fullKey, "chunk"
	}
}

// verifC38Recompress returns another valid zstd encoding of logical.
func verifC38Recompress(logical []byte) []byte {
	w, err := zstd.NewWriter(nil, zstd.WithEncoderLevel(zstd.SpeedFastest), zstd.WithEncoderConcurrency(1), zstd.WithLowerEncoderMem(true))
	if err != nil {
		panic(err)
	}
	defer w.Close()
	return w.EncodeAll(logical, nil)
}

// verifC38Mutate applies one generated mutation to st (a private copy of the
// intact store). ok=false means the drawn mutation is not applicable to this
// archive (nothing was changed).
func verifC38Mutate(t *rapid.T, a *verifC38Archive, st *verifC38Store) (mut verifC38Mut, ok bool) {
	kind := rapid.SampledFrom([]string{
		"slot-edit", "top-edit", "bytes", "slot-edit", "delete", "replace-sibling", "slot-edit", "size-lie", "top-edit", "corrupt-marker",
		"bytes", "append-newline", "slot-edit", "recompress", "top-edit", "complete-edit", "slot-edit", "bytes",
		"chunk-stored", "chunk-stored", "chunk-stored", "chunk-stored", "chunk-stored",
	}).Draw(t, "mutKind")
	switch kind {
	case "chunk-stored":
		// a same-size change of one stored chunk object, aimed at the bytes a
		// decompressor may not care about (see zz_verif_c38_chunk_test.go)
		hs := a.pickSlot(t)
		c := a.slots[hs].chunks[rapid.IntRange(0, len(a.slots[hs].chunks)-1).Draw(t, "sc")]
		if a.variants == nil {
			a.variants = map[string]*verifC38VariantCache{}
		}
		cache := a.variants[string(c.stored)]
		if cache == nil {
			cache = &verifC38VariantCache{}
			a.variants[string(c.stored)] = cache
		}
		v := verifC38StoredVariant(t, c.stored, c.logical, cache)
		st.objects[c.fullKey] = v.body
		return verifC38Mut{class: "chunk stored: " + v.class, target: "chunk", identical: v.identical,
			desc: fmt.Sprintf("%s (%dB logical) %s", c.fullKey, len(c.logical), v.desc)}, true
	case "bytes":
		key, target := a.pickObject(t)
		nb, m := kit.Mutate(t, st.objects[key])
		st.objects[key] = nb
		return verifC38Mut{class: "bytes:" + m.Kind, target: target, desc: fmt.Sprintf("%s %+v", key, m)}, true
	case "delete":
		key, target := a.pickObject(t)
		delete(st.objects, key)
		return verifC38Mut{class: "delete object", target: target, desc: key}, true
	case "append-newline":
		key, target := a.pickObject(t)
		tail := rapid.SampledFrom([]string{"\n", " ", "\x00", "{}"}).Draw(t, "tail")
		st.objects[key] = append(append([]byte(nil), st.objects[key]...), tail...)
		return verifC38Mut{class: "append trailing bytes", target: target, desc: fmt.Sprintf("%s + %q", key, tail)}, true
	case "size-lie":
		key, target := a.pickObject(t)
		real := uint64(len(st.objects[key]))
		var lie uint64
		switch rapid.IntRange(0, 3).Draw(t, "lieKind") {
		case 0:
			lie = real + 1
		case 1:
			lie = real - 1
		case 2:
			lie = 0
		default:
			lie = real + uint64(rapid.IntRange(2, 1<<20).Draw(t, "lieDelta"))
		}
		st.lie[key] = lie
		return verifC38Mut{class: "reported size differs", target: target, desc: fmt.Sprintf("%s real=%d reported=%d", key, real, lie)}, true
	case "corrupt-marker":
		body := rapid.SampledFrom([][]byte{{}, []byte("1"), []byte("{}")}).Draw(t, "corruptBody")
		st.objects[a.root+"CORRUPT"] = body
		return verifC38Mut{class: "CORRUPT marker added", target: "marker", desc: fmt.Sprintf("CORRUPT=%q", body)}, true
	case "replace-sibling":
		if rapid.Bool().Draw(t, "siblingIsManifest") {
			i, j := a.pickSlot(t), a.pickSlot(t)
			if i == j {
				return mut, false
			}
			ki, kj := a.root+a.slots[i].manifestKey, a.root+a.slots[j].manifestKey
			if rapid.Bool().Draw(t, "swapBoth") {
				st.objects[ki], st.objects[kj] = st.objects[kj], st.objects[ki]
			} else {
				st.objects[ki] = st.objects[kj]
			}
			return verifC38Mut{class: "replace by sibling object", target: "slot", desc: fmt.Sprintf("%s <- %s", ki, kj)}, true
		}
		hi, hj := a.pickSlot(t), a.pickSlot(t)
		ci := a.slots[hi].chunks[rapid.IntRange(0, len(a.slots[hi].chunks)-1).Draw(t, "ci")]
		cj := a.slots[hj].chunks[rapid.IntRange(0, len(a.slots[hj].chunks)-1).Draw(t, "cj")]
		if bytes.Equal(ci.stored, cj.stored) {
			return mut, false
		}
		if rapid.Bool().Draw(t, "swapBoth") {
			st.objects[ci.fullKey], st.objects[cj.fullKey] = cj.stored, ci.stored
		} else {
			st.objects[ci.fullKey] = cj.stored
		}
		return verifC38Mut{class: "replace by sibling object", target: "chunk", desc: fmt.Sprintf("%s <- %s", ci.fullKey, cj.fullKey)}, true
	case "recompress":
		hs := a.pickSlot(t)
		c := a.slots[hs].chunks[rapid.IntRange(0, len(a.slots[hs].chunks)-1).Draw(t, "rc")]
		var nb []byte
		how := rapid.SampledFrom([]string{"re-encoded at another level", "empty frame appended", "skippable frame appended", "skippable frame prepended"}).Draw(t, "recompressHow")
		skippable := []byte{0x50, 0x2a, 0x4d, 0x18, 2, 0, 0, 0, 'v', 'f'}
		switch how {
		case "re-encoded at another level":
			nb = verifC38Recompress(c.logical)
			if bytes.Equal(nb, c.stored) {
				how = "empty frame appended"
				nb = append(append([]byte(nil), c.stored...), verifC38Recompress(nil)...)
			}
		case "empty frame appended":
			nb = append(append([]byte(nil), c.stored...), verifC38Recompress(nil)...)
		case "skippable frame appended":
			nb = append(append([]byte(nil), c.stored...), skippable...)
		default:
			nb = append(append([]byte(nil), skippable...), c.stored...)
		}
		st.objects[c.fullKey] = nb
		return verifC38Mut{class: "chunk re-framed (same logical bytes)", target: "chunk",
			desc: fmt.Sprintf("%s %s: %d->%d stored bytes", c.fullKey, how, len(c.stored), len(nb))}, true
	case "slot-edit":
		return verifC38SlotEdit(t, a, st)
	case "top-edit":
		return verifC38TopEdit(t, a, st)
	case "complete-edit":
		c := a.complete
		var what string
		switch rapid.IntRange(0, 4).Draw(t, "completeField") {
		case 0:
			c.ManifestBytes++
			what = "manifest_bytes+1"
		case 1:
			c.ManifestBytes--
			what = "manifest_bytes-1"
		case 2:
			c.ManifestSHA256 = verifC38HexFlip(t, c.ManifestSHA256, "cm")
			what = "digest"
		case 3:
			c.Version++
			what = "version"
		default:
			c.Format = ArchiveFormat
			what = "format"
		}
		st.objects[a.root+"COMPLETE"] = verifC38JSON(c)
		return verifC38Mut{class: "COMPLETE field re-marshalled", target: "complete", desc: what}, true
	}
	return mut, false
}

func verifC38SlotEdit(t *rapid.T, a *verifC38Archive, st *verifC38Store) (mut verifC38Mut, ok bool) {
	edit := rapid.SampledFrom([]string{"swap-descriptors", "swap-keys", "swap-entries", "descriptor-field", "total-only",
		"benign-consistent", "hash-slot", "sequence-field", "drop-last", "content-same-stored-binding"}).Draw(t, "slotEdit")
	hs := a.pickSlot(t)
	if edit == "swap-descriptors" || edit == "swap-keys" || edit == "swap-entries" || edit == "drop-last" {
		var multi []int
		for _, r := range a.richSlots {
			if len(a.slots[r].chunks) >= 2 {
				multi = append(multi, r)
			}
		}
		if len(multi) == 0 {
			return mut, false
		}
		hs = rapid.SampledFrom(multi).Draw(t, "slotPickMulti")
	}
	s := a.slots[hs]
	m := verifC38CopySlotManifest(s.manifest)
	n := len(m.Chunks)
	maxLevel := 2
	var what string
	pick2 := func() (int, int, bool) {
		if n < 2 {
			return 0, 0, false
		}
		i := rapid.IntRange(0, n-1).Draw(t, "ei")
		j := rapid.IntRange(0, n-2).Draw(t, "ej")
		if j >= i {
			j++
		}
		return i, j, true
	}
	switch edit {
	case "swap-descriptors":
		i, j, ok2 := pick2()
		if !ok2 || m.Chunks[i].Descriptor == m.Chunks[j].Descriptor {
			return mut, false
		}
		m.Chunks[i].Descriptor, m.Chunks[j].Descriptor = m.Chunks[j].Descriptor, m.Chunks[i].Descriptor
		what = fmt.Sprintf("descriptors of chunks %d,%d swapped", i, j)
	case "swap-keys":
		i, j, ok2 := pick2()
		if !ok2 {
			return mut, false
		}
		m.Chunks[i].Key, m.Chunks[j].Key = m.Chunks[j].Key, m.Chunks[i].Key
		what = fmt.Sprintf("keys of chunks %d,%d swapped", i, j)
	case "swap-entries":
		i, j, ok2 := pick2()
		if !ok2 {
			return mut, false
		}
		m.Chunks[i], m.Chunks[j] = m.Chunks[j], m.Chunks[i]
		what = fmt.Sprintf("chunk entries %d,%d reordered", i, j)
	case "descriptor-field":
		i := rapid.IntRange(0, n-1).Draw(t, "ei")
		d := &m.Chunks[i].Descriptor
		switch rapid.IntRange(0, 6).Draw(t, "descField") {
		case 0:
			d.StoredBytes++
			what = "stored_bytes+1"
		case 1:
			if d.StoredBytes <= 1 {
				return mut, false
			}
			d.StoredBytes--
			what = "stored_bytes-1"
		case 2:
			d.LogicalBytes++
			what = "logical_bytes+1"
		case 3:
			if d.LogicalBytes == 0 {
				return mut, false
			}
			d.LogicalBytes--
			what = "logical_bytes-1"
		case 4:
			d.StoredSHA256 = verifC38HexFlip(t, d.StoredSHA256, "sd")
			what = "stored_sha256"
		case 5:
			d.LogicalSHA256 = verifC38HexFlip(t, d.LogicalSHA256, "ld")
			what = "logical_sha256"
		default:
			d.Compression = rapid.SampledFrom([]Compression{"", "gzip", "ZSTD"}).Draw(t, "comp")
			what = "compression"
		}
		verifC38SlotTotals(&m)
		what = fmt.Sprintf("chunk %d descriptor %s (totals kept consistent)", i, what)
	case "total-only":
		switch rapid.IntRange(0, 3).Draw(t, "totalField") {
		case 0:
			m.LogicalBytes++
			what = "logical_bytes"
		case 1:
			m.StoredBytes++
			what = "stored_bytes"
		case 2:
			m.Records++
			what = "records"
		default:
			m.MaxMessageID++
			what = "max_message_id"
		}
		what = "slot total " + what + " +1 only"
	case "benign-consistent":
		maxLevel = 1
		switch rapid.IntRange(0, 3).Draw(t, "benign") {
		case 0:
			i := rapid.IntRange(0, n-1).Draw(t, "ei")
			m.Chunks[i].Records += uint64(rapid.IntRange(1, 9).Draw(t, "dRecords"))
			what = fmt.Sprintf("chunk %d records changed, totals consistent", i)
		case 1:
			i := rapid.IntRange(0, n-1).Draw(t, "ei")
			if m.Chunks[i].Kind != ChunkKindMessages {
				return mut, false
			}
			m.Chunks[i].MaxMessageID ^= 1
			what = fmt.Sprintf("chunk %d max_message_id changed, totals consistent", i)
		case 2:
			m.Cut.AppliedIndex++
			what = "cut.applied_index+1"
		default:
			m.Cut.PhysicalSlotID++
			what = "cut.physical_slot_id+1"
		}
		verifC38SlotTotals(&m)
	case "hash-slot":
		other := rapid.IntRange(0, 300).Draw(t, "otherSlot")
		if other == hs {
			return mut, false
		}
		m.HashSlot = uint16(other)
		what = fmt.Sprintf("hash_slot %d -> %d", hs, other)
	case "sequence-field":
		i := rapid.IntRange(0, n-1).Draw(t, "ei")
		switch rapid.IntRange(0, 4).Draw(t, "seqField") {
		case 0:
			m.Chunks[i].Final = !m.Chunks[i].Final
			what = "final flipped"
		case 1:
			m.Chunks[i].Part++
			what = "part+1"
		case 2:
			m.Chunks[i].Stream++
			what = "stream+1"
		case 3:
			m.Chunks[i].Sequence++
			what = "sequence+1"
		default:
			if m.Chunks[i].Kind == ChunkKindMetadata {
				m.Chunks[i].Kind = ChunkKindMessages
			} else {
				m.Chunks[i].Kind = ChunkKindMetadata
			}
			what = "kind switched"
		}
		what = fmt.Sprintf("chunk %d %s", i, what)
	case "drop-last":
		maxLevel = 1
		if n < 2 {
			return mut, false
		}
		m.Chunks = m.Chunks[:n-1]
		verifC38SlotTotals(&m)
		what = "last chunk reference dropped, totals consistent"
	case "content-same-stored-binding":
		// the chunk object is replaced by a valid encoding of different
		// logical bytes and the manifest's *stored* digest/size follow it;
		// only the logical digest still speaks for the original content.
		i := rapid.IntRange(0, n-1).Draw(t, "ei")
		logical := append([]byte(nil), s.chunks[i].logical...)
		if len(logical) == 0 {
			logical = []byte{byte(rapid.IntRange(0, 255).Draw(t, "newByte"))}
		} else {
			logical[rapid.IntRange(0, len(logical)-1).Draw(t, "flipAt")] ^= byte(1 << rapid.IntRange(0, 7).Draw(t, "flipBit"))
		}
		var buf bytes.Buffer
		d, err := EncodeChunk(&buf, bytes.NewReader(logical))
		if err != nil {
			t.Fatalf("EncodeChunk: %v", err)
		}
		st.objects[s.chunks[i].fullKey] = append([]byte(nil), buf.Bytes()...)
		m.Chunks[i].Descriptor.StoredSHA256 = d.StoredSHA256
		m.Chunks[i].Descriptor.StoredBytes = d.StoredBytes
		verifC38SlotTotals(&m)
		what = fmt.Sprintf("chunk %d holds other logical bytes; stored digest/size rebound, logical digest stale", i)
	}
	level := rapid.IntRange(0, maxLevel).Draw(t, "rebindLevel")
	body := verifC38JSON(m)
	if bytes.Equal(body, s.body) {
		return mut, false
	}
	st.objects[a.root+s.manifestKey] = body
	a.rebindSlot(st, level, hs, m, body)
	return verifC38Mut{class: "slot manifest: " + edit, target: "slot",
		desc: fmt.Sprintf("slot %d: %s; rebind level %d", hs, what, level)}, true
}

func verifC38TopEdit(t *rapid.T, a *verifC38Archive, st *verifC38Store) (mut verifC38Mut, ok bool) {
	top := verifC38CopyTop(a.manifest)
	levels := []int{0, 2}
	var what string
	edit := rapid.SampledFrom([]string{"swap-slot-order", "ref-total", "archive-total", "benign", "id", "ref-digest",
		"duplicate-ref", "ref-key", "slot-count"}).Draw(t, "topEdit")
	i := rapid.IntRange(0, DefaultHashSlotCount-1).Draw(t, "ti")
	switch edit {
	case "swap-slot-order":
		j := (i + rapid.IntRange(1, DefaultHashSlotCount-1).Draw(t, "tj")) % DefaultHashSlotCount
		top.Slots[i], top.Slots[j] = top.Slots[j], top.Slots[i]
		what = fmt.Sprintf("slot references %d,%d reordered", i, j)
	case "ref-total":
		switch rapid.IntRange(0, 3).Draw(t, "refField") {
		case 0:
			top.Slots[i].LogicalBytes++
		case 1:
			top.Slots[i].StoredBytes++
		case 2:
			top.Slots[i].Records++
		default:
			top.Slots[i].MaxMessageID++
		}
		verifC38Totals(&top)
		what = fmt.Sprintf("slot reference %d total changed, archive totals consistent", i)
	case "archive-total":
		bump := func(v *uint64) {
			if *v == ^uint64(0) {
				*v -= 1 // +1 would wrap to 0, which the format reads as "total not recorded"
			} else {
				*v += 1
			}
		}
		switch rapid.IntRange(0, 3).Draw(t, "totField") {
		case 0:
			bump(&top.LogicalBytes)
		case 1:
			bump(&top.StoredBytes)
		case 2:
			bump(&top.Records)
		default:
			bump(&top.MaxMessageID)
		}
		what = "archive total changed only"
	case "benign":
		levels = []int{0}
		switch rapid.IntRange(0, 2).Draw(t, "benignTop") {
		case 0:
			if top.Trigger == TriggerManual {
				top.Trigger = TriggerInitial
			} else {
				top.Trigger = TriggerManual
			}
			what = "trigger"
		case 1:
			top.SourceApplication += "x"
			what = "source_application"
		default:
			top.CompletedAtUnixMillis++
			what = "completed_at+1"
		}
	case "id":
		top.ID = top.ID + "x"
		what = "id"
	case "ref-digest":
		top.Slots[i].ManifestSHA256 = verifC38HexFlip(t, top.Slots[i].ManifestSHA256, "rd")
		what = fmt.Sprintf("slot reference %d digest", i)
	case "duplicate-ref":
		j := (i + 1) % DefaultHashSlotCount
		top.Slots[j] = top.Slots[i]
		what = fmt.Sprintf("slot reference %d duplicated over %d", i, j)
	case "ref-key":
		top.Slots[i].ManifestKey = fmt.Sprintf("slots/%03d/attempts/zz-none/manifest.json", i)
		what = fmt.Sprintf("slot reference %d key -> absent object", i)
	case "slot-count":
		if rapid.Bool().Draw(t, "truncate") {
			top.Slots = top.Slots[:DefaultHashSlotCount-1]
			what = "last slot reference dropped"
		} else {
			top.HashSlotCount = DefaultHashSlotCount - 1
			what = "hash_slot_count 255"
		}
		verifC38Totals(&top)
	}
	level := rapid.SampledFrom(levels).Draw(t, "topLevel")
	a.putTop(st, level, top)
	return verifC38Mut{class: "top manifest: " + edit, target: "top", desc: fmt.Sprintf("%s; rebind level %d", what, level)}, true
}

// ----------------------------------------------------------------- test ----

func TestVerifC38Archive(t *testing.T) {
	col := kit.For(t, "C38")
	nMut := kit.Scale("C38_MUTATIONS", 10, 25)
	kit.Check(t, "C38", func(rt *rapid.T, k *kit.Case) {
		a := verifC38Build(rt)
		verifC38CheckIntact(rt, a)
		ctx := context.Background()
		multiPart, msgStreams := false, 0
		for _, hs := range a.richSlots {
			for _, c := range a.slots[hs].manifest.Chunks {
				if c.Part > 1 {
					multiPart = true
				}
				if c.Kind == ChunkKindMessages && c.Part == 1 {
					msgStreams++
				}
			}
		}
		k.Key("archive", a.desc, a.manifestBody)
		k.SetNonTrivial(msgStreams > 0)
		k.Label("intact archive verifies")
		k.LabelIf(multiPart, "archive with multi-part stream")
		k.LabelIf(msgStreams == 0, "archive without message streams")
		k.LabelIf(msgStreams > 1, "archive with several message streams")
		k.Sample(func() any { return "intact: " + a.desc })

		for i := 0; i < nMut; i++ {
			st := a.store.clone()
			mut, ok := verifC38Mutate(rt, a, st)
			if !ok {
				continue
			}
			got, err := VerifyPublishedArchive(ctx, st, a.id)
			if err == nil {
				rt.Fatalf("VERIF-VIOLATION C38: mutated archive still verifies\n mutation: %s — %s\n archive: %s\n returned manifest id=%q", mut.class, mut.desc, a.desc, got.ID)
			}
			sub := col.NewCase()
			sub.Key("mutation", a.complete.ManifestSHA256, mut.class, mut.desc)
			sub.SetNonTrivial(mut.target == "slot" || mut.target == "chunk")
			sub.Label("mut " + mut.class)
			sub.Label("target " + mut.target)
			sub.LabelIf(mut.identical, "mut chunk change invisible to a plain zstd decoder")
			desc := mut
			sub.Sample(func() any { return fmt.Sprintf("%s — %s ⇒ %v", desc.class, desc.desc, err) })
			col.Commit(sub)
		}
		// the mutations worked on copies: the published archive is untouched
		if _, err := LoadPublishedArchiveMetadata(ctx, a.store, a.id); err != nil {
			rt.Fatalf("harness: intact store was modified: %v", err)
		}
	})
}

// TestVerifC38MessageIndex: the remote producer's message index is bound to
// the digest carried in its receipt: any change of the stored index fails.
func TestVerifC38MessageIndex(t *testing.T) {
	kit.Check(t, "C38", func(rt *rapid.T, k *kit.Case) {
		hs := uint16(rapid.IntRange(0, 255).Draw(rt, "hashSlot"))
		m := verifC38GenMessageIndex(rt, hs)
		body, err := MarshalMessageChunkManifest(m)
		if err != nil {
			rt.Fatalf("MarshalMessageChunkManifest: %v", err)
		}
		st := verifC38NewStore()
		key := fmt.Sprintf("slots/%03d/attempts/1/message-index.json", hs)
		st.objects["backups/b1/"+key] = body
		sha := verifC38SHA(body)
		ctx := context.Background()
		got, err := LoadStoredMessageChunkManifest(ctx, st, "b1", key, sha)
		if err != nil || !reflect.DeepEqual(got, m) {
			rt.Fatalf("intact message index: err=%v", err)
		}
		nb, mu := kit.Mutate(rt, body)
		st.objects["backups/b1/"+key] = nb
		if _, err := LoadStoredMessageChunkManifest(ctx, st, "b1", key, sha); err == nil {
			rt.Fatalf("VERIF-VIOLATION C38: mutated message index accepted (%+v)", mu)
		}
		// an index that is valid by itself but is not the receipted one
		m2 := m
		m2.Chunks = append([]ChunkReference(nil), m.Chunks...)
		m2.Chunks[0].Records++
		m2.Records++
		body2, err := MarshalMessageChunkManifest(m2)
		if err != nil {
			rt.Fatalf("Marshal second index: %v", err)
		}
		st.objects["backups/b1/"+key] = body2
		if _, err := LoadStoredMessageChunkManifest(ctx, st, "b1", key, sha); err == nil {
			rt.Fatalf("VERIF-VIOLATION C38: a different valid message index passed the receipt digest")
		}
		k.Key("msgindex", body, mu.Kind, mu.Pos, mu.Val)
		k.SetNonTrivial(len(m.Chunks) > 1)
		k.Label("message index bound to receipt digest")
		k.Sample(func() any { return fmt.Sprintf("index chunks=%d mutation=%+v", len(m.Chunks), mu) })
	})
}

func verifC38FakeDescriptor(t *rapid.T, label string) ChunkDescriptor {
	n := rapid.IntRange(0, 1<<20).Draw(t, label+"seed")
	return ChunkDescriptor{
		StoredSHA256: verifC38SHA([]byte(fmt.Sprintf("s%d", n))), LogicalSHA256: verifC38SHA([]byte(fmt.Sprintf("l%d", n))),
		LogicalBytes: kit.Uint64Edge().Draw(t, label+"lb") % (MaxChunkLogicalBytes + 1),
		StoredBytes:  1 + kit.Uint64Edge().Draw(t, label+"sb")%(1<<40), Compression: CompressionZstd,
	}
}

func verifC38GenMessageIndex(t *rapid.T, hs uint16) MessageChunkManifest {
	n := rapid.IntRange(1, 5).Draw(t, "idxChunks")
	firstSeq := uint32(rapid.IntRange(1, 1000).Draw(t, "idxSeq"))
	stream := uint32(rapid.IntRange(1, 50).Draw(t, "idxStream"))
	chunks := make([]ChunkReference, n)
	for i := range chunks {
		chunks[i] = ChunkReference{Kind: ChunkKindMessages, Sequence: firstSeq + uint32(i), Stream: stream, Part: uint32(i + 1),
			Final: i == n-1, Key: verifC38ChunkKey(hs, "1", ChunkKindMessages, firstSeq+uint32(i)),
			Descriptor: verifC38FakeDescriptor(t, fmt.Sprintf("idx%d", i))}
		if i == 0 {
			chunks[i].Records = uint64(rapid.IntRange(0, 100).Draw(t, "idxRecords"))
			chunks[i].MaxMessageID = kit.Uint64Edge().Draw(t, "idxMax")
		}
	}
	m, err := NewMessageChunkManifest(hs, chunks)
	if err != nil {
		t.Fatalf("NewMessageChunkManifest: %v", err)
	}
	return m
}
