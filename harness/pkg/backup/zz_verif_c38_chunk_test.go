package backup

// C38 — same-size changes of a *stored* chunk object.
//
// A chunk is authenticated twice: by the digest/size of the stored
// (compressed) stream and by the digest/size of the logical stream. A change
// of the stored object that keeps its length and still expands to the same
// logical bytes is invisible to every check except the stored digest, so the
// generator below aims at exactly those: bit flips concentrated on the
// Zstandard frame structure (magic, frame header descriptor, window
// descriptor, content size, block headers, literals/sequences section headers,
// frame checksum), an exhaustive search for single-bit flips a plain
// Zstandard decoder does not notice, and re-encodings of the same logical
// bytes with other encoder options, padded with a skippable frame to the
// original length. The oracle never changes: verification must fail for ANY
// change of a stored object.

import (
	"bytes"
	"fmt"
	"io"
	"sort"
	"testing"

	"github.com/klauspost/compress/zstd"
	"pgregory.net/rapid"
	"verif.local/kit"
)

type verifC38Flip struct {
	pos int
	bit uint
}

// verifC38VariantCache memoises the searches for one stored object.
type verifC38VariantCache struct {
	structural     []int
	structuralDone bool
	equiv          []verifC38Flip
	equivDone      bool
}

type verifC38Repack struct {
	how  string
	body []byte
}

type verifC38Variant struct {
	class     string
	desc      string
	body      []byte
	identical bool // a plain zstd decoder expands body to the same logical bytes
}

// verifC38RawDecode expands stored with a plain streaming Zstandard decoder
// configured like DecodeChunk's, without any digest or size check.
func verifC38RawDecode(dec *zstd.Decoder, stored []byte, limit int) ([]byte, bool) {
	if err := dec.Reset(bytes.NewReader(stored)); err != nil {
		return nil, false
	}
	var out bytes.Buffer
	_, err := io.Copy(&out, io.LimitReader(dec, int64(limit)+1))
	if err != nil {
		return nil, false
	}
	return out.Bytes(), true
}

// The plain decoder and the alternative encoders are created once per process
// and reused (rapid runs cases sequentially, so a given seed always sees the
// same sequence of uses). The decoder refuses windows above 4 MiB so that a
// flipped window descriptor cannot make the search allocate 64 MiB buffers;
// such a flip is then simply not counted as "ignored by a plain decoder".
var (
	verifC38RawDec   *zstd.Decoder
	verifC38Encoders []verifC38Encoder
)

type verifC38Encoder struct {
	name string
	enc  *zstd.Encoder
}

func verifC38NewRawDecoder() *zstd.Decoder {
	if verifC38RawDec == nil {
		dec, err := zstd.NewReader(nil, zstd.WithDecoderConcurrency(1), zstd.WithDecoderLowmem(true),
			zstd.WithDecoderMaxMemory(MaxChunkLogicalBytes*2), zstd.WithDecoderMaxWindow(4<<20))
		if err != nil {
			panic(err)
		}
		verifC38RawDec = dec
	}
	return verifC38RawDec
}

func verifC38DecodesTo(stored, logical []byte) bool {
	got, ok := verifC38RawDecode(verifC38NewRawDecoder(), stored, len(logical))
	return ok && bytes.Equal(got, logical)
}

func verifC38AltEncoders() []verifC38Encoder {
	if verifC38Encoders != nil {
		return verifC38Encoders
	}
	add := func(name string, opts ...zstd.EOption) {
		w, err := zstd.NewWriter(nil, append(opts, zstd.WithEncoderConcurrency(1))...)
		if err != nil {
			panic(err)
		}
		verifC38Encoders = append(verifC38Encoders, verifC38Encoder{name: name, enc: w})
	}
	for _, lv := range []struct {
		name string
		l    zstd.EncoderLevel
	}{{"fastest", zstd.SpeedFastest}, {"default", zstd.SpeedDefault}, {"better", zstd.SpeedBetterCompression}} {
		for _, crc := range []bool{true, false} {
			add(fmt.Sprintf("level=%s crc=%v", lv.name, crc), zstd.WithEncoderLevel(lv.l), zstd.WithEncoderCRC(crc))
		}
	}
	add("default single-segment", zstd.WithSingleSegment(true))
	add("default no-entropy", zstd.WithNoEntropyCompression(true))
	add("default all-literals-entropy", zstd.WithAllLitEntropyCompression(true))
	add("default window=1KiB", zstd.WithWindowSize(1<<10))
	add("default window=4MiB", zstd.WithWindowSize(4<<20))
	return verifC38Encoders
}

// verifC38Structural returns the byte offsets of stored that carry Zstandard
// frame structure: the frame header, every block header plus the first bytes
// of the block (literals section header), the bytes before the end of every
// block (sequences section / bitstream end marks) and the trailing checksum.
// The walk is best effort; offsets it cannot derive are simply not listed
// (the first 24 and last 12 bytes are always included).
func verifC38Structural(stored []byte) []int {
	set := map[int]bool{}
	add := func(from, to int) {
		for i := from; i < to; i++ {
			if i >= 0 && i < len(stored) {
				set[i] = true
			}
		}
	}
	add(0, 24)
	add(len(stored)-12, len(stored))
	if len(stored) >= 6 && bytes.Equal(stored[:4], []byte{0x28, 0xb5, 0x2f, 0xfd}) {
		fhd := stored[4]
		pos := 5
		single := fhd&0x20 != 0
		if !single {
			pos++ // window descriptor
		}
		pos += []int{0, 1, 2, 4}[fhd&3] // dictionary id
		switch fhd >> 6 {               // frame content size
		case 0:
			if single {
				pos++
			}
		case 1:
			pos += 2
		case 2:
			pos += 4
		default:
			pos += 8
		}
		add(0, pos)
		for blocks := 0; blocks < 12 && pos+3 <= len(stored); blocks++ {
			h := uint32(stored[pos]) | uint32(stored[pos+1])<<8 | uint32(stored[pos+2])<<16
			last, typ, size := h&1 != 0, (h>>1)&3, int(h>>3)
			add(pos, pos+3+5)
			next := pos + 3 + size
			if typ == 1 { // RLE block: one byte repeated size times
				next = pos + 3 + 1
			}
			if next > len(stored) {
				break
			}
			add(next-3, next)
			pos = next
			if last {
				break
			}
		}
	}
	out := make([]int, 0, len(set))
	for i := range set {
		out = append(out, i)
	}
	sort.Ints(out)
	return out
}

func (c *verifC38VariantCache) structuralOffsets(stored []byte) []int {
	if !c.structuralDone {
		c.structural, c.structuralDone = verifC38Structural(stored), true
	}
	return c.structural
}

// equivalentFlips searches every single-bit flip of a structural byte for
// those a plain decoder does not notice: the flipped object still expands to
// exactly the logical bytes.
func (c *verifC38VariantCache) equivalentFlips(stored, logical []byte) []verifC38Flip {
	if c.equivDone {
		return c.equiv
	}
	c.equivDone = true
	dec := verifC38NewRawDecoder()
	work := append([]byte(nil), stored...)
	for _, pos := range c.structuralOffsets(stored) {
		for bit := uint(0); bit < 8; bit++ {
			work[pos] ^= 1 << bit
			if got, ok := verifC38RawDecode(dec, work, len(logical)); ok && bytes.Equal(got, logical) {
				c.equiv = append(c.equiv, verifC38Flip{pos: pos, bit: bit})
			}
			work[pos] ^= 1 << bit
		}
	}
	return c.equiv
}

// verifC38SameSizeRepacks re-encodes the logical bytes with one alternative
// encoder (whole input, streamed, and as two concatenated frames) and keeps
// the results that have — or can be padded with a skippable frame to —
// exactly the stored length, differ from the stored bytes and expand to the
// logical bytes under a plain decoder.
func verifC38SameSizeRepacks(e verifC38Encoder, stored, logical []byte) []verifC38Repack {
	var out []verifC38Repack
	seen := map[string]bool{string(stored): true}
	consider := func(how string, enc []byte) {
		enc = append([]byte(nil), enc...)
		var bodies []verifC38Repack
		switch {
		case len(enc) == len(stored):
			bodies = append(bodies, verifC38Repack{how, enc})
		case len(enc)+8 <= len(stored):
			pad := len(stored) - len(enc) - 8
			frame := []byte{0x50, 0x2a, 0x4d, 0x18, byte(pad), byte(pad >> 8), byte(pad >> 16), byte(pad >> 24)}
			frame = append(frame, bytes.Repeat([]byte{0x5a}, pad)...)
			bodies = append(bodies,
				verifC38Repack{how + fmt.Sprintf(" + %d-byte skippable frame appended", len(frame)), append(append([]byte(nil), enc...), frame...)},
				verifC38Repack{how + fmt.Sprintf(" + %d-byte skippable frame prepended", len(frame)), append(append([]byte(nil), frame...), enc...)})
		}
		for _, b := range bodies {
			if seen[string(b.body)] || !verifC38DecodesTo(b.body, logical) {
				continue
			}
			seen[string(b.body)] = true
			out = append(out, b)
		}
	}
	var buf bytes.Buffer
	stream := func(parts ...[]byte) bool {
		buf.Reset()
		for _, part := range parts {
			e.enc.Reset(&buf)
			if _, err := e.enc.Write(part); err != nil {
				e.enc.Close()
				return false
			}
			if err := e.enc.Close(); err != nil {
				return false
			}
		}
		return true
	}
	consider("EncodeAll "+e.name, e.enc.EncodeAll(logical, nil))
	if stream(logical) {
		consider("stream "+e.name, buf.Bytes())
	}
	if len(logical) >= 2 && stream(logical[:len(logical)/2], logical[len(logical)/2:]) {
		// the same logical bytes as two concatenated frames
		consider("two frames "+e.name, buf.Bytes())
	}
	return out
}

// verifC38StoredVariant draws one change of a stored chunk object that keeps
// its length. The result always differs from stored in at least one byte.
func verifC38StoredVariant(t *rapid.T, stored, logical []byte, c *verifC38VariantCache) verifC38Variant {
	kind := rapid.SampledFrom([]string{
		"equivalent", "fhd-bit", "repack", "equivalent", "structural-bit", "head-bit", "equivalent", "tail-bit", "fhd-bit", "repack",
		"head-byte", "structural-bit",
	}).Draw(t, "storedVariant")
	flip := func(class string, pos int, bit uint) verifC38Variant {
		nb := append([]byte(nil), stored...)
		nb[pos] ^= 1 << bit
		return verifC38Variant{class: class, body: nb,
			desc: fmt.Sprintf("bit %d of byte %d/%d flipped (%#02x -> %#02x)", bit, pos, len(stored), stored[pos], nb[pos])}
	}
	var v verifC38Variant
	if kind == "repack" {
		encs := verifC38AltEncoders()
		start := rapid.IntRange(0, len(encs)-1).Draw(t, "repackEncoder")
		kind = "equivalent" // when no encoder yields a same-size object
		for i := range encs {
			if rs := verifC38SameSizeRepacks(encs[(start+i)%len(encs)], stored, logical); len(rs) > 0 {
				r := rs[rapid.IntRange(0, len(rs)-1).Draw(t, "repackPick")]
				v = verifC38Variant{class: "same-size re-encoding of the same logical bytes", body: r.body,
					desc: fmt.Sprintf("%s (%d stored bytes)", r.how, len(r.body))}
				kind = "repack"
				break
			}
		}
	}
	if kind == "equivalent" {
		if fs := c.equivalentFlips(stored, logical); len(fs) > 0 {
			f := fs[rapid.IntRange(0, len(fs)-1).Draw(t, "equivPick")]
			v = flip("bit flip a plain zstd decoder ignores", f.pos, f.bit)
			v.desc += fmt.Sprintf(" [%d such flips]", len(fs))
		} else {
			kind = "fhd-bit"
		}
	}
	switch kind {
	case "fhd-bit":
		pos := 4
		if len(stored) <= pos {
			pos = len(stored) - 1
		}
		v = flip("frame header descriptor bit flip", pos, uint(rapid.IntRange(0, 7).Draw(t, "fhdBit")))
	case "head-bit":
		n := len(stored)
		if n > 16 {
			n = 16
		}
		v = flip("head bit flip (first 16 bytes)", rapid.IntRange(0, n-1).Draw(t, "headPos"), uint(rapid.IntRange(0, 7).Draw(t, "headBit")))
	case "tail-bit":
		n := len(stored)
		if n > 8 {
			n = 8
		}
		v = flip("tail bit flip (last 8 bytes)", len(stored)-1-rapid.IntRange(0, n-1).Draw(t, "tailBack"), uint(rapid.IntRange(0, 7).Draw(t, "tailBit")))
	case "structural-bit":
		offs := c.structuralOffsets(stored)
		v = flip("frame/block structure bit flip", rapid.SampledFrom(offs).Draw(t, "structPos"), uint(rapid.IntRange(0, 7).Draw(t, "structBit")))
	case "head-byte":
		n := len(stored)
		if n > 16 {
			n = 16
		}
		pos := rapid.IntRange(0, n-1).Draw(t, "headBytePos")
		val := rapid.Byte().Draw(t, "headByteVal")
		if val == stored[pos] {
			val ^= 0xff
		}
		nb := append([]byte(nil), stored...)
		nb[pos] = val
		v = verifC38Variant{class: "head byte replaced (first 16 bytes)", body: nb,
			desc: fmt.Sprintf("byte %d/%d %#02x -> %#02x", pos, len(stored), stored[pos], val)}
	}
	if len(v.body) != len(stored) || bytes.Equal(v.body, stored) {
		t.Fatalf("harness: variant %q is not a same-size change (%d -> %d bytes)", v.class, len(stored), len(v.body))
	}
	v.identical = verifC38DecodesTo(v.body, logical)
	return v
}

// TestVerifC38ChunkStored: one generated logical part, encoded by the
// package's own EncodeChunk, must decode against its descriptor; every
// same-size change of the stored bytes must be refused by DecodeChunk — in
// particular the changes a plain Zstandard decoder expands to the very same
// logical bytes, which only the stored digest can see.
func TestVerifC38ChunkStored(t *testing.T) {
	col := kit.For(t, "C38")
	kit.Check(t, "C38", func(rt *rapid.T, k *kit.Case) {
		logical := verifC38Payload(rt, "part")
		var buf bytes.Buffer
		d, err := EncodeChunk(&buf, bytes.NewReader(logical))
		if err != nil {
			rt.Fatalf("EncodeChunk(%d bytes): %v", len(logical), err)
		}
		stored := append([]byte(nil), buf.Bytes()...)
		var out bytes.Buffer
		if err := DecodeChunk(&out, bytes.NewReader(stored), d); err != nil {
			rt.Fatalf("intact chunk (%d logical, %d stored bytes) does not decode: %v", len(logical), len(stored), err)
		}
		if !bytes.Equal(out.Bytes(), logical) {
			rt.Fatalf("intact chunk decodes to %d bytes that differ from the %d logical bytes", out.Len(), len(logical))
		}
		cache := &verifC38VariantCache{}
		nVar := 3
		sameSize, identical := 0, 0
		for i := 0; i < nVar; i++ {
			v := verifC38StoredVariant(rt, stored, logical, cache)
			if err := DecodeChunk(io.Discard, bytes.NewReader(v.body), d); err == nil {
				rt.Fatalf("VERIF-VIOLATION C38: DecodeChunk accepted a changed stored chunk\n change: %s — %s\n logical=%d bytes stored=%d bytes plain-decoder-identical=%v\n stored  %x\n changed %x",
					v.class, v.desc, len(logical), len(stored), v.identical, verifC38Head(stored), verifC38Head(v.body))
			}
			sameSize++
			if v.identical {
				identical++
			}
			sub := col.NewCase()
			sub.Key("chunkstored", stored, v.class, v.desc)
			sub.SetNonTrivial(len(v.body) == len(stored) && !bytes.Equal(v.body, stored))
			sub.Label("chunk " + v.class)
			sub.LabelIf(v.identical, "chunk change invisible to a plain zstd decoder")
			vv := v
			sub.Sample(func() any {
				return fmt.Sprintf("chunk %dB logical/%dB stored: %s — %s (plain decoder identical=%v) ⇒ refused", len(logical), len(stored), vv.class, vv.desc, vv.identical)
			})
			col.Commit(sub)
		}
		k.Key("chunk", stored)
		k.SetNonTrivial(sameSize == nVar && identical > 0)
		k.Label("intact chunk decodes")
		k.Sample(func() any {
			return fmt.Sprintf("intact chunk %dB logical/%dB stored decodes", len(logical), len(stored))
		})
		k.LabelIf(len(logical) > 128<<10, "chunk with several zstd blocks")
		k.LabelIf(len(logical) == 0, "chunk with empty logical part")
	})
}

func verifC38Head(b []byte) []byte {
	if len(b) > 48 {
		return b[:48]
	}
	return b
}
