package backup

// C38 — manifest decoders: accept ⇒ canonical, no panic, bounded allocation.

import (
	"bytes"
	"context"
	"fmt"
	"io"
	"reflect"
	"runtime"
	"strings"
	"testing"

	"github.com/klauspost/compress/zstd"
	"pgregory.net/rapid"
	"verif.local/kit"
)

const (
	verifC38KindArchive = iota
	verifC38KindSlot
	verifC38KindIndex
	verifC38KindRepo
	verifC38KindComplete
	verifC38Kinds
)

var verifC38KindNames = [...]string{"archive manifest", "slot manifest", "message index", "repository marker", "complete marker"}

// verifC38Load runs the decoder of the given kind on body. companion is the
// manifest body a COMPLETE marker speaks for. On accept it returns the
// canonical re-encoding of the decoded value (through the package's own
// validating Marshal function).
func verifC38Load(kind int, body, companion []byte) (accepted bool, canonical []byte, value any, err error) {
	switch kind {
	case verifC38KindArchive:
		v, e := LoadArchiveManifest(body)
		if e != nil {
			return false, nil, nil, e
		}
		c, e := MarshalArchiveManifest(v)
		return true, c, v, e
	case verifC38KindSlot:
		v, e := LoadSlotManifest(body)
		if e != nil {
			return false, nil, nil, e
		}
		c, e := MarshalSlotManifest(v)
		return true, c, v, e
	case verifC38KindIndex:
		v, e := LoadMessageChunkManifest(body)
		if e != nil {
			return false, nil, nil, e
		}
		c, e := MarshalMessageChunkManifest(v)
		return true, c, v, e
	case verifC38KindRepo:
		v, e := LoadRepositoryMarker(body)
		if e != nil {
			return false, nil, nil, e
		}
		c, e := MarshalRepositoryMarker(v)
		return true, c, v, e
	default:
		v, e := LoadCompleteMarker(body, companion)
		if e != nil {
			return false, nil, nil, e
		}
		c, e := MarshalCompleteMarker(v)
		return true, c, v, e
	}
}

// verifC38Judge is the oracle shared by the rapid test and the fuzz target.
func verifC38Judge(kind int, body, companion []byte) (accepted bool, problem string) {
	var before, after runtime.MemStats
	runtime.ReadMemStats(&before)
	ok, canonical, _, err := verifC38Load(kind, body, companion)
	runtime.ReadMemStats(&after)
	if alloc, bound := after.TotalAlloc-before.TotalAlloc, uint64(1<<20)+1024*uint64(len(body)+len(companion)); alloc > bound {
		return ok, fmt.Sprintf("%s decoder allocated %d bytes for %d input bytes (bound %d)", verifC38KindNames[kind], alloc, len(body), bound)
	}
	if !ok {
		return false, ""
	}
	if err != nil {
		return true, fmt.Sprintf("%s decoder accepted a value its own encoder rejects: %v", verifC38KindNames[kind], err)
	}
	if !bytes.Equal(canonical, body) {
		return true, fmt.Sprintf("%s decoder accepted non-canonical input:\n input     %q\n canonical %q", verifC38KindNames[kind], verifC38Trunc(body), verifC38Trunc(canonical))
	}
	return true, ""
}

func verifC38Trunc(b []byte) string {
	if len(b) > 600 {
		return string(b[:600]) + "…"
	}
	return string(b)
}

// ---- valid value generators -------------------------------------------------

func verifC38GenSlotManifest(t *rapid.T) SlotManifest {
	hs := uint16(rapid.IntRange(0, 255).Draw(t, "hashSlot"))
	attempt := rapid.SampledFrom([]string{"", "00000001", "q"}).Draw(t, "attempt")
	m := SlotManifest{Format: SlotManifestFormat, Version: SlotManifestVersion, HashSlot: hs,
		Cut: verifC38Cut(t, "cut", 1, 1<<41), Chunks: []ChunkReference{}}
	metaParts := rapid.IntRange(1, 3).Draw(t, "metaParts")
	seq := uint32(1)
	for p := 1; p <= metaParts; p++ {
		m.Chunks = append(m.Chunks, ChunkReference{Kind: ChunkKindMetadata, Sequence: seq, Stream: 0, Part: uint32(p), Final: p == metaParts,
			Key: verifC38ChunkKey(hs, attempt, ChunkKindMetadata, seq), Descriptor: verifC38FakeDescriptor(t, "md"),
			Records: uint64(rapid.IntRange(0, 9).Draw(t, "metaRecords"))})
		seq++
	}
	seq = 1
	for s := 1; s <= rapid.IntRange(0, 3).Draw(t, "msgStreams"); s++ {
		parts := rapid.IntRange(1, 3).Draw(t, "msgParts")
		for p := 1; p <= parts; p++ {
			m.Chunks = append(m.Chunks, ChunkReference{Kind: ChunkKindMessages, Sequence: seq, Stream: uint32(s), Part: uint32(p), Final: p == parts,
				Key: verifC38ChunkKey(hs, attempt, ChunkKindMessages, seq), Descriptor: verifC38FakeDescriptor(t, "gd"),
				Records: uint64(rapid.IntRange(0, 9).Draw(t, "msgRecords")), MaxMessageID: kit.Uint64Edge().Draw(t, "msgMax")})
			seq++
		}
	}
	verifC38SlotTotals(&m)
	return m
}

func verifC38GenArchiveManifest(t *rapid.T) ArchiveManifest {
	started := rapid.Int64Range(1, 1<<41).Draw(t, "started")
	d1 := rapid.Int64Range(0, 1000).Draw(t, "d1")
	d2 := rapid.Int64Range(0, 1000).Draw(t, "d2")
	d3 := rapid.Int64Range(0, 1000).Draw(t, "d3")
	m := ArchiveManifest{Format: ArchiveFormat, Version: ArchiveVersion, ID: verifC38Identity().Draw(t, "id"),
		Trigger:           rapid.SampledFrom([]Trigger{TriggerInitial, TriggerScheduled, TriggerManual}).Draw(t, "trigger"),
		SourceClusterID:   verifC38Identity().Draw(t, "cluster"),
		SourceApplication: rapid.StringMatching(`[ -~]{1,12}`).Draw(t, "app"), HashSlotCount: DefaultHashSlotCount,
		StartedAtUnixMillis: started, CutStartedUnixMillis: started + d1, CutEndedUnixMillis: started + d1 + d2,
		CompletedAtUnixMillis: started + d1 + d2 + d3, Compression: CompressionZstd, Checksum: ChecksumSHA256,
		Slots: make([]SlotReference, DefaultHashSlotCount)}
	salt := rapid.IntRange(0, 1<<20).Draw(t, "salt")
	order := rapid.IntRange(0, 3).Draw(t, "order") // the decoder accepts any permutation of unique slots
	for i := range m.Slots {
		hs := i
		if order == 0 {
			hs = DefaultHashSlotCount - 1 - i
		}
		m.Slots[i] = SlotReference{HashSlot: uint16(hs), ManifestKey: fmt.Sprintf("slots/%03d/manifest.json", hs),
			ManifestSHA256: verifC38SHA([]byte(fmt.Sprintf("%d/%d", salt, hs))), LogicalBytes: uint64(hs*salt) % 977,
			StoredBytes: uint64(hs+salt) % 31, Records: uint64(hs % 4), MaxMessageID: uint64(hs*salt) % 1009}
	}
	if rapid.IntRange(0, 3).Draw(t, "totals") > 0 {
		verifC38Totals(&m) // zero totals ("not recorded") are legal too
	}
	return m
}

func verifC38GenRepoMarker(t *rapid.T) RepositoryMarker {
	return RepositoryMarker{Format: RepositoryFormat, Version: RepositoryVersion, SourceClusterID: verifC38Identity().Draw(t, "cluster"),
		HashSlotCount: DefaultHashSlotCount, CreatedAtUnixMillis: rapid.Int64Range(1, 1<<41).Draw(t, "created")}
}

// verifC38ValidBody draws a valid canonical body of the given kind.
func verifC38ValidBody(t *rapid.T, kind int) (body, companion []byte, value any) {
	var err error
	switch kind {
	case verifC38KindArchive:
		v := verifC38GenArchiveManifest(t)
		body, err = MarshalArchiveManifest(v)
		value = v
	case verifC38KindSlot:
		v := verifC38GenSlotManifest(t)
		body, err = MarshalSlotManifest(v)
		value = v
	case verifC38KindIndex:
		v := verifC38GenMessageIndex(t, uint16(rapid.IntRange(0, 255).Draw(t, "idxSlot")))
		body, err = MarshalMessageChunkManifest(v)
		value = v
	case verifC38KindRepo:
		v := verifC38GenRepoMarker(t)
		body, err = MarshalRepositoryMarker(v)
		value = v
	default:
		companion, err = MarshalArchiveManifest(verifC38GenArchiveManifest(t))
		if err != nil {
			t.Fatalf("marshal companion: %v", err)
		}
		var v CompleteMarker
		v, err = NewCompleteMarker(companion)
		if err != nil {
			t.Fatalf("NewCompleteMarker: %v", err)
		}
		body, err = MarshalCompleteMarker(v)
		value = v
	}
	if err != nil {
		t.Fatalf("generator produced a %s its encoder rejects: %v", verifC38KindNames[kind], err)
	}
	return body, companion, value
}

// ---- JSON-level mutations -----------------------------------------------------

func verifC38ReplaceNth(b []byte, old, new string, n int) ([]byte, bool) {
	idx := -1
	from := 0
	for i := 0; i <= n; i++ {
		j := bytes.Index(b[from:], []byte(old))
		if j < 0 {
			break
		}
		idx = from + j
		from = idx + len(old)
	}
	if idx < 0 {
		return nil, false
	}
	out := append([]byte(nil), b[:idx]...)
	out = append(out, new...)
	return append(out, b[idx+len(old):]...), true
}

// verifC38JSONMutate returns a body that differs from the valid canonical
// body and the label of what was done.
func verifC38JSONMutate(t *rapid.T, body []byte) ([]byte, string) {
	kind := rapid.SampledFrom([]string{"bytes", "bytes", "whitespace", "trailing", "unknown-field", "duplicate-key", "key-case",
		"number-form", "string-escape", "field-order", "null-or-wrap", "nested-unknown", "number-range", "empty-elements"}).Draw(t, "jsonMut")
	switch kind {
	case "whitespace":
		var pos []int
		for i, c := range body {
			if c == ',' || c == ':' || c == '{' || c == '[' {
				pos = append(pos, i+1)
			}
		}
		pos = append(pos, 0)
		p := pos[rapid.IntRange(0, len(pos)-1).Draw(t, "wsPos")]
		ws := rapid.SampledFrom([]string{" ", "\n", "\t", "\r\n", "  "}).Draw(t, "ws")
		// position inside a string literal would change the value, which is fine too
		return append(append(append([]byte(nil), body[:p]...), ws...), body[p:]...), kind
	case "trailing":
		tail := rapid.SampledFrom([]string{" ", "\n", "{}", "null", "x", ",", "\x00", "[]", "0"}).Draw(t, "tail")
		return append(append([]byte(nil), body...), tail...), kind
	case "unknown-field":
		f := rapid.SampledFrom([]string{`"unexpected":true,`, `"":0,`, `"formats":"x",`, `"Version2":1,`}).Draw(t, "unk")
		if rapid.Bool().Draw(t, "unkAtEnd") {
			return append(append(append([]byte(nil), body[:len(body)-1]...), ","+strings.TrimSuffix(f, ",")...), '}'), kind
		}
		return append(append([]byte("{"), f...), body[1:]...), kind
	case "duplicate-key":
		f := rapid.SampledFrom([]string{`"version":1,`, `"format":"x",`, `"version":7,`, `"hash_slot_count":256,`}).Draw(t, "dup")
		if rapid.Bool().Draw(t, "dupFirst") {
			return append(append([]byte("{"), f...), body[1:]...), kind
		}
		return append(append(append([]byte(nil), body[:len(body)-1]...), ","+strings.TrimSuffix(f, ",")...), '}'), kind
	case "key-case":
		from := rapid.SampledFrom([]string{`"format"`, `"version"`, `"hash_slot"`, `"chunks"`, `"slots"`, `"manifest_sha256"`, `"kind"`, `"source_cluster_id"`}).Draw(t, "caseKey")
		to := strings.ToUpper(from[:2]) + from[2:]
		if rapid.Bool().Draw(t, "allUpper") {
			to = strings.ToUpper(from)
		}
		if out, ok := verifC38ReplaceNth(body, from, to, 0); ok {
			return out, kind
		}
	case "number-form":
		forms := [][2]string{{`"version":1`, `"version":1.0`}, {`"version":1`, `"version":1e0`}, {`"version":1`, `"version":01`},
			{`"version":1`, `"version":"1"`}, {`"version":1`, `"version":+1`}, {`"version":1`, `"version":1 `}, {`"hash_slot_count":256`, `"hash_slot_count":2.56e2`},
			{`"part":1`, `"part":1.0`}, {`"final":true`, `"final":1`}, {`"final":true`, `"final":"true"`}, {`"records":0`, `"records":-0`}, {`"records":0`, `"records":0.0`}}
		f := forms[rapid.IntRange(0, len(forms)-1).Draw(t, "numForm")]
		if out, ok := verifC38ReplaceNth(body, f[0], f[1], rapid.IntRange(0, 3).Draw(t, "numNth")); ok {
			return out, kind
		}
		if out, ok := verifC38ReplaceNth(body, f[0], f[1], 0); ok {
			return out, kind
		}
	case "string-escape":
		forms := [][2]string{{`"zstd"`, `"zst\u0064"`}, {`"wukongim-`, `"\u0077ukongim-`}, {`"sha256"`, `"sha\u003256"`},
			{`"metadata"`, `"meta\u0064ata"`}, {`"messages"`, `"\u006dessages"`}, {`.json"`, `.jso\u006e"`}, {`/`, `\/`}, {`"format"`, `"f\u006frmat"`}}
		f := forms[rapid.IntRange(0, len(forms)-1).Draw(t, "escForm")]
		if out, ok := verifC38ReplaceNth(body, f[0], f[1], rapid.IntRange(0, 2).Draw(t, "escNth")); ok {
			return out, kind
		}
		if out, ok := verifC38ReplaceNth(body, f[0], f[1], 0); ok {
			return out, kind
		}
	case "field-order":
		// every schema starts with "format":"…","version":1,
		if i := bytes.Index(body, []byte(`,"version":1,`)); i > 0 && bytes.HasPrefix(body, []byte(`{"format":`)) {
			first := body[1:i]
			out := append([]byte(`{"version":1,`), first...)
			out = append(out, ',')
			return append(out, body[i+len(`,"version":1,`):]...), kind
		}
	case "null-or-wrap":
		switch rapid.IntRange(0, 3).Draw(t, "nullKind") {
		case 0:
			return append(append([]byte("["), body...), ']'), kind
		case 1:
			if i := bytes.Index(body, []byte(`"chunks":[`)); i >= 0 {
				if j := bytes.LastIndex(body, []byte(`],"logical_bytes"`)); j > i {
					out := append([]byte(nil), body[:i]...)
					out = append(out, `"chunks":null`...)
					return append(out, body[j+1:]...), kind
				}
			}
		case 2:
			return []byte("null"), kind
		default:
			return append([]byte("\xef\xbb\xbf"), body...), kind
		}
	case "nested-unknown":
		for _, anchor := range []string{`"descriptor":{`, `"cut":{`, `"slots":[{`, `"chunks":[{`} {
			if out, ok := verifC38ReplaceNth(body, anchor, anchor+`"x":0,`, rapid.IntRange(0, 2).Draw(t, "nestNth")); ok {
				return out, kind
			}
		}
	case "number-range":
		forms := [][2]string{{`"version":1`, `"version":4294967297`}, {`"version":1`, `"version":-1`}, {`"hash_slot":`, `"hash_slot":65536`},
			{`"hash_slot":`, `"hash_slot":-`}, {`"records":`, `"records":18446744073709551616`}, {`"version":1`, `"version":2`}, {`"version":1`, `"version":0`},
			{`"hash_slot_count":256`, `"hash_slot_count":257`}, {`"stored_bytes":`, `"stored_bytes":1e400`}}
		f := forms[rapid.IntRange(0, len(forms)-1).Draw(t, "rangeForm")]
		if out, ok := verifC38ReplaceNth(body, f[0], f[1], 0); ok {
			return out, kind
		}
	case "empty-elements":
		n := rapid.SampledFrom([]int{1, 2, 256, 257, 5000, 30000}).Draw(t, "emptyN")
		elems := strings.TrimSuffix(strings.Repeat("{},", n), ",")
		for _, anchor := range []string{`"chunks":[`, `"slots":[`} {
			if i := bytes.Index(body, []byte(anchor)); i >= 0 {
				out := append([]byte(nil), body[:i+len(anchor)]...)
				out = append(out, elems...)
				out = append(out, ',')
				return append(out, body[i+len(anchor):]...), kind
			}
		}
	}
	nb, m := kit.Mutate(t, body)
	return nb, "bytes:" + m.Kind
}

// verifC38ArbitraryJSON draws JSON text built from the schemas' own field
// names with values of arbitrary JSON types.
func verifC38ArbitraryJSON(t *rapid.T, depth int) string {
	keys := []string{"format", "version", "id", "trigger", "source_cluster_id", "hash_slot_count", "slots", "hash_slot", "manifest_key",
		"manifest_sha256", "manifest_bytes", "chunks", "cut", "kind", "sequence", "stream", "part", "final", "key", "descriptor", "stored_sha256",
		"logical_bytes", "stored_bytes", "compression", "records", "max_message_id", "created_at_unix_ms", "zz"}
	switch k := rapid.IntRange(0, 9).Draw(t, "jv"); {
	case k <= 2 && depth < 3:
		n := rapid.IntRange(0, 5).Draw(t, "nFields")
		parts := make([]string, n)
		for i := range parts {
			parts[i] = fmt.Sprintf("%q:%s", rapid.SampledFrom(keys).Draw(t, "fk"), verifC38ArbitraryJSON(t, depth+1))
		}
		return "{" + strings.Join(parts, ",") + "}"
	case k == 3 && depth < 3:
		n := rapid.IntRange(0, 4).Draw(t, "nElems")
		parts := make([]string, n)
		for i := range parts {
			parts[i] = verifC38ArbitraryJSON(t, depth+1)
		}
		return "[" + strings.Join(parts, ",") + "]"
	case k == 4:
		return rapid.SampledFrom([]string{"null", "true", "false"}).Draw(t, "lit")
	case k <= 6:
		return rapid.SampledFrom([]string{"0", "1", "256", "-1", "1.5", "1e3", "18446744073709551615", "18446744073709551616", "4294967296"}).Draw(t, "num")
	default:
		return fmt.Sprintf("%q", rapid.SampledFrom([]string{"", "zstd", "sha256", ArchiveFormat, SlotManifestFormat, RepositoryFormat, CompleteMarkerFormat,
			messageChunkManifestFormat, "metadata", "messages", "slots/000/manifest.json", "../x", "a"}).Draw(t, "str"))
	}
}

// ---- tests ---------------------------------------------------------------------

func TestVerifC38Decoders(t *testing.T) {
	kit.Check(t, "C38", func(rt *rapid.T, k *kit.Case) {
		kind := rapid.SampledFrom([]int{verifC38KindArchive, verifC38KindSlot, verifC38KindSlot, verifC38KindIndex, verifC38KindIndex,
			verifC38KindRepo, verifC38KindComplete}).Draw(rt, "decoder")
		mode := rapid.SampledFrom([]string{"valid", "mutated", "mutated", "mutated", "mutated", "arbitrary", "cross-kind"}).Draw(rt, "mode")
		var body, companion []byte
		label := mode
		switch mode {
		case "valid":
			var value any
			body, companion, value = verifC38ValidBody(rt, kind)
			ok, _, got, err := verifC38Load(kind, body, companion)
			if !ok || err != nil {
				rt.Fatalf("%s decoder rejected canonical output of its encoder: %v\n%s", verifC38KindNames[kind], err, verifC38Trunc(body))
			}
			if !reflect.DeepEqual(got, value) {
				rt.Fatalf("%s round trip changed the value:\n got %+v\nwant %+v", verifC38KindNames[kind], got, value)
			}
		case "mutated":
			var valid []byte
			valid, companion, _ = verifC38ValidBody(rt, kind)
			var what string
			body, what = verifC38JSONMutate(rt, valid)
			label = "mutated: " + what
			if kind == verifC38KindComplete && rapid.IntRange(0, 3).Draw(rt, "mutateCompanion") == 0 {
				// the marker stays as published, the manifest it speaks for changes
				body = valid
				companion, what = verifC38JSONMutate(rt, companion)
				label = "companion manifest mutated: " + what
				if ok, _, _, _ := verifC38Load(kind, body, companion); ok {
					rt.Fatalf("VERIF-VIOLATION C38: COMPLETE marker accepted a manifest that differs from the one it was made for (%s)", what)
				}
			}
		case "arbitrary":
			body = []byte(verifC38ArbitraryJSON(rt, 0))
			_, companion, _ = verifC38ValidBody(rt, verifC38KindArchive)
		default:
			other := rapid.IntRange(0, verifC38Kinds-1).Draw(rt, "otherKind")
			body, companion, _ = verifC38ValidBody(rt, other)
			if other == kind {
				label = "valid"
			} else if companion == nil {
				_, companion, _ = verifC38ValidBody(rt, verifC38KindArchive)
			}
		}
		accepted, problem := verifC38Judge(kind, body, companion)
		if problem != "" {
			rt.Fatalf("VERIF-VIOLATION C38: %s\n case: %s", problem, label)
		}
		k.Key(kind, body, companion)
		k.SetNonTrivial(mode != "valid" && label != "valid")
		k.Label("decoder " + verifC38KindNames[kind])
		k.Label("input " + label)
		if accepted {
			k.Label("accepted")
		} else {
			k.Label("rejected")
		}
		k.LabelIf(accepted && mode != "valid" && label != "valid", "non-generated input accepted (was canonical)")
		k.Sample(func() any {
			return fmt.Sprintf("%s ← %s (%d bytes) accepted=%v: %s", verifC38KindNames[kind], label, len(body), accepted, verifC38Trunc(body[:min(len(body), 160)]))
		})
	})
}

// TestVerifC38Bounds: fixed adversarial objects — a store whose object never
// ends, objects above the documented limits, and a decompression bomb — must
// be refused after a bounded amount of reading/writing.
func TestVerifC38Bounds(t *testing.T) {
	col := kit.For(t, "C38")
	ctx := context.Background()
	seedArchive := rapid.Custom(func(rt *rapid.T) *verifC38Archive { return verifC38Build(rt) }).Example(int(kit.Seed() % (1 << 30)))
	a := seedArchive
	if _, err := VerifyPublishedArchive(ctx, a.store, a.id); err != nil {
		t.Fatalf("seed archive does not verify: %v", err)
	}
	slack := uint64(1 << 20)
	type probe struct {
		name     string
		key      string
		limit    uint64 // documented read bound for this object
		reported func(real uint64) uint64
		run      func(st *verifC38Store) error
	}
	verify := func(st *verifC38Store) error { _, err := VerifyPublishedArchive(ctx, st, a.id); return err }
	rich := a.richSlots[0]
	probes := []probe{}
	for _, obj := range []struct {
		name, key string
		run      func(st *verifC38Store) error
		limit    uint64
	}{
		{"top manifest", a.root + "manifest.json", verify, MaxSlotManifestBytes + 1},
		{"COMPLETE", a.root + "COMPLETE", verify, MaxSlotManifestBytes + 1},
		{"slot manifest", a.root + a.slots[rich].manifestKey, verify, MaxSlotManifestBytes + 1},
		{"repository marker", RepositoryMarkerKey, func(st *verifC38Store) error {
			_, err := EnsureRepository(ctx, st, a.manifest.SourceClusterID, 1)
			return err
		}, (64 << 10) + 1},
		{"message index", a.root + "slots/000/message-index.json", func(st *verifC38Store) error {
			_, err := LoadStoredMessageChunkManifest(ctx, st, a.id, "slots/000/message-index.json", verifC38SHA([]byte("x")))
			return err
		}, MaxSlotManifestBytes + 1},
	} {
		type rep struct {
			name string
			f    func(real uint64) uint64
			big  bool // makes the consumer pull the whole limit (tens of MiB)
		}
		for _, r := range []rep{
			{"reports its true small size", func(real uint64) uint64 { return real }, true},
			{"reports a size above the limit", func(real uint64) uint64 { return obj.limit + 7 }, false},
			{"reports exactly the limit", func(real uint64) uint64 { return obj.limit - 1 }, true},
		} {
			// the 64 MiB reads are slow (fresh memory): the quick tier keeps one
			if r.big && obj.limit > 1<<20 && !kit.Thorough() &&
				!(obj.name == "top manifest" && r.name == "reports its true small size") {
				continue
			}
			probes = append(probes, probe{name: obj.name + " never ends and " + r.name, key: obj.key, limit: obj.limit, reported: r.f, run: obj.run})
		}
	}
	for _, p := range probes {
		st := a.store.clone()
		prefix := st.objects[p.key]
		e := &verifC38Endless{reported: p.reported(uint64(len(prefix))), prefix: prefix, hardStop: p.limit + slack}
		st.endless[p.key] = e
		err := p.run(st)
		if err == nil {
			t.Fatalf("VERIF-VIOLATION C38: %s: accepted", p.name)
		}
		if e.overread || e.read > p.limit {
			t.Fatalf("VERIF-VIOLATION C38: %s: consumer pulled %d bytes, documented bound %d (err=%v)", p.name, e.read, p.limit, err)
		}
		k := col.NewCase()
		k.Key("bounds", p.name)
		k.NonTrivial()
		k.Label("bounded read of an endless object")
		name, read := p.name, e.read
		k.Sample(func() any { return fmt.Sprintf("%s ⇒ refused after %d bytes", name, read) })
		col.Commit(k)
	}

	// decompression bomb: a valid zstd frame expanding past the 64 MiB part limit
	var bomb bytes.Buffer
	w, err := zstd.NewWriter(&bomb, zstd.WithEncoderLevel(zstd.SpeedFastest))
	if err != nil {
		t.Fatal(err)
	}
	zero := make([]byte, 1<<20)
	total := uint64(0)
	for total < MaxChunkLogicalBytes+(3<<20) {
		_, _ = w.Write(zero)
		total += uint64(len(zero))
	}
	_ = w.Close()
	claims := []uint64{MaxChunkLogicalBytes, total}
	if kit.Thorough() {
		claims = append(claims, 1, MaxChunkLogicalBytes-1)
	}
	for _, claimed := range claims {
		d := ChunkDescriptor{StoredSHA256: verifC38SHA(bomb.Bytes()), LogicalSHA256: verifC38SHA(nil), LogicalBytes: claimed,
			StoredBytes: uint64(bomb.Len()), Compression: CompressionZstd}
		cw := &verifC38CountWriter{}
		err := DecodeChunk(cw, bytes.NewReader(bomb.Bytes()), d)
		if err == nil {
			t.Fatalf("VERIF-VIOLATION C38: decompression bomb (%d logical bytes, descriptor claims %d) accepted", total, claimed)
		}
		if cw.n > MaxChunkLogicalBytes+1 {
			t.Fatalf("VERIF-VIOLATION C38: DecodeChunk expanded %d bytes, documented bound %d", cw.n, MaxChunkLogicalBytes+1)
		}
		k := col.NewCase()
		k.Key("bomb", claimed)
		k.NonTrivial()
		k.Label("decompression bomb bounded")
		n := cw.n
		k.Sample(func() any { return fmt.Sprintf("bomb %d→%d bytes, claimed %d ⇒ refused after writing %d", bomb.Len(), total, claimed, n) })
		col.Commit(k)
	}
	// the encoder refuses a part above the limit
	if _, err := EncodeChunk(io.Discard, io.LimitReader(verifC38Zero{}, int64(MaxChunkLogicalBytes)+1)); err == nil {
		t.Fatalf("VERIF-VIOLATION C38: EncodeChunk accepted a part above MaxChunkLogicalBytes")
	}
}

type verifC38CountWriter struct{ n uint64 }

func (w *verifC38CountWriter) Write(p []byte) (int, error) { w.n += uint64(len(p)); return len(p), nil }

type verifC38Zero struct{}

func (verifC38Zero) Read(p []byte) (int, error) {
	for i := range p {
		p[i] = 0
	}
	return len(p), nil
}

// FuzzVerifC38Decode: native fuzzing of the five decoders with the same oracle.
func FuzzVerifC38Decode(f *testing.F) {
	for i := 0; i < 3; i++ {
		for kind := 0; kind < verifC38Kinds; kind++ {
			kind := kind
			pair := rapid.Custom(func(t *rapid.T) [2][]byte {
				b, c, _ := verifC38ValidBody(t, kind)
				return [2][]byte{b, c}
			}).Example(i*7 + kind)
			f.Add(uint8(kind), pair[0], pair[1])
		}
	}
	f.Add(uint8(1), []byte(`{"format":"wukongim-full-backup-slot","version":1,"chunks":[{},{},{}]}`), []byte(nil))
	f.Add(uint8(0), []byte(`{"slots":[{},{}]} {}`), []byte(nil))
	f.Fuzz(func(t *testing.T, which uint8, data, companion []byte) {
		kind := int(which) % verifC38Kinds
		if _, problem := verifC38Judge(kind, data, companion); problem != "" {
			t.Fatalf("VERIF-VIOLATION C38: %s", problem)
		}
	})
}
