package fsm

import (
	"bytes"
	"encoding/binary"
	"fmt"
	"reflect"
	"runtime"
	"sort"
	"sync"
	"testing"

	metadb "github.com/WuKongIM/WuKongIM/pkg/db/meta"
	"github.com/WuKongIM/WuKongIM/pkg/slot/multiraft"
	"pgregory.net/rapid"
	"verif.local/kit"
)

var verifC27Once sync.Once

func verifC27Flag(codec, what string) {
	verifC27Once.Do(func() { fmt.Printf("VERIF-VIOLATION C27 %s: %s\n", codec, what) })
}

func verifC27Trunc(b []byte) []byte {
	if len(b) > 96 {
		return b[:96]
	}
	return b
}

// verifC27Bound: TLV lengths are checked against the remaining input before any
// copy; the fixed pre-sized tables are MaxPersonDirectoryBatchItems /
// MaxCreateChannelRuntimeMetaBatchItems entries; JSON payloads allocate a
// generous constant factor of their size.
func verifC27Bound(n int) uint64 { return 512<<10 + 1024*uint64(n) }

func verifC27Guard(rt *rapid.T, codec string, in []byte, dec func([]byte) error) (err error) {
	bound := verifC27Bound(len(in))
	var before, after runtime.MemStats
	runtime.ReadMemStats(&before)
	func() {
		defer func() {
			if r := recover(); r != nil {
				verifC27Flag(codec, "decoder panicked")
				rt.Fatalf("VERIF-VIOLATION %s: decoder panicked on %d-byte input %x: %v", codec, len(in), verifC27Trunc(in), r)
			}
		}()
		err = dec(in)
	}()
	runtime.ReadMemStats(&after)
	if d := after.TotalAlloc - before.TotalAlloc; d > bound {
		verifC27Flag(codec, "allocation beyond bound")
		rt.Fatalf("VERIF-VIOLATION %s: decoding %d-byte input %x allocated %d bytes (bound %d)", codec, len(in), verifC27Trunc(in), d, bound)
	}
	return err
}

// ---- generators --------------------------------------------------------------------

func verifC27ID() *rapid.Generator[string] {
	return rapid.Custom(func(t *rapid.T) string {
		switch rapid.IntRange(0, 4).Draw(t, "idKind") {
		case 0:
			return ""
		case 1:
			return string(kit.Bytes(200).Draw(t, "rawID"))
		case 2:
			return rapid.StringN(0, 8, 32).Draw(t, "uniID")
		default:
			return rapid.StringMatching(`[a-z0-9_\-]{1,16}`).Draw(t, "ident")
		}
	})
}

// verifC27UID: user ids are non-empty and never contain NUL (the string-set
// separator) — internal/usecase/user validates them before they reach the FSM.
func verifC27UID() *rapid.Generator[string] {
	return rapid.Custom(func(t *rapid.T) string {
		if rapid.IntRange(0, 3).Draw(t, "uidKind") == 0 {
			s := rapid.StringN(1, 8, 32).Draw(t, "uniUID")
			out := []rune{}
			for _, r := range s {
				if r != 0 {
					out = append(out, r)
				}
			}
			if len(out) == 0 {
				return "u"
			}
			return string(out)
		}
		return rapid.StringMatching(`[a-z0-9_\-]{1,12}`).Draw(t, "uid")
	})
}

func verifC27I64() *rapid.Generator[int64] {
	return rapid.Custom(func(t *rapid.T) int64 {
		switch rapid.IntRange(0, 3).Draw(t, "i64Kind") {
		case 0:
			return rapid.SampledFrom([]int64{0, 1, -1, 1<<63 - 1, -1 << 63}).Draw(t, "i64Edge")
		default:
			return rapid.Int64Range(-3, 1<<40).Draw(t, "i64")
		}
	})
}

func verifC27Bytes() *rapid.Generator[[]byte] {
	return rapid.Custom(func(t *rapid.T) []byte {
		b := kit.Bytes(1024).Draw(t, "bytes")
		if len(b) == 0 {
			return nil // a zero-length TLV value decodes to nil: one codec value
		}
		return b
	})
}

func verifC27U64Set(t *rapid.T, label string) []uint64 {
	return rapid.SliceOfN(rapid.OneOf(rapid.Uint64Range(1, 6), kit.Uint64Edge()), 0, 6).Draw(t, label)
}

func verifC27RuntimeMeta() *rapid.Generator[metadb.ChannelRuntimeMeta] {
	return rapid.Custom(func(t *rapid.T) metadb.ChannelRuntimeMeta {
		m := metadb.ChannelRuntimeMeta{
			ChannelID: verifC27ID().Draw(t, "channelID"), ChannelType: verifC27I64().Draw(t, "channelType"),
			ChannelEpoch: kit.Uint64Edge().Draw(t, "channelEpoch"), LeaderEpoch: kit.Uint64Edge().Draw(t, "leaderEpoch"),
			RouteGeneration: kit.Uint64Edge().Draw(t, "routeGeneration"), Replicas: verifC27U64Set(t, "replicas"), ISR: verifC27U64Set(t, "isr"),
			Leader: kit.Uint64Edge().Draw(t, "leader"), MinISR: verifC27I64().Draw(t, "minISR"), Status: rapid.Byte().Draw(t, "status"),
			Features: kit.Uint64Edge().Draw(t, "features"), LeaseUntilMS: verifC27I64().Draw(t, "leaseUntil"),
			RetentionThroughSeq: kit.Uint64Edge().Draw(t, "retention"), RetentionUpdatedAtMS: verifC27I64().Draw(t, "retentionUpdatedAt"),
			WriteFenceVersion: kit.Uint64Edge().Draw(t, "fenceVersion"), WriteFenceReason: rapid.Byte().Draw(t, "fenceReason"), WriteFenceUntilMS: verifC27I64().Draw(t, "fenceUntil"),
		}
		if rapid.Bool().Draw(t, "hasFenceToken") {
			m.WriteFenceToken = "tok-" + verifC27ID().Draw(t, "fenceToken")
		}
		return m
	})
}

func verifC27Membership() *rapid.Generator[metadb.UserChannelMembership] {
	return rapid.Custom(func(t *rapid.T) metadb.UserChannelMembership {
		return metadb.UserChannelMembership{
			UID: verifC27ID().Draw(t, "uid"), ChannelID: verifC27ID().Draw(t, "channelID"), ChannelType: verifC27I64().Draw(t, "channelType"),
			JoinSeq: kit.Uint64Edge().Draw(t, "joinSeq"), ReadSeq: kit.Uint64Edge().Draw(t, "readSeq"), DeletedToSeq: kit.Uint64Edge().Draw(t, "deletedToSeq"),
			ActivatedAt: verifC27I64().Draw(t, "activatedAt"), Tombstone: rapid.Bool().Draw(t, "tombstone"), TombstoneAt: verifC27I64().Draw(t, "tombstoneAt"),
			SourceVersion: kit.Uint64Edge().Draw(t, "sourceVersion"), UpdatedAt: verifC27I64().Draw(t, "updatedAt"),
		}
	})
}

func verifC27CMDMembership() *rapid.Generator[metadb.UserCMDChannelMembership] {
	return rapid.Custom(func(t *rapid.T) metadb.UserCMDChannelMembership {
		return metadb.UserCMDChannelMembership{
			UID: verifC27ID().Draw(t, "uid"), CommandChannelID: verifC27ID().Draw(t, "cmdChannelID"), ChannelType: verifC27I64().Draw(t, "channelType"),
			StartSeq: kit.Uint64Edge().Draw(t, "startSeq"), AckSeq: kit.Uint64Edge().Draw(t, "ackSeq"), Tombstone: rapid.Bool().Draw(t, "tombstone"),
			TombstoneAt: verifC27I64().Draw(t, "tombstoneAt"), UpdatedAt: verifC27I64().Draw(t, "updatedAt"),
		}
	})
}

func verifC27Latest() *rapid.Generator[metadb.ChannelLatest] {
	return rapid.Custom(func(t *rapid.T) metadb.ChannelLatest {
		return metadb.ChannelLatest{
			ChannelID: verifC27ID().Draw(t, "channelID"), ChannelType: verifC27I64().Draw(t, "channelType"), LastMessageID: kit.Uint64Edge().Draw(t, "lastID"),
			LastMessageSeq: kit.Uint64Edge().Draw(t, "lastSeq"), LastAt: verifC27I64().Draw(t, "lastAt"), FromUID: verifC27ID().Draw(t, "fromUID"),
			ClientMsgNo: verifC27ID().Draw(t, "clientMsgNo"), Payload: verifC27Bytes().Draw(t, "payload"), UpdatedAt: verifC27I64().Draw(t, "updatedAt"),
		}
	})
}

var verifC27EventTypes = []string{metadb.EventTypeStreamOpen, metadb.EventTypeStreamDelta, metadb.EventTypeStreamClose, metadb.EventTypeStreamError, metadb.EventTypeStreamCancel, metadb.EventTypeStreamSnapshot, metadb.EventTypeStreamFinish}

func verifC27Event(t *rapid.T, channelID string, channelType int64, anyType bool) metadb.MessageEventAppend {
	e := metadb.MessageEventAppend{
		ChannelID: channelID, ChannelType: channelType, ClientMsgNo: "m" + verifC27ID().Draw(t, "clientMsgNo"), EventID: "e" + verifC27ID().Draw(t, "eventID"),
		EventKey: verifC27ID().Draw(t, "eventKey"), EventType: rapid.SampledFrom(verifC27EventTypes).Draw(t, "eventType"), Visibility: verifC27ID().Draw(t, "visibility"),
		OccurredAt: verifC27I64().Draw(t, "occurredAt"), Payload: verifC27Bytes().Draw(t, "payload"), UpdatedAt: verifC27I64().Draw(t, "updatedAt"),
	}
	if anyType && rapid.Bool().Draw(t, "freeEventType") {
		e.EventType = verifC27ID().Draw(t, "anyEventType")
	}
	return e
}

func verifC27EventState() *rapid.Generator[metadb.MessageEventState] {
	return rapid.Custom(func(t *rapid.T) metadb.MessageEventState {
		return metadb.MessageEventState{
			ChannelID: verifC27ID().Draw(t, "channelID"), ChannelType: verifC27I64().Draw(t, "channelType"), ClientMsgNo: verifC27ID().Draw(t, "clientMsgNo"),
			EventKey: verifC27ID().Draw(t, "eventKey"), Status: verifC27ID().Draw(t, "status"), LastMsgEventSeq: kit.Uint64Edge().Draw(t, "lastSeq"),
			LastEventID: verifC27ID().Draw(t, "lastEventID"), LastEventType: verifC27ID().Draw(t, "lastEventType"), LastVisibility: verifC27ID().Draw(t, "lastVisibility"),
			LastOccurredAt: verifC27I64().Draw(t, "lastOccurredAt"), SnapshotPayload: verifC27Bytes().Draw(t, "snapshot"), EndReason: rapid.Byte().Draw(t, "endReason"),
			Error: verifC27ID().Draw(t, "error"), UpdatedAt: verifC27I64().Draw(t, "updatedAt"),
		}
	})
}

func verifC27EventResult() *rapid.Generator[metadb.MessageEventAppendResult] {
	return rapid.Custom(func(t *rapid.T) metadb.MessageEventAppendResult {
		return metadb.MessageEventAppendResult{
			ChannelID: verifC27ID().Draw(t, "channelID"), ChannelType: verifC27I64().Draw(t, "channelType"), ClientMsgNo: verifC27ID().Draw(t, "clientMsgNo"),
			EventID: verifC27ID().Draw(t, "eventID"), EventKey: verifC27ID().Draw(t, "eventKey"), MsgEventSeq: kit.Uint64Edge().Draw(t, "seq"),
			Status: verifC27ID().Draw(t, "status"), State: verifC27EventState().Draw(t, "state"),
		}
	})
}

func verifC27StringSet(in []string) []string {
	if len(in) == 0 {
		return nil
	}
	out := append([]string(nil), in...)
	sort.Strings(out)
	n := 1
	for i := 1; i < len(out); i++ {
		if out[i] != out[n-1] {
			out[n] = out[i]
			n++
		}
	}
	return out[:n]
}

// verifC27Command is one generated valid command: its encoding (made by the
// exported Encode* function) and the value decodeCommand must return.
type verifC27Command struct {
	name string
	enc  []byte
	want command
	// skipsUnknown: the family documents "unknown tags are skipped".
	skipsUnknown bool
	// unknownValueLen forces the length of an injected unknown-tag value (0 = any).
	unknownValueLen int
}

func verifC27JSON[T any](t *rapid.T, name string, encode func(T) []byte, wrap func(T) command) verifC27Command {
	v := rapid.Make[T]().Draw(t, name)
	return verifC27Command{name: name, enc: encode(v), want: wrap(v), skipsUnknown: true}
}

var verifC27Families = []string{
	"Noop", "UpsertUser", "CreateUser", "UpsertDevice", "UpsertChannel", "CreateChannel", "PatchChannelBusinessFlags", "DeleteChannel",
	"UpsertChannelRuntimeMeta", "DeleteChannelRuntimeMeta", "AdvanceChannelRetention", "AddSubscribers", "RemoveSubscribers",
	"UpsertUserChannelMemberships", "DeleteUserChannelMemberships", "AdvanceMembershipReadSeq", "HideMembership", "ActivateMembership",
	"UpsertUserCMDMemberships", "AdvanceUserCMDAcks", "TombstoneUserCMDMemberships", "UpsertChannelLatest", "UpsertChannelLatestBatch",
	"AppendMessageEvent", "AppendMessageEventsBatch", "BindPluginUser", "UnbindPluginUser", "ApplyDelta", "EnterFence", "AckMigrationOutbox",
	"CleanupMigrationOutbox", "CreateChannelRuntimeMetaBatch",
	"CreateChannelMigrationTask", "CreateChannelMigrationTaskGuarded", "ClaimChannelMigrationTask", "AdvanceChannelMigrationTask", "SetChannelWriteFence",
	"ResetChannelWriteFence", "CommitChannelLeaderTransfer", "AddChannelLearner", "PromoteLearnerAndRemoveReplica", "ClearChannelWriteFence",
	"AbortChannelMigration", "GarbageCollectMigrationTasks",
}

func verifC27CommandGen() *rapid.Generator[verifC27Command] {
	return rapid.Custom(func(t *rapid.T) verifC27Command {
		family := rapid.SampledFrom(verifC27Families).Draw(t, "family")
		c := verifC27Command{name: family, skipsUnknown: true}
		user := func() metadb.User {
			return metadb.User{UID: verifC27ID().Draw(t, "uid"), Token: verifC27ID().Draw(t, "token"), DeviceFlag: verifC27I64().Draw(t, "deviceFlag"), DeviceLevel: verifC27I64().Draw(t, "deviceLevel")}
		}
		channel := func() metadb.Channel {
			// the command carries the business fields; counters / projection state are DB-managed
			return metadb.Channel{ChannelID: verifC27ID().Draw(t, "channelID"), ChannelType: verifC27I64().Draw(t, "channelType"), Ban: verifC27I64().Draw(t, "ban"),
				Disband: verifC27I64().Draw(t, "disband"), SendBan: verifC27I64().Draw(t, "sendBan"), AllowStranger: verifC27I64().Draw(t, "allowStranger"), Large: verifC27I64().Draw(t, "large")}
		}
		memberships := func() []metadb.UserChannelMembership {
			return rapid.SliceOfN(verifC27Membership(), 1, 5).Draw(t, "memberships")
		}
		cmdMemberships := func() []metadb.UserCMDChannelMembership {
			return rapid.SliceOfN(verifC27CMDMembership(), 1, 5).Draw(t, "cmdMemberships")
		}
		switch family {
		case "Noop":
			c.enc, c.want = EncodeNoopCommand(), &noopCmd{}
		case "UpsertUser":
			u := user()
			c.enc, c.want = EncodeUpsertUserCommand(u), &upsertUserCmd{user: u}
		case "CreateUser":
			u := user()
			c.enc, c.want = EncodeCreateUserCommand(u), &createUserCmd{user: u}
		case "UpsertDevice":
			d := metadb.Device{UID: verifC27ID().Draw(t, "uid"), DeviceFlag: verifC27I64().Draw(t, "deviceFlag"), Token: verifC27ID().Draw(t, "token"), DeviceLevel: verifC27I64().Draw(t, "deviceLevel")}
			c.enc, c.want = EncodeUpsertDeviceCommand(d), &upsertDeviceCmd{device: d}
		case "UpsertChannel":
			ch := channel()
			c.enc, c.want = EncodeUpsertChannelCommand(ch), &upsertChannelCmd{channel: ch}
		case "CreateChannel":
			ch := channel()
			c.enc, c.want = EncodeCreateChannelCommand(ch), &createChannelCmd{channel: ch}
		case "PatchChannelBusinessFlags":
			ch := channel()
			flags := metadb.ChannelBusinessFlags{Ban: ch.Ban, Disband: ch.Disband, SendBan: ch.SendBan}
			c.enc = EncodePatchChannelBusinessFlagsCommand(ch.ChannelID, ch.ChannelType, flags)
			c.want = &patchChannelBusinessFlagsCmd{channelID: ch.ChannelID, channelType: ch.ChannelType, flags: flags}
		case "DeleteChannel":
			id, typ := verifC27ID().Draw(t, "channelID"), verifC27I64().Draw(t, "channelType")
			c.enc, c.want = EncodeDeleteChannelCommand(id, typ), &deleteChannelCmd{channelID: id, channelType: typ}
		case "UpsertChannelRuntimeMeta":
			m := verifC27RuntimeMeta().Draw(t, "meta")
			c.enc, c.want = EncodeUpsertChannelRuntimeMetaCommand(m), &upsertChannelRuntimeMetaCmd{meta: metadb.NormalizeChannelRuntimeMeta(m)}
		case "DeleteChannelRuntimeMeta":
			id, typ := verifC27ID().Draw(t, "channelID"), verifC27I64().Draw(t, "channelType")
			c.enc, c.want = EncodeDeleteChannelRuntimeMetaCommand(id, typ), &deleteChannelRuntimeMetaCmd{channelID: id, channelType: typ}
		case "AdvanceChannelRetention":
			req := metadb.ChannelRetentionAdvance{ChannelID: verifC27ID().Draw(t, "channelID"), ChannelType: verifC27I64().Draw(t, "channelType"), ExpectedChannelEpoch: kit.Uint64Edge().Draw(t, "epoch"),
				ExpectedLeaderEpoch: kit.Uint64Edge().Draw(t, "leaderEpoch"), ExpectedLeader: kit.Uint64Edge().Draw(t, "leader"), ExpectedLeaseUntilMS: verifC27I64().Draw(t, "lease"),
				RetentionThroughSeq: kit.Uint64Edge().Draw(t, "through"), RetentionUpdatedAtMS: verifC27I64().Draw(t, "updatedAt")}
			c.enc, c.want = EncodeAdvanceChannelRetentionThroughSeqCommand(req), &advanceChannelRetentionThroughSeqCmd{req: req}
		case "AddSubscribers", "RemoveSubscribers":
			id, typ := verifC27ID().Draw(t, "channelID"), verifC27I64().Draw(t, "channelType")
			uids := rapid.SliceOfN(verifC27UID(), 0, 8).Draw(t, "uids")
			var version []uint64
			var wantVersion uint64
			if rapid.Bool().Draw(t, "hasVersion") {
				wantVersion = kit.Uint64Edge().Draw(t, "mutationVersion")
				version = []uint64{wantVersion}
			}
			if family == "AddSubscribers" {
				c.enc = EncodeAddSubscribersCommand(id, typ, uids, version...)
				c.want = &addSubscribersCmd{channelID: id, channelType: typ, uids: verifC27StringSet(uids), subscriberMutationVersion: wantVersion}
			} else {
				c.enc = EncodeRemoveSubscribersCommand(id, typ, uids, version...)
				c.want = &removeSubscribersCmd{channelID: id, channelType: typ, uids: verifC27StringSet(uids), subscriberMutationVersion: wantVersion}
			}
		case "UpsertUserChannelMemberships":
			ms := memberships()
			c.enc, c.want = EncodeUpsertUserChannelMembershipsCommand(ms), &upsertUserChannelMembershipsCmd{memberships: ms}
		case "DeleteUserChannelMemberships":
			ms := memberships()
			c.enc, c.want = EncodeDeleteUserChannelMembershipsCommand(ms), &deleteUserChannelMembershipsCmd{memberships: ms}
		case "AdvanceMembershipReadSeq":
			ms := memberships()
			c.enc, c.want = EncodeAdvanceUserChannelMembershipReadSeqCommand(ms), &advanceUserChannelMembershipReadSeqCmd{memberships: ms}
		case "HideMembership":
			ms := memberships()
			c.enc, c.want = EncodeHideUserChannelMembershipCommand(ms), &hideUserChannelMembershipCmd{memberships: ms}
		case "ActivateMembership":
			ms := memberships()
			c.enc, c.want = EncodeActivateUserChannelMembershipCommand(ms), &activateUserChannelMembershipCmd{memberships: ms}
		case "UpsertUserCMDMemberships":
			ms := cmdMemberships()
			c.enc, c.want = EncodeUpsertUserCMDChannelMembershipsCommand(ms), &upsertUserCMDChannelMembershipsCmd{memberships: ms}
		case "AdvanceUserCMDAcks":
			ms := cmdMemberships()
			c.enc, c.want = EncodeAdvanceUserCMDChannelMembershipAcksCommand(ms), &advanceUserCMDChannelMembershipAcksCmd{memberships: ms}
		case "TombstoneUserCMDMemberships":
			ms := cmdMemberships()
			c.enc, c.want = EncodeTombstoneUserCMDChannelMembershipsCommand(ms), &tombstoneUserCMDChannelMembershipsCmd{memberships: ms}
		case "UpsertChannelLatest":
			l := verifC27Latest().Draw(t, "latest")
			c.enc, c.want = EncodeUpsertChannelLatestCommand(l), &upsertChannelLatestCmd{latest: l}
		case "UpsertChannelLatestBatch":
			items := rapid.SliceOfN(rapid.Custom(func(t *rapid.T) ChannelLatestBatchItem {
				return ChannelLatestBatchItem{HashSlot: rapid.Uint16().Draw(t, "hashSlot"), Latest: verifC27Latest().Draw(t, "latest")}
			}), 1, 4).Draw(t, "items")
			c.enc, c.want = EncodeUpsertChannelLatestBatchCommand(items), &upsertChannelLatestBatchCmd{items: items}
		case "AppendMessageEvent":
			e := verifC27Event(t, verifC27ID().Draw(t, "channelID"), verifC27I64().Draw(t, "channelType"), true)
			c.enc, c.want = EncodeAppendMessageEventCommand(e), &appendMessageEventCmd{event: e}
		case "AppendMessageEventsBatch":
			id, typ := "c"+verifC27ID().Draw(t, "channelID"), rapid.Int64Range(1, 255).Draw(t, "channelType")
			n := rapid.IntRange(1, 4).Draw(t, "events")
			events := make([]metadb.MessageEventAppend, n)
			for i := range events {
				events[i] = verifC27Event(t, id, typ, false)
			}
			enc, err := EncodeAppendMessageEventsCommandChecked(events)
			if err != nil {
				t.Fatalf("harness: valid event batch refused: %v", err)
			}
			c.enc, c.want = enc, &appendMessageEventsBatchCmd{events: events}
		case "BindPluginUser":
			b := metadb.PluginUserBinding{UID: verifC27ID().Draw(t, "uid"), PluginNo: verifC27ID().Draw(t, "pluginNo"), CreatedAtMS: verifC27I64().Draw(t, "createdAt"), UpdatedAtMS: verifC27I64().Draw(t, "updatedAt")}
			c.enc, c.want = EncodeBindPluginUserCommand(b), &bindPluginUserCmd{binding: b}
		case "UnbindPluginUser":
			uid, no := verifC27ID().Draw(t, "uid"), verifC27ID().Draw(t, "pluginNo")
			c.enc, c.want = EncodeUnbindPluginUserCommand(uid, no), &unbindPluginUserCmd{uid: uid, pluginNo: no}
		case "ApplyDelta":
			src, idx, hs := multiraft.SlotID(kit.Uint64Edge().Draw(t, "sourceSlot")), kit.Uint64Edge().Draw(t, "sourceIndex"), rapid.Uint16().Draw(t, "hashSlot")
			orig := verifC27Bytes().Draw(t, "original")
			if rapid.Bool().Draw(t, "realOriginal") {
				orig = EncodeUpsertUserCommand(user())
			}
			c.enc, c.want = EncodeApplyDeltaCommand(src, idx, hs, orig), &applyDeltaCmd{SourceSlotID: src, SourceIndex: idx, HashSlot: hs, OriginalCmd: orig}
		case "EnterFence":
			hs := rapid.Uint16().Draw(t, "hashSlot")
			if rapid.Bool().Draw(t, "withTarget") {
				target := multiraft.SlotID(kit.Uint64Edge().Draw(t, "target"))
				c.enc, c.want = EncodeEnterFenceCommandForTarget(hs, target), &enterFenceCmd{HashSlot: hs, Target: target}
			} else {
				c.enc, c.want = EncodeEnterFenceCommand(hs), &enterFenceCmd{HashSlot: hs}
			}
		case "AckMigrationOutbox", "CleanupMigrationOutbox":
			hs, src, dst, idx := rapid.Uint16().Draw(t, "hashSlot"), multiraft.SlotID(kit.Uint64Edge().Draw(t, "source")), multiraft.SlotID(kit.Uint64Edge().Draw(t, "target")), kit.Uint64Edge().Draw(t, "index")
			c.unknownValueLen = 8 // this family validates the value length before looking at the tag
			if family == "AckMigrationOutbox" {
				c.enc, c.want = EncodeAckHashSlotMigrationOutboxCommand(hs, src, dst, idx), &ackMigrationOutboxCmd{HashSlot: hs, SourceSlot: src, TargetSlot: dst, SourceIndex: idx}
			} else {
				c.enc, c.want = EncodeCleanupHashSlotMigrationOutboxCommand(hs, src, dst, idx), &cleanupMigrationOutboxCmd{HashSlot: hs, SourceSlot: src, TargetSlot: dst, ThroughIndex: idx}
			}
		case "CreateChannelRuntimeMetaBatch":
			n := rapid.IntRange(1, 4).Draw(t, "items")
			items := make([]CreateChannelRuntimeMetaBatchItem, n)
			for i := range items {
				m := verifC27RuntimeMeta().Draw(t, "meta")
				m.ChannelID = fmt.Sprintf("c%d-%s", i, m.ChannelID) // distinct, non-empty
				if m.ChannelType == 0 {
					m.ChannelType = 2
				}
				items[i] = CreateChannelRuntimeMetaBatchItem{HashSlot: rapid.Uint16().Draw(t, "hashSlot"), Meta: m}
			}
			enc, err := EncodeCreateChannelRuntimeMetaBatchCommandChecked(items)
			if err != nil {
				t.Fatalf("harness: valid runtime meta batch refused: %v", err)
			}
			canonical, err := canonicalCreateChannelRuntimeMetaBatch(items)
			if err != nil {
				t.Fatalf("harness: canonical batch: %v", err)
			}
			c.enc, c.want, c.skipsUnknown = enc, &createChannelRuntimeMetaBatchCmd{items: canonical}, false
		case "CreateChannelMigrationTask":
			c = verifC27JSON(t, family, EncodeCreateChannelMigrationTaskCommand, func(v metadb.ChannelMigrationTask) command { return &createChannelMigrationTaskCmd{task: v} })
		case "CreateChannelMigrationTaskGuarded":
			c = verifC27JSON(t, family, EncodeCreateChannelMigrationTaskWithRuntimeGuardCommand, func(v metadb.ChannelMigrationTaskCreate) command {
				return &createChannelMigrationTaskWithRuntimeGuardCmd{req: v}
			})
		case "ClaimChannelMigrationTask":
			c = verifC27JSON(t, family, EncodeClaimChannelMigrationTaskCommand, func(v metadb.ChannelMigrationTaskClaim) command { return &claimChannelMigrationTaskCmd{req: v} })
		case "AdvanceChannelMigrationTask":
			c = verifC27JSON(t, family, EncodeAdvanceChannelMigrationTaskCommand, func(v metadb.ChannelMigrationTaskAdvance) command { return &advanceChannelMigrationTaskCmd{req: v} })
		case "SetChannelWriteFence":
			c = verifC27JSON(t, family, EncodeSetChannelWriteFenceCommand, func(v metadb.ChannelMigrationFenceRequest) command { return &setChannelWriteFenceCmd{req: v} })
		case "ResetChannelWriteFence":
			c = verifC27JSON(t, family, EncodeResetChannelWriteFenceToPreCutoverCommand, func(v metadb.ChannelMigrationResetFenceRequest) command {
				return &resetChannelWriteFenceToPreCutoverCmd{req: v}
			})
		case "CommitChannelLeaderTransfer":
			c = verifC27JSON(t, family, EncodeCommitChannelLeaderTransferCommand, func(v metadb.ChannelMigrationLeaderTransferRequest) command {
				return &commitChannelLeaderTransferCmd{req: v}
			})
		case "AddChannelLearner":
			c = verifC27JSON(t, family, EncodeAddChannelLearnerCommand, func(v metadb.ChannelMigrationAddLearnerRequest) command { return &addChannelLearnerCmd{req: v} })
		case "PromoteLearnerAndRemoveReplica":
			c = verifC27JSON(t, family, EncodePromoteLearnerAndRemoveReplicaCommand, func(v metadb.ChannelMigrationPromoteLearnerRequest) command {
				return &promoteLearnerAndRemoveReplicaCmd{req: v}
			})
		case "ClearChannelWriteFence":
			c = verifC27JSON(t, family, EncodeClearChannelWriteFenceCommand, func(v metadb.ChannelMigrationClearFenceRequest) command { return &clearChannelWriteFenceCmd{req: v} })
		case "AbortChannelMigration":
			c = verifC27JSON(t, family, EncodeAbortChannelMigrationCommand, func(v metadb.ChannelMigrationAbortRequest) command { return &abortChannelMigrationCmd{req: v} })
		case "GarbageCollectMigrationTasks":
			c = verifC27JSON(t, family, EncodeGarbageCollectTerminalChannelMigrationTasksCommand, func(v metadb.ChannelMigrationTaskGCRequest) command {
				return &garbageCollectMigrationTasksCmd{req: v}
			})
		}
		return c
	})
}

// verifC27Boundaries returns the offsets at which a top-level TLV of enc starts
// (plus len(enc)).
func verifC27Boundaries(enc []byte) []int {
	out := []int{}
	off := headerSize
	for off+tlvOverhead <= len(enc) {
		out = append(out, off)
		off += tlvOverhead + int(binary.BigEndian.Uint32(enc[off+1:]))
	}
	return append(out, len(enc))
}

// TestVerifC27FsmCommand: decodeCommand(Encode*Command(v)) == v for every command
// family; cuts inside a TLV are rejected; the documented unknown-tag rule holds;
// hostile TLV lengths and generated mutations never panic or over-allocate.
func TestVerifC27FsmCommand(t *testing.T) {
	kit.Check(t, "C27", func(rt *rapid.T, k *kit.Case) {
		c := verifC27CommandGen().Draw(rt, "command")
		var got command
		if err := verifC27Guard(rt, "fsm.decodeCommand", c.enc, func(b []byte) error {
			var e error
			got, e = decodeCommand(b)
			return e
		}); err != nil {
			rt.Fatalf("%s: decodeCommand of own encoding failed: %v\nframe %x", c.name, err, verifC27Trunc(c.enc))
		}
		if !reflect.DeepEqual(got, c.want) {
			rt.Fatalf("%s round trip differs:\n got  %+v\n want %+v", c.name, got, c.want)
		}
		// prefixes: a cut inside a TLV (or inside the header) is always an error; a
		// cut on a TLV boundary is a shorter well-formed TLV sequence (error or value)
		bounds := verifC27Boundaries(c.enc)
		isBound := map[int]bool{}
		for _, b := range bounds {
			isBound[b] = true
		}
		inside, onBoundary := 0, 0
		step := 1
		if len(c.enc) > 600 {
			step = len(c.enc) / 300
		}
		for cut := 0; cut < len(c.enc); cut++ {
			if !isBound[cut] && cut > 48 && cut < len(c.enc)-48 && cut%step != 0 {
				continue
			}
			_, err := decodeCommand(c.enc[:cut])
			if isBound[cut] {
				onBoundary++
				continue
			}
			inside++
			if err == nil {
				rt.Fatalf("%s: prefix %d/%d cut inside a TLV was accepted", c.name, cut, len(c.enc))
			}
		}
		// unknown tag injected at a top-level boundary is skipped (documented rule)
		if c.skipsUnknown {
			at := bounds[rapid.IntRange(0, len(bounds)-1).Draw(rt, "unknownAt")]
			value := kit.Bytes(40).Draw(rt, "unknownValue")
			if c.unknownValueLen > 0 {
				value = append(value, make([]byte, c.unknownValueLen)...)[:c.unknownValueLen]
			}
			tlv := appendBytesTLVField(nil, byte(rapid.IntRange(200, 255).Draw(rt, "unknownTag")), value)
			withUnknown := append(append(append([]byte(nil), c.enc[:at]...), tlv...), c.enc[at:]...)
			gotU, err := decodeCommand(withUnknown)
			if err != nil || !reflect.DeepEqual(gotU, c.want) {
				rt.Fatalf("%s: unknown tag %d at offset %d not skipped: err=%v got=%+v", c.name, tlv[0], at, err, gotU)
			}
		}
		// header: other versions / unregistered command types are refused
		bad := append([]byte(nil), c.enc...)
		bad[0] = rapid.SampledFrom([]byte{0, 2, 3, 0xff}).Draw(rt, "badVersion")
		if _, err := decodeCommand(bad); err == nil {
			rt.Fatalf("%s: command version %d accepted", c.name, bad[0])
		}
		bad[0] = commandVersion
		bad[1] = rapid.SampledFrom([]byte{0, 10, 11, 12, 13, 14, 16, 17, 18, 24, 29, 58, 60, 61, 62, 66, 100, 255}).Draw(rt, "unregisteredType")
		if _, err := decodeCommand(bad); err == nil {
			rt.Fatalf("%s: unregistered command type %d accepted", c.name, bad[1])
		}
		// hostile declared lengths on every top-level TLV
		hostile := 0
		for _, b := range bounds[:len(bounds)-1] {
			f := append([]byte(nil), c.enc...)
			declared := binary.BigEndian.Uint32(f[b+1:])
			binary.BigEndian.PutUint32(f[b+1:], rapid.SampledFrom([]uint32{declared + uint32(len(c.enc)) + 1, 1 << 20, 1<<31 - 1, 1 << 31, 1<<32 - 1}).Draw(rt, "hostileLen"))
			if verifC27Guard(rt, "fsm.decodeCommand(hostile length)", f, func(in []byte) error { _, e := decodeCommand(in); return e }) == nil {
				rt.Fatalf("%s: TLV at %d with a declared length beyond the input was accepted", c.name, b)
			}
			hostile++
		}
		mut, m := kit.Mutate(rt, c.enc)
		errMut := verifC27Guard(rt, "fsm.decodeCommand(mutated)", mut, func(in []byte) error { _, e := decodeCommand(in); return e })
		k.Key(c.name, c.enc, m.Kind, m.Pos, m.Val)
		k.SetNonTrivial(inside > 0)
		k.Label("codec=fsm." + c.name)
		k.LabelIf(errMut == nil, "fsm: mutated command accepted")
		k.LabelIf(errMut != nil, "fsm: mutated command rejected")
		k.Sample(func() any {
			return fmt.Sprintf("fsm %s frame=%dB cutsInside=%d cutsOnBoundary=%d hostileLens=%d mutation=%s@%d accepted=%v", c.name, len(c.enc), inside, onBoundary, hostile, m.Kind, m.Pos, errMut == nil)
		})
	})
}

// TestVerifC27FsmResults: the apply-result codecs returned to proposers.
func TestVerifC27FsmResults(t *testing.T) {
	kit.Check(t, "C27", func(rt *rapid.T, k *kit.Case) {
		var name string
		var enc []byte
		var dec func([]byte) (any, error)
		var want any
		selfDelimiting := true
		switch rapid.IntRange(0, 5).Draw(rt, "result") {
		case 0:
			name = "ChannelConditionalMutationResult"
			applied := rapid.Bool().Draw(rt, "applied")
			var in *metadb.ChannelConditionalMutationResult
			if applied || rapid.Bool().Draw(rt, "nonNil") {
				in = &metadb.ChannelConditionalMutationResult{Applied: applied}
			}
			enc, want = EncodeChannelConditionalMutationResult(in), applied
			dec = func(b []byte) (any, error) { return DecodeChannelConditionalMutationResult(b) }
		case 1:
			name = "SubscriberMutationResult"
			r := metadb.SubscriberMutationResult{RequestedCount: rapid.IntRange(0, 1<<40).Draw(rt, "requested"), ChangedCount: rapid.IntRange(0, 1<<40).Draw(rt, "changed")}
			enc, want = EncodeSubscriberMutationResult(&r), r
			dec = func(b []byte) (any, error) { return DecodeSubscriberMutationResult(b) }
		case 2:
			name = "GarbageCollectResult"
			n := rapid.IntRange(0, 1<<50).Draw(rt, "deleted")
			enc, want = EncodeGarbageCollectTerminalChannelMigrationTasksResult(n), n
			dec = func(b []byte) (any, error) {
				v, ok, err := DecodeGarbageCollectTerminalChannelMigrationTasksResult(b)
				if err == nil && !ok {
					return nil, fmt.Errorf("not a gc result")
				}
				return v, err
			}
		case 3:
			name = "AppendMessageEventResult"
			r := verifC27EventResult().Draw(rt, "eventResult")
			enc, want = EncodeAppendMessageEventResult(r), r
			dec = func(b []byte) (any, error) { return DecodeAppendMessageEventResult(b) }
			selfDelimiting = false // TLV sequence: a cut on a boundary may still be complete
		case 4:
			name = "AppendMessageEventResults"
			rs := rapid.SliceOfN(verifC27EventResult(), 2, 4).Draw(rt, "eventResults")
			enc, want = EncodeAppendMessageEventResults(rs), rs
			dec = func(b []byte) (any, error) { return DecodeAppendMessageEventResults(b) }
			selfDelimiting = false
		default:
			name = "CreateChannelRuntimeMetaBatchResult"
			rs := rapid.SliceOfN(rapid.Custom(func(t *rapid.T) CreateChannelRuntimeMetaBatchResult {
				return CreateChannelRuntimeMetaBatchResult{HashSlot: rapid.Uint16().Draw(t, "hashSlot"), ChannelID: "c" + verifC27ID().Draw(t, "channelID"), ChannelType: verifC27I64().Draw(t, "channelType"), Created: rapid.Bool().Draw(t, "created")}
			}), 1, 5).Draw(rt, "batchResults")
			enc, want = EncodeCreateChannelRuntimeMetaBatchResult(rs), rs
			dec = func(b []byte) (any, error) { return DecodeCreateChannelRuntimeMetaBatchResult(b) }
		}
		var got any
		if err := verifC27Guard(rt, "fsm."+name, enc, func(b []byte) error {
			var e error
			got, e = dec(b)
			return e
		}); err != nil {
			rt.Fatalf("%s: decode of own encoding failed: %v", name, err)
		}
		if !reflect.DeepEqual(got, want) {
			rt.Fatalf("%s round trip differs:\n got  %+v\n want %+v", name, got, want)
		}
		rejected := 0
		for cut := 0; cut < len(enc); cut++ {
			_, err := dec(enc[:cut])
			if err != nil {
				rejected++
			} else if selfDelimiting {
				rt.Fatalf("%s: strict prefix %d/%d accepted", name, cut, len(enc))
			}
		}
		if selfDelimiting {
			if _, err := dec(append(append([]byte(nil), enc...), rapid.Byte().Draw(rt, "trail"))); err == nil {
				rt.Fatalf("%s: trailing byte accepted", name)
			}
		}
		mut, m := kit.Mutate(rt, enc)
		errMut := verifC27Guard(rt, "fsm."+name+"(mutated)", mut, func(b []byte) error { _, e := dec(b); return e })
		raw := kit.Bytes(256).Draw(rt, "raw")
		_ = verifC27Guard(rt, "fsm."+name+"(garbage)", raw, func(b []byte) error { _, e := dec(b); return e })
		_ = verifC27Guard(rt, "fsm."+name+"(garbage with magic)", append(append([]byte(nil), enc[:min(5, len(enc))]...), raw...), func(b []byte) error { _, e := dec(b); return e })
		k.Key(name, enc, m.Kind, m.Pos, raw)
		k.SetNonTrivial(rejected > 0)
		k.Label("codec=fsm.result." + name)
		k.LabelIf(errMut == nil, "fsm.result: mutated frame accepted")
		k.Sample(func() any {
			return fmt.Sprintf("fsm result %s frame=%dB prefixesRejected=%d mutation=%s@%d", name, len(enc), rejected, m.Kind, m.Pos)
		})
	})
}

// TestVerifC27FsmGarbage: arbitrary bytes behind a plausible header for every
// registered command type, and DecodeCommandHashSlots / DecodeCommandInspection
// on the same input.
func TestVerifC27FsmGarbage(t *testing.T) {
	types := make([]int, 0, len(commandDecoders))
	for typ := range commandDecoders {
		types = append(types, int(typ))
	}
	sort.Ints(types)
	kit.Check(t, "C27", func(rt *rapid.T, k *kit.Case) {
		raw := kit.Bytes(1024).Draw(rt, "raw")
		shape := rapid.IntRange(0, 3).Draw(rt, "shape")
		typ := byte(rapid.SampledFrom(types).Draw(rt, "type"))
		switch shape {
		case 0:
		case 1:
			raw = append([]byte{commandVersion, typ}, raw...)
		case 2:
			// well-formed TLV sequence with random tags / lengths
			frame := []byte{commandVersion, typ}
			for i, n := 0, rapid.IntRange(0, 12).Draw(rt, "tlvs"); i < n; i++ {
				frame = appendBytesTLVField(frame, byte(rapid.IntRange(0, 20).Draw(rt, "tag")), kit.Bytes(24).Draw(rt, "value"))
			}
			raw = frame
		default:
			// JSON-ish payload behind tag 1 (channel migration commands)
			body := rapid.SampledFrom([]string{`{}`, `{"TaskID":"t","TaskID":"u"}`, `{"taskid":1}`, `[[[[[[[[`, `{"Guard":{"Guard":{}}}`, `{"Unknown":1}`, `null`, `{"Limit":1e400}`, `{} {}`}).Draw(rt, "json")
			raw = appendBytesTLVField([]byte{commandVersion, typ}, tagChannelMigrationCommandPayload, append([]byte(body), kit.Bytes(16).Draw(rt, "jsonTail")...))
		}
		err := verifC27Guard(rt, "fsm.decodeCommand(garbage)", raw, func(b []byte) error { _, e := decodeCommand(b); return e })
		_ = verifC27Guard(rt, "fsm.DecodeCommandHashSlots(garbage)", raw, func(b []byte) error { _, e := DecodeCommandHashSlots(b, 3); return e })
		_ = verifC27Guard(rt, "fsm.DecodeCommandInspection(garbage)", raw, func(b []byte) error { _, e := DecodeCommandInspection(b); return e })
		k.Key("garbage", raw)
		k.SetNonTrivial(len(raw) > 2)
		k.Label("codec=fsm garbage")
		k.Label(fmt.Sprintf("fsm garbage: shape %d accepted=%v", shape, err == nil))
		k.Sample(func() any {
			return fmt.Sprintf("fsm garbage shape=%d type=%d %dB %x err=%v", shape, typ, len(raw), verifC27Trunc(raw), err)
		})
	})
}

// FuzzVerifC27FsmDecodeCommand: native fuzzing of decodeCommand and the result
// decoders (thorough tier); oracle: no panic, bounded allocation.
func FuzzVerifC27FsmDecodeCommand(f *testing.F) {
	for i := 0; i < 80; i++ {
		f.Add(verifC27CommandGen().Example(i).enc)
	}
	f.Fuzz(func(t *testing.T, data []byte) {
		var before, after runtime.MemStats
		runtime.ReadMemStats(&before)
		cmd, err := decodeCommand(data)
		_, _ = DecodeCommandInspection(data)
		_, _ = DecodeAppendMessageEventResults(data)
		_, _ = DecodeCreateChannelRuntimeMetaBatchResult(data)
		_, _ = DecodeSubscriberMutationResult(data)
		runtime.ReadMemStats(&after)
		if d := after.TotalAlloc - before.TotalAlloc; d > 4*verifC27Bound(len(data)) {
			t.Fatalf("VERIF-VIOLATION decoding %d bytes allocated %d", len(data), d)
		}
		if err == nil && cmd == nil {
			t.Fatalf("VERIF-VIOLATION decodeCommand returned neither a command nor an error for %x", data)
		}
		_ = bytes.MinRead
	})
}
