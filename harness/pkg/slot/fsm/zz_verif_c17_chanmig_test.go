package fsm

// C17 — channel migration cutover is fenced and irreversible.
//
// Random histories of channel-migration commands (create, guarded create,
// claim, advance, set/reset/clear fence, commit leader transfer, add learner,
// promote, abort, GC) plus ordinary runtime-meta upserts from "the
// environment" are applied through the real slot state machine over a real
// meta DB. Requests are built the way the production callers build them
// (pkg/cluster/channels/migration_store.go + migration_executor.go) from an
// observed (task, runtime meta) pair, and then optionally made stale in
// exactly one guard field, rebuilt from an older observation, or re-sent as an
// exact duplicate of an earlier command. Every command is judged by a
// pre-state/post-state diff oracle (verifC17Judge).

import (
	"context"
	"errors"
	"fmt"
	"path/filepath"
	"reflect"
	"sort"
	"strings"
	"testing"

	metadb "github.com/WuKongIM/WuKongIM/pkg/db/meta"
	"github.com/WuKongIM/WuKongIM/pkg/slot/multiraft"
	"pgregory.net/rapid"
	"verif.local/kit"
)

const (
	verifC17Slot     = 11
	verifC17ChType   = int64(2)
	verifC17T0       = int64(1_750_000_000_000)
	verifC17FenceTTL = int64(20_000)
	verifC17OwnerTTL = int64(40_000)
)

// verifC17SigResetReopens is the signature of a suspected genuine defect:
// ResetChannelWriteFenceToPreCutover is accepted for a task whose leader
// transfer / promotion is already committed (phases VerifyNewLeader,
// VerifyMembership, ClearFence) once its fence lease has expired; the task
// returns to a pre-cutover phase and AbortChannelMigration then succeeds.
// The check fails on it unless /verif/known_findings.json lists it.
const verifC17SigResetReopens = "abort-after-reset-reopened-committed-task"

var (
	verifC17Channels = []string{"c17-a", "c17-b"}
	verifC17TaskIDs  = []string{"t1", "t2", "t3", "t4"}
	verifC17Nodes    = []uint64{1, 2, 3, 4, 5, 6}
)

// ---------------------------------------------------------------- requests

type verifC17Req struct {
	kind    string
	channel string
	taskID  string
	note    string

	guard  *metadb.ChannelMigrationTaskGuard
	rguard *metadb.ChannelMigrationRuntimeGuard

	task    *metadb.ChannelMigrationTask
	create  *metadb.ChannelMigrationTaskCreate
	claim   *metadb.ChannelMigrationTaskClaim
	advance *metadb.ChannelMigrationTaskAdvance
	setF    *metadb.ChannelMigrationFenceRequest
	reset   *metadb.ChannelMigrationResetFenceRequest
	commit  *metadb.ChannelMigrationLeaderTransferRequest
	addL    *metadb.ChannelMigrationAddLearnerRequest
	promote *metadb.ChannelMigrationPromoteLearnerRequest
	clear   *metadb.ChannelMigrationClearFenceRequest
	abort   *metadb.ChannelMigrationAbortRequest
	gc      *metadb.ChannelMigrationTaskGCRequest
	meta    *metadb.ChannelRuntimeMeta
}

func (r *verifC17Req) String() string {
	s := r.kind + "(" + r.channel
	if r.taskID != "" {
		s += "/" + r.taskID
	}
	if r.note != "" {
		s += " " + r.note
	}
	return s + ")"
}

// dump prints the request payload (for violation messages).
func (r *verifC17Req) dump() string {
	for _, p := range []any{r.task, r.create, r.claim, r.advance, r.setF, r.reset, r.commit, r.addL, r.promote, r.clear, r.abort, r.gc, r.meta} {
		if v := reflect.ValueOf(p); !v.IsNil() {
			return fmt.Sprintf("%+v", v.Elem().Interface())
		}
	}
	return ""
}

// preDump prints the rows the request addresses as last read (for violation messages).
func (w *verifC17World) preDump(r *verifC17Req) string {
	if w.cur == nil {
		return ""
	}
	return fmt.Sprintf("task=%+v meta=%+v", w.cur.tasks[verifC17Key(r.channel, r.taskID)], w.cur.metas[r.channel])
}

func (r *verifC17Req) encode() []byte {
	switch r.kind {
	case "create":
		return EncodeCreateChannelMigrationTaskCommand(*r.task)
	case "createGuarded":
		return EncodeCreateChannelMigrationTaskWithRuntimeGuardCommand(*r.create)
	case "claim":
		return EncodeClaimChannelMigrationTaskCommand(*r.claim)
	case "advance":
		return EncodeAdvanceChannelMigrationTaskCommand(*r.advance)
	case "setFence":
		return EncodeSetChannelWriteFenceCommand(*r.setF)
	case "resetFence":
		return EncodeResetChannelWriteFenceToPreCutoverCommand(*r.reset)
	case "commit":
		return EncodeCommitChannelLeaderTransferCommand(*r.commit)
	case "addLearner":
		return EncodeAddChannelLearnerCommand(*r.addL)
	case "promote":
		return EncodePromoteLearnerAndRemoveReplicaCommand(*r.promote)
	case "clearFence":
		return EncodeClearChannelWriteFenceCommand(*r.clear)
	case "abort":
		return EncodeAbortChannelMigrationCommand(*r.abort)
	case "gc":
		return EncodeGarbageCollectTerminalChannelMigrationTasksCommand(*r.gc)
	case "upsertMeta":
		return EncodeUpsertChannelRuntimeMetaCommand(*r.meta)
	}
	panic("verifC17: unknown kind " + r.kind)
}

// direct stages the request on a WriteBatch the way the command's apply does.
func (r *verifC17Req) direct(wb *metadb.WriteBatch, hs uint16) error {
	switch r.kind {
	case "create":
		return wb.CreateChannelMigrationTask(hs, *r.task)
	case "createGuarded":
		return wb.CreateChannelMigrationTaskWithRuntimeGuard(hs, *r.create)
	case "claim":
		return wb.ClaimChannelMigrationTask(hs, *r.claim)
	case "advance":
		return wb.AdvanceChannelMigrationTask(hs, *r.advance)
	case "setFence":
		return wb.SetChannelWriteFence(hs, *r.setF)
	case "resetFence":
		return wb.ResetChannelWriteFenceToPreCutover(hs, *r.reset)
	case "commit":
		return wb.CommitChannelLeaderTransfer(hs, *r.commit)
	case "addLearner":
		return wb.AddChannelLearner(hs, *r.addL)
	case "promote":
		return wb.PromoteLearnerAndRemoveReplica(hs, *r.promote)
	case "clearFence":
		return wb.ClearChannelWriteFence(hs, *r.clear)
	case "abort":
		return wb.AbortChannelMigration(hs, *r.abort)
	case "gc":
		_, err := wb.DeleteTerminalChannelMigrationTasksBefore(hs, *r.gc)
		return err
	case "upsertMeta":
		return wb.UpsertChannelRuntimeMeta(hs, *r.meta)
	}
	panic("verifC17: unknown kind " + r.kind)
}

// fixVersion keeps the request valid the way nextMigrationVersion does in
// the production store: UpdatedAtMS is strictly above the expected version.
func (r *verifC17Req) fixVersion() {
	if r.guard == nil {
		return
	}
	min := r.guard.ExpectedUpdatedAtMS + 1
	bump := func(p *int64) {
		if *p < min {
			*p = min
		}
	}
	switch r.kind {
	case "claim":
		bump(&r.claim.UpdatedAtMS)
	case "advance":
		bump(&r.advance.UpdatedAtMS)
		if r.advance.CompletedAtMS != 0 {
			r.advance.CompletedAtMS = r.advance.UpdatedAtMS
		}
	case "setFence":
		bump(&r.setF.UpdatedAtMS)
	case "resetFence":
		bump(&r.reset.UpdatedAtMS)
	case "commit":
		bump(&r.commit.UpdatedAtMS)
	case "addLearner":
		bump(&r.addL.UpdatedAtMS)
	case "promote":
		bump(&r.promote.UpdatedAtMS)
	case "clearFence":
		bump(&r.clear.UpdatedAtMS)
		if r.clear.CompletedAtMS != 0 {
			r.clear.CompletedAtMS = r.clear.UpdatedAtMS
		}
	case "abort":
		bump(&r.abort.UpdatedAtMS)
		r.abort.CompletedAtMS = r.abort.UpdatedAtMS
	}
}

// ---------------------------------------------------------------- state

type verifC17State struct {
	metas  map[string]metadb.ChannelRuntimeMeta
	tasks  map[string]metadb.ChannelMigrationTask // channel|taskID
	active map[string]string                      // channel -> task id from the active index API
	listed map[string]string                      // channel -> task id from ListActive
}

func verifC17Key(ch, id string) string { return ch + "|" + id }

func verifC17Read(rt *rapid.T, db *metadb.DB) verifC17State {
	ctx := context.Background()
	st := verifC17State{metas: map[string]metadb.ChannelRuntimeMeta{}, tasks: map[string]metadb.ChannelMigrationTask{}, active: map[string]string{}, listed: map[string]string{}}
	shard := db.ForSlot(verifC17Slot)
	for _, ch := range verifC17Channels {
		m, err := shard.GetChannelRuntimeMeta(ctx, ch, verifC17ChType)
		if err != nil {
			rt.Fatalf("read runtime meta %s: %v", ch, err)
		}
		st.metas[ch] = m
		t, ok, err := shard.GetActiveChannelMigrationTask(ctx, ch, verifC17ChType)
		if err != nil {
			rt.Fatalf("read active task %s: %v", ch, err)
		}
		if ok {
			st.active[ch] = t.TaskID
		}
	}
	all, err := shard.ListChannelMigrationTasks(ctx)
	if err != nil {
		rt.Fatalf("list tasks: %v", err)
	}
	for _, t := range all {
		st.tasks[verifC17Key(t.ChannelID, t.TaskID)] = t
	}
	act, err := shard.ListActiveChannelMigrationTasks(ctx, 16)
	if err != nil {
		rt.Fatalf("list active tasks: %v", err)
	}
	for _, t := range act {
		if prev, dup := st.listed[t.ChannelID]; dup {
			rt.Fatalf("VERIF-VIOLATION C17: ListActiveChannelMigrationTasks returns two active tasks for channel %s: %s and %s", t.ChannelID, prev, t.TaskID)
		}
		st.listed[t.ChannelID] = t.TaskID
	}
	return st
}

func (st verifC17State) activeTask(ch string) (metadb.ChannelMigrationTask, bool) {
	var ids []string
	for _, id := range verifC17TaskIDs {
		if t, ok := st.tasks[verifC17Key(ch, id)]; ok && t.IsActive() {
			ids = append(ids, id)
		}
	}
	if len(ids) == 0 {
		return metadb.ChannelMigrationTask{}, false
	}
	return st.tasks[verifC17Key(ch, ids[0])], true
}

func verifC17Has(list []uint64, v uint64) bool {
	for _, x := range list {
		if x == v {
			return true
		}
	}
	return false
}

func verifC17Without(list []uint64, v uint64) []uint64 {
	var out []uint64
	for _, x := range list {
		if x != v {
			out = append(out, x)
		}
	}
	return out
}

func verifC17SortedCopy(list []uint64) []uint64 {
	out := append([]uint64(nil), list...)
	sort.Slice(out, func(i, j int) bool { return out[i] < out[j] })
	return out
}

func verifC17SameSet(a, b []uint64) bool {
	for _, x := range a {
		if !verifC17Has(b, x) {
			return false
		}
	}
	for _, x := range b {
		if !verifC17Has(a, x) {
			return false
		}
	}
	return true
}

// ---------------------------------------------------------------- model predicates (from the property statement)

func verifC17GuardMatches(g metadb.ChannelMigrationTaskGuard, t metadb.ChannelMigrationTask) bool {
	return g.ChannelID == t.ChannelID && g.ChannelType == t.ChannelType && g.TaskID == t.TaskID &&
		g.ExpectedStatus == t.Status && g.ExpectedPhase == t.Phase &&
		g.ExpectedOwnerNodeID == t.OwnerNodeID && g.ExpectedOwnerLeaseUntilMS == t.OwnerLeaseUntilMS &&
		g.ExpectedUpdatedAtMS == t.UpdatedAtMS
}

func verifC17RGuardMatches(g metadb.ChannelMigrationRuntimeGuard, m metadb.ChannelRuntimeMeta) bool {
	return g.ChannelID == m.ChannelID && g.ChannelType == m.ChannelType &&
		g.ExpectedChannelEpoch == m.ChannelEpoch && g.ExpectedLeaderEpoch == m.LeaderEpoch &&
		g.ExpectedLeader == m.Leader && g.ExpectedFenceToken == m.WriteFenceToken &&
		g.ExpectedFenceVersion == m.WriteFenceVersion &&
		(g.ExpectedRouteGeneration == 0 || g.ExpectedRouteGeneration == m.RouteGeneration)
}

// verifC17ProofOK: the durable drain proof of the task matches the channel's
// current write-fence version, channel epoch, leader epoch and leader.
func verifC17ProofOK(t metadb.ChannelMigrationTask, m metadb.ChannelRuntimeMeta) bool {
	return t.DrainedFenceVersion != 0 &&
		t.DrainedFenceVersion == m.WriteFenceVersion &&
		t.DrainedChannelEpoch == m.ChannelEpoch &&
		t.DrainedLeaderEpoch == m.LeaderEpoch &&
		t.DrainedLeaderNode == m.Leader
}

// verifC17FenceOwned: the channel's fence is this task's fence.
func verifC17FenceOwned(t metadb.ChannelMigrationTask, m metadb.ChannelRuntimeMeta) bool {
	return m.WriteFenceToken != "" && m.WriteFenceToken == t.TaskID && t.FenceToken == t.TaskID &&
		t.FenceVersion != 0 && t.FenceVersion == m.WriteFenceVersion
}

func verifC17FenceFields(m metadb.ChannelRuntimeMeta) [4]any {
	return [4]any{m.WriteFenceToken, m.WriteFenceVersion, m.WriteFenceReason, m.WriteFenceUntilMS}
}

// ---------------------------------------------------------------- world

type verifC17Obs struct {
	task metadb.ChannelMigrationTask
	meta metadb.ChannelRuntimeMeta
}

type verifC17World struct {
	db    *metadb.DB
	sm    multiraft.StateMachine
	index uint64
	now   int64

	cut  map[string]bool          // task key -> passed its commit / promote step
	reopened map[string]bool      // task key -> a fence reset was applied after that step
	nKnownReopen int
	nKnownReopenHard int
	obs  map[string][]verifC17Obs // task key -> earlier observations
	sentReq map[string][]*verifC17Req // channel -> earlier commands (for duplicate delivery)
	cur     *verifC17State

	// measured facts
	nCommit, nPromote, nComplete, nAbort, nBadCutover, nExpiredCutover, nStaleRejected int
	nSecondCreate, nGC, nDirect, nForeignFence, nReset, nReplay, nFailed, nIdemClear  int
	nAbortAfterCut, nSteps                                                            int
	// embedded leader transfer inside a replica replacement
	nEmbStart, nEmbCommit, nEmbDone, nEmbAbortPre, nEmbAbortPostFresh, nEmbReenter int
	keyParts                                                                          []string
}

func verifC17Open(rt *rapid.T, dir string) (*metadb.DB, multiraft.StateMachine) {
	db, err := metadb.Open(filepath.Join(dir, "db"))
	if err != nil {
		rt.Fatalf("VERIF-MACHINERY open meta db: %v", err)
	}
	sm, err := NewStateMachine(db, verifC17Slot)
	if err != nil {
		db.Close()
		rt.Fatalf("VERIF-MACHINERY new state machine: %v", err)
	}
	return db, sm
}

func verifC17Pct(rt *rapid.T, label string, pct int) bool {
	return rapid.IntRange(0, 99).Draw(rt, label) < pct
}

func verifC17InitialMeta(rt *rapid.T, ch string) metadb.ChannelRuntimeMeta {
	n := rapid.IntRange(2, 4).Draw(rt, "nReplicas")
	perm := rapid.Permutation(verifC17Nodes[:5]).Draw(rt, "replicaPerm")
	replicas := verifC17SortedCopy(perm[:n])
	isr := append([]uint64(nil), replicas...)
	leader := replicas[rapid.IntRange(0, n-1).Draw(rt, "leaderIdx")]
	if n > 2 && verifC17Pct(rt, "isrShort", 20) {
		for _, r := range replicas {
			if r != leader {
				isr = verifC17Without(isr, r)
				break
			}
		}
	}
	return metadb.ChannelRuntimeMeta{
		ChannelID: ch, ChannelType: verifC17ChType,
		ChannelEpoch: uint64(rapid.IntRange(1, 20).Draw(rt, "chEpoch")),
		LeaderEpoch:  uint64(rapid.IntRange(1, 20).Draw(rt, "ldEpoch")),
		Replicas:     replicas, ISR: isr, Leader: leader,
		MinISR: int64(rapid.IntRange(1, len(isr)).Draw(rt, "minISR")),
		Status: 1, Features: 1, LeaseUntilMS: verifC17T0 + 10_000,
	}
}

// apply runs one request through the state machine (or directly on a
// WriteBatch) and returns the result string.
func (w *verifC17World) apply(rt *rapid.T, r *verifC17Req, direct bool) string {
	ctx := context.Background()
	if direct {
		w.nDirect++
		wb := w.db.NewWriteBatch()
		defer wb.Close()
		err := r.direct(wb, verifC17Slot)
		if err == nil {
			err = wb.Commit()
		}
		if err == nil {
			return ApplyResultOK
		}
		if errors.Is(err, metadb.ErrStaleMeta) || errors.Is(err, metadb.ErrNotFound) || errors.Is(err, metadb.ErrAlreadyExists) {
			return ApplyResultStaleMeta
		}
		if w.knownReopenHardFailure(r, err) {
			return ApplyResultStaleMeta
		}
		rt.Fatalf("VERIF-VIOLATION C17: WriteBatch path failed hard on a well-formed command %s: %v\n  request: %s\n  pre: %s", r, err, r.dump(), w.preDump(r))
	}
	w.index++
	res, err := w.sm.Apply(ctx, multiraft.Command{SlotID: verifC17Slot, Index: w.index, Term: 1, Data: r.encode()})
	if err != nil && w.knownReopenHardFailure(r, err) {
		return ApplyResultStaleMeta
	}
	if err != nil {
		rt.Fatalf("VERIF-VIOLATION C17: state machine failed hard on a well-formed command %s: %v\n  request: %s\n  pre: %s", r, err, r.dump(), w.preDump(r))
	}
	if r.kind == "gc" {
		if _, ok, derr := DecodeGarbageCollectTerminalChannelMigrationTasksResult(res); !ok || derr != nil {
			rt.Fatalf("VERIF-VIOLATION C17: gc result not decodable: %q %v", res, derr)
		}
		return ApplyResultOK
	}
	return string(res)
}

// knownReopenHardFailure: a further manifestation of the known finding
// verifC17SigResetReopens. A replica replacement that was PROMOTED, then moved
// back to a pre-cutover phase by an expired-fence reset, is "abortable" again;
// the abort treats the promoted target as an unpromoted learner whenever the
// environment has meanwhile dropped it from the ISR, removes it from Replicas
// and the resulting meta can fail validation (MinISR > |Replicas|): the abort
// command then fails hard (ErrInvalidArgument) instead of being refused.
// Unreachable without the reopen (before a promote, removing the learner
// restores the original replica set). Tolerated only for an abort of a task
// the model knows as cut AND reopened, and only while the finding is listed.
func (w *verifC17World) knownReopenHardFailure(r *verifC17Req, err error) bool {
	key := verifC17Key(r.channel, r.taskID)
	if r.kind != "abort" || !w.cut[key] || !w.reopened[key] || !errors.Is(err, metadb.ErrInvalidArgument) {
		return false
	}
	if !kit.KnownFinding("C17", verifC17SigResetReopens) {
		return false
	}
	w.nKnownReopenHard++
	return true
}

// ---------------------------------------------------------------- request builders (as production callers build them)

func verifC17NextVersion(now, expected int64) int64 {
	if now <= expected {
		return expected + 1
	}
	return now
}

func verifC17GuardOf(t metadb.ChannelMigrationTask) metadb.ChannelMigrationTaskGuard {
	return metadb.ChannelMigrationTaskGuard{
		ChannelID: t.ChannelID, ChannelType: t.ChannelType, TaskID: t.TaskID,
		ExpectedStatus: t.Status, ExpectedPhase: t.Phase,
		ExpectedOwnerNodeID: t.OwnerNodeID, ExpectedOwnerLeaseUntilMS: t.OwnerLeaseUntilMS,
		ExpectedUpdatedAtMS: t.UpdatedAtMS,
	}
}

func verifC17RGuardOf(m metadb.ChannelRuntimeMeta) metadb.ChannelMigrationRuntimeGuard {
	return metadb.ChannelMigrationRuntimeGuard{
		ChannelID: m.ChannelID, ChannelType: m.ChannelType,
		ExpectedChannelEpoch: m.ChannelEpoch, ExpectedLeaderEpoch: m.LeaderEpoch, ExpectedLeader: m.Leader,
		ExpectedFenceToken: m.WriteFenceToken, ExpectedFenceVersion: m.WriteFenceVersion,
		ExpectedRouteGeneration: m.RouteGeneration,
	}
}

func verifC17IsLT(k metadb.ChannelMigrationKind) bool {
	return k == metadb.ChannelMigrationKindLeaderTransfer || k == metadb.ChannelMigrationKindLeaderFailover
}

// verifC17LTMode: the task currently follows the leader-transfer phase
// machine: a leader transfer / failover task, or a replica replacement that
// is running its embedded leader transfer (its source replica was the channel
// leader; pkg/slot/FLOW.md "Replica replace 嵌入式 leader transfer"). The
// production store keys the same decisions on task.EmbeddedLeaderTransfer
// (migrationFencePhase, migrationClearFenceTransition,
// channelMigrationDesiredLeader in pkg/cluster/channels/migration_store.go).
func verifC17LTMode(t metadb.ChannelMigrationTask) bool {
	return verifC17IsLT(t.Kind) || (t.Kind == metadb.ChannelMigrationKindReplicaReplace && t.EmbeddedLeaderTransfer)
}

func verifC17DesiredLeader(t metadb.ChannelMigrationTask) uint64 {
	if t.EmbeddedLeaderTransfer && t.EmbeddedDesiredLeader != 0 {
		return t.EmbeddedDesiredLeader
	}
	if t.DesiredLeader != 0 {
		return t.DesiredLeader
	}
	return t.TargetNode
}

func (w *verifC17World) bClaim(t metadb.ChannelMigrationTask, owner uint64) *verifC17Req {
	q := &metadb.ChannelMigrationTaskClaim{
		Guard: verifC17GuardOf(t), Status: metadb.ChannelMigrationStatusRunning, Phase: t.Phase,
		OwnerNodeID: owner, OwnerLeaseUntilMS: w.now + verifC17OwnerTTL, NowMS: w.now,
		UpdatedAtMS: verifC17NextVersion(w.now, t.UpdatedAtMS),
	}
	return &verifC17Req{kind: "claim", channel: t.ChannelID, taskID: t.TaskID, claim: q, guard: &q.Guard}
}

func (w *verifC17World) bAdvance(t metadb.ChannelMigrationTask, phase metadb.ChannelMigrationPhase, status metadb.ChannelMigrationStatus, proof metadb.ChannelMigrationCutoverProof) *verifC17Req {
	q := &metadb.ChannelMigrationTaskAdvance{
		Guard: verifC17GuardOf(t), Status: status, Phase: phase, Attempt: t.Attempt + 1,
		UpdatedAtMS: verifC17NextVersion(w.now, t.UpdatedAtMS), CutoverProof: proof,
		Progress: metadb.ChannelMigrationProgress{LeaderLEO: proof.CutoverLEO, LeaderHW: proof.CutoverHW},
	}
	if status == metadb.ChannelMigrationStatusBlocked {
		q.BlockerMessage = "target_not_ready"
	} else if status == metadb.ChannelMigrationStatusFailed {
		q.LastError = "failed"
		q.CompletedAtMS = q.UpdatedAtMS
	}
	return &verifC17Req{kind: "advance", channel: t.ChannelID, taskID: t.TaskID, advance: q, guard: &q.Guard,
		note: fmt.Sprintf("->%d/%d", phase, status)}
}

// bAdvanceEmbedded: the replica-replace executor found that the source replica
// is the current channel leader and persists the decision to move leadership
// to `desired` first, inside the same task (Advance.EmbeddedDesiredLeader).
func (w *verifC17World) bAdvanceEmbedded(t metadb.ChannelMigrationTask, desired uint64) *verifC17Req {
	r := w.bAdvance(t, metadb.ChannelMigrationPhaseProbeTarget, metadb.ChannelMigrationStatusRunning, metadb.ChannelMigrationCutoverProof{})
	r.advance.EmbeddedDesiredLeader = desired
	r.note += fmt.Sprintf(" embedded->%d", desired)
	return r
}

func verifC17FencePhase(t metadb.ChannelMigrationTask) metadb.ChannelMigrationPhase {
	if verifC17LTMode(t) {
		if t.Phase == metadb.ChannelMigrationPhaseWriteFence {
			return metadb.ChannelMigrationPhaseDrainLeader
		}
		return t.Phase
	}
	if t.Phase == metadb.ChannelMigrationPhaseWarmCatchUp {
		return metadb.ChannelMigrationPhaseCutoverFence
	}
	return t.Phase
}

func (w *verifC17World) bSetFence(t metadb.ChannelMigrationTask, m metadb.ChannelRuntimeMeta) *verifC17Req {
	reason := uint8(1)
	if !verifC17LTMode(t) {
		reason = 2
	}
	q := &metadb.ChannelMigrationFenceRequest{
		Guard: verifC17GuardOf(t), RuntimeGuard: verifC17RGuardOf(m),
		Status: metadb.ChannelMigrationStatusRunning, Phase: verifC17FencePhase(t),
		FenceReason: reason, FenceUntilMS: w.now + verifC17FenceTTL,
		UpdatedAtMS: verifC17NextVersion(w.now, t.UpdatedAtMS),
	}
	return &verifC17Req{kind: "setFence", channel: t.ChannelID, taskID: t.TaskID, setF: q, guard: &q.Guard, rguard: &q.RuntimeGuard}
}

func (w *verifC17World) bReset(t metadb.ChannelMigrationTask, m metadb.ChannelRuntimeMeta, nowMS int64) *verifC17Req {
	phase := metadb.ChannelMigrationPhaseWarmCatchUp
	if verifC17LTMode(t) {
		phase = metadb.ChannelMigrationPhaseWriteFence
	}
	q := &metadb.ChannelMigrationResetFenceRequest{
		Guard: verifC17GuardOf(t), RuntimeGuard: verifC17RGuardOf(m),
		Status: metadb.ChannelMigrationStatusRunning, Phase: phase, NowMS: nowMS,
		UpdatedAtMS: verifC17NextVersion(w.now, t.UpdatedAtMS),
	}
	return &verifC17Req{kind: "resetFence", channel: t.ChannelID, taskID: t.TaskID, reset: q, guard: &q.Guard, rguard: &q.RuntimeGuard}
}

func (w *verifC17World) bCommit(t metadb.ChannelMigrationTask, m metadb.ChannelRuntimeMeta, nowMS int64) *verifC17Req {
	q := &metadb.ChannelMigrationLeaderTransferRequest{
		Guard: verifC17GuardOf(t), RuntimeGuard: verifC17RGuardOf(m),
		Status: metadb.ChannelMigrationStatusRunning, Phase: metadb.ChannelMigrationPhaseVerifyNewLeader,
		DesiredLeader: verifC17DesiredLeader(t), NextLeaderEpoch: m.LeaderEpoch + 1,
		LeaseUntilMS: w.now + verifC17FenceTTL, NowMS: nowMS,
		UpdatedAtMS: verifC17NextVersion(w.now, t.UpdatedAtMS),
	}
	return &verifC17Req{kind: "commit", channel: t.ChannelID, taskID: t.TaskID, commit: q, guard: &q.Guard, rguard: &q.RuntimeGuard}
}

func (w *verifC17World) bAddLearner(t metadb.ChannelMigrationTask, m metadb.ChannelRuntimeMeta) *verifC17Req {
	q := &metadb.ChannelMigrationAddLearnerRequest{
		Guard: verifC17GuardOf(t), RuntimeGuard: verifC17RGuardOf(m),
		Status: metadb.ChannelMigrationStatusRunning, Phase: metadb.ChannelMigrationPhaseBootstrapTarget,
		TargetNode: t.TargetNode, UpdatedAtMS: verifC17NextVersion(w.now, t.UpdatedAtMS),
	}
	return &verifC17Req{kind: "addLearner", channel: t.ChannelID, taskID: t.TaskID, addL: q, guard: &q.Guard, rguard: &q.RuntimeGuard}
}

func (w *verifC17World) bPromote(t metadb.ChannelMigrationTask, m metadb.ChannelRuntimeMeta, nowMS int64) *verifC17Req {
	q := &metadb.ChannelMigrationPromoteLearnerRequest{
		Guard: verifC17GuardOf(t), RuntimeGuard: verifC17RGuardOf(m),
		Status: metadb.ChannelMigrationStatusRunning, Phase: metadb.ChannelMigrationPhaseVerifyMembership,
		SourceNode: t.SourceNode, TargetNode: t.TargetNode, NowMS: nowMS,
		UpdatedAtMS: verifC17NextVersion(w.now, t.UpdatedAtMS),
	}
	return &verifC17Req{kind: "promote", channel: t.ChannelID, taskID: t.TaskID, promote: q, guard: &q.Guard, rguard: &q.RuntimeGuard}
}

func (w *verifC17World) bClear(t metadb.ChannelMigrationTask, m metadb.ChannelRuntimeMeta) *verifC17Req {
	up := verifC17NextVersion(w.now, t.UpdatedAtMS)
	q := &metadb.ChannelMigrationClearFenceRequest{
		Guard: verifC17GuardOf(t), RuntimeGuard: verifC17RGuardOf(m),
		Status: metadb.ChannelMigrationStatusCompleted, Phase: metadb.ChannelMigrationPhaseClearFence,
		UpdatedAtMS: up, CompletedAtMS: up,
	}
	note := ""
	if t.Kind == metadb.ChannelMigrationKindReplicaReplace && t.EmbeddedLeaderTransfer && t.Phase == metadb.ChannelMigrationPhaseVerifyNewLeader {
		// migrationClearFenceTransition: the embedded transfer is done, the
		// replacement itself resumes at AddLearner
		q.Status, q.Phase, q.CompletedAtMS = metadb.ChannelMigrationStatusRunning, metadb.ChannelMigrationPhaseAddLearner, 0
		note = "embedded"
	}
	return &verifC17Req{kind: "clearFence", channel: t.ChannelID, taskID: t.TaskID, clear: q, guard: &q.Guard, rguard: &q.RuntimeGuard, note: note}
}

func (w *verifC17World) bAbort(t metadb.ChannelMigrationTask, m metadb.ChannelRuntimeMeta) *verifC17Req {
	up := verifC17NextVersion(w.now, t.UpdatedAtMS)
	q := &metadb.ChannelMigrationAbortRequest{
		Guard: verifC17GuardOf(t), RuntimeGuard: verifC17RGuardOf(m),
		Status: metadb.ChannelMigrationStatusAborted, Phase: t.Phase,
		UpdatedAtMS: up, CompletedAtMS: up, LastError: "operator aborted",
	}
	return &verifC17Req{kind: "abort", channel: t.ChannelID, taskID: t.TaskID, abort: q, guard: &q.Guard, rguard: &q.RuntimeGuard}
}

func (w *verifC17World) bGC(ch string, before int64) *verifC17Req {
	return &verifC17Req{kind: "gc", channel: ch, gc: &metadb.ChannelMigrationTaskGCRequest{BeforeMS: before, Limit: 8}}
}

// bProof builds the drain proof the executor records from the current meta.
func (w *verifC17World) bProof(rt *rapid.T, t metadb.ChannelMigrationTask, m metadb.ChannelRuntimeMeta) metadb.ChannelMigrationCutoverProof {
	leo := uint64(rapid.IntRange(1, 1000).Draw(rt, "leo"))
	hw := uint64(rapid.IntRange(0, int(leo)).Draw(rt, "hw"))
	if t.Kind == metadb.ChannelMigrationKindLeaderFailover {
		hw = leo
	}
	return metadb.ChannelMigrationCutoverProof{
		CutoverLEO: leo, CutoverHW: hw,
		DrainedLeaderNode: m.Leader, DrainedRuntimeGeneration: m.RouteGeneration,
		DrainedChannelEpoch: m.ChannelEpoch, DrainedLeaderEpoch: m.LeaderEpoch,
		DrainedFenceVersion: t.FenceVersion,
	}
}

func verifC17TaskProof(t metadb.ChannelMigrationTask) metadb.ChannelMigrationCutoverProof {
	return metadb.ChannelMigrationCutoverProof{
		CutoverLEO: t.CutoverLEO, CutoverHW: t.CutoverHW, DrainedLeaderNode: t.DrainedLeaderNode,
		DrainedRuntimeGeneration: t.DrainedRuntimeGeneration, DrainedChannelEpoch: t.DrainedChannelEpoch,
		DrainedLeaderEpoch: t.DrainedLeaderEpoch, DrainedFenceVersion: t.DrainedFenceVersion,
	}
}

// staleProof perturbs exactly one field of a drain proof (an executor that
// drained against an older view of the channel).
func verifC17StaleProof(rt *rapid.T, p metadb.ChannelMigrationCutoverProof) (metadb.ChannelMigrationCutoverProof, string) {
	switch rapid.IntRange(0, 3).Draw(rt, "proofField") {
	case 0:
		if p.DrainedFenceVersion > 1 && rapid.Bool().Draw(rt, "down") {
			p.DrainedFenceVersion--
		} else {
			p.DrainedFenceVersion++
		}
		return p, "proof.fenceVersion"
	case 1:
		p.DrainedChannelEpoch++
		return p, "proof.channelEpoch"
	case 2:
		if p.DrainedLeaderEpoch > 1 && rapid.Bool().Draw(rt, "down") {
			p.DrainedLeaderEpoch--
		} else {
			p.DrainedLeaderEpoch++
		}
		return p, "proof.leaderEpoch"
	default:
		p.DrainedLeaderNode = p.DrainedLeaderNode%6 + 1
		return p, "proof.leaderNode"
	}
}

// makeStale perturbs exactly one guard field of a request.
func verifC17MakeStale(rt *rapid.T, r *verifC17Req) {
	type mut struct {
		name string
		fn   func()
	}
	var muts []mut
	if g := r.guard; g != nil {
		muts = append(muts,
			mut{"status", func() {
				g.ExpectedStatus = g.ExpectedStatus%3 + 1
			}},
			mut{"phase", func() {
				phases := []metadb.ChannelMigrationPhase{1, 2, 3, 4, 5, 6, 7, 20, 21, 22, 23, 25, 26, 27}
				for {
					p := rapid.SampledFrom(phases).Draw(rt, "stalePhase")
					if p != g.ExpectedPhase {
						g.ExpectedPhase = p
						return
					}
				}
			}},
			mut{"owner", func() { g.ExpectedOwnerNodeID = g.ExpectedOwnerNodeID%3 + 1 }},
			mut{"ownerLease", func() { g.ExpectedOwnerLeaseUntilMS += int64(rapid.SampledFrom([]int{-1000, -1, 1, 1000}).Draw(rt, "d")) }},
			mut{"updatedAt", func() { g.ExpectedUpdatedAtMS += int64(rapid.SampledFrom([]int{-1000, -1, 1}).Draw(rt, "d")) }},
		)
	}
	if g := r.rguard; g != nil {
		muts = append(muts,
			mut{"channelEpoch", func() {
				if g.ExpectedChannelEpoch > 1 && rapid.Bool().Draw(rt, "down") {
					g.ExpectedChannelEpoch--
				} else {
					g.ExpectedChannelEpoch++
				}
			}},
			mut{"leaderEpoch", func() {
				if g.ExpectedLeaderEpoch > 1 && rapid.Bool().Draw(rt, "down") {
					g.ExpectedLeaderEpoch--
				} else {
					g.ExpectedLeaderEpoch++
				}
			}},
			mut{"leader", func() { g.ExpectedLeader = g.ExpectedLeader%6 + 1 }},
			mut{"fenceToken", func() {
				if g.ExpectedFenceToken == "" {
					g.ExpectedFenceToken = r.taskID
					if g.ExpectedFenceToken == "" {
						g.ExpectedFenceToken = "t1"
					}
				} else if rapid.Bool().Draw(rt, "empty") {
					g.ExpectedFenceToken = ""
				} else {
					g.ExpectedFenceToken = g.ExpectedFenceToken + "x"
				}
			}},
			mut{"fenceVersion", func() {
				if g.ExpectedFenceVersion > 0 && rapid.Bool().Draw(rt, "down") {
					g.ExpectedFenceVersion--
				} else {
					g.ExpectedFenceVersion++
				}
			}},
			mut{"routeGeneration", func() {
				if g.ExpectedRouteGeneration > 1 && rapid.Bool().Draw(rt, "down") {
					g.ExpectedRouteGeneration--
				} else {
					g.ExpectedRouteGeneration++
				}
			}},
		)
	}
	if len(muts) == 0 {
		return
	}
	m := muts[rapid.IntRange(0, len(muts)-1).Draw(rt, "staleField")]
	m.fn()
	r.note += " stale:" + m.name
	r.fixVersion()
}

// ---------------------------------------------------------------- the oracle

func verifC17Judge(rt *rapid.T, w *verifC17World, pre, post verifC17State, r *verifC17Req, res string) {
	fail := func(format string, args ...any) {
		rt.Fatalf("VERIF-VIOLATION C17: "+format+"\n  command: %s -> %q\n  pre : task=%+v\n        meta=%+v\n  post: task=%+v\n        meta=%+v",
			append(args, r, res, pre.tasks[verifC17Key(r.channel, r.taskID)], pre.metas[r.channel], post.tasks[verifC17Key(r.channel, r.taskID)], post.metas[r.channel])...)
	}
	if res != ApplyResultOK && res != ApplyResultStaleMeta {
		fail("unexpected apply result")
	}
	verifC17Invariants(rt, w, post, fail)

	key := verifC17Key(r.channel, r.taskID)
	tPre, hadPre := pre.tasks[key]
	tPost, hasPost := post.tasks[key]
	mPre, mPost := pre.metas[r.channel], post.metas[r.channel]
	taskSame := hadPre == hasPost && tPre == tPost
	metaSame := reflect.DeepEqual(mPre, mPost)

	// rows the command does not address never change (GC: only removals of terminal rows)
	for _, ch := range verifC17Channels {
		if ch != r.channel && !reflect.DeepEqual(pre.metas[ch], post.metas[ch]) {
			fail("command changed runtime meta of another channel %s", ch)
		}
	}
	for k, t := range pre.tasks {
		if k == key && r.kind != "gc" {
			continue
		}
		pt, ok := post.tasks[k]
		if !ok {
			if r.kind != "gc" {
				fail("task %s disappeared", k)
			}
			if !t.IsTerminal() || t.CompletedAtMS >= r.gc.BeforeMS {
				fail("gc removed task %s which is not a terminal task completed before the cutoff", k)
			}
			w.nGC++
			// the id may be reused by a new task: a new incarnation starts clean
			delete(w.cut, k)
			delete(w.reopened, k)
			delete(w.obs, k)
			continue
		}
		if pt != t {
			fail("command changed a task it does not address: %s", k)
		}
	}
	for k := range post.tasks {
		if _, ok := pre.tasks[k]; !ok && k != key {
			fail("task %s appeared from nowhere", k)
		}
	}

	// (6) stale guard ⇒ stale_meta and nothing changed
	stale := false
	if r.guard != nil && (!hadPre || !verifC17GuardMatches(*r.guard, tPre)) {
		stale = true
	}
	if r.rguard != nil && !verifC17RGuardMatches(*r.rguard, mPre) {
		stale = true
	}
	if stale {
		if !taskSame || !metaSame {
			fail("command with a stale guard changed state")
		}
		idem := false
		switch r.kind {
		case "clearFence":
			idem = hadPre && tPre.Status == metadb.ChannelMigrationStatusCompleted && tPre.Phase == metadb.ChannelMigrationPhaseClearFence
		case "createGuarded":
			idem = hadPre && tPre == r.create.Task
		}
		if res != ApplyResultStaleMeta && !idem {
			fail("command with a stale guard was not answered stale_meta")
		}
		if idem && res == ApplyResultOK {
			w.nIdemClear++
		}
		w.nStaleRejected++
	}
	if res == ApplyResultStaleMeta && (!taskSame || !metaSame) {
		fail("stale_meta result but state changed")
	}

	fencePre, fencePost := verifC17FenceFields(mPre), verifC17FenceFields(mPost)
	fenceChanged := fencePre != fencePost
	memberChanged := mPre.Leader != mPost.Leader || !reflect.DeepEqual(mPre.Replicas, mPost.Replicas) || !reflect.DeepEqual(mPre.ISR, mPost.ISR)
	epochChanged := mPre.ChannelEpoch != mPost.ChannelEpoch || mPre.LeaderEpoch != mPost.LeaderEpoch
	otherChanged := mPre.MinISR != mPost.MinISR || mPre.Status != mPost.Status || mPre.Features != mPost.Features ||
		mPre.RetentionThroughSeq != mPost.RetentionThroughSeq || mPre.ChannelID != mPost.ChannelID || mPre.ChannelType != mPost.ChannelType

	// write-fence version is a monotonic per-channel generation
	if mPost.WriteFenceVersion < mPre.WriteFenceVersion {
		fail("write fence version decreased")
	}
	if fenceChanged && mPost.WriteFenceVersion <= mPre.WriteFenceVersion {
		fail("write fence changed without a new fence version")
	}
	// (4) fences are only moved by fence commands of the owning task
	if fenceChanged {
		switch r.kind {
		case "setFence", "resetFence", "clearFence", "abort":
		default:
			fail("%s changed the channel write fence", r.kind)
		}
		if mPre.WriteFenceToken != "" && mPre.WriteFenceToken != r.taskID {
			fail("command guarded by task %s changed the fence held by task %s", r.taskID, mPre.WriteFenceToken)
		}
		if mPost.WriteFenceToken != "" && mPost.WriteFenceToken != r.taskID {
			fail("command guarded by task %s installed a fence for %s", r.taskID, mPost.WriteFenceToken)
		}
		if !hadPre || !tPre.IsActive() {
			fail("fence changed on behalf of a task that is not active")
		}
	}
	if mPre.WriteFenceToken != "" && mPre.WriteFenceToken != r.taskID && r.guard != nil {
		w.nForeignFence++
	}
	if otherChanged && r.kind != "upsertMeta" {
		fail("%s changed unrelated runtime-meta fields", r.kind)
	}

	cutoverPreOK := func(nowMS int64) (bool, string) {
		switch {
		case !hadPre || !tPre.IsActive():
			return false, "task not active"
		case stale:
			return false, "stale guard"
		case !verifC17FenceOwned(tPre, mPre):
			return false, "fence not owned by the task"
		case nowMS > mPre.WriteFenceUntilMS:
			return false, "fence expired"
		case !verifC17ProofOK(tPre, mPre):
			return false, "drain proof does not match current fence version/epochs/leader"
		}
		return true, ""
	}

	switch r.kind {
	case "create", "createGuarded":
		if !metaSame {
			fail("create changed runtime meta")
		}
		if !taskSame {
			want := metadb.ChannelMigrationTask{}
			if r.kind == "create" {
				want = *r.task
			} else {
				want = r.create.Task
			}
			if hadPre || !hasPost || tPost != want {
				fail("create changed an existing task or stored a different task")
			}
			if _, other := pre.activeTask(r.channel); other && tPost.IsActive() {
				fail("second active task created for the channel")
			}
		} else if _, other := pre.activeTask(r.channel); other && !hadPre {
			w.nSecondCreate++
		}
	case "claim", "advance":
		if !metaSame {
			fail("task-only command changed runtime meta")
		}
		if !taskSame {
			if !hadPre || !hasPost {
				fail("task-only command created or removed a task")
			}
			if tPre.FenceToken != tPost.FenceToken || tPre.FenceVersion != tPost.FenceVersion || tPre.FenceUntilMS != tPost.FenceUntilMS {
				fail("task-only command changed the task's fence fields")
			}
			if tPost.Status == metadb.ChannelMigrationStatusFailed {
				w.nFailed++
			}
			// the embedded-transfer decision is persisted only by an Advance that carries it
			if tPre.EmbeddedLeaderTransfer != tPost.EmbeddedLeaderTransfer || tPre.EmbeddedDesiredLeader != tPost.EmbeddedDesiredLeader {
				if r.kind != "advance" || r.advance.EmbeddedDesiredLeader == 0 || !tPost.EmbeddedLeaderTransfer || tPost.EmbeddedDesiredLeader != r.advance.EmbeddedDesiredLeader {
					fail("task-only command changed the embedded leader-transfer decision inconsistently")
				}
				w.nEmbStart++
				if tPre.Phase == metadb.ChannelMigrationPhaseAddLearner {
					w.nEmbReenter++
				}
			}
		}
	case "setFence":
		if memberChanged || epochChanged {
			fail("set fence changed leader/membership/epochs")
		}
		if !taskSame || !metaSame {
			if !fenceChanged || mPost.WriteFenceToken != r.taskID || !hasPost || !verifC17FenceOwned(tPost, mPost) {
				fail("applied set fence did not install the task's own fence consistently")
			}
		}
	case "resetFence", "clearFence":
		if memberChanged || epochChanged {
			fail("%s changed leader/membership/epochs", r.kind)
		}
		if !metaSame {
			if mPost.WriteFenceToken != "" || mPre.WriteFenceToken != r.taskID {
				fail("%s did not clear the task's own fence", r.kind)
			}
			if r.kind == "resetFence" {
				if r.reset.NowMS <= mPre.WriteFenceUntilMS {
					fail("reset cleared a fence that had not expired")
				}
				w.nReset++
				if w.cut[key] && !taskSame {
					w.reopened[key] = true
				}
			}
		}
		if !taskSame && hasPost && tPost.Status == metadb.ChannelMigrationStatusCompleted {
			w.nComplete++
		}
		if r.kind == "clearFence" && (!taskSame || !metaSame) && r.clear.Status != metadb.ChannelMigrationStatusCompleted {
			// FLOW.md: "embedded leader transfer 的 clear 只能回到 AddLearner" and
			// "embedded clear 只清 fence/proof 并回到 AddLearner": the only
			// non-completing clear ends the embedded prologue of a replica
			// replacement after its leader commit; the replacement proper
			// (add learner .. promote) starts over as a pre-cutover task.
			if !hadPre || !hasPost || tPre.Kind != metadb.ChannelMigrationKindReplicaReplace || !tPre.EmbeddedLeaderTransfer ||
				tPre.Phase != metadb.ChannelMigrationPhaseVerifyNewLeader || !w.cut[key] ||
				tPost.Status != metadb.ChannelMigrationStatusRunning || tPost.Phase != metadb.ChannelMigrationPhaseAddLearner ||
				tPost.EmbeddedLeaderTransfer || tPost.EmbeddedDesiredLeader != 0 || tPost.IsTerminal() ||
				tPost.FenceToken != "" || tPost.FenceVersion != 0 || tPost.DrainedFenceVersion != 0 {
				fail("non-completing clear fence applied outside the end of a committed embedded leader transfer, or left the task inconsistent")
			}
			delete(w.cut, key)
			delete(w.reopened, key)
			w.nEmbDone++
		}
	case "commit":
		if !reflect.DeepEqual(mPre.Replicas, mPost.Replicas) || !reflect.DeepEqual(mPre.ISR, mPost.ISR) || mPre.ChannelEpoch != mPost.ChannelEpoch {
			fail("commit changed replicas/ISR/channel epoch")
		}
		ok, why := cutoverPreOK(r.commit.NowMS)
		if !taskSame || !metaSame {
			if !ok {
				fail("(1) leader transfer committed although: %s", why)
			}
			if mPost.Leader != r.commit.DesiredLeader || !verifC17Has(mPre.ISR, mPost.Leader) {
				fail("commit installed a leader outside the ISR or not the requested one")
			}
			if mPost.LeaderEpoch <= mPre.LeaderEpoch {
				fail("commit did not advance the leader epoch")
			}
			if !hasPost || tPost.Phase != metadb.ChannelMigrationPhaseVerifyNewLeader || tPost.IsTerminal() {
				fail("commit left the task in an unexpected phase")
			}
			w.cut[key] = true
			w.nCommit++
			if tPre.Kind == metadb.ChannelMigrationKindReplicaReplace {
				if !tPre.EmbeddedLeaderTransfer {
					fail("leader transfer committed by a replica replacement that is not running an embedded leader transfer")
				}
				w.nEmbCommit++
			}
		} else if !ok && hadPre && tPre.Phase == metadb.ChannelMigrationPhaseCommitLeaderMeta {
			w.nBadCutover++
			if why == "fence expired" {
				w.nExpiredCutover++
			}
		}
	case "addLearner":
		if mPre.Leader != mPost.Leader || mPre.LeaderEpoch != mPost.LeaderEpoch || !reflect.DeepEqual(mPre.ISR, mPost.ISR) {
			fail("add learner changed leader/leader epoch/ISR")
		}
		if !reflect.DeepEqual(mPre.Replicas, mPost.Replicas) {
			if !hadPre || tPre.Kind != metadb.ChannelMigrationKindReplicaReplace ||
				!verifC17SameSet(mPost.Replicas, append(append([]uint64(nil), mPre.Replicas...), tPre.TargetNode)) || verifC17Has(mPre.Replicas, tPre.TargetNode) {
				fail("add learner changed replicas other than adding the task's target")
			}
		}
	case "promote":
		if mPre.Leader != mPost.Leader || mPre.LeaderEpoch != mPost.LeaderEpoch {
			fail("promote changed leader/leader epoch")
		}
		ok, why := cutoverPreOK(r.promote.NowMS)
		if !taskSame || !metaSame {
			if !ok {
				fail("(1) learner promoted although: %s", why)
			}
			wantRep := append(verifC17Without(mPre.Replicas, tPre.SourceNode), tPre.TargetNode)
			if !verifC17SameSet(mPost.Replicas, wantRep) || !verifC17Has(mPost.ISR, tPre.TargetNode) || verifC17Has(mPost.ISR, tPre.SourceNode) {
				fail("promote did not replace source by target")
			}
			if !hasPost || tPost.Phase != metadb.ChannelMigrationPhaseVerifyMembership || tPost.IsTerminal() {
				fail("promote left the task in an unexpected phase")
			}
			w.cut[key] = true
			w.nPromote++
		} else if !ok && hadPre && tPre.Phase == metadb.ChannelMigrationPhasePromoteAndRemove {
			w.nBadCutover++
			if why == "fence expired" {
				w.nExpiredCutover++
			}
		}
	case "abort":
		if mPre.Leader != mPost.Leader || mPre.LeaderEpoch != mPost.LeaderEpoch || !reflect.DeepEqual(mPre.ISR, mPost.ISR) {
			fail("abort changed leader/leader epoch/ISR")
		}
		if hadPre && tPre.Kind == metadb.ChannelMigrationKindReplicaReplace && tPre.EmbeddedLeaderTransfer && tPre.IsActive() && !stale {
			if w.cut[key] {
				w.nEmbAbortPostFresh++
			} else {
				w.nEmbAbortPre++
			}
		}
		if w.cut[key] {
			w.nAbortAfterCut++
			if !taskSame || !metaSame {
				if w.reopened[key] {
					fail("(3) abort changed state of a task that already passed its commit/promote step, after an expired-fence reset had moved it back to a pre-cutover phase [signature %s]", verifC17SigResetReopens)
				}
				fail("(3) abort changed state of a task that already passed its commit/promote step")
			}
		}
		if !reflect.DeepEqual(mPre.Replicas, mPost.Replicas) {
			if !hadPre || tPre.Kind != metadb.ChannelMigrationKindReplicaReplace || verifC17Has(mPre.ISR, tPre.TargetNode) ||
				!verifC17SameSet(mPost.Replicas, verifC17Without(mPre.Replicas, tPre.TargetNode)) {
				fail("abort changed replicas other than removing the unpromoted learner")
			}
		}
		if !taskSame {
			if !hasPost || tPost.Status != metadb.ChannelMigrationStatusAborted || tPost.FenceToken != "" || tPost.FenceVersion != 0 {
				fail("applied abort did not leave an aborted, unfenced task")
			}
			if mPost.WriteFenceToken == r.taskID {
				fail("applied abort left the task's fence on the channel")
			}
			w.nAbort++
		}
	case "gc":
		if !metaSame {
			fail("gc changed runtime meta")
		}
	case "upsertMeta":
		for k, t := range pre.tasks {
			if post.tasks[k] != t {
				fail("runtime meta upsert changed a task")
			}
		}
	}
	if r.kind != "commit" && r.kind != "upsertMeta" && (mPre.Leader != mPost.Leader || mPre.LeaderEpoch != mPost.LeaderEpoch) {
		fail("%s changed the channel leader", r.kind)
	}
}

// verifC17Invariants: properties of every reachable state.
func verifC17Invariants(rt *rapid.T, w *verifC17World, st verifC17State, fail func(string, ...any)) {
	for _, ch := range verifC17Channels {
		m := st.metas[ch]
		// (5) valid channel metadata
		if m.Leader == 0 || !verifC17Has(m.ISR, m.Leader) {
			fail("(5) leader %d not in ISR %v of %s", m.Leader, m.ISR, ch)
		}
		for _, n := range m.ISR {
			if !verifC17Has(m.Replicas, n) {
				fail("(5) ISR member %d not a replica %v of %s", n, m.Replicas, ch)
			}
		}
		if m.MinISR < 1 || m.MinISR > int64(len(m.Replicas)) || len(m.ISR) == 0 {
			fail("(5) MinISR %d not satisfiable with replicas %v of %s", m.MinISR, m.Replicas, ch)
		}
		// (2) at most one active task
		var act []string
		for _, id := range verifC17TaskIDs {
			if t, ok := st.tasks[verifC17Key(ch, id)]; ok && t.IsActive() {
				act = append(act, id)
			}
		}
		if len(act) > 1 {
			fail("(2) channel %s has %d active migration tasks: %v", ch, len(act), act)
		}
		want := ""
		if len(act) == 1 {
			want = act[0]
		}
		if st.active[ch] != want || st.listed[ch] != want {
			fail("(2) active-task index of %s says %q/%q but the task rows say %q", ch, st.active[ch], st.listed[ch], want)
		}
	}
	// (3) irreversibility
	for k, t := range st.tasks {
		if w.cut[k] && t.Status == metadb.ChannelMigrationStatusAborted {
			if w.reopened[k] && kit.KnownFinding("C17", verifC17SigResetReopens) {
				w.nKnownReopen++
				delete(w.cut, k)
				delete(w.reopened, k)
				continue
			}
			if w.reopened[k] {
				fail("(3) task %s was aborted after its commit/promote step, after an expired-fence reset had moved it back to a pre-cutover phase [signature %s]", k, verifC17SigResetReopens)
			}
			fail("(3) task %s was aborted after its commit/promote step", k)
		}
	}
}

// ---------------------------------------------------------------- generator

func (w *verifC17World) remember(st verifC17State, ch string) {
	if t, ok := st.activeTask(ch); ok {
		k := verifC17Key(ch, t.TaskID)
		obs := w.obs[k]
		if n := len(obs); n == 0 || obs[n-1].task != t || !reflect.DeepEqual(obs[n-1].meta, st.metas[ch]) {
			if len(obs) >= 12 {
				obs = obs[1:]
			}
			w.obs[k] = append(obs, verifC17Obs{task: t, meta: st.metas[ch]})
		}
	}
}

func (w *verifC17World) newTask(rt *rapid.T, st verifC17State, ch, id string) metadb.ChannelMigrationTask {
	m := st.metas[ch]
	t := metadb.ChannelMigrationTask{
		TaskID: id, Status: metadb.ChannelMigrationStatusPending, Phase: metadb.ChannelMigrationPhaseValidate,
		ChannelID: ch, ChannelType: verifC17ChType, BaseChannelEpoch: m.ChannelEpoch, BaseLeaderEpoch: m.LeaderEpoch,
		CreatedAtMS: w.now, UpdatedAtMS: w.now,
	}
	others := verifC17Without(m.ISR, m.Leader)
	nonLeaderReplicas := verifC17Without(m.Replicas, m.Leader)
	var outside []uint64
	for _, n := range verifC17Nodes {
		if !verifC17Has(m.Replicas, n) {
			outside = append(outside, n)
		}
	}
	kind := rapid.IntRange(0, 9).Draw(rt, "taskKind")
	switch {
	case kind < 5 && len(others) > 0: // leader transfer / failover
		t.Kind = metadb.ChannelMigrationKindLeaderTransfer
		if kind == 4 {
			t.Kind = metadb.ChannelMigrationKindLeaderFailover
			t.Progress = metadb.ChannelMigrationProgress{TargetCheckpointHW: 7, LeaderHW: 7}
		}
		t.SourceNode = m.Leader
		t.TargetNode = rapid.SampledFrom(others).Draw(rt, "ltTarget")
		t.DesiredLeader = t.TargetNode
	default:
		t.Kind = metadb.ChannelMigrationKindReplicaReplace
		t.SourceNode = rapid.SampledFrom(nonLeaderReplicas).Draw(rt, "rrSource")
		if len(outside) > 0 {
			t.TargetNode = rapid.SampledFrom(outside).Draw(rt, "rrTarget")
		} else {
			t.TargetNode = t.SourceNode%6 + 1 // every node already participates: roles are invalid, the SM must cope
		}
		if verifC17Pct(rt, "rrSourceIsLeader", 35) {
			// replacing the replica that currently leads the channel: the
			// executor has to move leadership away first (embedded transfer)
			t.SourceNode = m.Leader
		}
	}
	return t
}

func (w *verifC17World) bCreate(rt *rapid.T, st verifC17State, ch, id string) *verifC17Req {
	t := w.newTask(rt, st, ch, id)
	if verifC17Pct(rt, "guardedCreate", 65) {
		q := &metadb.ChannelMigrationTaskCreate{Task: t, RuntimeGuard: verifC17RGuardOf(st.metas[ch])}
		return &verifC17Req{kind: "createGuarded", channel: ch, taskID: id, create: q, rguard: &q.RuntimeGuard}
	}
	return &verifC17Req{kind: "create", channel: ch, taskID: id, task: &t}
}

func (w *verifC17World) freeID(st verifC17State, ch string) (string, bool) {
	for _, id := range verifC17TaskIDs {
		if _, ok := st.tasks[verifC17Key(ch, id)]; !ok {
			return id, true
		}
	}
	return "", false
}

// forward returns the next step a (mostly) well-behaved executor would take
// for the channel. It may return a deliberately bad cutover attempt.
func (w *verifC17World) forward(rt *rapid.T, st verifC17State, ch string) *verifC17Req {
	m := st.metas[ch]
	t, ok := st.activeTask(ch)
	if !ok {
		if id, free := w.freeID(st, ch); free {
			return w.bCreate(rt, st, ch, id)
		}
		return w.bGC(ch, w.now+1)
	}
	if t.Status != metadb.ChannelMigrationStatusRunning || t.OwnerNodeID == 0 || t.OwnerLeaseUntilMS <= w.now {
		owner := t.OwnerNodeID
		if owner == 0 || verifC17Pct(rt, "otherOwner", 20) {
			owner = uint64(rapid.IntRange(1, 3).Draw(rt, "owner"))
		}
		return w.bClaim(t, owner)
	}
	lt := verifC17LTMode(t)
	embedded := lt && !verifC17IsLT(t.Kind)
	cutPhase := metadb.ChannelMigrationPhasePromoteAndRemove
	if lt {
		cutPhase = metadb.ChannelMigrationPhaseCommitLeaderMeta
	}
	renewable := t.Phase == metadb.ChannelMigrationPhaseFinalTargetCatchUp || t.Phase == cutPhase ||
		(lt && t.Phase == metadb.ChannelMigrationPhaseDrainLeader) || (!lt && t.Phase == metadb.ChannelMigrationPhaseCutoverFence)
	if renewable && t.FenceToken == t.TaskID && t.FenceUntilMS <= w.now && t.Phase != cutPhase {
		return w.bSetFence(t, m)
	}
	advance := func(p metadb.ChannelMigrationPhase) *verifC17Req {
		return w.bAdvance(t, p, metadb.ChannelMigrationStatusRunning, metadb.ChannelMigrationCutoverProof{})
	}
	drain := func(next metadb.ChannelMigrationPhase) *verifC17Req {
		if !verifC17FenceOwned(t, m) {
			return w.bAbort(t, m)
		}
		p := w.bProof(rt, t, m)
		note := ""
		if verifC17Pct(rt, "drainStale", 15) {
			p, note = verifC17StaleProof(rt, p)
		}
		r := w.bAdvance(t, next, metadb.ChannelMigrationStatusRunning, p)
		r.note += " " + note
		return r
	}
	final := func(next metadb.ChannelMigrationPhase) *verifC17Req {
		if !verifC17ProofOK(t, m) || !verifC17FenceOwned(t, m) {
			return drain(metadb.ChannelMigrationPhaseFinalTargetCatchUp)
		}
		p := verifC17TaskProof(t)
		note := ""
		if verifC17Pct(rt, "finalStale", 15) {
			p, note = verifC17StaleProof(rt, p)
		}
		r := w.bAdvance(t, next, metadb.ChannelMigrationStatusRunning, p)
		r.note += " " + note
		return r
	}
	cutover := func(build func(now int64) *verifC17Req) *verifC17Req {
		good := verifC17ProofOK(t, m) && verifC17FenceOwned(t, m)
		if !good {
			if verifC17Pct(rt, "naiveCutover", 50) {
				r := build(w.now)
				r.note += " naive"
				return r
			}
			if t.FenceUntilMS <= w.now || !verifC17FenceOwned(t, m) {
				if verifC17FenceOwned(t, m) {
					return w.bSetFence(t, m)
				}
				return w.bAbort(t, m)
			}
			return advance(metadb.ChannelMigrationPhaseFinalTargetCatchUp)
		}
		if m.WriteFenceUntilMS < w.now {
			if verifC17Pct(rt, "expiredAttempt", 50) {
				r := build(w.now)
				r.note += " expired"
				return r
			}
			return w.bSetFence(t, m)
		}
		switch c := rapid.IntRange(0, 99).Draw(rt, "cutoverVariant"); {
		case c < 14:
			r := build(w.now)
			verifC17MakeStale(rt, r)
			return r
		case c < 24:
			r := build(m.WriteFenceUntilMS + int64(rapid.IntRange(1, 5000).Draw(rt, "late")))
			r.note += " expiredClock"
			return r
		case c < 30:
			// the environment moves the channel under the drained proof
			return w.bUpsert(rt, m, rapid.IntRange(0, 2).Draw(rt, "envKind"))
		}
		return build(w.now)
	}

	// sourceIsLeader: a replica replacement whose source currently leads the
	// channel moves leadership to another ISR member first, inside the same
	// task (FLOW.md "Replica replace 嵌入式 leader transfer"); without a
	// candidate, or sometimes anyway, the operator gives up.
	sourceIsLeader := func() *verifC17Req {
		cands := verifC17Without(verifC17Without(m.ISR, m.Leader), t.TargetNode)
		if len(cands) == 0 || verifC17Pct(rt, "giveUpSourceLeader", 20) {
			return w.bAbort(t, m)
		}
		return w.bAdvanceEmbedded(t, rapid.SampledFrom(cands).Draw(rt, "embeddedDesired"))
	}

	if lt {
		switch t.Phase {
		case metadb.ChannelMigrationPhaseValidate:
			if embedded {
				return advance(metadb.ChannelMigrationPhaseProbeTarget)
			}
			if m.Leader != t.SourceNode || !verifC17Has(m.ISR, t.TargetNode) {
				return w.bAbort(t, m)
			}
			return advance(metadb.ChannelMigrationPhaseProbeTarget)
		case metadb.ChannelMigrationPhaseProbeTarget:
			return advance(metadb.ChannelMigrationPhaseWriteFence)
		case metadb.ChannelMigrationPhaseWriteFence:
			if m.WriteFenceToken != "" && m.WriteFenceToken != t.TaskID {
				return w.bAbort(t, m)
			}
			return w.bSetFence(t, m)
		case metadb.ChannelMigrationPhaseDrainLeader:
			if m.Leader != t.SourceNode {
				return w.bAbort(t, m)
			}
			if t.Kind == metadb.ChannelMigrationKindLeaderFailover || (embedded && verifC17Pct(rt, "embeddedDirectCommit", 50)) {
				return drain(metadb.ChannelMigrationPhaseCommitLeaderMeta)
			}
			return drain(metadb.ChannelMigrationPhaseFinalTargetCatchUp)
		case metadb.ChannelMigrationPhaseFinalTargetCatchUp:
			return final(metadb.ChannelMigrationPhaseCommitLeaderMeta)
		case metadb.ChannelMigrationPhaseCommitLeaderMeta:
			if !verifC17Has(m.ISR, verifC17DesiredLeader(t)) {
				return w.bAbort(t, m)
			}
			return cutover(func(now int64) *verifC17Req { return w.bCommit(t, m, now) })
		case metadb.ChannelMigrationPhaseVerifyNewLeader:
			// an operator abort may arrive after the leader commit, before the
			// executor has cleared the fence
			pct := 20
			if embedded {
				pct = 30
			}
			if verifC17Pct(rt, "abortAfterCommit", pct) {
				return w.bAbort(t, m)
			}
			return w.bClear(t, m)
		}
		return w.bAbort(t, m)
	}
	switch t.Phase {
	case metadb.ChannelMigrationPhaseValidate:
		if !verifC17Has(m.Replicas, t.SourceNode) || verifC17Has(m.Replicas, t.TargetNode) {
			return w.bAbort(t, m)
		}
		if m.Leader == t.SourceNode {
			return sourceIsLeader()
		}
		return advance(metadb.ChannelMigrationPhaseAddLearner)
	case metadb.ChannelMigrationPhaseAddLearner:
		if !verifC17Has(m.Replicas, t.SourceNode) || verifC17Has(m.Replicas, t.TargetNode) ||
			(!verifC17Has(m.ISR, t.SourceNode) && int64(len(m.ISR)) < m.MinISR) {
			return w.bAbort(t, m)
		}
		if m.Leader == t.SourceNode {
			// FLOW.md: AddLearner re-reads the authoritative meta; if the source
			// became the leader (again) the task goes back to an embedded transfer
			return sourceIsLeader()
		}
		return w.bAddLearner(t, m)
	case metadb.ChannelMigrationPhaseBootstrapTarget:
		return advance(metadb.ChannelMigrationPhaseWarmCatchUp)
	case metadb.ChannelMigrationPhaseWarmCatchUp:
		if m.WriteFenceToken != "" && m.WriteFenceToken != t.TaskID {
			return w.bAbort(t, m)
		}
		return w.bSetFence(t, m)
	case metadb.ChannelMigrationPhaseCutoverFence:
		return drain(metadb.ChannelMigrationPhaseFinalTargetCatchUp)
	case metadb.ChannelMigrationPhaseFinalTargetCatchUp:
		return final(metadb.ChannelMigrationPhasePromoteAndRemove)
	case metadb.ChannelMigrationPhasePromoteAndRemove:
		if m.Leader == t.SourceNode || !verifC17Has(m.Replicas, t.SourceNode) || !verifC17Has(m.Replicas, t.TargetNode) ||
			verifC17Has(m.ISR, t.TargetNode) || (!verifC17Has(m.ISR, t.SourceNode) && int64(len(m.ISR)) < m.MinISR) {
			return w.bAbort(t, m)
		}
		return cutover(func(now int64) *verifC17Req { return w.bPromote(t, m, now) })
	case metadb.ChannelMigrationPhaseVerifyMembership:
		if verifC17Pct(rt, "abortAfterPromote", 20) {
			return w.bAbort(t, m)
		}
		return w.bClear(t, m)
	}
	return w.bAbort(t, m)
}

// bUpsert: an ordinary runtime-meta upsert by another actor. The fence
// fields are carried over unchanged (only migration commands own the fence).
func (w *verifC17World) bUpsert(rt *rapid.T, m metadb.ChannelRuntimeMeta, kind int) *verifC17Req {
	n := m
	n.RouteGeneration = 0
	n.Replicas = append([]uint64(nil), m.Replicas...)
	n.ISR = append([]uint64(nil), m.ISR...)
	note := ""
	switch kind {
	case 0:
		n.LeaderEpoch++
		n.LeaseUntilMS = w.now + 10_000
		note = "leaderEpoch+1"
	case 1:
		n.ChannelEpoch++
		note = "channelEpoch+1"
	case 2:
		others := verifC17Without(m.ISR, m.Leader)
		n.LeaderEpoch++
		if len(others) > 0 {
			n.Leader = rapid.SampledFrom(others).Draw(rt, "newLeader")
		}
		n.LeaseUntilMS = w.now + 10_000
		note = "newLeader"
	case 3:
		others := verifC17Without(m.ISR, m.Leader)
		if len(others) > 0 {
			n.ISR = verifC17Without(n.ISR, rapid.SampledFrom(others).Draw(rt, "isrDrop"))
		}
		note = "isrShrink"
	case 4:
		var cand []uint64
		for _, r := range m.Replicas {
			if !verifC17Has(m.ISR, r) {
				cand = append(cand, r)
			}
		}
		if len(cand) > 0 {
			n.ISR = verifC17SortedCopy(append(n.ISR, rapid.SampledFrom(cand).Draw(rt, "isrJoin")))
		}
		note = "isrGrow"
	default:
		n.LeaseUntilMS = m.LeaseUntilMS + 1000
		note = "lease"
	}
	return &verifC17Req{kind: "upsertMeta", channel: m.ChannelID, meta: &n, note: note}
}

var verifC17RandomKinds = []string{"create", "claim", "advance", "setFence", "resetFence", "commit", "addLearner", "promote", "clearFence", "abort", "gc", "upsertMeta", "replay", "oldObs"}

// advanceTargets: the phase/status pairs the production executor produces
// with Advance from a given phase.
func verifC17AdvanceTargets(t metadb.ChannelMigrationTask) [][2]int {
	P := func(p metadb.ChannelMigrationPhase) int { return int(p) }
	run, blocked := int(metadb.ChannelMigrationStatusRunning), int(metadb.ChannelMigrationStatusBlocked)
	out := [][2]int{{P(t.Phase), blocked}}
	if verifC17LTMode(t) {
		switch t.Phase {
		case metadb.ChannelMigrationPhaseValidate:
			out = append(out, [2]int{P(metadb.ChannelMigrationPhaseProbeTarget), run})
		case metadb.ChannelMigrationPhaseProbeTarget:
			out = append(out, [2]int{P(metadb.ChannelMigrationPhaseWriteFence), run})
		case metadb.ChannelMigrationPhaseDrainLeader:
			out = append(out, [2]int{P(metadb.ChannelMigrationPhaseFinalTargetCatchUp), run})
			if t.Kind != metadb.ChannelMigrationKindLeaderTransfer {
				out = append(out, [2]int{P(metadb.ChannelMigrationPhaseCommitLeaderMeta), run})
			}
		case metadb.ChannelMigrationPhaseFinalTargetCatchUp:
			out = append(out, [2]int{P(metadb.ChannelMigrationPhaseFinalTargetCatchUp), run}, [2]int{P(metadb.ChannelMigrationPhaseCommitLeaderMeta), run})
		case metadb.ChannelMigrationPhaseCommitLeaderMeta:
			out = append(out, [2]int{P(metadb.ChannelMigrationPhaseFinalTargetCatchUp), run})
		}
		return out
	}
	switch t.Phase {
	case metadb.ChannelMigrationPhaseValidate:
		out = append(out, [2]int{P(metadb.ChannelMigrationPhaseAddLearner), run})
	case metadb.ChannelMigrationPhaseBootstrapTarget:
		out = append(out, [2]int{P(metadb.ChannelMigrationPhaseWarmCatchUp), run})
	case metadb.ChannelMigrationPhaseCutoverFence:
		out = append(out, [2]int{P(metadb.ChannelMigrationPhaseFinalTargetCatchUp), run})
	case metadb.ChannelMigrationPhaseFinalTargetCatchUp:
		out = append(out, [2]int{P(metadb.ChannelMigrationPhaseFinalTargetCatchUp), run}, [2]int{P(metadb.ChannelMigrationPhasePromoteAndRemove), run})
	case metadb.ChannelMigrationPhasePromoteAndRemove:
		out = append(out, [2]int{P(metadb.ChannelMigrationPhaseFinalTargetCatchUp), run})
	}
	return out
}

// buildFor builds a command of the given kind for an observed (task, meta)
// the way the production store would.
func (w *verifC17World) buildFor(rt *rapid.T, kind string, t metadb.ChannelMigrationTask, m metadb.ChannelRuntimeMeta) *verifC17Req {
	switch kind {
	case "claim":
		return w.bClaim(t, uint64(rapid.IntRange(1, 3).Draw(rt, "owner")))
	case "advance":
		if t.Kind == metadb.ChannelMigrationKindReplicaReplace && !t.EmbeddedLeaderTransfer && m.Leader == t.SourceNode &&
			(t.Phase == metadb.ChannelMigrationPhaseValidate || t.Phase == metadb.ChannelMigrationPhaseAddLearner) {
			if cands := verifC17Without(verifC17Without(m.ISR, m.Leader), t.TargetNode); len(cands) > 0 && verifC17Pct(rt, "advEmbedded", 50) {
				return w.bAdvanceEmbedded(t, rapid.SampledFrom(cands).Draw(rt, "embeddedDesired"))
			}
		}
		tg := verifC17AdvanceTargets(t)
		c := tg[rapid.IntRange(0, len(tg)-1).Draw(rt, "advTarget")]
		status := metadb.ChannelMigrationStatus(c[1])
		if verifC17Pct(rt, "advFailed", 6) {
			status = metadb.ChannelMigrationStatusFailed
		}
		proof := metadb.ChannelMigrationCutoverProof{}
		drainStep := metadb.ChannelMigrationPhase(c[0]) == metadb.ChannelMigrationPhaseFinalTargetCatchUp && t.Phase != metadb.ChannelMigrationPhaseCommitLeaderMeta && t.Phase != metadb.ChannelMigrationPhasePromoteAndRemove
		if t.Phase == metadb.ChannelMigrationPhaseDrainLeader && metadb.ChannelMigrationPhase(c[0]) == metadb.ChannelMigrationPhaseCommitLeaderMeta {
			drainStep = true
		}
		if status == metadb.ChannelMigrationStatusRunning && drainStep {
			proof = w.bProof(rt, t, m)
			if proof.DrainedFenceVersion == 0 {
				proof = metadb.ChannelMigrationCutoverProof{}
			}
		}
		return w.bAdvance(t, metadb.ChannelMigrationPhase(c[0]), status, proof)
	case "setFence":
		return w.bSetFence(t, m)
	case "resetFence":
		now := w.now
		if verifC17Pct(rt, "resetLate", 60) {
			now = m.WriteFenceUntilMS + 1 + int64(rapid.IntRange(0, 1000).Draw(rt, "late"))
			if now <= 0 {
				now = w.now
			}
		}
		return w.bReset(t, m, now)
	case "commit":
		return w.bCommit(t, m, w.now)
	case "addLearner":
		return w.bAddLearner(t, m)
	case "promote":
		return w.bPromote(t, m, w.now)
	case "clearFence":
		return w.bClear(t, m)
	case "abort":
		return w.bAbort(t, m)
	}
	panic("verifC17: buildFor " + kind)
}

func (w *verifC17World) random(rt *rapid.T, st verifC17State, ch string) *verifC17Req {
	m := st.metas[ch]
	kind := rapid.SampledFrom(verifC17RandomKinds).Draw(rt, "kind")
	switch kind {
	case "create":
		id := rapid.SampledFrom(verifC17TaskIDs).Draw(rt, "createID")
		if ex, ok := st.tasks[verifC17Key(ch, id)]; ok && verifC17Pct(rt, "recreateSame", 30) {
			// duplicate delivery of the original create
			cp := ex
			return &verifC17Req{kind: "create", channel: ch, taskID: id, task: &cp, note: "same-as-stored"}
		}
		r := w.bCreate(rt, st, ch, id)
		if r.rguard != nil && verifC17Pct(rt, "staleCreate", 35) {
			verifC17MakeStale(rt, r)
		}
		return r
	case "gc":
		before := w.now + 1
		if verifC17Pct(rt, "gcOld", 40) {
			before = w.now - int64(rapid.IntRange(0, 20_000).Draw(rt, "gcAge"))
		}
		return w.bGC(ch, before)
	case "upsertMeta":
		return w.bUpsert(rt, m, rapid.IntRange(0, 5).Draw(rt, "envKind"))
	case "replay":
		if n := len(w.sentReq[ch]); n > 0 {
			old := w.sentReq[ch][rapid.IntRange(0, n-1).Draw(rt, "replayIdx")]
			cp := *old
			cp.note = strings.TrimSpace(old.note + " replayed")
			w.nReplay++
			return &cp
		}
		return w.bUpsert(rt, m, 5)
	case "oldObs":
		if t, ok := st.activeTask(ch); ok {
			if obs := w.obs[verifC17Key(ch, t.TaskID)]; len(obs) > 0 {
				o := obs[rapid.IntRange(0, len(obs)-1).Draw(rt, "obsIdx")]
				k := rapid.SampledFrom([]string{"claim", "advance", "setFence", "resetFence", "commit", "addLearner", "promote", "clearFence", "abort"}).Draw(rt, "oldKind")
				r := w.buildFor(rt, k, o.task, o.meta)
				r.note += " from-old-observation"
				return r
			}
		}
		return w.bUpsert(rt, m, 5)
	}
	// a guarded command against some task of the channel
	var t metadb.ChannelMigrationTask
	act, hasAct := st.activeTask(ch)
	switch c := rapid.IntRange(0, 99).Draw(rt, "target"); {
	case hasAct && c < 75:
		t = act
	default:
		id := rapid.SampledFrom(verifC17TaskIDs).Draw(rt, "targetID")
		ex, ok := st.tasks[verifC17Key(ch, id)]
		if ok {
			t = ex
		} else {
			t = w.newTask(rt, st, ch, id) // a task that does not exist (GC'd or never created)
			t.Status = metadb.ChannelMigrationStatusRunning
		}
	}
	if t.IsTerminal() && (kind == "claim" || kind == "advance") {
		// the executor never claims or advances terminal tasks
		kind = "abort"
	}
	r := w.buildFor(rt, kind, t, m)
	if verifC17Pct(rt, "stale", 35) {
		verifC17MakeStale(rt, r)
	}
	return r
}

// step generates one command for a channel, applies it and judges it.
func (w *verifC17World) step(rt *rapid.T, forward bool) {
	ch := verifC17Channels[0]
	if verifC17Pct(rt, "otherChannel", 30) {
		ch = verifC17Channels[1]
	}
	w.now += int64(rapid.SampledFrom([]int{0, 1, 50, 500, 2000, 6000}).Draw(rt, "dt"))
	var pre verifC17State
	if w.cur != nil {
		pre = *w.cur
	} else {
		pre = verifC17Read(rt, w.db)
	}
	for _, c := range verifC17Channels {
		w.remember(pre, c)
	}
	var r *verifC17Req
	if forward {
		r = w.forward(rt, pre, ch)
	} else {
		r = w.random(rt, pre, ch)
	}
	w.applyJudged(rt, r, verifC17Pct(rt, "direct", 20))
}

// applyJudged applies one request to the world's DB and judges the
// transition from the current state.
func (w *verifC17World) applyJudged(rt *rapid.T, r *verifC17Req, direct bool) string {
	var pre verifC17State
	if w.cur != nil {
		pre = *w.cur
	} else {
		pre = verifC17Read(rt, w.db)
	}
	res := w.apply(rt, r, direct)
	post := verifC17Read(rt, w.db)
	verifC17Judge(rt, w, pre, post, r, res)
	w.cur = &post
	if !strings.Contains(r.note, "replayed") && r.kind != "upsertMeta" && r.kind != "gc" {
		if len(w.sentReq[r.channel]) < 24 {
			w.sentReq[r.channel] = append(w.sentReq[r.channel], r)
		}
	}
	w.nSteps++
	mode := "sm"
	if direct {
		mode = "wb"
	}
	w.keyParts = append(w.keyParts, r.String()+"="+res+"@"+mode)
	return res
}

// TestVerifC17History: single commands, full pre/post oracle.
func TestVerifC17History(t *testing.T) {
	kit.Check(t, "C17", func(rt *rapid.T, k *kit.Case) {
		restore := verifC17UseMemFS()
		defer restore()
		db, sm := verifC17Open(rt, "c17")
		defer db.Close()
		w := &verifC17World{db: db, sm: sm, now: verifC17T0, cut: map[string]bool{}, reopened: map[string]bool{}, obs: map[string][]verifC17Obs{}, sentReq: map[string][]*verifC17Req{}}
		for _, ch := range verifC17Channels {
			m := verifC17InitialMeta(rt, ch)
			if res := w.apply(rt, &verifC17Req{kind: "upsertMeta", channel: ch, meta: &m}, false); res != ApplyResultOK {
				rt.Fatalf("VERIF-MACHINERY initial meta upsert: %q", res)
			}
		}
		rt.Repeat(map[string]func(*rapid.T){
			"forward":  func(rt *rapid.T) { w.step(rt, true) },
			"forward2": func(rt *rapid.T) { w.step(rt, true) },
			"forward3": func(rt *rapid.T) { w.step(rt, true) },
			"random":   func(rt *rapid.T) { w.step(rt, false) },
		})
		verifC17Report(k, w, "")
	})
}

func verifC17Report(k *kit.Case, w *verifC17World, prefix string) {
	k.Key(strings.Join(w.keyParts, ";"))
	reached := w.nCommit+w.nPromote > 0
	k.SetNonTrivial(reached && w.nBadCutover > 0)
	k.LabelIf(w.nCommit > 0, prefix+"leader transfer committed")
	k.LabelIf(w.nPromote > 0, prefix+"learner promoted")
	k.LabelIf(reached, prefix+"reached commit or promote")
	k.LabelIf(w.nBadCutover > 0, prefix+"rejected commit/promote attempt with violated precondition")
	k.LabelIf(w.nExpiredCutover > 0, prefix+"rejected commit/promote attempt on expired fence")
	k.LabelIf(w.nComplete > 0, prefix+"task completed (fence cleared)")
	k.LabelIf(w.nAbort > 0, prefix+"task aborted")
	k.LabelIf(w.nAbortAfterCut > 0, prefix+"abort attempted after commit/promote")
	k.LabelIf(w.nEmbStart > 0, prefix+"embedded leader transfer started (replica-replace source is leader)")
	k.LabelIf(w.nEmbReenter > 0, prefix+"embedded leader transfer re-entered from AddLearner")
	k.LabelIf(w.nEmbCommit > 0, prefix+"embedded leader transfer committed")
	k.LabelIf(w.nEmbDone > 0, prefix+"embedded leader transfer finished (clear -> AddLearner)")
	k.LabelIf(w.nEmbAbortPre > 0, prefix+"fresh abort during embedded transfer before its commit")
	k.LabelIf(w.nEmbAbortPostFresh > 0, prefix+"fresh abort between embedded commit and embedded clear")
	k.LabelIf(w.nEmbDone > 0 && w.nPromote > 0, prefix+"history has embedded transfer finished and a promote")
	k.LabelIf(w.nSecondCreate > 0, prefix+"create rejected while another task active")
	k.LabelIf(w.nStaleRejected > 0, prefix+"stale-guard command rejected")
	k.LabelIf(w.nForeignFence > 0, prefix+"command issued while another task's fence is held")
	k.LabelIf(w.nGC > 0, prefix+"gc removed terminal task")
	k.LabelIf(w.nReset > 0, prefix+"expired fence reset")
	k.LabelIf(w.nReplay > 0, prefix+"duplicate command delivered")
	k.LabelIf(w.nIdemClear > 0, prefix+"idempotent duplicate accepted as no-op")
	k.LabelIf(w.nFailed > 0, prefix+"task failed via advance")
	k.LabelIf(w.nDirect > 0, prefix+"some commands applied directly on WriteBatch")
	k.LabelIf(w.nSteps >= 40, prefix+"history >= 40 commands")
	k.LabelIf(w.nKnownReopen > 0, prefix+"KNOWN FINDING exercised: committed task aborted after expired-fence reset")
	k.LabelIf(w.nKnownReopenHard > 0, prefix+"KNOWN FINDING exercised: abort of a promoted+reopened task fails hard (meta validation)")
	parts := w.keyParts
	k.Sample(func() any {
		if len(parts) > 60 {
			return strings.Join(parts[:60], " ; ") + " ; …"
		}
		return strings.Join(parts, " ; ")
	})
}
