package fsm

// C15 through the slot state machine: encoded upsert / delete / retention
// advance / create-if-absent batch (command 59) commands applied with
// ApplyBatch (1..4 commands per batch) on the real meta DB. Oracle: the
// property's clauses on the before/after pair of every stored row, "rejected
// commands leave the row unchanged", and the create-batch outcome flags.

import (
	"context"
	"errors"
	"fmt"
	"path/filepath"
	"reflect"
	"slices"
	"strings"
	"testing"

	metadb "github.com/WuKongIM/WuKongIM/pkg/db/meta"
	"github.com/WuKongIM/WuKongIM/pkg/slot/multiraft"
	"pgregory.net/rapid"
	"verif.local/kit"
)

type verifC15Chan struct {
	id  string
	typ int64
	hs  uint16
}

var verifC15Chans = []verifC15Chan{
	{id: "g-alpha", typ: 2, hs: 3},
	{id: "u1@u2", typ: 1, hs: 3},
	{id: "g-alpha", typ: 1, hs: 9},
}

type verifC15Row struct {
	meta   metadb.ChannelRuntimeMeta
	exists bool
}

func verifC15Read(rt *rapid.T, db *metadb.DB) []verifC15Row {
	out := make([]verifC15Row, len(verifC15Chans))
	for i, c := range verifC15Chans {
		m, err := db.ForHashSlot(c.hs).GetChannelRuntimeMeta(context.Background(), c.id, c.typ)
		switch {
		case err == nil:
			out[i] = verifC15Row{meta: m, exists: true}
		case errors.Is(err, metadb.ErrNotFound):
		default:
			rt.Fatalf("GetChannelRuntimeMeta: %v", err)
		}
	}
	return out
}

func verifC15FenceEqual(a, b metadb.ChannelRuntimeMeta) bool {
	return a.WriteFenceToken == b.WriteFenceToken && a.WriteFenceVersion == b.WriteFenceVersion &&
		a.WriteFenceReason == b.WriteFenceReason && a.WriteFenceUntilMS == b.WriteFenceUntilMS
}

func verifC15RoutingChanged(a, b metadb.ChannelRuntimeMeta) bool {
	return a.Leader != b.Leader || !slices.Equal(a.Replicas, b.Replicas) || !slices.Equal(a.ISR, b.ISR) ||
		a.Status != b.Status || a.LeaseUntilMS != b.LeaseUntilMS ||
		a.RetentionThroughSeq != b.RetentionThroughSeq || !verifC15FenceEqual(a, b)
}

// verifC15CheckStep: the property's clauses for one before/after pair; valid
// for the net effect of several accepted writes too (every clause is closed
// under composition as long as no delete intervened).
func verifC15CheckStep(before, after verifC15Row, deleted bool) string {
	if before.exists && !after.exists && !deleted {
		return "row disappeared without a delete"
	}
	if !before.exists || !after.exists || deleted {
		return ""
	}
	b, a := before.meta, after.meta
	if a.ChannelEpoch < b.ChannelEpoch {
		return fmt.Sprintf("channel epoch decreased %d -> %d", b.ChannelEpoch, a.ChannelEpoch)
	}
	if a.ChannelEpoch == b.ChannelEpoch && a.LeaderEpoch < b.LeaderEpoch {
		return fmt.Sprintf("leader epoch decreased %d -> %d within channel epoch %d", b.LeaderEpoch, a.LeaderEpoch, a.ChannelEpoch)
	}
	if a.ChannelEpoch == b.ChannelEpoch && a.LeaderEpoch == b.LeaderEpoch {
		if a.Leader != b.Leader {
			return fmt.Sprintf("same-epoch write switched leader %d -> %d", b.Leader, a.Leader)
		}
		if a.LeaseUntilMS < b.LeaseUntilMS {
			return fmt.Sprintf("same-epoch write shortened lease %d -> %d", b.LeaseUntilMS, a.LeaseUntilMS)
		}
	}
	if a.RetentionThroughSeq < b.RetentionThroughSeq {
		return fmt.Sprintf("retention boundary decreased %d -> %d", b.RetentionThroughSeq, a.RetentionThroughSeq)
	}
	if a.WriteFenceVersion < b.WriteFenceVersion {
		return fmt.Sprintf("write fence version decreased %d -> %d", b.WriteFenceVersion, a.WriteFenceVersion)
	}
	if a.RouteGeneration < b.RouteGeneration {
		return fmt.Sprintf("route generation decreased %d -> %d", b.RouteGeneration, a.RouteGeneration)
	}
	if verifC15RoutingChanged(b, a) && a.RouteGeneration <= b.RouteGeneration {
		return fmt.Sprintf("routing fields changed but route generation %d -> %d did not increase", b.RouteGeneration, a.RouteGeneration)
	}
	return ""
}

func verifC15Delta(rt *rapid.T, label string, cur uint64) uint64 {
	d := rapid.SampledFrom([]int{-2, -1, -1, 0, 0, 0, 0, 1, 1, 2, 5}).Draw(rt, label)
	if d < 0 && uint64(-d) > cur {
		return 0
	}
	return uint64(int64(cur) + int64(d))
}

func verifC15Subset(rt *rapid.T, label string, from []uint64, allowEmpty bool) []uint64 {
	var out []uint64
	for _, n := range from {
		if rapid.IntRange(0, 3).Draw(rt, label) != 0 {
			out = append(out, n)
		}
	}
	if len(out) == 0 && !allowEmpty {
		out = append(out, from[rapid.IntRange(0, len(from)-1).Draw(rt, label+"One")])
	}
	return out
}

func verifC15SubsetOf(sub, of []uint64) bool {
	for _, n := range sub {
		if !slices.Contains(of, n) {
			return false
		}
	}
	return true
}

// verifC15Candidate draws a valid candidate around the stored row.
func verifC15Candidate(rt *rapid.T, c verifC15Chan, row verifC15Row) metadb.ChannelRuntimeMeta {
	cur, exists := row.meta, row.exists
	m := metadb.ChannelRuntimeMeta{ChannelID: c.id, ChannelType: c.typ}
	keep := func(label string) bool { return exists && rapid.IntRange(0, 9).Draw(rt, label) < 6 }
	m.ChannelEpoch = verifC15Delta(rt, "chEpochD", cur.ChannelEpoch)
	if m.ChannelEpoch > cur.ChannelEpoch && rapid.IntRange(0, 2).Draw(rt, "leReset") == 0 {
		m.LeaderEpoch = 1
	} else {
		m.LeaderEpoch = verifC15Delta(rt, "leEpochD", cur.LeaderEpoch)
	}
	if keep("keepReplicas") {
		m.Replicas = slices.Clone(cur.Replicas)
	} else {
		m.Replicas = verifC15Subset(rt, "replica", []uint64{1, 2, 3, 4, 5}, false)
	}
	if keep("keepISR") && verifC15SubsetOf(cur.ISR, m.Replicas) {
		m.ISR = slices.Clone(cur.ISR)
	} else {
		m.ISR = verifC15Subset(rt, "isr", m.Replicas, true)
	}
	switch {
	case exists && slices.Contains(m.ISR, cur.Leader) && rapid.IntRange(0, 9).Draw(rt, "keepLeader") < 6:
		m.Leader = cur.Leader
	case len(m.ISR) == 0 || rapid.IntRange(0, 7).Draw(rt, "noLeader") == 0:
		m.Leader = 0
	default:
		m.Leader = m.ISR[rapid.IntRange(0, len(m.ISR)-1).Draw(rt, "leaderIdx")]
	}
	m.MinISR = int64(rapid.IntRange(1, len(m.Replicas)).Draw(rt, "minISR"))
	if keep("keepStatus") {
		m.Status = cur.Status
	} else {
		m.Status = uint8(rapid.IntRange(0, 3).Draw(rt, "status"))
	}
	m.Features = uint64(rapid.IntRange(0, 3).Draw(rt, "features"))
	m.LeaseUntilMS = int64(verifC15Delta(rt, "leaseD", uint64(cur.LeaseUntilMS)))
	if rapid.IntRange(0, 4).Draw(rt, "leaseJump") == 0 {
		m.LeaseUntilMS = int64(rapid.IntRange(0, 40).Draw(rt, "lease"))
	}
	m.RetentionThroughSeq = verifC15Delta(rt, "retD", cur.RetentionThroughSeq)
	m.RetentionUpdatedAtMS = int64(verifC15Delta(rt, "retAtD", uint64(cur.RetentionUpdatedAtMS)))
	switch rapid.IntRange(0, 5).Draw(rt, "fenceKind") {
	case 0, 1:
		m.WriteFenceToken, m.WriteFenceVersion = cur.WriteFenceToken, cur.WriteFenceVersion
		m.WriteFenceReason, m.WriteFenceUntilMS = cur.WriteFenceReason, cur.WriteFenceUntilMS
	case 2:
		m.WriteFenceVersion = verifC15Delta(rt, "fenceVerD", cur.WriteFenceVersion)
	default:
		m.WriteFenceToken = rapid.SampledFrom([]string{"task-a", "task-b"}).Draw(rt, "fenceToken")
		m.WriteFenceVersion = max(verifC15Delta(rt, "fenceVerD", cur.WriteFenceVersion), 1)
		m.WriteFenceReason = uint8(rapid.IntRange(1, 3).Draw(rt, "fenceReason"))
		m.WriteFenceUntilMS = int64(rapid.IntRange(1, 50).Draw(rt, "fenceUntil"))
	}
	// The command encoder canonicalises, so a zero route generation reaches the
	// store as max(epochs, fence version, 1): both forms are what callers send.
	if rapid.IntRange(0, 2).Draw(rt, "rgExplicit") != 0 {
		m.RouteGeneration = verifC15Delta(rt, "rgD", cur.RouteGeneration)
	}
	return m
}

type verifC15Cmd struct {
	kind    string // upsert | delete | advance | create
	rows    []int  // rows addressed (create: several)
	data    []byte
	hs      uint16
	invalid bool
	desc    string
}

func verifC15Fmt(m metadb.ChannelRuntimeMeta) string {
	return fmt.Sprintf("{%s/%d ce=%d le=%d rg=%d L=%d R=%v I=%v min=%d st=%d lease=%d ret=%d@%d fence=%q/v%d/r%d/u%d}",
		m.ChannelID, m.ChannelType, m.ChannelEpoch, m.LeaderEpoch, m.RouteGeneration, m.Leader, m.Replicas, m.ISR, m.MinISR, m.Status,
		m.LeaseUntilMS, m.RetentionThroughSeq, m.RetentionUpdatedAtMS, m.WriteFenceToken, m.WriteFenceVersion, m.WriteFenceReason, m.WriteFenceUntilMS)
}

func verifC15DrawCmd(rt *rapid.T, cur []verifC15Row) verifC15Cmd {
	i := rapid.IntRange(0, len(verifC15Chans)-1).Draw(rt, "chan")
	c := verifC15Chans[i]
	switch rapid.SampledFrom([]string{"upsert", "upsert", "upsert", "upsert", "advance", "advance", "delete", "create", "create"}).Draw(rt, "kind") {
	case "upsert":
		cand := verifC15Candidate(rt, c, cur[i])
		cmd := verifC15Cmd{kind: "upsert", rows: []int{i}, hs: c.hs}
		if rapid.IntRange(0, 39).Draw(rt, "invalid") == 0 {
			cand.Leader, cmd.invalid = 9, true // not a replica: validation must refuse
		}
		cmd.data = EncodeUpsertChannelRuntimeMetaCommand(cand)
		cmd.desc = fmt.Sprintf("upsert row%d %s", i, verifC15Fmt(cand))
		return cmd
	case "advance":
		m := cur[i].meta
		req := metadb.ChannelRetentionAdvance{
			ChannelID: c.id, ChannelType: c.typ,
			ExpectedChannelEpoch: m.ChannelEpoch, ExpectedLeaderEpoch: m.LeaderEpoch,
			ExpectedLeader: m.Leader, ExpectedLeaseUntilMS: m.LeaseUntilMS,
			RetentionThroughSeq:  verifC15Delta(rt, "advRet", m.RetentionThroughSeq),
			RetentionUpdatedAtMS: int64(rapid.IntRange(0, 60).Draw(rt, "advRetAt")),
		}
		switch rapid.IntRange(0, 9).Draw(rt, "advStale") {
		case 0:
			req.ExpectedChannelEpoch++
		case 1:
			req.ExpectedLeaderEpoch += 2
		case 2:
			req.ExpectedLeader = m.Leader%5 + 1
		case 3:
			req.ExpectedLeaseUntilMS++
		}
		return verifC15Cmd{kind: "advance", rows: []int{i}, hs: c.hs,
			data: EncodeAdvanceChannelRetentionThroughSeqCommand(req), desc: fmt.Sprintf("advance row%d %+v", i, req)}
	case "delete":
		return verifC15Cmd{kind: "delete", rows: []int{i}, hs: c.hs,
			data: EncodeDeleteChannelRuntimeMetaCommand(c.id, c.typ), desc: fmt.Sprintf("delete row%d", i)}
	default:
		// command 59: create-if-absent for 1..3 distinct rows (may span hash slots)
		n := rapid.IntRange(1, len(verifC15Chans)).Draw(rt, "createN")
		start := rapid.IntRange(0, len(verifC15Chans)-1).Draw(rt, "createStart")
		var items []CreateChannelRuntimeMetaBatchItem
		var rows []int
		var descs []string
		for j := 0; j < n; j++ {
			r := (start + j) % len(verifC15Chans)
			cand := verifC15Candidate(rt, verifC15Chans[r], cur[r])
			items = append(items, CreateChannelRuntimeMetaBatchItem{HashSlot: verifC15Chans[r].hs, Meta: cand})
			rows = append(rows, r)
			descs = append(descs, fmt.Sprintf("row%d %s", r, verifC15Fmt(cand)))
		}
		data, err := EncodeCreateChannelRuntimeMetaBatchCommandChecked(items)
		if err != nil {
			rt.Fatalf("encode create batch: %v", err)
		}
		return verifC15Cmd{kind: "create", rows: rows, hs: verifC15Chans[rows[0]].hs, data: data,
			desc: "create " + strings.Join(descs, " ; ")}
	}
}

func TestVerifC15FSM(t *testing.T) {
	kit.Check(t, "C15", func(rt *rapid.T, k *kit.Case) {
		dir, rm := kit.TempDir()
		defer rm()
		db, err := metadb.Open(filepath.Join(dir, "db"))
		if err != nil {
			rt.Fatalf("open: %v", err)
		}
		defer db.Close()
		smi, err := NewStateMachineWithHashSlots(db, 1, []uint16{3, 9})
		if err != nil {
			rt.Fatalf("state machine: %v", err)
		}
		sm := smi.(*stateMachine)
		var (
			log                                         []string
			index                                       uint64
			sawStaleMeta, sawChange, sawChangeThenStale bool
			sawCreateNew, sawCreateExisting, sawDelete  bool
			sawMultiSameRow, sawFallback, sawInvalid    bool
			sawIgnoredUpsert, sawAdvanceStale           bool
			batches                                     int
		)
		rt.Repeat(map[string]func(*rapid.T){
			"applyBatch": func(rt *rapid.T) {
				before := verifC15Read(rt, db)
				n := rapid.SampledFrom([]int{1, 1, 1, 2, 3, 4}).Draw(rt, "n")
				cmds := make([]verifC15Cmd, n)
				raft := make([]multiraft.Command, n)
				anyInvalid := false
				for j := range cmds {
					cmds[j] = verifC15DrawCmd(rt, before)
					index++
					raft[j] = multiraft.Command{SlotID: 1, HashSlot: cmds[j].hs, Index: index, Term: 1, Data: cmds[j].data}
					anyInvalid = anyInvalid || cmds[j].invalid
					log = append(log, fmt.Sprintf("#%d %s", index, cmds[j].desc))
				}
				results, err := sm.ApplyBatch(context.Background(), raft)
				after := verifC15Read(rt, db)
				batches++
				fail := func(format string, args ...any) {
					rt.Fatalf("C15 violated (slot FSM): %s\nhistory:\n%s", fmt.Sprintf(format, args...), strings.Join(log, "\n"))
				}
				if anyInvalid {
					sawInvalid = true
					if err == nil {
						fail("batch with an invalid candidate was accepted")
					}
				}
				if err != nil {
					if !anyInvalid {
						fail("ApplyBatch failed: %v", err)
					}
					log = append(log, fmt.Sprintf("  -> error %v", err))
					if !reflect.DeepEqual(before, after) {
						fail("failed batch changed rows:\n before=%v\n after =%v", before, after)
					}
					return
				}
				var resStr []string
				for _, r := range results {
					if string(r) == ApplyResultOK || string(r) == ApplyResultStaleMeta {
						resStr = append(resStr, string(r))
					} else {
						resStr = append(resStr, "create-result")
					}
				}
				log = append(log, "  -> "+strings.Join(resStr, ","))

				deleted := make([]bool, len(verifC15Chans))
				touchedAccepted := make([]int, len(verifC15Chans)) // accepted (non-rejected) commands that may write the row
				touched := make([]int, len(verifC15Chans))
				for j, c := range cmds {
					res := string(results[j])
					for _, r := range c.rows {
						touched[r]++
					}
					switch c.kind {
					case "delete":
						if res != ApplyResultOK {
							fail("delete result %q", res)
						}
						deleted[c.rows[0]] = true
						touchedAccepted[c.rows[0]]++
						sawDelete = true
					case "upsert", "advance":
						switch res {
						case ApplyResultOK:
							touchedAccepted[c.rows[0]]++
						case ApplyResultStaleMeta:
							sawStaleMeta = true
							if sawChange {
								sawChangeThenStale = true
							}
							if c.kind == "advance" {
								sawAdvanceStale = true
							}
						default:
							fail("unexpected result %q for %s", res, c.desc)
						}
					case "create":
						out, derr := DecodeCreateChannelRuntimeMetaBatchResult(results[j])
						if derr != nil || len(out) != len(c.rows) {
							fail("create result undecodable: %v (%d outcomes for %d items)", derr, len(out), len(c.rows))
						}
						for _, o := range out {
							r := -1
							for idx, ch := range verifC15Chans {
								if ch.id == o.ChannelID && ch.typ == o.ChannelType && ch.hs == o.HashSlot {
									r = idx
								}
							}
							if r < 0 || !slices.Contains(c.rows, r) {
								fail("create outcome for unknown row %+v", o)
							}
							if o.Created {
								touchedAccepted[r]++
								sawCreateNew = true
								if touched[r] == 1 && n == 1 && before[r].exists {
									fail("create-if-absent reported Created for existing row %d", r)
								}
							} else {
								sawCreateExisting = true
								if n == 1 && !before[r].exists {
									fail("create-if-absent reported not created for absent row %d", r)
								}
							}
						}
					}
				}
				if n > 1 {
					// a multi-command batch that hit a conflict is re-applied command by command
					for _, r := range results {
						if string(r) == ApplyResultStaleMeta {
							sawFallback = true
						}
					}
				}
				for r := range verifC15Chans {
					if touched[r] > 1 {
						sawMultiSameRow = true
					}
					if touchedAccepted[r] == 0 && !reflect.DeepEqual(before[r], after[r]) {
						fail("row %d changed although every command addressing it was rejected or none addressed it\n before=%s\n after =%s",
							r, verifC15Fmt(before[r].meta), verifC15Fmt(after[r].meta))
					}
					if msg := verifC15CheckStep(before[r], after[r], deleted[r]); msg != "" {
						fail("row %d: %s\n before=%s\n after =%s", r, msg, verifC15Fmt(before[r].meta), verifC15Fmt(after[r].meta))
					}
					if before[r].exists && after[r].exists && !deleted[r] {
						if !reflect.DeepEqual(before[r], after[r]) {
							sawChange = true
						} else if touchedAccepted[r] > 0 {
							sawIgnoredUpsert = true
						}
					}
				}
			},
		})
		k.Key(strings.Join(log, "\n"))
		k.SetNonTrivial(sawChangeThenStale)
		k.LabelIf(sawStaleMeta, "command answered stale_meta")
		k.LabelIf(sawAdvanceStale, "retention advance answered stale_meta")
		k.LabelIf(sawIgnoredUpsert, "accepted command left existing row unchanged (stale/no-op)")
		k.LabelIf(sawChange, "existing row changed")
		k.LabelIf(sawCreateNew, "create batch created a row")
		k.LabelIf(sawCreateExisting, "create batch found existing row")
		k.LabelIf(sawDelete, "delete")
		k.LabelIf(sawMultiSameRow, "batch with several commands on one row")
		k.LabelIf(sawFallback, "multi-command batch re-applied individually after conflict")
		k.LabelIf(sawInvalid, "invalid candidate aborted the batch")
		k.LabelIf(batches >= 15, "history >= 15 batches")
		k.Sample(func() any { return log })
	})
}
