package fsm

import (
	"bytes"
	"context"
	"encoding/binary"
	"errors"
	"fmt"
	"path/filepath"
	"sort"
	"strings"
	"sync"
	"sync/atomic"
	"testing"

	metadb "github.com/WuKongIM/WuKongIM/pkg/db/meta"
	runtimechannelid "github.com/WuKongIM/WuKongIM/pkg/protocol/channelid"
	"github.com/WuKongIM/WuKongIM/pkg/slot/multiraft"
	"pgregory.net/rapid"
	"verif.local/kit"
)

// The state machine under test is slot verifC13Slot owning two logical hash
// slots; verifC13Unowned is a hash slot it does not own.
const (
	verifC13Slot    = uint64(5)
	verifC13Unowned = uint16(9)
)

var verifC13Owned = []uint16{3, 7}

// verifC13SigDeleteSubscribe is the signature of the recorded finding "DeleteChannel
// does not clear the commit overlay's subscriber rows" (see DESIGN §1.5): while it
// is listed in known_findings.json the partition generator never puts a
// DeleteChannel and a later subscriber mutation of the same row into one batch;
// TestVerifC13KnownDeleteThenSubscribe re-establishes it on every run.
const verifC13SigDeleteSubscribe = "delete-channel-then-subscriber-mutation-in-one-batch:stale-subscriber-rows"

// verifC13SigGCInBatch: GarbageCollectMigrationTasks plans and lists from the
// committed DB, so inside one batch it is blind to migration-task commands that
// precede it (and later creates are blind to its deletes). While listed, a GC
// command never shares a batch with another migration-task command of its hash
// slot; TestVerifC13KnownGCInBatch re-establishes it on every run.
const verifC13SigGCInBatch = "migration-task-gc-in-one-batch:blind-to-earlier-commands-of-the-batch"

type verifC13Fataler interface {
	Fatalf(format string, args ...any)
}

// ---- a replica: one meta DB + one state machine -------------------------------------

type verifC13Replica struct {
	dir string
	db  *metadb.DB
	sm  *stateMachine
}

func verifC13Open(rt verifC13Fataler, dir string) *verifC13Replica {
	db, err := metadb.Open(filepath.Join(dir, "db"))
	if err != nil {
		rt.Fatalf("VERIF-MACHINERY metadb.Open: %v", err)
	}
	sm, err := NewStateMachineWithHashSlots(db, verifC13Slot, verifC13Owned)
	if err != nil {
		_ = db.Close()
		rt.Fatalf("NewStateMachineWithHashSlots: %v", err)
	}
	return &verifC13Replica{dir: dir, db: db, sm: sm.(*stateMachine)}
}

func (r *verifC13Replica) close(rt verifC13Fataler) {
	if r.db != nil {
		if err := r.db.Close(); err != nil {
			rt.Fatalf("close meta db: %v", err)
		}
		r.db = nil
	}
}

// reopen simulates a process restart: the DB is closed and opened again and a new
// state machine is built over it (all in-memory caches are gone).
func (r *verifC13Replica) reopen(rt verifC13Fataler) {
	r.close(rt)
	n := verifC13Open(rt, r.dir)
	r.db, r.sm = n.db, n.sm
}

// export returns the canonical bytes of every key of the given hash slots.
func (r *verifC13Replica) export(rt verifC13Fataler, hashSlots []uint16) []byte {
	snap, err := r.db.ExportHashSlotSnapshot(context.Background(), hashSlots)
	if err != nil {
		rt.Fatalf("ExportHashSlotSnapshot(%v): %v", hashSlots, err)
	}
	return snap.Data
}

func (r *verifC13Replica) snapshot(rt verifC13Fataler) []byte {
	snap, err := r.sm.Snapshot(context.Background())
	if err != nil {
		rt.Fatalf("Snapshot: %v", err)
	}
	return snap.Data
}

func (r *verifC13Replica) applied(rt verifC13Fataler) uint64 {
	idx, err := r.sm.DurableAppliedIndex(context.Background())
	if err != nil {
		rt.Fatalf("DurableAppliedIndex: %v", err)
	}
	return idx
}

// directoryGeneration reads the person-directory generation fence stored in the
// runtime metadata of a person channel (false: no runtime metadata row).
func (r *verifC13Replica) directoryGeneration(rt verifC13Fataler, hashSlot uint16, channel string) (uint64, bool) {
	meta, err := r.db.ForHashSlot(hashSlot).GetChannelRuntimeMeta(context.Background(), channel, 1)
	if errors.Is(err, metadb.ErrNotFound) {
		return 0, false
	}
	if err != nil {
		rt.Fatalf("VERIF-MACHINERY GetChannelRuntimeMeta(%d,%s,1): %v", hashSlot, channel, err)
	}
	return meta.DirectoryGeneration, true
}

// verifC13PollCtx is a context that reports cancellation from its (allowed+1)-th
// Err() poll on: a node that starts shutting down while a snapshot install runs.
type verifC13PollCtx struct {
	context.Context
	mu      sync.Mutex
	allowed int
	polls   int
	done    chan struct{}
	closed  bool
}

func verifC13NewPollCtx(allowed int) *verifC13PollCtx {
	c := &verifC13PollCtx{Context: context.Background(), allowed: allowed, done: make(chan struct{})}
	if allowed == 0 {
		c.closed = true
		close(c.done)
	}
	return c
}

func (c *verifC13PollCtx) Done() <-chan struct{} { return c.done }

func (c *verifC13PollCtx) Err() error {
	c.mu.Lock()
	defer c.mu.Unlock()
	if c.polls >= c.allowed {
		if !c.closed {
			c.closed = true
			close(c.done)
		}
		return context.Canceled
	}
	c.polls++
	return nil
}

// verifC13Entries parses a slot snapshot payload into key -> value (diagnostics).
func verifC13Entries(data []byte) map[string]string {
	out := map[string]string{}
	if len(data) < 8 {
		return out
	}
	off := 8 + 2*int(binary.BigEndian.Uint16(data[6:8])) + 8
	for off < len(data)-4 {
		kl, n := binary.Uvarint(data[off:])
		if n <= 0 {
			break
		}
		off += n
		vl, n := binary.Uvarint(data[off:])
		if n <= 0 || off+n+int(kl)+int(vl) > len(data) {
			break
		}
		off += n
		out[string(data[off:off+int(kl)])] = string(data[off+int(kl) : off+int(kl)+int(vl)])
		off += int(kl) + int(vl)
	}
	return out
}

func verifC13Diff(a, b []byte) string {
	if bytes.Equal(a, b) {
		return ""
	}
	ea, eb := verifC13Entries(a), verifC13Entries(b)
	keys := map[string]bool{}
	for k := range ea {
		keys[k] = true
	}
	for k := range eb {
		keys[k] = true
	}
	sorted := make([]string, 0, len(keys))
	for k := range keys {
		sorted = append(sorted, k)
	}
	sort.Strings(sorted)
	var sb strings.Builder
	n := 0
	for _, k := range sorted {
		va, oka := ea[k]
		vb, okb := eb[k]
		if oka && okb && va == vb {
			continue
		}
		if n < 6 {
			fmt.Fprintf(&sb, "\n  key %x: left(present=%v) %x | right(present=%v) %x", k, oka, va, okb, vb)
		}
		n++
	}
	return fmt.Sprintf("%d differing keys (left %d entries / %d bytes, right %d entries / %d bytes)%s", n, len(ea), len(a), len(eb), len(b), sb.String())
}

// ---- command generator ----------------------------------------------------------------

type verifC13Cmd struct {
	class       string
	hashSlot    uint16
	data        []byte
	conditional bool   // result depends on the state the command meets (create-if-absent, counted, guarded, monotonic)
	motif       bool   // part of a same-row motif
	rowKey      string // hashSlot/channel/type for channel-row commands (deleteChannel, subscribers)
	// metaRows: hashSlot/channel/type of every row whose ChannelRuntimeMeta the
	// command reads at commit time (measures "generation bump then reader in one batch").
	metaRows []string
	person   bool   // one of the person-directory command families (types 63-65)
	channel  string // the row the command was drawn for / pinned to
	typ      int64
}

func verifC13Row(hashSlot uint16, channel string, typ int64) string {
	return fmt.Sprintf("%d/%s/%d", hashSlot, channel, typ)
}

var (
	verifC13Users    = []string{"u0", "u1", "u2", "u3"}
	verifC13Channels = []string{"c0", "c1", "c2"}
	verifC13Types    = []int64{2, 3}
	verifC13Tasks    = []string{"t0", "t1", "t2"}
	// canonical person (type 1) channel ids over the uid pool
	verifC13PersonChannels = []string{runtimechannelid.EncodePersonChannel("u0", "u1"), runtimechannelid.EncodePersonChannel("u0", "u2")}
)

// verifC13PickRow draws the (channel id, channel type) of a row: a type 2/3
// channel or (3 in 10) a canonical person channel of type 1, whose runtime
// metadata carries the person-directory generation fence.
func verifC13PickRow(t *rapid.T) (string, int64) {
	if rapid.IntRange(0, 9).Draw(t, "personRow") < 3 {
		return verifC13Pick(t, "personChannel", verifC13PersonChannels), 1
	}
	return verifC13Pick(t, "channel", verifC13Channels), verifC13Pick(t, "type", verifC13Types)
}

// verifC13PersonUID draws one of the two uids of a canonical person channel.
func verifC13PersonUID(t *rapid.T, channel string) string {
	left, right, err := runtimechannelid.DecodePersonChannel(channel)
	if err != nil {
		t.Fatalf("harness: %q is not a person channel: %v", channel, err)
	}
	return verifC13Pick(t, "personUID", []string{left, right})
}

func verifC13Pick[T any](t *rapid.T, label string, pool []T) T {
	return pool[rapid.IntRange(0, len(pool)-1).Draw(t, label)]
}

func verifC13RuntimeMeta(t *rapid.T) metadb.ChannelRuntimeMeta {
	replicas := []uint64{}
	for _, n := range []uint64{1, 2, 3} {
		if rapid.IntRange(0, 3).Draw(t, "replica") > 0 {
			replicas = append(replicas, n)
		}
	}
	if len(replicas) == 0 {
		replicas = []uint64{1}
	}
	isr := []uint64{}
	for _, n := range replicas {
		if rapid.IntRange(0, 3).Draw(t, "inISR") > 0 {
			isr = append(isr, n)
		}
	}
	leader := uint64(0)
	if len(isr) > 0 && rapid.IntRange(0, 5).Draw(t, "hasLeader") > 0 {
		leader = verifC13Pick(t, "leader", isr)
	}
	rowChannel, rowType := verifC13PickRow(t)
	m := metadb.ChannelRuntimeMeta{
		ChannelID: rowChannel, ChannelType: rowType,
		ChannelEpoch: uint64(rapid.IntRange(1, 3).Draw(t, "channelEpoch")), LeaderEpoch: uint64(rapid.IntRange(1, 3).Draw(t, "leaderEpoch")),
		Replicas: replicas, ISR: isr, Leader: leader, MinISR: int64(rapid.IntRange(1, len(replicas)).Draw(t, "minISR")),
		Status: uint8(rapid.IntRange(1, 2).Draw(t, "status")), Features: uint64(rapid.IntRange(0, 1).Draw(t, "features")),
		LeaseUntilMS: int64(1000 * rapid.IntRange(1, 3).Draw(t, "lease")),
	}
	if rapid.IntRange(0, 2).Draw(t, "explicitRoute") == 0 {
		m.RouteGeneration = uint64(rapid.IntRange(1, 6).Draw(t, "routeGeneration"))
	}
	if rapid.IntRange(0, 4).Draw(t, "fenced") == 0 {
		m.WriteFenceToken, m.WriteFenceVersion = "f"+fmt.Sprint(rapid.IntRange(0, 1).Draw(t, "fenceToken")), uint64(rapid.IntRange(1, 3).Draw(t, "fenceVersion"))
		m.WriteFenceReason, m.WriteFenceUntilMS = uint8(rapid.IntRange(1, 3).Draw(t, "fenceReason")), int64(1000*rapid.IntRange(1, 3).Draw(t, "fenceUntil"))
	}
	return m
}

func verifC13Membership(t *rapid.T) metadb.UserChannelMembership {
	rowChannel, rowType := verifC13PickRow(t)
	return metadb.UserChannelMembership{
		UID: verifC13Pick(t, "uid", verifC13Users), ChannelID: rowChannel, ChannelType: rowType,
		JoinSeq: uint64(rapid.IntRange(0, 4).Draw(t, "joinSeq")), ReadSeq: uint64(rapid.IntRange(0, 6).Draw(t, "readSeq")), DeletedToSeq: uint64(rapid.IntRange(0, 6).Draw(t, "deletedToSeq")),
		ActivatedAt: int64(rapid.IntRange(0, 5).Draw(t, "activatedAt")), Tombstone: rapid.IntRange(0, 4).Draw(t, "tombstone") == 0, TombstoneAt: int64(rapid.IntRange(0, 5).Draw(t, "tombstoneAt")),
		SourceVersion: uint64(rapid.IntRange(0, 4).Draw(t, "sourceVersion")), UpdatedAt: int64(rapid.IntRange(1, 9).Draw(t, "updatedAt")),
	}
}

func verifC13CMDMembership(t *rapid.T) metadb.UserCMDChannelMembership {
	rowChannel, rowType := verifC13PickRow(t)
	return metadb.UserCMDChannelMembership{
		UID: verifC13Pick(t, "uid", verifC13Users), CommandChannelID: rowChannel + "____cmd", ChannelType: rowType,
		StartSeq: uint64(rapid.IntRange(0, 4).Draw(t, "startSeq")), AckSeq: uint64(rapid.IntRange(0, 6).Draw(t, "ackSeq")), Tombstone: rapid.IntRange(0, 4).Draw(t, "tombstone") == 0,
		TombstoneAt: int64(rapid.IntRange(0, 5).Draw(t, "tombstoneAt")), UpdatedAt: int64(rapid.IntRange(1, 9).Draw(t, "updatedAt")),
	}
}

func verifC13Latest(t *rapid.T) metadb.ChannelLatest {
	rowChannel, rowType := verifC13PickRow(t)
	return metadb.ChannelLatest{
		ChannelID: rowChannel, ChannelType: rowType, LastMessageID: uint64(rapid.IntRange(1, 50).Draw(t, "lastID")),
		LastMessageSeq: uint64(rapid.IntRange(1, 9).Draw(t, "lastSeq")), LastAt: int64(rapid.IntRange(1, 9).Draw(t, "lastAt")), FromUID: verifC13Pick(t, "from", verifC13Users),
		ClientMsgNo: "m" + fmt.Sprint(rapid.IntRange(0, 3).Draw(t, "clientMsgNo")), Payload: rapid.SliceOfN(rapid.Byte(), 0, 6).Draw(t, "payload"), UpdatedAt: int64(rapid.IntRange(1, 9).Draw(t, "updatedAt")),
	}
}

func verifC13Event(t *rapid.T, channel string, typ int64) metadb.MessageEventAppend {
	return metadb.MessageEventAppend{
		ChannelID: channel, ChannelType: typ, ClientMsgNo: "m" + fmt.Sprint(rapid.IntRange(0, 1).Draw(t, "clientMsgNo")), EventID: "e" + fmt.Sprint(rapid.IntRange(0, 5).Draw(t, "eventID")),
		EventKey: rapid.SampledFrom([]string{"", "k0", "k1"}).Draw(t, "eventKey"), EventType: rapid.SampledFrom(verifC13EventTypes).Draw(t, "eventType"),
		Visibility: rapid.SampledFrom([]string{"", "public", "private"}).Draw(t, "visibility"), OccurredAt: int64(rapid.IntRange(1, 9).Draw(t, "occurredAt")),
		Payload: rapid.SliceOfN(rapid.Byte(), 0, 6).Draw(t, "payload"), UpdatedAt: int64(rapid.IntRange(1, 9).Draw(t, "updatedAt")),
	}
}

var verifC13EventTypes = []string{metadb.EventTypeStreamOpen, metadb.EventTypeStreamDelta, metadb.EventTypeStreamDelta, metadb.EventTypeStreamClose, metadb.EventTypeStreamError, metadb.EventTypeStreamCancel, metadb.EventTypeStreamSnapshot, metadb.EventTypeStreamFinish}

func verifC13TaskGuard(t *rapid.T, key verifC13Key) metadb.ChannelMigrationTaskGuard {
	if key.channel == "" {
		key.channel, key.typ = verifC13PickRow(t)
		key.task = verifC13Pick(t, "task", verifC13Tasks)
	}
	return metadb.ChannelMigrationTaskGuard{
		ChannelID: key.channel, ChannelType: key.typ, TaskID: key.task,
		ExpectedStatus: metadb.ChannelMigrationStatus(rapid.IntRange(1, 2).Draw(t, "expectedStatus")), ExpectedPhase: metadb.ChannelMigrationPhase(rapid.IntRange(1, 2).Draw(t, "expectedPhase")),
		ExpectedOwnerNodeID: uint64(rapid.IntRange(0, 1).Draw(t, "expectedOwner")), ExpectedOwnerLeaseUntilMS: int64(100 * rapid.IntRange(0, 1).Draw(t, "expectedLease")),
		ExpectedUpdatedAtMS: int64(rapid.IntRange(1, 2).Draw(t, "expectedUpdatedAt")),
	}
}

var verifC13Classes = []string{
	"noop", "upsertUser", "createUser", "upsertDevice", "upsertChannel", "createChannel", "patchChannelFlags", "deleteChannel",
	"upsertRuntimeMeta", "upsertRuntimeMeta", "upsertRuntimeMeta", "deleteRuntimeMeta", "advanceRetention", "advanceRetention", "createRuntimeMetaBatch",
	"addSubscribers", "addSubscribers", "removeSubscribers", "upsertMemberships", "deleteMemberships", "advanceReadSeq", "hideMembership", "activateMembership",
	"upsertCMDMemberships", "advanceCMDAcks", "tombstoneCMDMemberships", "upsertLatest", "upsertLatestBatch", "appendEvent", "appendEvent", "appendEventsBatch",
	"bindPlugin", "unbindPlugin", "createMigrationTask", "createMigrationTask", "claimMigrationTask", "advanceMigrationTask", "abortMigration", "gcMigrationTasks",
	"admitPersonDirectory", "admitPersonDirectory", "ensurePersonMemberships", "completePersonDirectory",
}

// verifC13Key pins the row a generated command addresses (zero fields are drawn).
type verifC13Key struct {
	hashSlot uint16
	channel  string
	typ      int64
	uid      string
	task     string
	// generation: the person-directory generation a motif expects its row to be at
	// (a generator bias for completion commands, not an oracle input)
	generation uint64
}

func verifC13CmdGen() *rapid.Generator[verifC13Cmd] {
	return rapid.Custom(func(t *rapid.T) verifC13Cmd {
		return verifC13CmdOf(t, rapid.SampledFrom(verifC13Classes).Draw(t, "class"), verifC13Key{})
	})
}

// verifC13Motifs are short command sequences aimed at one row, so that commands
// that depend on each other land in the same apply batch (create after delete,
// repeated counted mutations, racing monotonic upserts, duplicate creates).
var verifC13Motifs = [][]string{
	{"upsertChannel", "deleteChannel", "createChannel"},
	{"upsertChannel", "deleteChannel", "addSubscribers"},
	{"createChannel", "patchChannelFlags", "deleteChannel", "patchChannelFlags"},
	{"addSubscribers", "addSubscribers", "removeSubscribers"},
	{"addSubscribers", "removeSubscribers", "removeSubscribers", "addSubscribers"},
	{"upsertRuntimeMeta", "upsertRuntimeMeta", "advanceRetention"},
	{"upsertRuntimeMeta", "deleteRuntimeMeta", "createRuntimeMetaBatch", "upsertRuntimeMeta"},
	{"createRuntimeMetaBatch", "createRuntimeMetaBatch", "advanceRetention"},
	{"createUser", "createUser", "upsertUser", "createUser"},
	{"createChannel", "createChannel"},
	{"createMigrationTask", "createMigrationTask", "claimMigrationTask", "advanceMigrationTask"},
	{"createMigrationTask", "abortMigration", "createMigrationTask", "gcMigrationTasks"},
	{"appendEvent", "appendEvent", "appendEventsBatch", "appendEvent"},
	{"upsertMemberships", "advanceReadSeq", "hideMembership", "activateMembership", "deleteMemberships"},
	{"upsertCMDMemberships", "advanceCMDAcks", "tombstoneCMDMemberships", "advanceCMDAcks"},
	{"bindPlugin", "unbindPlugin", "bindPlugin"},
}

// verifC13PersonMotifs are same-row motifs pinned to a canonical person channel
// (type 1): deleting a live person channel bumps its runtime metadata's
// DirectoryGeneration, and every later reader of that row (re-admission,
// create-if-absent runtime metadata which also ensures the directory task,
// monotonic upsert, retention advance, completion) must observe the bump even
// inside the same apply batch.
var verifC13PersonMotifs = [][]string{
	{"admitPersonDirectory", "deleteChannel", "admitPersonDirectory"},
	{"admitPersonDirectory", "completePersonDirectory", "upsertChannel", "deleteChannel", "admitPersonDirectory", "completePersonDirectory", "admitPersonDirectory"},
	{"createRuntimeMetaBatch", "deleteChannel", "upsertRuntimeMeta", "createRuntimeMetaBatch"},
	{"upsertChannel", "upsertRuntimeMeta", "deleteChannel", "advanceRetention", "admitPersonDirectory"},
	{"admitPersonDirectory", "ensurePersonMemberships", "completePersonDirectory", "patchChannelFlags", "ensurePersonMemberships"},
	{"admitPersonDirectory", "deleteChannel", "deleteChannel", "completePersonDirectory", "admitPersonDirectory"},
	{"admitPersonDirectory", "deleteRuntimeMeta", "deleteChannel", "admitPersonDirectory", "upsertRuntimeMeta"},
	{"upsertRuntimeMeta", "createChannel", "deleteChannel", "upsertRuntimeMeta", "deleteChannel", "admitPersonDirectory"},
	{"deleteChannel", "admitPersonDirectory", "completePersonDirectory", "admitPersonDirectory", "upsertChannel", "completePersonDirectory"},
	{"deleteChannel", "createRuntimeMetaBatch", "completePersonDirectory", "patchChannelFlags", "createRuntimeMetaBatch", "deleteChannel"},
}

// verifC13StepGen draws either one command or one motif on a pinned row.
func verifC13StepGen() *rapid.Generator[[]verifC13Cmd] {
	return rapid.Custom(func(t *rapid.T) []verifC13Cmd {
		if rapid.IntRange(0, 9).Draw(t, "motif") < 7 {
			return []verifC13Cmd{verifC13CmdGen().Draw(t, "cmd")}
		}
		key := verifC13Key{hashSlot: verifC13Pick(t, "hashSlot", verifC13Owned), task: verifC13Pick(t, "task", verifC13Tasks)}
		var motif []string
		if rapid.IntRange(0, 9).Draw(t, "personMotif") < 6 {
			motif = verifC13Motifs[rapid.IntRange(0, len(verifC13Motifs)-1).Draw(t, "whichMotif")]
			key.channel, key.typ = verifC13PickRow(t)
			key.uid = verifC13Pick(t, "uid", verifC13Users)
		} else {
			motif = verifC13PersonMotifs[rapid.IntRange(0, len(verifC13PersonMotifs)-1).Draw(t, "whichPersonMotif")]
			key.channel, key.typ = verifC13Pick(t, "personChannel", verifC13PersonChannels), 1
			key.uid = verifC13PersonUID(t, key.channel)
		}
		out := make([]verifC13Cmd, 0, len(motif))
		live := false
		for _, class := range motif {
			c := verifC13CmdOf(t, class, key)
			c.motif = true
			out = append(out, c)
			if key.typ == 1 {
				// follow the generation fence of a row that started absent: it is 1 once
				// runtime metadata exists and advances when the live channel is deleted
				switch class {
				case "admitPersonDirectory", "createRuntimeMetaBatch":
					if key.generation == 0 {
						key.generation = 1
					}
					live = true
				case "deleteRuntimeMeta":
					key.generation = 0
				case "deleteChannel":
					if live && key.generation != 0 {
						key.generation++
					}
					live = false
				}
			}
		}
		return out
	})
}

func verifC13LogGen(minSteps, maxCmds int) *rapid.Generator[[]verifC13Cmd] {
	return rapid.Custom(func(t *rapid.T) []verifC13Cmd {
		var out []verifC13Cmd
		for _, step := range rapid.SliceOfN(verifC13StepGen(), minSteps, maxCmds).Draw(t, "steps") {
			if len(out)+len(step) > maxCmds {
				break
			}
			out = append(out, step...)
		}
		return out
	})
}

func verifC13CmdOf(t *rapid.T, class string, key verifC13Key) verifC13Cmd {
	{
		c := verifC13Cmd{class: class, hashSlot: key.hashSlot}
		if c.hashSlot == 0 {
			c.hashSlot = verifC13Pick(t, "hashSlot", verifC13Owned)
		}
		channel, typ := key.channel, key.typ
		if channel == "" {
			channel, typ = verifC13PickRow(t)
		}
		c.channel, c.typ = channel, typ
		personChannel := func(i int) string {
			if i == 0 && key.typ == 1 {
				return key.channel
			}
			if i == 0 && typ == 1 {
				return channel
			}
			return verifC13Pick(t, "personChannel", verifC13PersonChannels)
		}
		pickUID := func() string {
			if key.uid != "" {
				return key.uid
			}
			return verifC13Pick(t, "uid", verifC13Users)
		}
		pinMeta := func(m metadb.ChannelRuntimeMeta) metadb.ChannelRuntimeMeta {
			if key.channel != "" {
				m.ChannelID, m.ChannelType = key.channel, key.typ
			}
			return m
		}
		switch c.class {
		case "deleteChannel", "addSubscribers", "removeSubscribers":
			c.rowKey = verifC13Row(c.hashSlot, channel, typ)
		case "deleteRuntimeMeta", "advanceRetention", "abortMigration":
			c.metaRows = []string{verifC13Row(c.hashSlot, channel, typ)}
		}
		switch c.class {
		case "noop":
			c.data = EncodeNoopCommand()
		case "upsertUser", "createUser":
			u := metadb.User{UID: pickUID(), Token: "tk" + fmt.Sprint(rapid.IntRange(0, 3).Draw(t, "token")), DeviceFlag: int64(rapid.IntRange(0, 2).Draw(t, "flag")), DeviceLevel: int64(rapid.IntRange(0, 1).Draw(t, "level"))}
			if c.class == "upsertUser" {
				c.data = EncodeUpsertUserCommand(u)
			} else {
				c.data, c.conditional = EncodeCreateUserCommand(u), true
			}
		case "upsertDevice":
			c.data = EncodeUpsertDeviceCommand(metadb.Device{UID: verifC13Pick(t, "uid", verifC13Users), DeviceFlag: int64(rapid.IntRange(0, 2).Draw(t, "flag")), Token: "tk" + fmt.Sprint(rapid.IntRange(0, 3).Draw(t, "token")), DeviceLevel: int64(rapid.IntRange(0, 1).Draw(t, "level"))})
		case "upsertChannel", "createChannel":
			ch := metadb.Channel{ChannelID: channel, ChannelType: typ, Ban: int64(rapid.IntRange(0, 1).Draw(t, "ban")), Disband: int64(rapid.IntRange(0, 1).Draw(t, "disband")),
				SendBan: int64(rapid.IntRange(0, 1).Draw(t, "sendBan")), AllowStranger: int64(rapid.IntRange(0, 1).Draw(t, "allowStranger")), Large: int64(rapid.IntRange(0, 1).Draw(t, "large"))}
			if c.class == "upsertChannel" {
				c.data = EncodeUpsertChannelCommand(ch)
			} else {
				c.data, c.conditional = EncodeCreateChannelCommand(ch), true
			}
		case "patchChannelFlags":
			c.data, c.conditional = EncodePatchChannelBusinessFlagsCommand(channel, typ, metadb.ChannelBusinessFlags{Ban: int64(rapid.IntRange(0, 1).Draw(t, "ban")), Disband: int64(rapid.IntRange(0, 1).Draw(t, "disband")), SendBan: int64(rapid.IntRange(0, 1).Draw(t, "sendBan"))}), true
		case "deleteChannel":
			c.data = EncodeDeleteChannelCommand(channel, typ)
		case "upsertRuntimeMeta":
			m := pinMeta(verifC13RuntimeMeta(t))
			c.metaRows = []string{verifC13Row(c.hashSlot, m.ChannelID, m.ChannelType)}
			c.data, c.conditional = EncodeUpsertChannelRuntimeMetaCommand(m), true
		case "deleteRuntimeMeta":
			c.data = EncodeDeleteChannelRuntimeMetaCommand(channel, typ)
		case "advanceRetention":
			c.data, c.conditional = EncodeAdvanceChannelRetentionThroughSeqCommand(metadb.ChannelRetentionAdvance{ChannelID: channel, ChannelType: typ,
				ExpectedChannelEpoch: uint64(rapid.IntRange(1, 3).Draw(t, "epoch")), ExpectedLeaderEpoch: uint64(rapid.IntRange(1, 3).Draw(t, "leaderEpoch")), ExpectedLeader: uint64(rapid.IntRange(0, 3).Draw(t, "leader")),
				ExpectedLeaseUntilMS: int64(1000 * rapid.IntRange(1, 3).Draw(t, "lease")), RetentionThroughSeq: uint64(rapid.IntRange(0, 9).Draw(t, "through")), RetentionUpdatedAtMS: int64(rapid.IntRange(1, 9).Draw(t, "updatedAt"))}), true
		case "createRuntimeMetaBatch":
			n := rapid.IntRange(1, 3).Draw(t, "items")
			items := make([]CreateChannelRuntimeMetaBatchItem, 0, n)
			seen := map[string]bool{}
			for i := 0; i < n; i++ {
				m := verifC13RuntimeMeta(t)
				itemHashSlot := verifC13Pick(t, "itemHashSlot", verifC13Owned)
				if i == 0 && key.channel != "" {
					m, itemHashSlot = pinMeta(m), c.hashSlot
				}
				if id := fmt.Sprint(m.ChannelType, m.ChannelID); !seen[id] {
					seen[id] = true
					items = append(items, CreateChannelRuntimeMetaBatchItem{HashSlot: itemHashSlot, Meta: m})
					c.metaRows = append(c.metaRows, verifC13Row(itemHashSlot, m.ChannelID, m.ChannelType))
				}
			}
			data, err := EncodeCreateChannelRuntimeMetaBatchCommandChecked(items)
			if err != nil {
				t.Fatalf("harness: runtime meta batch refused: %v", err)
			}
			c.data, c.conditional = data, true
		case "addSubscribers", "removeSubscribers":
			uids := rapid.SliceOfN(rapid.SampledFrom(verifC13Users), 0, 4).Draw(t, "uids")
			if key.uid != "" {
				uids = append(uids, key.uid)
			}
			var version []uint64
			if v := rapid.IntRange(0, 4).Draw(t, "mutationVersion"); v > 0 {
				version = []uint64{uint64(v)}
			}
			c.conditional = true
			if c.class == "addSubscribers" {
				c.data = EncodeAddSubscribersCommand(channel, typ, uids, version...)
			} else {
				c.data = EncodeRemoveSubscribersCommand(channel, typ, uids, version...)
			}
		case "upsertMemberships", "deleteMemberships", "advanceReadSeq", "hideMembership", "activateMembership":
			n := rapid.IntRange(1, 3).Draw(t, "memberships")
			ms := make([]metadb.UserChannelMembership, n)
			for i := range ms {
				ms[i] = verifC13Membership(t)
				if i == 0 && key.channel != "" {
					ms[i].UID, ms[i].ChannelID, ms[i].ChannelType = key.uid, key.channel, key.typ
				}
			}
			switch c.class {
			case "upsertMemberships":
				c.data = EncodeUpsertUserChannelMembershipsCommand(ms)
			case "deleteMemberships":
				c.data = EncodeDeleteUserChannelMembershipsCommand(ms)
			case "advanceReadSeq":
				c.data, c.conditional = EncodeAdvanceUserChannelMembershipReadSeqCommand(ms), true
			case "hideMembership":
				c.data, c.conditional = EncodeHideUserChannelMembershipCommand(ms), true
			default:
				c.data, c.conditional = EncodeActivateUserChannelMembershipCommand(ms), true
			}
		case "upsertCMDMemberships", "advanceCMDAcks", "tombstoneCMDMemberships":
			n := rapid.IntRange(1, 3).Draw(t, "memberships")
			ms := make([]metadb.UserCMDChannelMembership, n)
			for i := range ms {
				ms[i] = verifC13CMDMembership(t)
				if i == 0 && key.channel != "" {
					ms[i].UID, ms[i].CommandChannelID, ms[i].ChannelType = key.uid, key.channel+"____cmd", key.typ
				}
			}
			switch c.class {
			case "upsertCMDMemberships":
				c.data = EncodeUpsertUserCMDChannelMembershipsCommand(ms)
			case "advanceCMDAcks":
				c.data, c.conditional = EncodeAdvanceUserCMDChannelMembershipAcksCommand(ms), true
			default:
				c.data, c.conditional = EncodeTombstoneUserCMDChannelMembershipsCommand(ms), true
			}
		case "upsertLatest":
			c.data = EncodeUpsertChannelLatestCommand(verifC13Latest(t))
		case "upsertLatestBatch":
			n := rapid.IntRange(1, 3).Draw(t, "items")
			items := make([]ChannelLatestBatchItem, n)
			for i := range items {
				items[i] = ChannelLatestBatchItem{HashSlot: verifC13Pick(t, "itemHashSlot", verifC13Owned), Latest: verifC13Latest(t)}
			}
			c.data = EncodeUpsertChannelLatestBatchCommand(items)
		case "appendEvent":
			c.data, c.conditional = EncodeAppendMessageEventCommand(verifC13Event(t, channel, typ)), true
		case "appendEventsBatch":
			n := rapid.IntRange(1, 3).Draw(t, "events")
			events := make([]metadb.MessageEventAppend, n)
			for i := range events {
				events[i] = verifC13Event(t, channel, typ)
			}
			c.data, c.conditional = EncodeAppendMessageEventsCommand(events), true
		case "bindPlugin":
			c.data = EncodeBindPluginUserCommand(metadb.PluginUserBinding{UID: pickUID(), PluginNo: "p" + fmt.Sprint(rapid.IntRange(0, 1).Draw(t, "plugin")), CreatedAtMS: int64(rapid.IntRange(1, 5).Draw(t, "createdAt")), UpdatedAtMS: int64(rapid.IntRange(1, 9).Draw(t, "updatedAt"))})
		case "unbindPlugin":
			c.data = EncodeUnbindPluginUserCommand(pickUID(), "p"+fmt.Sprint(rapid.IntRange(0, 1).Draw(t, "plugin")))
		case "createMigrationTask":
			taskID := key.task
			if taskID == "" || rapid.IntRange(0, 2).Draw(t, "otherTask") == 0 {
				taskID = verifC13Pick(t, "task", verifC13Tasks)
			}
			task := metadb.ChannelMigrationTask{TaskID: taskID, Kind: metadb.ChannelMigrationKind(rapid.IntRange(1, 3).Draw(t, "kind")),
				Status: metadb.ChannelMigrationStatusPending, Phase: metadb.ChannelMigrationPhaseValidate, ChannelID: channel, ChannelType: typ,
				SourceNode: 1, TargetNode: uint64(rapid.IntRange(2, 3).Draw(t, "target")), BaseChannelEpoch: uint64(rapid.IntRange(1, 3).Draw(t, "baseEpoch")), BaseLeaderEpoch: uint64(rapid.IntRange(1, 3).Draw(t, "baseLeaderEpoch")),
				CreatedAtMS: int64(rapid.IntRange(1, 2).Draw(t, "createdAt")), UpdatedAtMS: int64(rapid.IntRange(1, 2).Draw(t, "updatedAt"))}
			if rapid.IntRange(0, 4).Draw(t, "terminal") == 0 {
				task.Status, task.CompletedAtMS = metadb.ChannelMigrationStatusCompleted, 5
			}
			c.data, c.conditional = EncodeCreateChannelMigrationTaskCommand(task), true
		case "claimMigrationTask":
			now := int64(rapid.IntRange(1, 50).Draw(t, "now"))
			c.data, c.conditional = EncodeClaimChannelMigrationTaskCommand(metadb.ChannelMigrationTaskClaim{Guard: verifC13TaskGuard(t, key), Status: metadb.ChannelMigrationStatusRunning,
				Phase: metadb.ChannelMigrationPhase(rapid.IntRange(1, 2).Draw(t, "phase")), OwnerNodeID: 1, OwnerLeaseUntilMS: now + 100, NowMS: now, UpdatedAtMS: int64(rapid.IntRange(1, 2).Draw(t, "updatedAt"))}), true
		case "advanceMigrationTask":
			c.data, c.conditional = EncodeAdvanceChannelMigrationTaskCommand(metadb.ChannelMigrationTaskAdvance{Guard: verifC13TaskGuard(t, key), Status: metadb.ChannelMigrationStatus(rapid.IntRange(2, 3).Draw(t, "status")),
				Phase: metadb.ChannelMigrationPhase(rapid.IntRange(1, 2).Draw(t, "phase")), Attempt: uint32(rapid.IntRange(0, 2).Draw(t, "attempt")), UpdatedAtMS: int64(rapid.IntRange(1, 2).Draw(t, "updatedAt"))}), true
		case "abortMigration":
			c.data, c.conditional = EncodeAbortChannelMigrationCommand(metadb.ChannelMigrationAbortRequest{Guard: verifC13TaskGuard(t, key),
				RuntimeGuard: metadb.ChannelMigrationRuntimeGuard{ChannelID: channel, ChannelType: typ, ExpectedChannelEpoch: uint64(rapid.IntRange(1, 3).Draw(t, "epoch")), ExpectedLeaderEpoch: uint64(rapid.IntRange(1, 3).Draw(t, "leaderEpoch")), ExpectedLeader: uint64(rapid.IntRange(0, 3).Draw(t, "leader"))},
				Status:       metadb.ChannelMigrationStatusAborted, Phase: metadb.ChannelMigrationPhase(rapid.IntRange(1, 2).Draw(t, "phase")), UpdatedAtMS: 3, CompletedAtMS: 3, LastError: "aborted"}), true
		case "gcMigrationTasks":
			c.data, c.conditional = EncodeGarbageCollectTerminalChannelMigrationTasksCommand(metadb.ChannelMigrationTaskGCRequest{BeforeMS: int64(rapid.IntRange(1, 9).Draw(t, "before")), Limit: rapid.IntRange(1, 3).Draw(t, "limit")}), true
		case "admitPersonDirectory":
			// type 63: create-if-absent runtime metadata + durable directory task per
			// person channel; the envelope carries the first item's hash slot (as
			// pkg/cluster/node_meta.go proposes it), a channel appears once per command
			n := rapid.IntRange(1, 2).Draw(t, "items")
			items := make([]PersonDirectoryAdmissionBatchItem, 0, n)
			seen := map[string]bool{}
			for i := 0; i < n; i++ {
				ch := personChannel(i)
				itemHashSlot := verifC13Pick(t, "itemHashSlot", verifC13Owned)
				if i == 0 {
					itemHashSlot = c.hashSlot
				}
				m := verifC13RuntimeMeta(t)
				m.ChannelID, m.ChannelType = ch, 1
				task := metadb.PersonDirectoryTask{ChannelID: ch, ChannelType: 1, CommittedTail: uint64(rapid.IntRange(0, 5).Draw(t, "committedTail")), CreatedAt: int64(rapid.IntRange(0, 5).Draw(t, "createdAt"))}
				if !seen[ch] {
					seen[ch] = true
					items = append(items, PersonDirectoryAdmissionBatchItem{HashSlot: itemHashSlot, Task: task, RuntimeMeta: m})
					c.metaRows = append(c.metaRows, verifC13Row(itemHashSlot, ch, 1))
				}
			}
			data, err := EncodeAdmitPersonDirectoryTaskBatchCommandChecked(items)
			if err != nil {
				t.Fatalf("harness: person directory admission refused by the encoder: %v", err)
			}
			c.data, c.conditional, c.person = data, true, true
		case "completePersonDirectory":
			// type 65: delete the pending task and mark the channel ready, fenced by
			// the generation the worker read from the task
			n := rapid.IntRange(1, 2).Draw(t, "items")
			items := make([]PersonDirectoryCompletionBatchItem, 0, n)
			seen := map[string]bool{}
			for i := 0; i < n; i++ {
				ch := personChannel(i)
				itemHashSlot := verifC13Pick(t, "itemHashSlot", verifC13Owned)
				if i == 0 {
					itemHashSlot = c.hashSlot
				}
				generation := uint64(rapid.SampledFrom([]int{1, 1, 1, 1, 2, 2, 3}).Draw(t, "generation"))
				if i == 0 && key.generation != 0 && rapid.IntRange(0, 3).Draw(t, "expectedGeneration") > 0 {
					generation = key.generation
				}
				if id := fmt.Sprint(itemHashSlot, ch); !seen[id] {
					seen[id] = true
					items = append(items, PersonDirectoryCompletionBatchItem{HashSlot: itemHashSlot, ChannelID: ch, ChannelType: 1, Generation: generation})
				}
			}
			data, err := EncodeCompletePersonDirectoryTaskBatchCommandChecked(items)
			if err != nil {
				t.Fatalf("harness: person directory completion refused by the encoder: %v", err)
			}
			c.data, c.conditional, c.person = data, true, true
		case "ensurePersonMemberships":
			// type 64: create-or-fence-advance uid memberships of person channels
			n := rapid.IntRange(1, 3).Draw(t, "items")
			items := make([]UserChannelMembershipBatchItem, 0, n)
			seen := map[string]bool{}
			for i := 0; i < n; i++ {
				ms := verifC13Membership(t)
				ms.ChannelID, ms.ChannelType = personChannel(i), 1
				ms.UID = verifC13PersonUID(t, ms.ChannelID)
				if i == 0 && key.typ == 1 && key.uid != "" {
					ms.UID = key.uid
				}
				itemHashSlot := verifC13Pick(t, "itemHashSlot", verifC13Owned)
				if i == 0 {
					itemHashSlot = c.hashSlot
				}
				if id := fmt.Sprint(itemHashSlot, ms.UID, ms.ChannelID); !seen[id] {
					seen[id] = true
					items = append(items, UserChannelMembershipBatchItem{HashSlot: itemHashSlot, Membership: ms})
				}
			}
			data, err := EncodeEnsureUserChannelMembershipBatchCommandChecked(items)
			if err != nil {
				t.Fatalf("harness: ensured membership batch refused by the encoder: %v", err)
			}
			c.data, c.conditional, c.person = data, true, true
		}
		return c
	}
}

func verifC13Command(c verifC13Cmd, index uint64) multiraft.Command {
	return multiraft.Command{SlotID: multiraft.SlotID(verifC13Slot), HashSlot: c.hashSlot, Index: index, Term: 1, Data: append([]byte(nil), c.data...)}
}

// verifC13Partition cuts [0,n) into consecutive batches.
func verifC13Partition(t *rapid.T, label string, n int) [][2]int {
	var out [][2]int
	style := rapid.IntRange(0, 3).Draw(t, label+"Style")
	for lo := 0; lo < n; {
		var size int
		switch style {
		case 0:
			size = n // one batch
		case 1:
			size = rapid.IntRange(1, 4).Draw(t, label+"Small")
		case 2:
			size = rapid.IntRange(2, 16).Draw(t, label+"Medium")
		default:
			size = rapid.SampledFrom([]int{1, 1, 2, 3, 8, 32}).Draw(t, label+"Mixed")
		}
		hi := lo + size
		if hi > n {
			hi = n
		}
		out = append(out, [2]int{lo, hi})
		lo = hi
	}
	return out
}

// verifC13AvoidKnown cuts batches so that no batch contains a DeleteChannel
// followed by a subscriber mutation of the same row (only while that finding is
// listed as known). It returns the adjusted partition and the number of forced cuts.
func verifC13AvoidKnown(log []verifC13Cmd, from int, parts [][2]int) ([][2]int, int) {
	avoidDelete := kit.HasKnownFinding("C13", verifC13SigDeleteSubscribe)
	avoidGC := kit.HasKnownFinding("C13", verifC13SigGCInBatch)
	if !avoidDelete && !avoidGC {
		return parts, 0
	}
	var out [][2]int
	cuts := 0
	for _, p := range parts {
		lo := p[0]
		deleted := map[string]bool{}
		hasGC, hasTask := map[uint16]bool{}, map[uint16]bool{}
		for i := p[0]; i < p[1]; i++ {
			c := log[from+i]
			isGC := c.class == "gcMigrationTasks"
			isTask := c.class == "createMigrationTask" || c.class == "claimMigrationTask" || c.class == "advanceMigrationTask" || c.class == "abortMigration"
			cut := false
			if avoidDelete && c.class != "deleteChannel" && c.rowKey != "" && deleted[c.rowKey] {
				cut = true
			}
			if avoidGC && ((isGC && (hasTask[c.hashSlot] || hasGC[c.hashSlot])) || (isTask && hasGC[c.hashSlot])) {
				cut = true
			}
			if cut {
				out = append(out, [2]int{lo, i})
				lo, deleted, hasGC, hasTask = i, map[string]bool{}, map[uint16]bool{}, map[uint16]bool{}
				cuts++
			}
			if c.class == "deleteChannel" {
				deleted[c.rowKey] = true
			}
			hasGC[c.hashSlot] = hasGC[c.hashSlot] || isGC
			hasTask[c.hashSlot] = hasTask[c.hashSlot] || isTask
		}
		out = append(out, [2]int{lo, p[1]})
	}
	return out, cuts
}

type verifC13Stats struct {
	stale, multiBatchConditional, multiBatchWithStale, batches, restarts, replayedTails, knownCuts int
	// bumpRow[i] (input, measured on the reference replica): the person-channel row
	// whose DirectoryGeneration command i advanced, "" if none.
	bumpRow []string
	// batches in which such a bump was followed by a reader of that row's runtime metadata
	bumpThenReadInBatch, bumpThenAdmitInBatch int
	// batches in which a successful person-directory completion was followed by
	// another command drawn for the same person channel row
	completeThenPersonInBatch int
}

// verifC13ApplyPartition applies log[from:] (indexes from+1..) to r in the given
// batches, optionally restarting the replica at batch boundaries, and checks
// every per-command result against want.
func verifC13ApplyPartition(rt *rapid.T, name string, r *verifC13Replica, log []verifC13Cmd, want [][]byte, durableRef []uint64, from int, parts [][2]int, restartAt map[int]bool, st *verifC13Stats) {
	// The durable applied index is the index of the last command whose write batch
	// committed. A command refused as stale at commit time is a no-op and does not
	// move it (multiraft then persists MarkApplied separately), and whether a stale
	// command is refused while staging (batch still commits) or at commit time
	// depends on the batch it is in. So the replica-independent invariant is: the
	// index is never ahead of the applied commands, never behind the restore point,
	// and everything above it is a stale no-op (safe to apply again after a restart).
	checkDurable := func(what string, got uint64, hi int) {
		if got > uint64(hi) || got < uint64(from) {
			rt.Fatalf("%s: DurableAppliedIndex = %d outside [%d,%d]", what, got, from, hi)
		}
		for i := int(got); i < hi; i++ {
			if string(want[i]) != ApplyResultStaleMeta {
				rt.Fatalf("%s: DurableAppliedIndex = %d after applying through %d, but command %d (%s -> %q) above it is not a stale no-op", what, got, hi, i+1, log[i].class, want[i])
			}
		}
	}
	_ = durableRef
	parts, cuts := verifC13AvoidKnown(log, from, parts)
	st.knownCuts += cuts
	if cuts > 0 {
		restartAt = nil // batch numbering changed
	}
	for bi, p := range parts {
		lo, hi := from+p[0], from+p[1]
		cmds := make([]multiraft.Command, 0, hi-lo)
		conditional, stale := false, false
		bumped, bumpThenRead, bumpThenAdmit := map[string]bool{}, false, false
		completed, completeThenPerson := map[string]bool{}, false
		for i := lo; i < hi; i++ {
			cmds = append(cmds, verifC13Command(log[i], uint64(i+1)))
			conditional = conditional || log[i].conditional
			stale = stale || string(want[i]) == ApplyResultStaleMeta
			for _, row := range log[i].metaRows {
				bumpThenRead = bumpThenRead || bumped[row]
				bumpThenAdmit = bumpThenAdmit || (bumped[row] && log[i].class == "admitPersonDirectory")
			}
			if i < len(st.bumpRow) && st.bumpRow[i] != "" {
				bumped[st.bumpRow[i]] = true
			}
			completeThenPerson = completeThenPerson || (completed[verifC13Row(log[i].hashSlot, log[i].channel, log[i].typ)] && log[i].class != "completePersonDirectory")
			if log[i].class == "completePersonDirectory" && string(want[i]) == ApplyResultOK {
				completed[verifC13Row(log[i].hashSlot, log[i].channel, 1)] = true
			}
		}
		if completeThenPerson {
			st.completeThenPersonInBatch++
		}
		if bumpThenRead {
			st.bumpThenReadInBatch++
		}
		if bumpThenAdmit {
			st.bumpThenAdmitInBatch++
		}
		results, err := r.sm.ApplyBatch(context.Background(), cmds)
		if err != nil {
			rt.Fatalf("%s: batch %d = log[%d:%d] (%s) failed with %v although every command was accepted one at a time", name, bi, lo, hi, verifC13Classes2(log[lo:hi]), err)
		}
		if len(results) != len(cmds) {
			rt.Fatalf("%s: batch %d returned %d results for %d commands", name, bi, len(results), len(cmds))
		}
		for i := lo; i < hi; i++ {
			if !bytes.Equal(results[i-lo], want[i]) {
				rt.Fatalf("%s: command %d (%s, hash slot %d) in batch log[%d:%d] (%s) returned %q, one-at-a-time application returned %q",
					name, i, log[i].class, log[i].hashSlot, lo, hi, verifC13Classes2(log[lo:hi]), results[i-lo], want[i])
			}
		}
		checkDurable(fmt.Sprintf("%s after log[%d:%d] (%s)", name, lo, hi, verifC13Classes2(log[lo:hi])), r.applied(rt), hi)
		st.batches++
		if hi-lo > 1 && conditional {
			st.multiBatchConditional++
		}
		if hi-lo > 1 && stale {
			st.multiBatchWithStale++
		}
		if restartAt[bi] {
			before := r.applied(rt)
			r.reopen(rt)
			durable := r.applied(rt)
			if durable != before {
				rt.Fatalf("%s: DurableAppliedIndex = %d before and %d after a restart", name, before, durable)
			}
			checkDurable(name+" after restart", durable, hi)
			st.restarts++
			if int(durable) < hi && rapid.Bool().Draw(rt, "replayUncommittedTail") {
				// crash before multiraft's separate MarkApplied: the commands above the
				// durable index are applied again; they were stale no-ops and must be again
				tail := make([]multiraft.Command, 0, hi-int(durable))
				for i := int(durable); i < hi; i++ {
					tail = append(tail, verifC13Command(log[i], uint64(i+1)))
				}
				results, err := r.sm.ApplyBatch(context.Background(), tail)
				if err != nil {
					rt.Fatalf("%s: replay of log[%d:%d] after restart failed: %v", name, durable, hi, err)
				}
				for i := range tail {
					if !bytes.Equal(results[i], want[int(durable)+i]) {
						rt.Fatalf("%s: replayed command %d (%s) returned %q, first application returned %q", name, int(durable)+i, log[int(durable)+i].class, results[i], want[int(durable)+i])
					}
				}
				st.replayedTails++
			}
		}
	}
}

func verifC13Classes2(cmds []verifC13Cmd) string {
	names := make([]string, len(cmds))
	for i, c := range cmds {
		names[i] = c.class
	}
	return strings.Join(names, ",")
}

// TestVerifC13BatchTransparency: one generated command log, applied (a) one
// command at a time, (b)(c) in two generated batch partitions with restarts at
// generated batch boundaries, (d) from a snapshot taken at generated prefixes;
// every replica must report the same per-command results and end with
// byte-identical metadata and the same durable applied index.
func TestVerifC13BatchTransparency(t *testing.T) {
	kit.Check(t, "C13", func(rt *rapid.T, k *kit.Case) {
		raw := verifC13LogGen(8, kit.Scale("C13_MAXLOG", 40, 80)).Draw(rt, "log")
		base, cleanup := kit.TempDir()
		defer cleanup()
		var open []*verifC13Replica
		defer func() {
			for _, r := range open {
				if r.db != nil {
					_ = r.db.Close()
				}
			}
		}()
		newReplica := func(name string) *verifC13Replica {
			r := verifC13Open(rt, filepath.Join(base, name))
			open = append(open, r)
			return r
		}

		// (a) reference: one command at a time. A command the FSM refuses leaves no
		// trace and is dropped from the log (ApplyBatch errors abort a whole batch
		// by design, so transparency is claimed for accepted logs).
		ref := newReplica("ref")
		var log []verifC13Cmd
		var want [][]byte
		durableRef := []uint64{0}     // durableRef[i] = durable applied index after i accepted commands
		snapAt := map[int][]byte{}    // prefix length -> snapshot bytes
		wrongAt := map[int][][]byte{} // prefix length -> well-formed snapshots of other hash-slot sets
		var bumpRow []string          // per accepted command: person row whose directory generation it advanced
		snapTargets := map[int]bool{}
		for i, n := 0, rapid.IntRange(1, kit.Scale("C13_SNAPS", 2, 6)).Draw(rt, "snapshotPrefixes"); i < n; i++ {
			snapTargets[rapid.IntRange(1, 3+len(raw)/2).Draw(rt, "snapshotAt")] = true
		}
		refused := 0
		for _, c := range raw {
			genBefore, hadMeta := uint64(0), false
			if c.class == "deleteChannel" && c.typ == 1 {
				genBefore, hadMeta = ref.directoryGeneration(rt, c.hashSlot, c.channel)
			}
			res, err := ref.sm.Apply(context.Background(), verifC13Command(c, uint64(len(log)+1)))
			if err != nil {
				// a side effect of a refused command would surface below as a difference
				// to the replicas that never see it
				refused++
				continue
			}
			log = append(log, c)
			want = append(want, res)
			bumpRow = append(bumpRow, "")
			if hadMeta {
				if genAfter, _ := ref.directoryGeneration(rt, c.hashSlot, c.channel); genAfter > genBefore {
					bumpRow[len(bumpRow)-1] = verifC13Row(c.hashSlot, c.channel, 1)
				}
			}
			durable := ref.applied(rt)
			if durable != uint64(len(log)) && (durable != durableRef[len(durableRef)-1] || string(res) != ApplyResultStaleMeta) {
				rt.Fatalf("after command %d (%s -> %q) DurableAppliedIndex = %d (was %d): neither the command index nor an unmoved index below a stale no-op", len(log), c.class, res, durable, durableRef[len(durableRef)-1])
			}
			durableRef = append(durableRef, durable)
			if snapTargets[len(log)] {
				snapAt[len(log)] = ref.snapshot(rt)
				wrongAt[len(log)] = [][]byte{ref.export(rt, verifC13Owned[:1]), ref.export(rt, append(append([]uint16(nil), verifC13Owned...), verifC13Unowned)), ref.export(rt, []uint16{verifC13Unowned})}
			}
		}
		if len(log) < 4 {
			rt.Skip("log too short after filtering")
		}
		delete(snapAt, len(log)) // a snapshot of the complete log leaves nothing to apply
		final := ref.snapshot(rt)
		if again := ref.snapshot(rt); !bytes.Equal(final, again) {
			rt.Fatalf("two snapshots of the same state differ: %s", verifC13Diff(final, again))
		}
		var st verifC13Stats
		st.bumpRow = bumpRow
		for _, w := range want {
			if string(w) == ApplyResultStaleMeta {
				st.stale++
			}
		}

		// (b)(c) two batch partitions, the first with restarts
		for pi, name := range []string{"partitionA", "partitionB"} {
			parts := verifC13Partition(rt, name, len(log))
			restartAt := map[int]bool{}
			if pi == 0 {
				for i := 0; i < rapid.IntRange(1, 2).Draw(rt, "restarts"); i++ {
					restartAt[rapid.IntRange(0, len(parts)-1).Draw(rt, "restartAfterBatch")] = true
				}
			}
			r := newReplica(name)
			verifC13ApplyPartition(rt, name, r, log, want, durableRef, 0, parts, restartAt, &st)
			if d := verifC13Diff(final, r.snapshot(rt)); d != "" {
				rt.Fatalf("%s (%d batches %v) ends in different metadata than one-at-a-time application: %s", name, len(parts), parts, d)
			}
			r.close(rt)
		}

		// (d) snapshot at a prefix, restore into a fresh replica, apply the rest
		dirtyRestores := 0
		prefixes := make([]int, 0, len(snapAt))
		for p := range snapAt {
			prefixes = append(prefixes, p)
		}
		sort.Ints(prefixes)
		for _, p := range prefixes {
			r := newReplica(fmt.Sprintf("restore%d", p))
			if rapid.Bool().Draw(rt, "restoreOverExistingState") {
				// a lagging / diverged follower: the snapshot must replace whatever is there
				junk := verifC13LogGen(1, 10).Draw(rt, "existingState")
				idx := uint64(0)
				for _, c := range junk {
					if _, err := r.sm.Apply(context.Background(), verifC13Command(c, idx+1)); err == nil {
						idx++
					}
				}
				dirtyRestores++
			}
			if err := r.sm.Restore(context.Background(), multiraft.Snapshot{Index: uint64(p), Term: 1, Data: snapAt[p]}); err != nil {
				rt.Fatalf("Restore(snapshot at prefix %d): %v", p, err)
			}
			if got := r.applied(rt); got != uint64(p) {
				rt.Fatalf("DurableAppliedIndex = %d after restoring the snapshot at index %d", got, p)
			}
			if d := verifC13Diff(snapAt[p], r.snapshot(rt)); d != "" {
				rt.Fatalf("snapshot at prefix %d does not survive restore+snapshot: %s", p, d)
			}
			if rapid.Bool().Draw(rt, "restartAfterRestore") {
				r.reopen(rt)
			}
			parts := verifC13Partition(rt, "afterRestore", len(log)-p)
			verifC13ApplyPartition(rt, fmt.Sprintf("restore@%d", p), r, log, want, durableRef, p, parts, nil, &st)
			if d := verifC13Diff(final, r.snapshot(rt)); d != "" {
				rt.Fatalf("restore at prefix %d then applying log[%d:] ends in different metadata: %s", p, p, d)
			}
			r.close(rt)
		}

		// (e) a snapshot install that fails or is interrupted on a lagging replica,
		// then a restart; the runtime either resumes the committed log above the
		// durable applied index (multiraft.newSlot) or retries the intact snapshot.
		// Either way the replica must end in the reference metadata.
		installKind, installOutcome, installRestart := "", "", false
		if len(prefixes) > 0 {
			p := prefixes[rapid.IntRange(0, len(prefixes)-1).Draw(rt, "installPrefix")]
			r := newReplica("install")
			q := rapid.IntRange(0, p-1).Draw(rt, "laggingApplied")
			if q > 0 {
				verifC13ApplyPartition(rt, "lagging replica", r, log, want, durableRef, 0, verifC13Partition(rt, "lagging", q), nil, &st)
			}
			before, appliedBefore := r.snapshot(rt), r.applied(rt)
			snap := multiraft.Snapshot{Index: uint64(p), Term: 1, Data: append([]byte(nil), snapAt[p]...)}
			ctx := context.Context(context.Background())
			switch rapid.IntRange(0, 4).Draw(rt, "installFailure") {
			case 0:
				pos := rapid.IntRange(0, len(snap.Data)-1).Draw(rt, "damagedAt")
				snap.Data[pos] ^= byte(rapid.IntRange(1, 255).Draw(rt, "damageMask"))
				installKind = "damaged payload"
			case 1:
				snap.Data = snap.Data[:rapid.IntRange(0, len(snap.Data)-1).Draw(rt, "truncatedTo")]
				installKind = "truncated payload"
			case 2:
				snap.Data = append([]byte(nil), wrongAt[p][rapid.IntRange(0, len(wrongAt[p])-1).Draw(rt, "wrongHashSlotSet")]...)
				installKind = "snapshot of another hash-slot set"
			default:
				ctx = verifC13NewPollCtx(rapid.SampledFrom([]int{0, 0, 0, 1, 2, 4}).Draw(rt, "cancelAtPoll"))
				installKind = "context cancelled during install"
			}
			installErr := r.sm.Restore(ctx, snap)
			name := fmt.Sprintf("install of the snapshot at %d on a replica at %d (%s)", p, q, installKind)
			switch {
			case installErr == nil:
				// Restore reported the snapshot as installed: the runtime now treats every
				// entry up to snap.Index as applied, so the metadata must be the snapshot's
				// (an intact payload under an expiring context; a damaged or foreign
				// payload can only get here by being wrongly accepted)
				installOutcome = "install reported success"
				if got := r.applied(rt); got != uint64(p) {
					rt.Fatalf("%s returned nil but DurableAppliedIndex = %d", name, got)
				}
				if d := verifC13Diff(snapAt[p], r.snapshot(rt)); d != "" {
					rt.Fatalf("%s returned nil but the metadata is not the snapshot's: %s", name, d)
				}
			default:
				installOutcome = "install failed"
				applied, state := r.applied(rt), r.snapshot(rt)
				switch applied {
				case appliedBefore:
					if d := verifC13Diff(before, state); d != "" {
						rt.Fatalf("%s failed (%v) and left DurableAppliedIndex at %d but changed the metadata: %s", name, installErr, applied, d)
					}
				case uint64(p):
					if d := verifC13Diff(snapAt[p], state); d != "" {
						rt.Fatalf("%s failed (%v) but moved DurableAppliedIndex %d -> %d although the metadata is not the snapshot's (entries %d..%d would never be applied): %s", name, installErr, appliedBefore, applied, appliedBefore+1, p, d)
					}
				}
			}
			{
				if installRestart = rapid.IntRange(0, 3).Draw(rt, "restartAfterInstall") > 0; installRestart {
					applied := r.applied(rt)
					r.reopen(rt)
					if got := r.applied(rt); got != applied {
						rt.Fatalf("%s: DurableAppliedIndex = %d before and %d after a restart", name, applied, got)
					}
				}
				if installErr != nil && rapid.Bool().Draw(rt, "retryIntactSnapshot") {
					installOutcome += ", intact snapshot retried"
					if err := r.sm.Restore(context.Background(), multiraft.Snapshot{Index: uint64(p), Term: 1, Data: snapAt[p]}); err != nil {
						rt.Fatalf("%s: retry of the intact snapshot failed: %v", name, err)
					}
					if got := r.applied(rt); got != uint64(p) {
						rt.Fatalf("%s: DurableAppliedIndex = %d after the retry of the intact snapshot", name, got)
					}
					if d := verifC13Diff(snapAt[p], r.snapshot(rt)); d != "" {
						rt.Fatalf("%s: retried intact snapshot does not survive restore+snapshot: %s", name, d)
					}
				} else if installErr != nil {
					installOutcome += ", log replayed above the durable index"
				}
				from := int(r.applied(rt))
				if from > len(log) {
					rt.Fatalf("%s: DurableAppliedIndex = %d beyond the committed log (%d)", name, from, len(log))
				}
				if from < len(log) {
					verifC13ApplyPartition(rt, name+" then replay", r, log, want, durableRef, from, verifC13Partition(rt, "afterInstall", len(log)-from), nil, &st)
				}
				if d := verifC13Diff(final, r.snapshot(rt)); d != "" {
					rt.Fatalf("%s (%s, restart=%v) then applying log[%d:] ends in different metadata than the reference: %s", name, installOutcome, installRestart, from, d)
				}
			}
			r.close(rt)
		}
		ref.close(rt)

		classes := map[string]bool{}
		for _, c := range log {
			classes[c.class] = true
		}
		k.Key(len(log), verifC13LogKey(log))
		k.SetNonTrivial(st.stale > 0 && st.multiBatchConditional > 0)
		motifs := 0
		for _, c := range log {
			if c.motif {
				motifs++
			}
		}
		k.LabelIf(motifs > 0, "log has same-row motif commands")
		k.LabelIf(st.knownCuts > 0, "batch cut forced by a listed known finding")
		verifC13Excluded.Add(int64(st.knownCuts))
		k.LabelIf(st.stale > 0, "log has a stale-meta result")
		k.LabelIf(st.multiBatchConditional > 0, "multi-command batch with a conditional mutation")
		k.LabelIf(st.multiBatchWithStale > 0, "multi-command batch containing a stale command (split-and-replay path)")
		k.LabelIf(st.restarts > 0, "restart between batches")
		k.LabelIf(st.replayedTails > 0, "uncommitted stale tail replayed after restart")
		k.LabelIf(len(prefixes) > 0, "snapshot/restore at a prefix")
		k.LabelIf(dirtyRestores > 0, "snapshot restored over existing state")
		k.LabelIf(refused > 0, "generator produced a refused command (dropped)")
		personCmds, personRows, bumps := 0, 0, 0
		for i, c := range log {
			if c.person {
				personCmds++
			}
			if c.typ == 1 {
				personRows++
			}
			if bumpRow[i] != "" {
				bumps++
			}
		}
		k.LabelIf(personCmds > 0, "log has person-directory commands (types 63-65)")
		k.LabelIf(personRows > 0, "log has commands on a person (type 1) channel row")
		k.LabelIf(bumps > 0, "live person channel deleted (DirectoryGeneration bumped)")
		for i, c := range log {
			if c.class == "completePersonDirectory" && string(want[i]) == ApplyResultOK {
				k.Label("person-directory completion succeeded")
				break
			}
		}
		k.LabelIf(st.completeThenPersonInBatch > 0, "one batch: successful completion then another command on that person row")
		k.LabelIf(st.bumpThenReadInBatch > 0, "one batch: generation bump then a runtime-meta reader of that row")
		k.LabelIf(st.bumpThenAdmitInBatch > 0, "one batch: generation bump then re-admission of that person channel")
		if installKind != "" {
			k.Label("snapshot install: " + installKind)
			k.Label("snapshot install outcome: " + installOutcome)
			k.LabelIf(installRestart, "snapshot install followed by a restart")
		}
		k.LabelIf(len(classes) >= 12, ">=12 command classes in the log")
		for _, w := range want {
			if r := string(w); r != ApplyResultOK && r != ApplyResultStaleMeta && r != ApplyResultHashSlotFenced {
				k.Label("log has a structured apply result")
				break
			}
		}
		k.Sample(func() any {
			return fmt.Sprintf("log=%d cmds (%d classes, %d refused dropped) stale=%d batches=%d multiCond=%d multiStale=%d restarts=%d snapshotPrefixes=%v", len(log), len(classes), refused, st.stale, st.batches, st.multiBatchConditional, st.multiBatchWithStale, st.restarts, prefixes)
		})
	})
	kit.For(t, "C13").AddExtra("excluded_by_known_finding", verifC13Excluded.Swap(0))
}

var verifC13Excluded atomic.Int64

// TestVerifC13KnownDeleteThenSubscribe re-establishes, deterministically on every
// run, the recorded finding: DeleteChannel followed by a subscriber mutation of
// the same channel inside ONE apply batch sees the pre-batch subscriber rows. A
// listed signature prints KNOWN-FINDING and does not fail; if the behaviour is
// repaired the probe reports that instead.
func TestVerifC13KnownDeleteThenSubscribe(t *testing.T) {
	col := kit.For(t, "C13")
	base, cleanup := kit.TempDir()
	defer cleanup()
	setup := EncodeAddSubscribersCommand("c0", 2, []string{"u0"})
	del := EncodeDeleteChannelCommand("c0", 2)
	add := EncodeAddSubscribersCommand("c0", 2, []string{"u0"}, 1)
	cmd := func(data []byte, index uint64) multiraft.Command {
		return multiraft.Command{SlotID: multiraft.SlotID(verifC13Slot), HashSlot: 3, Index: index, Term: 1, Data: data}
	}
	single := verifC13Open(t, filepath.Join(base, "single"))
	defer single.close(t)
	batched := verifC13Open(t, filepath.Join(base, "batched"))
	defer batched.close(t)
	ctx := context.Background()
	var singleResult, batchResult []byte
	for _, r := range []*verifC13Replica{single, batched} {
		if _, err := r.sm.Apply(ctx, cmd(setup, 1)); err != nil {
			t.Fatalf("setup: %v", err)
		}
	}
	if _, err := single.sm.Apply(ctx, cmd(del, 2)); err != nil {
		t.Fatalf("delete: %v", err)
	}
	res, err := single.sm.Apply(ctx, cmd(add, 3))
	if err != nil {
		t.Fatalf("add: %v", err)
	}
	singleResult = res
	results, err := batched.sm.ApplyBatch(ctx, []multiraft.Command{cmd(del, 2), cmd(add, 3)})
	if err != nil {
		t.Fatalf("batch: %v", err)
	}
	batchResult = results[1]
	diff := verifC13Diff(single.snapshot(t), batched.snapshot(t))
	kc := col.NewCase()
	kc.Key("known", verifC13SigDeleteSubscribe)
	kc.NonTrivial()
	if bytes.Equal(singleResult, batchResult) && diff == "" {
		kc.Label("delete-then-subscribe probe: batch transparent (finding not present)")
		col.Commit(kc)
		return
	}
	what := fmt.Sprintf("[DeleteChannel(c0,2), AddSubscribers(c0,2,{u0},v1)] after AddSubscribers(c0,2,{u0}): one at a time -> %q, in one ApplyBatch -> %q; metadata: %s", singleResult, batchResult, diff)
	if kit.KnownFinding("C13", verifC13SigDeleteSubscribe) {
		kc.Label("known finding re-established: " + verifC13SigDeleteSubscribe)
		col.Commit(kc)
		return
	}
	t.Errorf("VERIF-VIOLATION C13 batch transparency [%s]: %s", verifC13SigDeleteSubscribe, what)
}

// TestVerifC13KnownGCInBatch re-establishes the second recorded finding: a
// GarbageCollectMigrationTasks command in the same apply batch as the command
// that made a task terminal does not see that task.
func TestVerifC13KnownGCInBatch(t *testing.T) {
	col := kit.For(t, "C13")
	base, cleanup := kit.TempDir()
	defer cleanup()
	create := EncodeCreateChannelMigrationTaskCommand(metadb.ChannelMigrationTask{TaskID: "t0", Kind: metadb.ChannelMigrationKindLeaderTransfer,
		Status: metadb.ChannelMigrationStatusCompleted, Phase: metadb.ChannelMigrationPhaseValidate, ChannelID: "c0", ChannelType: 2, SourceNode: 1, TargetNode: 2,
		BaseChannelEpoch: 1, BaseLeaderEpoch: 1, CreatedAtMS: 1, UpdatedAtMS: 1, CompletedAtMS: 5})
	gc := EncodeGarbageCollectTerminalChannelMigrationTasksCommand(metadb.ChannelMigrationTaskGCRequest{BeforeMS: 9, Limit: 3})
	cmd := func(data []byte, index uint64) multiraft.Command {
		return multiraft.Command{SlotID: multiraft.SlotID(verifC13Slot), HashSlot: 3, Index: index, Term: 1, Data: data}
	}
	single := verifC13Open(t, filepath.Join(base, "single"))
	defer single.close(t)
	batched := verifC13Open(t, filepath.Join(base, "batched"))
	defer batched.close(t)
	ctx := context.Background()
	if _, err := single.sm.Apply(ctx, cmd(create, 1)); err != nil {
		t.Fatalf("create: %v", err)
	}
	singleResult, err := single.sm.Apply(ctx, cmd(gc, 2))
	if err != nil {
		t.Fatalf("gc: %v", err)
	}
	results, err := batched.sm.ApplyBatch(ctx, []multiraft.Command{cmd(create, 1), cmd(gc, 2)})
	if err != nil {
		t.Fatalf("batch: %v", err)
	}
	diff := verifC13Diff(single.snapshot(t), batched.snapshot(t))
	kc := col.NewCase()
	kc.Key("known", verifC13SigGCInBatch)
	kc.NonTrivial()
	if bytes.Equal(singleResult, results[1]) && diff == "" {
		kc.Label("gc-in-batch probe: batch transparent (finding not present)")
		col.Commit(kc)
		return
	}
	what := fmt.Sprintf("[CreateChannelMigrationTask(completed at 5), GarbageCollectMigrationTasks(before 9)]: one at a time -> %q, in one ApplyBatch -> %q; metadata: %s", singleResult, results[1], diff)
	if kit.KnownFinding("C13", verifC13SigGCInBatch) {
		kc.Label("known finding re-established: " + verifC13SigGCInBatch)
		col.Commit(kc)
		return
	}
	t.Errorf("VERIF-VIOLATION C13 batch transparency [%s]: %s", verifC13SigGCInBatch, what)
}

func verifC13LogKey(log []verifC13Cmd) []byte {
	var b []byte
	for _, c := range log {
		b = append(b, byte(c.hashSlot))
		b = append(b, c.data...)
		b = append(b, 0xfe)
	}
	return b
}

// verifC13Malformed derives a malformed payload from a valid command.
func verifC13Malformed(t *rapid.T, valid []byte) ([]byte, string) {
	switch rapid.IntRange(0, 7).Draw(t, "malformedKind") {
	case 6, 7:
		// one payload of the structural neighbourhood (a TLV field at any nesting
		// depth cut / grown / re-tagged / dropped with the enclosing lengths intact)
		if variants := verifC13Variants(valid); len(variants) > 0 {
			v := variants[rapid.IntRange(0, len(variants)-1).Draw(t, "structuredVariant")]
			return v.data, "structured"
		}
		return append([]byte(nil), valid[:len(valid)-1]...), "truncated"
	case 0:
		cut := rapid.IntRange(0, len(valid)-1).Draw(t, "cut")
		return append([]byte(nil), valid[:cut]...), "truncated"
	case 1:
		out := append([]byte(nil), valid...)
		out[1] = rapid.SampledFrom([]byte{0, 10, 17, 18, 60, 99, 255}).Draw(t, "unknownType")
		return out, "unknown command type"
	case 2:
		out := append([]byte(nil), valid...)
		if len(out) > headerSize+tlvOverhead {
			binary.BigEndian.PutUint32(out[headerSize+1:], rapid.SampledFrom([]uint32{0, 1, 7, 9, 1 << 20, 1<<32 - 1}).Draw(t, "wrongLength"))
		}
		return out, "wrong TLV length"
	case 3:
		return kit.Bytes(64).Draw(t, "randomBytes"), "random bytes"
	case 4:
		out := append([]byte(nil), valid...)
		out[0] = rapid.SampledFrom([]byte{0, 2, 0xff}).Draw(t, "version")
		return out, "unknown version"
	default:
		out, m := kit.Mutate(t, valid)
		return out, "mutated:" + m.Kind
	}
}

// TestVerifC13Refusal: commands for hash slots the slot does not own and
// malformed payloads are refused without side effects (every key of the owned
// and of the foreign hash slot is compared) and without panicking, alone or
// inside a batch of otherwise valid commands.
func TestVerifC13Refusal(t *testing.T) {
	kit.Check(t, "C13", func(rt *rapid.T, k *kit.Case) {
		prefix := verifC13LogGen(0, 12).Draw(rt, "prefix")
		base, cleanup := kit.TempDir()
		defer cleanup()
		r := verifC13Open(rt, filepath.Join(base, "r"))
		defer func() {
			if r.db != nil {
				_ = r.db.Close()
			}
		}()
		index := uint64(0)
		for _, c := range prefix {
			if _, err := r.sm.Apply(context.Background(), verifC13Command(c, index+1)); err == nil {
				index++
			}
		}
		all := append(append([]uint16(nil), verifC13Owned...), verifC13Unowned, verifC13Incoming)
		before := r.export(rt, all)
		appliedBefore := r.applied(rt)

		victim := verifC13CmdGen().Draw(rt, "victim")
		var bad multiraft.Command
		var kind string
		mustFail := true
		// envelope: bad is an apply-delta envelope for envelopeHashSlot; whatever it does
		// it may only touch that hash slot
		envelope, envelopeHashSlot, envelopeClass, envelopeInside, envelopeOutside := false, uint16(0), "", 0, 0
		var envelopeBeforeOutside []byte
		firstClass, firstOutside := "", 0
		newEnvelope := func(sourceIndex uint64, original []byte, index uint64) multiraft.Command {
			return multiraft.Command{SlotID: multiraft.SlotID(verifC13Slot), HashSlot: envelopeHashSlot, Index: index, Term: 1,
				Data: EncodeApplyDeltaCommand(verifC13DeltaSource, sourceIndex, envelopeHashSlot, original)}
		}
		switch rapid.IntRange(0, 4).Draw(rt, "refusalKind") {
		case 4:
			// target side of a hash-slot migration: the source forwards a committed
			// command for the migrating hash slot h as ApplyDelta(h, original). The
			// original may be a multi-hash-slot batch whose other items belong to hash
			// slots that stayed on the source (or went elsewhere): the envelope covers h
			// only (applyDeltaCmd.apply -> hashSlotFilteredCommand.applyForHashSlot), so
			// it is either refused without side effects or changes nothing outside h.
			kind = "apply-delta envelope"
			envelope, mustFail = true, false
			envelopeHashSlot = rapid.SampledFrom([]uint16{verifC13Incoming, verifC13Incoming, verifC13Owned[0], verifC13Owned[1]}).Draw(rt, "deltaHashSlot")
			if rapid.IntRange(0, 3).Draw(rt, "incomingMarker") > 0 {
				r.sm.UpdateIncomingDeltaHashSlots([]uint16{verifC13Incoming})
			}
			var original []byte
			original, envelopeClass, envelopeInside, envelopeOutside = verifC13DeltaOriginal(rt, envelopeHashSlot, true)
			firstClass, firstOutside = envelopeClass, envelopeOutside
			bad = newEnvelope(uint64(rapid.IntRange(1, 50).Draw(rt, "sourceIndex")), original, index+1)
			envelopeBeforeOutside = r.export(rt, verifC13Except(all, envelopeHashSlot))
		case 0:
			kind = "unowned hash slot"
			bad = verifC13Command(victim, index+1)
			bad.HashSlot = verifC13Unowned
		case 1:
			kind = "scoped item for an unowned hash slot"
			switch scoped := rapid.IntRange(0, 4).Draw(rt, "scopedKind"); scoped {
			case 0:
				bad = verifC13Command(verifC13Cmd{hashSlot: verifC13Owned[0], data: EncodeUpsertChannelLatestBatchCommand([]ChannelLatestBatchItem{
					{HashSlot: verifC13Owned[0], Latest: verifC13Latest(rt)}, {HashSlot: verifC13Unowned, Latest: verifC13Latest(rt)}})}, index+1)
			case 1, 2, 3:
				// person-directory batches (types 63-65): one item for an owned and one for the foreign hash slot
				var data []byte
				var err error
				m1, m2 := verifC13RuntimeMeta(rt), verifC13RuntimeMeta(rt)
				m1.ChannelID, m1.ChannelType, m2.ChannelID, m2.ChannelType = verifC13PersonChannels[0], 1, verifC13PersonChannels[1], 1
				switch scoped {
				case 1:
					data, err = EncodeAdmitPersonDirectoryTaskBatchCommandChecked([]PersonDirectoryAdmissionBatchItem{
						{HashSlot: verifC13Owned[0], Task: metadb.PersonDirectoryTask{ChannelID: m1.ChannelID, ChannelType: 1, CommittedTail: 1, CreatedAt: 1}, RuntimeMeta: m1},
						{HashSlot: verifC13Unowned, Task: metadb.PersonDirectoryTask{ChannelID: m2.ChannelID, ChannelType: 1, CommittedTail: 1, CreatedAt: 1}, RuntimeMeta: m2}})
				case 2:
					ms1, ms2 := verifC13Membership(rt), verifC13Membership(rt)
					ms1.ChannelID, ms1.ChannelType, ms1.UID = m1.ChannelID, 1, verifC13PersonUID(rt, m1.ChannelID)
					ms2.ChannelID, ms2.ChannelType, ms2.UID = m2.ChannelID, 1, verifC13PersonUID(rt, m2.ChannelID)
					data, err = EncodeEnsureUserChannelMembershipBatchCommandChecked([]UserChannelMembershipBatchItem{{HashSlot: verifC13Owned[0], Membership: ms1}, {HashSlot: verifC13Unowned, Membership: ms2}})
				default:
					data, err = EncodeCompletePersonDirectoryTaskBatchCommandChecked([]PersonDirectoryCompletionBatchItem{
						{HashSlot: verifC13Owned[0], ChannelID: m1.ChannelID, ChannelType: 1, Generation: 1}, {HashSlot: verifC13Unowned, ChannelID: m2.ChannelID, ChannelType: 1, Generation: 1}})
				}
				if err != nil {
					rt.Fatalf("harness: %v", err)
				}
				bad = verifC13Command(verifC13Cmd{hashSlot: verifC13Owned[0], data: data}, index+1)
			default:
				m1, m2 := verifC13RuntimeMeta(rt), verifC13RuntimeMeta(rt)
				m2.ChannelID = m1.ChannelID + "x"
				data, err := EncodeCreateChannelRuntimeMetaBatchCommandChecked([]CreateChannelRuntimeMetaBatchItem{{HashSlot: verifC13Owned[1], Meta: m1}, {HashSlot: verifC13Unowned, Meta: m2}})
				if err != nil {
					rt.Fatalf("harness: %v", err)
				}
				bad = verifC13Command(verifC13Cmd{hashSlot: verifC13Owned[1], data: data}, index+1)
			}
		case 2:
			kind = "wrong slot id"
			bad = verifC13Command(victim, index+1)
			bad.SlotID = multiraft.SlotID(verifC13Slot + 1)
		default:
			data, what := verifC13Malformed(rt, victim.data)
			kind = "malformed payload: " + what
			bad = verifC13Command(verifC13Cmd{hashSlot: victim.hashSlot, data: data}, index+1)
			// a mutated / re-typed payload may still be a well-formed command
			_, decodeErr := decodeCommand(data)
			mustFail = decodeErr != nil
		}

		apply := func(cmds []multiraft.Command) (res [][]byte, err error) {
			defer func() {
				if p := recover(); p != nil {
					rt.Fatalf("VERIF-VIOLATION ApplyBatch panicked on %s (payload %x): %v", kind, bad.Data, p)
				}
			}()
			return r.sm.ApplyBatch(context.Background(), cmds)
		}
		// alone
		_, err := apply([]multiraft.Command{bad})
		if mustFail && err == nil {
			rt.Fatalf("%s was accepted (hash slot %d, payload %x)", kind, bad.HashSlot, bad.Data)
		}
		if err != nil {
			if d := verifC13Diff(before, r.export(rt, all)); d != "" {
				rt.Fatalf("refused command (%s: %v) had side effects: %s", kind, err, d)
			}
			if got := r.applied(rt); got != appliedBefore {
				rt.Fatalf("refused command (%s) moved DurableAppliedIndex %d -> %d", kind, appliedBefore, got)
			}
		}
		envelopeChanged, envelopeInBatch := false, false
		if envelope && err == nil {
			outside := verifC13Except(all, envelopeHashSlot)
			judge := func(what string, was []byte) {
				if d := verifC13Diff(was, r.export(rt, outside)); d != "" {
					rt.Fatalf("%s for hash slot %d around %s (%d items inside, %d outside the delta) wrote outside that hash slot (owned %v, incoming %d, foreign %d): %s",
						what, envelopeHashSlot, envelopeClass, envelopeInside, envelopeOutside, verifC13Owned, verifC13Incoming, verifC13Unowned, d)
				}
			}
			judge("an accepted apply-delta envelope", envelopeBeforeOutside)
			after := r.export(rt, all)
			envelopeChanged = !bytes.Equal(before, after)
			// two more envelopes (fresh source indexes) share one batch with noops
			noop := func(i uint64) multiraft.Command {
				return verifC13Command(verifC13Cmd{hashSlot: verifC13Owned[0], data: EncodeNoopCommand()}, i)
			}
			o2, c2, in2, out2 := verifC13DeltaOriginal(rt, envelopeHashSlot, true)
			o3, c3, in3, out3 := verifC13DeltaOriginal(rt, envelopeHashSlot, true)
			envelopeClass, envelopeInside, envelopeOutside = c2+" and "+c3, in2+in3, out2+out3
			appliedNow := r.applied(rt)
			if _, batchErr := apply([]multiraft.Command{noop(index + 2), newEnvelope(101, o2, index+3), newEnvelope(102, o3, index+4), noop(index + 5)}); batchErr != nil {
				if d := verifC13Diff(after, r.export(rt, all)); d != "" {
					rt.Fatalf("refused batch of apply-delta envelopes (%s: %v) had side effects: %s", envelopeClass, batchErr, d)
				}
				if got := r.applied(rt); got != appliedNow {
					rt.Fatalf("refused batch of apply-delta envelopes moved DurableAppliedIndex %d -> %d", appliedNow, got)
				}
			} else {
				judge("an accepted batch of apply-delta envelopes", envelopeBeforeOutside)
				envelopeInBatch = true
			}
		}
		inBatch := false
		if err != nil && mustFail {
			// inside a batch of valid commands: the whole batch is refused, nothing is applied
			// (claimed for refusals of the staging loop: ownership, slot id, decode. A
			// well-formed payload with invalid arguments, or an apply-delta envelope whose
			// original is refused, may fail as late as commit time, after a stale
			// conditional command of the same batch made ApplyBatch split the batch and
			// apply the preceding commands one at a time - see the structured test)
			good := rapid.SliceOfN(verifC13CmdGen(), 1, 4).Draw(rt, "good")
			pos := rapid.IntRange(0, len(good)).Draw(rt, "badPosition")
			var cmds []multiraft.Command
			for i := 0; i <= len(good); i++ {
				if i == pos {
					b := bad
					b.Index = index + uint64(len(cmds)) + 1
					cmds = append(cmds, b)
				}
				if i < len(good) {
					cmds = append(cmds, verifC13Command(good[i], index+uint64(len(cmds))+1))
				}
			}
			if _, err := apply(cmds); err == nil {
				rt.Fatalf("batch containing %s at position %d was accepted", kind, pos)
			}
			if d := verifC13Diff(before, r.export(rt, all)); d != "" {
				rt.Fatalf("refused batch (%s at position %d of %d) had side effects: %s", kind, pos, len(cmds), d)
			}
			if got := r.applied(rt); got != appliedBefore {
				rt.Fatalf("refused batch moved DurableAppliedIndex %d -> %d", appliedBefore, got)
			}
			inBatch = true
			// the replica is still usable afterwards
			if _, err := apply([]multiraft.Command{verifC13Command(verifC13Cmd{hashSlot: verifC13Owned[0], data: EncodeNoopCommand()}, index+1)}); err != nil {
				rt.Fatalf("state machine unusable after refusing %s: %v", kind, err)
			}
		}
		r.close(rt)
		k.Key(kind, bad.HashSlot, bad.Data, len(prefix))
		k.SetNonTrivial(index > 0 && ((err != nil && inBatch) || (envelope && err == nil && envelopeChanged && firstOutside > 0 && envelopeInBatch)))
		k.Label("refusal: " + strings.SplitN(kind, ":", 2)[0])
		k.LabelIf(err == nil && !envelope, "refusal: malformed candidate was still a valid command")
		k.LabelIf(err != nil && !mustFail, "refusal: well-formed payload refused while staging/committing (judged alone only)")
		if envelope {
			k.Label("apply-delta envelope around " + firstClass)
			k.LabelIf(err != nil, "apply-delta envelope refused (no side effects)")
			k.LabelIf(err == nil && firstOutside > 0, "apply-delta envelope accepted with items outside the delta hash slot")
			k.LabelIf(err == nil && firstOutside > 0 && envelopeChanged, "apply-delta envelope accepted with outside items and changed its own hash slot")
			k.LabelIf(envelopeInBatch, "apply-delta envelopes accepted inside one batch")
			k.LabelIf(envelopeHashSlot == verifC13Incoming, "apply-delta envelope for the incoming hash slot")
		}
		k.LabelIf(index > 0, "refusal on a non-empty state")
		k.Sample(func() any { return fmt.Sprintf("%s on a state of %d applied commands -> %v", kind, index, err) })
	})
	kit.For(t, "C13").AddExtra("excluded_by_known_finding", verifC13Excluded.Swap(0))
}

// FuzzVerifC13ApplyMalformed: arbitrary payloads through ApplyBatch on a real
// meta DB (thorough tier): never a panic; an error leaves every key unchanged.
func FuzzVerifC13ApplyMalformed(f *testing.F) {
	for i := 0; i < 60; i++ {
		f.Add(verifC13CmdGen().Example(i).data, uint16(3))
	}
	f.Add([]byte{1, 19}, uint16(9))
	// structure-aware seeds: nested records cut inside / right after their opaque prefix
	for _, class := range []string{"createRuntimeMetaBatch", "upsertLatestBatch", "admitPersonDirectory", "ensurePersonMemberships", "completePersonDirectory", "upsertMemberships", "appendEventsBatch"} {
		class := class
		valid := rapid.Custom(func(t *rapid.T) verifC13Cmd { return verifC13CmdOf(t, class, verifC13Key{}) }).Example(1).data
		for _, v := range verifC13Variants(valid) {
			if v.cutToShort {
				f.Add(v.data, uint16(3))
				f.Add(EncodeApplyDeltaCommand(verifC13DeltaSource, 1, 11, v.data), uint16(11))
			}
		}
	}
	dir := f.TempDir()
	db, err := metadb.Open(filepath.Join(dir, "db"))
	if err != nil {
		f.Fatalf("VERIF-MACHINERY open: %v", err)
	}
	f.Cleanup(func() { _ = db.Close() })
	smi, err := NewStateMachineWithHashSlots(db, verifC13Slot, verifC13Owned)
	if err != nil {
		f.Fatal(err)
	}
	sm := smi.(*stateMachine)
	all := append(append([]uint16(nil), verifC13Owned...), verifC13Unowned)
	index := uint64(0)
	f.Fuzz(func(t *testing.T, data []byte, hashSlot uint16) {
		before, err := db.ExportHashSlotSnapshot(context.Background(), all)
		if err != nil {
			t.Fatalf("VERIF-MACHINERY export: %v", err)
		}
		_, applyErr := sm.ApplyBatch(context.Background(), []multiraft.Command{{SlotID: multiraft.SlotID(verifC13Slot), HashSlot: hashSlot % 12, Index: index + 1, Term: 1, Data: data}})
		if applyErr == nil {
			index++
			return
		}
		after, err := db.ExportHashSlotSnapshot(context.Background(), all)
		if err != nil {
			t.Fatalf("VERIF-MACHINERY export: %v", err)
		}
		if !bytes.Equal(before.Data, after.Data) {
			t.Fatalf("VERIF-VIOLATION refused payload %x (hash slot %d, %v) changed the metadata: %s", data, hashSlot%12, applyErr, verifC13Diff(before.Data, after.Data))
		}
	})
}
