package fsm

// C17, batched delivery. The slot state machine applies raft entries in
// batches (ApplyBatch): several migration commands proposed against the same
// observed state can land in one batch. The same batches are applied
//   - to DB "B" one command at a time, every step judged by the full
//     pre/post oracle of the history test, and
//   - to DB "A" as one ApplyBatch,
// and the batch outcome (results, task rows, runtime meta, active index) must
// equal the judged sequential outcome. This extends the per-command oracle to
// the in-batch overlay paths (same-batch creates, create+advance, meta upsert
// followed by a guarded command, duplicate commands in one batch).
//
// GC is only ever batched alone: inside a larger batch its planned/actual
// deletion set is computed from committed state, which is a cleanup-timing
// difference and not part of C17.

import (
	"context"
	"reflect"
	"strings"
	"testing"

	metadb "github.com/WuKongIM/WuKongIM/pkg/db/meta"
	"github.com/WuKongIM/WuKongIM/pkg/slot/multiraft"
	"pgregory.net/rapid"
	"verif.local/kit"
)

type verifC17BatchWorld struct {
	seq   *verifC17World // DB B + model
	dbA   *metadb.DB
	smA   multiraft.BatchStateMachine
	index uint64

	nMultiApplied, nInBatchConflict, nBatches int
}

func (bw *verifC17BatchWorld) batch(rt *rapid.T) {
	w := bw.seq
	w.now += int64(rapid.SampledFrom([]int{0, 1, 50, 500, 2000, 6000}).Draw(rt, "dt"))
	pre := *w.cur
	for _, c := range verifC17Channels {
		w.remember(pre, c)
	}
	ch := verifC17Channels[rapid.IntRange(0, 1).Draw(rt, "ch")]
	other := verifC17Channels[0]
	if ch == other {
		other = verifC17Channels[1]
	}
	var reqs []*verifC17Req
	switch v := rapid.IntRange(0, 99).Draw(rt, "batchShape"); {
	case v < 40:
		reqs = append(reqs, w.forward(rt, pre, ch), w.forward(rt, pre, other))
		if verifC17Pct(rt, "third", 40) {
			reqs = append(reqs, w.random(rt, pre, ch))
		}
	case v < 55: // racing creates for the same channel
		ids := rapid.Permutation(verifC17TaskIDs).Draw(rt, "ids")
		reqs = append(reqs, w.bCreate(rt, pre, ch, ids[0]))
		if verifC17Pct(rt, "sameID", 25) {
			reqs = append(reqs, w.bCreate(rt, pre, ch, ids[0]))
		} else {
			reqs = append(reqs, w.bCreate(rt, pre, ch, ids[1]))
		}
		if verifC17Pct(rt, "otherToo", 50) {
			reqs = append(reqs, w.bCreate(rt, pre, other, ids[2]))
		}
	case v < 70: // executor step racing with an operator abort of the same task
		reqs = append(reqs, w.forward(rt, pre, ch))
		if t, ok := pre.activeTask(ch); ok {
			reqs = append(reqs, w.bAbort(t, pre.metas[ch]))
		}
		if rapid.Bool().Draw(rt, "abortFirst") && len(reqs) == 2 {
			reqs[0], reqs[1] = reqs[1], reqs[0]
		}
	case v < 80: // the environment moves the channel, then the executor's command arrives
		reqs = append(reqs, w.bUpsert(rt, pre.metas[ch], rapid.IntRange(0, 5).Draw(rt, "envKind")), w.forward(rt, pre, ch))
	case v < 90: // the same command twice in one batch
		r := w.forward(rt, pre, ch)
		reqs = append(reqs, r, r)
	default:
		n := rapid.IntRange(2, 4).Draw(rt, "n")
		for i := 0; i < n; i++ {
			c := ch
			if rapid.Bool().Draw(rt, "swap") {
				c = other
			}
			reqs = append(reqs, w.random(rt, pre, c))
		}
	}
	for _, r := range reqs {
		if r.kind == "gc" {
			reqs = []*verifC17Req{r}
			break
		}
	}

	// sequential, judged
	seqRes := make([]string, len(reqs))
	applied := 0
	for i, r := range reqs {
		before := *w.cur
		seqRes[i] = w.applyJudged(rt, r, false)
		after := *w.cur
		changed := !reflect.DeepEqual(before.metas, after.metas) || !reflect.DeepEqual(before.tasks, after.tasks)
		if changed {
			applied++
		}
		if !changed && i > 0 && applied > 0 && seqRes[i] == ApplyResultStaleMeta {
			fresh := (r.guard == nil || verifC17GuardMatchesState(pre, r)) && (r.rguard == nil || verifC17RGuardMatches(*r.rguard, pre.metas[r.channel]))
			if fresh {
				bw.nInBatchConflict++
			}
		}
	}
	if applied >= 2 {
		bw.nMultiApplied++
	}
	bw.nBatches++

	// one ApplyBatch
	cmds := make([]multiraft.Command, len(reqs))
	for i, r := range reqs {
		bw.index++
		cmds[i] = multiraft.Command{SlotID: verifC17Slot, Index: bw.index, Term: 1, Data: r.encode()}
	}
	out, err := bw.smA.ApplyBatch(context.Background(), cmds)
	if err != nil {
		rt.Fatalf("VERIF-VIOLATION C17: ApplyBatch failed hard on well-formed commands %v: %v", reqs, err)
	}
	for i, r := range reqs {
		got := string(out[i])
		if r.kind == "gc" {
			got = ApplyResultOK
		}
		if got != seqRes[i] {
			rt.Fatalf("VERIF-VIOLATION C17: batch result %d for %s is %q, one-at-a-time application (judged) gave %q; batch=%v", i, r, got, seqRes[i], reqs)
		}
	}
	postA := verifC17Read(rt, bw.dbA)
	postB := *w.cur
	if !reflect.DeepEqual(postA.metas, postB.metas) || !reflect.DeepEqual(postA.tasks, postB.tasks) ||
		!reflect.DeepEqual(postA.active, postB.active) || !reflect.DeepEqual(postA.listed, postB.listed) {
		rt.Fatalf("VERIF-VIOLATION C17: state after ApplyBatch differs from the judged one-at-a-time outcome\n  batch=%v results=%v\n  batch state : %+v\n  serial state: %+v", reqs, seqRes, postA, postB)
	}
	verifC17Invariants(rt, w, postA, func(format string, args ...any) {
		rt.Fatalf("VERIF-VIOLATION C17 (after ApplyBatch %v): "+format, append([]any{reqs}, args...)...)
	})
	w.keyParts = append(w.keyParts, "|")
}

func verifC17GuardMatchesState(st verifC17State, r *verifC17Req) bool {
	t, ok := st.tasks[verifC17Key(r.channel, r.taskID)]
	return ok && verifC17GuardMatches(*r.guard, t)
}

func TestVerifC17Batch(t *testing.T) {
	kit.Check(t, "C17", func(rt *rapid.T, k *kit.Case) {
		restore := verifC17UseMemFS()
		defer restore()
		dbA, smA := verifC17Open(rt, "c17-batch")
		defer dbA.Close()
		dbB, smB := verifC17Open(rt, "c17-serial")
		defer dbB.Close()
		w := &verifC17World{db: dbB, sm: smB, now: verifC17T0, cut: map[string]bool{}, reopened: map[string]bool{}, obs: map[string][]verifC17Obs{}, sentReq: map[string][]*verifC17Req{}}
		bw := &verifC17BatchWorld{seq: w, dbA: dbA, smA: smA.(multiraft.BatchStateMachine)}
		var init []multiraft.Command
		for _, ch := range verifC17Channels {
			m := verifC17InitialMeta(rt, ch)
			r := &verifC17Req{kind: "upsertMeta", channel: ch, meta: &m}
			if res := w.apply(rt, r, false); res != ApplyResultOK {
				rt.Fatalf("VERIF-MACHINERY initial meta upsert: %q", res)
			}
			bw.index++
			init = append(init, multiraft.Command{SlotID: verifC17Slot, Index: bw.index, Term: 1, Data: r.encode()})
		}
		if _, err := bw.smA.ApplyBatch(context.Background(), init); err != nil {
			rt.Fatalf("VERIF-MACHINERY initial meta upsert batch: %v", err)
		}
		st := verifC17Read(rt, dbB)
		w.cur = &st
		rt.Repeat(map[string]func(*rapid.T){"batch": bw.batch})
		verifC17Report(k, w, "batched: ")
		k.LabelIf(bw.nMultiApplied > 0, "batched: one batch changed state with >= 2 commands")
		k.LabelIf(bw.nInBatchConflict > 0, "batched: command rejected because of an earlier command in the same batch")
		k.LabelIf(strings.Count(strings.Join(w.keyParts, ""), "|") >= 20, "batched: >= 20 batches")
	})
}
