package fsm

// C39 — hash-slot migration neither loses nor duplicates metadata writes.
//
// Two real slot state machines over two real meta DBs: source slot 11 owns
// hash slots {5, 6}, target slot 22 owns {7}. Hash slot 5 migrates 11 -> 22.
// No production orchestrator for the delta protocol exists in this tree, so
// the harness is the orchestrator and uses only the hooks the state machine
// exposes (UpdateOwnedHashSlots, UpdateOutgoingDeltaTargets,
// UpdateIncomingDeltaHashSlots, SetDeltaForwarder, Export/ImportHashSlotSnapshot,
// EnterFence, outbox list/ack/cleanup):
//
//   live variant : start delta capture, export+import snapshot at the same
//                  point, forward/replay outbox rows as apply_delta in source
//                  order, EnterFence, drain through the fence index, switch
//                  ownership, ack + cleanup.
//   stop variant : EnterFence(target) without delta capture, export+import,
//                  deliver the fence marker, switch.
//
// What is generated: the write stream (overwrite-style: user upserts, channel
// upserts, subscriber add/remove over a tiny key universe, so that a replayed
// or lost delta is visible), the phase cut points, live-forward vs. outbox
// replay, duplicates of already delivered deltas (late, twice in a batch,
// mixed with first deliveries, after a target restart, after the switch),
// orchestrator restarts (cursor falls back to the last acked index), lagging
// and duplicated acks, fence re-issue, source/target state machine restarts,
// misrouted ordinary writes.
//
// Outbox replay delivers in source-index order (the outbox is listed
// ascending). The live forwarder is best effort PER ROW (the state machine
// calls it after every commit and ignores its error), so a forward may be
// delivered at once, lost, or delayed independently of its neighbours: a later
// row can reach the target - and be acked - while an earlier one is still
// undelivered and has to come from the outbox replay. Such overtaking is
// generated only between rows that touch different keys (commuting writes), so
// the end state does not depend on the delivery order; acks are per row.
//
// Source-side apply batches are what the source's Raft group would produce as
// well: besides single commands, 2-4 commands share one ApplyBatch call -
// ordinary writes of the migrating hash slot, writes of the source's other hash
// slot, replicated outbox acks, a re-issued fence, and the enter-fence command
// itself at any position (a client write racing with the fence proposal), so a
// write can be ordered before or after the fence INSIDE the batch that sets it.
// Every command is judged as if it had been applied alone, in batch order.
//
// Writes include the channel-latest projection: single rows and multi-row
// batches in caller order whose rows carry their own hash slot (pkg/cluster
// UpsertChannelLatestBatch groups by physical slot only), i.e. rows of the
// migrating hash slot interleaved with rows of the slot's other hash slot and
// routed with the hash slot of the first row. The target must replay exactly the
// migrating hash slot's rows of such a command.
//
// Target-side apply batches are what the target's Raft group would produce:
// apply_delta commands share a batch with ordinary commands of the target's own
// hash slot 7 (writes, channel-migration task creates/claims whose guard fails
// only when the batch commits, which makes the state machine re-apply every
// command of the batch on its own), and a batch can be cut short by a cancelled
// context and re-applied (same instance or a re-created state machine).

import (
	"bytes"
	"context"
	"errors"
	"fmt"
	"sort"
	"strings"
	"testing"

	metadb "github.com/WuKongIM/WuKongIM/pkg/db/meta"
	"github.com/WuKongIM/WuKongIM/pkg/slot/multiraft"
	"pgregory.net/rapid"
	"verif.local/kit"
)

const (
	verifC39Src    = 11
	verifC39Tgt    = 22
	verifC39H      = uint16(5) // migrates
	verifC39Ctl    = uint16(6) // stays on the source
	verifC39TgtOwn = uint16(7)
	verifC39ChType = int64(2)
)

var (
	verifC39UIDs  = []string{"u1", "u2", "u3", "u4"}
	verifC39Chans = []string{"g1", "g2", "g3"}
)

// ---------------------------------------------------------------- writes and the model

type verifC39Write struct {
	kind  string // user | channel | addSubs | removeSubs | latest | latestBatch
	hs    uint16 // hash slot the write is meant for (the envelope of a single-hash-slot command)
	user  metadb.User
	ch    metadb.Channel
	chID  string
	uids  []string
	items []ChannelLatestBatchItem // latest: one row; latestBatch: rows in caller order, each with its own hash slot
}

func (w verifC39Write) encode() []byte {
	switch w.kind {
	case "user":
		return EncodeUpsertUserCommand(w.user)
	case "channel":
		return EncodeUpsertChannelCommand(w.ch)
	case "addSubs":
		return EncodeAddSubscribersCommand(w.chID, verifC39ChType, w.uids)
	case "removeSubs":
		return EncodeRemoveSubscribersCommand(w.chID, verifC39ChType, w.uids)
	case "latest":
		return EncodeUpsertChannelLatestCommand(w.items[0].Latest)
	case "latestBatch":
		return EncodeUpsertChannelLatestBatchCommand(w.items)
	}
	panic("verifC39: kind " + w.kind)
}

// envelope is the hash slot the proposal is routed with. pkg/cluster
// UpsertChannelLatestBatch groups rows by physical slot only, keeps the caller's
// row order and routes the batch with the hash slot of its first row.
func (w verifC39Write) envelope() uint16 {
	if w.kind == "latestBatch" {
		return w.items[0].HashSlot
	}
	return w.hs
}

// touches: the write changes rows of hash slot hs.
func (w verifC39Write) touches(hs uint16) bool {
	if w.kind == "latestBatch" {
		for _, it := range w.items {
			if it.HashSlot == hs {
				return true
			}
		}
		return false
	}
	return w.hs == hs
}

// splitRows: a batch whose rows for hash slot hs are not contiguous (a row of
// another hash slot sits between two of them).
func (w verifC39Write) splitRows(hs uint16) bool {
	state := 0 // 0 none seen, 1 inside the first run, 2 the run ended
	for _, it := range w.items {
		switch {
		case it.HashSlot == hs && state == 2:
			return true
		case it.HashSlot == hs:
			state = 1
		case state == 1:
			state = 2
		}
	}
	return false
}

func (w verifC39Write) String() string {
	switch w.kind {
	case "user":
		return fmt.Sprintf("user(%s=%s/%d)", w.user.UID, w.user.Token, w.user.DeviceFlag)
	case "channel":
		return fmt.Sprintf("channel(%s ban=%d large=%d)", w.ch.ChannelID, w.ch.Ban, w.ch.Large)
	case "latest", "latestBatch":
		var rows []string
		for _, it := range w.items {
			rows = append(rows, fmt.Sprintf("hs%d:%s@%d", it.HashSlot, it.Latest.ChannelID, it.Latest.LastMessageSeq))
		}
		return fmt.Sprintf("%s(%s)", w.kind, strings.Join(rows, " "))
	}
	return fmt.Sprintf("%s(%s %v)", w.kind, w.chID, w.uids)
}

func verifC39Latest(rt *rapid.T, serial int) metadb.ChannelLatest {
	// every generated row has its own LastMessageSeq (no ties); rows reach a state
	// machine mostly, but not always, in generation order
	seq := uint64(serial)
	return metadb.ChannelLatest{ChannelID: rapid.SampledFrom(verifC39Chans).Draw(rt, "latestCh"), ChannelType: verifC39ChType,
		LastMessageID: seq * 10, LastMessageSeq: seq, LastAt: int64(1000 + serial),
		FromUID: rapid.SampledFrom(verifC39UIDs).Draw(rt, "latestFrom"), ClientMsgNo: fmt.Sprintf("c-%d", serial),
		Payload: []byte(fmt.Sprintf("p%d", serial)), UpdatedAt: int64(2000 + serial)}
}

// verifC39GenWrite draws one ordinary write for hash slot hs. other >= 0 names a
// second hash slot owned by the same slot: a channel-latest batch may then carry
// rows of both in any order (at least one row is for hs).
func verifC39GenWrite(rt *rapid.T, serial *int, hs uint16, other int) verifC39Write {
	*serial++
	switch rapid.IntRange(0, 6).Draw(rt, "writeKind") {
	case 0:
		return verifC39Write{kind: "user", hs: hs, user: metadb.User{
			UID: rapid.SampledFrom(verifC39UIDs).Draw(rt, "uid"), Token: fmt.Sprintf("tok-%d", *serial),
			DeviceFlag: int64(rapid.IntRange(0, 2).Draw(rt, "flag")), DeviceLevel: int64(*serial % 2)}}
	case 1:
		return verifC39Write{kind: "channel", hs: hs, ch: metadb.Channel{
			ChannelID: rapid.SampledFrom(verifC39Chans).Draw(rt, "ch"), ChannelType: verifC39ChType,
			Ban: int64(*serial), Large: int64(rapid.IntRange(0, 1).Draw(rt, "large")), SendBan: int64(rapid.IntRange(0, 1).Draw(rt, "sendBan"))}}
	case 2:
		return verifC39Write{kind: "addSubs", hs: hs, chID: rapid.SampledFrom(verifC39Chans).Draw(rt, "ch"),
			uids: rapid.SliceOfNDistinct(rapid.SampledFrom(verifC39UIDs), 1, 3, rapid.ID[string]).Draw(rt, "uids")}
	case 3:
		return verifC39Write{kind: "removeSubs", hs: hs, chID: rapid.SampledFrom(verifC39Chans).Draw(rt, "ch"),
			uids: rapid.SliceOfNDistinct(rapid.SampledFrom(verifC39UIDs), 1, 2, rapid.ID[string]).Draw(rt, "uids")}
	case 4:
		return verifC39Write{kind: "latest", hs: hs, items: []ChannelLatestBatchItem{{HashSlot: hs, Latest: verifC39Latest(rt, *serial)}}}
	default:
		n := rapid.IntRange(2, 6).Draw(rt, "latestRows")
		items := make([]ChannelLatestBatchItem, 0, n)
		mine := false
		for i := 0; i < n; i++ {
			if i > 0 {
				*serial++
			}
			rowHS := hs
			if other >= 0 && rapid.IntRange(0, 9).Draw(rt, "latestRowElsewhere") < 4 {
				rowHS = uint16(other)
			}
			mine = mine || rowHS == hs
			items = append(items, ChannelLatestBatchItem{HashSlot: rowHS, Latest: verifC39Latest(rt, *serial)})
		}
		if !mine {
			items[rapid.IntRange(0, n-1).Draw(rt, "latestOwnRow")].HashSlot = hs
		}
		return verifC39Write{kind: "latestBatch", hs: hs, items: items}
	}
}

// verifC39Model is the independent reference for the rows of one hash slot.
type verifC39Model struct {
	hs     uint16
	users  map[string]metadb.User
	chans  map[string]metadb.Channel
	subs   map[string]map[string]bool
	latest map[string]metadb.ChannelLatest
}

func verifC39NewModel(hs uint16) *verifC39Model {
	return &verifC39Model{hs: hs, users: map[string]metadb.User{}, chans: map[string]metadb.Channel{}, subs: map[string]map[string]bool{},
		latest: map[string]metadb.ChannelLatest{}}
}

func (m *verifC39Model) clone() *verifC39Model {
	c := verifC39NewModel(m.hs)
	for k, v := range m.latest {
		c.latest[k] = v
	}
	for k, v := range m.users {
		c.users[k] = v
	}
	for k, v := range m.chans {
		c.chans[k] = v
	}
	for k, v := range m.subs {
		c.subs[k] = map[string]bool{}
		for u := range v {
			c.subs[k][u] = true
		}
	}
	return c
}

// apply: the rows of the model's hash slot after the write (a multi-hash-slot
// batch changes only its rows of that hash slot; other writes are no-ops for a
// hash slot they are not meant for).
func (m *verifC39Model) apply(w verifC39Write) {
	if !w.touches(m.hs) {
		return
	}
	switch w.kind {
	case "latest", "latestBatch":
		for _, it := range w.items {
			// "advances the channel latest projection monotonically by message
			// sequence" (pkg/db/meta UpsertChannelLatest); generated sequences are unique
			if ex, ok := m.latest[it.Latest.ChannelID]; it.HashSlot == m.hs && (!ok || it.Latest.LastMessageSeq > ex.LastMessageSeq) {
				m.latest[it.Latest.ChannelID] = it.Latest
			}
		}
	case "user":
		m.users[w.user.UID] = w.user
	case "channel":
		next := w.ch
		if ex, ok := m.chans[w.ch.ChannelID]; ok {
			next.SubscriberCount = ex.SubscriberCount // an upsert keeps the durable subscriber count
		}
		m.chans[w.ch.ChannelID] = next
	case "addSubs", "removeSubs":
		set := m.subs[w.chID]
		if set == nil {
			set = map[string]bool{}
			m.subs[w.chID] = set
		}
		ch, exists := m.chans[w.chID]
		for _, u := range w.uids {
			if w.kind == "addSubs" {
				if !set[u] {
					ch.SubscriberCount++
				}
				set[u] = true
			} else {
				if set[u] && ch.SubscriberCount > 0 {
					ch.SubscriberCount--
				}
				delete(set, u)
			}
		}
		if exists { // the count lives in the channel row; without a row only the subscriber rows change
			m.chans[w.chID] = ch
		}
	}
}

func (m *verifC39Model) describe() string {
	var parts []string
	for _, u := range verifC39UIDs {
		if v, ok := m.users[u]; ok {
			parts = append(parts, fmt.Sprintf("user %s=%+v", u, v))
		}
	}
	for _, c := range verifC39Chans {
		if v, ok := m.chans[c]; ok {
			parts = append(parts, fmt.Sprintf("channel %s=%+v", c, v))
		}
		var subs []string
		for u := range m.subs[c] {
			subs = append(subs, u)
		}
		sort.Strings(subs)
		if len(subs) > 0 {
			parts = append(parts, fmt.Sprintf("subs %s=%v", c, subs))
		}
		if v, ok := m.latest[c]; ok {
			parts = append(parts, fmt.Sprintf("latest %s={id %d seq %d at %d from %s no %s payload %q updated %d}", c,
				v.LastMessageID, v.LastMessageSeq, v.LastAt, v.FromUID, v.ClientMsgNo, v.Payload, v.UpdatedAt))
		}
	}
	return strings.Join(parts, "; ")
}

func (m *verifC39Model) empty() bool { return m.describe() == "" }

// verifC39ReadHS reads the rows of one hash slot through the public getters.
func verifC39ReadHS(rt *rapid.T, db *metadb.DB, hs uint16) *verifC39Model {
	ctx := context.Background()
	out := verifC39NewModel(hs)
	shard := db.ForHashSlot(hs)
	for _, u := range verifC39UIDs {
		v, err := shard.GetUser(ctx, u)
		if errors.Is(err, metadb.ErrNotFound) {
			continue
		}
		if err != nil {
			rt.Fatalf("GetUser(%s): %v", u, err)
		}
		out.users[u] = v
	}
	for _, c := range verifC39Chans {
		v, err := shard.GetChannel(ctx, c, verifC39ChType)
		if err == nil {
			out.chans[c] = v
		} else if !errors.Is(err, metadb.ErrNotFound) {
			rt.Fatalf("GetChannel(%s): %v", c, err)
		}
		subs, err := shard.ListSubscribersSnapshot(ctx, c, verifC39ChType)
		if err != nil {
			rt.Fatalf("ListSubscribersSnapshot(%s): %v", c, err)
		}
		for _, u := range subs {
			if out.subs[c] == nil {
				out.subs[c] = map[string]bool{}
			}
			out.subs[c][u] = true
		}
		lt, err := shard.GetChannelLatest(ctx, c, verifC39ChType)
		if err == nil {
			if lt.ChannelID != c || lt.ChannelType != verifC39ChType {
				rt.Fatalf("GetChannelLatest(%s) returned the row of %s/%d", c, lt.ChannelID, lt.ChannelType)
			}
			out.latest[c] = lt
		} else if !errors.Is(err, metadb.ErrNotFound) {
			rt.Fatalf("GetChannelLatest(%s): %v", c, err)
		}
	}
	return out
}

// ---------------------------------------------------------------- world

type verifC39Row struct {
	idx   uint64
	data  []byte
	write *verifC39Write // nil: the fence marker
}

type verifC39World struct {
	rt       *rapid.T
	dbS, dbT *metadb.DB
	src, tgt *stateMachine
	srcOwned []uint16
	tgtOwned []uint16
	sIdx     uint64
	tIdx     uint64
	serial   int

	wantDelta int // delta-phase writes to see before the fence is issued
	phase     int // 0 before migration, 1 delta, 2 fenced, 3 done (ownership switched)
	stopVar   bool
	capture   bool
	fwdOn     bool

	model       *verifC39Model // every accepted write for the migrating hash slot, in order
	tmodel      *verifC39Model // what the target must hold: snapshot + first-delivered deltas
	ctl         *verifC39Model // control hash slot that does not migrate
	srcAtSwitch *verifC39Model // what the old owner held when ownership moved

	outbox    []verifC39Row                          // rows the source must have produced, ascending
	applied   []bool                                 // per outbox position: applied at the target (first delivery happened)
	acked     []bool                                 // per outbox position: acked at the source (acks are per row)
	inflight  []int                                  // outbox positions whose live forward is delayed in the network
	cursorIdx uint64                                 // replay cursor: every row with index <= cursor has been applied
	own       *verifC39Model                         // the target's own hash slot 7
	tasks     map[string]metadb.ChannelMigrationTask // channel-migration tasks created in hash slot 7, by channel
	now       int64
	fenceIdx  uint64
	fwds      []multiraft.Command // what the source state machine handed to the forwarder during the last apply
	cleaned   bool

	nPreWrites, nDeltaWrites, nFenced, nDoneWrites, nDup, nDupInBatch, nDupAfterSwitch, nLive, nLiveDropped       int
	nBurst                                                                                                        int
	nPump, nRestartT, nRestartS, nOrchRestart, nMisPre, nMisPost, nReFence, nAck, nDupAck, nCtl, nDupAfterRestart int
	sinceRestartT                                                                                                 bool
	nOvertake, nDelayed, nLateFwd, nLateFwdDup, nAckOverUndelivered, nAckGap                                      int
	nMixed, nSplitFirst, nSplitDup, nCondOK, nFaultErr, nFaultFirst, nFaultSame, nFaultRestart, nFaultPartial     int
	nSrcBatch, nFenceWithLaterH, nFenceWithEarlierH, nFenceWithReFence, nAckInBatch, nAckThenWrite                int
	nLatest, nLatestBatchDelta, nLatestSplitDelta, nLatestSplitFirst, nLatestCtlEnvelope, nLatestBatchFenced      int
	nLatestSplitNewOwner                                                                                          int
	log                                                                                                           []string
}

func (w *verifC39World) fail(format string, args ...any) {
	w.rt.Fatalf("VERIF-VIOLATION C39: "+format+"\n  history: %s", append(args, strings.Join(w.log, " ; "))...)
}

func (w *verifC39World) newSM(db *metadb.DB, slot uint64, owned []uint16) *stateMachine {
	sm, err := NewStateMachineWithHashSlots(db, slot, owned)
	if err != nil {
		w.rt.Fatalf("VERIF-MACHINERY new state machine: %v", err)
	}
	return sm.(*stateMachine)
}

func (w *verifC39World) installSourceHooks() {
	if w.capture {
		w.src.UpdateOutgoingDeltaTargets(map[uint16]multiraft.SlotID{verifC39H: verifC39Tgt})
	} else {
		w.src.UpdateOutgoingDeltaTargets(nil)
	}
	if w.fwdOn {
		w.src.SetDeltaForwarder(func(_ context.Context, target multiraft.SlotID, cmd multiraft.Command) error {
			if target != verifC39Tgt || cmd.HashSlot != verifC39H {
				w.fail("delta forwarded to slot %d for hash slot %d, want slot %d hash slot %d", target, cmd.HashSlot, verifC39Tgt, verifC39H)
			}
			c := cmd
			c.Data = append([]byte(nil), cmd.Data...)
			w.fwds = append(w.fwds, c)
			return nil
		})
	}
}

// srcApply applies one command at the source (its own apply batch).
func (w *verifC39World) srcApply(hs uint16, data []byte) (string, error) {
	w.sIdx++
	w.fwds = nil
	res, err := w.src.Apply(context.Background(), multiraft.Command{SlotID: verifC39Src, HashSlot: hs, Index: w.sIdx, Term: 1, Data: data})
	return string(res), err
}

// ---- source-side apply batches
//
// The source's Raft group hands committed entries to the state machine in
// batches, so ordinary writes of the migrating hash slot, writes of the other
// hash slot the source owns, the enter-fence command, a re-issued fence and
// replicated outbox acks can share one ApplyBatch call in any order. The
// reference is sequential: every command behaves as if it had been applied on
// its own, in batch order.

type verifC39SrcItem struct {
	kind   string // write | fence | refence | ack
	wr     verifC39Write
	fwd    int // what happens to the live forward of the outbox row this command produces
	data   []byte
	ackPos int
}

func (it verifC39SrcItem) String() string {
	switch it.kind {
	case "write":
		return it.wr.String()
	case "ack":
		return fmt.Sprintf("ack[%d]", it.ackPos)
	}
	return it.kind
}

func (w *verifC39World) fenceData() []byte {
	if w.capture {
		return EncodeEnterFenceCommand(verifC39H)
	}
	return EncodeEnterFenceCommandForTarget(verifC39H, verifC39Tgt)
}

// genSrcItem draws one command that may accompany others in a source batch.
// fenced: the command is ordered after the fence (of this batch or an earlier one).
func (w *verifC39World) genSrcItem(fenced bool, ackTaken map[int]bool) verifC39SrcItem {
	rt := w.rt
	switch v := rapid.IntRange(0, 9).Draw(rt, "srcItemKind"); {
	case v < 5:
	case v < 7:
		return verifC39SrcItem{kind: "write", wr: verifC39GenWrite(rt, &w.serial, verifC39Ctl, -1)}
	case v == 7 && fenced:
		data := EncodeEnterFenceCommandForTarget(verifC39H, verifC39Tgt)
		if w.capture && rapid.Bool().Draw(rt, "plainFence") {
			data = EncodeEnterFenceCommand(verifC39H)
		}
		return verifC39SrcItem{kind: "refence", data: data}
	case v >= 8:
		var cand []int
		for p := range w.outbox {
			if w.applied[p] && !w.acked[p] && !ackTaken[p] {
				cand = append(cand, p)
			}
		}
		if len(cand) > 0 && !w.cleaned {
			p := rapid.SampledFrom(cand).Draw(rt, "batchAckPos")
			ackTaken[p] = true
			return verifC39SrcItem{kind: "ack", ackPos: p,
				data: EncodeAckHashSlotMigrationOutboxCommand(verifC39H, verifC39Src, verifC39Tgt, w.outbox[p].idx)}
		}
	}
	return verifC39SrcItem{kind: "write", wr: verifC39GenWrite(rt, &w.serial, verifC39H, int(verifC39Ctl)), fwd: w.drawFwd("liveForward")}
}

// srcBatch applies the commands in ONE ApplyBatch call at the source (which
// still owns the migrating hash slot) and judges every result, the source rows,
// the outbox, the migration state and the forwarder calls.
func (w *verifC39World) srcBatch(items []verifC39SrcItem) {
	rt := w.rt
	if w.phase == 3 {
		for _, it := range items {
			if it.kind != "write" || it.wr.touches(verifC39H) {
				rt.Fatalf("VERIF-MACHINERY harness sent %s to the old owner as an owner command", it)
			}
		}
	}
	cmds := make([]multiraft.Command, len(items))
	descr := make([]string, len(items))
	for i, it := range items {
		w.sIdx++
		hs, data := verifC39H, it.data
		if it.kind == "write" {
			hs, data = it.wr.envelope(), it.wr.encode()
		} else if it.kind == "fence" {
			data = w.fenceData()
		}
		cmds[i] = multiraft.Command{SlotID: verifC39Src, HashSlot: hs, Index: w.sIdx, Term: 1, Data: data}
		descr[i] = it.String()
	}
	w.fwds = nil
	out, err := w.src.ApplyBatch(context.Background(), cmds)
	if len(items) > 1 {
		w.nSrcBatch++
		w.log = append(w.log, "SBATCH"+fmt.Sprint(descr))
	}
	if err != nil {
		w.fail("owner refused the apply batch %v with error %v", descr, err)
	}
	if len(out) != len(cmds) {
		w.fail("source batch of %d commands answered %d results", len(cmds), len(out))
	}

	type expFwd struct{ pos, mode int }
	var forwards []expFwd
	ph, fencedHere, ctlTouched, stopFence := w.phase, false, false, false
	hBeforeFence, ackSeen := 0, false
	for i, it := range items {
		res, idx := string(out[i]), cmds[i].Index
		switch it.kind {
		case "write":
			wr := it.wr
			if !wr.touches(verifC39H) {
				// the hash slot that does not migrate is never fenced and never forwarded
				w.log = append(w.log, "ctl:"+wr.String())
				if res == ApplyResultHashSlotFenced || res == ApplyResultStaleMeta {
					w.fail("write %s to the non-migrating hash slot %d answered %q", wr, verifC39Ctl, res)
				}
				w.ctl.apply(wr)
				ctlTouched = true
				w.nCtl++
				continue
			}
			if ph == 2 {
				w.log = append(w.log, "S!"+wr.String())
				if res != ApplyResultHashSlotFenced {
					w.fail("write %s ordered after the fence (index %d, batch %v) answered %q, want %q", wr, w.fenceIdx, descr, res, ApplyResultHashSlotFenced)
				}
				w.nFenced++
				ctlTouched = ctlTouched || wr.touches(verifC39Ctl)
				if fencedHere {
					w.nFenceWithLaterH++
				}
				if wr.kind == "latestBatch" {
					w.nLatestBatchFenced++
				}
				continue
			}
			w.log = append(w.log, "S:"+wr.String())
			if res == ApplyResultHashSlotFenced || res == ApplyResultStaleMeta {
				w.fail("write %s before the fence answered %q (batch %v)", wr, res, descr)
			}
			w.model.apply(wr)
			if wr.touches(verifC39Ctl) {
				w.ctl.apply(wr)
				ctlTouched = true
			}
			hBeforeFence++
			if ackSeen {
				w.nAckThenWrite++
			}
			if wr.kind == "latest" || wr.kind == "latestBatch" {
				w.nLatest++
			}
			if ph == 0 {
				w.nPreWrites++
				continue
			}
			w.nDeltaWrites++
			if wr.kind == "latestBatch" {
				w.nLatestBatchDelta++
				if wr.splitRows(verifC39H) {
					w.nLatestSplitDelta++
				}
				if wr.envelope() != verifC39H {
					w.nLatestCtlEnvelope++
				}
			}
			wrCopy := wr
			w.outbox = append(w.outbox, verifC39Row{idx: idx, data: cmds[i].Data, write: &wrCopy})
			w.applied = append(w.applied, false)
			w.acked = append(w.acked, false)
			if w.fwdOn {
				forwards = append(forwards, expFwd{len(w.outbox) - 1, it.fwd})
			}
		case "fence":
			if ph >= 2 {
				rt.Fatalf("VERIF-MACHINERY harness issued the first fence twice")
			}
			if res != ApplyResultOK {
				w.fail("EnterFence answered %q (batch %v)", res, descr)
			}
			w.fenceIdx = idx
			w.outbox = append(w.outbox, verifC39Row{idx: idx, data: cmds[i].Data})
			w.applied = append(w.applied, false)
			w.acked = append(w.acked, false)
			ph, fencedHere = 2, true
			w.log = append(w.log, "FENCE")
			if hBeforeFence > 0 {
				w.nFenceWithEarlierH++
			}
			if w.capture && w.fwdOn {
				forwards = append(forwards, expFwd{len(w.outbox) - 1, it.fwd})
			} else {
				stopFence = true
			}
		case "refence":
			// a fence that is already set stays as it is: no new row, no new index
			if res != ApplyResultOK {
				w.fail("re-issued EnterFence answered %q (batch %v)", res, descr)
			}
			w.nReFence++
			if fencedHere {
				w.nFenceWithReFence++
			}
			w.log = append(w.log, "REFENCE")
		case "ack":
			if res != ApplyResultOK {
				w.fail("replicated ack of index %d answered %q (batch %v)", w.outbox[it.ackPos].idx, res, descr)
			}
			w.acked[it.ackPos] = true
			w.nAck++
			ackSeen = true
			if len(items) > 1 {
				w.nAckInBatch++
			}
			w.log = append(w.log, fmt.Sprintf("ACK[%d]", it.ackPos))
		}
	}
	w.phase = ph

	if w.phase < 3 {
		w.checkEqual("after the source applied "+fmt.Sprint(descr), w.dbS, verifC39H, w.model)
	} else {
		w.checkEqual("after the old owner applied "+fmt.Sprint(descr), w.dbS, verifC39H, w.srcAtSwitch)
	}
	if ctlTouched {
		w.checkEqual("after the source applied "+fmt.Sprint(descr)+" (non-migrating hash slot)", w.dbS, verifC39Ctl, w.ctl)
	}
	w.expectOutbox()

	// the forwarder is called once per committed outbox row, in order
	got := w.fwds
	w.fwds = nil
	if len(got) != len(forwards) {
		w.fail("source batch %v called the delta forwarder %d times, want %d (once per outbox row it produced)", descr, len(got), len(forwards))
	}
	for i, f := range forwards {
		row := w.outbox[f.pos]
		if got[i].Index != row.idx || !bytes.Equal(got[i].Data, row.data) || got[i].SlotID != verifC39Src {
			w.fail("forwarded delta is (slot %d index %d, %d bytes), want the committed command (slot %d index %d, %d bytes)",
				got[i].SlotID, got[i].Index, len(got[i].Data), verifC39Src, row.idx, len(row.data))
		}
	}
	for _, f := range forwards {
		w.routeForward(f.pos, f.mode)
	}
	if stopFence {
		w.snapshotToTarget()
	}
}

func (w *verifC39World) checkEqual(what string, db *metadb.DB, hs uint16, want *verifC39Model) {
	got := verifC39ReadHS(w.rt, db, hs)
	if g, e := got.describe(), want.describe(); g != e {
		w.fail("%s: rows of hash slot %d differ from the reference\n  have: %s\n  want: %s", what, hs, g, e)
	}
}

func (w *verifC39World) migState() (metadb.HashSlotMigrationState, bool) {
	st, err := w.dbS.LoadHashSlotMigrationState(context.Background(), verifC39H)
	if errors.Is(err, metadb.ErrNotFound) {
		return metadb.HashSlotMigrationState{}, false
	}
	if err != nil {
		w.rt.Fatalf("LoadHashSlotMigrationState: %v", err)
	}
	return st, true
}

// expectOutbox: the durable outbox after the acked prefix equals the rows the
// accepted writes must have produced (nothing lost, nothing invented).
func (w *verifC39World) expectOutbox() {
	if w.cleaned {
		return
	}
	rows, err := w.dbS.ListHashSlotMigrationOutbox(context.Background(), verifC39H, verifC39Src, verifC39Tgt, 0, 1000)
	if err != nil {
		w.rt.Fatalf("ListHashSlotMigrationOutbox: %v", err)
	}
	var want []verifC39Row
	for p, r := range w.outbox {
		if !w.acked[p] {
			want = append(want, r)
		}
	}
	if len(rows) != len(want) {
		w.fail("source outbox holds %d rows, want %d (every accepted delta-phase write whose own row was not acked)", len(rows), len(want))
	}
	for i, r := range rows {
		if r.SourceIndex != want[i].idx || !bytes.Equal(r.Data, want[i].data) {
			w.fail("source outbox row %d is (index %d, %d bytes), want (index %d, %d bytes)", i, r.SourceIndex, len(r.Data), want[i].idx, len(want[i].data))
		}
	}
	w.expectMigState()
}

// expectMigState: once the migration produced an outbox row, the durable
// migration state names the last outbox index, the fence index (0 = not fenced)
// and the highest acked index.
func (w *verifC39World) expectMigState() {
	if w.cleaned || len(w.outbox) == 0 {
		return
	}
	maxAcked := uint64(0)
	for p, r := range w.outbox {
		if w.acked[p] {
			maxAcked = r.idx
		}
	}
	last := w.outbox[len(w.outbox)-1].idx
	st, ok := w.migState()
	if !ok || st.SourceSlot != verifC39Src || st.TargetSlot != verifC39Tgt || st.LastOutboxIndex != last || st.FenceIndex != w.fenceIdx || st.LastAckedIndex != maxAcked {
		w.fail("durable migration state is %+v (present=%v), want source %d target %d LastOutboxIndex %d FenceIndex %d LastAckedIndex %d",
			st, ok, verifC39Src, verifC39Tgt, last, w.fenceIdx, maxAcked)
	}
}

func (w *verifC39World) expectAppliedRecords() {
	recs, err := w.dbT.ListAppliedHashSlotDeltas(context.Background(), verifC39H)
	if err != nil {
		w.rt.Fatalf("ListAppliedHashSlotDeltas: %v", err)
	}
	var want []uint64
	for i, a := range w.applied {
		if a {
			want = append(want, w.outbox[i].idx)
		}
	}
	var got []uint64
	for _, r := range recs {
		if r.SourceSlot != verifC39Src {
			w.fail("applied-delta record for foreign source slot %d", r.SourceSlot)
		}
		got = append(got, r.SourceIndex)
	}
	sort.Slice(got, func(i, j int) bool { return got[i] < got[j] })
	if fmt.Sprint(got) != fmt.Sprint(want) {
		w.fail("durable applied-delta records on the target are %v, want exactly one per first-delivered delta %v", got, want)
	}
}

// footprints names the keys of the migrating hash slot a row touches; rows
// with disjoint footprints commute (the subscriber count lives in the channel
// row, so channel upserts and subscriber changes of one channel share a
// footprint; channel-latest rows are a table of their own). The fence marker
// changes nothing at the target.
func (r verifC39Row) footprints() []string {
	if r.write == nil {
		return nil
	}
	switch r.write.kind {
	case "user":
		return []string{"u:" + r.write.user.UID}
	case "channel":
		return []string{"c:" + r.write.ch.ChannelID}
	case "latest", "latestBatch":
		var out []string
		for _, it := range r.write.items {
			if it.HashSlot == verifC39H {
				out = append(out, "l:"+it.Latest.ChannelID)
			}
		}
		return out
	}
	return []string{"c:" + r.write.chID}
}

// canFirstDeliver: position p may be applied at the target for the first time
// when every earlier row that is still undelivered touches different keys.
func (w *verifC39World) canFirstDeliver(p int) (ok bool, overtakes bool) {
	fps := w.outbox[p].footprints()
	for q := 0; q < p; q++ {
		if w.applied[q] {
			continue
		}
		overtakes = true
		for _, a := range fps {
			for _, b := range w.outbox[q].footprints() {
				if a == b {
					return false, true
				}
			}
		}
	}
	return true, overtakes
}

// ---- commands of the target's own hash slot that share a batch with deltas

var verifC39TaskChans = []string{"mc0", "mc1"}

type verifC39Sib struct {
	kind string // own | claimMissing | claimStale | create
	wr   verifC39Write
	task metadb.ChannelMigrationTask
	data []byte
	want string // expected result; "" = any result that is not a refusal
}

func verifC39Task(ch string, variant int) metadb.ChannelMigrationTask {
	return metadb.ChannelMigrationTask{
		TaskID: "task-" + ch, Kind: metadb.ChannelMigrationKindReplicaReplace,
		Status: metadb.ChannelMigrationStatusPending, Phase: metadb.ChannelMigrationPhaseValidate,
		ChannelID: ch, ChannelType: 1, SourceNode: 2, TargetNode: 3, DesiredLeader: 1,
		BaseChannelEpoch: 10, BaseLeaderEpoch: 20,
		CreatedAtMS: 1750000000000 + int64(variant), UpdatedAtMS: 1750000000000 + int64(variant),
	}
}

func verifC39Claim(t metadb.ChannelMigrationTask, staleBy int64, now int64) metadb.ChannelMigrationTaskClaim {
	return metadb.ChannelMigrationTaskClaim{
		Guard: metadb.ChannelMigrationTaskGuard{ChannelID: t.ChannelID, ChannelType: t.ChannelType, TaskID: t.TaskID,
			ExpectedStatus: t.Status, ExpectedPhase: t.Phase, ExpectedOwnerNodeID: t.OwnerNodeID,
			ExpectedOwnerLeaseUntilMS: t.OwnerLeaseUntilMS, ExpectedUpdatedAtMS: t.UpdatedAtMS + staleBy},
		Status: metadb.ChannelMigrationStatusRunning, Phase: t.Phase, OwnerNodeID: 7,
		OwnerLeaseUntilMS: now + 5000, NowMS: now, UpdatedAtMS: now,
	}
}

// genSiblings draws the commands of hash slot 7 that the target's Raft group
// happens to commit together with the delta commands.
func (w *verifC39World) genSiblings() []*verifC39Sib {
	rt := w.rt
	mix := rapid.IntRange(0, 9).Draw(rt, "batchMix")
	if mix < 4 {
		return nil
	}
	var sibs []*verifC39Sib
	nOwn := rapid.IntRange(0, 2).Draw(rt, "nOwnWrites")
	if mix < 6 && nOwn == 0 {
		nOwn = 1
	}
	for i := 0; i < nOwn; i++ {
		wr := verifC39GenWrite(rt, &w.serial, verifC39TgtOwn, -1)
		sibs = append(sibs, &verifC39Sib{kind: "own", wr: wr, data: wr.encode()})
	}
	if mix >= 6 {
		nCond := 1
		if rapid.IntRange(0, 9).Draw(rt, "secondCond") < 2 {
			nCond = 2
		}
		chans := rapid.Permutation(verifC39TaskChans).Draw(rt, "condChans")
		for i := 0; i < nCond; i++ {
			ch := chans[i]
			w.now += 10
			switch rapid.IntRange(0, 4).Draw(rt, "condKind") {
			case 0, 1: // claim of a task nobody created: the guard fails when the batch commits
				t := verifC39Task(ch, 0)
				t.TaskID = fmt.Sprintf("missing-%d", w.now)
				sibs = append(sibs, &verifC39Sib{kind: "claimMissing", task: t, data: EncodeClaimChannelMigrationTaskCommand(verifC39Claim(t, 0, w.now))})
			case 2: // claim with a stale guard (only possible once the task exists)
				if t, ok := w.tasks[ch]; ok {
					sibs = append(sibs, &verifC39Sib{kind: "claimStale", task: t, data: EncodeClaimChannelMigrationTaskCommand(verifC39Claim(t, 1, w.now))})
					break
				}
				fallthrough
			default: // create: new, identical re-create, or conflicting re-create (fails at commit)
				t := verifC39Task(ch, rapid.IntRange(0, 2).Draw(rt, "taskVariant"))
				sibs = append(sibs, &verifC39Sib{kind: "create", task: t, data: EncodeCreateChannelMigrationTaskCommand(t)})
			}
		}
	}
	return sibs
}

// verifC39Ctx is a context that reports cancellation after a generated number
// of Err() calls (the runtime's apply context is cancelled on shutdown).
type verifC39Ctx struct {
	context.Context
	left    *int
	tripped *bool
}

func (c verifC39Ctx) Err() error {
	if *c.left <= 0 {
		*c.tripped = true
		return context.Canceled
	}
	*c.left--
	return nil
}

func (w *verifC39World) checkOwn(what string) {
	w.checkEqual(what+" (target's own hash slot)", w.dbT, verifC39TgtOwn, w.own)
	for _, ch := range verifC39TaskChans {
		want, wantOK := w.tasks[ch]
		got, err := w.dbT.ForHashSlot(verifC39TgtOwn).GetChannelMigrationTask(context.Background(), ch, 1, "task-"+ch)
		if errors.Is(err, metadb.ErrNotFound) {
			if wantOK {
				w.fail("%s: channel-migration task of %s is missing in the target's own hash slot", what, ch)
			}
			continue
		}
		if err != nil {
			w.rt.Fatalf("GetChannelMigrationTask: %v", err)
		}
		if !wantOK || got != want {
			w.fail("%s: channel-migration task of %s is %+v, want %+v (present=%v)", what, ch, got, want, wantOK)
		}
	}
}

// deliver sends the outbox rows at the given positions (in this order) to
// the target as apply_delta commands in ONE batch - together with generated
// commands of the target's own hash slot - and judges the outcome.
func (w *verifC39World) deliver(what string, positions []int) {
	rt := w.rt
	seenInBatch := map[int]bool{}
	for _, p := range positions {
		if w.applied[p] || seenInBatch[p] {
			w.nDup++
			if seenInBatch[p] {
				w.nDupInBatch++
			}
			if w.phase == 3 {
				w.nDupAfterSwitch++
			}
			if w.sinceRestartT {
				w.nDupAfterRestart++
			}
		}
		seenInBatch[p] = true
	}
	type item struct {
		pos int
		sib *verifC39Sib
	}
	items := make([]item, 0, len(positions)+3)
	for _, p := range positions {
		items = append(items, item{pos: p})
	}
	sibs := w.genSiblings()
	for _, sb := range sibs {
		at := rapid.IntRange(0, len(items)).Draw(rt, "sibAt")
		items = append(items[:at], append([]item{{pos: -1, sib: sb}}, items[at:]...)...)
	}

	// reference, in batch order: first deliveries apply once; duplicates are
	// no-ops; own-hash-slot commands behave as if applied one after the other
	cmds := make([]multiraft.Command, 0, len(items))
	prefixStates := []string{w.tmodel.describe()}
	firsts, commitFails, descr := 0, 0, make([]string, 0, len(items))
	createdInBatch := map[string]bool{}
	for _, it := range items {
		w.tIdx++
		if it.sib == nil {
			row := w.outbox[it.pos]
			cmds = append(cmds, multiraft.Command{SlotID: verifC39Tgt, HashSlot: verifC39H, Index: w.tIdx, Term: 1,
				Data: EncodeApplyDeltaCommand(verifC39Src, row.idx, verifC39H, row.data)})
			descr = append(descr, fmt.Sprint(it.pos))
			if !w.applied[it.pos] {
				if ok, over := w.canFirstDeliver(it.pos); !ok {
					rt.Fatalf("VERIF-MACHINERY harness delivered outbox position %d before an undelivered earlier write to the same key", it.pos)
				} else if over {
					w.nOvertake++
				}
				w.applied[it.pos] = true
				firsts++
				if wr := row.write; wr != nil {
					w.tmodel.apply(*wr)
					if wr.kind == "latestBatch" && wr.splitRows(verifC39H) {
						w.nLatestSplitFirst++
					}
				}
				prefixStates = append(prefixStates, w.tmodel.describe())
			}
			continue
		}
		sb := it.sib
		sibHS := verifC39TgtOwn
		if sb.kind == "own" {
			sibHS = sb.wr.envelope()
		}
		cmds = append(cmds, multiraft.Command{SlotID: verifC39Tgt, HashSlot: sibHS, Index: w.tIdx, Term: 1, Data: sb.data})
		switch sb.kind {
		case "own":
			w.own.apply(sb.wr)
			descr = append(descr, "own:"+sb.wr.String())
		case "claimMissing", "claimStale":
			sb.want = ApplyResultStaleMeta
			commitFails++
			descr = append(descr, sb.kind)
		case "create":
			ex, exists := w.tasks[sb.task.ChannelID]
			switch {
			case !exists:
				w.tasks[sb.task.ChannelID] = sb.task
				createdInBatch[sb.task.ChannelID] = true
				sb.want = ApplyResultOK
				w.nCondOK++
				descr = append(descr, "create-new")
			case ex == sb.task:
				sb.want = ApplyResultOK
				w.nCondOK++
				descr = append(descr, "create-same")
			default:
				sb.want = ApplyResultStaleMeta
				if !createdInBatch[sb.task.ChannelID] {
					commitFails++ // the conflict is with a committed row: it shows only when the batch commits
				}
				descr = append(descr, "create-conflict")
			}
		}
	}
	if len(sibs) > 0 {
		w.nMixed++
	}
	if commitFails > 0 && len(cmds) > 1 {
		if firsts > 0 {
			w.nSplitFirst++
		} else {
			w.nSplitDup++
		}
	}

	bg := context.Background()
	var out [][]byte
	var err error
	entry := fmt.Sprintf("%s%v", what, descr)
	if rapid.IntRange(0, 9).Draw(rt, "applyFault") < 2 {
		// the apply context is cancelled somewhere inside the batch
		left, tripped := rapid.IntRange(0, 3*len(cmds)+2).Draw(rt, "cancelAfter"), false
		out, err = w.tgt.ApplyBatch(verifC39Ctx{Context: bg, left: &left, tripped: &tripped}, cmds)
		if err != nil {
			if !tripped {
				w.log = append(w.log, entry)
				w.fail("target refused batch %v: %v", descr, err)
			}
			w.nFaultErr++
			if firsts > 0 {
				w.nFaultFirst++
			}
			// nothing or a prefix of the batch (commit-time split) may be durable
			got := verifC39ReadHS(rt, w.dbT, verifC39H).describe()
			at := -1
			for i, st := range prefixStates {
				if st == got {
					at = i
				}
			}
			if at < 0 {
				w.log = append(w.log, entry+"!cancelled")
				w.fail("after a cancelled apply batch the target's rows are neither the old state nor a prefix of the batch\n  have: %s", got)
			}
			if at > 0 {
				w.nFaultPartial++
			}
			if rapid.Bool().Draw(rt, "retryOnSameInstance") {
				w.nFaultSame++
				entry += "!cancelled-retry"
			} else {
				w.restartTarget()
				w.nFaultRestart++
				entry += "!cancelled-reopen-retry"
			}
			out, err = w.tgt.ApplyBatch(bg, cmds)
		}
	} else {
		out, err = w.tgt.ApplyBatch(bg, cmds)
	}
	w.log = append(w.log, entry)
	if err != nil {
		w.fail("target refused batch %v: %v", descr, err)
	}
	if len(out) != len(cmds) {
		w.fail("batch of %d commands answered %d results", len(cmds), len(out))
	}
	for i, it := range items {
		r := string(out[i])
		switch {
		case it.sib == nil:
			if r != ApplyResultOK {
				w.fail("apply_delta for outbox position %d answered %q", it.pos, r)
			}
		case it.sib.want == "":
			if r == ApplyResultStaleMeta || r == ApplyResultHashSlotFenced {
				w.fail("ordinary write %s to the target's own hash slot answered %q", it.sib.wr, r)
			}
		case r != it.sib.want:
			w.fail("%s command in the target's own hash slot answered %q, want %q", it.sib.kind, r, it.sib.want)
		}
	}
	w.checkEqual("after "+what, w.dbT, verifC39H, w.tmodel)
	w.expectAppliedRecords()
	if len(sibs) > 0 {
		w.checkOwn("after " + what)
	}
}

func (w *verifC39World) firstUnapplied() int {
	for i, a := range w.applied {
		if !a {
			return i
		}
	}
	return len(w.applied)
}

// pump: the orchestrator lists the outbox after its cursor and delivers up
// to k rows, optionally mixing in duplicates of earlier deltas.
func (w *verifC39World) pump(k int, dups []int, repeatFirst ...int) bool {
	rows, err := w.dbS.ListHashSlotMigrationOutbox(context.Background(), verifC39H, verifC39Src, verifC39Tgt, w.cursorIdx, k)
	if err != nil {
		w.rt.Fatalf("ListHashSlotMigrationOutbox: %v", err)
	}
	var positions []int
	for _, r := range rows {
		p := sort.Search(len(w.outbox), func(i int) bool { return w.outbox[i].idx >= r.SourceIndex })
		if p >= len(w.outbox) || w.outbox[p].idx != r.SourceIndex || !bytes.Equal(w.outbox[p].data, r.Data) {
			w.fail("outbox lists row index %d (%d bytes) that no accepted write produced", r.SourceIndex, len(r.Data))
		}
		positions = append(positions, p)
	}
	// rows the listing must contain
	var expect []int
	for p, r := range w.outbox {
		if !w.cleaned && r.idx > w.cursorIdx && !w.acked[p] && len(expect) < k {
			expect = append(expect, p)
		}
	}
	if fmt.Sprint(positions) != fmt.Sprint(expect) {
		w.fail("outbox listing after index %d returned positions %v, want %v (an accepted write is missing from the outbox)", w.cursorIdx, positions, expect)
	}
	if len(positions) == 0 && len(dups) == 0 {
		return false
	}
	batch := append([]int(nil), positions...)
	for _, d := range dups {
		at := 0
		if len(batch) > 0 {
			at = d % (len(batch) + 1)
		}
		// a duplicate may only precede first deliveries it does not overtake: insert applied ones anywhere
		batch = append(batch[:at], append([]int{d}, batch[at:]...)...)
	}
	// the same new delta again later in the same batch (after the rows that follow it)
	for _, r := range repeatFirst {
		if r < 0 && len(positions)+r >= 0 { // counted from the end of the listing
			batch = append(batch, positions[len(positions)+r])
		} else if r >= 0 && len(positions) > 0 {
			batch = append(batch, positions[r%len(positions)])
		}
	}
	w.deliver("pump", batch)
	if len(positions) > 0 {
		w.cursorIdx = w.outbox[positions[len(positions)-1]].idx
	}
	w.nPump++
	return true
}

func (w *verifC39World) appliedPositions() []int {
	var out []int
	for i, a := range w.applied {
		if a {
			out = append(out, i)
		}
	}
	return out
}

// ---------------------------------------------------------------- actions

func (w *verifC39World) actWriteH(rt *rapid.T) {
	w.rt = rt
	other := int(verifC39Ctl) // the second hash slot of whichever slot owns the migrating one
	if w.phase == 3 {
		other = int(verifC39TgtOwn)
	}
	w.writeH(rt, verifC39GenWrite(rt, &w.serial, verifC39H, other), w.drawFwd("liveForward"))
}

// actSrcBatch: several commands reach the source state machine in one apply
// batch; when the fence is due it may be one of them, at any position.
func (w *verifC39World) actSrcBatch(rt *rapid.T) {
	w.rt = rt
	if w.phase == 3 {
		rt.Skip()
	}
	if w.fenceDue() && rapid.IntRange(0, 9).Draw(rt, "batchWithFence") < 4 {
		w.fence()
		return
	}
	n := rapid.IntRange(2, 4).Draw(rt, "srcBatchN")
	items, taken := make([]verifC39SrcItem, 0, n), map[int]bool{}
	for i := 0; i < n; i++ {
		items = append(items, w.genSrcItem(w.phase == 2, taken))
	}
	w.srcBatch(items)
}

func (w *verifC39World) fenceDue() bool {
	return (w.phase == 0 && w.stopVar) || (w.phase == 1 && w.nDeltaWrites >= w.wantDelta)
}

// actBurst: several delta-phase writes to the SAME key with different values,
// none delivered live, then one replay batch that carries the first of them
// again at its end (a retry inside one batch must not overtake newer deltas).
func (w *verifC39World) actBurst(rt *rapid.T) {
	w.rt = rt
	if w.phase != 1 {
		rt.Skip()
	}
	kind := rapid.IntRange(0, 2).Draw(rt, "burstKind")
	uid := rapid.SampledFrom(verifC39UIDs).Draw(rt, "burstUID")
	ch := rapid.SampledFrom(verifC39Chans).Draw(rt, "burstCh")
	n := rapid.IntRange(2, 3).Draw(rt, "burstN")
	for i := 0; i < n; i++ {
		w.serial++
		var wr verifC39Write
		switch kind {
		case 0:
			wr = verifC39Write{kind: "user", hs: verifC39H, user: metadb.User{UID: uid, Token: fmt.Sprintf("tok-%d", w.serial), DeviceFlag: int64(i)}}
		case 1:
			wr = verifC39Write{kind: "channel", hs: verifC39H, ch: metadb.Channel{ChannelID: ch, ChannelType: verifC39ChType, Ban: int64(w.serial), Large: int64(i % 2)}}
		default:
			wr = verifC39Write{kind: []string{"addSubs", "removeSubs"}[i%2], hs: verifC39H, chID: ch, uids: []string{uid}}
		}
		w.writeH(rt, wr, verifC39FwdLost)
	}
	w.nBurst++
	w.pump(8, nil, -n)
}

func (w *verifC39World) writeH(rt *rapid.T, wr verifC39Write, fwd int) {
	if w.phase == 3 {
		// the target owns the hash slot now
		w.tIdx++
		out, err := w.tgt.Apply(context.Background(), multiraft.Command{SlotID: verifC39Tgt, HashSlot: wr.envelope(), Index: w.tIdx, Term: 1, Data: wr.encode()})
		w.log = append(w.log, "T:"+wr.String())
		if err != nil || string(out) == ApplyResultHashSlotFenced || string(out) == ApplyResultStaleMeta {
			w.fail("new owner refused an ordinary write after the switch: %q %v", out, err)
		}
		w.model.apply(wr)
		w.tmodel.apply(wr)
		w.nDoneWrites++
		w.checkEqual("after write at the new owner", w.dbT, verifC39H, w.model)
		if wr.touches(verifC39TgtOwn) {
			w.own.apply(wr)
			w.checkEqual("after write at the new owner (its other hash slot)", w.dbT, verifC39TgtOwn, w.own)
		}
		if wr.kind == "latestBatch" && wr.splitRows(verifC39H) {
			w.nLatestSplitNewOwner++
		}
		return
	}
	w.srcBatch([]verifC39SrcItem{{kind: "write", wr: wr, fwd: fwd}})
}

const (
	verifC39FwdLive    = iota // the forward reaches the target at once
	verifC39FwdLost           // the forward fails (the state machine ignores the error); the outbox replay has to carry the row
	verifC39FwdDelayed        // the forward is in the network and arrives later, possibly after newer rows
)

func (w *verifC39World) drawFwd(label string) int {
	switch v := rapid.IntRange(0, 9).Draw(w.rt, label); {
	case v < 5:
		return verifC39FwdLive
	case v < 8:
		return verifC39FwdLost
	}
	return verifC39FwdDelayed
}

// forwardArrives: one live forward reaches the target. A row that would
// overtake an undelivered earlier write to the same key is treated as lost
// (that reordering is outside the contract).
func (w *verifC39World) forwardArrives(what string, pos int) bool {
	if !w.applied[pos] {
		if ok, _ := w.canFirstDeliver(pos); !ok {
			return false
		}
	}
	w.deliver(what, []int{pos})
	// the replay cursor follows only while everything before the row is applied
	if w.outbox[pos].idx > w.cursorIdx && (pos == 0 || w.outbox[pos-1].idx <= w.cursorIdx) {
		w.cursorIdx = w.outbox[pos].idx
	}
	return true
}

// routeForward: the source state machine called the forwarder for the outbox
// row at pos; each forward is delivered, lost or delayed on its own.
func (w *verifC39World) routeForward(pos int, fwd int) {
	switch fwd {
	case verifC39FwdLive:
		if w.forwardArrives("live", pos) {
			w.nLive++
		} else {
			w.nLiveDropped++
		}
	case verifC39FwdDelayed:
		w.inflight = append(w.inflight, pos)
		w.nDelayed++
		w.log = append(w.log, fmt.Sprintf("delayed[%d]", pos))
	default:
		w.nLiveDropped++
	}
}

// actLateForward: a delayed live forward finally reaches the target.
func (w *verifC39World) actLateForward(rt *rapid.T) {
	w.rt = rt
	if len(w.inflight) == 0 {
		rt.Skip()
	}
	i := rapid.IntRange(0, len(w.inflight)-1).Draw(rt, "inflight")
	pos := w.inflight[i]
	w.inflight = append(w.inflight[:i:i], w.inflight[i+1:]...)
	wasApplied := w.applied[pos]
	if !w.forwardArrives("late", pos) {
		w.nLiveDropped++
		w.log = append(w.log, fmt.Sprintf("late-lost[%d]", pos))
		return
	}
	if wasApplied {
		w.nLateFwdDup++
	} else {
		w.nLateFwd++
	}
}

func (w *verifC39World) actWriteCtl(rt *rapid.T) {
	w.rt = rt
	w.srcBatch([]verifC39SrcItem{{kind: "write", wr: verifC39GenWrite(rt, &w.serial, verifC39Ctl, -1)}})
}

func (w *verifC39World) actMisrouted(rt *rapid.T) {
	w.rt = rt
	if w.phase == 3 {
		wr := verifC39GenWrite(rt, &w.serial, verifC39H, int(verifC39Ctl))
		before := verifC39ReadHS(rt, w.dbS, verifC39H)
		res, err := w.srcApply(wr.envelope(), wr.encode())
		w.log = append(w.log, "S?"+wr.String())
		if err == nil && res != ApplyResultHashSlotFenced {
			w.fail("old owner accepted ordinary write %s for the hash slot it no longer owns (result %q)", wr, res)
		}
		w.checkEqual("after misrouted write at the old owner", w.dbS, verifC39H, before)
		w.checkEqual("after misrouted write at the old owner (its own hash slot)", w.dbS, verifC39Ctl, w.ctl)
		w.nMisPost++
		return
	}
	wr := verifC39GenWrite(rt, &w.serial, verifC39H, int(verifC39TgtOwn))
	before := verifC39ReadHS(rt, w.dbT, verifC39H)
	w.tIdx++
	out, err := w.tgt.Apply(context.Background(), multiraft.Command{SlotID: verifC39Tgt, HashSlot: wr.envelope(), Index: w.tIdx, Term: 1, Data: wr.encode()})
	w.log = append(w.log, "T?"+wr.String())
	if err == nil {
		w.fail("slot %d accepted ordinary write %s for hash slot %d it does not own (result %q)", verifC39Tgt, wr, verifC39H, out)
	}
	w.checkEqual("after misrouted write at the future owner", w.dbT, verifC39H, before)
	w.checkEqual("after misrouted write at the future owner (its own hash slot)", w.dbT, verifC39TgtOwn, w.own)
	w.nMisPre++
}

func (w *verifC39World) startLive() {
	w.capture, w.fwdOn = true, true
	w.installSourceHooks()
	w.snapshotToTarget()
	w.phase = 1
	w.log = append(w.log, "START-DELTA")
}

func (w *verifC39World) snapshotToTarget() {
	ctx := context.Background()
	snap, err := w.src.ExportHashSlotSnapshot(ctx, verifC39H)
	if err != nil {
		w.rt.Fatalf("VERIF-MACHINERY export snapshot: %v", err)
	}
	if err := w.tgt.ImportHashSlotSnapshot(ctx, snap); err != nil {
		w.rt.Fatalf("VERIF-MACHINERY import snapshot: %v", err)
	}
	w.tmodel = w.model.clone()
	w.checkEqual("after snapshot import", w.dbT, verifC39H, w.tmodel)
}

// fence issues the enter-fence command: on its own, or in one source apply
// batch with commands ordered before and after it (a client write racing with
// the fence proposal is enough for that).
func (w *verifC39World) fence() {
	rt := w.rt
	before, after := 0, 0
	if rapid.IntRange(0, 9).Draw(rt, "fenceCompany") >= 4 {
		before, after = rapid.IntRange(0, 2).Draw(rt, "beforeFence"), rapid.IntRange(0, 2).Draw(rt, "afterFence")
	}
	var items []verifC39SrcItem
	taken := map[int]bool{}
	for i := 0; i < before; i++ {
		items = append(items, w.genSrcItem(false, taken))
	}
	items = append(items, verifC39SrcItem{kind: "fence", fwd: w.drawFwd("liveFence")})
	for i := 0; i < after; i++ {
		items = append(items, w.genSrcItem(true, taken))
	}
	w.srcBatch(items)
	if w.phase != 2 {
		rt.Fatalf("VERIF-MACHINERY fence batch left the harness in phase %d", w.phase)
	}
}

func (w *verifC39World) switchOwnership() {
	for w.firstUnapplied() < len(w.outbox) {
		if !w.pump(4, nil) {
			w.fail("orchestrator cannot drain: outbox listing is empty but %d deltas are undelivered", len(w.outbox)-w.firstUnapplied())
		}
	}
	if g, e := w.tmodel.describe(), w.model.describe(); g != e {
		w.rt.Fatalf("VERIF-MACHINERY harness models disagree at the switch:\n target ref: %s\n source ref: %s", g, e)
	}
	w.checkEqual("at the switch (source)", w.dbS, verifC39H, w.model)
	w.checkEqual("at the switch (target)", w.dbT, verifC39H, w.model)
	w.srcOwned = []uint16{verifC39Ctl}
	w.tgtOwned = []uint16{verifC39TgtOwn, verifC39H}
	w.capture, w.fwdOn = false, false
	w.src.UpdateOwnedHashSlots(w.srcOwned)
	w.src.UpdateOutgoingDeltaTargets(nil)
	w.tgt.UpdateOwnedHashSlots(w.tgtOwned)
	w.tgt.UpdateIncomingDeltaHashSlots(nil)
	w.phase = 3
	w.srcAtSwitch = w.model.clone()
	w.log = append(w.log, "SWITCH")
}

func (w *verifC39World) actAdvance(rt *rapid.T) {
	w.rt = rt
	switch w.phase {
	case 0:
		if w.stopVar {
			w.fence()
		} else {
			w.startLive()
		}
	case 1:
		if w.nDeltaWrites < w.wantDelta {
			rt.Skip()
		}
		w.fence()
	case 2:
		if w.nFenced == 0 && rapid.IntRange(0, 9).Draw(rt, "switchEarly") < 7 {
			rt.Skip()
		}
		w.switchOwnership()
	default:
		w.actCleanup(rt)
	}
}

func (w *verifC39World) actPump(rt *rapid.T) {
	w.rt = rt
	if w.phase == 0 || (w.phase == 2 && !w.capture && w.tmodel == nil) {
		rt.Skip()
	}
	k := rapid.IntRange(1, 3).Draw(rt, "pumpK")
	var dups []int
	if ap := w.appliedPositions(); len(ap) > 0 && rapid.IntRange(0, 9).Draw(rt, "withDups") < 4 {
		n := rapid.IntRange(1, 2).Draw(rt, "nDups")
		for i := 0; i < n; i++ {
			dups = append(dups, rapid.SampledFrom(ap).Draw(rt, "dupPos"))
		}
	}
	var rep []int
	if rapid.IntRange(0, 9).Draw(rt, "repeatInBatch") < 3 {
		rep = append(rep, rapid.IntRange(0, 2).Draw(rt, "repeatWhich"))
	}
	if !w.pump(k, dups, rep...) {
		rt.Skip()
	}
}

func (w *verifC39World) actDup(rt *rapid.T) {
	w.rt = rt
	ap := w.appliedPositions()
	if len(ap) == 0 {
		rt.Skip()
	}
	n := rapid.IntRange(1, 3).Draw(rt, "nDups")
	var batch []int
	for i := 0; i < n; i++ {
		batch = append(batch, rapid.SampledFrom(ap).Draw(rt, "dupPos"))
	}
	w.deliver("dup", batch)
}

// ackedPrefixEnd is the source index up to which every row is acked.
func (w *verifC39World) ackedPrefixEnd() uint64 {
	end := uint64(0)
	for p, r := range w.outbox {
		if !w.acked[p] {
			break
		}
		end = r.idx
	}
	return end
}

func (w *verifC39World) ackRow(rt *rapid.T, p int) {
	idx := w.outbox[p].idx
	if rapid.Bool().Draw(rt, "replicatedAck") {
		res, err := w.srcApply(verifC39H, EncodeAckHashSlotMigrationOutboxCommand(verifC39H, verifC39Src, verifC39Tgt, idx))
		if err != nil || res != ApplyResultOK {
			w.fail("replicated ack of index %d answered %q %v", idx, res, err)
		}
	} else if err := w.src.AckHashSlotMigrationOutbox(context.Background(), verifC39H, verifC39Src, verifC39Tgt, idx); err != nil {
		w.fail("ack of index %d failed: %v", idx, err)
	}
}

// actAck: acks are per row and only for rows the target has applied. They
// come in source order or - a later forward was confirmed while an earlier row
// is still unconfirmed or even undelivered - out of order.
func (w *verifC39World) actAck(rt *rapid.T) {
	w.rt = rt
	if w.cleaned {
		rt.Skip()
	}
	var cand, gapCand, ackedRows []int
	gap := false
	for p := range w.outbox {
		switch {
		case w.acked[p]:
			ackedRows = append(ackedRows, p)
		case w.applied[p]:
			cand = append(cand, p)
			if gap {
				gapCand = append(gapCand, p)
			}
			gap = true
		default:
			gap = true
		}
	}
	if len(cand) == 0 {
		if len(ackedRows) == 0 {
			rt.Skip()
		}
		// duplicate ack of an already acked row
		idx := w.outbox[rapid.SampledFrom(ackedRows).Draw(rt, "dupAckPos")].idx
		if _, err := w.srcApply(verifC39H, EncodeAckHashSlotMigrationOutboxCommand(verifC39H, verifC39Src, verifC39Tgt, idx)); err != nil {
			w.fail("duplicate replicated ack of index %d failed: %v", idx, err)
		}
		w.log = append(w.log, "DUPACK")
		w.nDupAck++
		w.expectOutbox()
		return
	}
	var picks []int
	if len(gapCand) > 0 && rapid.IntRange(0, 9).Draw(rt, "ackOutOfOrder") < 6 {
		picks = []int{rapid.SampledFrom(gapCand).Draw(rt, "ackPos")}
	} else {
		picks = cand[:rapid.IntRange(1, len(cand)).Draw(rt, "ackN")]
	}
	for _, p := range picks {
		undelivered, unacked := false, false
		for q := 0; q < p; q++ {
			undelivered = undelivered || !w.applied[q]
			unacked = unacked || !w.acked[q]
		}
		if undelivered {
			w.nAckOverUndelivered++
		} else if unacked {
			w.nAckGap++
		}
		w.ackRow(rt, p)
		w.acked[p] = true
		w.nAck++
		w.log = append(w.log, fmt.Sprintf("ACK[%d]", p))
		w.expectOutbox()
	}
	maxAcked := uint64(0)
	for p, r := range w.outbox {
		if w.acked[p] {
			maxAcked = r.idx
		}
	}
	if st, ok := w.migState(); !ok || st.LastAckedIndex != maxAcked {
		w.fail("migration state after acks is %+v (present=%v), want LastAckedIndex %d", st, ok, maxAcked)
	}
}

func (w *verifC39World) actOrchRestart(rt *rapid.T) {
	w.rt = rt
	if w.phase == 0 || w.cleaned {
		rt.Skip()
	}
	// a restarted orchestrator replays whatever is still in the outbox: its
	// cursor falls back to the end of the acked prefix (acks are per row, so
	// LastAckedIndex alone does not say that everything before it is done)
	old := w.cursorIdx
	w.cursorIdx = w.ackedPrefixEnd()
	if w.cursorIdx == old {
		rt.Skip()
	}
	w.nOrchRestart++
	w.log = append(w.log, "ORCH-RESTART")
}

func (w *verifC39World) restartTarget() {
	w.tgt = w.newSM(w.dbT, verifC39Tgt, w.tgtOwned)
	if w.phase == 1 || w.phase == 2 {
		w.tgt.UpdateIncomingDeltaHashSlots([]uint16{verifC39H})
	}
	w.sinceRestartT = true
	w.nRestartT++
}

func (w *verifC39World) actRestartTarget(rt *rapid.T) {
	w.rt = rt
	w.restartTarget()
	w.log = append(w.log, "RESTART-T")
}

func (w *verifC39World) actRestartSource(rt *rapid.T) {
	w.rt = rt
	w.src = w.newSM(w.dbS, verifC39Src, w.srcOwned)
	w.installSourceHooks()
	w.nRestartS++
	w.log = append(w.log, "RESTART-S")
}

func (w *verifC39World) actReFence(rt *rapid.T) {
	w.rt = rt
	if w.phase != 2 {
		rt.Skip()
	}
	before, _ := w.migState()
	data := EncodeEnterFenceCommandForTarget(verifC39H, verifC39Tgt)
	if w.capture && rapid.Bool().Draw(rt, "plainFence") {
		data = EncodeEnterFenceCommand(verifC39H)
	}
	w.srcBatch([]verifC39SrcItem{{kind: "refence", data: data}})
	after, _ := w.migState()
	if before != after {
		w.fail("re-issued EnterFence changed the migration state from %+v to %+v", before, after)
	}
}

func (w *verifC39World) actCleanup(rt *rapid.T) {
	w.rt = rt
	if w.phase != 3 || w.cleaned || len(w.outbox) == 0 {
		rt.Skip()
	}
	through := w.outbox[len(w.outbox)-1].idx
	if rapid.Bool().Draw(rt, "replicatedCleanup") {
		res, err := w.srcApply(verifC39H, EncodeCleanupHashSlotMigrationOutboxCommand(verifC39H, verifC39Src, verifC39Tgt, through))
		if err != nil || res != ApplyResultOK {
			w.fail("replicated cleanup answered %q %v", res, err)
		}
	} else if err := w.src.CleanupHashSlotMigrationOutbox(context.Background(), verifC39H, verifC39Src, verifC39Tgt, through); err != nil {
		w.fail("cleanup failed: %v", err)
	}
	w.cleaned = true
	w.log = append(w.log, "CLEANUP")
}

// finish completes the migration and runs the end-of-migration oracle.
func (w *verifC39World) finish(rt *rapid.T) {
	w.rt = rt
	if w.phase == 0 {
		if w.stopVar {
			w.fence()
		} else {
			w.startLive()
		}
	}
	if w.phase == 1 {
		w.fence()
	}
	if w.phase == 2 {
		w.switchOwnership()
	}
	// every delta once more, in one batch, after the switch
	if ap := w.appliedPositions(); len(ap) > 0 {
		w.deliver("final-replay", ap)
	}
	w.checkEqual("end (target holds every accepted write exactly once)", w.dbT, verifC39H, w.model)
	w.checkOwn("end")
	w.checkEqual("end (control hash slot on the source)", w.dbS, verifC39Ctl, w.ctl)
	if got := verifC39ReadHS(rt, w.dbT, verifC39Ctl); !got.empty() {
		w.fail("target holds rows of the non-migrating hash slot: %s", got.describe())
	}
	w.expectAppliedRecords()
}

func TestVerifC39Migration(t *testing.T) {
	kit.Check(t, "C39", func(rt *rapid.T, k *kit.Case) {
		restore := verifC39UseMemFS()
		defer restore()
		dbS, err := metadb.Open("c39-source")
		if err != nil {
			rt.Fatalf("VERIF-MACHINERY open: %v", err)
		}
		defer dbS.Close()
		dbT, err := metadb.Open("c39-target")
		if err != nil {
			rt.Fatalf("VERIF-MACHINERY open: %v", err)
		}
		defer dbT.Close()
		w := &verifC39World{rt: rt, dbS: dbS, dbT: dbT, srcOwned: []uint16{verifC39H, verifC39Ctl}, tgtOwned: []uint16{verifC39TgtOwn},
			model: verifC39NewModel(verifC39H), ctl: verifC39NewModel(verifC39Ctl), own: verifC39NewModel(verifC39TgtOwn), tasks: map[string]metadb.ChannelMigrationTask{},
			now: 1750000001000, stopVar: rapid.IntRange(0, 9).Draw(rt, "variant") < 2,
			wantDelta: rapid.IntRange(0, 7).Draw(rt, "wantDelta")}
		w.src = w.newSM(dbS, verifC39Src, w.srcOwned)
		w.tgt = w.newSM(dbT, verifC39Tgt, w.tgtOwned)
		w.sIdx = uint64(rapid.IntRange(0, 50).Draw(rt, "srcIndexBase"))
		w.tIdx = uint64(rapid.IntRange(0, 200).Draw(rt, "tgtIndexBase"))
		rt.Repeat(map[string]func(*rapid.T){
			"writeH":        w.actWriteH,
			"writeH2":       w.actWriteH,
			"writeH3":       w.actWriteH,
			"writeCtl":      w.actWriteCtl,
			"misrouted":     w.actMisrouted,
			"advance":       w.actAdvance,
			"advance2":      w.actAdvance,
			"writeH4":       w.actWriteH,
			"pump":          w.actPump,
			"pump2":         w.actPump,
			"dup":           w.actDup,
			"ack":           w.actAck,
			"orchRestart":   w.actOrchRestart,
			"restartTarget": w.actRestartTarget,
			"restartSource": w.actRestartSource,
			"reFence":       w.actReFence,
			"burst":         w.actBurst,
			"lateForward":   w.actLateForward,
			"ack2":          w.actAck,
			"srcBatch":      w.actSrcBatch,
			"srcBatch2":     w.actSrcBatch,
		})
		dupsBeforeFinish, dupsAfterSwitch := w.nDup, w.nDupAfterSwitch
		w.finish(rt)

		k.Key(strings.Join(w.log, ";"))
		k.SetNonTrivial(!w.stopVar && w.nDeltaWrites > 0 && w.nFenced > 0 && dupsBeforeFinish > 0)
		k.LabelIf(w.stopVar, "stop-the-world variant (fence, then snapshot)")
		k.LabelIf(!w.stopVar, "live variant (snapshot, deltas, fence)")
		k.LabelIf(w.nPreWrites > 0, "writes before the migration (carried by the snapshot)")
		k.LabelIf(w.nDeltaWrites > 0, "writes in the delta phase")
		k.LabelIf(w.nDeltaWrites >= 5, ">= 5 writes in the delta phase")
		k.LabelIf(w.nFenced > 0, "writes refused while fenced")
		k.LabelIf(w.nDoneWrites > 0, "writes at the new owner after the switch")
		k.LabelIf(w.nLive > 0, "delta delivered by the live forwarder")
		k.LabelIf(w.nLiveDropped > 0, "live forward lost (outbox replay carries it)")
		k.LabelIf(w.nPump > 0, "outbox replay delivered rows")
		k.LabelIf(dupsBeforeFinish > 0, "duplicate deltas delivered (besides the final replay)")
		k.LabelIf(w.nDupInBatch > 0, "same delta twice in one batch")
		k.LabelIf(w.nBurst > 0, "same-key burst replayed with an in-batch retry of its first delta")
		k.LabelIf(w.nDupAfterRestart > 0, "duplicate delta after a target restart")
		k.LabelIf(dupsAfterSwitch > 0, "duplicate delta after the switch (besides the final replay)")
		k.LabelIf(w.nOrchRestart > 0, "orchestrator restart (cursor back to the end of the acked prefix)")
		k.LabelIf(w.nRestartS > 0, "source state machine restart")
		k.LabelIf(w.nAck > 0, "outbox rows acked")
		k.LabelIf(w.nOvertake > 0, "later delta applied while an earlier (commuting) one is undelivered")
		k.LabelIf(w.nDelayed > 0, "live forward delayed")
		k.LabelIf(w.nLateFwd > 0, "delayed forward arrives as first delivery")
		k.LabelIf(w.nLateFwdDup > 0, "delayed forward arrives after the replay delivered the row")
		k.LabelIf(w.nAckOverUndelivered > 0, "row acked while an earlier row is still undelivered")
		k.LabelIf(w.nAckGap > 0, "row acked while an earlier delivered row is unacked")
		k.LabelIf(w.nMixed > 0, "delta batch shared with commands of the target's own hash slot")
		k.LabelIf(w.nSplitFirst > 0, "first-delivery delta in a batch re-applied command by command (sibling guard failed at commit)")
		k.LabelIf(w.nSplitDup > 0, "duplicate-only delta batch re-applied command by command")
		k.LabelIf(w.nCondOK > 0, "conditional sibling command succeeded")
		k.LabelIf(w.nFaultErr > 0, "apply batch cancelled and retried")
		k.LabelIf(w.nFaultFirst > 0, "cancelled batch carried a first-delivery delta")
		k.LabelIf(w.nFaultPartial > 0, "cancelled batch left a durable prefix")
		k.LabelIf(w.nFaultSame > 0, "cancelled batch retried on the same state machine")
		k.LabelIf(w.nFaultRestart > 0, "cancelled batch retried on a re-created state machine")
		k.LabelIf(w.nDupAck > 0, "duplicate ack")
		k.LabelIf(w.nReFence > 0, "fence re-issued")
		k.LabelIf(w.cleaned, "outbox cleaned up after the switch")
		k.LabelIf(w.nMisPre > 0, "ordinary write sent to the future owner before the switch")
		k.LabelIf(w.nMisPost > 0, "ordinary write sent to the old owner after the switch")
		k.LabelIf(w.nCtl > 0, "writes to the non-migrating hash slot")
		k.LabelIf(w.nSrcBatch > 0, "source apply batch of >= 2 commands")
		k.LabelIf(w.nFenceWithLaterH > 0, "fence and a later write for the migrating hash slot in one source apply batch")
		k.LabelIf(w.nFenceWithEarlierH > 0, "fence and an earlier accepted write for the migrating hash slot in one source apply batch")
		k.LabelIf(w.nFenceWithReFence > 0, "fence and a re-issued fence in one source apply batch")
		k.LabelIf(w.nAckInBatch > 0, "replicated ack shares a source apply batch with other commands")
		k.LabelIf(w.nAckThenWrite > 0, "accepted write ordered after an ack in one source apply batch")
		k.LabelIf(w.nLatest > 0, "channel-latest writes accepted for the migrating hash slot")
		k.LabelIf(w.nLatestBatchDelta > 0, "channel-latest batch accepted in the delta phase")
		k.LabelIf(w.nLatestSplitDelta > 0, "delta-phase channel-latest batch with non-contiguous rows of the migrating hash slot")
		k.LabelIf(w.nLatestSplitFirst > 0, "non-contiguous channel-latest batch replayed at the target through apply_delta")
		k.LabelIf(w.nLatestCtlEnvelope > 0, "delta-phase channel-latest batch routed with the other hash slot as envelope")
		k.LabelIf(w.nLatestBatchFenced > 0, "channel-latest batch refused while fenced")
		k.LabelIf(w.nLatestSplitNewOwner > 0, "non-contiguous channel-latest batch at the new owner after the switch")
		logc := append([]string(nil), w.log...)
		k.Sample(func() any { return strings.Join(logc, " ; ") })
	})
}
