package fsm

// Deterministic reproduction of the suspected genuine defect with signature
// verifC17SigResetReopens (see zz_verif_c17_chanmig_test.go), judged by the
// same oracle as the random histories:
//
//   leader transfer 1 -> 2 is created, claimed, fenced, drained, committed
//   (leader becomes 2, task phase VerifyNewLeader); the fence lease expires;
//   ResetChannelWriteFenceToPreCutover (fresh guards, NowMS past the lease)
//   is accepted and moves the committed task back to phase WriteFence; the
//   task is fenced again; AbortChannelMigration is accepted: the committed
//   task ends Aborted.
//
// The same script with a replica replacement (promote instead of commit) is
// run as the second case.

import (
	"testing"

	metadb "github.com/WuKongIM/WuKongIM/pkg/db/meta"
	"pgregory.net/rapid"
	"verif.local/kit"
)

func verifC17ReproScript(rt *rapid.T, k *kit.Case, replace bool) {
	restore := verifC17UseMemFS()
	defer restore()
	db, sm := verifC17Open(rt, "c17-repro")
	defer db.Close()
	w := &verifC17World{db: db, sm: sm, now: verifC17T0, cut: map[string]bool{}, reopened: map[string]bool{}, obs: map[string][]verifC17Obs{}, sentReq: map[string][]*verifC17Req{}}
	for _, ch := range verifC17Channels {
		m := metadb.ChannelRuntimeMeta{ChannelID: ch, ChannelType: verifC17ChType, ChannelEpoch: 3, LeaderEpoch: 5,
			Replicas: []uint64{1, 2, 3}, ISR: []uint64{1, 2, 3}, Leader: 1, MinISR: 2, Status: 1, Features: 1, LeaseUntilMS: verifC17T0 + 10_000}
		if res := w.apply(rt, &verifC17Req{kind: "upsertMeta", channel: ch, meta: &m}, false); res != ApplyResultOK {
			rt.Fatalf("VERIF-MACHINERY initial meta upsert: %q", res)
		}
	}
	ch := verifC17Channels[0]
	st := verifC17Read(rt, db)
	w.cur = &st
	cur := func() (metadb.ChannelMigrationTask, metadb.ChannelRuntimeMeta) {
		t := w.cur.tasks[verifC17Key(ch, "t1")]
		return t, w.cur.metas[ch]
	}
	setupOK := true
	do := func(r *verifC17Req) string {
		w.now += 10
		return w.applyJudged(rt, r, false)
	}
	must := func(r *verifC17Req) {
		if setupOK && do(r) != ApplyResultOK {
			setupOK = false
		}
	}
	task := metadb.ChannelMigrationTask{TaskID: "t1", Kind: metadb.ChannelMigrationKindLeaderTransfer,
		Status: metadb.ChannelMigrationStatusPending, Phase: metadb.ChannelMigrationPhaseValidate,
		ChannelID: ch, ChannelType: verifC17ChType, SourceNode: 1, TargetNode: 2, DesiredLeader: 2,
		BaseChannelEpoch: 3, BaseLeaderEpoch: 5, CreatedAtMS: w.now, UpdatedAtMS: w.now}
	if replace {
		task.Kind = metadb.ChannelMigrationKindReplicaReplace
		task.SourceNode, task.TargetNode, task.DesiredLeader = 3, 4, 0
	}
	must(&verifC17Req{kind: "create", channel: ch, taskID: "t1", task: &task})
	step := func(build func(t metadb.ChannelMigrationTask, m metadb.ChannelRuntimeMeta) *verifC17Req) {
		if setupOK {
			t, m := cur()
			must(build(t, m))
		}
	}
	adv := func(p metadb.ChannelMigrationPhase, withProof bool) {
		step(func(t metadb.ChannelMigrationTask, m metadb.ChannelRuntimeMeta) *verifC17Req {
			proof := metadb.ChannelMigrationCutoverProof{}
			if withProof {
				proof = w.bProof(rt, t, m)
			}
			return w.bAdvance(t, p, metadb.ChannelMigrationStatusRunning, proof)
		})
	}
	step(func(t metadb.ChannelMigrationTask, m metadb.ChannelRuntimeMeta) *verifC17Req { return w.bClaim(t, 1) })
	if replace {
		adv(metadb.ChannelMigrationPhaseAddLearner, false)
		step(w.bAddLearner)
		adv(metadb.ChannelMigrationPhaseWarmCatchUp, false)
		step(w.bSetFence)
		adv(metadb.ChannelMigrationPhaseFinalTargetCatchUp, true)
		adv(metadb.ChannelMigrationPhasePromoteAndRemove, false)
		step(func(t metadb.ChannelMigrationTask, m metadb.ChannelRuntimeMeta) *verifC17Req { return w.bPromote(t, m, w.now) })
	} else {
		adv(metadb.ChannelMigrationPhaseProbeTarget, false)
		adv(metadb.ChannelMigrationPhaseWriteFence, false)
		step(w.bSetFence)
		adv(metadb.ChannelMigrationPhaseFinalTargetCatchUp, true)
		adv(metadb.ChannelMigrationPhaseCommitLeaderMeta, false)
		step(func(t metadb.ChannelMigrationTask, m metadb.ChannelRuntimeMeta) *verifC17Req { return w.bCommit(t, m, w.now) })
	}
	if !setupOK || w.nCommit+w.nPromote != 1 {
		// the scripted happy path did not go through on this tree: nothing to judge here
		k.Key("repro-setup-failed", replace)
		k.Label("scripted reproduction: happy path not accepted (not judged)")
		return
	}
	// the fence lease expires
	_, m := cur()
	w.now = m.WriteFenceUntilMS + 1
	t, m := cur()
	resetRes := do(w.bReset(t, m, w.now))
	t, m = cur()
	fenceRes := ""
	if resetRes == ApplyResultOK {
		fenceRes = do(w.bSetFence(t, m))
	}
	t, m = cur()
	abortRes := do(w.bAbort(t, m)) // judged: fails here unless the finding is listed as known
	k.Key("repro", replace, resetRes, fenceRes, abortRes)
	k.SetNonTrivial(true)
	k.LabelIf(resetRes == ApplyResultOK, "scripted reproduction: expired-fence reset accepted after commit/promote")
	k.LabelIf(resetRes != ApplyResultOK, "scripted reproduction: expired-fence reset refused after commit/promote")
	k.LabelIf(abortRes == ApplyResultOK, "scripted reproduction: abort accepted after commit/promote (KNOWN FINDING)")
	k.Sample(func() any { return w.keyParts })
}

func TestVerifC17ReproResetReopensCommittedTask(t *testing.T) {
	n := 0
	kit.Check(t, "C17", func(rt *rapid.T, k *kit.Case) {
		verifC17ReproScript(rt, k, n%2 == 1)
		n++
	})
}
