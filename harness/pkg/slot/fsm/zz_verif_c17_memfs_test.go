package fsm

// In-memory file system for the meta DB used by the C17 harness.
//
// The verif hook engine.VerifPebbleOptions lives in an internal package that
// pkg/slot/fsm may not import, so the variable is reached by linkname. C17 is
// a pure state-machine property (no crash or durability clause), so the file
// system under Pebble is irrelevant to the verdict; the in-memory one keeps a
// case at a few milliseconds instead of ~0.5 s of fsyncs.

import (
	_ "unsafe"

	"github.com/cockroachdb/pebble/v2"
	"github.com/cockroachdb/pebble/v2/vfs"
)

//go:linkname verifC17EnginePebbleOptions github.com/WuKongIM/WuKongIM/pkg/db/internal/engine.VerifPebbleOptions
var verifC17EnginePebbleOptions func(*pebble.Options)

// verifC17UseMemFS makes every meta DB opened until the returned function is
// called live on its own fresh in-memory file system.
func verifC17UseMemFS() func() {
	verifC17EnginePebbleOptions = func(o *pebble.Options) { o.FS = vfs.NewMem() }
	return func() { verifC17EnginePebbleOptions = nil }
}
