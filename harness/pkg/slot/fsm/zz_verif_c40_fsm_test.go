package fsm

// C40 layer 1 through the slot state machine: encoded single-event (command
// appendMessageEvent) and ordered multi-event (appendMessageEventsBatch)
// commands, 1..3 commands per ApplyBatch, against a second meta DB to which the
// same events are applied ONE BY ONE through the direct store API
// (differential: batch vs single application must give the same answers and
// the same stored lanes), plus the statement's clauses on the FSM-side store
// (sequence only grows, finalized lanes never change, replayed ids answer as
// the first time).

import (
	"bytes"
	"context"
	"encoding/json"
	"fmt"
	"path/filepath"
	"slices"
	"strings"
	"testing"

	metadb "github.com/WuKongIM/WuKongIM/pkg/db/meta"
	"github.com/WuKongIM/WuKongIM/pkg/slot/multiraft"
	"pgregory.net/rapid"
	"verif.local/kit"
)

const (
	verifC40Channel     = "g-stream"
	verifC40ChannelType = int64(2)
	verifC40HashSlot    = uint16(4)
)

var verifC40Msgs = []string{"m1", "m2"}

func verifC40Terminal(status string) bool {
	return status == metadb.EventStatusClosed || status == metadb.EventStatusError || status == metadb.EventStatusCancelled
}

func verifC40StateEqual(a, b metadb.MessageEventState) bool {
	as, bs := a.SnapshotPayload, b.SnapshotPayload
	a.SnapshotPayload, b.SnapshotPayload = nil, nil
	return bytes.Equal(as, bs) && fmt.Sprintf("%+v", a) == fmt.Sprintf("%+v", b)
}

func verifC40Lanes(rt *rapid.T, db *metadb.DB) map[string]map[string]metadb.MessageEventState {
	out := map[string]map[string]metadb.MessageEventState{}
	for _, no := range verifC40Msgs {
		rows, err := db.ForHashSlot(verifC40HashSlot).ListMessageEventStates(context.Background(), verifC40Channel, verifC40ChannelType, no, 100)
		if err != nil {
			rt.Fatalf("ListMessageEventStates: %v", err)
		}
		out[no] = map[string]metadb.MessageEventState{}
		for _, r := range rows {
			out[no][r.EventKey] = r
		}
	}
	return out
}

func verifC40MaxSeq(lanes map[string]metadb.MessageEventState) uint64 {
	var m uint64
	for _, l := range lanes {
		m = max(m, l.LastMsgEventSeq)
	}
	return m
}

func verifC40Payload(rt *rapid.T, typ string) []byte {
	switch typ {
	case metadb.EventTypeStreamDelta:
		if rapid.IntRange(0, 5).Draw(rt, "rawDelta") == 0 {
			return []byte("raw-chunk")
		}
		b, _ := json.Marshal(map[string]string{"kind": "text", "delta": rapid.StringMatching(`[a-z ]{0,4}`).Draw(rt, "delta")})
		return b
	case metadb.EventTypeStreamSnapshot:
		b, _ := json.Marshal(map[string]string{"kind": "text", "text": rapid.StringMatching(`[A-Z]{0,4}`).Draw(rt, "snap")})
		return b
	case metadb.EventTypeStreamOpen:
		return nil
	}
	return []byte(rapid.SampledFrom([]string{``, `{"end_reason":2}`, `{"error":"boom"}`, `{"snapshot":null,"end_reason":1}`,
		`{"snapshot":{"kind":"text","text":"final"},"end_reason":3}`, `not json`}).Draw(rt, "termPayload"))
}

func verifC40FmtEvent(e metadb.MessageEventAppend) string {
	return fmt.Sprintf("{%s id=%q key=%q %s payload=%q}", e.ClientMsgNo, e.EventID, e.EventKey, e.EventType, e.Payload)
}

func TestVerifC40FSM(t *testing.T) {
	kit.Check(t, "C40", func(rt *rapid.T, k *kit.Case) {
		dir, rm := kit.TempDir()
		defer rm()
		db, err := metadb.Open(filepath.Join(dir, "fsm"))
		if err != nil {
			rt.Fatalf("open: %v", err)
		}
		defer db.Close()
		ref, err := metadb.Open(filepath.Join(dir, "ref"))
		if err != nil {
			rt.Fatalf("open ref: %v", err)
		}
		defer ref.Close()
		smi, err := NewStateMachineWithHashSlots(db, 1, []uint16{verifC40HashSlot})
		if err != nil {
			rt.Fatalf("state machine: %v", err)
		}
		sm := smi.(*stateMachine)

		var (
			log                                         []string
			index                                       uint64
			nextID                                      int
			ids                                         = map[string][]string{}
			firstAnswer                                 = map[string]metadb.MessageEventAppendResult{}
			sawReplay, sawOnTerminal, sawMultiEventCmd  bool
			sawMultiCmd, sawSameLaneInBatch, sawFinish  bool
			applied                                     int
		)
		fail := func(format string, args ...any) {
			rt.Fatalf("history:\n%s\n%s", strings.Join(log, "\n"), fmt.Sprintf(format, args...))
		}
		drawEvent := func(rt *rapid.T) metadb.MessageEventAppend {
			no := rapid.SampledFrom(verifC40Msgs).Draw(rt, "msg")
			typ := rapid.SampledFrom([]string{
				metadb.EventTypeStreamDelta, metadb.EventTypeStreamDelta, metadb.EventTypeStreamDelta, metadb.EventTypeStreamDelta,
				metadb.EventTypeStreamSnapshot, metadb.EventTypeStreamOpen, metadb.EventTypeStreamClose, metadb.EventTypeStreamError,
				metadb.EventTypeStreamCancel, metadb.EventTypeStreamFinish,
			}).Draw(rt, "type")
			e := metadb.MessageEventAppend{
				ChannelID: verifC40Channel, ChannelType: verifC40ChannelType, ClientMsgNo: no,
				EventKey:   rapid.SampledFrom([]string{"", "main", "tool", "aux"}).Draw(rt, "lane"),
				EventType:  typ,
				Visibility: rapid.SampledFrom([]string{"", "public", "private"}).Draw(rt, "vis"),
				OccurredAt: int64(rapid.IntRange(0, 50).Draw(rt, "occ")),
				UpdatedAt:  int64(rapid.IntRange(0, 50).Draw(rt, "upd")),
				Payload:    verifC40Payload(rt, typ),
			}
			if len(ids[no]) > 0 && rapid.IntRange(0, 4).Draw(rt, "dup") == 0 {
				e.EventID = rapid.SampledFrom(ids[no]).Draw(rt, "dupID")
			} else {
				nextID++
				e.EventID = fmt.Sprintf("e%d", nextID)
			}
			if !slices.Contains(ids[no], e.EventID) {
				ids[no] = append(ids[no], e.EventID)
			}
			return e
		}

		rt.Repeat(map[string]func(*rapid.T){
			"applyBatch": func(rt *rapid.T) {
				before := verifC40Lanes(rt, db)
				nCmds := rapid.SampledFrom([]int{1, 1, 2, 3}).Draw(rt, "nCmds")
				var raft []multiraft.Command
				var perCmd [][]metadb.MessageEventAppend
				lanesSeen := map[string]int{}
				for c := 0; c < nCmds; c++ {
					nEv := rapid.SampledFrom([]int{1, 1, 2, 3, 4}).Draw(rt, "nEvents")
					var evs []metadb.MessageEventAppend
					for i := 0; i < nEv; i++ {
						e := drawEvent(rt)
						evs = append(evs, e)
						key := e.EventKey
						if key == "" {
							key = "main"
						}
						if e.EventType == metadb.EventTypeStreamFinish {
							key = metadb.EventKeyFinish
						}
						lanesSeen[e.ClientMsgNo+"|"+key]++
					}
					var data []byte
					var err error
					if nEv == 1 && rapid.Bool().Draw(rt, "singleCmd") {
						data, err = EncodeAppendMessageEventCommandChecked(evs[0])
					} else {
						data, err = EncodeAppendMessageEventsCommandChecked(evs)
						sawMultiEventCmd = sawMultiEventCmd || nEv > 1
					}
					if err != nil {
						fail("encode: %v", err)
					}
					index++
					raft = append(raft, multiraft.Command{SlotID: 1, HashSlot: verifC40HashSlot, Index: index, Term: 1, Data: data})
					perCmd = append(perCmd, evs)
					for _, e := range evs {
						log = append(log, fmt.Sprintf("#%d %s", index, verifC40FmtEvent(e)))
					}
				}
				sawMultiCmd = sawMultiCmd || nCmds > 1
				for _, c := range lanesSeen {
					if c > 1 {
						sawSameLaneInBatch = true
					}
				}
				out, err := sm.ApplyBatch(context.Background(), raft)
				if err != nil {
					fail("ApplyBatch: %v", err)
				}
				for c, evs := range perCmd {
					results, derr := DecodeAppendMessageEventResults(out[c])
					if derr != nil || len(results) != len(evs) {
						fail("C40: command #%d answered %d results for %d events (%v)", raft[c].Index, len(results), len(evs), derr)
					}
					for i, e := range evs {
						// reference: the same event applied alone through the store API
						refBefore := verifC40MaxSeq(verifC40Lanes(rt, ref)[e.ClientMsgNo])
						want, rerr := ref.ForHashSlot(verifC40HashSlot).AppendMessageEvent(context.Background(), e)
						if rerr != nil {
							fail("reference append: %v", rerr)
						}
						got := results[i]
						log = append(log, fmt.Sprintf("   -> {key=%s seq=%d status=%s}", got.EventKey, got.MsgEventSeq, got.Status))
						if got.EventID != want.EventID || got.EventKey != want.EventKey || got.MsgEventSeq != want.MsgEventSeq || got.Status != want.Status ||
							got.ClientMsgNo != want.ClientMsgNo || !verifC40StateEqual(got.State, want.State) {
							fail("C40 violated (batch vs single application): event %s answered\n  %+v\nthrough the slot FSM but\n  %+v\nwhen applied alone", verifC40FmtEvent(e), got, want)
						}
						id := e.ClientMsgNo + "|" + e.EventID
						wasApplied := want.MsgEventSeq == refBefore+1 && want.State.LastEventID == e.EventID
						if first, seen := firstAnswer[id]; seen {
							sawReplay = true
							if got.MsgEventSeq != first.MsgEventSeq || got.EventKey != first.EventKey || got.Status != first.Status {
								fail("C40 violated: replayed event id %q answered {key=%s seq=%d status=%s}, first answer {key=%s seq=%d status=%s}",
									e.EventID, got.EventKey, got.MsgEventSeq, got.Status, first.EventKey, first.MsgEventSeq, first.Status)
							}
							if wasApplied {
								fail("C40 violated: replayed event id %q was applied again", e.EventID)
							}
						} else if wasApplied {
							firstAnswer[id] = got
							applied++
							if e.EventType == metadb.EventTypeStreamFinish {
								sawFinish = true
							}
						} else {
							sawOnTerminal = true
						}
					}
				}
				after := verifC40Lanes(rt, db)
				refAfter := verifC40Lanes(rt, ref)
				for _, no := range verifC40Msgs {
					if verifC40MaxSeq(after[no]) < verifC40MaxSeq(before[no]) {
						fail("C40 violated: durable event sequence of %s decreased", no)
					}
					for key, b := range before[no] {
						a, ok := after[no][key]
						if !ok {
							fail("C40 violated: lane %s/%s disappeared", no, key)
						}
						if verifC40Terminal(b.Status) && !verifC40StateEqual(a, b) {
							fail("C40 violated: lane %s/%s was terminal (%s) and changed again\n before=%+v\n after =%+v", no, key, b.Status, b, a)
						}
					}
					if len(after[no]) != len(refAfter[no]) {
						fail("C40 violated (batch vs single application): message %s has %d lanes through the FSM, %d when applied one by one", no, len(after[no]), len(refAfter[no]))
					}
					for key, a := range after[no] {
						if r, ok := refAfter[no][key]; !ok || !verifC40StateEqual(a, r) {
							fail("C40 violated (batch vs single application): lane %s/%s\n fsm=%+v\n one-by-one=%+v", no, key, a, r)
						}
					}
				}
			},
		})
		k.Key(strings.Join(log, "\n"))
		k.SetNonTrivial(sawReplay && sawOnTerminal && sawMultiEventCmd)
		k.LabelIf(sawReplay, "replayed event id")
		k.LabelIf(sawOnTerminal, "event on a finalized lane")
		k.LabelIf(sawMultiEventCmd, "multi-event command")
		k.LabelIf(sawMultiCmd, "several commands in one ApplyBatch")
		k.LabelIf(sawSameLaneInBatch, "several events on one lane in one ApplyBatch")
		k.LabelIf(sawFinish, "finish applied")
		k.LabelIf(applied >= 10, ">= 10 applied events")
		k.Sample(func() any { return log })
	})
}
