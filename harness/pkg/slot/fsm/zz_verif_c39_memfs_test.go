package fsm

// In-memory file system for the meta DBs of the C39 harness (see the C17
// counterpart for why linkname is used: the verif hook lives in an internal
// package pkg/slot/fsm may not import). C39 has no crash clause; the durable
// applied-delta records are exercised by re-creating the state machines over
// the same open DB, not by re-opening files.

import (
	_ "unsafe"

	"github.com/cockroachdb/pebble/v2"
	"github.com/cockroachdb/pebble/v2/vfs"
)

//go:linkname verifC39EnginePebbleOptions github.com/WuKongIM/WuKongIM/pkg/db/internal/engine.VerifPebbleOptions
var verifC39EnginePebbleOptions func(*pebble.Options)

func verifC39UseMemFS() func() {
	verifC39EnginePebbleOptions = func(o *pebble.Options) { o.FS = vfs.NewMem() }
	return func() { verifC39EnginePebbleOptions = nil }
}
