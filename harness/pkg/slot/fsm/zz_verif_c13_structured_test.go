package fsm

// Structure-aware malformed payloads and apply-delta envelopes for C13.
//
// The wire format is [version][cmdType][TLV...], and several command types nest
// further records inside a TLV value: an opaque fixed prefix (logical hash slot,
// generation, embedded command header ...) followed by another TLV list. Random
// byte garbage almost never produces a payload whose OUTER structure is intact
// while one nested value is too short for the prefix its decoder indexes, so this
// file parses a generated valid command into its TLV tree and enumerates the
// neighbourhood of every node: the value consistently cut to each small length
// (enclosing lengths re-computed, so every enclosing decoder still walks a
// well-formed list), grown by a byte, its length field lying, its tag changed,
// the field dropped or duplicated.

import (
	"bytes"
	"context"
	"encoding/binary"
	"fmt"
	"path/filepath"
	"sort"
	"strings"
	"testing"
	_ "unsafe"

	metadb "github.com/WuKongIM/WuKongIM/pkg/db/meta"
	runtimechannelid "github.com/WuKongIM/WuKongIM/pkg/protocol/channelid"
	"github.com/WuKongIM/WuKongIM/pkg/slot/multiraft"
	"github.com/cockroachdb/pebble/v2"
	"github.com/cockroachdb/pebble/v2/vfs"
	"pgregory.net/rapid"
	"verif.local/kit"
)

// verifC13Incoming is a hash slot the slot does not own but is importing (target
// side of a hash-slot migration); verifC13DeltaSource is the migrating source slot.
const (
	verifC13Incoming    = uint16(11)
	verifC13DeltaSource = multiraft.SlotID(6)
)

//go:linkname verifC13EnginePebbleOptions github.com/WuKongIM/WuKongIM/pkg/db/internal/engine.VerifPebbleOptions
var verifC13EnginePebbleOptions func(*pebble.Options)

// verifC13UseMemFS puts every meta DB opened until the returned function runs on
// its own in-memory file system. Only the structured-malformed test uses it: it
// pushes thousands of payloads per case through ApplyBatch and has no restart or
// durability clause (the other C13 tests stay on real files).
func verifC13UseMemFS() func() {
	verifC13EnginePebbleOptions = func(o *pebble.Options) { o.FS = vfs.NewMem() }
	return func() { verifC13EnginePebbleOptions = nil }
}

// ---- TLV tree -------------------------------------------------------------------------

// verifC13Node is one TLV field. A value that itself is "opaque prefix + complete
// TLV list" is parsed into children; anything else is a leaf.
type verifC13Node struct {
	tag      byte
	prefix   []byte
	children []*verifC13Node
	leaf     []byte
	depth    int
}

const verifC13MaxPrefix = 24

func verifC13ParseTLVs(data []byte, depth int) ([]*verifC13Node, bool) {
	var out []*verifC13Node
	for off := 0; off < len(data); {
		if len(data)-off < tlvOverhead {
			return nil, false
		}
		length := int(binary.BigEndian.Uint32(data[off+1:]))
		end := off + tlvOverhead + length
		if length < 0 || end > len(data) || end < off {
			return nil, false
		}
		out = append(out, verifC13ParseNode(data[off], data[off+tlvOverhead:end], depth))
		off = end
	}
	return out, len(out) > 0
}

func verifC13ParseNode(tag byte, value []byte, depth int) *verifC13Node {
	n := &verifC13Node{tag: tag, depth: depth}
	if depth < 4 {
		for p := 0; p <= verifC13MaxPrefix && p+tlvOverhead <= len(value); p++ {
			if children, ok := verifC13ParseTLVs(value[p:], depth+1); ok {
				n.prefix, n.children = append([]byte(nil), value[:p]...), children
				return n
			}
		}
	}
	n.leaf = append([]byte(nil), value...)
	return n
}

func (n *verifC13Node) value(override map[*verifC13Node][]byte) []byte {
	if n.children == nil {
		return n.leaf
	}
	out := append([]byte(nil), n.prefix...)
	for _, c := range n.children {
		out = append(out, c.encode(override)...)
	}
	return out
}

func verifC13TLV(tag byte, declared int, value []byte) []byte {
	out := make([]byte, tlvOverhead, tlvOverhead+len(value))
	out[0] = tag
	binary.BigEndian.PutUint32(out[1:], uint32(declared))
	return append(out, value...)
}

func (n *verifC13Node) encode(override map[*verifC13Node][]byte) []byte {
	if b, ok := override[n]; ok {
		return b
	}
	v := n.value(override)
	return verifC13TLV(n.tag, len(v), v)
}

type verifC13Tree struct {
	header []byte
	fields []*verifC13Node
}

func verifC13ParseCommand(data []byte) (*verifC13Tree, bool) {
	if len(data) < headerSize {
		return nil, false
	}
	t := &verifC13Tree{header: append([]byte(nil), data[:headerSize]...)}
	if len(data) == headerSize {
		return t, true
	}
	fields, ok := verifC13ParseTLVs(data[headerSize:], 1)
	if !ok {
		return nil, false
	}
	t.fields = fields
	return t, true
}

func (t *verifC13Tree) encode(override map[*verifC13Node][]byte) []byte {
	out := append([]byte(nil), t.header...)
	for _, f := range t.fields {
		out = append(out, f.encode(override)...)
	}
	return out
}

func (t *verifC13Tree) walk(fn func(n *verifC13Node, path string)) {
	var rec func(nodes []*verifC13Node, path string)
	rec = func(nodes []*verifC13Node, path string) {
		for i, n := range nodes {
			p := fmt.Sprintf("%s/%d(tag %d)", path, i, n.tag)
			fn(n, p)
			rec(n.children, p)
		}
	}
	rec(t.fields, "")
}

// verifC13Variant is one structurally derived payload.
type verifC13Variant struct {
	data []byte
	what string
	// shape flags for the label histogram
	nested     bool // the changed field carries a nested record (prefix + TLV list)
	depth      int
	cutToShort bool // value consistently cut to a length inside / right after the opaque prefix
	consistent bool // enclosing lengths were recomputed (outer structure intact)
}

// verifC13Variants enumerates the structural neighbourhood of one valid command.
func verifC13Variants(valid []byte) []verifC13Variant {
	tree, ok := verifC13ParseCommand(valid)
	if !ok || !bytes.Equal(tree.encode(nil), valid) {
		return nil
	}
	var out []verifC13Variant
	seen := map[string]bool{string(valid): true}
	add := func(n *verifC13Node, repl []byte, v verifC13Variant) {
		v.data = tree.encode(map[*verifC13Node][]byte{n: repl})
		if seen[string(v.data)] {
			return
		}
		seen[string(v.data)] = true
		v.depth, v.nested = n.depth, n.children != nil
		out = append(out, v)
	}
	tree.walk(func(n *verifC13Node, path string) {
		full := n.value(nil)
		p := len(n.prefix)
		lengths := map[int]bool{}
		for l := 0; l <= 12; l++ {
			lengths[l] = true
		}
		if n.children != nil {
			// around the end of the opaque prefix and inside the first nested TLV header
			for l := p - 1; l <= p+tlvOverhead+1; l++ {
				lengths[l] = true
			}
		}
		lengths[len(full)-1] = true
		sorted := make([]int, 0, len(lengths))
		for l := range lengths {
			if l >= 0 && l < len(full) {
				sorted = append(sorted, l)
			}
		}
		sort.Ints(sorted)
		for _, l := range sorted {
			add(n, verifC13TLV(n.tag, l, full[:l]), verifC13Variant{what: fmt.Sprintf("%s value cut %d -> %d bytes", path, len(full), l), consistent: true,
				cutToShort: n.children != nil && l <= p+tlvOverhead})
		}
		add(n, verifC13TLV(n.tag, len(full)+1, append(append([]byte(nil), full...), 0)), verifC13Variant{what: path + " value grown by one zero byte", consistent: true})
		for _, d := range []int{len(full) + 1, len(full) - 1, 1 << 20, 1<<32 - 1} {
			if d >= 0 {
				add(n, verifC13TLV(n.tag, d, full), verifC13Variant{what: fmt.Sprintf("%s length field %d -> %d (value untouched)", path, len(full), d)})
			}
		}
		for _, tag := range []byte{0, n.tag + 1, 0xee} {
			add(n, verifC13TLV(tag, len(full), full), verifC13Variant{what: fmt.Sprintf("%s tag -> %d", path, tag), consistent: true})
		}
		add(n, nil, verifC13Variant{what: path + " field dropped", consistent: true})
		enc := n.encode(nil)
		add(n, append(append([]byte(nil), enc...), enc...), verifC13Variant{what: path + " field duplicated", consistent: true})
		if p > 0 {
			// the opaque prefix alone loses / gains a byte (nested list shifted)
			shorter := append(append([]byte(nil), n.prefix[:p-1]...), full[p:]...)
			add(n, verifC13TLV(n.tag, len(shorter), shorter), verifC13Variant{what: path + " opaque prefix one byte shorter", consistent: true})
		}
	})
	return out
}

// ---- more command classes (victims only) ------------------------------------------------

// verifC13ExtraClasses are command types the transparency logs do not generate
// (hash-slot migration maintenance and the channel-migration fence family, see
// C39 / C17); here they are only starting points for malformed payloads.
var verifC13ExtraClasses = []string{
	"applyDelta", "applyDelta", "ackMigrationOutbox", "cleanupMigrationOutbox", "createMigrationTaskGuarded", "setChannelWriteFence", "resetChannelWriteFence",
	"commitLeaderTransfer", "addChannelLearner", "promoteLearner", "clearChannelWriteFence", "enterFence",
}

func verifC13ExtraVictim(t *rapid.T, class string) verifC13Cmd {
	c := verifC13Cmd{class: class, hashSlot: verifC13Pick(t, "hashSlot", verifC13Owned)}
	channel, typ := verifC13PickRow(t)
	guard := verifC13TaskGuard(t, verifC13Key{channel: channel, typ: typ, task: verifC13Pick(t, "task", verifC13Tasks)})
	runtimeGuard := metadb.ChannelMigrationRuntimeGuard{ChannelID: channel, ChannelType: typ, ExpectedChannelEpoch: uint64(rapid.IntRange(1, 3).Draw(t, "epoch")),
		ExpectedLeaderEpoch: uint64(rapid.IntRange(1, 3).Draw(t, "leaderEpoch")), ExpectedLeader: uint64(rapid.IntRange(0, 3).Draw(t, "leader")), ExpectedFenceToken: "f0", ExpectedFenceVersion: 1}
	status, phase := metadb.ChannelMigrationStatusRunning, metadb.ChannelMigrationPhase(rapid.IntRange(1, 6).Draw(t, "phase"))
	switch class {
	case "applyDelta":
		c.hashSlot = rapid.SampledFrom([]uint16{verifC13Incoming, verifC13Owned[0], verifC13Owned[1]}).Draw(t, "deltaHashSlot")
		inner, innerClass, _, _ := verifC13DeltaOriginal(t, c.hashSlot, false)
		c.class = "applyDelta(" + innerClass + ")"
		c.data = EncodeApplyDeltaCommand(verifC13DeltaSource, uint64(rapid.IntRange(1, 1<<20).Draw(t, "sourceIndex")), c.hashSlot, inner)
	case "enterFence":
		c.data = EncodeEnterFenceCommandForTarget(c.hashSlot, multiraft.SlotID(verifC13Slot+2))
	case "ackMigrationOutbox":
		c.data = EncodeAckHashSlotMigrationOutboxCommand(c.hashSlot, multiraft.SlotID(verifC13Slot), multiraft.SlotID(verifC13Slot+2), uint64(rapid.IntRange(1, 9).Draw(t, "sourceIndex")))
	case "cleanupMigrationOutbox":
		c.data = EncodeCleanupHashSlotMigrationOutboxCommand(c.hashSlot, multiraft.SlotID(verifC13Slot), multiraft.SlotID(verifC13Slot+2), uint64(rapid.IntRange(1, 9).Draw(t, "throughIndex")))
	case "createMigrationTaskGuarded":
		c.data = EncodeCreateChannelMigrationTaskWithRuntimeGuardCommand(metadb.ChannelMigrationTaskCreate{RuntimeGuard: runtimeGuard, Task: metadb.ChannelMigrationTask{
			TaskID: guard.TaskID, Kind: metadb.ChannelMigrationKind(rapid.IntRange(1, 3).Draw(t, "kind")), Status: metadb.ChannelMigrationStatusPending, Phase: metadb.ChannelMigrationPhaseValidate,
			ChannelID: channel, ChannelType: typ, SourceNode: 1, TargetNode: 2, BaseChannelEpoch: 1, BaseLeaderEpoch: 1, CreatedAtMS: 1, UpdatedAtMS: 1}})
	case "setChannelWriteFence":
		c.data = EncodeSetChannelWriteFenceCommand(metadb.ChannelMigrationFenceRequest{Guard: guard, RuntimeGuard: runtimeGuard, Status: status, Phase: phase, FenceReason: 1, FenceUntilMS: 900, UpdatedAtMS: 3})
	case "resetChannelWriteFence":
		c.data = EncodeResetChannelWriteFenceToPreCutoverCommand(metadb.ChannelMigrationResetFenceRequest{Guard: guard, RuntimeGuard: runtimeGuard, Status: status, Phase: phase, NowMS: 950, UpdatedAtMS: 4})
	case "commitLeaderTransfer":
		c.data = EncodeCommitChannelLeaderTransferCommand(metadb.ChannelMigrationLeaderTransferRequest{Guard: guard, RuntimeGuard: runtimeGuard, Status: status, Phase: phase, DesiredLeader: 2, NextLeaderEpoch: 4, LeaseUntilMS: 5000, NowMS: 10, UpdatedAtMS: 4})
	case "addChannelLearner":
		c.data = EncodeAddChannelLearnerCommand(metadb.ChannelMigrationAddLearnerRequest{Guard: guard, RuntimeGuard: runtimeGuard, Status: status, Phase: phase, TargetNode: 3, UpdatedAtMS: 4})
	case "promoteLearner":
		c.data = EncodePromoteLearnerAndRemoveReplicaCommand(metadb.ChannelMigrationPromoteLearnerRequest{Guard: guard, RuntimeGuard: runtimeGuard, Status: status, Phase: phase, SourceNode: 1, TargetNode: 3, NowMS: 10, UpdatedAtMS: 4})
	case "clearChannelWriteFence":
		c.data = EncodeClearChannelWriteFenceCommand(metadb.ChannelMigrationClearFenceRequest{Guard: guard, RuntimeGuard: runtimeGuard, Status: metadb.ChannelMigrationStatusCompleted, Phase: phase, UpdatedAtMS: 5, CompletedAtMS: 5})
	default:
		t.Fatalf("harness: unknown extra class %q", class)
	}
	return c
}

// ---- apply-delta envelopes around multi-hash-slot batch commands ------------------------------

var verifC13DeltaBatchClasses = []string{"upsertLatestBatch", "createRuntimeMetaBatch", "admitPersonDirectory", "ensurePersonMemberships", "completePersonDirectory"}

// verifC13AllPersonChannels: every canonical person channel over the uid pool
// (a batch names a channel once, so multi-item batches need more than two).
func verifC13AllPersonChannels() []string {
	var out []string
	for i := range verifC13Users {
		for j := i + 1; j < len(verifC13Users); j++ {
			out = append(out, runtimechannelid.EncodePersonChannel(verifC13Users[i], verifC13Users[j]))
		}
	}
	sort.Strings(out)
	return out
}

// verifC13DeltaOriginal draws the original command a migrating source slot
// forwards for hash slot h: one of the multi-hash-slot batch commands (types 47,
// 59, 63, 64, 65) as the source committed it, i.e. with items for h AND for other
// hash slots the source owned (the source outboxes the whole command under every
// hash slot it touches, see stageMigrationMaintenanceForHashSlots), or (1 in 6) an
// ordinary single-hash-slot command. It returns the payload, its class and the
// number of items inside / outside h.
func verifC13DeltaOriginal(t *rapid.T, h uint16, judged bool) ([]byte, string, int, int) {
	if rapid.IntRange(0, 5).Draw(t, "plainOriginal") == 0 {
		plain := verifC13CmdOf(t, rapid.SampledFrom([]string{"upsertUser", "upsertChannel", "upsertRuntimeMeta", "addSubscribers", "upsertLatest", "upsertMemberships"}).Draw(t, "plainClass"), verifC13Key{hashSlot: h})
		return plain.data, plain.class, 1, 0
	}
	class := rapid.SampledFrom(verifC13DeltaBatchClasses).Draw(t, "batchClass")
	if judged && class == "createRuntimeMetaBatch" && kit.HasKnownFinding("C13", verifC13SigDeltaRuntimeMetaBatch) {
		// recorded finding (re-established by TestVerifC13KnownApplyDeltaRuntimeMetaBatch):
		// while it is listed the no-foreign-write oracle is searched with the other batch types
		verifC13Excluded.Add(1)
		class = rapid.SampledFrom([]string{"upsertLatestBatch", "admitPersonDirectory", "ensurePersonMemberships", "completePersonDirectory"}).Draw(t, "batchClassInstead")
	}
	var others []uint16
	for _, hs := range []uint16{verifC13Owned[0], verifC13Owned[1], verifC13Unowned, verifC13Incoming} {
		if hs != h {
			others = append(others, hs)
		}
	}
	n := rapid.IntRange(2, 4).Draw(t, "items")
	slots := make([]uint16, n)
	inside, outside := 0, 0
	for i := range slots {
		if rapid.IntRange(0, 2).Draw(t, "itemInsideDelta") > 0 {
			slots[i] = h
			inside++
		} else {
			slots[i] = verifC13Pick(t, "itemOtherHashSlot", others)
			outside++
		}
	}
	if outside == 0 {
		slots[n-1], inside, outside = verifC13Pick(t, "itemOtherHashSlot", others), inside-1, 1
	}
	// distinct person channels per command: rotate through the pool from a drawn start
	persons := verifC13AllPersonChannels()
	start := rapid.IntRange(0, len(persons)-1).Draw(t, "personRotation")
	personAt := func(i int) string { return persons[(start+i)%len(persons)] }
	var data []byte
	var err error
	switch class {
	case "upsertLatestBatch":
		items := make([]ChannelLatestBatchItem, n)
		for i := range items {
			items[i] = ChannelLatestBatchItem{HashSlot: slots[i], Latest: verifC13Latest(t)}
		}
		data, err = EncodeUpsertChannelLatestBatchCommandChecked(items)
	case "createRuntimeMetaBatch":
		items := make([]CreateChannelRuntimeMetaBatchItem, n)
		for i := range items {
			m := verifC13RuntimeMeta(t)
			m.ChannelID = fmt.Sprintf("%s-%d", m.ChannelID, i) // a command names a channel once
			if m.ChannelType == 1 {
				m.ChannelID = personAt(i)
			}
			items[i] = CreateChannelRuntimeMetaBatchItem{HashSlot: slots[i], Meta: m}
		}
		data, err = EncodeCreateChannelRuntimeMetaBatchCommandChecked(items)
	case "admitPersonDirectory":
		items := make([]PersonDirectoryAdmissionBatchItem, n)
		for i := range items {
			m := verifC13RuntimeMeta(t)
			m.ChannelID, m.ChannelType = personAt(i), 1
			items[i] = PersonDirectoryAdmissionBatchItem{HashSlot: slots[i], RuntimeMeta: m,
				Task: metadb.PersonDirectoryTask{ChannelID: m.ChannelID, ChannelType: 1, CommittedTail: uint64(rapid.IntRange(0, 5).Draw(t, "committedTail")), CreatedAt: int64(rapid.IntRange(0, 5).Draw(t, "createdAt"))}}
		}
		data, err = EncodeAdmitPersonDirectoryTaskBatchCommandChecked(items)
	case "ensurePersonMemberships":
		items := make([]UserChannelMembershipBatchItem, n)
		for i := range items {
			ms := verifC13Membership(t)
			ms.ChannelID, ms.ChannelType = personAt(i), 1
			ms.UID = verifC13PersonUID(t, ms.ChannelID)
			items[i] = UserChannelMembershipBatchItem{HashSlot: slots[i], Membership: ms}
		}
		data, err = EncodeEnsureUserChannelMembershipBatchCommandChecked(items)
	default:
		items := make([]PersonDirectoryCompletionBatchItem, n)
		for i := range items {
			items[i] = PersonDirectoryCompletionBatchItem{HashSlot: slots[i], ChannelID: personAt(i), ChannelType: 1, Generation: uint64(rapid.IntRange(1, 2).Draw(t, "generation"))}
		}
		data, err = EncodeCompletePersonDirectoryTaskBatchCommandChecked(items)
	}
	if err != nil {
		t.Fatalf("harness: %s original refused by its encoder: %v", class, err)
	}
	return data, class, inside, outside
}

// verifC13SigDeltaRuntimeMetaBatch: command 59 (create channel runtime metadata
// batch) is the only multi-hash-slot batch command without applyForHashSlot, so an
// apply-delta envelope for hash slot h around it creates the rows of ALL its items,
// also those of hash slots the target neither owns nor imports.
const verifC13SigDeltaRuntimeMetaBatch = "apply-delta-around-create-runtime-meta-batch:items-outside-the-delta-hash-slot-are-written"

// TestVerifC13KnownApplyDeltaRuntimeMetaBatch re-establishes that finding
// deterministically on every run (same shape as the generated envelopes): a
// listed signature prints KNOWN-FINDING, an unlisted one is a violation.
func TestVerifC13KnownApplyDeltaRuntimeMetaBatch(t *testing.T) {
	col := kit.For(t, "C13")
	base, cleanup := kit.TempDir()
	defer cleanup()
	r := verifC13Open(t, filepath.Join(base, "target"))
	defer r.close(t)
	r.sm.UpdateIncomingDeltaHashSlots([]uint16{verifC13Incoming})
	meta := func(channel string) metadb.ChannelRuntimeMeta {
		return metadb.ChannelRuntimeMeta{ChannelID: channel, ChannelType: 2, ChannelEpoch: 1, LeaderEpoch: 1, Replicas: []uint64{1, 2}, ISR: []uint64{1, 2}, Leader: 1, MinISR: 1, Status: 1, LeaseUntilMS: 1000}
	}
	envelope := func(sourceIndex uint64, original []byte) multiraft.Command {
		return multiraft.Command{SlotID: multiraft.SlotID(verifC13Slot), HashSlot: verifC13Incoming, Index: sourceIndex, Term: 1,
			Data: EncodeApplyDeltaCommand(verifC13DeltaSource, sourceIndex, verifC13Incoming, original)}
	}
	// control: the sibling batch command (type 47) is filtered to the delta hash slot
	latest := func(channel string) metadb.ChannelLatest {
		return metadb.ChannelLatest{ChannelID: channel, ChannelType: 2, LastMessageID: 1, LastMessageSeq: 1, LastAt: 1, FromUID: "u0", UpdatedAt: 1}
	}
	control := EncodeUpsertChannelLatestBatchCommand([]ChannelLatestBatchItem{{HashSlot: verifC13Unowned, Latest: latest("c1")}, {HashSlot: verifC13Incoming, Latest: latest("c0")}})
	outside := []uint16{verifC13Owned[0], verifC13Owned[1], verifC13Unowned}
	before := r.export(t, outside)
	if _, err := r.sm.Apply(context.Background(), envelope(1, control)); err != nil {
		t.Fatalf("control envelope around a channel latest batch: %v", err)
	}
	if d := verifC13Diff(before, r.export(t, outside)); d != "" {
		t.Fatalf("VERIF-VIOLATION C13 apply-delta envelope around a channel latest batch wrote outside hash slot %d: %s", verifC13Incoming, d)
	}
	original, err := EncodeCreateChannelRuntimeMetaBatchCommandChecked([]CreateChannelRuntimeMetaBatchItem{{HashSlot: verifC13Unowned, Meta: meta("c1")}, {HashSlot: verifC13Incoming, Meta: meta("c0")}})
	if err != nil {
		t.Fatalf("harness: %v", err)
	}
	_, applyErr := r.sm.Apply(context.Background(), envelope(2, original))
	diff := verifC13Diff(before, r.export(t, outside))
	kc := col.NewCase()
	kc.Key("known", verifC13SigDeltaRuntimeMetaBatch)
	kc.NonTrivial()
	if diff == "" {
		kc.Label("apply-delta around a runtime-meta batch probe: nothing written outside the delta hash slot (finding not present)")
		col.Commit(kc)
		return
	}
	what := fmt.Sprintf("slot %d owns %v, imports %d: ApplyDelta(source %d, index 2, hash slot %d, CreateChannelRuntimeMetaBatch[(hash slot %d, c1), (hash slot %d, c0)]) -> err=%v and rows outside hash slot %d: %s",
		verifC13Slot, verifC13Owned, verifC13Incoming, verifC13DeltaSource, verifC13Incoming, verifC13Unowned, verifC13Incoming, applyErr, verifC13Incoming, diff)
	if kit.KnownFinding("C13", verifC13SigDeltaRuntimeMetaBatch) {
		kc.Label("known finding re-established: " + verifC13SigDeltaRuntimeMetaBatch)
		col.Commit(kc)
		return
	}
	t.Errorf("VERIF-VIOLATION C13 refusal without side effects [%s]: %s", verifC13SigDeltaRuntimeMetaBatch, what)
}

// verifC13Except returns all without h.
func verifC13Except(all []uint16, h uint16) []uint16 {
	out := make([]uint16, 0, len(all))
	for _, hs := range all {
		if hs != h {
			out = append(out, hs)
		}
	}
	return out
}

// ---- the structured malformed test ----------------------------------------------------------

func verifC13DistinctClasses() []string {
	var out []string
	seen := map[string]bool{}
	for _, c := range verifC13Classes {
		if !seen[c] {
			seen[c] = true
			out = append(out, c)
		}
	}
	return out
}

// verifC13NoPanic runs fn and turns a panic into a violation.
func verifC13NoPanic(rt *rapid.T, what string, data []byte, fn func()) {
	defer func() {
		if p := recover(); p != nil {
			rt.Fatalf("VERIF-VIOLATION %s panicked on payload %x: %v", what, data, p)
		}
	}()
	fn()
}

// TestVerifC13MalformedStructured: for one generated valid command of EVERY
// command class (plus the maintenance / fence families and apply-delta envelopes)
// the whole structural neighbourhood (verifC13Variants) is pushed through the raw
// payload entry points real callers use (decodeCommand via ApplyBatch,
// DecodeCommandHashSlots and CreateChannelRuntimeMetaBatchCommandSize on the
// proposer, DecodeCommandInspection on the log viewer): never a panic, and what
// ApplyBatch refuses (alone or inside a batch of valid commands) leaves no trace.
// "No trace" is judged against a shadow replica that receives only the payloads
// the replica accepted: after every neighbourhood both must hold byte-identical
// keys in the owned, incoming and foreign hash slots and the same durable applied
// index (a refused payload that wrote or moved anything shows up as a difference).
func TestVerifC13MalformedStructured(t *testing.T) {
	restore := verifC13UseMemFS()
	defer restore()
	kit.Check(t, "C13", func(rt *rapid.T, k *kit.Case) {
		prefix := verifC13LogGen(0, 10).Draw(rt, "prefix")
		base, cleanup := kit.TempDir()
		defer cleanup()
		r := verifC13Open(rt, filepath.Join(base, "r"))
		shadow := verifC13Open(rt, filepath.Join(base, "shadow"))
		defer func() {
			for _, x := range []*verifC13Replica{r, shadow} {
				if x.db != nil {
					_ = x.db.Close()
				}
			}
		}()
		r.sm.UpdateIncomingDeltaHashSlots([]uint16{verifC13Incoming})
		shadow.sm.UpdateIncomingDeltaHashSlots([]uint16{verifC13Incoming})
		index := uint64(0)
		for _, c := range prefix {
			if _, err := r.sm.Apply(context.Background(), verifC13Command(c, index+1)); err == nil {
				if _, err := shadow.sm.Apply(context.Background(), verifC13Command(c, index+1)); err != nil {
					rt.Fatalf("shadow replica refused prefix command %s the replica accepted: %v", c.class, err)
				}
				index++
			}
		}
		stateCommands := index
		all := []uint16{verifC13Owned[0], verifC13Owned[1], verifC13Unowned, verifC13Incoming}

		classes := append(verifC13DistinctClasses(), verifC13ExtraClasses...)
		var total, refused, accepted, refusedAfterDecode, nestedCut, nestedCutRefused, deepRefused, inBatch, envelopeInnerRefused, skippedWellFormed int
		cutByType := map[byte]int{}
		var key []byte
		for ci, class := range classes {
			var victim verifC13Cmd
			if ci < len(classes)-len(verifC13ExtraClasses) {
				victim = verifC13CmdOf(rt, class, verifC13Key{})
			} else {
				victim = verifC13ExtraVictim(rt, class)
			}
			key = append(append(key, victim.data...), 0xfe)
			variants := verifC13Variants(victim.data)
			if len(variants) == 0 && len(victim.data) > headerSize {
				rt.Fatalf("harness: valid %s command %x does not parse as a TLV tree", victim.class, victim.data)
			}
			// tryAlone applies one payload alone; accepted payloads go to the shadow too
			tryAlone := func(v verifC13Variant) (decodeErr, applyErr error) {
				what := " (" + victim.class + ": " + v.what + ")"
				verifC13NoPanic(rt, "decodeCommand"+what, v.data, func() { _, decodeErr = decodeCommand(v.data) })
				verifC13NoPanic(rt, "DecodeCommandHashSlots"+what, v.data, func() {
					if _, err := DecodeCommandHashSlots(v.data, victim.hashSlot); (err == nil) != (decodeErr == nil) {
						rt.Fatalf("DecodeCommandHashSlots(%x) = %v but decodeCommand = %v", v.data, err, decodeErr)
					}
				})
				verifC13NoPanic(rt, "DecodeCommandInspection"+what, v.data, func() { _, _ = DecodeCommandInspection(v.data) })
				verifC13NoPanic(rt, "CreateChannelRuntimeMetaBatchCommandSize"+what, v.data, func() { _, _ = CreateChannelRuntimeMetaBatchCommandSize(v.data) })
				cmd := multiraft.Command{SlotID: multiraft.SlotID(verifC13Slot), HashSlot: victim.hashSlot, Index: index + 1, Term: 1, Data: v.data}
				var res [][]byte
				verifC13NoPanic(rt, "ApplyBatch"+what, v.data, func() { res, applyErr = r.sm.ApplyBatch(context.Background(), []multiraft.Command{cmd}) })
				if decodeErr != nil && applyErr == nil {
					rt.Fatalf("%s variant (%s, payload %x) is refused by decodeCommand (%v) but ApplyBatch accepted it", victim.class, v.what, v.data, decodeErr)
				}
				if applyErr == nil {
					shadowRes, err := shadow.sm.ApplyBatch(context.Background(), []multiraft.Command{cmd})
					if err != nil || !bytes.Equal(shadowRes[0], res[0]) {
						rt.Fatalf("%s variant (%s, payload %x) returned %q on the replica that also saw %d refused payloads, but %q / %v on the shadow replica that saw none of them", victim.class, v.what, v.data, res[0], refused, shadowRes, err)
					}
					index++
				}
				return decodeErr, applyErr
			}
			// refusedVariants: refused by a decoder (malformed in the property's sense)
			var refusedVariants []verifC13Variant
			wellFormed := 0
			for _, v := range variants {
				total++
				if v.cutToShort {
					nestedCut++
				}
				// A variant that is still a well-formed command (e.g. a string field cut
				// short) is not this test's subject and every commit costs the store's
				// group-commit window: only the first few and then every 16th are applied.
				// Everything a decoder rejects (the envelope's or, for apply-delta, the
				// wrapped original's) goes through ApplyBatch.
				var stillWellFormed bool
				verifC13NoPanic(rt, "decodeCommand ("+victim.class+": "+v.what+")", v.data, func() {
					decoded, err := decodeCommand(v.data)
					if delta, ok := decoded.(*applyDeltaCmd); ok && err == nil {
						_, err = decodeCommand(delta.OriginalCmd)
					}
					stillWellFormed = err == nil
				})
				if stillWellFormed {
					wellFormed++
					if wellFormed > 4 && wellFormed%16 != 0 {
						skippedWellFormed++
						continue
					}
				}
				decodeErr, applyErr := tryAlone(v)
				if applyErr == nil {
					accepted++
					continue
				}
				refused++
				if !stillWellFormed {
					// (a decoder - the command's or, for apply-delta, the wrapped original's,
					// which applyDeltaCmd.apply runs in the staging loop - rejects the payload)
					// Only these are placed inside batches below. A well-formed command with
					// invalid arguments can be refused as late as commit time, and a batch whose
					// commit first hits a stale conditional command is split and replayed one
					// command at a time (applyCommandsIndividuallyAfterStaleCommit): the
					// commands before the refused one are then applied, with the durable index
					// following them, before the error is returned. That is the prefix
					// one-at-a-time application would have applied too, not a trace of the
					// refused command, so "batch error => nothing applied" is only claimed for
					// refusals that happen in the staging loop (decode / ownership).
					refusedVariants = append(refusedVariants, v)
				}
				if decodeErr == nil {
					refusedAfterDecode++
					if strings.HasPrefix(victim.class, "applyDelta") && v.depth >= 2 {
						envelopeInnerRefused++
					}
				}
				if v.cutToShort {
					nestedCutRefused++
					cutByType[victim.data[1]]++
				}
				if v.depth >= 2 {
					deepRefused++
				}
			}
			// a sample of the refused variants inside a batch of valid commands
			for i := 0; i < 2 && len(refusedVariants) > 0; i++ {
				v := refusedVariants[rapid.IntRange(0, len(refusedVariants)-1).Draw(rt, "inBatchVariant")]
				// the state moved on since (e.g. an apply-delta envelope whose (source,
				// index) was applied meanwhile is now skipped as a replay): only a payload
				// that is still refused alone must poison a batch
				if _, applyErr := tryAlone(v); applyErr == nil {
					accepted++
					continue
				}
				good := rapid.SliceOfN(verifC13CmdGen(), 1, 3).Draw(rt, "good")
				pos := rapid.IntRange(0, len(good)).Draw(rt, "badPosition")
				var cmds []multiraft.Command
				for j := 0; j <= len(good); j++ {
					if j == pos {
						cmds = append(cmds, multiraft.Command{SlotID: multiraft.SlotID(verifC13Slot), HashSlot: victim.hashSlot, Index: index + uint64(len(cmds)) + 1, Term: 1, Data: v.data})
					}
					if j < len(good) {
						cmds = append(cmds, verifC13Command(good[j], index+uint64(len(cmds))+1))
					}
				}
				var batchErr error
				verifC13NoPanic(rt, "ApplyBatch of a batch holding ("+victim.class+": "+v.what+")", v.data, func() { _, batchErr = r.sm.ApplyBatch(context.Background(), cmds) })
				if batchErr == nil {
					rt.Fatalf("a batch holding the refused %s variant (%s, payload %x) at position %d of %d was accepted", victim.class, v.what, v.data, pos, len(cmds))
				}
				if d := verifC13Diff(shadow.export(rt, all), r.export(rt, all)); d != "" {
					rt.Fatalf("refused batch (%v) of %d commands (%s) holding the refused %s variant (%s, payload %x) at position %d had side effects (left: shadow replica that never saw it): %s", batchErr, len(cmds), verifC13Classes2(good), victim.class, v.what, v.data, pos, d)
				}
				inBatch++
			}
			if d := verifC13Diff(shadow.export(rt, all), r.export(rt, all)); d != "" {
				rt.Fatalf("refused variants of a %s command (%x) had side effects: the shadow replica that only saw the accepted payloads (left) differs from the replica (right): %s", victim.class, victim.data, d)
			}
			if a, b := shadow.applied(rt), r.applied(rt); a != b {
				rt.Fatalf("refused variants of a %s command (%x) moved DurableAppliedIndex: %d on the replica, %d on the shadow replica that only saw the accepted payloads", victim.class, victim.data, b, a)
			}
		}
		// the replica is still usable
		if _, err := r.sm.Apply(context.Background(), verifC13Command(verifC13Cmd{hashSlot: verifC13Owned[0], data: EncodeNoopCommand()}, index+1)); err != nil {
			rt.Fatalf("state machine unusable after %d refused payloads: %v", refused, err)
		}
		r.close(rt)
		shadow.close(rt)

		k.Key("structured", len(prefix), key)
		k.SetNonTrivial(stateCommands > 0 && nestedCutRefused > 0 && deepRefused > 0 && inBatch > 0)
		k.Label("structured: neighbourhoods of all command classes enumerated")
		k.LabelIf(stateCommands > 0, "structured: on a non-empty state")
		k.LabelIf(nestedCutRefused > 0, "structured: nested record cut inside/after its opaque prefix, refused")
		for _, typ := range []byte{cmdTypeUpsertChannelLatestBatch, cmdTypeCreateChannelRuntimeMeta, cmdTypeAdmitPersonDirectoryTaskBatch, cmdTypeEnsureUserChannelMembershipBatch, cmdTypeCompletePersonDirectoryTaskBatch, cmdTypeApplyDelta, cmdTypeUpsertUserChannelMemberships, cmdTypeAppendMessageEventsBatch} {
			k.LabelIf(cutByType[typ] > 0, fmt.Sprintf("structured: short nested record refused, command type %d", typ))
		}
		k.LabelIf(deepRefused > 0, "structured: variant at depth >= 2 refused")
		k.LabelIf(refusedAfterDecode > 0, "structured: variant decodes but is refused while staging")
		k.LabelIf(envelopeInnerRefused > 0, "structured: apply-delta envelope with a malformed original refused")
		k.LabelIf(accepted > 0, "structured: variant still a valid command (applied)")
		k.LabelIf(inBatch > 0, "structured: refused variant inside a batch")
		col := kit.For(t, "C13")
		col.AddExtra("structured_variants", int64(total))
		col.AddExtra("structured_variants_refused", int64(refused))
		col.AddExtra("structured_short_nested_records", int64(nestedCut))
		col.AddExtra("structured_well_formed_variants_not_applied", int64(skippedWellFormed))
		k.Sample(func() any {
			return fmt.Sprintf("structured: %d classes, %d variants (%d refused, %d accepted, %d well-formed not applied, %d short nested records, %d refused at depth>=2) on a state of %d commands", len(classes), total, refused, accepted, skippedWellFormed, nestedCut, deepRefused, stateCommands)
		})
	})
}
