package multiraft_test

import (
	"fmt"
	"sort"
)

// verifC12Facts is what the oracle measured in a history (for labels and the
// non-trivial rule); Violations is empty iff the property held.
type verifC12Facts struct {
	Violations []string
	// KnownClass holds violations of clause (E) of one precisely delimited
	// class, reported under the signature verifC12SigForwarded: a Future
	// resolved successfully on a node that did not lead the term of the entry
	// it was resolved with (the node tracked a future for a proposal it had
	// forwarded as a follower). They are violations; the test decides through
	// kit.KnownFinding whether they are already recorded.
	KnownClass []string
	AckedLost  int // acknowledged proposals whose command no replica ever applied

	Applies           int
	Commands          int // distinct (slot,index) commands
	Acks, Fails       int
	Rejects           int
	Terms             int // max distinct leader terms seen among applied commands of one slot
	LeaderChanges     int // sum over slots of (distinct terms - 1)
	Snapshots         int
	SnapshotsInflight int
	RestoresOpen      int
	RestoresRunning   int // snapshot transfer into a running replica
	Restarts          int
	Kills             int // restarts that were power losses
	Batches           int
	MaxBatch          int
	DupIDs            int // command ids present at more than one index (network duplicated a forwarded proposal)
	ReplayedAfterOpen int // commands re-applied on top of a restored snapshot at restart
}

const verifC12SigForwarded = "ack-by-non-leader-of-term"

type verifC12Key struct {
	slot  int
	index uint64
}

// verifC12Check is the C12 oracle. It is a pure function of the history.
//
// Per slot:
//
//	(A) agreement: every Apply of index i carries the same (term, command) on
//	    every replica, with the hash slot the proposer encoded;
//	(B) order: on each replica applied indexes are strictly increasing; the
//	    only way back is a Restore(j), after which the state is the snapshot's;
//	    an index at or below the current one is never applied again (also not
//	    after a restart that did not restore);
//	(C) no skip: a replica never moves from index c to i > c+1 over an index at
//	    which some replica applied a command;
//	(D) snapshots: the state handed to Restore(j) is exactly the agreed
//	    commands with index <= j;
//	(E) acknowledgements: a Future that reported success (index, term, data)
//	    for proposal p => index holds p with that term on every replica that
//	    applied or restored it, some replica did apply it, data is p's result;
//	(R) a stopped node comes back from what its own storage holds (no
//	    OpenSlot error, no raft panic on the loaded state);
//	(F) after the healed, settled end: every replica holds every command
//	    that was agreed before the settle point, so no acknowledged proposal
//	    is lost.
func verifC12Check(h *verifC12History) verifC12Facts {
	var f verifC12Facts
	bad := func(format string, a ...any) {
		if len(f.Violations) < 20 {
			f.Violations = append(f.Violations, fmt.Sprintf(format, a...))
		}
	}
	events := append([]verifC12Event(nil), h.Events...)
	sort.SliceStable(events, func(i, j int) bool { return events[i].Seq < events[j].Seq })

	// pass 1: agreed command per (slot, index); who led which term
	canon := map[verifC12Key]verifC12Cmd{}
	first := map[verifC12Key]int{}
	firstSeq := map[verifC12Key]int64{}
	ledBy := map[[2]uint64]int{}
	for _, e := range events {
		if e.Kind == "leader" {
			k := [2]uint64{uint64(e.Slot), e.Term}
			if prev, ok := ledBy[k]; ok && prev != e.Node {
				bad("(A) slot %d term %d: both node %d and node %d sent leader messages", e.Slot, e.Term, prev, e.Node)
			}
			ledBy[k] = e.Node
		}
		if e.Kind != "apply" {
			continue
		}
		f.Applies++
		k := verifC12Key{e.Slot, e.Index}
		if e.Index == 0 {
			bad("(A) node %d slot %d applied a command at index 0 (%q)", e.Node, e.Slot, e.ID)
			continue
		}
		if want := verifC12HashSlot(e.ID); e.HashSlot != want {
			bad("(A) node %d slot %d index %d command %q delivered with hash slot %d, proposer encoded %d", e.Node, e.Slot, e.Index, e.ID, e.HashSlot, want)
		}
		if c, ok := canon[k]; ok {
			if c.ID != e.ID || c.Term != e.Term {
				bad("(A) slot %d index %d: node %d applied %q term %d but node %d applied %q term %d", e.Slot, e.Index, first[k], c.ID, c.Term, e.Node, e.ID, e.Term)
			}
			continue
		}
		canon[k] = verifC12Cmd{Index: e.Index, Term: e.Term, ID: e.ID}
		first[k] = e.Node
		firstSeq[k] = e.Seq
	}
	f.Commands = len(canon)
	bySlot := map[int][]uint64{}
	termsBySlot := map[int]map[uint64]bool{}
	idIndexes := map[string]int{}
	for k, c := range canon {
		bySlot[k.slot] = append(bySlot[k.slot], k.index)
		if termsBySlot[k.slot] == nil {
			termsBySlot[k.slot] = map[uint64]bool{}
		}
		termsBySlot[k.slot][c.Term] = true
		idIndexes[fmt.Sprintf("%d|%s", k.slot, c.ID)]++
	}
	for _, n := range idIndexes {
		if n > 1 {
			f.DupIDs++
		}
	}
	known := func(e verifC12Event, format string, a ...any) {
		// the acknowledging node did not lead the term it reported => it had
		// forwarded the proposal as a follower and matched the future FIFO
		if leader, ok := ledBy[[2]uint64{uint64(e.Slot), e.Term}]; ok && leader != e.Node {
			if len(f.KnownClass) < 20 {
				f.KnownClass = append(f.KnownClass, fmt.Sprintf(format, a...)+fmt.Sprintf(" [node %d did not lead term %d, node %d did]", e.Node, e.Term, leader))
			}
			return
		}
		bad(format, a...)
	}
	for s := range bySlot {
		sort.Slice(bySlot[s], func(i, j int) bool { return bySlot[s][i] < bySlot[s][j] })
		n := len(termsBySlot[s])
		if n > f.Terms {
			f.Terms = n
		}
		f.LeaderChanges += n - 1
	}
	// agreed commands of slot with lo < index < hi
	between := func(slot int, lo, hi uint64) []uint64 {
		idx := bySlot[slot]
		i := sort.Search(len(idx), func(i int) bool { return idx[i] > lo })
		var out []uint64
		for ; i < len(idx) && idx[i] < hi; i++ {
			out = append(out, idx[i])
		}
		return out
	}

	// pass 2: per replica sequences
	type replica struct {
		cur        uint64
		held       map[uint64]verifC12Cmd
		lastBatch  int
		batchLen   int
		afterOpen  bool // restored during the current open: following applies are replays
		openCur    uint64
		everOpened bool
	}
	reps := map[[2]int]*replica{}
	rep := func(node, slot int) *replica {
		k := [2]int{node, slot}
		if reps[k] == nil {
			reps[k] = &replica{held: map[uint64]verifC12Cmd{}}
		}
		return reps[k]
	}
	for _, e := range events {
		switch e.Kind {
		case "open":
			if e.Inc > 1 {
				f.Restarts++
			}
		case "kill":
			f.Kills++
		case "restartfailed":
			bad("(R) %s", e.Err)
		case "apply":
			r := rep(e.Node, e.Slot)
			if e.Index <= r.cur {
				if _, had := r.held[e.Index]; had {
					bad("(B) node %d slot %d (incarnation %d) applied index %d (%q) again: its state already was at index %d", e.Node, e.Slot, e.Inc, e.Index, e.ID, r.cur)
				} else {
					bad("(B) node %d slot %d (incarnation %d) applied index %d (%q) out of order: its state already was at index %d", e.Node, e.Slot, e.Inc, e.Index, e.ID, r.cur)
				}
			} else if skipped := between(e.Slot, r.cur, e.Index); len(skipped) > 0 {
				bad("(C) node %d slot %d (incarnation %d) went from index %d to %d and skipped agreed command(s) at %v (first: %q)", e.Node, e.Slot, e.Inc, r.cur, e.Index, skipped, canon[verifC12Key{e.Slot, skipped[0]}].ID)
			}
			if r.afterOpen && e.Index <= r.openCur {
				f.ReplayedAfterOpen++
			}
			r.held[e.Index] = verifC12Cmd{Index: e.Index, Term: e.Term, ID: e.ID}
			if e.Index > r.cur {
				r.cur = e.Index
			}
			if e.Batch > 0 {
				if e.Batch != r.lastBatch {
					f.Batches++
					r.lastBatch, r.batchLen = e.Batch, 0
				}
				r.batchLen++
				if r.batchLen > f.MaxBatch {
					f.MaxBatch = r.batchLen
				}
			}
		case "restore":
			r := rep(e.Node, e.Slot)
			if e.Err != "" {
				bad("(D) node %d slot %d Restore(%d): %s", e.Node, e.Slot, e.Index, e.Err)
				continue
			}
			if e.Opening {
				f.RestoresOpen++
				r.afterOpen, r.openCur = true, r.cur
			} else {
				f.RestoresRunning++
				if e.Index < r.cur {
					bad("(B) node %d slot %d: running replica at index %d was restored back to snapshot index %d", e.Node, e.Slot, r.cur, e.Index)
				}
			}
			held := map[uint64]verifC12Cmd{}
			var prev uint64
			for _, c := range e.Content {
				if c.Index <= prev || c.Index > e.Index {
					bad("(D) node %d slot %d Restore(%d): snapshot state is not an ordered prefix (index %d after %d)", e.Node, e.Slot, e.Index, c.Index, prev)
				}
				prev = c.Index
				held[c.Index] = c
				want, ok := canon[verifC12Key{e.Slot, c.Index}]
				if !ok {
					bad("(D) node %d slot %d Restore(%d): snapshot holds %q at index %d which no replica ever applied", e.Node, e.Slot, e.Index, c.ID, c.Index)
				} else if want.ID != c.ID || want.Term != c.Term {
					bad("(D) node %d slot %d Restore(%d): snapshot holds %q term %d at index %d, replicas applied %q term %d", e.Node, e.Slot, e.Index, c.ID, c.Term, c.Index, want.ID, want.Term)
				}
			}
			for _, i := range between(e.Slot, 0, e.Index+1) {
				if _, ok := held[i]; !ok {
					bad("(D) node %d slot %d Restore(%d): snapshot state misses agreed command %q at index %d", e.Node, e.Slot, e.Index, canon[verifC12Key{e.Slot, i}].ID, i)
					break
				}
			}
			r.held, r.cur = held, e.Index
		case "snapshot":
			f.Snapshots++
			if e.Inflight > 0 {
				f.SnapshotsInflight++
			}
		case "ack":
			f.Acks++
			c, ok := canon[verifC12Key{e.Slot, e.Index}]
			switch {
			case !ok:
				bad("(E) proposal %q was acknowledged by node %d at slot %d index %d term %d, but no replica applied a command at that index", e.ID, e.Node, e.Slot, e.Index, e.Term)
			case c.ID != e.ID || c.Term != e.Term:
				where := "and its own command was applied nowhere: the acknowledged write is lost"
				if idIndexes[fmt.Sprintf("%d|%s", e.Slot, e.ID)] > 0 {
					where = "its own command sits at another index"
				} else {
					f.AckedLost++
				}
				known(e, "(E) proposal %q was acknowledged by node %d at slot %d index %d term %d, but the replicas applied %q term %d there; %s", e.ID, e.Node, e.Slot, e.Index, e.Term, c.ID, c.Term, where)
			case e.Data != verifC12Result(e.ID):
				bad("(E) proposal %q acknowledged at slot %d index %d returned apply result %q, want %q", e.ID, e.Slot, e.Index, e.Data, verifC12Result(e.ID))
			}
		case "fail":
			f.Fails++
		case "reject":
			f.Rejects++
		}
	}

	// (F) end state. Only commands some replica had applied before the
	// settled poll round began are required: at that round every replica
	// reported applied == the same commit index, which bounds their indexes.
	// (Later commits may race with the shutdown, which closes nodes one by one.)
	if h.Settled {
		for node := 1; node <= h.Config.Nodes; node++ {
			for slot := 1; slot <= h.Config.Slots; slot++ {
				r := rep(node, slot)
				for _, i := range bySlot[slot] {
					if firstSeq[verifC12Key{slot, i}] >= h.SettleSeq {
						continue
					}
					c := canon[verifC12Key{slot, i}]
					got, ok := r.held[i]
					if !ok {
						bad("(F) after heal and settle node %d slot %d (state at index %d) does not hold agreed command %q of index %d", node, slot, r.cur, c.ID, i)
						break
					}
					if got.ID != c.ID || got.Term != c.Term {
						bad("(F) after heal and settle node %d slot %d holds %q at index %d, agreed %q", node, slot, got.ID, i, c.ID)
						break
					}
				}
			}
		}
	}
	return f
}
