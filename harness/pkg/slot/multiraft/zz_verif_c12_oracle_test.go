package multiraft_test

import (
	"fmt"
	"sort"
	"strings"
)

// verifC12Facts is what the oracle measured in a history (for labels and the
// non-trivial rule); Violations is empty iff the property held.
type verifC12Facts struct {
	Violations []string
	// KnownClass holds violations of clause (E) of one precisely delimited
	// class, reported under the signature verifC12SigForwarded: a Future
	// resolved successfully on a node that did not lead the term of the entry
	// it was resolved with (the node tracked a future for a proposal it had
	// forwarded as a follower). They are violations; the test decides through
	// kit.KnownFinding whether they are already recorded.
	KnownClass []string
	AckedLost  int // acknowledged proposals whose command no replica ever applied

	Applies           int
	Commands          int // distinct (slot,index) commands
	Acks, Fails       int
	Rejects           int
	Terms             int // max distinct leader terms seen among applied commands of one slot
	LeaderChanges     int // sum over slots of (distinct terms - 1)
	Snapshots         int
	SnapshotsInflight int
	RestoresOpen      int
	RestoresRunning   int // snapshot transfer into a running replica
	Restarts          int
	Kills             int // restarts that were power losses
	Batches           int
	MaxBatch          int
	DupIDs            int // command ids present at more than one index (network duplicated a forwarded proposal)
	ReplayedAfterOpen int // commands re-applied on top of a restored snapshot at restart

	CrashWrites       int // power losses at a storage write
	CrashWhat         map[string]int
	ReplayedAfterCrash int // restarts after a power loss that resumed at an applied-but-not-yet-marked index (state machine without durable applied index)
	DurableChecks     int // restarts whose storage content was compared with the node's promises
	MarkChecks        int // restarts whose durable applied index was compared with the acknowledged MarkApplied calls
	VotesSeen         int // votes (grants and own candidacies) observed on the network
	VoteAfterRestart  int // (node, slot) pairs that voted in a later incarnation than they first voted in
	StaleSteps        int // staleLeader steps
	StaleReached      int // ... where >=2 proposals accepted by the cut-off leader were never applied and its successor applied >=2 commands in a higher term before the heal
	StaleStillLeader  int // ... and the cut-off leader still believed it led when the partition healed
	StaleUnresolved   int // proposals accepted by a cut-off leader that were never applied (lost with its log tail)
}

const verifC12SigForwarded = "ack-by-non-leader-of-term"

type verifC12Key struct {
	slot  int
	index uint64
}

// verifC12Check is the C12 oracle. It is a pure function of the history.
//
// Per slot:
//
//	(A) agreement: every Apply of index i carries the same (term, command) on
//	    every replica, with the hash slot the proposer encoded;
//	(B) order: on each replica applied indexes are strictly increasing; the
//	    only way back is a Restore(j), after which the state is the snapshot's;
//	    an index at or below the current one is never applied again (also not
//	    after a restart that did not restore);
//	(C) no skip: a replica never moves from index c to i > c+1 over an index at
//	    which some replica applied a command;
//	(D) snapshots: the state handed to Restore(j) is exactly the agreed
//	    commands with index <= j;
//	(E) acknowledgements: a Future that reported success (index, term, data)
//	    for proposal p => index holds p with that term on every replica that
//	    applied or restored it, some replica did apply it, data is p's result;
//	(R) a stopped node comes back from what its own storage holds (no
//	    OpenSlot error, no raft panic on the loaded state);
//	(V) within one term a replica votes for at most one candidate, across
//	    its incarnations (two leaders in one term, and with them two commands
//	    at one (index, term), need a double vote);
//	(P) what a replica has told its peers is backed by its storage when it
//	    comes back (the documented processReady order: persist, then send):
//	    its durable term is not below a term it spoke in; a vote it cast in
//	    the durable term is the durable vote; a log index it acknowledged in
//	    the durable term is held; and the durable applied index is the one of
//	    the latest MarkApplied the storage acknowledged (or was executing) -
//	    with a state machine that relies on that mark, anything else re-applies
//	    or skips commands at the restart;
//	(F) after the healed, settled end: every replica holds every command
//	    that was agreed before the settle point, so no acknowledged proposal
//	    is lost.
func verifC12Check(h *verifC12History) verifC12Facts {
	var f verifC12Facts
	bad := func(format string, a ...any) {
		if len(f.Violations) < 20 {
			f.Violations = append(f.Violations, fmt.Sprintf(format, a...))
		}
	}
	events := append([]verifC12Event(nil), h.Events...)
	sort.SliceStable(events, func(i, j int) bool { return events[i].Seq < events[j].Seq })

	// pass 1: agreed command per (slot, index); who led which term
	canon := map[verifC12Key]verifC12Cmd{}
	first := map[verifC12Key]int{}
	firstSeq := map[verifC12Key]int64{}
	ledBy := map[[2]uint64]int{}
	for _, e := range events {
		if e.Kind == "leader" {
			k := [2]uint64{uint64(e.Slot), e.Term}
			if prev, ok := ledBy[k]; ok && prev != e.Node {
				bad("(A) slot %d term %d: both node %d and node %d sent leader messages", e.Slot, e.Term, prev, e.Node)
			}
			ledBy[k] = e.Node
		}
		if e.Kind != "apply" {
			continue
		}
		f.Applies++
		k := verifC12Key{e.Slot, e.Index}
		if e.Index == 0 {
			bad("(A) node %d slot %d applied a command at index 0 (%q)", e.Node, e.Slot, e.ID)
			continue
		}
		if want := verifC12HashSlot(e.ID); e.HashSlot != want {
			bad("(A) node %d slot %d index %d command %q delivered with hash slot %d, proposer encoded %d", e.Node, e.Slot, e.Index, e.ID, e.HashSlot, want)
		}
		if c, ok := canon[k]; ok {
			if c.ID != e.ID || c.Term != e.Term {
				bad("(A) slot %d index %d: node %d applied %q term %d but node %d applied %q term %d", e.Slot, e.Index, first[k], c.ID, c.Term, e.Node, e.ID, e.Term)
			}
			continue
		}
		canon[k] = verifC12Cmd{Index: e.Index, Term: e.Term, ID: e.ID}
		first[k] = e.Node
		firstSeq[k] = e.Seq
	}
	f.Commands = len(canon)
	bySlot := map[int][]uint64{}
	termsBySlot := map[int]map[uint64]bool{}
	idIndexes := map[string]int{}
	for k, c := range canon {
		bySlot[k.slot] = append(bySlot[k.slot], k.index)
		if termsBySlot[k.slot] == nil {
			termsBySlot[k.slot] = map[uint64]bool{}
		}
		termsBySlot[k.slot][c.Term] = true
		idIndexes[fmt.Sprintf("%d|%s", k.slot, c.ID)]++
	}
	for _, n := range idIndexes {
		if n > 1 {
			f.DupIDs++
		}
	}
	known := func(e verifC12Event, format string, a ...any) {
		// the acknowledging node did not lead the term it reported => it had
		// forwarded the proposal as a follower and matched the future FIFO
		if leader, ok := ledBy[[2]uint64{uint64(e.Slot), e.Term}]; ok && leader != e.Node {
			if len(f.KnownClass) < 20 {
				f.KnownClass = append(f.KnownClass, fmt.Sprintf(format, a...)+fmt.Sprintf(" [node %d did not lead term %d, node %d did]", e.Node, e.Term, leader))
			}
			return
		}
		bad(format, a...)
	}
	for s := range bySlot {
		sort.Slice(bySlot[s], func(i, j int) bool { return bySlot[s][i] < bySlot[s][j] })
		n := len(termsBySlot[s])
		if n > f.Terms {
			f.Terms = n
		}
		f.LeaderChanges += n - 1
	}
	// agreed commands of slot with lo < index < hi
	between := func(slot int, lo, hi uint64) []uint64 {
		idx := bySlot[slot]
		i := sort.Search(len(idx), func(i int) bool { return idx[i] > lo })
		var out []uint64
		for ; i < len(idx) && idx[i] < hi; i++ {
			out = append(out, idx[i])
		}
		return out
	}

	// pass 2: per replica sequences
	type replica struct {
		cur        uint64
		held       map[uint64]verifC12Cmd
		lastBatch  int
		batchLen   int
		afterOpen  bool // restored during the current open: following applies are replays
		openCur    uint64
		everOpened bool
		// after a power loss (state machine without durable applied index):
		// the next incarnation may resume above resumeFloor
		resumeArmed bool
		resumeFloor uint64
		resumeInc   int
	}
	reps := map[[2]int]*replica{}
	votedFor := map[[3]uint64]verifC12Event{}
	votesOf := map[[2]int][]verifC12Event{}
	firstVoteInc := map[[2]int]int{}
	rep := func(node, slot int) *replica {
		k := [2]int{node, slot}
		if reps[k] == nil {
			reps[k] = &replica{held: map[uint64]verifC12Cmd{}}
		}
		return reps[k]
	}
	for _, e := range events {
		switch e.Kind {
		case "open":
			if e.Inc > 1 {
				f.Restarts++
			}
		case "kill":
			f.Kills++
			if strings.HasPrefix(e.Err, "write:") {
				f.CrashWrites++
				if f.CrashWhat == nil {
					f.CrashWhat = map[string]int{}
				}
				f.CrashWhat[strings.TrimPrefix(e.Err, "write:")]++
			}
			if h.Config.SMKind != 2 {
				// Apply and MarkApplied are two writes: a state machine without a
				// durable applied index of its own may be handed again what it
				// applied after the last acknowledged mark, and nothing below
				for i, floor := range e.Floors {
					r := rep(e.Node, i+1)
					r.resumeArmed, r.resumeFloor, r.resumeInc = true, floor, e.Inc
				}
			}
		case "vote":
			f.VotesSeen++
			k := [3]uint64{uint64(e.Node), uint64(e.Slot), e.Term}
			if prev, ok := votedFor[k]; ok && prev.Peer != e.Peer {
				bad("(V) node %d slot %d voted twice in term %d: for node %d (incarnation %d) and for node %d (incarnation %d)", e.Node, e.Slot, e.Term, prev.Peer, prev.Inc, e.Peer, e.Inc)
			} else if !ok {
				votedFor[k] = e
			}
			nk := [2]int{e.Node, e.Slot}
			if first, ok := firstVoteInc[nk]; !ok {
				firstVoteInc[nk] = e.Inc
			} else if e.Inc > first && first > 0 {
				firstVoteInc[nk] = -1
				f.VoteAfterRestart++
			}
			votesOf[nk] = append(votesOf[nk], e)
		case "durable":
			f.DurableChecks++
			if e.SentTerm > e.Term {
				bad("(P) node %d slot %d came back (incarnation %d) with durable term %d, but it had sent messages in term %d", e.Node, e.Slot, e.Inc, e.Term, e.SentTerm)
			}
			for _, v := range votesOf[[2]int{e.Node, e.Slot}] {
				if v.Inc < e.Inc && v.Term == e.Term && uint64(v.Peer) != e.Vote {
					bad("(P) node %d slot %d came back (incarnation %d) with durable term %d vote %d, but incarnation %d had cast its vote of that term for node %d", e.Node, e.Slot, e.Inc, e.Term, e.Vote, v.Inc, v.Peer)
				}
			}
			if e.AckTerm != 0 && e.AckTerm == e.Term && e.Last < e.AckIndex {
				bad("(P) node %d slot %d came back (incarnation %d) with last log index %d in term %d, but it had acknowledged index %d in that term", e.Node, e.Slot, e.Inc, e.Last, e.Term, e.AckIndex)
			}
			if len(e.Marks) > 0 {
				f.MarkChecks++
				ok := false
				for _, m := range e.Marks {
					ok = ok || m == e.Index
				}
				if !ok {
					bad("(P) node %d slot %d came back (incarnation %d) with durable applied index %d; the storage had acknowledged MarkApplied(%d) last (acknowledged or in flight at the stop: %v)", e.Node, e.Slot, e.Inc, e.Index, e.Marks[0], e.Marks)
				}
			}
		case "stale":
			f.StaleSteps++
			lost := 0
			for _, id := range e.IDs {
				if idIndexes[fmt.Sprintf("%d|%s", e.Slot, id)] == 0 {
					lost++
				}
			}
			f.StaleUnresolved += lost
			newer := 0
			for k, c := range canon {
				if k.slot == e.Slot && c.Term > e.Term && firstSeq[k] < e.Seq {
					newer++
				}
			}
			if lost >= 2 && e.Peer != 0 && newer >= 2 {
				f.StaleReached++
				if e.Opening {
					f.StaleStillLeader++
				}
			}
		case "restartfailed":
			bad("(R) %s", e.Err)
		case "apply":
			r := rep(e.Node, e.Slot)
			if r.resumeArmed && e.Inc > r.resumeInc {
				r.resumeArmed = false
				if e.Index <= r.cur && e.Index > r.resumeFloor {
					// the restart resumes at a command applied after the last
					// acknowledged MarkApplied: the suffix is handed over again
					f.ReplayedAfterCrash++
					for i := range r.held {
						if i >= e.Index {
							delete(r.held, i)
						}
					}
					r.cur = e.Index - 1
					if prev := between(e.Slot, r.resumeFloor, e.Index); len(prev) > 0 {
						if _, ok := r.held[prev[len(prev)-1]]; !ok {
							bad("(C) node %d slot %d (incarnation %d) resumed at index %d after a power loss without holding agreed command at %d", e.Node, e.Slot, e.Inc, e.Index, prev[len(prev)-1])
						}
					}
				}
			}
			if e.Index <= r.cur {
				if _, had := r.held[e.Index]; had {
					bad("(B) node %d slot %d (incarnation %d) applied index %d (%q) again: its state already was at index %d", e.Node, e.Slot, e.Inc, e.Index, e.ID, r.cur)
				} else {
					bad("(B) node %d slot %d (incarnation %d) applied index %d (%q) out of order: its state already was at index %d", e.Node, e.Slot, e.Inc, e.Index, e.ID, r.cur)
				}
			} else if skipped := between(e.Slot, r.cur, e.Index); len(skipped) > 0 {
				bad("(C) node %d slot %d (incarnation %d) went from index %d to %d and skipped agreed command(s) at %v (first: %q)", e.Node, e.Slot, e.Inc, r.cur, e.Index, skipped, canon[verifC12Key{e.Slot, skipped[0]}].ID)
			}
			if r.afterOpen && e.Index <= r.openCur {
				f.ReplayedAfterOpen++
			}
			r.held[e.Index] = verifC12Cmd{Index: e.Index, Term: e.Term, ID: e.ID}
			if e.Index > r.cur {
				r.cur = e.Index
			}
			if e.Batch > 0 {
				if e.Batch != r.lastBatch {
					f.Batches++
					r.lastBatch, r.batchLen = e.Batch, 0
				}
				r.batchLen++
				if r.batchLen > f.MaxBatch {
					f.MaxBatch = r.batchLen
				}
			}
		case "restore":
			r := rep(e.Node, e.Slot)
			if e.Err != "" {
				bad("(D) node %d slot %d Restore(%d): %s", e.Node, e.Slot, e.Index, e.Err)
				continue
			}
			r.resumeArmed = false
			if e.Opening {
				f.RestoresOpen++
				r.afterOpen, r.openCur = true, r.cur
			} else {
				f.RestoresRunning++
				if e.Index < r.cur {
					bad("(B) node %d slot %d: running replica at index %d was restored back to snapshot index %d", e.Node, e.Slot, r.cur, e.Index)
				}
			}
			held := map[uint64]verifC12Cmd{}
			var prev uint64
			for _, c := range e.Content {
				if c.Index <= prev || c.Index > e.Index {
					bad("(D) node %d slot %d Restore(%d): snapshot state is not an ordered prefix (index %d after %d)", e.Node, e.Slot, e.Index, c.Index, prev)
				}
				prev = c.Index
				held[c.Index] = c
				want, ok := canon[verifC12Key{e.Slot, c.Index}]
				if !ok {
					bad("(D) node %d slot %d Restore(%d): snapshot holds %q at index %d which no replica ever applied", e.Node, e.Slot, e.Index, c.ID, c.Index)
				} else if want.ID != c.ID || want.Term != c.Term {
					bad("(D) node %d slot %d Restore(%d): snapshot holds %q term %d at index %d, replicas applied %q term %d", e.Node, e.Slot, e.Index, c.ID, c.Term, c.Index, want.ID, want.Term)
				}
			}
			for _, i := range between(e.Slot, 0, e.Index+1) {
				if _, ok := held[i]; !ok {
					bad("(D) node %d slot %d Restore(%d): snapshot state misses agreed command %q at index %d", e.Node, e.Slot, e.Index, canon[verifC12Key{e.Slot, i}].ID, i)
					break
				}
			}
			r.held, r.cur = held, e.Index
		case "snapshot":
			f.Snapshots++
			if e.Inflight > 0 {
				f.SnapshotsInflight++
			}
		case "ack":
			f.Acks++
			c, ok := canon[verifC12Key{e.Slot, e.Index}]
			switch {
			case !ok:
				bad("(E) proposal %q was acknowledged by node %d at slot %d index %d term %d, but no replica applied a command at that index", e.ID, e.Node, e.Slot, e.Index, e.Term)
			case c.ID != e.ID || c.Term != e.Term:
				where := "and its own command was applied nowhere: the acknowledged write is lost"
				if idIndexes[fmt.Sprintf("%d|%s", e.Slot, e.ID)] > 0 {
					where = "its own command sits at another index"
				} else {
					f.AckedLost++
				}
				known(e, "(E) proposal %q was acknowledged by node %d at slot %d index %d term %d, but the replicas applied %q term %d there; %s", e.ID, e.Node, e.Slot, e.Index, e.Term, c.ID, c.Term, where)
			case e.Data != verifC12Result(e.ID):
				bad("(E) proposal %q acknowledged at slot %d index %d returned apply result %q, want %q", e.ID, e.Slot, e.Index, e.Data, verifC12Result(e.ID))
			}
		case "fail":
			f.Fails++
		case "reject":
			f.Rejects++
		}
	}

	// (F) end state. Only commands some replica had applied before the
	// settled poll round began are required: at that round every replica
	// reported applied == the same commit index, which bounds their indexes.
	// (Later commits may race with the shutdown, which closes nodes one by one.)
	if h.Settled {
		for node := 1; node <= h.Config.Nodes; node++ {
			for slot := 1; slot <= h.Config.Slots; slot++ {
				r := rep(node, slot)
				for _, i := range bySlot[slot] {
					if firstSeq[verifC12Key{slot, i}] >= h.SettleSeq {
						continue
					}
					c := canon[verifC12Key{slot, i}]
					got, ok := r.held[i]
					if !ok {
						bad("(F) after heal and settle node %d slot %d (state at index %d) does not hold agreed command %q of index %d", node, slot, r.cur, c.ID, i)
						break
					}
					if got.ID != c.ID || got.Term != c.Term {
						bad("(F) after heal and settle node %d slot %d holds %q at index %d, agreed %q", node, slot, got.ID, i, c.ID)
						break
					}
				}
			}
		}
	}
	return f
}
