package multiraft_test

// C12, one replica under the magnifying glass: a single-voter slot group on
// the real Runtime and the real raft log (Pebble on an in-memory file system,
// or the memory store), driven by a rapid-drawn sequence of client bursts,
// graceful restarts, power losses at a chosen storage write (crash point
// enumeration: class of write x Nth occurrence x before/after it is durable)
// and compactions. With one voter there is no network and no election race,
// so the drawn sequence fixes the history up to goroutine scheduling inside
// the runtime; the verdict is the same history oracle as for the cluster
// (verifC12Check): the replica never re-applies or skips a command across a
// restart, acknowledged proposals are applied at the acknowledged index, and
// what the storage holds at a restart is what it had acknowledged.

import (
	"context"
	"errors"
	"fmt"
	"strings"
	"sync"
	"testing"
	"time"

	"github.com/WuKongIM/WuKongIM/pkg/slot/multiraft"
	"pgregory.net/rapid"
	"verif.local/kit"
)

type verifC12SingleOp struct {
	Kind   string // burst, restart, crash, compact
	Slot   int
	N      int
	Wait   bool
	Class  string
	Nth    int
	Before bool
}

func (o verifC12SingleOp) String() string {
	switch o.Kind {
	case "burst":
		return fmt.Sprintf("burst(s%d x%d wait=%v)", o.Slot, o.N, o.Wait)
	case "crash":
		return fmt.Sprintf("crash(%s#%d before=%v then s%d x%d)", o.Class, o.Nth, o.Before, o.Slot, o.N)
	case "compact":
		return fmt.Sprintf("compact(s%d)", o.Slot)
	}
	return o.Kind
}

var errVerifC12SingleStuck = errors.New("verifC12: single replica did not get there in time")

type verifC12Single struct {
	c      *verifC12Cluster
	ctx    context.Context
	wg     sync.WaitGroup
	serial int
	live   []string // proposals the running incarnation accepted
}

func (d *verifC12Single) node() *verifC12Node { return d.c.nodes[0] }

// waitLeader waits (bounded) until the replica leads every slot.
func (d *verifC12Single) waitLeader() error {
	deadline := time.Now().Add(10 * time.Second)
	for time.Now().Before(deadline) {
		rt := d.node().runtime()
		if rt == nil {
			return errVerifC12SingleStuck
		}
		all := true
		for s := 1; s <= d.c.cfg.Slots; s++ {
			st, err := rt.Status(multiraft.SlotID(s))
			if err != nil || st.Role != multiraft.RoleLeader {
				all = false
				break
			}
		}
		if all {
			return nil
		}
		time.Sleep(time.Millisecond)
	}
	return errVerifC12SingleStuck
}

func (d *verifC12Single) burst(slot, n int) []string {
	var ids []string
	rt := d.node().runtime()
	if rt == nil {
		return nil
	}
	for i := 0; i < n; i++ {
		d.serial++
		id := fmt.Sprintf("s%d-o%d", slot, d.serial)
		fut, err := rt.Propose(d.ctx, multiraft.SlotID(slot), verifC12Payload(id))
		if err != nil {
			d.c.hist.add(verifC12Event{Kind: "reject", Node: 1, Slot: slot, ID: id, Err: err.Error()})
			continue
		}
		ids = append(ids, id)
		d.live = append(d.live, id)
		d.c.inflight.Add(1)
		d.c.pending.Store(id, 1)
		d.wg.Add(1)
		go func() {
			defer d.wg.Done()
			res, err := fut.Wait(d.ctx)
			if err != nil {
				d.c.hist.add(verifC12Event{Kind: "fail", Node: 1, Slot: slot, ID: id, Err: err.Error()})
			} else {
				d.c.hist.add(verifC12Event{Kind: "ack", Node: 1, Slot: slot, ID: id, Index: res.Index, Term: res.Term, Data: string(res.Data)})
			}
			d.c.inflight.Add(-1)
			d.c.pending.Delete(id)
		}()
	}
	return ids
}

func (d *verifC12Single) waitResolved(ids []string) error {
	deadline := time.Now().Add(10 * time.Second)
	for time.Now().Before(deadline) {
		open := false
		for _, id := range ids {
			if _, ok := d.c.pending.Load(id); ok {
				open = true
				break
			}
		}
		if !open {
			return nil
		}
		time.Sleep(200 * time.Microsecond)
	}
	return errVerifC12SingleStuck
}

// quiesce waits (bounded) until every proposal the running incarnation
// accepted is resolved and every slot has applied what it committed. (Futures
// of a stopped incarnation that were still queued at its Close never resolve;
// that is the liveness matter the spec lists, not waited for.)
func (d *verifC12Single) quiesce() error {
	if err := d.waitResolved(d.live); err != nil {
		return err
	}
	deadline := time.Now().Add(10 * time.Second)
	for time.Now().Before(deadline) {
		rt := d.node().runtime()
		if rt == nil {
			return errVerifC12SingleStuck
		}
		ok := true
		for s := 1; ok && s <= d.c.cfg.Slots; s++ {
			st, err := rt.Status(multiraft.SlotID(s))
			ok = err == nil && st.Role == multiraft.RoleLeader && st.CommitIndex == st.AppliedIndex
		}
		if ok {
			return nil
		}
		time.Sleep(time.Millisecond)
	}
	return errVerifC12SingleStuck
}

func TestVerifC12SingleReplica(t *testing.T) {
	kit.Check(t, "C12", func(rt *rapid.T, k *kit.Case) {
		cfg := verifC12Config{Nodes: 1, TickMS: 2, ElectionTick: 5, HeartbeatTick: 1, PreVote: true, CheckQuorum: true, Seed: 1}
		cfg.Slots = rapid.IntRange(1, 3).Draw(rt, "slots")
		cfg.Workers = rapid.IntRange(1, 3).Draw(rt, "workers")
		cfg.Trigger = rapid.SampledFrom([]uint64{0, 0, 100000, 3, 6}).Draw(rt, "trigger")
		cfg.SMKind = rapid.IntRange(0, 2).Draw(rt, "smKind")
		cfg.MaxApplying = rapid.SampledFrom([]int{0, 1, 4}).Draw(rt, "maxApplying")
		if rapid.IntRange(0, 3).Draw(rt, "storage") != 0 {
			cfg.Pebble, cfg.MemFS = true, true
		}
		nOps := rapid.IntRange(4, 12).Draw(rt, "nOps")
		var ops []verifC12SingleOp
		for i := 0; i < nOps; i++ {
			op := verifC12SingleOp{Kind: rapid.SampledFrom([]string{"burst", "burst", "burst", "restart", "restart", "crash", "crash", "compact"}).Draw(rt, "op")}
			op.Slot = rapid.IntRange(1, cfg.Slots).Draw(rt, "slot")
			switch op.Kind {
			case "burst":
				op.N = rapid.IntRange(1, 6).Draw(rt, "n")
				op.Wait = rapid.IntRange(0, 2).Draw(rt, "wait") != 0
			case "crash":
				op.Class = rapid.SampledFrom([]string{"any", "entries", "hardstate", "applied", "applied", "snapshot"}).Draw(rt, "class")
				op.Nth = rapid.IntRange(1, 5).Draw(rt, "nth")
				op.Before = rapid.IntRange(0, 2).Draw(rt, "before") != 0
				op.N = rapid.IntRange(1, 6).Draw(rt, "n")
			}
			ops = append(ops, op)
		}

		dir := ""
		if cfg.Pebble {
			var cleanup func()
			dir, cleanup = kit.TempDir()
			defer cleanup()
		}
		c := verifC12NewCluster(cfg, dir)
		ctx, cancel := context.WithCancel(context.Background())
		d := &verifC12Single{c: c, ctx: ctx}
		stuck := ""
		restarts, crashes, busyStops := 0, 0, 0
		var crashWhat []string
		func() {
			defer func() {
				_ = d.node().reap()
				c.net.close()
				cancel()
				d.wg.Wait()
			}()
			if err := d.node().start(); err != nil {
				stuck = "start: " + err.Error()
				return
			}
			if d.waitLeader() != nil {
				stuck = "no leader after bootstrap"
				return
			}
			comeBack := func() bool {
				if err := d.node().start(); err != nil {
					if errors.Is(err, verifC12ErrRestart) {
						c.hist.add(verifC12Event{Kind: "restartfailed", Node: 1, Err: err.Error()})
					} else {
						stuck = "restart: " + err.Error()
					}
					return false
				}
				restarts++
				d.live = nil
				if d.waitLeader() != nil {
					stuck = "no leader after restart"
					return false
				}
				return true
			}
			runOp := func(op verifC12SingleOp) bool {
				switch op.Kind {
				case "burst":
					ids := d.burst(op.Slot, op.N)
					if op.Wait && d.waitResolved(ids) != nil {
						stuck = "proposals unresolved"
						return false
					}
				case "restart":
					if c.inflight.Load() > 0 {
						busyStops++
					}
					if err := d.node().stop(); err != nil {
						stuck = "close: " + err.Error()
						return false
					}
					return comeBack()
				case "crash":
					fault := verifC12NewFault(op.Class, 0, op.Nth, op.Before, 0, 1)
					d.node().fault.Store(fault)
					d.burst(op.Slot, op.N)
					select {
					case <-fault.fired:
					case <-time.After(100 * time.Millisecond):
					}
					fired := fault.cancel()
					d.node().fault.Store(nil)
					if !fired {
						return true
					}
					crashes++
					crashWhat = append(crashWhat, fault.what)
					if c.inflight.Load() > 0 {
						busyStops++
					}
					if err := d.node().reap(); err != nil {
						stuck = "close: " + err.Error()
						return false
					}
					return comeBack()
				case "compact":
					if r := d.node().runtime(); r != nil {
						cctx, ccancel := context.WithTimeout(ctx, 5*time.Second)
						_, _ = r.CompactLog(cctx, multiraft.SlotID(op.Slot))
						ccancel()
					}
				}
				return true
			}
			for _, op := range ops {
				if !runOp(op) {
					return
				}
			}
			if d.quiesce() == nil {
				c.hist.SettleSeq = c.hist.now()
				c.hist.Settled = true
			}
			if err := d.node().stop(); err != nil {
				stuck = "close: " + err.Error()
			}
		}()

		facts := verifC12Check(c.hist)
		var desc strings.Builder
		fmt.Fprintf(&desc, "slots=%d workers=%d trigger=%d sm=%d applying=%d pebble=%v ops=", cfg.Slots, cfg.Workers, cfg.Trigger, cfg.SMKind, cfg.MaxApplying, cfg.Pebble)
		for _, op := range ops {
			desc.WriteString(op.String() + " ")
		}
		if len(facts.Violations) > 0 {
			// rapid shrinks and re-runs the case; its fail file is the replay artefact
			rt.Fatalf("C12 violated\ncase: %s\n  %s", desc.String(), strings.Join(facts.Violations, "\n  "))
		}
		if stuck != "" {
			// a bounded wait ran out: not a verdict
			rt.Skip("not judged: " + stuck)
		}
		k.Key("single", desc.String())
		k.SetNonTrivial(restarts > 0 && facts.Acks > 0 && (crashes > 0 || busyStops > 0))
		k.Label("single replica")
		k.LabelIf(cfg.Pebble, "single replica: pebble raftlog")
		k.LabelIf(restarts > 0, "single replica: restarted")
		k.LabelIf(crashes > 0, "single replica: power lost at a storage write")
		for _, w := range crashWhat {
			k.Label("single replica: power lost at write: " + w)
		}
		k.LabelIf(busyStops > 0, "single replica: stopped while proposals in flight")
		k.LabelIf(facts.RestoresOpen > 0, "single replica: restart restored from local snapshot")
		k.LabelIf(facts.ReplayedAfterCrash > 0, "single replica: restart after power loss resumed above the last acknowledged MarkApplied")
		k.LabelIf(facts.MarkChecks > 0, "single replica: durable applied index compared with acknowledged MarkApplied")
		k.LabelIf(cfg.SMKind != 2 && cfg.Pebble && restarts > 0, "single replica: pebble raftlog restarted under a state machine that relies on MarkApplied")
		k.Label(fmt.Sprintf("single replica: state machine flavour %d", cfg.SMKind))
		k.Sample(func() any {
			return fmt.Sprintf("%s => commands=%d acks=%d fails=%d restarts=%d crashes=%v", desc.String(), facts.Commands, facts.Acks, facts.Fails, restarts, crashWhat)
		})
	})
}
