package multiraft_test

// C12 cluster simulator: N real multiraft Runtimes wired by a harness
// network whose per-link behaviour (drop, duplicate, delay/reorder,
// partitions) is scripted, recorder state machines that log every
// Apply/ApplyBatch/Restore/Snapshot, and crash-restart of nodes
// (Close runtime + storage, reopen, OpenSlot). The package is the external
// test package because pkg/raftlog imports multiraft.

import (
	"container/heap"
	"context"
	"encoding/binary"
	"encoding/json"
	"errors"
	"fmt"
	"hash/crc32"
	"math/rand"
	mrand2 "math/rand/v2"
	"path/filepath"
	"sort"
	"sync"
	"sync/atomic"
	"time"

	"github.com/WuKongIM/WuKongIM/pkg/raftlog"
	"github.com/WuKongIM/WuKongIM/pkg/slot/multiraft"
	"github.com/cockroachdb/pebble/v2"
	"github.com/cockroachdb/pebble/v2/vfs"
	raft "go.etcd.io/raft/v3"
	"go.etcd.io/raft/v3/raftpb"
)

// ---------------------------------------------------------------- history

// verifC12Cmd is one command held by a recorder state machine.
type verifC12Cmd struct {
	Index uint64 `json:"i"`
	Term  uint64 `json:"t"`
	ID    string `json:"id"`
}

// verifC12Event is one recorded observation. Kinds:
//
//	apply    state machine applied command ID at Index/Term (Batch>0: part of ApplyBatch call #Batch)
//	restore  state machine Restore(Index) with Content (Opening: during OpenSlot of a restart)
//	snapshot state machine Snapshot() taken with its state at Index (N commands)
//	open     node (re)started; close: node stopped gracefully; kill: node lost power (storage = crash image)
//	leader   the network first saw Node send MsgApp/MsgHeartbeat/MsgSnap in Term for Slot: Node led that term
//	ack      Future.Wait returned success (Index, Term, Data) for proposal ID submitted on Node
//	fail     Future.Wait returned an error (Err) for proposal ID
//	reject   Propose returned an error synchronously
//	vote     the network saw Node hand a granted MsgVoteResp for candidate Peer (or its own MsgVote, Peer == Node) in Term to its transport
//	durable  what Node's storage held for Slot when incarnation Inc was about to open it (Term, Vote, Last index, Index = applied index),
//	         next to what the previous incarnations had handed to their transport (SentTerm, AckTerm/AckIndex) and the
//	         MarkApplied values the storage had acknowledged or was executing when the node stopped (Marks)
//	stale    fault script: Node led Slot in Term, was cut off and accepted the proposals IDs; Peer took over (0: nobody) and
//	         accepted N proposals before the heal; Opening: Node still believed it led when the partition healed
type verifC12Event struct {
	Seq      int64         `json:"seq"`
	Kind     string        `json:"k"`
	Node     int           `json:"n"`
	Slot     int           `json:"s,omitempty"`
	Inc      int           `json:"inc,omitempty"`
	Index    uint64        `json:"i,omitempty"`
	Term     uint64        `json:"t,omitempty"`
	ID       string        `json:"id,omitempty"`
	HashSlot uint16        `json:"hs,omitempty"`
	Batch    int           `json:"b,omitempty"`
	Opening  bool          `json:"opening,omitempty"`
	N        int           `json:"cnt,omitempty"`
	Inflight int           `json:"inflight,omitempty"`
	Content  []verifC12Cmd `json:"content,omitempty"`
	Data     string        `json:"data,omitempty"`
	Err      string        `json:"err,omitempty"`
	Peer     int           `json:"peer,omitempty"`
	Vote     uint64        `json:"vote,omitempty"`
	Last     uint64        `json:"last,omitempty"`
	SentTerm uint64        `json:"sent_term,omitempty"`
	AckTerm  uint64        `json:"ack_term,omitempty"`
	AckIndex uint64        `json:"ack_index,omitempty"`
	Marks    []uint64      `json:"marks,omitempty"`
	Floors   []uint64      `json:"floors,omitempty"` // kill: per slot, the last MarkApplied index the storage had acknowledged
	IDs      []string      `json:"ids,omitempty"`
}

// verifC12History is the replayable record of one run.
type verifC12History struct {
	Config  verifC12Config `json:"config"`
	Settled bool           `json:"settled"`
	// SettleSeq: every event with Seq < SettleSeq happened before the poll
	// round in which all replicas reported the same applied == commit index.
	SettleSeq int64           `json:"settle_seq"`
	Events    []verifC12Event `json:"events"`

	mu  sync.Mutex
	seq int64
}

func (h *verifC12History) add(e verifC12Event) {
	h.mu.Lock()
	h.seq++
	e.Seq = h.seq
	h.Events = append(h.Events, e)
	h.mu.Unlock()
}

func (h *verifC12History) now() int64 {
	h.mu.Lock()
	defer h.mu.Unlock()
	return h.seq + 1
}

func (h *verifC12History) marshal() []byte {
	h.mu.Lock()
	defer h.mu.Unlock()
	b, _ := json.Marshal(h)
	return b
}

// ---------------------------------------------------------------- config / script

type verifC12Link struct {
	DropPermille int `json:"drop"`
	DupPermille  int `json:"dup"`
	DelayMinUS   int `json:"dmin"`
	DelayMaxUS   int `json:"dmax"`
	TailPermille int `json:"tail"` // share of messages delayed up to TailUS (reordering)
	TailUS       int `json:"tailus"`
}

type verifC12Step struct {
	Kind     string        `json:"kind"` // isolate, oneway, split, heal, link, restart, transfer, compact, pause, staleLeader, crashWrite, voteCrash
	Nodes    []int         `json:"nodes,omitempty"`
	Slot     int           `json:"slot,omitempty"`
	DownMS   int           `json:"down,omitempty"`
	Unsynced int           `json:"unsynced,omitempty"` // Kill mode: percent of unsynced data that survives the power loss
	PauseMS  int           `json:"pause"`
	Link     *verifC12Link `json:"link,omitempty"`
	// staleLeader: K proposals on the cut-off leader, M on its successor; OneWay: only the leader's outbound links are cut
	K      int  `json:"k,omitempty"`
	M      int  `json:"m,omitempty"`
	OneWay bool `json:"oneway,omitempty"`
	// crashWrite: the node loses power at its Nth storage write of class Class, before (or right after) the write is durable
	Class  string `json:"class,omitempty"`
	Nth    int    `json:"nth,omitempty"`
	Before bool   `json:"before,omitempty"`
}

type verifC12Config struct {
	Nodes         int            `json:"nodes"`
	Slots         int            `json:"slots"`
	TickMS        int            `json:"tick_ms"`
	ElectionTick  int            `json:"election_tick"`
	HeartbeatTick int            `json:"heartbeat_tick"`
	PreVote       bool           `json:"prevote"`
	CheckQuorum   bool           `json:"checkquorum"`
	Workers       int            `json:"workers"`
	Trigger       uint64         `json:"trigger"` // 0: compaction disabled
	SMKind        int            `json:"sm"`      // 0 plain Apply, 1 ApplyBatch, 2 ApplyBatch + DurableAppliedIndex
	Pebble        bool           `json:"pebble"`
	MemFS         bool           `json:"memfs,omitempty"` // pebble on an in-memory file system (no power loss)
	Kill          bool           `json:"kill"` // restarts are power losses: storage continues from a crash image (pebble on CrashableMem)
	MaxSizePerMsg uint64         `json:"max_size_per_msg"`
	MaxInflight   int            `json:"max_inflight"`
	MaxApplying   int            `json:"max_applying"`
	Link          verifC12Link   `json:"link"`
	PerSlot       int            `json:"per_slot"`
	Window        int            `json:"window"`
	GapUS         int            `json:"gap_us"`
	LeaderBias    int            `json:"leader_bias"`
	Proposers     int            `json:"proposers"`
	Sticky        bool           `json:"sticky"`
	Seed          int64          `json:"seed"`
	Steps         []verifC12Step `json:"steps"`
}

// ---------------------------------------------------------------- recorder state machine

type verifC12Rec struct {
	c    *verifC12Cluster
	node int
	slot int

	mu       sync.Mutex
	last     uint64 // raft index of the newest command applied or snapshot restored
	lastCmd  uint64 // index of the newest command held
	lastTerm uint64
	content  []verifC12Cmd
	batches  int
	opening  atomic.Bool
	inc      atomic.Int32
}

func verifC12Payload(id string) []byte {
	out := make([]byte, 10+len(id))
	binary.BigEndian.PutUint16(out[:2], verifC12HashSlot(id))
	binary.BigEndian.PutUint64(out[2:10], 1)
	copy(out[10:], id)
	return out
}

func verifC12HashSlot(id string) uint16 { return uint16(crc32.ChecksumIEEE([]byte(id)) % 256) }

func verifC12Result(id string) string { return "ok:" + id }

func (r *verifC12Rec) applyLocked(cmd multiraft.Command, batch int) []byte {
	id := string(cmd.Data)
	r.c.hist.add(verifC12Event{Kind: "apply", Node: r.node, Slot: r.slot, Inc: int(r.inc.Load()),
		Index: cmd.Index, Term: cmd.Term, ID: id, HashSlot: cmd.HashSlot, Batch: batch})
	if n := len(r.content); n > 0 && r.content[n-1].Index >= cmd.Index {
		// handed a command again (the oracle judges whether that was allowed,
		// see resumeFloor): like an idempotent state machine the recorder keeps
		// its state a function of the log prefix instead of holding it twice
		i := sort.Search(n, func(i int) bool { return r.content[i].Index >= cmd.Index })
		r.content = append([]verifC12Cmd(nil), r.content[:i]...)
	}
	r.content = append(r.content, verifC12Cmd{Index: cmd.Index, Term: cmd.Term, ID: id})
	r.last, r.lastCmd, r.lastTerm = cmd.Index, cmd.Index, cmd.Term
	return []byte(verifC12Result(id))
}

// verifC12Inc is one incarnation (process lifetime) of a node. After a power
// loss the old incarnation may still be winding down inside the harness
// process; nothing it does may reach the network or the state machine.
type verifC12Inc struct {
	n    int
	dead atomic.Bool
	// a storage write of an incarnation that lost power never returns while
	// the runtime is live (a write error would be a different fault: the
	// runtime does not survive one, it asks raft for the next Ready without
	// having advanced the failed one); release is closed once the runtime
	// has been marked closed
	release     chan struct{}
	releaseOnce sync.Once
}

func (i *verifC12Inc) lost() error {
	<-i.release
	return verifC12ErrDead
}

var verifC12ErrDead = errors.New("verifC12: this incarnation lost power")

type verifC12Snap struct {
	Last    uint64        `json:"last"`
	Content []verifC12Cmd `json:"content"`
}

// verifC12SM is the plain flavour: Apply, Restore, Snapshot only.
type verifC12SM struct {
	r   *verifC12Rec
	inc *verifC12Inc
}

func (s verifC12SM) Apply(_ context.Context, cmd multiraft.Command) ([]byte, error) {
	r := s.r
	r.mu.Lock()
	defer r.mu.Unlock()
	if s.inc.dead.Load() {
		return nil, verifC12ErrDead
	}
	return r.applyLocked(cmd, 0), nil
}

func (s verifC12SM) applyBatch(cmds []multiraft.Command) ([][]byte, error) {
	r := s.r
	r.mu.Lock()
	defer r.mu.Unlock()
	if s.inc.dead.Load() {
		return nil, verifC12ErrDead
	}
	r.batches++
	out := make([][]byte, len(cmds))
	for i, cmd := range cmds {
		out[i] = r.applyLocked(cmd, r.batches)
	}
	return out, nil
}

func (s verifC12SM) Snapshot(context.Context) (multiraft.Snapshot, error) {
	r := s.r
	r.mu.Lock()
	defer r.mu.Unlock()
	if s.inc.dead.Load() {
		return multiraft.Snapshot{}, verifC12ErrDead
	}
	data, _ := json.Marshal(verifC12Snap{Last: r.last, Content: r.content})
	inflight := int(r.c.inflight.Load())
	r.c.hist.add(verifC12Event{Kind: "snapshot", Node: r.node, Slot: r.slot, Inc: int(r.inc.Load()),
		Index: r.last, Term: r.lastTerm, N: len(r.content), Inflight: inflight})
	return multiraft.Snapshot{Index: r.last, Term: r.lastTerm, Data: data}, nil
}

func (s verifC12SM) Restore(_ context.Context, snap multiraft.Snapshot) error {
	r := s.r
	var decoded verifC12Snap
	err := json.Unmarshal(snap.Data, &decoded)
	r.mu.Lock()
	defer r.mu.Unlock()
	if s.inc.dead.Load() {
		return verifC12ErrDead
	}
	if err != nil {
		// the state machine cannot make sense of the bytes it was handed:
		// record it so that the oracle reports it, and refuse.
		r.c.hist.add(verifC12Event{Kind: "restore", Node: r.node, Slot: r.slot, Inc: int(r.inc.Load()),
			Index: snap.Index, Term: snap.Term, Opening: r.opening.Load(), Err: "undecodable snapshot: " + err.Error()})
		return fmt.Errorf("verifC12: undecodable snapshot: %w", err)
	}
	r.content = append([]verifC12Cmd(nil), decoded.Content...)
	r.last, r.lastTerm = snap.Index, snap.Term
	r.lastCmd = 0
	if n := len(r.content); n > 0 {
		r.lastCmd = r.content[n-1].Index
	}
	r.c.hist.add(verifC12Event{Kind: "restore", Node: r.node, Slot: r.slot, Inc: int(r.inc.Load()),
		Index: snap.Index, Term: snap.Term, Opening: r.opening.Load(), N: len(r.content),
		Content: append([]verifC12Cmd(nil), r.content...)})
	return nil
}

// verifC12BatchSM adds ApplyBatch.
type verifC12BatchSM struct{ verifC12SM }

func (s verifC12BatchSM) ApplyBatch(_ context.Context, cmds []multiraft.Command) ([][]byte, error) {
	return s.applyBatch(cmds)
}

// verifC12DurableSM adds ApplyBatch and DurableAppliedIndex (what the
// production FSM implements).
type verifC12DurableSM struct{ verifC12SM }

func (s verifC12DurableSM) ApplyBatch(_ context.Context, cmds []multiraft.Command) ([][]byte, error) {
	return s.applyBatch(cmds)
}

func (s verifC12DurableSM) DurableAppliedIndex(context.Context) (uint64, error) {
	s.r.mu.Lock()
	defer s.r.mu.Unlock()
	return s.r.lastCmd, nil
}

func (r *verifC12Rec) sm(kind int, inc *verifC12Inc) multiraft.StateMachine {
	base := verifC12SM{r: r, inc: inc}
	switch kind {
	case 1:
		return verifC12BatchSM{base}
	case 2:
		return verifC12DurableSM{base}
	default:
		return base
	}
}

// ---------------------------------------------------------------- network

type verifC12Packet struct {
	at   time.Time
	seq  uint64
	to   int
	slot multiraft.SlotID
	raw  []byte
}

type verifC12Heap []*verifC12Packet

func (h verifC12Heap) Len() int { return len(h) }
func (h verifC12Heap) Less(i, j int) bool {
	if h[i].at.Equal(h[j].at) {
		return h[i].seq < h[j].seq
	}
	return h[i].at.Before(h[j].at)
}
func (h verifC12Heap) Swap(i, j int) { h[i], h[j] = h[j], h[i] }
func (h *verifC12Heap) Push(x any)   { *h = append(*h, x.(*verifC12Packet)) }
func (h *verifC12Heap) Pop() any {
	old := *h
	n := len(old)
	x := old[n-1]
	old[n-1] = nil
	*h = old[:n-1]
	return x
}

type verifC12Net struct {
	c *verifC12Cluster

	mu      sync.Mutex
	rng     *rand.Rand
	link    verifC12Link
	blocked map[[2]int]bool
	q       verifC12Heap
	seq     uint64
	closed  bool
	wake    chan struct{}
	done    chan struct{}

	leaders map[[2]uint64]int // (slot, term) -> node seen sending leader-only messages
	// promises: what each node handed to its transport, per (node, slot)
	promises map[[2]int]*verifC12Promise
	votes    map[[4]uint64]bool // (node, slot, term, candidate)

	sent, dropped, duped, delivered, blockedDrops, snaps atomic.Int64

	// tripped: clause (V) or (P) of the oracle is already violated (seen on
	// line). Two leaders of one term, or a follower that lost a log suffix it
	// had acknowledged, drive raft into panics that would take the process -
	// and the history - down before the oracle speaks, so from here on
	// nothing is delivered and the run ends at the next step.
	tripped atomic.Bool
	votedFor map[[3]uint64]uint64 // (node, slot, term) -> candidate
}

// verifC12Promise summarises the messages a node has handed to its transport
// for one slot: the highest term it spoke in (pre-vote traffic carries the
// next term and is left out) and the highest log index it acknowledged as
// appended in the highest term in which it acknowledged anything.
type verifC12Promise struct {
	SentTerm, AckTerm, AckIndex uint64
}

func (n *verifC12Net) promised(node, slot int) verifC12Promise {
	n.mu.Lock()
	defer n.mu.Unlock()
	if p := n.promises[[2]int{node, slot}]; p != nil {
		return *p
	}
	return verifC12Promise{}
}

// observeLocked records what the sender commits itself to with m. It runs
// before any loss is applied: a promise is made when the message leaves the
// node, delivered or not.
func (n *verifC12Net) observeLocked(from, inc int, slot multiraft.SlotID, m raftpb.Message) {
	k := [2]int{from, int(slot)}
	p := n.promises[k]
	if p == nil {
		p = &verifC12Promise{}
		n.promises[k] = p
	}
	switch m.Type {
	case raftpb.MsgPreVote, raftpb.MsgPreVoteResp:
		return
	}
	if m.Term > p.SentTerm {
		p.SentTerm = m.Term
	}
	candidate := uint64(0)
	switch {
	case m.Type == raftpb.MsgVote:
		candidate = uint64(from)
	case m.Type == raftpb.MsgVoteResp && !m.Reject:
		candidate = m.To
	case m.Type == raftpb.MsgAppResp && !m.Reject:
		if m.Term > p.AckTerm {
			p.AckTerm, p.AckIndex = m.Term, m.Index
		} else if m.Term == p.AckTerm && m.Index > p.AckIndex {
			p.AckIndex = m.Index
		}
	}
	if candidate != 0 {
		vk := [4]uint64{uint64(from), uint64(slot), m.Term, candidate}
		if !n.votes[vk] {
			n.votes[vk] = true
			tk := [3]uint64{uint64(from), uint64(slot), m.Term}
			if prev, ok := n.votedFor[tk]; ok && prev != candidate {
				n.tripped.Store(true)
			} else {
				n.votedFor[tk] = candidate
			}
			n.c.hist.add(verifC12Event{Kind: "vote", Node: from, Slot: int(slot), Inc: inc, Term: m.Term, Peer: int(candidate)})
		}
	}
}

func verifC12NewNet(c *verifC12Cluster, seed int64, link verifC12Link) *verifC12Net {
	n := &verifC12Net{c: c, rng: rand.New(rand.NewSource(seed)), link: link, blocked: map[[2]int]bool{}, leaders: map[[2]uint64]int{},
		promises: map[[2]int]*verifC12Promise{}, votes: map[[4]uint64]bool{}, votedFor: map[[3]uint64]uint64{},
		wake: make(chan struct{}, 1), done: make(chan struct{})}
	go n.run()
	return n
}

func (n *verifC12Net) delayLocked() time.Duration {
	l := n.link
	if l.TailPermille > 0 && n.rng.Intn(1000) < l.TailPermille && l.TailUS > 0 {
		return time.Duration(n.rng.Intn(l.TailUS+1)) * time.Microsecond
	}
	d := l.DelayMinUS
	if l.DelayMaxUS > l.DelayMinUS {
		d += n.rng.Intn(l.DelayMaxUS - l.DelayMinUS + 1)
	}
	return time.Duration(d) * time.Microsecond
}

func (n *verifC12Net) send(from, inc int, batch []multiraft.Envelope) {
	now := time.Now()
	n.mu.Lock()
	if n.closed {
		n.mu.Unlock()
		return
	}
	for _, env := range batch {
		to := int(env.Message.To)
		n.sent.Add(1)
		n.observeLocked(from, inc, env.SlotID, env.Message)
		switch env.Message.Type {
		case raftpb.MsgApp, raftpb.MsgHeartbeat, raftpb.MsgSnap:
			k := [2]uint64{uint64(env.SlotID), env.Message.Term}
			if _, seen := n.leaders[k]; !seen {
				n.leaders[k] = from
				n.c.hist.add(verifC12Event{Kind: "leader", Node: from, Slot: int(env.SlotID), Term: env.Message.Term})
			}
		}
		if to < 1 || to > len(n.c.nodes) { // the phantom learner
			continue
		}
		if n.tripped.Load() {
			continue
		}
		if n.blocked[[2]int{from, to}] {
			n.blockedDrops.Add(1)
			continue
		}
		if n.link.DropPermille > 0 && n.rng.Intn(1000) < n.link.DropPermille {
			n.dropped.Add(1)
			continue
		}
		raw, err := env.Message.Marshal()
		if err != nil {
			continue
		}
		if env.Message.Type == raftpb.MsgSnap {
			n.snaps.Add(1)
		}
		copies := 1
		if n.link.DupPermille > 0 && n.rng.Intn(1000) < n.link.DupPermille {
			copies = 2
			n.duped.Add(1)
		}
		for i := 0; i < copies; i++ {
			n.seq++
			heap.Push(&n.q, &verifC12Packet{at: now.Add(n.delayLocked()), seq: n.seq, to: to, slot: env.SlotID, raw: raw})
		}
	}
	n.mu.Unlock()
	select {
	case n.wake <- struct{}{}:
	default:
	}
}

func (n *verifC12Net) run() {
	defer close(n.done)
	timer := time.NewTimer(time.Hour)
	defer timer.Stop()
	for {
		n.mu.Lock()
		if n.closed {
			n.mu.Unlock()
			return
		}
		var due []*verifC12Packet
		now := time.Now()
		for n.q.Len() > 0 && !n.q[0].at.After(now) {
			due = append(due, heap.Pop(&n.q).(*verifC12Packet))
		}
		var wait time.Duration = time.Hour
		if n.q.Len() > 0 {
			wait = n.q[0].at.Sub(now)
		}
		n.mu.Unlock()
		for _, p := range due {
			var m raftpb.Message
			if err := m.Unmarshal(p.raw); err != nil {
				continue
			}
			n.c.nodes[p.to-1].step(multiraft.Envelope{SlotID: p.slot, Message: m})
			n.delivered.Add(1)
		}
		if len(due) > 0 {
			continue
		}
		if !timer.Stop() {
			select {
			case <-timer.C:
			default:
			}
		}
		timer.Reset(wait)
		select {
		case <-n.wake:
		case <-timer.C:
		}
	}
}

func (n *verifC12Net) close() {
	n.mu.Lock()
	n.closed = true
	n.mu.Unlock()
	select {
	case n.wake <- struct{}{}:
	default:
	}
	<-n.done
}

func (n *verifC12Net) setLink(l verifC12Link) {
	n.mu.Lock()
	n.link = l
	n.mu.Unlock()
}

func (n *verifC12Net) block(from, to int) {
	n.mu.Lock()
	n.blocked[[2]int{from, to}] = true
	n.mu.Unlock()
}

func (n *verifC12Net) heal() {
	n.mu.Lock()
	n.blocked = map[[2]int]bool{}
	n.mu.Unlock()
}

type verifC12Transport struct {
	net  *verifC12Net
	from int
	inc  *verifC12Inc
}

func (t verifC12Transport) Send(_ context.Context, batch []multiraft.Envelope) error {
	if t.inc.dead.Load() {
		return nil
	}
	t.net.send(t.from, t.inc.n, batch)
	return nil
}

// ---------------------------------------------------------------- storage

// verifC12MemStore is raftlog.NewMemory() plus the one rule the Pebble store
// enforces and the runtime relies on: a snapshot older than the stored one is
// refused (raft.ErrSnapOutOfDate). The runtime persists an incoming raft
// snapshot before it waits for in-flight async apply tasks, so a compaction
// snapshot of an older index can reach Save afterwards; the plain in-memory
// test store would let it replace the newer snapshot (no production user).
type verifC12MemStore struct {
	multiraft.Storage
	mu        sync.Mutex
	snapIndex uint64
	c12Stale  int
}

func (s *verifC12MemStore) Save(ctx context.Context, st multiraft.PersistentState) error {
	if st.Snapshot == nil {
		return s.Storage.Save(ctx, st)
	}
	s.mu.Lock()
	defer s.mu.Unlock()
	if st.Snapshot.Metadata.Index < s.snapIndex {
		s.c12Stale++
		return raft.ErrSnapOutOfDate
	}
	if err := s.Storage.Save(ctx, st); err != nil {
		return err
	}
	s.snapIndex = st.Snapshot.Metadata.Index
	return nil
}

func (s *verifC12MemStore) MarkConfigApplied(ctx context.Context, index uint64) error {
	if inner, ok := s.Storage.(multiraft.ConfigAppliedIndexStorage); ok {
		return inner.MarkConfigApplied(ctx, index)
	}
	return nil
}

// verifC12Marks is what the harness knows about one (node, slot) storage
// from the calls the storage acknowledged; it outlives the incarnations.
type verifC12Marks struct {
	mu        sync.Mutex
	last      uint64   // index of the latest MarkApplied the storage acknowledged to a live incarnation
	pending   []uint64 // MarkApplied calls being executed
	maybe     []uint64 // MarkApplied calls the storage acknowledged after the incarnation had lost power
	ambiguous bool     // two MarkApplied calls overlapped: their order in the store is not known
	hs        raftpb.HardState
}

// allowed returns the applied indexes the storage may hold right now, or nil
// when that is not known.
func (m *verifC12Marks) allowed() []uint64 {
	m.mu.Lock()
	defer m.mu.Unlock()
	if m.ambiguous {
		return nil
	}
	return append(append([]uint64{m.last}, m.pending...), m.maybe...)
}

// reopened: the storage was read back at a restart; from here on its applied
// index is known again.
func (m *verifC12Marks) reopened(applied uint64) {
	m.mu.Lock()
	m.last, m.pending, m.maybe, m.ambiguous = applied, nil, nil, false
	m.mu.Unlock()
}

func (m *verifC12Marks) floor() uint64 {
	m.mu.Lock()
	defer m.mu.Unlock()
	if m.ambiguous {
		return 0
	}
	return m.last
}

// verifC12Fault is one armed crash point: the node that first performs the
// Nth matching storage write loses power there, before the write is durable
// or right after it.
type verifC12Fault struct {
	class  string // any, entries, hardstate, vote, snapshot, applied
	slot   int    // 0: any slot
	before bool
	unsynced int
	seed     uint64

	mu        sync.Mutex
	left      int
	claimed   bool
	cancelled bool
	node  int    // who lost power (0: nobody)
	what  string // the write it happened at
	vote  uint64 // class vote: the candidate the lost vote was for
	fired chan struct{}
}

func verifC12NewFault(class string, slot, nth int, before bool, unsynced int, seed uint64) *verifC12Fault {
	if nth < 1 {
		nth = 1
	}
	return &verifC12Fault{class: class, slot: slot, before: before, left: nth, unsynced: unsynced, seed: seed, fired: make(chan struct{})}
}

// claim reports whether the calling write is the crash point.
func (f *verifC12Fault) claim(slot int, what string) bool {
	if f.slot != 0 && f.slot != slot {
		return false
	}
	if f.class != "any" && f.class != what {
		return false
	}
	f.mu.Lock()
	defer f.mu.Unlock()
	if f.claimed || f.cancelled {
		return false
	}
	f.left--
	if f.left > 0 {
		return false
	}
	f.claimed = true
	return true
}

// cancel disarms the fault; it reports whether the fault had fired.
func (f *verifC12Fault) cancel() bool {
	f.mu.Lock()
	f.cancelled = true
	claimed := f.claimed
	f.mu.Unlock()
	if !claimed {
		return false
	}
	<-f.fired // a claimed fault always closes fired
	return f.node != 0
}

// verifC12Store sits between one incarnation of a slot and its storage. It
// refuses writes of an incarnation that lost power, keeps verifC12Marks, and
// hosts the armed crash point.
type verifC12Store struct {
	multiraft.Storage // reads go straight through
	n     *verifC12Node
	slot  int
	inc   *verifC12Inc
	marks *verifC12Marks
}

func (s *verifC12Store) crash(f *verifC12Fault, what string, vote uint64) {
	if s.n.powerOff(s.inc, "write:"+what, f.unsynced, f.seed) {
		f.node, f.what, f.vote = s.n.id, what, vote
	}
	close(f.fired)
}

func (s *verifC12Store) Save(ctx context.Context, st multiraft.PersistentState) error {
	if s.inc.dead.Load() {
		return s.inc.lost()
	}
	if f := s.n.fault.Load(); f != nil {
		what, vote := "hardstate", uint64(0)
		s.marks.mu.Lock()
		prev := s.marks.hs
		s.marks.mu.Unlock()
		switch {
		case st.Snapshot != nil:
			what = "snapshot"
		case st.HardState != nil && st.HardState.Vote != 0 && st.HardState.Vote != uint64(s.n.id) &&
			(st.HardState.Vote != prev.Vote || st.HardState.Term != prev.Term):
			what, vote = "vote", st.HardState.Vote
		case len(st.Entries) > 0:
			what = "entries"
		}
		if f.claim(s.slot, what) {
			if !f.before {
				if err := s.Storage.Save(ctx, st); err == nil && st.HardState != nil {
					s.marks.mu.Lock()
					s.marks.hs = *st.HardState
					s.marks.mu.Unlock()
				}
				what += "(durable)"
			}
			s.crash(f, what, vote)
			return s.inc.lost()
		}
	}
	err := s.Storage.Save(ctx, st)
	if err == nil && st.HardState != nil {
		s.marks.mu.Lock()
		s.marks.hs = *st.HardState
		s.marks.mu.Unlock()
	}
	return err
}

func (s *verifC12Store) markApplied(ctx context.Context, index uint64) error {
	m := s.marks
	m.mu.Lock()
	if len(m.pending) > 0 {
		m.ambiguous = true
	}
	m.pending = append(m.pending, index)
	m.mu.Unlock()
	err := s.Storage.MarkApplied(ctx, index)
	m.mu.Lock()
	for i, p := range m.pending {
		if p == index {
			m.pending = append(m.pending[:i], m.pending[i+1:]...)
			break
		}
	}
	// an acknowledgement that arrives after the power was lost is not known
	// to be in the crash image: the value stays a possibility
	if err == nil {
		if s.inc.dead.Load() {
			m.maybe = append(m.maybe, index)
		} else {
			m.last = index
		}
	}
	m.mu.Unlock()
	return err
}

func (s *verifC12Store) MarkApplied(ctx context.Context, index uint64) error {
	if s.inc.dead.Load() {
		return s.inc.lost()
	}
	if f := s.n.fault.Load(); f != nil && f.claim(s.slot, "applied") {
		what := "applied"
		if !f.before {
			_ = s.markApplied(ctx, index)
			what += "(durable)"
		}
		s.crash(f, what, 0)
		return s.inc.lost()
	}
	return s.markApplied(ctx, index)
}

func (s *verifC12Store) MarkConfigApplied(ctx context.Context, index uint64) error {
	if s.inc.dead.Load() {
		return s.inc.lost()
	}
	if inner, ok := s.Storage.(multiraft.ConfigAppliedIndexStorage); ok {
		return inner.MarkConfigApplied(ctx, index)
	}
	return nil
}

// ---------------------------------------------------------------- node / cluster

type verifC12Node struct {
	c  *verifC12Cluster
	id int

	mu     sync.RWMutex
	rt     *multiraft.Runtime
	db     *raftlog.DB
	inc    *verifC12Inc
	fs     *vfs.MemFS          // Kill / MemFS mode: the file system pebble lives on
	image  *vfs.MemFS          // Kill mode: crash image taken when the power was lost
	mem    []multiraft.Storage // per slot, memory backend (survives "restart")
	recs   []*verifC12Rec      // per slot
	marks  []*verifC12Marks    // per slot
	starts int

	fault atomic.Pointer[verifC12Fault]
}

func (n *verifC12Node) runtime() *multiraft.Runtime {
	n.mu.RLock()
	defer n.mu.RUnlock()
	return n.rt
}

func (n *verifC12Node) step(env multiraft.Envelope) {
	rt := n.runtime()
	if rt == nil {
		return
	}
	_ = rt.Step(context.Background(), env)
}

type verifC12Cluster struct {
	cfg   verifC12Config
	dir   string
	hist  *verifC12History
	net   *verifC12Net
	nodes []*verifC12Node

	inflight atomic.Int64 // accepted proposals whose future has not resolved yet
	pending  sync.Map     // proposal id -> node it was submitted on, while unresolved
}

func verifC12NewCluster(cfg verifC12Config, dir string) *verifC12Cluster {
	c := &verifC12Cluster{cfg: cfg, dir: dir, hist: &verifC12History{Config: cfg}}
	for i := 1; i <= cfg.Nodes; i++ {
		n := &verifC12Node{c: c, id: i}
		for s := 1; s <= cfg.Slots; s++ {
			n.recs = append(n.recs, &verifC12Rec{c: c, node: i, slot: s})
			n.marks = append(n.marks, &verifC12Marks{})
			if !cfg.Pebble {
				n.mem = append(n.mem, &verifC12MemStore{Storage: raftlog.NewMemory()})
			}
		}
		c.nodes = append(c.nodes, n)
	}
	c.net = verifC12NewNet(c, cfg.Seed, cfg.Link)
	return c
}

func (c *verifC12Cluster) voters() []multiraft.NodeID {
	out := make([]multiraft.NodeID, 0, c.cfg.Nodes)
	for i := 1; i <= c.cfg.Nodes; i++ {
		out = append(out, multiraft.NodeID(i))
	}
	return out
}

// start opens the node's storage and runtime. The first start bootstraps
// every slot with the full voter set; later starts reopen from storage.
func (n *verifC12Node) start() (err error) {
	defer func() {
		// etcd/raft panics when the state it is given is inconsistent
		if p := recover(); p != nil {
			err = fmt.Errorf("%w: node %d: %v", verifC12ErrRestart, n.id, p)
		}
	}()
	cfg := n.c.cfg
	var db *raftlog.DB
	if cfg.Pebble {
		var err error
		opts := raftlog.Options{WriteBatchMaxWait: 200 * time.Microsecond}
		// the pebble-options hook is process-global: every Open of this
		// harness goes through one mutex
		verifC12OpenMu.Lock()
		raftlog.VerifPebbleOptions = func(o *pebble.Options) { o.Logger = verifC12NoLog{} }
		if cfg.Kill || cfg.MemFS {
			if n.fs == nil {
				n.fs = vfs.NewCrashableMem()
			}
			fs := n.fs
			raftlog.VerifPebbleOptions = func(o *pebble.Options) { o.FS, o.Logger = fs, verifC12NoLog{} }
		}
		if cfg.Kill {
			// an incarnation that lost power keeps running in this process
			// until closed; its snapshot GC must not delete directories the
			// crash image still refers to
			opts.SnapshotGCGrace = time.Hour
		}
		db, err = raftlog.Open(filepath.Join(n.c.dir, fmt.Sprintf("node-%d", n.id)), opts)
		raftlog.VerifPebbleOptions = nil
		verifC12OpenMu.Unlock()
		if err != nil {
			return fmt.Errorf("raftlog.Open node %d: %w", n.id, err)
		}
	}
	inc := &verifC12Inc{n: n.starts + 1, release: make(chan struct{})}
	compaction := multiraft.LogCompactionConfig{Enabled: cfg.Trigger > 0, EnabledSet: true, TriggerEntries: cfg.Trigger, CheckInterval: time.Nanosecond}
	rt, err := multiraft.New(multiraft.Options{
		NodeID:       multiraft.NodeID(n.id),
		TickInterval: time.Duration(cfg.TickMS) * time.Millisecond,
		Workers:      cfg.Workers,
		Transport:    verifC12Transport{net: n.c.net, from: n.id, inc: inc},
		Raft: multiraft.RaftOptions{
			ElectionTick:     cfg.ElectionTick,
			HeartbeatTick:    cfg.HeartbeatTick,
			PreVote:          cfg.PreVote,
			CheckQuorum:      cfg.CheckQuorum,
			MaxSizePerMsg:    cfg.MaxSizePerMsg,
			MaxInflight:      cfg.MaxInflight,
			MaxApplyingTasks: cfg.MaxApplying,
			LogCompaction:    compaction,
		},
	})
	if err != nil {
		if db != nil {
			_ = db.Close()
		}
		return fmt.Errorf("multiraft.New node %d: %w", n.id, err)
	}
	first := n.starts == 0
	n.starts++
	n.c.hist.add(verifC12Event{Kind: "open", Node: n.id, Inc: n.starts})
	ctx := context.Background()
	for s := 1; s <= cfg.Slots; s++ {
		rec := n.recs[s-1]
		rec.inc.Store(int32(n.starts))
		var inner multiraft.Storage
		if cfg.Pebble {
			inner = db.ForSlot(uint64(s))
		} else {
			inner = n.mem[s-1]
		}
		if !first {
			// what the storage holds for the new incarnation, next to what the
			// earlier ones had told their peers
			bs, err1 := inner.InitialState(ctx)
			last, err2 := inner.LastIndex(ctx)
			if err1 == nil && err2 == nil {
				// the previous incarnation is closed: no MarkApplied is executing any more
				p := n.c.net.promised(n.id, s)
				if p.SentTerm > bs.HardState.Term || (p.AckTerm != 0 && p.AckTerm == bs.HardState.Term && last < p.AckIndex) {
					n.c.net.tripped.Store(true) // clause (P) is violated: see tripped
				}
				n.c.hist.add(verifC12Event{Kind: "durable", Node: n.id, Slot: s, Inc: n.starts, Term: bs.HardState.Term, Vote: bs.HardState.Vote,
					Last: last, Index: bs.AppliedIndex, SentTerm: p.SentTerm, AckTerm: p.AckTerm, AckIndex: p.AckIndex, Marks: n.marks[s-1].allowed()})
				n.marks[s-1].reopened(bs.AppliedIndex)
			}
		}
		st := &verifC12Store{Storage: inner, n: n, slot: s, inc: inc, marks: n.marks[s-1]}
		opts := multiraft.SlotOptions{ID: multiraft.SlotID(s), Storage: st, StateMachine: rec.sm(cfg.SMKind, inc)}
		rec.opening.Store(true)
		if first {
			err = rt.BootstrapSlot(ctx, multiraft.BootstrapSlotRequest{Slot: opts, Voters: n.c.voters(), Campaign: (s-1)%cfg.Nodes+1 == n.id})
		} else {
			err = rt.OpenSlot(ctx, opts)
		}
		rec.opening.Store(false)
		if err != nil {
			_ = rt.Close()
			if db != nil {
				_ = db.Close()
			}
			if !first {
				return fmt.Errorf("%w: OpenSlot(%d) on node %d: %v", verifC12ErrRestart, s, n.id, err)
			}
			return fmt.Errorf("bootstrap slot %d on node %d: %w", s, n.id, err)
		}
	}
	n.mu.Lock()
	n.rt, n.db, n.inc = rt, db, inc
	n.mu.Unlock()
	return nil
}

var verifC12OpenMu sync.Mutex

// verifC12NoLog keeps Pebble's WAL-replay chatter out of the unit logs.
type verifC12NoLog struct{}

func (verifC12NoLog) Infof(string, ...any)  {}
func (verifC12NoLog) Errorf(string, ...any) {}
func (verifC12NoLog) Fatalf(format string, a ...any) {
	panic(fmt.Sprintf("pebble fatal: "+format, a...))
}

// verifC12ErrRestart marks a node that could not come back from what its own
// storage holds (OpenSlot error or raft panic on the loaded state).
var verifC12ErrRestart = errors.New("restart from own storage failed")

// powerOff is the instant a node loses power: from here on nothing of this
// incarnation reaches the network, the state machine or the storage, and (in
// Kill mode) the storage the next incarnation opens is a crash image of the
// file system taken now (synced data survives, unsynced data survives only
// partly). The state machine keeps its state like a durable FSM: it is frozen
// while the image is taken, so it holds exactly what it had applied by then.
// It may be called from inside a storage write of the incarnation itself; the
// runtime is closed later by reap. It reports whether inc was the running
// incarnation.
func (n *verifC12Node) powerOff(inc *verifC12Inc, cause string, unsyncedPercent int, seed uint64) bool {
	n.mu.Lock()
	if n.rt == nil || n.inc != inc || inc.dead.Load() {
		n.mu.Unlock()
		return false
	}
	for _, r := range n.recs {
		r.mu.Lock()
	}
	inc.dead.Store(true)
	if n.c.cfg.Kill {
		n.image = n.fs.CrashClone(vfs.CrashCloneCfg{UnsyncedDataPercent: unsyncedPercent, RNG: mrand2.New(mrand2.NewPCG(seed, 12))})
	}
	floors := make([]uint64, len(n.marks))
	for i, m := range n.marks {
		floors[i] = m.floor()
	}
	for _, r := range n.recs {
		r.mu.Unlock()
	}
	starts := n.starts
	n.mu.Unlock()
	n.c.hist.add(verifC12Event{Kind: "kill", Node: n.id, Inc: starts, Err: cause, Floors: floors})
	return true
}

// reap closes the runtime and storage handles of an incarnation that lost
// power and puts the crash image in place.
func (n *verifC12Node) reap() error {
	n.mu.Lock()
	rt, db, inc := n.rt, n.db, n.inc
	n.rt, n.db = nil, nil
	n.mu.Unlock()
	if rt == nil {
		return nil
	}
	err := verifC12CloseRuntime(rt, inc)
	if db != nil {
		_ = db.Close()
	}
	if n.image != nil {
		n.fs, n.image = n.image, nil
	}
	return err
}

// verifC12CloseRuntime closes a runtime. Storage writes of an incarnation
// that lost power are parked; they are let go as soon as Close has marked
// the runtime closed (from then on no slot is processed any more), so that
// Close can collect the workers.
func verifC12CloseRuntime(rt *multiraft.Runtime, inc *verifC12Inc) error {
	if inc == nil || !inc.dead.Load() {
		return rt.Close()
	}
	errc := make(chan error, 1)
	go func() { errc <- rt.Close() }()
	for {
		if _, err := rt.Status(1); errors.Is(err, multiraft.ErrRuntimeClosed) {
			break
		}
		time.Sleep(50 * time.Microsecond)
	}
	inc.releaseOnce.Do(func() { close(inc.release) })
	return <-errc
}

// kill simulates a power loss at an arbitrary instant.
func (n *verifC12Node) kill(unsyncedPercent int, seed uint64) error {
	n.mu.RLock()
	inc := n.inc
	n.mu.RUnlock()
	if inc != nil {
		n.powerOff(inc, "power", unsyncedPercent, seed)
	}
	return n.reap()
}

// stop closes the runtime and then its storage (a process stop: everything
// the runtime reported durable stays, everything in memory is gone).
func (n *verifC12Node) stop() error {
	n.mu.Lock()
	rt, db, inc := n.rt, n.db, n.inc
	n.rt, n.db = nil, nil
	n.mu.Unlock()
	if rt == nil {
		return nil
	}
	err := verifC12CloseRuntime(rt, inc)
	n.c.hist.add(verifC12Event{Kind: "close", Node: n.id, Inc: n.starts})
	if db != nil {
		if e := db.Close(); e != nil && err == nil {
			err = e
		}
	}
	return err
}

// leaderOf returns the node that currently claims leadership of slot with the
// highest term, or 0.
func (c *verifC12Cluster) leaderOf(slot int) (int, uint64) {
	best, bestTerm := 0, uint64(0)
	for _, n := range c.nodes {
		rt := n.runtime()
		if rt == nil {
			continue
		}
		st, err := rt.Status(multiraft.SlotID(slot))
		if err != nil {
			continue
		}
		if st.Role == multiraft.RoleLeader && st.Term >= bestTerm {
			best, bestTerm = n.id, st.Term
		}
	}
	return best, bestTerm
}
